#!/bin/bash
# regen_evidence.sh: rewrite every evidence file from a quick run on the current (clean) tree
cd /verif
if [ -n "$(git -C /repo status --short)" ]; then echo "/repo is not clean"; exit 2; fi
./build.sh || exit 2
rc=0
for i in 01 02 03 04 05 06 07 08 09 10 11 12 13 14 15 16 17 18 19 20; do
  ./check C$i --tier quick 2>&1 | grep -E "^(VIOLATION|C[0-9]+ quick)" | cut -c1-160
  [ ${PIPESTATUS[0]} -ne 0 ] && rc=1
done
exit $rc
