(* driver.ml -- runs the extracted Gallina model (model.ml) on a command script read from
   stdin and prints one canonical result per command; the Python harness prints the same
   lines for the implementation.  Only parsing and printing live here: every command's
   meaning is Model.exec. *)
open Model

(* ---- conversions between OCaml and the extracted numerals / strings ---- *)
let rec nat_of_int n = if n <= 0 then O else S (nat_of_int (n - 1))
let rec int_of_nat = function O -> 0 | S n -> 1 + int_of_nat n
let rec pos_of_int n =
  if n = 1 then XH else if n land 1 = 0 then XO (pos_of_int (n / 2)) else XI (pos_of_int (n / 2))
let z_of_int n = if n = 0 then Z0 else if n > 0 then Zpos (pos_of_int n) else Zneg (pos_of_int (- n))
let rec int_of_pos = function XH -> 1 | XO p -> 2 * int_of_pos p | XI p -> 2 * int_of_pos p + 1
let int_of_z = function Z0 -> 0 | Zpos p -> int_of_pos p | Zneg p -> - (int_of_pos p)
let cl_of_string s = List.init (String.length s) (String.get s)
let string_of_cl l = String.of_seq (List.to_seq l)

(* ---- escaping: bytes outside [A-Za-z0-9_.>-] are %XX ---- *)
let safe c = (c >= 'a' && c <= 'z') || (c >= 'A' && c <= 'Z') || (c >= '0' && c <= '9')
             || c = '_' || c = '.' || c = '>' || c = '-'
let esc s =
  let b = Buffer.create 16 in
  String.iter (fun c -> if safe c then Buffer.add_char b c
                else Buffer.add_string b (Printf.sprintf "%%%02X" (Char.code c))) s;
  Buffer.contents b
let unesc s =
  let b = Buffer.create 16 in
  let n = String.length s in
  let i = ref 0 in
  while !i < n do
    if s.[!i] = '%' && !i + 2 < n + 0 then begin
      Buffer.add_char b (Char.chr (int_of_string ("0x" ^ String.sub s (!i + 1) 2))); i := !i + 3
    end else begin Buffer.add_char b s.[!i]; incr i end
  done;
  Buffer.contents b

(* ---- names: i<int> | s<esc> | f<m>e<e> | (n,n,...) ---- *)
let rec parse_name_at (s : string) (i : int) : name * int =
  let n = String.length s in
  let until_delim j = let k = ref j in
    while !k < n && s.[!k] <> ',' && s.[!k] <> ')' do incr k done; !k in
  match s.[i] with
  | 'i' -> let k = until_delim (i + 1) in (NInt (z_of_int (int_of_string (String.sub s (i + 1) (k - i - 1)))), k)
  | 's' -> let k = until_delim (i + 1) in (NStr (cl_of_string (unesc (String.sub s (i + 1) (k - i - 1)))), k)
  | 'f' -> let k = until_delim (i + 1) in
    let body = String.sub s (i + 1) (k - i - 1) in
    let e = String.index body 'e' in
    (NFlt (z_of_int (int_of_string (String.sub body 0 e)),
           z_of_int (int_of_string (String.sub body (e + 1) (String.length body - e - 1)))), k)
  | '(' ->
    if s.[i + 1] = ')' then (NTup [], i + 2) else
    let rec items j acc =
      let (x, j') = parse_name_at s j in
      if s.[j'] = ',' then items (j' + 1) (x :: acc)
      else if s.[j'] = ')' then (NTup (List.rev (x :: acc)), j' + 1)
      else failwith ("bad tuple " ^ s) in
    items (i + 1) []
  | _ -> failwith ("bad name " ^ s)
let parse_name s = let (x, j) = parse_name_at s 0 in
  if j <> String.length s then failwith ("trailing junk in name " ^ s) else x
let rec tok_of_name = function
  | NInt z -> "i" ^ string_of_int (int_of_z z)
  | NStr s -> "s" ^ esc (string_of_cl s)
  | NFlt (m, e) -> "f" ^ string_of_int (int_of_z m) ^ "e" ^ string_of_int (int_of_z e)
  | NTup l -> "(" ^ String.concat "," (List.map tok_of_name l) ^ ")"

(* ---- token stream ---- *)
exception Parse of string
let toks : string list ref = ref []
let next () = match !toks with [] -> raise (Parse "eol") | t :: r -> toks := r; t
let peek () = match !toks with [] -> raise (Parse "eol") | t :: _ -> t
let p_var () = cl_of_string (next ())
let p_name () = parse_name (next ())
let p_nat () = nat_of_int (int_of_string (next ()))
let p_int () = z_of_int (int_of_string (next ()))
let p_bool () = match next () with "1" -> true | "0" -> false | t -> raise (Parse ("bool " ^ t))
let p_idx () = let t = next () in
  if t.[0] <> 'q' then raise (Parse ("idx " ^ t)) else z_of_int (int_of_string (String.sub t 1 (String.length t - 1)))
let p_list (item : unit -> 'a) : 'a list =
  (match next () with "[" -> () | t -> raise (Parse ("expected [ got " ^ t)));
  let rec go acc = if peek () = "]" then (ignore (next ()); List.rev acc) else go (item () :: acc) in
  go []
let p_names () = p_list p_name
let p_optname () = if peek () = "-" then (ignore (next ()); None) else Some (p_name ())
let p_optnats () = if peek () = "-" then (ignore (next ()); None) else Some (p_list p_nat)
let p_optnames () = if peek () = "-" then (ignore (next ()); None) else Some (p_names ())
let p_str () = let t = next () in
  if t.[0] <> 's' then raise (Parse ("str " ^ t)) else cl_of_string (unesc (String.sub t 1 (String.length t - 1)))
let p_aval () = let t = next () in
  match t.[0] with
  | 'i' -> AInt (z_of_int (int_of_string (String.sub t 1 (String.length t - 1))))
  | 's' -> AStr (cl_of_string (unesc (String.sub t 1 (String.length t - 1))))
  | _ -> raise (Parse ("aval " ^ t))
let p_attr () =
  let t = peek () in
  if t = "-" then (ignore (next ()); ANone)
  else if t.[0] = '#' then (ignore (next ()); ARef (nat_of_int (int_of_string (String.sub t 1 (String.length t - 1)))))
  else begin
    (match next () with "{" -> () | t -> raise (Parse ("expected { got " ^ t)));
    let rec go acc = if peek () = "}" then (ignore (next ()); List.rev acc)
      else (let k = p_str () in let v = p_aval () in go ((k, v) :: acc)) in
    ANew (go [])
  end
let p_ren () =
  match next () with
  | "-" -> RNone
  | "map" -> let l = p_names () in
    let rec pairs = function a :: b :: r -> (a, b) :: pairs r | [] -> [] | _ -> raise (Parse "odd map") in
    RMap (pairs l)
  | "tup" -> RFun (FTup (p_int ()))
  | "count" -> RFun (FCount (p_int ()))
  | "prefix" -> RFun (FPrefix (p_str ()))
  | "const" -> RFun (FConst (p_name ()))
  | t -> raise (Parse ("ren " ^ t))
let p_cmpop () = match next () with
  | "le" -> OpLe | "lt" -> OpLt | "ge" -> OpGe | "gt" -> OpGt | "eq" -> OpEq | "ne" -> OpNe
  | t -> raise (Parse ("cmpop " ^ t))
let p_orders () =
  (match next () with "[" -> () | t -> raise (Parse ("expected [ got " ^ t)));
  let rec go acc = if peek () = "]" then (ignore (next ()); List.rev acc)
    else (let i = p_idx () in let l = p_names () in go ((i, l) :: acc)) in
  go []
let p_pairs () =
  let l = p_list p_nat in
  let rec pairs = function a :: b :: r -> (a, b) :: pairs r | [] -> [] | _ -> raise (Parse "odd pairs") in
  pairs l

let p_query () : query =
  match next () with
  | "order" -> QOrder (p_name ()) | "index" -> QIndex (p_name ()) | "faces" -> QFaces (p_name ())
  | "cofaces" -> QCofaces (p_name ()) | "basis" -> QBasis (p_name ()) | "contains" -> QContains (p_name ())
  | "maxorder" -> QMaxOrder | "counts" -> QCounts | "total" -> QTotal
  | "simplices" -> QSimplices (p_bool ()) | "oforder" -> QOfOrder (p_nat ())
  | "closure" -> let s = p_name () in let r = p_bool () in let e = p_bool () in QClosure (s, r, e)
  | "partof" -> let s = p_name () in let r = p_bool () in let e = p_bool () in QPartOf (s, r, e)
  | "withbasis" -> QWithBasis (p_names ()) | "withfaces" -> QWithFaces (p_names ())
  | "containsbasis" -> QContainsBasis (p_names ()) | "isbasis" -> QIsBasis (p_names ())
  | "disjoint" -> QDisjoint (p_names ()) | "boundary" -> QBoundary (p_names ())
  | "bop" -> QBop (p_nat ()) | "snf" -> QSnf (p_nat ())
  | "Z" -> QZ (p_optnats ()) | "betti" -> QBetti (p_optnats ())
  | "euler" -> QEuler
  | "cmp" -> let o = p_cmpop () in let w = p_var () in QCmp (o, w)
  | "attr" -> QAttr (p_name ())
  | "integrate" -> let a = p_str () in let d = p_int () in QIntegrate (a, d)
  | "getindex" -> QGetIndex | "indices" -> QIndices (p_bool ()) | "isindex" -> QIsIndex (p_idx ())
  | "addedat" -> QAddedAt (p_name ())
  | "addedatindex" -> let i = p_idx () in let r = p_bool () in QAddedAtIndex (i, r)
  | "containssome" -> QContainsSome (p_name ())
  | t -> raise (Parse ("query " ^ t))

let p_cmd (kw : string) : cmd =
  match kw with
  | "new" -> CNew (p_var ())
  | "newf" -> let v = p_var () in let i = p_idx () in CNewF (v, i)
  | "copy" -> let w = p_var () in let v = p_var () in let o = p_orders () in CCopy (w, v, o)
  | "copyinto" -> let v = p_var () in let w = p_var () in CCopyInto (v, w)
  | "deepcopy" -> let w = p_var () in let v = p_var () in CDeepCopy (w, v)
  | "compose" -> let w = p_var () in let a = p_var () in let b = p_var () in CCompose (w, a, b)
  | "composeinto" -> let a = p_var () in let b = p_var () in let d = p_var () in CComposeInto (a, b, d)
  | "flag" -> let w = p_var () in let v = p_var () in CFlag (w, v)
  | "json" -> let w = p_var () in let v = p_var () in CJson (w, v)
  | "snapf" -> let w = p_var () in let f = p_var () in CSnapF (w, f)
  | "snapinto" -> let f = p_var () in let w = p_var () in CSnapInto (f, w)
  | "complexes" -> let f = p_var () in let pre = p_var () in CComplexes (f, pre)
  | "nextof" -> let w = p_var () in let f = p_var () in let n = p_nat () in CNextOf (w, f, n)
  | "vr" -> let w = p_var () in let v = p_var () in let c = p_pairs () in CVR (w, v, c)
  | "gen" ->
    let g = (match next () with "simplex" -> GSimplex | "void" -> GVoid | "skeleton" -> GSkeleton
                                | "ring" -> GRing | t -> raise (Parse ("gen " ^ t))) in
    let v = p_var () in let n = p_nat () in let id = p_optname () in let a = p_attr () in CGen (g, v, n, id, a)
  | "lattice" -> let w = p_var () in let r = p_nat () in let c = p_nat () in CLattice (w, r, c)
  | "add" -> let v = p_var () in let fs = p_names () in let id = p_optname () in let a = p_attr () in CAdd (v, fs, id, a)
  | "addb" -> let v = p_var () in let bs = p_names () in let id = p_optname () in let a = p_attr () in CAddB (v, bs, id, a)
  | "ensure" -> let v = p_var () in let bs = p_names () in let a = p_attr () in CEnsure (v, bs, a)
  | "addfrom" -> let v = p_var () in let w = p_var () in let r = p_ren () in CAddFrom (v, w, r)
  | "del" -> let v = p_var () in let s = p_name () in CDel (v, s)
  | "delb" -> let v = p_var () in let bs = p_names () in CDelB (v, bs)
  | "dels" -> let v = p_var () in let ss = p_names () in CDels (v, ss)
  | "restrict" -> let v = p_var () in let bs = p_names () in CRestrict (v, bs)
  | "subdiv" -> let v = p_var () in let s = p_name () in let o = p_names () in CSubdiv (v, s, o)
  | "relabel" -> let v = p_var () in let r = p_ren () in CRelabel (v, r)
  | "relabel1" -> let v = p_var () in let s = p_name () in let q = p_name () in CRelabel1 (v, s, q)
  | "relabeldisj" -> let v = p_var () in let w = p_var () in CRelabelDisj (v, w)
  | "setattr" -> let v = p_var () in let s = p_name () in let k = p_str () in let x = p_aval () in CSetAttr (v, s, k, x)
  | "setattrs" -> let v = p_var () in let s = p_name () in let a = p_attr () in CSetAttrs (v, s, a)
  | "grow" -> let v = p_var () in let ss = p_names () in CGrow (v, ss)
  | "setindex" -> let f = p_var () in let i = p_idx () in CSetIndex (f, i)
  | "next" -> CNext (p_var ()) | "prev" -> CPrev (p_var ())
  | "min" -> CMin (p_var ()) | "max" -> CMax (p_var ())
  | "emb" -> let e = p_var () in let v = p_var () in let d = p_nat () in CEmb (e, v, d)
  | "pos" -> let e = p_var () in let s = p_name () in let p = p_list p_var in CPos (e, s, p)
  | "getpos" -> let e = p_var () in let s = p_name () in CGetPos (e, s)
  | "positions" -> let e = p_var () in let ss = p_optnames () in CPositions (e, ss)
  | "clear" -> CClear (p_var ()) | "len" -> CLen (p_var ())
  | "in" -> let e = p_var () in let s = p_name () in CIn (e, s)
  | "calls" -> CCalls (p_var ())
  | "q" -> let v = p_var () in let q = p_query () in CQuery (v, q)
  | t -> raise (Parse ("command " ^ t))

(* ---- printing ---- *)
let exn_s = function
  | KeyError -> "KeyError" | ValueError -> "ValueError" | TypeError -> "TypeError"
  | IndexError -> "IndexError" | PlainException -> "Exception" | OutOfFuel -> "OutOfFuel"
let sorted_toks l = List.sort_uniq compare (List.map tok_of_name l)
let set_s l = "{ " ^ String.concat " " (sorted_toks l) ^ " }"
let list_s l = "[ " ^ String.concat " " (List.map tok_of_name l) ^ " ]"
let idx_s i = "q" ^ string_of_int (int_of_z i)
let mat_s ((nr, nc), rows) =
  Printf.sprintf "M %dx%d %s" (int_of_nat nr) (int_of_nat nc)
    (String.concat "/" (List.map (fun r -> String.concat "" (List.map (fun b -> if b then "1" else "0") r)) rows))
let aval_s = function AInt z -> "i" ^ string_of_int (int_of_z z) | AStr s -> "s" ^ esc (string_of_cl s)
let dict_s d =
  "{ " ^ String.concat " " (List.sort compare (List.map (fun (k, v) -> "s" ^ esc (string_of_cl k) ^ "=" ^ aval_s v) d)) ^ " }"
let coords_s l = "[ " ^ String.concat " " (List.map string_of_cl l) ^ " ]"
let pairs_s l = "{ " ^ String.concat " " (List.sort_uniq compare (List.map (fun (a, b) -> tok_of_name a ^ "=>" ^ tok_of_name b) l)) ^ " }"
let value_s = function
  | VUnit -> "" | VBool b -> if b then "T" else "F"
  | VInt z -> string_of_int (int_of_z z) | VNat n -> string_of_int (int_of_nat n) | VIdx i -> idx_s i
  | VName n -> tok_of_name n
  | VOptName None -> "None" | VOptName (Some n) -> tok_of_name n
  | VNames l -> list_s l | VNameSet l -> set_s l
  | VGroups l -> "[ " ^ String.concat " " (List.map set_s l) ^ " ]"
  | VPairs l -> pairs_s l
  | VMat m -> mat_s m
  | VNats l -> "[ " ^ String.concat " " (List.map (fun n -> string_of_int (int_of_nat n)) l) ^ " ]"
  | VBetti l ->
    "{ " ^ String.concat " " (List.map (fun (k, v) -> Printf.sprintf "%d:%d" k v)
                                (List.sort_uniq compare (List.map (fun (k, v) -> (int_of_nat k, int_of_z v)) l))) ^ " }"
  | VChains l ->
    "{ " ^ String.concat " "
      (List.map (fun (k, cs) -> Printf.sprintf "%d:[ %s ]" k (String.concat " " cs))
         (List.sort_uniq compare
            (List.map (fun (k, cs) -> (int_of_nat k, List.map (fun c -> "(" ^ String.concat " " (List.map tok_of_name c) ^ ")") cs)) l))) ^ " }"
  | VDict d -> dict_s d
  | VIdxs l -> "[ " ^ String.concat " " (List.map idx_s l) ^ " ]"
  | VCoords l -> coords_s l
  | VPosMap l -> "{ " ^ String.concat " " (List.sort compare (List.map (fun (n, p) -> tok_of_name n ^ ":" ^ coords_s p) l)) ^ " }"
  | VCallLog (m, calls) -> pairs_s m ^ " calls " ^ list_s calls
let outcome_s = function
  | OkV v -> let s = value_s v in if s = "" then "ok" else "ok " ^ s
  | Err e -> "err " ^ exn_s e

let print_snapshot (sn : snapshot) =
  Printf.printf "SNAP kind=%d max=%d\n" (int_of_nat sn.sn_kind) (int_of_z sn.sn_max);
  List.iteri (fun k l -> Printf.printf "L%d %s\n" k (list_s l)) sn.sn_orders;
  Printf.printf "ALL %s\n" (list_s sn.sn_all);
  Printf.printf "REV %s\n" (list_s sn.sn_rev);
  List.iter (fun s ->
      Printf.printf "S %s o=%d i=%d F%s C%s B%s A%s\n" (tok_of_name s.ss_name) (int_of_nat s.ss_order)
        (int_of_nat s.ss_index) (set_s s.ss_faces) (set_s s.ss_cofaces) (set_s s.ss_basis) (dict_s s.ss_attr))
    sn.sn_simplices;
  List.iteri (fun k m -> Printf.printf "B%d %s\n" k (mat_s m)) sn.sn_bops;
  if int_of_nat sn.sn_kind = 1 then begin
    Printf.printf "I %s %s\n" (idx_s sn.sn_index) ("[ " ^ String.concat " " (List.map idx_s sn.sn_indices) ^ " ]");
    List.iter (fun (n, i) -> Printf.printf "BIRTH %s %s\n" (tok_of_name n) (idx_s i)) sn.sn_births
  end;
  print_endline "END"

let print_ids (w : world) =
  (* classes of attribute dict identity over all complex variables and script dicts *)
  let members = List.map (fun ((v, n), h) -> (h, string_of_cl v ^ "/" ^ tok_of_name n)) (identities w) in
  let members = members @ List.mapi (fun k h -> (h, "#" ^ string_of_int k)) w.w_dicts in
  let tbl = Hashtbl.create 64 in
  List.iter (fun ((a, b), m) ->
      let key = (int_of_nat a, int_of_nat b) in
      Hashtbl.replace tbl key (m :: (try Hashtbl.find tbl key with Not_found -> []))) members;
  let classes = Hashtbl.fold (fun _ ms acc -> String.concat " " (List.sort compare ms) :: acc) tbl [] in
  print_endline ("ok ids | " ^ String.concat " | " (List.sort compare classes))

let () =
  let w = ref world0 in
  (try
     while true do
       let line = input_line stdin in
       toks := List.filter (fun s -> s <> "") (String.split_on_char ' ' line);
       (match !toks with
        | [] -> ()
        | "reset" :: _ -> w := world0; print_endline "ok reset"
        | "echo" :: _ -> print_endline line
        | "snap" :: v :: _ ->
          (match snapshot_of !w (cl_of_string v) with
           | Some sn -> print_snapshot sn
           | None -> print_endline "err NoSuchVar")
        | "ids" :: _ -> print_ids !w
        | kw :: rest ->
          toks := rest;
          (try
             let c = p_cmd kw in
             if !toks <> [] then raise (Parse ("trailing tokens in: " ^ line));
             let (w', o) = exec !w c in
             w := w';
             print_endline (outcome_s o)
           with Parse m -> print_endline ("PARSE-ERROR " ^ m); exit 3
              | Failure m -> print_endline ("PARSE-ERROR " ^ m ^ " in: " ^ line); exit 3))
     done
   with End_of_file -> ())
