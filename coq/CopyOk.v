(* CopyOk.v -- copy() of a complex that meets the vertex-set reading never fails (C09, C11, C12):
   the source lists its simplices order by order, so when a simplex's turn comes its faces are in
   the copy with the right order, its name is not, and no simplex of the copy has the same faces
   (two simplices of the source with the same faces would have the same points).  Plain Coq. *)
From Coq Require Import String ZArith Bool Arith List Lia.
From SV Require Import Names NamesFacts ListFacts Rep Fresh Complex Atomic RepInv Reach Shapes ShapesReach Incidence AddEffect
                       Closed ClosedReach AddBasis BasisInv Duality DeleteEffect VInv AwbSpec VSets DD CopyFaithful
                       Homology ListMat Listing FlagExt VIso MinCycle FlagSound Continuation FlagComplete.
Import ListNotations.
Open Scope nat_scope.

Lemma listed_assoc_gen r : pinv r -> forall f j0, In f (simplicesOfOrder r j0) -> exists j, assoc f (r_simp r) = Some (j0, j).
Proof.
  intros P f j0 H. rewrite simplicesOfOrder_idxk in H by exact P. apply In_nth_error in H. destruct H as (j & Hj). exists j.
  destruct P as [K Pm St L]. apply Pm. split; [|exact Hj].
  destruct (Nat.lt_ge_cases j0 (r_nord r)) as [Hl|Hl]; [exact Hl|]. rewrite (St j0 Hl) in Hj. destruct j; discriminate.
Qed.

(* addSimplex with a requested name and a given dictionary succeeds when its checks pass *)
Lemma addSimplex_succeeds_named r fs n h : NoDup fs -> length fs <> 1 -> length fs - 1 <= r_nord r ->
  containsSimplex r n = false ->
  (forall f, In f fs -> exists j, assoc f (r_simp r) = Some (length fs - 1 - 1, j)) ->
  (0 < length fs - 1 -> length fs - 1 < r_nord r -> simplexWithFaces r fs = Ok None) ->
  exists r', addSimplex r fs (Some n) (Some h) = (r', Ok n).
Proof.
  intros Hnd Hl Hk Hn Hord Hswf. unfold addSimplex.
  replace ((length fs - 1 =? 0) && negb (length fs =? 0)) with false.
  2: { symmetry. destruct (length fs) as [|[|m]] eqn:E; simpl; auto. congruence. }
  rewrite Hn.
  replace (negb (nodupb fs)) with false by (symmetry; apply negb_false_iff; now apply nodupb_NoDup).
  assert (Hcf : check_faces r (length fs - 1) fs = Ok tt).
  { destruct fs as [|f0 [|f1 t]]; [reflexivity | simpl in Hl; congruence|].
    apply check_faces_ok; [exact Hord | simpl; lia]. }
  rewrite Hcf.
  destruct (r_nord r <=? length fs - 1) eqn:E1.
  - apply Nat.leb_le in E1. replace (r_nord r <? length fs - 1) with false by (symmetry; apply Nat.ltb_ge; lia).
    destruct (length fs - 1) as [|k']; eexists; reflexivity.
  - apply Nat.leb_gt in E1. destruct (0 <? length fs - 1) eqn:E0.
    + apply Nat.ltb_lt in E0. rewrite (Hswf E0 E1). destruct (length fs - 1) as [|k']; eexists; reflexivity.
    + destruct (length fs - 1) as [|k']; eexists; reflexivity.
Qed.

Lemma addFrom_loop_app hp r rn st l1 l2 ns :
  addFrom_loop hp r rn st (l1 ++ l2) ns =
  match addFrom_loop hp r rn st l1 ns with
  | (hp1, r1, st1, Ok ns1) => addFrom_loop hp1 r1 rn st1 l2 ns1
  | x => x
  end.
Proof.
  revert hp r st ns. induction l1 as [|[s [fs h]] t IH]; intros hp r st ns; [reflexivity|].
  cbn [app addFrom_loop]. destruct (rl_apply rn st s) as [st1 t0].
  destruct (negb (name_eqb s t0) && containsSimplex r t0); [reflexivity|].
  destruct (rl_map rn st1 fs) as [st2 fs']. destruct (alloc r) as [r1 h'].
  destruct (addSimplex r1 fs' (Some t0) (Some h')) as [r2 [id|e]]; [apply IH | reflexivity].
Qed.

Section CopyOk.
  Variable src : rep.
  Hypothesis Hv : vinv src.
  Let HS : sinv src := c_s src (b_c src (v_b src Hv)).
  Let P : pinv src := s_p src HS.

  Definition vw (s : name) : name * (list name * handle) :=
    (s, (faces src s, match assoc s (r_attr src) with Some h => h | None => (0, 0) end)).

  (* what the copy holds while order k is being added: everything of lower order, and `done` of order k *)
  Record cpinv (k : nat) (done : list name) (r : rep) : Prop := {
    cp_s : sinv r;
    cp_in : forall s, containsSimplex r s = true <->
            exists o j, assoc s (r_simp src) = Some (o, j) /\ (o < k \/ (o = k /\ In s done));
    cp_same : forall s, containsSimplex r s = true ->
              orderOf r s = orderOf src s /\ forall t, In t (faces r s) <-> In t (faces src s) }.

  Lemma faces_length s o j : assoc s (r_simp src) = Some (o, j) -> length (faces src s) - 1 = o /\ length (faces src s) <> 1.
  Proof.
    intros A. destruct o as [|o].
    - unfold faces. rewrite A. simpl. auto.
    - rewrite (c_f src (b_c src (v_b src Hv)) s o j A). simpl. split; lia.
  Qed.

  Lemma same_faces_same_simplex s t o j j' : assoc s (r_simp src) = Some (S o, j) -> assoc t (r_simp src) = Some (S o, j') ->
    sameset (faces src t) (faces src s) -> t = s.
  Proof.
    intros As At Sf. apply (v_uniq src Hv).
    - unfold containsSimplex. now rewrite At.
    - unfold containsSimplex. now rewrite As.
    - intros p. destruct (b_b src (v_b src Hv) t (S o) j' At) as [_ Bt]. destruct (b_b src (v_b src Hv) s (S o) j As) as [_ Bs].
      rewrite (Bt ltac:(lia) p), (Bs ltac:(lia) p). split; intros (u & Hu & Hp); exists u; (split; [now apply Sf | exact Hp]).
  Qed.

  Lemma add_one k done s rest hp r st ns : simplicesOfOrder src k = done ++ s :: rest -> cpinv k done r ->
    exists hp1 r1, addFrom_loop hp r RNone st [vw s] ns = (hp1, r1, st, Ok (ns ++ [s])) /\ cpinv k (done ++ [s]) r1.
  Proof.
    intros Hl [Sr In_ Sm]. cbn [addFrom_loop vw rl_apply]. rewrite name_eqb_refl. cbn [negb andb]. rewrite rl_map_none.
    destruct (alloc r) as [r1 h'] eqn:Ea.
    assert (Hs1 : same_obs r r1) by (pose proof (same_obs_alloc r) as X; now rewrite Ea in X).
    assert (S1 : sinv r1) by (eapply sinv_same_obs; eauto).
    destruct (same_obs_queries r r1 Hs1) as (Qo & Qi & Qf & _ & Qb & Qc & Ql & _).
    pose proof Hs1 as (_ & Hnord & Hsimp & _).
    assert (Hin : In s (simplicesOfOrder src k)) by (rewrite Hl; apply in_or_app; right; now left).
    destruct (listed_assoc src Hv s k Hin) as (j & As).
    destruct (faces_length s k j As) as [Lf L1].
    assert (Nd : NoDup (simplicesOfOrder src k)) by (apply sOO_nodup; exact P).
    assert (Hns : ~ In s done).
    { rewrite Hl in Nd. apply NoDup_remove_2 in Nd. intros H. apply Nd. apply in_or_app. now left. }
    (* the faces are there *)
    assert (Hfa : forall f, In f (faces src s) -> exists i, assoc f (r_simp src) = Some (k - 1, i) /\ 1 <= k /\ containsSimplex r f = true).
    { intros f Hf. destruct k as [|k0]; [unfold faces in Hf; rewrite As in Hf; destruct Hf|].
      destruct (face_is_simplex src HS s f k0 j As Hf) as (i & Af). exists i. replace (S k0 - 1) with k0 by lia.
      split; [exact Af|]. split; [lia|]. apply In_. exists k0, i. split; [exact Af | left; lia]. }
    destruct (addSimplex_succeeds_named r1 (faces src s) s h') as (r2 & E).
    - apply faces_nodup; exact P.
    - exact L1.
    - rewrite Lf, Hnord. destruct k as [|k0]; [lia|].
      destruct (faces src s) as [|f0 t0] eqn:Ef; [simpl in Lf; lia|].
      destruct (Hfa f0 (or_introl eq_refl)) as (i & Af & _ & Cf). apply contains_assoc in Cf. destruct Cf as (o' & j' & A').
      destruct (Sm f0 ltac:(unfold containsSimplex; now rewrite A')) as [O' _]. unfold orderOf in O'. rewrite A', Af in O'. injection O' as ->.
      pose proof (s_p r Sr) as [K Pm St L]. apply Pm in A'. simpl in A'. lia.
    - rewrite Qc. destruct (containsSimplex r s) eqn:C; [|reflexivity]. exfalso.
      apply In_ in C. destruct C as (o & j' & A' & [Ho|[Ho Hd]]); rewrite As in A'; injection A' as <- <-; [lia | contradiction].
    - intros f Hf. rewrite Lf. destruct (Hfa f Hf) as (i & Af & Hk & Cf). rewrite Hsimp.
      destruct (Sm f Cf) as [O' _]. unfold orderOf in O'. rewrite Af in O'.
      destruct (assoc f (r_simp r)) as [[o' j']|]; [|discriminate]. injection O' as ->. now exists j'.
    - intros H0 Hlt. rewrite (simplexWithFaces_respects r r1 _ Hs1).
      rewrite (swf_total r (faces src s)).
      + destruct (last (map Some (filter (fun s0 => seteq (faces r s0) (faces src s)) (simplicesOfOrder r (length (faces src s) - 1)))) None) as [q|] eqn:El; [|reflexivity].
        exfalso. apply last_Some_In in El. apply filter_In in El. destruct El as [Hq Sq]. rewrite Lf in Hq.
        apply seteq_sameset in Sq.
        destruct (listed_assoc_gen r (s_p r Sr) q k Hq) as (jq & Aq).
        assert (Cq : containsSimplex r q = true) by (unfold containsSimplex; now rewrite Aq).
        destruct (Sm q Cq) as [Oq Fq]. pose proof (proj1 (In_ q) Cq) as (o & j' & Aq' & Hcase).
        unfold orderOf in Oq. rewrite Aq, Aq' in Oq. injection Oq as <-.
        destruct Hcase as [Hlt'|[_ Hd]]; [lia|].
        destruct k as [|k0]; [lia|].
        assert (q = s); [|subst; contradiction].
        apply (same_faces_same_simplex s q k0 j j' As Aq'). intros t. rewrite <- (Fq t). apply Sq.
      + destruct (faces src s) as [|f0 [|f1 t]]; simpl in *; lia.
      + intros f Hf. destruct (Hfa f Hf) as (i & Af & Hk & Cf). rewrite Lf.
        destruct (Sm f Cf) as [O' _]. unfold orderOf in O'. rewrite Af in O'.
        destruct (assoc f (r_simp r)) as [[o' j']|]; [|discriminate]. injection O' as ->. now exists j'.
    - rewrite E. exists (heap_set hp h' (heap_get hp (match assoc s (r_attr src) with Some h => h | None => (0, 0) end))), r2.
      split; [reflexivity|].
      destruct (addSimplex_effect r1 (faces src s) (Some s) (Some h') r2 s S1 E) as (Hnc & _ & Ho & Hf & Hold & Hall).
      constructor.
      + eapply addSimplex_sinv; eauto.
      + intros t. rewrite Hall, Qc. rewrite orb_true_iff, (In_ t). split.
        * intros [(o & j' & A' & Hc)|Et].
          -- exists o, j'. split; [exact A'|]. destruct Hc as [Hc|[Hc Hd]]; [now left | right; split; [exact Hc | apply in_or_app; now left]].
          -- apply name_eqb_eq in Et. subst t. exists k, j. split; [exact As | right; split; [reflexivity | apply in_or_app; right; now left]].
        * intros (o & j' & A' & [Hc|[Hc Hd]]); [left; exists o, j'; auto|].
          apply in_app_or in Hd. destruct Hd as [Hd|[<-|[]]]; [left; exists o, j'; auto | right; apply name_eqb_refl].
      + intros t Ct. rewrite Hall in Ct. apply orb_prop in Ct. destruct Ct as [Ct|Et].
        * destruct (Hold t Ct) as (O' & _ & F' & _). rewrite Qc in Ct. destruct (Sm t Ct) as [O'' F''].
          split; [rewrite O', Qo; exact O'' | intros u; rewrite F', Qf; apply F''].
        * apply name_eqb_eq in Et. subst t. split; [|exact Hf]. rewrite Ho, Lf. unfold orderOf. now rewrite As.
  Qed.
  Lemma add_order k : forall rest done hp r st ns, simplicesOfOrder src k = done ++ rest -> cpinv k done r ->
    exists hp1 r1 ns1, addFrom_loop hp r RNone st (map vw rest) ns = (hp1, r1, st, Ok ns1) /\ cpinv k (done ++ rest) r1.
  Proof.
    induction rest as [|s rest IH]; intros done hp r st ns Hl Hc.
    - exists hp, r, ns. split; [reflexivity | now rewrite app_nil_r].
    - destruct (add_one k done s rest hp r st ns Hl Hc) as (hp1 & r1 & E1 & C1).
      destruct (IH (done ++ [s]) hp1 r1 st (ns ++ [s])) as (hp2 & r2 & ns2 & E2 & C2); [now rewrite <- app_assoc | exact C1|].
      exists hp2, r2, ns2. split; [|now rewrite <- app_assoc in C2].
      change (map vw (s :: rest)) with ([vw s] ++ map vw rest). rewrite addFrom_loop_app, E1. exact E2.
  Qed.

  Lemma cpinv_next k r : cpinv k (simplicesOfOrder src k) r -> cpinv (S k) [] r.
  Proof.
    intros [Sr In_ Sm]. constructor; [exact Sr| |exact Sm].
    intros s. rewrite (In_ s). split; intros (o & j & A & Hc); exists o, j; (split; [exact A|]).
    - destruct Hc as [Hc|[Hc _]]; left; lia.
    - destruct Hc as [Hc|[_ []]]. destruct (Nat.eq_dec o k) as [->|Ne]; [right; split; [reflexivity | eapply order_listed; eauto] | left; lia].
  Qed.

  Lemma add_orders : forall n k hp r st ns, cpinv k [] r ->
    exists hp1 r1 ns1,
      addFrom_loop hp r RNone st (map vw (concat (map (simplicesOfOrder src) (seq k n)))) ns = (hp1, r1, st, Ok ns1) /\
      cpinv (k + n) [] r1.
  Proof.
    induction n as [|n IH]; intros k hp r st ns Hc.
    - exists hp, r, ns. split; [reflexivity | now rewrite Nat.add_0_r].
    - cbn [seq map concat]. rewrite map_app, addFrom_loop_app.
      destruct (add_order k (simplicesOfOrder src k) [] hp r st ns eq_refl Hc) as (hp1 & r1 & ns1 & E1 & C1).
      rewrite E1. simpl in C1. apply cpinv_next in C1.
      destruct (IH (S k) hp1 r1 st ns1 C1) as (hp2 & r2 & ns2 & E2 & C2).
      exists hp2, r2, ns2. split; [exact E2|]. now replace (k + S n) with (S k + n) by lia.
  Qed.

  (* C09: copy() of such a complex succeeds *)
  Theorem copy_new_succeeds hp uid : exists hp' c, copy_new hp (view_of src) uid = (hp', c, Ok tt).
  Proof.
    unfold copy_new, addSimplicesFrom.
    assert (Ev : view_of src = map vw (concat (map (simplicesOfOrder src) (seq 0 (length (r_idx src)))))).
    { unfold view_of. rewrite (simplices_by_order src P). reflexivity. }
    rewrite Ev.
    destruct (add_orders (length (r_idx src)) 0 hp (empty_rep uid) rl0 []) as (hp1 & r1 & ns1 & E & _).
    - constructor; [apply sinv_empty| |intros s H; discriminate].
      intros s. split; [discriminate|]. intros (o & j & _ & [H|[_ []]]). lia.
    - rewrite E. exists hp1, r1. reflexivity.
  Qed.
End CopyOk.
