(* WorldProofs.v -- object identity: derived complexes get attribute dictionaries of their own
   (C09), queries do not change the world and constructors only bind their result (C08).  Plain Coq. *)
From Coq Require Import String ZArith Bool Arith List Lia.
From SV Require Import Names NamesFacts ListFacts Rep Fresh Complex Atomic RepInv Reach Homology Filtration Gen World.
Import ListNotations.
Open Scope nat_scope.

(* every attribute dictionary of the complex was allocated by the complex itself *)
Definition owned (r : rep) : Prop := forall s h, In (s, h) (r_attr r) -> fst h = r_uid r.

Lemma owned_empty uid : owned (empty_rep uid).
Proof. intros s h []. Qed.

Lemma addSimplex_uid r fs id attr r' x : addSimplex r fs id attr = (r', x) -> r_uid r' = r_uid r.
Proof.
  intros H. destruct x as [n|e].
  - apply addSimplex_form in H. cbv zeta in H. destruct H as (r2 & h & _ & _ & _ & _ & _ & _ & _ & _ & _ & _ & Hu). exact Hu.
  - apply addSimplex_atomic in H. destruct H as [[Hu _] _]. exact Hu.
Qed.

Lemma addSimplex_owned r fs id attr r' x :
  owned r -> (forall h, attr = Some h -> fst h = r_uid r) -> addSimplex r fs id attr = (r', x) -> owned r'.
Proof.
  intros Ho Ha H. destruct x as [n|e].
  - apply addSimplex_form in H. cbv zeta in H.
    destruct H as (r2 & h & Hs & _ & _ & _ & _ & _ & _ & _ & Hattr & Hh & Hu).
    intros s h0 Hin. rewrite Hu. rewrite Hattr in Hin. apply in_app_or in Hin.
    destruct Hs as (_ & _ & _ & _ & _ & _ & Hs7). rewrite Hs7 in Hin. destruct Hin as [Hin|[Heq|[]]].
    + eapply Ho; eauto.
    + injection Heq as _ <-. destruct Hh as [Hh|[_ Hh]]; auto.
  - apply addSimplex_atomic in H. destruct H as [(Hu & _ & _ & _ & _ & _ & Hat) _].
    intros s h Hin. rewrite Hu. rewrite Hat in Hin. eapply Ho; eauto.
Qed.

Lemma alloc_owned r : owned r -> owned (fst (alloc r)) /\ fst (snd (alloc r)) = r_uid r /\ r_uid (fst (alloc r)) = r_uid r.
Proof. intros H. repeat split; auto. Qed.

Lemma heap_get_set hp h d h' : heap_get (heap_set hp h d) h' = if handle_eqb h' h then d else heap_get hp h'.
Proof.
  induction hp as [|[h0 d0] t IH]; simpl.
  - reflexivity.
  - destruct (handle_eqb h h0) eqn:E; simpl.
    + destruct (handle_eqb h' h0) eqn:E2.
      * assert (E3 : handle_eqb h' h = true).
        { unfold handle_eqb in *. apply andb_prop in E, E2. destruct E, E2.
          apply Nat.eqb_eq in H, H0, H1, H2. rewrite H1, H2, H, H0, !Nat.eqb_refl. reflexivity. }
        now rewrite E3.
      * destruct (handle_eqb h' h) eqn:E3; auto.
        unfold handle_eqb in *. apply andb_prop in E, E3. destruct E, E3.
        apply Nat.eqb_eq in H, H0, H1, H2. rewrite H1, H2, <- H, <- H0, !Nat.eqb_refl in E2. discriminate.
    + destruct (handle_eqb h' h0) eqn:E2.
      * destruct (handle_eqb h' h) eqn:E3; auto.
        unfold handle_eqb in *. apply andb_prop in E2, E3. destruct E2, E3.
        apply Nat.eqb_eq in H, H0, H1, H2. rewrite <- H1, <- H2, H, H0, !Nat.eqb_refl in E. discriminate.
      * exact IH.
Qed.

(* bulk add: the target stays owned, and only heap cells of the target's owner are written *)
Lemma addFrom_loop_owned rn : forall src hp r st ns hp' r' st' x, owned r ->
  addFrom_loop hp r rn st src ns = (hp', r', st', x) ->
  owned r' /\ r_uid r' = r_uid r /\ forall h, fst h <> r_uid r -> heap_get hp' h = heap_get hp h.
Proof.
  induction src as [|[s [fs h]] rest IH]; intros hp r st ns hp' r' st' x Ho H; cbn [addFrom_loop] in H.
  - injection H as <- <- _ _. auto.
  - destruct (rl_apply rn st s) as [st1 t].
    destruct (negb (name_eqb s t) && containsSimplex r t); [injection H as <- <- _ _; auto|].
    destruct (rl_map rn st1 fs) as [st2 fs'].
    destruct (alloc r) as [r1 h'] eqn:Ea.
    assert (Hr1 : owned r1 /\ fst h' = r_uid r /\ r_uid r1 = r_uid r).
    { pose proof (alloc_owned r Ho) as Hp. rewrite Ea in Hp. exact Hp. }
    destruct Hr1 as (Ho1 & Hh' & Hu1).
    assert (Hfr : forall h0, fst h0 <> r_uid r -> heap_get (heap_set hp h' (heap_get hp h)) h0 = heap_get hp h0).
    { intros h0 Hne. rewrite heap_get_set. destruct (handle_eqb h0 h') eqn:E; auto.
      unfold handle_eqb in E. apply andb_prop in E. destruct E as [E _]. apply Nat.eqb_eq in E. congruence. }
    destruct (addSimplex r1 fs' (Some t) (Some h')) as [r2 [id|e]] eqn:E.
    + assert (Ho2 : owned r2).
      { eapply addSimplex_owned; [exact Ho1 | | exact E]. intros h0 Hh0. injection Hh0 as <-. congruence. }
      assert (Hu2 : r_uid r2 = r_uid r) by (rewrite (addSimplex_uid _ _ _ _ _ _ E); exact Hu1).
      destruct (IH _ _ _ _ _ _ _ _ Ho2 H) as (A & B & C). split; auto. split; [congruence|].
      intros h0 Hne. rewrite C by congruence. now apply Hfr.
    + injection H as <- <- _ _.
      assert (Ho2 : owned r2).
      { eapply addSimplex_owned; [exact Ho1 | | exact E]. intros h0 Hh0. injection Hh0 as <-. congruence. }
      split; auto. split; [rewrite (addSimplex_uid _ _ _ _ _ _ E); exact Hu1 | exact Hfr].
Qed.

(* C09: copy() -- a new complex whose dictionaries are all its own; the rest of the heap untouched *)
Theorem copy_new_fresh hp src uid hp' r' x : copy_new hp src uid = (hp', r', x) ->
  owned r' /\ r_uid r' = uid /\ forall h, fst h <> uid -> heap_get hp' h = heap_get hp h.
Proof.
  unfold copy_new. destruct (addSimplicesFrom hp (empty_rep uid) src RNone) as [[[hp1 r1] st] x1] eqn:E.
  intros H. injection H as <- <- _. unfold addSimplicesFrom in E.
  apply addFrom_loop_owned in E; [exact E | apply owned_empty].
Qed.

(* two complexes with different owners that are both `owned` share no dictionary *)
Theorem owned_disjoint r1 r2 s1 s2 h : owned r1 -> owned r2 -> r_uid r1 <> r_uid r2 ->
  In (s1, h) (r_attr r1) -> In (s2, h) (r_attr r2) -> False.
Proof. intros H1 H2 Hne I1 I2. apply H1 in I1. apply H2 in I2. congruence. Qed.

(* JSON decoding: every dictionary of the decoded complex is new *)
Lemma decode_owned : forall js hp r hp' r' x, owned r -> decode hp r js = (hp', r', x) ->
  owned r' /\ r_uid r' = r_uid r /\ forall h, fst h <> r_uid r -> heap_get hp' h = heap_get hp h.
Proof.
  induction js as [|j t IH]; intros hp r hp' r' x Ho H; cbn [decode] in H.
  - injection H as <- <- _. auto.
  - destruct (alloc r) as [r1 h] eqn:Ea.
    assert (Hr1 : owned r1 /\ fst h = r_uid r /\ r_uid r1 = r_uid r).
    { pose proof (alloc_owned r Ho) as Hp. rewrite Ea in Hp. exact Hp. }
    destruct Hr1 as (Ho1 & Hh & Hu1).
    assert (Hfr : forall h0, fst h0 <> r_uid r -> heap_get (heap_set hp h (j_attr j)) h0 = heap_get hp h0).
    { intros h0 Hne. rewrite heap_get_set. destruct (handle_eqb h0 h) eqn:E; auto.
      unfold handle_eqb in E. apply andb_prop in E. destruct E as [E _]. apply Nat.eqb_eq in E. congruence. }
    destruct (addSimplex r1 (j_faces j) (Some (j_id j)) (Some h)) as [r2 [id|e]] eqn:E.
    + assert (Ho2 : owned r2).
      { eapply addSimplex_owned; [exact Ho1 | | exact E]. intros h0 Hh0. injection Hh0 as <-. congruence. }
      assert (Hu2 : r_uid r2 = r_uid r) by (rewrite (addSimplex_uid _ _ _ _ _ _ E); exact Hu1).
      destruct (IH _ _ _ _ _ Ho2 H) as (A & B & C). split; auto. split; [congruence|].
      intros h0 Hne. rewrite C by congruence. now apply Hfr.
    + injection H as <- <- _.
      assert (Ho2 : owned r2).
      { eapply addSimplex_owned; [exact Ho1 | | exact E]. intros h0 Hh0. injection Hh0 as <-. congruence. }
      split; auto. split; [rewrite (addSimplex_uid _ _ _ _ _ _ E); exact Hu1 | exact Hfr].
Qed.

(* ---------- C08: queries leave the world as it is; copy-like constructors only bind their result ---------- *)
Theorem query_leaves_world w v q w' o : exec w (CQuery v q) = (w', o) -> w' = w.
Proof. simpl. destruct (vget (w_vars w) v); intros H; now injection H as <- _. Qed.

Lemma vget_vset_other vs x y o : y <> x -> vget (vset vs x o) y = vget vs y.
Proof.
  intros Hne. induction vs as [|[k o'] t IH]; simpl.
  - destruct (String.eqb_spec y x); congruence.
  - destruct (String.eqb_spec x k) as [->|Hxk]; simpl.
    + destruct (String.eqb_spec y k); congruence.
    + destruct (String.eqb_spec y k); auto.
Qed.

Theorem copy_binds_only_result w x v orders w' o y : exec w (CCopy x v orders) = (w', o) -> y <> x ->
  vget (w_vars w') y = vget (w_vars w) y.
Proof.
  simpl. intros H Hne. destruct (vget (w_vars w) v) as [[r|f|e]|]; try (now injection H as <- _).
  - destruct (copy_new (w_heap w) (view_of r) (w_uid w)) as [[hp r'] [u|e]]; injection H as <- _; simpl; auto.
    now apply vget_vset_other.
  - destruct (f_copy (w_heap w) f (w_uid w) orders) as [[hp f'] [u|e]]; injection H as <- _; simpl; auto.
    now apply vget_vset_other.
Qed.
