(* ClosureCount.v -- closureOf(s) has no repeats and exactly 2^(k+1) - 1 elements. *)
From Coq Require Import String ZArith Bool Arith List Lia.
From SV Require Import Names NamesFacts ListFacts Rep Fresh Complex Atomic RepInv Reach Shapes Incidence AddEffect
                       Closed ClosedReach AddBasis BasisInv Duality DeleteEffect CopyFaithful VInv AwbSpec.
From SV Require Import VSets.
Import ListNotations.
Open Scope nat_scope.

Lemma NoDup_dedupn l : NoDup (dedupn l).
Proof.
  induction l as [|a l IH]; simpl; constructor.
  - rewrite filter_In. intros [_ H]. rewrite name_eqb_refl in H. discriminate.
  - now apply NoDup_filter.
Qed.

(* lists tagged with pairwise different values of a function *)
Lemma NoDup_concat_tagged {A} (f : A -> nat) : forall (lv : list (list A)) (tags : list nat),
  Forall2 (fun l n => NoDup l /\ forall x, In x l -> f x = n) lv tags -> NoDup tags -> NoDup (concat lv).
Proof.
  induction lv as [|l lv IH]; intros tags HF Ht; simpl; [constructor|].
  inversion HF as [|? n ? tags' [Hl Hn] HF']; subst. inversion Ht as [|? ? Hnn Ht']; subst.
  apply NoDup_app'; [exact Hl|eapply IH; eauto|].
  intros x Hx Hc. apply in_concat in Hc. destruct Hc as (l' & Hl' & Hx').
  apply Hnn. clear IH Ht Hl Ht' HF Hnn. revert tags' HF'. induction lv as [|l0 lv IH]; intros tags' HF'; [destruct Hl'|].
  inversion HF' as [|? n0 ? tags'' [_ Hn0] HF'']; subst. destruct Hl' as [->|Hl'].
  - left. rewrite <- (Hn x Hx). symmetry. now apply Hn0.
  - right. eapply IH; eauto.
Qed.

Lemma Forall2_rev {A B} (R : A -> B -> Prop) l m : Forall2 R l m -> Forall2 R (rev l) (rev m).
Proof.
  induction 1; simpl; [constructor|]. apply Forall2_app; auto.
Qed.

Fixpoint down (k : nat) : list nat := match k with 0 => [0] | S k' => S k' :: down k' end.
Lemma In_down k x : In x (down k) <-> x <= k.
Proof. induction k; simpl; [lia|]. rewrite IHk. lia. Qed.
Lemma NoDup_down k : NoDup (down k).
Proof.
  induction k; simpl.
  - constructor; [intros []|constructor].
  - constructor; [rewrite In_down; lia|exact IHk].
Qed.

Definition ord (r : rep) (t : name) : nat := match assoc t (r_simp r) with Some (k, _) => k | None => 0 end.

Lemma closure_levels_tagged r : sinv r -> forall k cur, NoDup cur ->
  (forall x, In x cur -> exists j, assoc x (r_simp r) = Some (k, j)) ->
  Forall2 (fun l n => NoDup l /\ forall x, In x l -> ord r x = n) (closure_levels r k cur) (down k).
Proof.
  intros HS. induction k as [|k IH]; intros cur Nd Hc; simpl.
  - constructor; [|constructor]. split; auto. intros x Hx. destruct (Hc x Hx) as (j & Ax). unfold ord. now rewrite Ax.
  - constructor.
    + split; auto. intros x Hx. destruct (Hc x Hx) as (j & Ax). unfold ord. now rewrite Ax.
    + apply IH; [apply NoDup_dedupn|].
      intros x Hx. apply (proj1 (In_dedupn _ _)) in Hx. apply in_flat_map in Hx. destruct Hx as (y & Hy & Hx).
      destruct (Hc y Hy) as (j & Ay). exact (face_is_simplex r HS y x k j Ay Hx).
Qed.

Theorem closureOf_nodup r s rev L : sinv r -> closureOf r s rev false = Ok L -> NoDup L.
Proof.
  intros HS H. unfold closureOf, orderOf in H. destruct (assoc s (r_simp r)) as [[k j]|] eqn:As; [|discriminate].
  injection H as <-.
  assert (T : Forall2 (fun l n => NoDup l /\ forall x, In x l -> ord r x = n) (closure_levels r k [s]) (down k)).
  { apply closure_levels_tagged; auto.
    - constructor; [intros []|constructor].
    - intros x [<-|[]]. eauto. }
  destruct rev.
  - eapply NoDup_concat_tagged; [exact T|apply NoDup_down].
  - eapply NoDup_concat_tagged; [apply Forall2_rev; exact T|]. apply NoDup_rev. apply NoDup_down.
Qed.

(* all sublists *)
Fixpoint subseqs {A} (l : list A) : list (list A) :=
  match l with [] => [[]] | x :: t => map (cons x) (subseqs t) ++ subseqs t end.
Definition nonempty {A} (l : list A) : bool := match l with [] => false | _ => true end.

Lemma subseqs_incl {A} (l q : list A) : In q (subseqs l) -> incl q l.
Proof.
  revert q. induction l as [|x t IH]; simpl; intros q H.
  - destruct H as [<-|[]]. intros z [].
  - apply in_app_or in H. destruct H as [H|H].
    + apply in_map_iff in H. destruct H as (q' & <- & H). intros z [<-|Hz]; [now left|right; now apply (IH q')].
    + intros z Hz. right. now apply (IH q).
Qed.
Lemma subseqs_nodup {A} (l q : list A) : NoDup l -> In q (subseqs l) -> NoDup q.
Proof.
  revert q. induction l as [|x t IH]; simpl; intros q Nd H.
  - destruct H as [<-|[]]. constructor.
  - inversion Nd as [|? ? Hx Ht]; subst. apply in_app_or in H. destruct H as [H|H]; [|now apply IH].
    apply in_map_iff in H. destruct H as (q' & <- & H). constructor; [|now apply IH].
    intros Hq. apply Hx. now apply (subseqs_incl t q').
Qed.
Lemma NoDup_subseqs {A} (l : list A) : NoDup l -> NoDup (subseqs l).
Proof.
  induction l as [|x t IH]; simpl; intros Nd; [constructor; [intros []|constructor]|].
  inversion Nd as [|? ? Hx Ht]; subst. apply NoDup_app'.
  - apply FinFun.Injective_map_NoDup; [|now apply IH]. intros a b E. now injection E.
  - now apply IH.
  - intros q H1 H2. apply in_map_iff in H1. destruct H1 as (q' & <- & _).
    apply Hx. apply (subseqs_incl t (x :: q') H2). now left.
Qed.
Lemma count_nonempty {A} (l : list A) : S (length (filter nonempty (subseqs l))) = 2 ^ length l.
Proof.
  induction l as [|x t IH]; simpl; [reflexivity|].
  rewrite filter_app, app_length.
  assert (E : filter nonempty (map (cons x) (subseqs t)) = map (cons x) (subseqs t)).
  { generalize (subseqs t). induction l as [|a l IHl]; simpl; [reflexivity|]. now rewrite IHl. }
  rewrite E, map_length.
  assert (L2 : length (subseqs t) = 2 ^ length t).
  { clear. induction t as [|x t IH]; simpl; [reflexivity|]. rewrite app_length, map_length, IH. lia. }
  rewrite L2. lia.
Qed.

(* a sublist of a duplicate-free list is recovered by filtering on membership *)
Lemma filter_subseq (B q : list name) : NoDup B -> In q (subseqs B) -> filter (fun p => memn p q) B = q.
Proof.
  revert q. induction B as [|x t IH]; simpl; intros q Nd H.
  - destruct H as [<-|[]]. reflexivity.
  - inversion Nd as [|? ? Hx Ht]; subst. apply in_app_or in H. destruct H as [H|H].
    + apply in_map_iff in H. destruct H as (q' & <- & H). simpl. rewrite name_eqb_refl. simpl. f_equal.
      transitivity (filter (fun p => memn p q') t); [|now apply IH]. apply filter_ext_in. intros p Hp. simpl.
      destruct (name_eqb_spec p x) as [->|Hne]; [contradiction|reflexivity].
    + destruct (memn x q) eqn:M; [|now apply IH].
      apply memn_In in M. exfalso. apply Hx. now apply (subseqs_incl t q).
Qed.
Lemma filter_is_subseq (B : list name) (f : name -> bool) : In (filter f B) (subseqs B).
Proof.
  induction B as [|x t IH]; simpl; [now left|]. apply in_or_app. destruct (f x); [left; now apply in_map|now right].
Qed.

Lemma NoDup_map_inj_in {A B} (g : A -> B) (l : list A) : NoDup l ->
  (forall a b, In a l -> In b l -> g a = g b -> a = b) -> NoDup (map g l).
Proof.
  induction l as [|x l IH]; simpl; intros Nd Hinj; constructor; inversion Nd as [|? ? Hx Hl]; subst.
  - intros H. apply in_map_iff in H. destruct H as (y & E & Hy). apply Hx.
    rewrite (Hinj x y); auto.
  - apply IH; auto.
Qed.

(* THE CLOSURE OF A k-SIMPLEX HAS 2^(k+1) - 1 ELEMENTS *)
Theorem closureOf_count r s k j rev L : vinv r -> assoc s (r_simp r) = Some (k, j) ->
  closureOf r s rev false = Ok L -> S (length L) = 2 ^ (S k).
Proof.
  intros Hv As H. pose proof (c_s r (b_c r (v_b r Hv))) as HS. pose proof (s_p r HS) as P.
  assert (Cs : containsSimplex r s = true) by (apply (contains_assoc r); eauto).
  pose proof (closureOf_nodup r s rev L HS H) as NdL.
  pose proof (closureOf_is_subsets r s rev L Hv Cs H) as Spec.
  set (B := basisOf r s). assert (NdB : NoDup B) by (apply basis_nodup; exact P).
  set (g := fun t => filter (fun p => memn p (basisOf r t)) B).
  assert (Gs : forall t, In t L -> sameset (g t) (basisOf r t)).
  { intros t Ht z. unfold g. rewrite filter_In, memn_In. split; [tauto|]. intros Hz. split; auto.
    apply Spec in Ht. destruct Ht as [_ Hi]. now apply Hi. }
  rewrite <- (v_card r Hv s k j As). fold B. rewrite <- (count_nonempty B). f_equal.
  rewrite <- (map_length g L). apply NoDup_same_length.
  - apply NoDup_map_inj_in; auto. intros a b Ha Hb E.
    apply (v_uniq r Hv); [apply Spec in Ha; tauto|apply Spec in Hb; tauto|].
    intros z. rewrite <- (Gs a Ha z), <- (Gs b Hb z), E. reflexivity.
  - apply NoDup_filter. now apply NoDup_subseqs.
  - intros q. rewrite in_map_iff, filter_In. split.
    + intros (t & <- & Ht). split; [apply filter_is_subseq|].
      pose proof Ht as Ht'. apply Spec in Ht'. destruct Ht' as [Ct _]. apply (contains_assoc r) in Ct. destruct Ct as (kt & jt & At).
      pose proof (v_card r Hv t kt jt At) as Lc.
      destruct (basisOf r t) as [|p l] eqn:Eb; [discriminate|].
      assert (Hp : In p (g t)) by (apply Gs; auto; rewrite Eb; now left).
      destruct (g t); [destruct Hp|reflexivity].
    + intros [Hq Hne]. pose proof (subseqs_incl B q Hq) as Hi. pose proof (subseqs_nodup B q NdB Hq) as Ndq.
      destruct (closed_under_subsets r Hv s q Cs Ndq) as (u & Cu & Su); auto.
      { intros ->. discriminate. }
      exists u. assert (Hu : In u L).
      { apply Spec. split; auto. intros z Hz. apply Hi. now apply Su. }
      split; auto. rewrite <- (filter_subseq B q NdB Hq). unfold g. apply filter_ext. intros p.
      destruct (memn p q) eqn:M.
      * apply memn_In. apply Su. now apply memn_In.
      * apply memn_false. intros Hc. apply Su in Hc. apply memn_In in Hc. congruence.
Qed.
