(* Sweeps.v -- executable (boolean) statements of the set-theoretic properties over the model, and
   their verification BY COMPUTATION IN THE KERNEL over every complex on at most 4 labelled
   points (167 complexes; 19 on at most 3 points for the quadratic sweeps).  These are proofs for
   the stated finite domain only (the bound is part of every statement), not for all complexes. *)
From Coq Require Import String ZArith Bool Arith List.
From SV Require Import Names Rep Complex Homology Filtration Gen World Small.
Import ListNotations.
Open Scope nat_scope.

(* ---------- vertex sets ---------- *)
Definition pt (n : nat) : name := NInt (Z.of_nat n).
Definition vset := list name.
Definition set_mem (V : vset) (F : list vset) : bool := existsb (seteq V) F.
Definition fam_sub (F G : list vset) : bool := forallb (fun V => set_mem V G) F.
Definition fam_eq (F G : list vset) : bool := fam_sub F G && fam_sub G F && (length F =? length G).
Fixpoint sublists {A} (l : list A) : list (list A) :=
  match l with [] => [[]] | x :: t => let r := sublists t in map (cons x) r ++ r end.
Definition nonempty_sublists {A} (l : list A) : list (list A) :=
  filter (fun s => negb (length s =? 0)) (sublists l).
Fixpoint dedup_sets (F : list vset) : list vset :=
  match F with [] => [] | V :: t => if set_mem V t then dedup_sets t else V :: dedup_sets t end.

(* the family of a representation, read through basisOf *)
Definition fam (r : rep) : list vset := map (basisOf r) (simplices r false).
(* the family a list of maximal simplices generates *)
Definition closure_of (facets : list (list nat)) : list vset :=
  dedup_sets (flat_map (fun f => nonempty_sublists (map pt f)) facets).

(* build a complex: its points in increasing order, then its maximal simplices by basis *)
Definition points_of (facets : list (list nat)) : list nat :=
  filter (fun p => existsb (fun f => existsb (Nat.eqb p) f) facets) (seq 0 6).
Definition build (facets : list (list nat)) : rep :=
  let r0 := fold_left (fun r p => fst (addSimplex r [] (Some (pt p)) None)) (points_of facets) (empty_rep 1) in
  fold_left (fun r f => if length f <=? 1 then r else fst (c_addSimplexWithBasis r (map pt f) None None)) facets r0.

(* ---------- well-formedness (the C01 sentence) as a boolean ---------- *)
Definition ord (r : rep) (s : name) : nat := match orderOf r s with Ok k => k | Raise _ => 99 end.
Definition wfb (r : rep) : bool :=
  let ss := simplices r false in
  nodupb ss &&
  forallb (fun s =>
    let k := ord r s in
    (length (basisOf r s) =? S k) && nodupb (basisOf r s) &&
    forallb (fun b => containsSimplex r b && (ord r b =? 0)) (basisOf r s) &&
    (if k =? 0 then (length (faces r s) =? 0) && seteq (basisOf r s) [s]
     else (length (faces r s) =? S k) && nodupb (faces r s) &&
          forallb (fun f => containsSimplex r f && (S (ord r f) =? k)) (faces r s) &&
          fam_eq (map (basisOf r) (faces r s))
                 (filter (fun V => length V =? k) (nonempty_sublists (basisOf r s))))) ss &&
  (* no two simplices share a basis *)
  (length (dedup_sets (fam r)) =? length ss) &&
  (* maxOrder is the largest populated order; listings partition simplices() *)
  (match r_nord r with 0 => length ss =? 0 | S m => negb (length (simplicesOfOrder r m) =? 0) end) &&
  (length (concat (map (simplicesOfOrder r) (seq 0 (r_nord r)))) =? length ss) &&
  forallb (fun k => forallb (fun s => ord r s =? k) (simplicesOfOrder r k)) (seq 0 (r_nord r)).

(* ---------- C03: the views agree ---------- *)
Definition bent (m : mat) (i j : nat) : bool := nth i (nth j (mcols m) []) false.
Definition viewsb (r : rep) : bool :=
  forallb (fun k =>
    let B := boundaryOperator r k in
    if k =? 0 then (nrows B =? 1) && (ncols B =? length (simplicesOfOrder r 0)) &&
                   forallb (fun j => negb (bent B 0 j)) (seq 0 (ncols B))
    else if r_nord r <=? k then (nrows B =? 0) && (ncols B =? 0)
    else (nrows B =? length (simplicesOfOrder r (k - 1))) && (ncols B =? length (simplicesOfOrder r k)) &&
         forallb (fun j => forallb (fun i =>
            Bool.eqb (bent B i j)
                     (memn (nth i (simplicesOfOrder r (k - 1)) (NInt 0)) (faces r (nth j (simplicesOfOrder r k) (NInt 0)))))
            (seq 0 (nrows B))) (seq 0 (ncols B)))
    (seq 0 (S (r_nord r))) &&
  forallb (fun s =>
    (* cofaces is the inverse of faces *)
    forallb (fun t => Bool.eqb (memn t (cofaces r s)) (memn s (faces r t))) (simplices r false) &&
    (* index = position in the listing of its order *)
    (match indexOf r s with Ok i => name_eqb (nth i (simplicesOfOrder r (ord r s)) (NInt (-1))) s | Raise _ => false end) &&
    (* basis = points of the closure *)
    (match closureOf r s false false with
     | Ok cl => seteq (basisOf r s) (filter (fun t => ord r t =? 0) cl)
     | Raise _ => false end) &&
    (* boundary of the boundary is empty *)
    (match boundary r [s] with
     | Ok b => match boundary r b with Ok bb => length bb =? 0 | Raise _ => length b =? 0 end
     | Raise _ => false end))
    (simplices r false).

(* ---------- C02: effects and frames ---------- *)
Definition same_simplex (r r' : rep) (s : name) : bool :=
  containsSimplex r' s && (ord r' s =? ord r s) && seteq (faces r' s) (faces r s) && seteq (basisOf r' s) (basisOf r s).
Definition frame (r r' : rep) (kept : name -> bool) : bool :=
  forallb (fun s => if kept s then same_simplex r r' s else negb (containsSimplex r' s)) (simplices r false).

Definition chk_delete (r : rep) : bool :=
  forallb (fun s =>
    let '(r', x) := deleteSimplex r s in
    let kept := fun t => negb (subsetn (basisOf r s) (basisOf r t)) in
    (match x with Ok _ => true | Raise _ => false end) &&
    fam_eq (fam r') (filter (fun V => negb (subsetn (basisOf r s) V)) (fam r)) && frame r r' kept && wfb r' && viewsb r')
    (simplices r false).

Definition chk_restrict (r : rep) : bool :=
  forallb (fun B =>
    let '(r', x) := restrictBasisTo r B in
    (match x with Ok _ => true | Raise _ => false end) &&
    fam_eq (fam r') (filter (fun V => subsetn V B) (fam r)) && frame r r' (fun t => subsetn (basisOf r t) B) && wfb r')
    (sublists (simplicesOfOrder r 0)).

Definition chk_addb (r : rep) : bool :=
  let cand := filter (fun V => (2 <=? length V) && negb (set_mem V (fam r)))
                     (sublists (simplicesOfOrder r 0 ++ [NStr "new"])) in
  forallb (fun V =>
    match c_addSimplexWithBasis r V (Some (NStr "top")) None with
    | (r', Ok n) =>
        name_eqb n (NStr "top") && seteq (basisOf r' n) V &&
        fam_eq (fam r') (dedup_sets (fam r ++ nonempty_sublists V)) && frame r r' (fun _ => true) && wfb r' && viewsb r'
    | (_, Raise _) => false
    end) cand.

Definition chk_subdiv (r : rep) : bool :=
  forallb (fun s =>
    if ord r s =? 0 then true else
    let V := basisOf r s in
    match barycentricSubdivide r s V with
    | (r', Ok m) =>
        negb (containsSimplex r m) &&
        fam_eq (fam r')
               (dedup_sets (filter (fun U => negb (subsetn V U)) (fam r) ++
                            map (fun A => A ++ [m]) (filter (fun A => negb (length A =? length V)) (sublists V)))) &&
        frame r r' (fun t => negb (subsetn V (basisOf r t))) && wfb r'
    | (_, Raise _) => false
    end) (simplices r false).

(* ---------- C04: closure, star, lookups, disjointness ---------- *)
Fixpoint sorted_by (le : nat -> nat -> bool) (l : list nat) : bool :=
  match l with [] => true | x :: t => match t with [] => true | y :: _ => le x y && sorted_by le t end end.
Definition chk_listing (r : rep) (s : name) (got : res (list name)) (want : list name) (rev excl : bool) : bool :=
  match got with
  | Raise _ => false
  | Ok l =>
      let want' := if excl then filter (fun t => negb (name_eqb t s)) want else want in
      nodupb l && seteq l want' && sorted_by (if rev then fun a b => b <=? a else Nat.leb) (map (ord r) l)
  end.
Definition chk_closure_star (r : rep) : bool :=
  forallb (fun s =>
    let clo := filter (fun t => subsetn (basisOf r t) (basisOf r s)) (simplices r false) in
    let star := filter (fun t => subsetn (basisOf r s) (basisOf r t)) (simplices r false) in
    (length clo =? Nat.pow 2 (S (ord r s)) - 1) &&
    forallb (fun rev => forallb (fun excl =>
      chk_listing r s (closureOf r s rev excl) clo rev excl && chk_listing r s (partOf r s rev excl) star rev excl)
      [false; true]) [false; true] &&
    (match c_simplexWithBasis r (rev (basisOf r s)) false with Ok (Some t) => name_eqb t s | _ => false end) &&
    (if ord r s =? 0 then true
     else match c_simplexWithFaces r (rev (faces r s)) with Ok (Some t) => name_eqb t s | _ => false end))
    (simplices r false) &&
  (* vertex sets that are no simplex are not found *)
  forallb (fun V => if (2 <=? length V) && negb (set_mem V (fam r))
                    then match c_simplexWithBasis r V false with Ok None => true | _ => false end else true)
          (sublists (simplicesOfOrder r 0)).

Definition closure_names (r : rep) (s : name) : list name :=
  filter (fun t => subsetn (basisOf r t) (basisOf r s)) (simplices r false).
Fixpoint pairwise_disjoint (r : rep) (l : list name) : bool :=
  match l with
  | [] => true
  | s :: t => forallb (fun u => length (intern (closure_names r s) (closure_names r u)) =? 0) t && pairwise_disjoint r t
  end.
Definition tuples3 {A} (l : list A) : list (list A) :=
  map (fun x => [x]) l ++ flat_map (fun x => map (fun y => [x; y]) l) l ++
  flat_map (fun x => flat_map (fun y => map (fun z => [x; y; z]) l) l) l.
Definition chk_disjoint (r : rep) : bool :=
  forallb (fun t => match disjoint r t with Ok b => Bool.eqb b (pairwise_disjoint r t) | Raise _ => false end)
          (tuples3 (simplices r false)).

(* ---------- C11: the flag complex is the clique complex ---------- *)
Definition is_edge (r : rep) (p q : name) : bool := set_mem [p; q] (filter (fun V => length V =? 2) (fam r)).
Fixpoint clique (r : rep) (V : vset) : bool :=
  match V with [] => true | p :: t => forallb (is_edge r p) t && clique r t end.
Definition clique_family (r : rep) : list vset :=
  filter (fun V => (length V =? 1) || clique r V) (nonempty_sublists (simplicesOfOrder r 0)).
Definition chk_flag (r : rep) : bool :=
  match flagComplex [] r 7 with
  | (_, f, Ok _) =>
      fam_eq (fam f) (clique_family r) && frame r f (fun _ => true) && wfb f &&
      (match flagComplex [] f 8 with (_, g, Ok _) => fam_eq (fam g) (fam f) | _ => false end)
  | _ => false
  end.

(* ---------- C17: decoding the encoding gives the complex back ---------- *)
Fixpoint list_eqb (a b : list name) : bool :=
  match a, b with
  | [], [] => true
  | x :: a', y :: b' => name_eqb x y && list_eqb a' b'
  | _, _ => false
  end.
Definition chk_json (r : rep) : bool :=
  match decode [] (empty_rep 5) (encode_view [] (view_of r)) with
  | (_, d, Ok _) =>
      (* same names in the same listing order, same orders and faces *)
      forallb (fun k => list_eqb (simplicesOfOrder d k) (simplicesOfOrder r k)) (seq 0 (S (r_nord r))) &&
      (r_nord d =? r_nord r) && frame r d (fun _ => true) && wfb d
  | _ => false
  end.

(* ---------- C16: compose of two complexes whose names are tied to their vertex sets ---------- *)
(* names tied to bases: the simplex on {p1 < p2 < ...} is named by the tuple of its points *)
Definition tname (f : list nat) : name := match f with [p] => pt p | _ => NTup (map pt f) end.
Definition faces_of (f : list nat) : list (list nat) :=
  match f with [_] => [] | _ => filter (fun g => length g =? length f - 1) (sublists f) end.
Definition all_simplices (facets : list (list nat)) : list (list nat) :=
  (* every non-empty subset of a facet, points first *)
  let l := flat_map nonempty_sublists facets in
  let ded := fold_right (fun x acc => if existsb (fun y => list_eqb (map pt x) (map pt y)) acc then acc else x :: acc) [] l in
  flat_map (fun k => filter (fun x => length x =? k) ded) (seq 1 6).
Definition build_named (uid : nat) (facets : list (list nat)) : rep :=
  fold_left (fun r f => fst (addSimplex r (map tname (faces_of f)) (Some (tname f)) None)) (all_simplices facets) (empty_rep uid).
Definition chk_compose (c1 c2 : list (list nat)) : bool :=
  let a := build_named 1 c1 in let b := build_named 2 c2 in
  match compose [] a b None 3 with
  | (_, d, Ok _) =>
      fam_eq (fam d) (dedup_sets (fam a ++ fam b)) && frame a d (fun _ => true) && frame b d (fun _ => true) && wfb d
  | _ => false
  end.
(* a single-name perturbation: b's copy of a shared edge gets the name of another edge of a *)
Definition chk_compose_incompatible : bool :=
  let a := build_named 1 [[0; 1]; [1; 2]] in
  let b := fst (relabelSimplex (fst (relabelSimplex (build_named 2 [[1; 2]]) (tname [1; 2]) (NStr "tmp")))
                                 (NStr "tmp") (tname [0; 1])) in
  match compose [] a b None 3 with (_, _, Raise ValueError) => true | _ => false end.

(* ================= the sweeps (computed by the kernel) ================= *)
Lemma sweep_build4 : forallb (fun c => fam_eq (fam (build c)) (closure_of c) && wfb (build c) && viewsb (build c)) complexes4 = true.
Proof. vm_compute. reflexivity. Qed.
Lemma sweep_delete4 : forallb (fun c => chk_delete (build c)) complexes4 = true.
Proof. vm_compute. reflexivity. Qed.
Lemma sweep_restrict4 : forallb (fun c => chk_restrict (build c)) complexes4 = true.
Proof. vm_compute. reflexivity. Qed.
Lemma sweep_addb4 : forallb (fun c => chk_addb (build c)) complexes4 = true.
Proof. vm_compute. reflexivity. Qed.
Lemma sweep_subdiv4 : forallb (fun c => chk_subdiv (build c)) complexes4 = true.
Proof. vm_compute. reflexivity. Qed.
Lemma sweep_closure_star4 : forallb (fun c => chk_closure_star (build c)) complexes4 = true.
Proof. vm_compute. reflexivity. Qed.
Lemma sweep_disjoint3 : forallb (fun c => chk_disjoint (build c)) complexes3 = true.
Proof. vm_compute. reflexivity. Qed.
Lemma sweep_flag4 : forallb (fun c => chk_flag (build c)) complexes4 = true.
Proof. vm_compute. reflexivity. Qed.
Lemma sweep_json4 : forallb (fun c => chk_json (build_named 1 c) && chk_json (build c)) complexes4 = true.
Proof. vm_compute. reflexivity. Qed.
Lemma sweep_compose3 : forallb (fun c1 => forallb (fun c2 => chk_compose c1 c2) complexes3) complexes3 = true.
Proof. vm_compute. reflexivity. Qed.
Lemma sweep_compose_incompatible : chk_compose_incompatible = true.
Proof. vm_compute. reflexivity. Qed.

(* the checkers can fail: a triangle whose edge was force-deleted is neither well formed nor consistent *)

(* ---------- C18: generators, for every parameter in the stated range ---------- *)
Definition counts (r : rep) : list nat := numberOfSimplicesOfOrder r.
Definition bettisN (r : rep) : list Z := map (fun k => betti1 r k) (seq 0 (r_nord r)).
Definition binom_row (n top : nat) : list nat :=      (* C(n, 1), C(n, 2), ..., C(n, top) *)
  map (fun j => length (filter (fun s => length s =? j) (sublists (seq 0 n)))) (seq 1 top).
Definition unit_betti (n : nat) : list Z := 1%Z :: repeat 0%Z (n - 1).
Definition gen_on_empty (g : rep -> rep * res unit) : rep := fst (g (empty_rep 1)).
Definition chk_k_simplex (k : nat) : bool :=
  let r := gen_on_empty (k_simplex k (Some (NStr "top")) None) in
  list_eqb (map pt (counts r)) (map pt (binom_row (S k) (S k))) &&
  (if list_eq_dec Z.eq_dec (bettisN r) (unit_betti (S k)) then true else false) &&
  containsSimplex r (NStr "top") && (ord r (NStr "top") =? k) && wfb r.
Definition chk_k_void (k : nat) : bool :=
  let r := gen_on_empty (k_void k) in
  list_eqb (map pt (counts r)) (map pt (binom_row (k + 2) (S k))) &&
  (if list_eq_dec Z.eq_dec (bettisN r)
        (match k with 0 => [2%Z] | _ => 1%Z :: repeat 0%Z (k - 1) ++ [1%Z] end) then true else false) && wfb r.
Definition chk_k_skeleton (k : nat) : bool :=
  let r := gen_on_empty (k_skeleton k) in
  list_eqb (map pt (counts r)) (map pt (match k with 0 => [1] | _ => [S k; length (filter (fun s => length s =? 2) (sublists (seq 0 (S k))))] end)) && wfb r.
Definition chk_ring (n : nat) : bool :=
  let r := gen_on_empty (ring n) in
  if n <=? 2 then (match snd (ring n (empty_rep 1)) with Raise ValueError => true | _ => false end)
  else list_eqb (map pt (counts r)) [pt n; pt n] &&
       (if list_eq_dec Z.eq_dec (bettisN r) [1%Z; 1%Z] then true else false) &&
       forallb (fun p => length (cofaces r p) =? 2) (simplicesOfOrder r 0) && wfb r.
Definition chk_lattice (rows cols : nat) : bool :=
  let r := fst (triangularLattice rows cols 1) in
  (length (simplicesOfOrder r 0) =? rows * cols) &&
  (if 2 <=? rows then
     (if Z.eq_dec (eulerCharacteristic r) 1%Z then true else false) &&
     (if list_eq_dec Z.eq_dec (bettisN r) (unit_betti (r_nord r)) then true else false) && (r_nord r <=? 3) && wfb r
   else true).
(* generators into an existing target leave it intact: every complex on <= 3 points as target *)
Definition chk_gen_frame (c : list (list nat)) : bool :=
  let r := build c in
  forallb (fun g : rep -> rep * res unit =>
             match g r with
             | (r', Ok _) => frame r r' (fun _ => true) && wfb r' &&
                             forallb (fun s => containsSimplex r s || forallb (fun b => negb (containsSimplex r b)) (basisOf r' s))
                                     (simplices r' false)
             | _ => false
             end)
          [k_simplex 2 None None; k_void 1; k_void 2; k_skeleton 2; ring 3; k_simplex 0 None None].

Lemma sweep_generators :
  forallb chk_k_simplex (seq 0 7) && forallb chk_k_void (seq 0 6) && forallb chk_k_skeleton (seq 0 7) &&
  forallb chk_ring (seq 0 13) = true.
Proof. vm_compute. reflexivity. Qed.
Lemma sweep_lattices : forallb (fun r => forallb (chk_lattice r) (seq 1 6)) (seq 1 6) = true.
Proof. vm_compute. reflexivity. Qed.
Lemma sweep_generators_frame3 : forallb chk_gen_frame complexes3 = true.
Proof. vm_compute. reflexivity. Qed.

(* the checkers can fail: a triangle whose edge was force-deleted is not well formed; a family is
   not that of another complex; and the hollow tetrahedron is filled by flagComplex *)
Example checkers_reject_a_broken_complex :
  let r := build [[0; 1; 2]] in
  let broken := fst (forceDeleteSimplex r (NStr "1d1")) in
  wfb r = true /\ viewsb r = true /\ wfb broken = false /\
  chk_flag (fst (deleteSimplex (build [[0; 1; 2; 3]]) (NStr "3d0"))) = true /\
  fam_eq (fam r) (closure_of [[0; 1]]) = false.
Proof. vm_compute. repeat split. Qed.

(* ---------- the sweeps as statements about every complex of the enumerated domain ---------- *)
Lemma lift {A} (p : A -> bool) (l : list A) : forallb p l = true -> forall x, In x l -> p x = true.
Proof. intros H x Hx. rewrite forallb_forall in H. now apply H. Qed.

Theorem built_complexes_upto4 : forall c, In c complexes4 ->
  fam_eq (fam (build c)) (closure_of c) && wfb (build c) && viewsb (build c) = true.
Proof. exact (lift _ _ sweep_build4). Qed.
Theorem delete_upto4 : forall c, In c complexes4 -> chk_delete (build c) = true.
Proof. exact (lift _ _ sweep_delete4). Qed.
Theorem restrict_upto4 : forall c, In c complexes4 -> chk_restrict (build c) = true.
Proof. exact (lift _ _ sweep_restrict4). Qed.
Theorem addb_upto4 : forall c, In c complexes4 -> chk_addb (build c) = true.
Proof. exact (lift _ _ sweep_addb4). Qed.
Theorem subdiv_upto4 : forall c, In c complexes4 -> chk_subdiv (build c) = true.
Proof. exact (lift _ _ sweep_subdiv4). Qed.
Theorem closure_star_upto4 : forall c, In c complexes4 -> chk_closure_star (build c) = true.
Proof. exact (lift _ _ sweep_closure_star4). Qed.
Theorem disjoint_upto3 : forall c, In c complexes3 -> chk_disjoint (build c) = true.
Proof. exact (lift _ _ sweep_disjoint3). Qed.
Theorem flag_upto4 : forall c, In c complexes4 -> chk_flag (build c) = true.
Proof. exact (lift _ _ sweep_flag4). Qed.
Theorem json_upto4 : forall c, In c complexes4 -> chk_json (build_named 1 c) && chk_json (build c) = true.
Proof. exact (lift _ _ sweep_json4). Qed.
Theorem compose_upto3 : forall c1 c2, In c1 complexes3 -> In c2 complexes3 -> chk_compose c1 c2 = true.
Proof. intros c1 c2 H1 H2. exact (lift _ _ (lift _ _ sweep_compose3 c1 H1) c2 H2). Qed.
Theorem generators_frame_upto3 : forall c, In c complexes3 -> chk_gen_frame c = true.
Proof. exact (lift _ _ sweep_generators_frame3). Qed.

(* ---------- C12: Vietoris-Rips from a closeness relation ---------- *)
Definition all_pairs (n : nat) : list (nat * nat) :=
  flat_map (fun i => map (fun j => (i, j)) (seq (S i) (n - S i))) (seq 0 n).
Definition points_rep (n : nat) : rep :=
  fold_left (fun r p => fst (addSimplex r [] (Some (pt p)) None)) (seq 0 n) (empty_rep 1).
Definition vr_model (n : nat) (close : list (nat * nat)) : option rep :=
  match vr_build 2 (points_rep n) close with
  | (g, Ok _) => match flagComplex [] g 3 with (_, f, Ok _) => Some f | _ => None end
  | _ => None
  end.
Definition close_set (close : list (nat * nat)) (V : vset) : bool :=
  (* every two points of V are a close pair *)
  (fix go (l : vset) : bool :=
     match l with
     | [] => true
     | p :: t => forallb (fun q => existsb (fun ij => (seteq [pt (fst ij); pt (snd ij)] [p; q])) close) t && go t
     end) V.
Definition chk_vr (n : nat) (close : list (nat * nat)) : bool :=
  match vr_model n close with
  | Some f =>
      fam_eq (fam f) (filter (fun V => (length V =? 1) || close_set close V) (nonempty_sublists (map pt (seq 0 n)))) &&
      list_eqb (simplicesOfOrder f 0) (map pt (seq 0 n)) && wfb f
  | None => false
  end.
Definition chk_vr_monotone (n : nat) (c1 c2 : list (nat * nat)) : bool :=
  (* c1 is a sub-relation of c2 => the family at c1 is contained in the family at c2 *)
  if forallb (fun p => existsb (fun q => (fst p =? fst q) && (snd p =? snd q)) c2) c1 then
    match vr_model n c1, vr_model n c2 with
    | Some f1, Some f2 => fam_sub (fam f1) (fam f2)
    | _, _ => false
    end
  else true.
Lemma sweep_vr4 : forallb (fun n => forallb (chk_vr n) (sublists (all_pairs n))) (seq 0 5) = true.
Proof. vm_compute. reflexivity. Qed.
Lemma sweep_vr_monotone4 :
  forallb (fun c1 => forallb (chk_vr_monotone 4 c1) (sublists (all_pairs 4))) (sublists (all_pairs 4)) = true.
Proof. vm_compute. reflexivity. Qed.
