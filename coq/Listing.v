(* Listing.v -- where addSimplex and bulk adds put new simplices in the listings; the snapshot of a
   filtration lists what the filtration lists (C14, C09).  Plain Coq. *)
From Coq Require Import String ZArith Bool Arith List Lia.
From SV Require Import Names NamesFacts ListFacts Rep Fresh Complex Atomic RepInv Reach Shapes Incidence AddEffect
                       Closed CopyFaithful CopyAttrs Filtration FiltProofs SnapProofs.
Import ListNotations.
Open Scope nat_scope.

Lemma simplicesOfOrder_idxk r j : pinv r -> simplicesOfOrder r j = idxk r j.
Proof.
  intros [K Pm St L]. unfold simplicesOfOrder. destruct (j <? r_nord r) eqn:E; [reflexivity|].
  apply Nat.ltb_ge in E. symmetry. now apply St.
Qed.

(* a new simplex goes to the end of the listing of its order; the other listings do not change *)
Theorem addSimplex_listing r fs id attr r' n : sinv r -> addSimplex r fs id attr = (r', Ok n) ->
  forall j, simplicesOfOrder r' j = if j =? length fs - 1 then simplicesOfOrder r j ++ [n] else simplicesOfOrder r j.
Proof.
  intros Hinv H j. assert (Hinv' : sinv r') by (eapply addSimplex_sinv; eauto).
  rewrite (simplicesOfOrder_idxk r' j (s_p r' Hinv')), (simplicesOfOrder_idxk r j (s_p r Hinv)).
  apply addSimplex_eq2 in H. destruct H as (r2 & h & Hs & Hc2 & Hnd & Hchk & Hk0 & Hk & ->).
  assert (Hinv2 : sinv r2) by (eapply sinv_same_obs; eauto).
  assert (Ei : forall j0, idxk r j0 = idxk r2 j0).
  { intros j0. destruct Hs as (_ & _ & _ & Hi & _). unfold idxk. now rewrite Hi. }
  rewrite !Ei. destruct (length fs - 1) as [|k'] eqn:Ek.
  - assert (fs = []) by (now apply Hk0). subst fs. rewrite (v_idx r2 n h Hinv2 j).
    destruct (j =? 0) eqn:E; [apply Nat.eqb_eq in E; now subst|reflexivity].
  - rewrite add_hi_eq, (hi_idx r2 fs n h (S k') k' Hinv2 eq_refl Hk j).
    destruct (j =? S k') eqn:E; [apply Nat.eqb_eq in E; now subst|reflexivity].
Qed.

(* a bulk add without renaming appends, per order, the source's simplices of that order in source order *)
Definition of_order (j : nat) (src : srcview) : list name :=
  map fst (filter (fun e => length (fst (snd e)) - 1 =? j) src).
Theorem bulk_add_listing : forall (src : srcview) hp r st ns hp' r' st' ns',
  sinv r -> addFrom_loop hp r RNone st src ns = (hp', r', st', Ok ns') ->
  forall j, simplicesOfOrder r' j = simplicesOfOrder r j ++ of_order j src.
Proof.
  induction src as [|[s [fs h]] rest IH]; intros hp r st ns hp' r' st' ns' Hinv H j; cbn [addFrom_loop] in H.
  - injection H as _ <- _ _. unfold of_order. simpl. now rewrite app_nil_r.
  - cbn [rl_apply] in H. rewrite name_eqb_refl in H. simpl negb in H. cbv iota in H. simpl andb in H. cbv iota in H.
    rewrite rl_map_none in H.
    destruct (alloc r) as [r1 h'] eqn:Ea.
    assert (Hs1 : same_obs r r1) by (pose proof (same_obs_alloc r) as X; now rewrite Ea in X).
    assert (Hinv1 : sinv r1) by (eapply sinv_same_obs; eauto).
    destruct (addSimplex r1 fs (Some s) (Some h')) as [r2 [id|e]] eqn:E; [|discriminate].
    assert (Hinv2 : sinv r2) by (eapply addSimplex_sinv; eauto).
    rewrite (IH _ _ _ _ _ _ _ _ Hinv2 H j), (addSimplex_listing r1 fs (Some s) (Some h') r2 id Hinv1 E j).
    assert (Hid : id = s).
    { now destruct (addSimplex_given r1 fs s h' r2 id E). }
    subst id.
    assert (Eo : simplicesOfOrder r1 j = simplicesOfOrder r j).
    { destruct Hs1 as (_ & Hn & _ & Hi & _). unfold simplicesOfOrder, idxk. now rewrite Hn, Hi. }
    rewrite Eo. unfold of_order. cbn [filter fst snd]. destruct (length fs - 1 =? j) eqn:Ej.
    + rewrite Nat.eqb_sym, Ej. cbn [map fst]. now rewrite <- app_assoc.
    + rewrite Nat.eqb_sym, Ej. reflexivity.
Qed.

(* ---------- the snapshot of a filtration ---------- *)
Lemma filter_all {A} (f : A -> bool) l : (forall x, In x l -> f x = true) -> filter f l = l.
Proof. induction l as [|a l IH]; intros H; simpl; [reflexivity|]. rewrite (H a (or_introl eq_refl)), IH; auto. intros x Hx. apply H. now right. Qed.
Lemma filter_none {A} (f : A -> bool) l : (forall x, In x l -> f x = false) -> filter f l = [].
Proof. induction l as [|a l IH]; intros H; simpl; [reflexivity|]. rewrite (H a (or_introl eq_refl)), IH; auto. intros x Hx. apply H. now right. Qed.
Lemma filter_order_concat r : pinv r -> forall n j,
  filter (fun s => match assoc s (r_simp r) with Some (k, _) => k =? j | None => false end)
         (concat (map (simplicesOfOrder r) (seq 0 n))) = if j <? n then simplicesOfOrder r j else [].
Proof.
  intros P. pose proof P as [K Pm St L].
  assert (G : forall k, filter (fun s => match assoc s (r_simp r) with Some (k0, _) => k0 =? k | None => false end) (simplicesOfOrder r k) = simplicesOfOrder r k).
  { intros k. apply filter_all. intros s Hs. unfold simplicesOfOrder in Hs.
    destruct (k <? r_nord r) eqn:Lt; [|destruct Hs]. apply Nat.ltb_lt in Lt. apply In_nth_error in Hs. destruct Hs as (i & Hi).
    rewrite (proj2 (Pm s k i) (conj Lt Hi)). apply Nat.eqb_refl. }
  assert (G0 : forall k j, k <> j -> filter (fun s => match assoc s (r_simp r) with Some (k0, _) => k0 =? j | None => false end) (simplicesOfOrder r k) = []).
  { intros k j Hne. apply filter_none. intros s Hs. unfold simplicesOfOrder in Hs.
    destruct (k <? r_nord r) eqn:Lt; [|destruct Hs]. apply Nat.ltb_lt in Lt. apply In_nth_error in Hs. destruct Hs as (i & Hi).
    rewrite (proj2 (Pm s k i) (conj Lt Hi)). now apply Nat.eqb_neq. }
  induction n as [|n IH]; intros j; [reflexivity|].
  rewrite seq_S, map_app, concat_app, filter_app, IH. cbn [map concat plus]. rewrite app_nil_r.
  destruct (Nat.eq_dec n j) as [->|Hne].
  - rewrite G. replace (j <? j) with false by (symmetry; apply Nat.ltb_irrefl). replace (j <? S j) with true by (symmetry; apply Nat.ltb_lt; lia). reflexivity.
  - rewrite (G0 n j Hne), app_nil_r. destruct (j <? n) eqn:E1.
    + apply Nat.ltb_lt in E1. replace (j <? S n) with true by (symmetry; apply Nat.ltb_lt; lia). reflexivity.
    + apply Nat.ltb_ge in E1. replace (j <? S n) with false by (symmetry; apply Nat.ltb_ge; lia). reflexivity.
Qed.

Lemma filter_comm {A} (f g : A -> bool) l : filter f (filter g l) = filter g (filter f l).
Proof. induction l as [|a l IH]; simpl; [reflexivity|]. destruct (f a) eqn:Ef, (g a) eqn:Eg; simpl; rewrite ?Ef, ?Eg, IH; reflexivity. Qed.
Lemma filter_map_fst {A B} (f : A -> B) (p : B -> bool) l : filter p (map f l) = map f (filter (fun x => p (f x)) l).
Proof. induction l as [|a l IH]; simpl; [reflexivity|]. destruct (p (f a)); simpl; now rewrite IH. Qed.
Lemma filter_concat {A} (f : A -> bool) ll : filter f (concat ll) = concat (map (filter f) ll).
Proof. induction ll as [|l ll IH]; simpl; [reflexivity|]. now rewrite filter_app, IH. Qed.
Lemma concat_pad {A} (g : nat -> list A) n m : (forall j, n <= j -> g j = []) ->
  concat (map g (seq 0 (n + m))) = concat (map g (seq 0 n)).
Proof.
  intros H. rewrite seq_app, map_app, concat_app. rewrite <- (app_nil_r (concat (map g (seq 0 n)))) at 2. f_equal.
  apply concat_nil_Forall, Forall_forall. intros l Hl. apply in_map_iff in Hl. destruct Hl as (j & <- & Hj). apply in_seq in Hj. apply H. lia.
Qed.

Section Snap.
  Variables (hp : heap) (f : filt) (uid : nat) (hp' : heap) (c : rep).
  Hypothesis Hc : cinv (f_rep f).
  Hypothesis Hsnap : copy_new hp (f_view f) uid = (hp', c, Ok tt).
  Let fr := f_rep f.
  Let HS : sinv fr := c_s fr Hc.
  Let P : pinv fr := s_p fr HS.

  (* at the current index the snapshot lists, per order, what the filtration shows of that order *)
  Theorem snap_listing_per_order j : simplicesOfOrder c j = filter (f_contains f) (simplicesOfOrder fr j).
  Proof.
    pose proof Hsnap as H. unfold copy_new, addSimplicesFrom in H.
    destruct (addFrom_loop hp (empty_rep uid) RNone rl0 (f_view f) []) as [[[hp1 r1] st1] [ns|e]] eqn:E; [|discriminate].
    injection H as _ <-.
    rewrite (bulk_add_listing (f_view f) hp (empty_rep uid) rl0 [] hp1 r1 st1 ns (sinv_empty uid) E j).
    replace (simplicesOfOrder (empty_rep uid) j) with (@nil name) by (unfold simplicesOfOrder; simpl; now destruct j).
    cbn [app]. unfold of_order, f_view. rewrite filter_map_fst, map_map. cbn [fst snd]. rewrite map_id.
    pose proof P as [K Pm St L].
    rewrite (filter_ext_in _ (fun s => match assoc s (r_simp fr) with Some (k, _) => k =? j | None => false end)).
    2: { intros s Hs. unfold f_simplices in Hs. apply filter_In in Hs. destruct Hs as [Hs _].
         apply (In_simplices_iff fr s P) in Hs. unfold containsSimplex in Hs. fold fr. unfold faces. fold fr.
         destruct (assoc s (r_simp fr)) as [[[|k] i]|] eqn:As; [reflexivity| |discriminate].
         pose proof (c_f fr Hc s k i As) as Lf. unfold faces in Lf. rewrite As in Lf. rewrite Lf. reflexivity. }
    unfold f_simplices. fold fr. rewrite filter_comm, (simplices_by_order fr P), (filter_order_concat fr P).
    destruct (j <? length (r_idx fr)) eqn:Lt; [reflexivity|]. apply Nat.ltb_ge in Lt.
    unfold simplicesOfOrder. replace (j <? r_nord fr) with false by (symmetry; apply Nat.ltb_ge; lia). reflexivity.
  Qed.

  Let HSc : sinv c := proj1 (snap_answers_as_filtration hp f uid hp' c P Hsnap).
  Let Pc : pinv c := s_p c HSc.

  Lemma sOO_above r0 j : pinv r0 -> length (r_idx r0) <= j -> simplicesOfOrder r0 j = [].
  Proof.
    intros [K Pm St L] Hj. unfold simplicesOfOrder. replace (j <? r_nord r0) with false by (symmetry; apply Nat.ltb_ge; lia). reflexivity.
  Qed.

  (* ... and as a whole *)
  Theorem snap_listing : simplices c false = f_simplices f false.
  Proof.
    unfold f_simplices. fold fr. rewrite (simplices_by_order c Pc), (simplices_by_order fr P), filter_concat, map_map.
    rewrite (map_ext (fun x => filter (f_contains f) (simplicesOfOrder fr x)) (simplicesOfOrder c)) by (intros j; symmetry; apply snap_listing_per_order).
    rewrite <- (concat_pad (simplicesOfOrder c) (length (r_idx c)) (length (r_idx fr))) by (intros j Hj; now apply sOO_above).
    rewrite <- (concat_pad (simplicesOfOrder c) (length (r_idx fr)) (length (r_idx c))).
    - now rewrite Nat.add_comm.
    - intros j Hj. rewrite snap_listing_per_order, (sOO_above fr j P Hj). reflexivity.
  Qed.

  (* the Euler characteristic the filtration reports at its index is the snapshot's *)
  Lemma alt_sum_strip : forall l s, alt_sum s (strip_zeros l) = alt_sum s l.
  Proof.
    induction l as [|n l IH]; intros s; [reflexivity|]. cbn [strip_zeros alt_sum].
    specialize (IH (- s)%Z). destruct (strip_zeros l) as [|a t] eqn:E.
    - destruct (n =? 0) eqn:En; cbn [alt_sum] in *.
      + apply Nat.eqb_eq in En. subst n. lia.
      + lia.
    - cbn [alt_sum] in *. lia.
  Qed.
  Lemma alt_sum_zeros (g : nat -> nat) : forall m a s, (forall j, a <= j -> g j = 0) -> alt_sum s (map g (seq a m)) = 0%Z.
  Proof.
    induction m as [|m IH]; intros a s H; [reflexivity|]. cbn [seq map alt_sum]. rewrite (H a (le_n a)), IH; [lia|].
    intros j Hj. apply H. lia.
  Qed.
  Lemma alt_sum_pad (g : nat -> nat) : forall d a m s, (forall j, a + d <= j -> g j = 0) ->
    alt_sum s (map g (seq a (d + m))) = alt_sum s (map g (seq a d)).
  Proof.
    induction d as [|d IH]; intros a m s H.
    - cbn [plus seq map alt_sum]. apply alt_sum_zeros. intros j Hj. apply H. lia.
    - cbn [plus seq map alt_sum]. rewrite (IH (S a) m (- s)%Z); [reflexivity|]. intros j Hj. apply H. lia.
  Qed.
  Theorem snap_euler : eulerCharacteristic c = f_eulerCharacteristic f.
  Proof.
    unfold eulerCharacteristic, f_eulerCharacteristic, numberOfSimplicesOfOrder, f_numberOfSimplicesOfOrder. fold fr.
    rewrite alt_sum_strip.
    rewrite (map_ext (fun k => length (filter (f_contains f) (simplicesOfOrder fr k))) (fun k => length (simplicesOfOrder c k)))
      by (intros k; now rewrite snap_listing_per_order).
    set (g := fun k => length (simplicesOfOrder c k)).
    assert (G1 : forall j, r_nord c <= j -> g j = 0).
    { intros j Hj. unfold g, simplicesOfOrder. replace (j <? r_nord c) with false by (symmetry; apply Nat.ltb_ge; lia). reflexivity. }
    assert (G2 : forall j, r_nord fr <= j -> g j = 0).
    { intros j Hj. unfold g. rewrite snap_listing_per_order. unfold simplicesOfOrder. replace (j <? r_nord fr) with false by (symmetry; apply Nat.ltb_ge; lia). reflexivity. }
    rewrite <- (alt_sum_pad g (r_nord c) 0 (r_nord fr) 1%Z G1), <- (alt_sum_pad g (r_nord fr) 0 (r_nord c) 1%Z G2).
    now rewrite Nat.add_comm.
  Qed.
End Snap.

(* a copy lists, per order and as a whole, exactly what its source lists, in the same order *)
Theorem copy_listing_per_order hp src uid hp' c : cinv src -> copy_new hp (view_of src) uid = (hp', c, Ok tt) ->
  forall j, simplicesOfOrder c j = simplicesOfOrder src j.
Proof.
  intros Hc H j. pose proof (c_s src Hc) as HS. pose proof (s_p src HS) as P.
  unfold copy_new, addSimplicesFrom in H.
  destruct (addFrom_loop hp (empty_rep uid) RNone rl0 (view_of src) []) as [[[hp1 r1] st1] [ns|e]] eqn:E; [|discriminate].
  injection H as _ <-.
  rewrite (bulk_add_listing (view_of src) hp (empty_rep uid) rl0 [] hp1 r1 st1 ns (sinv_empty uid) E j).
  replace (simplicesOfOrder (empty_rep uid) j) with (@nil name) by (unfold simplicesOfOrder; simpl; now destruct j).
  cbn [app]. unfold of_order, view_of. rewrite filter_map_fst, map_map. cbn [fst snd]. rewrite map_id.
  pose proof P as [K Pm St L].
  rewrite (filter_ext_in _ (fun s => match assoc s (r_simp src) with Some (k, _) => k =? j | None => false end)).
  2: { intros s Hs. apply (In_simplices_iff src s P) in Hs. unfold containsSimplex in Hs. unfold faces.
       destruct (assoc s (r_simp src)) as [[[|k] i]|] eqn:As; [reflexivity| |discriminate].
       pose proof (c_f src Hc s k i As) as Lf. unfold faces in Lf. rewrite As in Lf. rewrite Lf. reflexivity. }
  rewrite (simplices_by_order src P), (filter_order_concat src P).
  destruct (j <? length (r_idx src)) eqn:Lt; [reflexivity|]. apply Nat.ltb_ge in Lt.
  unfold simplicesOfOrder. replace (j <? r_nord src) with false by (symmetry; apply Nat.ltb_ge; lia). reflexivity.
Qed.
