(* GrowComplete.v -- growFlagComplex = rebuild (C11): when the simplices handed to growFlagComplex are
   the only ones of the complex whose points contain theirs, and the complex was flag-complete apart from
   them, the result is the clique complex of its edges -- the family flagComplex builds from scratch.
   The fold and loop invariants of FlagComplete.v once more, with "all simplices" replaced by "the simplices
   whose points contain the points of a new one" (T).  Plain Coq. *)
From Coq Require Import String ZArith Bool Arith List Lia.
From SV Require Import Names NamesFacts ListFacts Rep Fresh Complex Atomic RepInv Reach Shapes Incidence AddEffect
                       Closed ClosedReach AddBasis BasisInv Duality DeleteEffect VInv AwbSpec VSets DD CopyFaithful
                       Homology ListMat Listing FlagExt VIso MinCycle FlagSound Continuation FlagComplete Counts.
Import ListNotations.
Open Scope nat_scope.

Record cinvG (T : list name -> bool) (newk1 : list nat) (r : rep) (k0 : nat) (nss0 : nssT) (maxk0 : nat) (done : list (list nat)) (ra : rep) (nsa : nssT) (ma : nat) : Prop := {
  gck_fl : fl r ra (S k0);
  gck_done : forall fs, In fs done -> existsb (fun i => existsb (Nat.eqb i) newk1) fs = true -> isClosed (boundaryOperator r (S k0)) fs = true ->
            exists s, containsSimplex ra s = true /\ sameset (faces ra s) (cfs_of r k0 fs);
  gck_ord : forall s o j, assoc s (r_simp ra) = Some (o, j) -> T (basisOf ra s) = true -> o <= ma;
  gck_reg : forall i, i < length (simplicesOfOrder ra (S (S k0))) -> T (basisOf ra (nth i (simplicesOfOrder ra (S (S k0))) (NInt 0))) = true -> registered nsa (S (S k0)) i;
  gck_key : nss_get (S (S k0)) nsa <> None;
  gck_oth : forall j x, j <> S (S k0) -> registered nss0 j x -> registered nsa j x;
  gck_lst : forall j, j <> S (S k0) -> simplicesOfOrder ra j = simplicesOfOrder r j;
  gck_max : ma = maxk0 \/ (ma = Nat.max maxk0 (S (S k0)) /\ exists s j, assoc s (r_simp ra) = Some (S (S k0), j)) }.

Lemma cps_step_okG T r k0 newk1 nss0 maxk0 done ra nsa ma fs : vinv r ->
  cinvG T newk1 r k0 nss0 maxk0 done ra nsa ma ->
  In fs (combs (S (S (S k0))) (seq 0 (length (simplicesOfOrder r (S k0))))) ->
  exists rb nsb mb,
    cps_step (boundaryOperator r (S k0)) (S (S k0)) newk1 (ra, nsa, ma, Ok tt) fs = (rb, nsb, mb, Ok tt) /\
    cinvG T newk1 r k0 nss0 maxk0 (done ++ [fs]) rb nsb mb.
Proof.
  intros Hv [Fl Dn Od Rg Ky Ot Ls Mx] Hfs.
  pose proof Fl as [Va Ea La Ba].
  pose proof (c_s r (b_c r (v_b r Hv))) as HS. pose proof (s_p r HS) as P.
  pose proof (c_s ra (b_c ra (v_b ra Va))) as HSa. pose proof (s_p ra HSa) as Pa.
  pose proof (combs_length _ _ _ Hfs) as Lfs.
  destruct (combs_sub _ _ _ Hfs) as [Ifs Nfs]. specialize (Nfs (seq_NoDup _ _)).
  assert (Hj : forall j, In j fs -> j < length (simplicesOfOrder r (S k0))).
  { intros j Hin. apply Ifs in Hin. apply in_seq in Hin. lia. }
  unfold cps_step.
  destruct (existsb (fun i => existsb (Nat.eqb i) newk1) fs) eqn:Enew; cbn [andb].
  2: { exists ra, nsa, ma. split; [reflexivity|]. constructor; auto.
       intros fs' Hin Hn Hc. apply in_app_or in Hin. destruct Hin as [Hin|[<-|[]]]; [now apply Dn | congruence]. }
  destruct (isClosed (boundaryOperator r (S k0)) fs) eqn:Ecl.
  2: { exists ra, nsa, ma. split; [reflexivity|]. constructor; auto.
       intros fs' Hin Hn Hc. apply in_app_or in Hin. destruct Hin as [Hin|[<-|[]]]; [now apply Dn | congruence]. }
  replace (S (S k0) - 1) with (S k0) by lia. cbv zeta. rewrite La.
  fold (cfs_of r k0 fs). set (cfs := cfs_of r k0 fs).
  assert (Hk : S k0 < r_nord r).
  { destruct fs as [|j0 t]; [discriminate|]. specialize (Hj j0 (or_introl eq_refl)).
    unfold simplicesOfOrder in Hj. destruct (S k0 <? r_nord r) eqn:E; [now apply Nat.ltb_lt in E | simpl in Hj; lia]. }
  assert (Hcfs : forall f, In f cfs -> exists j, assoc f (r_simp r) = Some (S k0, j)).
  { intros f Hf. apply in_map_iff in Hf. destruct Hf as (j & <- & Hin). exists j.
    destruct P as [K Pm St L]. apply Pm. split; [exact Hk|].
    rewrite <- simplicesOfOrder_idxk by (constructor; auto). apply List.nth_error_nth'. now apply Hj. }
  assert (Hold : forall f, In f cfs -> containsSimplex r f = true).
  { intros f Hf. destruct (Hcfs f Hf) as (j & A). unfold containsSimplex. now rewrite A. }
  assert (Hcfsa : forall f, In f cfs -> exists j, assoc f (r_simp ra) = Some (S k0, j)).
  { intros f Hf. destruct (Hcfs f Hf) as (j & A). destruct (e_old r ra Ea f (Hold f Hf)) as (C & O & _).
    unfold orderOf in O. rewrite A in O. destruct (assoc f (r_simp ra)) as [[ko jo]|]; [|discriminate].
    injection O as ->. now exists jo. }
  assert (Ncfs : NoDup cfs).
  { apply NoDup_map_nth; auto. apply sOO_nodup. exact P. }
  assert (Lcfs : length cfs = S (S (S k0))) by (unfold cfs, cfs_of; now rewrite map_length).
  assert (Hcfsa' : forall f, In f cfs -> exists j, assoc f (r_simp ra) = Some (length cfs - 1 - 1, j)).
  { replace (length cfs - 1 - 1) with (S k0) by lia. exact Hcfsa. }
  unfold c_simplexWithFaces. rewrite (swf_total ra cfs); [|lia|exact Hcfsa'].
  destruct (last (map Some (filter (fun s => seteq (faces ra s) cfs) (simplicesOfOrder ra (length cfs - 1)))) None)
    as [q|] eqn:Eswf.
  - (* already there *)
    exists ra, nsa, ma. split; [reflexivity|]. constructor; auto.
    intros fs' Hin Hn Hc. apply in_app_or in Hin. destruct Hin as [Hin|[<-|[]]]; [now apply Dn|].
    apply last_Some_In in Eswf. apply filter_In in Eswf. destruct Eswf as [Hq Sq].
    exists q. split; [|now apply seteq_sameset].
    rewrite Lcfs in Hq. simpl in Hq.
    destruct (listed_assoc ra Va q (S (S k0))) as (jq & Aq); [exact Hq|]. unfold containsSimplex. now rewrite Aq.
  - (* a new simplex *)
    assert (Hswf : simplexWithFaces ra cfs = Ok None).
    { rewrite (swf_total ra cfs); [now rewrite Eswf|lia|exact Hcfsa']. }
    destruct (addSimplex_succeeds ra cfs Ncfs) as (rb & s & Hadd).
    + lia.
    + rewrite Lcfs. simpl.
      assert (E : exists f, In f cfs) by (destruct cfs as [|f t]; [discriminate|exists f; now left]).
      destruct E as (f & Hf). destruct (Hcfsa f Hf) as (j & A). destruct Pa as [K Pm St L]. apply Pm in A. lia.
    + exact Hcfsa'.
    + intros _. exact Hswf.
    + rewrite Hadd.
      destruct (addSimplex_effect ra cfs None None rb s HSa Hadd) as (Hnc & _ & Ho & Hf & Hold' & Hall).
      assert (Flb : fl r rb (S k0)).
      { eapply (fl_step r k0 ra fs rb (Ok s)); eauto.
        - unfold c_simplexWithFaces. rewrite La. exact Hswf.
        - rewrite La. exact Hadd. }
      pose proof Flb as [Vb Eb Lb Bb].
      pose proof (s_p rb (c_s rb (b_c rb (v_b rb Vb)))) as Pb.
      pose proof (addSimplex_listing ra cfs None None rb s HSa Hadd) as Lst. rewrite Lcfs in Lst. simpl in Lst.
      assert (As : exists i, assoc s (r_simp rb) = Some (S (S k0), i)).
      { unfold orderOf in Ho. rewrite Lcfs in Ho. simpl in Ho.
        destruct (assoc s (r_simp rb)) as [[o i]|]; [|discriminate]. injection Ho as ->. now exists i. }
      destruct As as (i & As).
      assert (Ei : i = length (simplicesOfOrder ra (S (S k0)))).
      { pose proof Pb as [K Pm St L]. pose proof (proj1 (Pm s _ i) As) as [_ Hi].
        rewrite <- simplicesOfOrder_idxk in Hi by exact Pb. rewrite (Lst (S (S k0))), Nat.eqb_refl in Hi.
        assert (Nl : NoDup (simplicesOfOrder ra (S (S k0)) ++ [s])).
        { pose proof (Lst (S (S k0))) as E. rewrite Nat.eqb_refl in E. rewrite <- E. apply sOO_nodup. exact Pb. }
        apply (proj1 (NoDup_nth_error _) Nl).
        - apply nth_error_Some. congruence.
        - rewrite Hi. symmetry. apply nth_error_snoc_last. }
      unfold indexOf. rewrite As.
      exists rb, (nss_add (S (S k0)) i nsa), (Nat.max ma (S (S k0))). split; [reflexivity|].
      constructor.
      * exact Flb.
      * intros fs' Hin Hn Hc. apply in_app_or in Hin. destruct Hin as [Hin|[<-|[]]].
        -- destruct (Dn fs' Hin Hn Hc) as (s' & Cs' & Ss'). exists s'. destruct (Hold' s' Cs') as (_ & _ & F & _).
           split; [rewrite Hall, Cs'; reflexivity|]. now rewrite F.
        -- exists s. split; [rewrite Hall, name_eqb_refl; apply orb_true_r | exact Hf].
      * intros s' o j A' Ht. assert (C' : containsSimplex rb s' = true) by (unfold containsSimplex; now rewrite A').
        rewrite Hall in C'. apply orb_prop in C'. destruct C' as [C'|C'].
        -- destruct (Hold' s' C') as (O' & _ & _ & B'). unfold orderOf in O'. rewrite A' in O'.
           destruct (assoc s' (r_simp ra)) as [[o' j']|] eqn:A''; [|discriminate]. injection O' as ->.
           rewrite B' in Ht. pose proof (Od s' o' j' A'' Ht). lia.
        -- apply name_eqb_eq in C'. subst s'. rewrite As in A'. injection A' as <- _. lia.
      * intros i' Hi' Ht. rewrite (Lst (S (S k0))), Nat.eqb_refl in Hi', Ht. rewrite app_length in Hi'. simpl in Hi'.
        destruct (Nat.eq_dec i' i) as [->|Ne]; [apply nss_get_add_same|].
        apply nss_get_add_keep. assert (Hlt : i' < length (simplicesOfOrder ra (S (S k0)))) by lia.
        apply (Rg i' Hlt). rewrite app_nth1 in Ht by exact Hlt.
        assert (Co : containsSimplex ra (nth i' (simplicesOfOrder ra (S (S k0))) (NInt 0)) = true).
        { destruct (listed_assoc ra Va _ (S (S k0)) (nth_In _ (NInt 0) Hlt)) as (jj & Aj). unfold containsSimplex. now rewrite Aj. }
        destruct (Hold' _ Co) as (_ & _ & _ & Bq). now rewrite Bq in Ht.
      * now apply nss_add_key.
      * intros j x Hjn Hr. apply nss_get_add_keep. now apply Ot.
      * intros j Hjn. rewrite (Lst j). replace (j =? S (S k0)) with false by (symmetry; now apply Nat.eqb_neq). now apply Ls.
      * right. split; [destruct Mx as [->|[-> _]]; lia | exists s, i; exact As].
Qed.

Lemma cps_fold_okG T r k0 newk1 nss0 maxk0 : vinv r ->
  forall L0 done ra nsa ma,
  (forall fs, In fs L0 -> In fs (combs (S (S (S k0))) (seq 0 (length (simplicesOfOrder r (S k0)))))) ->
  cinvG T newk1 r k0 nss0 maxk0 done ra nsa ma ->
  exists r' nss' maxk',
    fold_left (cps_step (boundaryOperator r (S k0)) (S (S k0)) newk1) L0 (ra, nsa, ma, Ok tt) = (r', nss', maxk', Ok tt) /\
    cinvG T newk1 r k0 nss0 maxk0 (done ++ L0) r' nss' maxk'.
Proof.
  intros Hv. induction L0 as [|fs L0 IH]; intros done ra nsa ma HL Hc.
  - exists ra, nsa, ma. split; [reflexivity|]. now rewrite app_nil_r.
  - destruct (cps_step_okG T r k0 newk1 nss0 maxk0 done ra nsa ma fs Hv Hc (HL fs (or_introl eq_refl))) as (rb & nsb & mb & E & Hc').
    destruct (IH (done ++ [fs]) rb nsb mb (fun f H => HL f (or_intror H)) Hc') as (r' & nss' & maxk' & E' & Hc'').
    exists r', nss', maxk'. split; [cbn [fold_left]; rewrite E; exact E'|]. now rewrite <- app_assoc in Hc''.
Qed.

Theorem cps_order_completeG T r k0 newk1 nss1 maxk : vinv r ->
  (forall s o j, assoc s (r_simp r) = Some (o, j) -> T (basisOf r s) = true -> o <= maxk) ->
  (forall i, i < length (simplicesOfOrder r (S (S k0))) ->
     T (basisOf r (nth i (simplicesOfOrder r (S (S k0))) (NInt 0))) = true -> registered nss1 (S (S k0)) i) ->
  nss_get (S (S k0)) nss1 <> None ->
  exists r' nss' maxk',
    cps_order r (S (S k0)) newk1 nss1 maxk = (r', nss', maxk', Ok tt) /\
    cinvG T newk1 r k0 nss1 maxk (combs (S (S (S k0))) (seq 0 (length (simplicesOfOrder r (S k0))))) r' nss' maxk'.
Proof.
  intros Hv Hord Hreg Hkey. rewrite cps_order_fold. replace (S (S k0) - 1) with (S k0) by lia.
  apply (cps_fold_okG T r k0 newk1 nss1 maxk Hv _ [] r nss1 maxk); [auto|].
  constructor; auto.
  - constructor; [exact Hv | apply ext2_refl; exact (c_s r (b_c r (v_b r Hv))) | reflexivity | reflexivity].
  - intros fs [].
Qed.

(* ---------- "tainted": the points include the points of one of the new simplices ---------- *)
Definition taintb (TB : list (list name)) (B : list name) : bool := existsb (fun E => subsetn E B) TB.

Lemma taintb_true TB B : taintb TB B = true <-> exists E, In E TB /\ incl E B.
Proof. unfold taintb. rewrite existsb_exists. split; intros (E & H1 & H2); exists E; (split; [exact H1|]); now apply subsetn_incl. Qed.

Lemma taintb_sameset TB A B : sameset A B -> taintb TB A = taintb TB B.
Proof.
  intros S. destruct (taintb TB A) eqn:Ea, (taintb TB B) eqn:Eb; auto.
  - apply taintb_true in Ea. destruct Ea as (E & H1 & H2). assert (taintb TB B = true) by (apply taintb_true; exists E; split; auto; intros x Hx; apply S; auto). congruence.
  - apply taintb_true in Eb. destruct Eb as (E & H1 & H2). assert (taintb TB A = true) by (apply taintb_true; exists E; split; auto; intros x Hx; apply S; auto). congruence.
Qed.

Theorem order_completeG TB r k0 newk1 nss maxk L r' nss' maxk' : vinv r ->
  L = combs (S (S (S k0))) (seq 0 (length (simplicesOfOrder r (S k0)))) ->
  cinvG (taintb TB) newk1 r k0 nss maxk L r' nss' maxk' ->
  (forall i, i < length (simplicesOfOrder r (S k0)) ->
     taintb TB (basisOf r (nth i (simplicesOfOrder r (S k0)) (NInt 0))) = true -> In i newk1) ->
  (forall E, In E TB -> carried r E) ->
  complete_at r (S (S k0)) ->
  (forall B, NoDup B -> length B = S (S (S k0)) -> clique r B -> taintb TB B = false -> carried r B) ->
  complete_at r' (S (S (S k0))).
Proof.
  intros Hv EL [Fl Dn _ _ _ _ _ _] Hnew HTB Hc Hu B HB LB Cl.
  pose proof Fl as [V' E' L' B'].
  pose proof (c_s r (b_c r (v_b r Hv))) as HS. pose proof (s_p r HS) as P.
  assert (Eb : ext2b r r') by (split; assumption).
  assert (Cl0 : clique r B).
  { intros p q Hp Hq Ne. apply (ext2b_edges r r' p q Hv V' Eb). now apply Cl. }
  destruct (taintb TB B) eqn:Et.
  2: { apply (carried_ext r r' B Eb). now apply Hu. }
  apply taintb_true in Et. destruct Et as (E & HE & HEB).
  destruct (forallb (fun x => memn x E) B) eqn:Eall.
  - (* B is the point set of a new simplex *)
    apply (carried_ext r r' B Eb). destruct (HTB E HE) as (t & Ct & St). exists t. split; [exact Ct|].
    intros x. rewrite (St x). split; [apply HEB|]. intros Hx. rewrite forallb_forall in Eall. apply memn_In. now apply Eall.
  - (* a point of B outside E: the facet that drops it is tainted, hence new *)
    assert (Ex : exists x, In x B /\ ~ In x E).
    { destruct (existsb (fun x => negb (memn x E)) B) eqn:Ee.
      - apply existsb_exists in Ee. destruct Ee as (x & Hx & Nx). exists x. split; [exact Hx|].
        intros Hin. apply memn_In in Hin. rewrite Hin in Nx. discriminate.
      - exfalso. assert (forallb (fun x => memn x E) B = true); [|congruence].
        apply forallb_forall. intros x Hx. destruct (memn x E) eqn:Em; auto.
        assert (existsb (fun x0 => negb (memn x0 E)) B = true) by (apply existsb_exists; exists x; split; auto; now rewrite Em). congruence. }
    destruct Ex as (x0 & Hx0 & Nx0).
    assert (Hfac : forall x, In x B -> exists f, containsSimplex r f = true /\ sameset (basisOf r f) (drop x B)).
    { intros x Hx. apply Hc.
      - now apply NoDup_filter.
      - pose proof (filter_neq_length x B HB Hx) as Lx. unfold drop. lia.
      - now apply drop_clique. }
    set (l := simplicesOfOrder r (S k0)).
    set (idxs := filter (fun i => subsetn (basisOf r (nth i l (NInt 0))) B) (seq 0 (length l))).
    assert (Ecfs : cfs_of r k0 idxs = facets r k0 B).
    { unfold cfs_of, idxs, facets. fold l. apply (map_nth_filter_seq (fun s => subsetn (basisOf r s) B)). }
    pose proof (F_length r Hv k0 B HB LB Hfac) as LF.
    assert (Li : length idxs = S (S (S k0))).
    { rewrite <- LF, <- Ecfs. unfold cfs_of. now rewrite map_length. }
    assert (Hin : In idxs L).
    { rewrite EL. fold l. rewrite <- Li. unfold idxs. apply filter_in_combs. }
    assert (Hj : forall j, In j idxs -> j < length l).
    { intros j Hj. unfold idxs in Hj. apply filter_In in Hj. destruct Hj as [Hj _]. apply in_seq in Hj. lia. }
    assert (Hk : S k0 < r_nord r).
    { destruct idxs as [|j0 t] eqn:Ei; [discriminate|]. specialize (Hj j0 (or_introl eq_refl)).
      unfold l, simplicesOfOrder in Hj. destruct (S k0 <? r_nord r) eqn:E0; [now apply Nat.ltb_lt in E0 | simpl in Hj; lia]. }
    assert (Hcl : isClosed (boundaryOperator r (S k0)) idxs = true).
    { apply (closed_names r HS k0 Hk idxs Hj). rewrite Ecfs. apply F_closed; auto. }
    assert (Hnw : existsb (fun i => existsb (Nat.eqb i) newk1) idxs = true).
    { destruct (F_facet r Hv k0 B HB LB Hfac x0 Hx0) as (f & Hf & Cf).
      pose proof Hf as Hf'. apply F_in in Hf'. destruct Hf' as [Hfl Hfi]. fold l in Hfl.
      apply (In_nth _ _ (NInt 0)) in Hfl. destruct Hfl as (i & Hil & Hnth).
      apply existsb_exists. exists i. split.
      - unfold idxs. apply filter_In. split; [apply in_seq; lia|]. rewrite Hnth. now apply subsetn_incl.
      - apply existsb_exists. exists i. split; [|apply Nat.eqb_refl]. apply (Hnew i Hil). fold l. rewrite Hnth.
        apply taintb_true. exists E. split; [exact HE|]. intros z Hz. apply Cf. split; [now apply HEB|]. intros ->. contradiction. }
    destruct (Dn idxs Hin Hnw Hcl) as (s & Cs & Ss). rewrite Ecfs in Ss.
    exists s. split; [exact Cs|].
    pose proof (v_b r' V') as [C'' Bi]. apply contains_assoc in Cs. destruct Cs as (ks & j & As).
    destruct (Bi s ks j As) as [_ Bk].
    assert (Hks : 1 <= ks).
    { destruct ks as [|ks]; [|lia]. exfalso. unfold faces in Ss. rewrite As in Ss.
      destruct (facets r k0 B) as [|f t] eqn:EF; [discriminate|]. apply (proj2 (Ss f)). now left. }
    intros p. rewrite (Bk Hks p). split.
    + intros (u & Hu' & Hp). apply Ss in Hu'. pose proof Hu' as Hu''. apply F_in in Hu''. destruct Hu'' as [_ Hi].
      apply Hi. rewrite <- (B' u); [exact Hp|]. eapply F_contains; eauto.
    + intros Hp.
      assert (Ex : exists x, In x B /\ x <> p).
      { destruct B as [|a [|b t]]; simpl in LB; try lia. destruct (name_eq_dec a p) as [->|Na].
        - exists b. split; [right; now left|]. intros ->. inversion HB as [|? ? Hn _]. apply Hn. now left.
        - exists a. split; [now left | exact Na]. }
      destruct Ex as (x & Hx & Nx). destruct (F_facet r Hv k0 B HB LB Hfac x Hx) as (f & Hf & Cf).
      exists f. split; [now apply Ss|]. rewrite (B' f); [apply Cf; auto | eapply F_contains; eauto].
Qed.

(* ---------- the while loop, with "tainted" in place of "all" ---------- *)
Record loopG (c : rep) (TB : list (list name)) (k maxk : nat) (r : rep) (nss : nssT) : Prop := {
  lg_v : vinv r;
  lg_e : ext2b c r;
  lg_p : simplicesOfOrder r 0 = simplicesOfOrder c 0;
  lg_c : forall n, 2 <= n -> n <= S k -> complete_at r n;
  lg_o : forall s o j, assoc s (r_simp r) = Some (o, j) -> taintb TB (basisOf r s) = true -> o <= maxk;
  lg_r : forall j i, k <= j -> i < length (simplicesOfOrder r j) ->
         taintb TB (basisOf r (nth i (simplicesOfOrder r j) (NInt 0))) = true -> registered nss j i;
  lg_u : forall B, NoDup B -> 2 <= length B -> clique r B -> taintb TB B = false -> carried r B;
  lg_t : forall E, In E TB -> carried r E }.

Lemma carried_order r B t : vinv r -> containsSimplex r t = true -> sameset (basisOf r t) B -> NoDup B ->
  exists j, assoc t (r_simp r) = Some (length B - 1, j).
Proof.
  intros Hv Ct St HB. pose proof (s_p r (c_s r (b_c r (v_b r Hv)))) as P.
  apply contains_assoc in Ct. destruct Ct as (o & j & A). exists j.
  pose proof (v_card r Hv t o j A) as Lc.
  rewrite (NoDup_same_length (basisOf r t) B) in Lc; [|apply basis_nodup; exact P|exact HB|exact St].
  rewrite Lc. simpl. now rewrite Nat.sub_0_r.
Qed.

(* a sub-list of B of a given length that still contains E *)
Lemma between (E B : list name) m : NoDup B -> incl E B -> NoDup E -> length E <= m -> m <= length B ->
  exists B', NoDup B' /\ incl B' B /\ incl E B' /\ length B' = m.
Proof.
  intros HB HE NE L1 L2.
  set (In_ := filter (fun x => memn x E) B). set (Out := filter (fun x => negb (memn x E)) B).
  assert (LIn : length In_ = length E).
  { apply NoDup_same_length; [now apply NoDup_filter | exact NE|]. intros x. unfold In_. rewrite filter_In, memn_In. split; [tauto | intros Hx; split; auto]. }
  pose proof (filter_partition_length (fun x => memn x E) B) as Lp. fold In_ Out in Lp.
  exists (In_ ++ firstn (m - length E) Out). split; [|split; [|split]].
  - apply NoDup_app'; [now apply NoDup_filter | apply NoDup_firstn; now apply NoDup_filter|].
    intros x H1 H2. unfold In_ in H1. apply filter_In in H1. destruct H1 as [_ H1].
    assert (H3 : In x Out) by (rewrite <- (firstn_skipn (m - length E) Out); apply in_or_app; now left).
    unfold Out in H3. apply filter_In in H3. destruct H3 as [_ H3]. rewrite H1 in H3. discriminate.
  - intros x Hx. apply in_app_or in Hx. destruct Hx as [Hx|Hx]; [unfold In_ in Hx; apply filter_In in Hx; tauto|].
    assert (H3 : In x Out) by (rewrite <- (firstn_skipn (m - length E) Out); apply in_or_app; now left).
    unfold Out in H3. apply filter_In in H3. tauto.
  - intros x Hx. apply in_or_app. left. unfold In_. apply filter_In. split; [now apply HE | now apply memn_In].
  - rewrite app_length, firstn_length, LIn. unfold In_, Out in *. lia.
Qed.

Lemma cps_loop_completeG c TB Mx : vinv c -> length (simplicesOfOrder c 0) <= Mx -> (forall E, In E TB -> NoDup E) ->
  forall fuel k maxk r nss, loopG c TB k maxk r nss -> 1 <= k -> k <= maxk + 2 -> maxk <= Mx -> Mx + 3 <= k + fuel ->
  exists r', cps_loop fuel k maxk r nss = (r', Ok tt) /\ vinv r' /\ ext2b c r' /\ forall n, 2 <= n -> complete_at r' n.
Proof.
  intros Vc HMx HTBn. induction fuel as [|f IH]; intros k maxk r nss T Hk Hkm Hm Hf; [lia|].
  pose proof T as [Vr Er Pr Cr Or Rr Ur Tr].
  pose proof (s_p r (c_s r (b_c r (v_b r Vr)))) as P.
  (* a tainted clique of k+2 or more points would need a tainted simplex of order k (or is a new simplex itself) *)
  assert (Hbig : (forall s j, assoc s (r_simp r) = Some (k, j) -> taintb TB (basisOf r s) = true -> False) ->
                 forall B, NoDup B -> S (S k) <= length B -> clique r B ->
                 (forall E, In E TB -> incl E B -> length E <= S k \/ length B <= length E) -> carried r B).
  { intros Hno B HB LB Cl Hsz. destruct (taintb TB B) eqn:Et; [|apply Ur; auto; lia].
    apply taintb_true in Et. destruct Et as (E & HE & HEB).
    destruct (Hsz E HE HEB) as [Hle|Hle].
    - exfalso. destruct (between E B (S k) HB HEB (HTBn E HE)) as (B' & NB' & IB' & EB' & LB'); [lia|lia|].
      assert (Cl' : clique r B') by (apply (clique_incl r B); auto).
      destruct (Cr (S k) ltac:(lia) (le_n _) B' NB' LB' Cl') as (u & Cu & Su).
      destruct (carried_order r B' u Vr Cu Su NB') as (ju & Au). rewrite LB' in Au. simpl in Au. rewrite Nat.sub_0_r in Au.
      apply (Hno u ju Au). apply taintb_true. exists E. split; [exact HE|]. intros x Hx. apply Su. now apply EB'.
    - destruct (Tr E HE) as (t & Ct & St). exists t. split; [exact Ct|]. intros x. rewrite (St x). split; [apply HEB|].
      apply NoDup_length_incl; [now apply HTBn | exact Hle | exact HEB]. }
  cbn [cps_loop]. destruct (maxk + 1 <? k) eqn:Estop.
  - (* the loop ends *)
    apply Nat.ltb_lt in Estop. exists r. split; [reflexivity|]. split; [exact Vr|]. split; [exact Er|].
    intros n Hn. destruct (Nat.le_gt_cases n (S k)) as [Hle|Hgt]; [now apply Cr|].
    intros B HB LB Cl. apply Hbig; auto; [|lia|].
    + intros s j A Ht. pose proof (Or s k j A Ht). lia.
    + intros E HE HEB. destruct (Nat.le_gt_cases (length E) (S k)) as [H1|H1]; [now left|]. right.
      (* a new simplex of order >= k+1 would be a tainted simplex above maxk *)
      exfalso. destruct (Tr E HE) as (t & Ct & St). destruct (carried_order r E t Vr Ct St (HTBn E HE)) as (j & At).
      assert (Ht : taintb TB (basisOf r t) = true) by (apply taintb_true; exists E; split; [exact HE|]; intros x Hx; now apply St).
      pose proof (Or t _ j At Ht). lia.
  - apply Nat.ltb_ge in Estop. replace (S k - 1) with k by lia.
    assert (Hnone : (forall s j, assoc s (r_simp r) = Some (k, j) -> taintb TB (basisOf r s) = true -> False) -> loopG c TB (S k) maxk r nss).
    { intros Hno. constructor; auto.
      - intros n Hn Hle. destruct (Nat.eq_dec n (S (S k))) as [->|Ne]; [|apply Cr; lia].
        intros B HB LB Cl. apply Hbig; auto; [lia|].
        intros E HE HEB. pose proof (NoDup_incl_length (HTBn E HE) HEB) as Ll. lia.
      - intros j i Hj Hi. apply Rr; [lia | exact Hi]. }
    assert (Hempty : (forall i, registered nss k i -> False) ->
                     forall s j, assoc s (r_simp r) = Some (k, j) -> taintb TB (basisOf r s) = true -> False).
    { intros Hno s j A Ht. apply (Hno j).
      pose proof P as [K Pm St L]. pose proof (proj1 (Pm s k j) A) as [Hlt A'].
      assert (Hn : nth_error (simplicesOfOrder r k) j = Some s) by (rewrite simplicesOfOrder_idxk by exact P; exact A').
      apply Rr; [lia | apply nth_error_Some; congruence|]. now rewrite (nth_error_nth _ _ _ Hn). }
    destruct (nss_get k nss) as [[|i0 newk1]|] eqn:Eget.
    + apply (IH (S k) maxk r nss); try lia. apply Hnone. apply Hempty.
      intros i (s & G & Hin). rewrite Eget in G. injection G as <-. destruct Hin.
    + destruct k as [|k0]; [lia|].
      set (nss1 := match nss_get (S (S k0)) nss with Some _ => nss | None => nss ++ [(S (S k0), [])] end).
      assert (R1 : forall j x, registered nss j x -> registered nss1 j x).
      { intros j x H. unfold nss1. destruct (nss_get (S (S k0)) nss) eqn:E; [exact H | now apply nss_get_app_new]. }
      destruct (cps_order_completeG (taintb TB) r k0 (i0 :: newk1) nss1 maxk Vr) as (r1 & nss' & maxk' & Eo & Ck).
      * exact Or.
      * intros i Hi Ht. apply R1. apply Rr; [lia | exact Hi | exact Ht].
      * unfold nss1. destruct (nss_get (S (S k0)) nss) eqn:E; [congruence | now rewrite nss_get_app_self].
      * fold nss1. rewrite Eo.
        pose proof Ck as [Fl Dn Od Rg Ky Ot Ls Mxx]. pose proof Fl as [V1 E1 L1 B1].
        assert (E1b : ext2b r r1) by (split; assumption).
        assert (T1 : loopG c TB (S (S k0)) maxk' r1 nss').
        { constructor.
          - exact V1.
          - eapply ext2b_trans; eauto.
          - rewrite (Ls 0) by lia. exact Pr.
          - intros n Hn Hle. destruct (Nat.eq_dec n (S (S (S k0)))) as [->|Ne].
            + eapply (order_completeG TB r k0 (i0 :: newk1) nss1 maxk _ r1 nss' maxk' Vr eq_refl Ck).
              * intros i Hi Ht. destruct (Rr (S k0) i (le_n _) Hi Ht) as (s & G & Hin). rewrite Eget in G. now injection G as <-.
              * exact Tr.
              * apply Cr; lia.
              * intros B HB LB Cl Hu. apply Ur; auto. lia.
            + intros B HB LB Cl. apply (carried_ext r r1 B E1b). apply (Cr n Hn ltac:(lia) B HB LB).
              intros p q Hp Hq Ne'. apply (ext2b_edges r r1 p q Vr V1 E1b). now apply Cl.
          - exact Od.
          - intros j i Hj Hi Ht. destruct (Nat.eq_dec j (S (S k0))) as [->|Ne]; [now apply Rg|].
            apply Ot; [exact Ne|]. apply R1. rewrite (Ls j Ne) in Hi, Ht. apply Rr; [lia | exact Hi|].
            rewrite <- (B1 _); [exact Ht|].
            destruct (listed_assoc r Vr _ j (nth_In _ (NInt 0) Hi)) as (jj & Aj). unfold containsSimplex. now rewrite Aj.
          - intros B HB LB Cl Hu. apply (carried_ext r r1 B E1b). apply Ur; auto.
            intros p q Hp Hq Ne'. apply (ext2b_edges r r1 p q Vr V1 E1b). now apply Cl.
          - intros E HE. apply (carried_ext r r1 E E1b). now apply Tr. }
        assert (Hm' : maxk <= maxk' /\ maxk' <= Mx).
        { destruct Mxx as [->|[-> (s & j & As)]]; [lia|]. split; [lia|].
          pose proof (order_le_points r1 s _ j V1 As) as Lp. rewrite (Ls 0) in Lp by lia. rewrite Pr in Lp. lia. }
        apply (IH (S (S k0)) maxk' r1 nss' T1); lia.
    + apply (IH (S k) maxk r nss); try lia. apply Hnone. apply Hempty.
      intros i (s & G & Hin). rewrite Eget in G. discriminate.
Qed.

(* ---------- growFlagComplex ---------- *)
Lemma nss_get_In k : forall nss s, nss_get k nss = Some s -> In (k, s) nss.
Proof.
  induction nss as [|[k' s'] t IH]; intros s H; simpl in H; [discriminate|].
  destruct (k =? k') eqn:E; [apply Nat.eqb_eq in E; subst; injection H as <-; now left | right; now apply IH].
Qed.

Lemma registered_maxkey nss k i : registered nss k i -> k <= nss_maxkey nss.
Proof. intros (s & G & _). eapply nss_maxkey_ge. eapply nss_get_In; eauto. Qed.

(* C11: growFlagComplex = rebuild.  `news` are simplices of r such that whatever simplex of r has the points
   of one of them among its points is itself one of them (new edges just added, say), and r is flag-complete
   apart from them: every clique of r's edges that does not contain the points of a new simplex carries a
   simplex.  Then growFlagComplex ends normally and the result is the clique complex of r's edges. *)
Theorem growFlagComplex_complete r news : vinv r -> news <> [] ->
  (forall s, In s news -> containsSimplex r s = true) ->
  let TB := map (basisOf r) news in
  (forall t, containsSimplex r t = true -> taintb TB (basisOf r t) = true -> In t news) ->
  (forall B, NoDup B -> 2 <= length B -> clique r B -> taintb TB B = false -> carried r B) ->
  exists r', growFlagComplex r news = (r', Ok tt) /\ vinv r' /\ ext2b r r' /\
    forall B, NoDup B -> 2 <= length B -> (carried r' B <-> clique r B).
Proof.
  intros Hv Hne Hin TB H1 H2. pose proof (s_p r (c_s r (b_c r (v_b r Hv)))) as P.
  unfold growFlagComplex.
  match goal with |- context [fold_left ?F news (Ok [])] => set (Fn := F) end.
  assert (Gn : forall l acc, (forall s, In s l -> containsSimplex r s = true) ->
            exists nss, fold_left Fn l (Ok acc) = Ok nss /\ (forall j x, registered acc j x -> registered nss j x) /\
              (forall s, In s l -> exists k i, assoc s (r_simp r) = Some (k, i) /\ registered nss k i)).
  { induction l as [|s t IH]; intros acc Hl.
    - exists acc. split; [reflexivity|]. split; [auto | intros s []].
    - cbn [fold_left]. pose proof (Hl s (or_introl eq_refl)) as Cs. unfold containsSimplex in Cs.
      destruct (assoc s (r_simp r)) as [[k i]|] eqn:As; [|discriminate].
      assert (Es : Fn (Ok acc) s = Ok (nss_add k i acc)) by (unfold Fn, orderOf, indexOf; now rewrite As).
      rewrite Es. destruct (IH (nss_add k i acc) (fun u H => Hl u (or_intror H))) as (nss & E & Hk & Hall).
      exists nss. split; [exact E|]. split.
      + intros j x H. apply Hk. now apply nss_get_add_keep.
      + intros u [<-|Hu]; [|now apply Hall]. exists k, i. split; [exact As|]. apply Hk. apply nss_get_add_same. }
  destruct (Gn news [] Hin) as (nss & E & _ & Hall).
  match goal with |- context [match ?X with Ok _ => _ | Raise _ => _ end] => assert (EX : X = Ok nss) by exact E; rewrite EX end.
  assert (Hnn : nss <> []).
  { destruct news as [|s t]; [congruence|]. destruct (Hall s (or_introl eq_refl)) as (k & i & _ & (l & G & _)).
    intros ->. discriminate. }
  rewrite (cps_unfold r nss Hnn).
  set (Mx := Nat.max (nss_maxkey nss) (length (simplicesOfOrder r 0))).
  assert (HTBn : forall E0, In E0 TB -> NoDup E0).
  { intros E0 HE. unfold TB in HE. apply in_map_iff in HE. destruct HE as (s & <- & _). apply basis_nodup; exact P. }
  assert (Htr : forall E0, In E0 TB -> carried r E0).
  { intros E0 HE. unfold TB in HE. apply in_map_iff in HE. destruct HE as (s & <- & Hs). exists s. split; [now apply Hin | intros x; tauto]. }
  assert (T : loopG r TB 1 (nss_maxkey nss) r nss).
  { constructor.
    - exact Hv.
    - apply ext2b_refl. exact (c_s r (b_c r (v_b r Hv))).
    - reflexivity.
    - intros n Hn Hle B HB LB Cl. assert (Hn2 : n = 2) by lia. rewrite Hn2 in LB.
      destruct B as [|p [|q [|x t]]]; simpl in LB; try lia.
      assert (Ne : p <> q). { intros ->. inversion HB as [|? ? Hn' _]. apply Hn'. now left. }
      destruct (Cl p q (or_introl eq_refl) (or_intror (or_introl eq_refl)) Ne) as (e & He & Se).
      exists e. split; [|exact Se]. destruct (listed_assoc r Hv e 1 He) as (j & A). unfold containsSimplex. now rewrite A.
    - intros s o j A Ht. assert (Cs : containsSimplex r s = true) by (unfold containsSimplex; now rewrite A).
      destruct (Hall s (H1 s Cs Ht)) as (k & i & A' & Hr). rewrite A in A'. injection A' as <- <-.
      eapply registered_maxkey; eauto.
    - intros j i Hj Hi Ht.
      destruct (listed_assoc r Hv _ j (nth_In _ (NInt 0) Hi)) as (jj & Aj).
      assert (Cs : containsSimplex r (nth i (simplicesOfOrder r j) (NInt 0)) = true) by (unfold containsSimplex; now rewrite Aj).
      destruct (Hall _ (H1 _ Cs Ht)) as (k & i' & A' & Hr). rewrite Aj in A'. injection A' as <- <-.
      (* the position recorded is the listing position *)
      pose proof P as [K Pm St L]. pose proof (proj1 (Pm _ j jj) Aj) as [_ Hn].
      rewrite <- simplicesOfOrder_idxk in Hn by exact P.
      assert (jj = i); [|now subst].
      apply (proj1 (NoDup_nth_error _) (sOO_nodup r j P)); [apply nth_error_Some; congruence|].
      rewrite Hn. symmetry. now apply List.nth_error_nth'.
    - exact H2.
    - exact Htr. }
  assert (G1 : length (simplicesOfOrder r 0) <= Mx) by (unfold Mx; lia).
  assert (G2 : 1 <= nss_maxkey nss + 2) by lia.
  assert (G3 : nss_maxkey nss <= Mx) by (unfold Mx; lia).
  assert (G4 : Mx + 3 <= 1 + (nss_maxkey nss + length (simplicesOfOrder r 0) + 4)) by (unfold Mx; lia).
  destruct (cps_loop_completeG r TB Mx Hv G1 HTBn (nss_maxkey nss + length (simplicesOfOrder r 0) + 4) 1 (nss_maxkey nss) r nss
              T (le_n 1) G2 G3 G4) as (r' & El & V' & E' & Call).
  rewrite El. exists r'. split; [reflexivity|]. split; [exact V'|]. split; [exact E'|].
  intros B HB LB. split.
  - intros (t & Ct & St) p q Hp Hq Ne. apply (ext2b_edges r r' p q Hv V' E').
    apply (simplex_is_clique r' t p q V' Ct); [now apply St | now apply St | exact Ne].
  - intros Cl. apply (Call (length B) LB B HB eq_refl).
    intros p q Hp Hq Ne. apply (ext2b_edges_fwd r r' p q Hv V' E'). now apply Cl.
Qed.

(* ... which is the family flagComplex builds from scratch *)
Corollary grow_equals_rebuild hp uid r news : vinv r -> news <> [] ->
  (forall s, In s news -> containsSimplex r s = true) ->
  let TB := map (basisOf r) news in
  (forall t, containsSimplex r t = true -> taintb TB (basisOf r t) = true -> In t news) ->
  (forall B, NoDup B -> 2 <= length B -> clique r B -> taintb TB B = false -> carried r B) ->
  forall hp1 c, copy_new hp (view_of r) uid = (hp1, c, Ok tt) ->
  exists r' rF, growFlagComplex r news = (r', Ok tt) /\ flagComplex hp r uid = (hp1, rF, Ok tt) /\
    forall B, NoDup B -> 2 <= length B -> (carried r' B <-> carried rF B).
Proof.
  intros Hv Hne Hin TB H1 H2 hp1 c E0.
  destruct (growFlagComplex_complete r news Hv Hne Hin H1 H2) as (r' & Eg & _ & _ & Ig).
  destruct (flagComplex_is_clique_complex hp r uid hp1 c Hv E0) as (rF & Ef & _ & If).
  exists r', rF. split; [exact Eg|]. split; [exact Ef|]. intros B HB LB. rewrite (Ig B HB LB), (If B HB LB). tauto.
Qed.
