(* Incidence.v -- faces, cofaces and the boundary matrices tell one story (C03), for every
   representation satisfying the shape invariant, i.e. at every point of every history:
   t is a face of s  <->  the boundary matrix of s's order has a 1 in (row of t, column of s)
                     <->  s is a coface of t.   Plain Coq. *)
From Coq Require Import String ZArith Bool Arith List Lia.
From SV Require Import Names NamesFacts ListFacts Rep Complex Atomic RepInv Shapes.
Import ListNotations.
Open Scope nat_scope.

Lemma In_names_of_col names c x :
  In x (names_of_col names c) <-> exists i, nth_error names i = Some x /\ nth_error c i = Some true.
Proof.
  unfold names_of_col. revert c. induction names as [|n t IH]; intros c.
  - simpl. split; [tauto|]. intros (i & H & _). destruct i; discriminate.
  - destruct c as [|b c].
    + simpl. split; [tauto|]. intros (i & _ & H). destruct i; discriminate.
    + simpl. destruct b; simpl.
      * split.
        -- intros [<-|H]; [exists 0; auto|]. apply IH in H. destruct H as (i & H1 & H2). exists (S i). auto.
        -- intros ([|i] & H1 & H2); simpl in *; [left; congruence|]. right. apply IH. eauto.
      * split.
        -- intros H. apply IH in H. destruct H as (i & H1 & H2). exists (S i). auto.
        -- intros ([|i] & H1 & H2); simpl in *; [discriminate|]. apply IH. eauto.
Qed.

(* the entry of a matrix, by column then row *)
Definition mentry (m : mat) (i j : nat) : bool := nth i (nth j (mcols m) []) false.

Lemma nth_error_getcol m i j nr nc : dims m nr nc -> i < nr -> j < nc ->
  nth_error (getcol j m) i = Some (mentry m i j).
Proof.
  intros (Hok & Hr & Hc) Hi Hj. unfold getcol, mentry. apply List.nth_error_nth'.
  unfold mat_ok in Hok. rewrite Forall_forall in Hok. rewrite (Hok (nth j (mcols m) [])); [lia|].
  apply nth_In. unfold ncols in Hc. lia.
Qed.

Lemma nth_error_getrow m i j nr nc : dims m nr nc -> j < nc ->
  nth_error (getrow i m) j = Some (mentry m i j).
Proof.
  intros (Hok & Hr & Hc) Hj. unfold getrow, mentry, ncols in *.
  rewrite nth_error_map. rewrite (List.nth_error_nth' (mcols m) []) by lia. reflexivity.
Qed.

Lemma getcol_short m i j nr nc : dims m nr nc -> nr <= i -> nth_error (getcol j m) i <> Some true.
Proof.
  intros (Hok & Hr & Hc) Hi H. unfold getcol in H.
  destruct (Nat.ltb_spec j (length (mcols m))) as [Hj|Hj].
  - unfold mat_ok in Hok. rewrite Forall_forall in Hok.
    assert (Hl : length (nth j (mcols m) []) = nrows m) by (apply Hok, nth_In; exact Hj).
    assert (i < length (nth j (mcols m) [])) by (apply nth_error_Some; congruence). lia.
  - rewrite nth_overflow in H by lia. destruct i; discriminate.
Qed.

Section Incidence.
  Variable r : rep.
  Hypothesis Hinv : sinv r.
  Let P := s_p r Hinv.

  (* positions are unique within a listing *)
  Lemma pos_unique k i i' x : k < r_nord r -> nth_error (idxk r k) i = Some x -> nth_error (idxk r k) i' = Some x -> i = i'.
  Proof.
    intros Hk H H'. destruct P as [K Pm St L].
    assert (A1 : assoc x (r_simp r) = Some (k, i)) by (apply Pm; auto).
    assert (A2 : assoc x (r_simp r) = Some (k, i')) by (apply Pm; auto). congruence.
  Qed.

  (* t (at row i of order k') is a face of s (at column j of order S k') iff the matrix says so *)
  Theorem face_iff_entry s t k' i j :
    assoc s (r_simp r) = Some (S k', j) -> assoc t (r_simp r) = Some (k', i) ->
    (In t (faces r s) <-> mentry (bndk r (S k')) i j = true).
  Proof.
    intros As At. destruct P as [K Pm St L]. pose proof Hinv as [_ Lb Ls Sh].
    destruct (proj1 (Pm s (S k') j) As) as [Hk Hj]. destruct (proj1 (Pm t k' i) At) as [Hk' Hi].
    destruct (Sh (S k') Hk) as [_ Hd]. specialize (Hd ltac:(lia)). replace (S k' - 1) with k' in Hd by lia.
    assert (Hjl : j < length (idxk r (S k'))) by (apply nth_error_Some; congruence).
    assert (Hil : i < length (idxk r k')) by (apply nth_error_Some; congruence).
    unfold faces. rewrite As. rewrite In_names_of_col. split.
    - intros (i' & H1 & H2). assert (i' = i) by (apply (pos_unique k' i' i t); auto). subst i'.
      rewrite (nth_error_getcol _ _ _ _ _ Hd Hil Hjl) in H2. congruence.
    - intros H. exists i. split; [exact Hi|]. rewrite (nth_error_getcol _ _ _ _ _ Hd Hil Hjl). now rewrite H.
  Qed.

  Theorem coface_iff_entry s t k' i j :
    assoc s (r_simp r) = Some (S k', j) -> assoc t (r_simp r) = Some (k', i) ->
    (In s (cofaces r t) <-> mentry (bndk r (S k')) i j = true).
  Proof.
    intros As At. destruct P as [K Pm St L]. pose proof Hinv as [_ Lb Ls Sh].
    destruct (proj1 (Pm s (S k') j) As) as [Hk Hj]. destruct (proj1 (Pm t k' i) At) as [Hk' Hi].
    destruct (Sh (S k') Hk) as [_ Hd]. specialize (Hd ltac:(lia)). replace (S k' - 1) with k' in Hd by lia.
    assert (Hjl : j < length (idxk r (S k'))) by (apply nth_error_Some; congruence).
    unfold cofaces. rewrite At. replace (S k' =? r_nord r) with false by (symmetry; apply Nat.eqb_neq; lia).
    rewrite In_names_of_col. split.
    - intros (j' & H1 & H2). assert (j' = j) by (apply (pos_unique (S k') j' j s); auto). subst j'.
      rewrite (nth_error_getrow _ _ _ _ _ Hd Hjl) in H2. congruence.
    - intros H. exists j. split; [exact Hj|]. rewrite (nth_error_getrow _ _ _ _ _ Hd Hjl). now rewrite H.
  Qed.

  (* faces only names simplices of the complex, one order down *)
  Lemma face_is_simplex s t k' j : assoc s (r_simp r) = Some (S k', j) -> In t (faces r s) ->
    exists i, assoc t (r_simp r) = Some (k', i).
  Proof.
    intros As H. destruct P as [K Pm St L]. destruct (proj1 (Pm s (S k') j) As) as [Hk Hj].
    unfold faces in H. rewrite As in H. apply In_names_of_col in H. destruct H as (i & H1 & _).
    exists i. apply Pm. split; [lia | exact H1].
  Qed.
  Lemma coface_is_simplex s t k i : assoc t (r_simp r) = Some (k, i) -> In s (cofaces r t) ->
    exists j, assoc s (r_simp r) = Some (S k, j).
  Proof.
    intros At H. destruct P as [K Pm St L]. destruct (proj1 (Pm t k i) At) as [Hk Hi].
    unfold cofaces in H. rewrite At in H. destruct (S k =? r_nord r) eqn:E; [destruct H|].
    apply Nat.eqb_neq in E. apply In_names_of_col in H. destruct H as (j & H1 & _).
    exists j. apply Pm. split; [lia | exact H1].
  Qed.

  (* cofaces is the exact inverse relation of faces *)
  Theorem cofaces_inverse_of_faces s t : In t (faces r s) <-> In s (cofaces r t).
  Proof.
    split; intros H.
    - destruct (assoc s (r_simp r)) as [[[|k'] j]|] eqn:As; try (unfold faces in H; rewrite As in H; destruct H).
      destruct (face_is_simplex s t k' j As H) as (i & At).
      apply (coface_iff_entry s t k' i j As At). now apply (face_iff_entry s t k' i j As At).
    - destruct (assoc t (r_simp r)) as [[k i]|] eqn:At; [|unfold cofaces in H; rewrite At in H; destruct H].
      destruct (coface_is_simplex s t k i At H) as (j & As).
      apply (face_iff_entry s t k i j As At). now apply (coface_iff_entry s t k i j As At).
  Qed.
End Incidence.

(* in listing order: row i / column j of the order-(k+1) boundary operator are the i-th k-simplex
   and the j-th (k+1)-simplex, and the entry is 1 exactly when the former is a face of the latter *)
Theorem boundary_entries r k' i j s t : sinv r ->
  nth_error (simplicesOfOrder r (S k')) j = Some s -> nth_error (simplicesOfOrder r k') i = Some t ->
  (mentry (boundaryOperator r (S k')) i j = true <-> In t (faces r s)).
Proof.
  intros Hinv Hs Ht. pose proof (s_p r Hinv) as [K Pm St L].
  unfold simplicesOfOrder in *.
  destruct (S k' <? r_nord r) eqn:E1; [|destruct j; discriminate].
  destruct (k' <? r_nord r) eqn:E2; [|destruct i; discriminate].
  apply Nat.ltb_lt in E1, E2.
  assert (As : assoc s (r_simp r) = Some (S k', j)) by (apply Pm; auto).
  assert (At : assoc t (r_simp r) = Some (k', i)) by (apply Pm; auto).
  unfold boundaryOperator. simpl (S k' =? 0). cbv iota.
  replace (r_nord r <=? S k') with false by (symmetry; apply Nat.leb_gt; lia).
  symmetry. now apply face_iff_entry.
Qed.
