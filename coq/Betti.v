(* Betti.v -- smithNormalForm returns the partial identity of the GF(2) rank of the boundary
   operator (for every order, every representation), and bettiNumbers is
   (n_k - rank d_k) - rank d_{k+1}. *)
From Coq Require Import ZArith Lia.
From mathcomp Require Import all_ssreflect all_fingroup all_algebra.
From SV Require Import Names Rep Complex Homology ListMat SnfCount Rank.
Set Implicit Arguments.
Unset Strict Implicit.
Unset Printing Implicit Defensive.
Import GRing.Theory.
Local Open Scope ring_scope.

(* the GF(2) rank of a stored 0/1 matrix, as Mathematical Components defines rank *)
Definition rk (m : mat) : nat := \rank (mxf (nrows m) (ncols m) (entry (rows_of m))).

Lemma rk_le_rows m : (rk m <= nrows m)%N. Proof. exact: rank_leq_row. Qed.
Lemma rk_le_cols m : (rk m <= ncols m)%N. Proof. exact: rank_leq_col. Qed.

Lemma rk_zero m :
  (forall i j, (i < nrows m)%coq_nat -> (j < ncols m)%coq_nat -> entry (rows_of m) i j = false) -> rk m = 0%N.
Proof.
move=> H; rewrite /rk (_ : mxf _ _ _ = 0) ?mxrank0 //.
by apply/matrixP => i j; rewrite !mxE H //; apply/ltP.
Qed.

Lemma pidform_zero nr nc D : wfm nr nc D ->
  (forall i j, (i < nr)%coq_nat -> (j < nc)%coq_nat -> entry D i j = false) -> pidform nr nc 0 D.
Proof.
move=> HM H; split=> //; split; first by lia. split; first by lia.
by move=> i j Hi Hj; rewrite H // Bool.andb_false_r.
Qed.

(* C07: for every representation and every order the Smith normal form has the shape of the
   boundary operator and is the partial identity whose size is that operator's GF(2) rank *)
Theorem snf_pidform r k :
  let B := boundaryOperator r k in
  let '(nr, nc, D) := smithNormalForm r k in
  nr = nrows B /\ nc = ncols B /\ pidform nr nc (rk B) D.
Proof.
rewrite /smithNormalForm /=.
case E: ((k =? 0)%nat || (r_nord r <=? k)%nat).
- rewrite /mval_of; split=> //; split=> //.
  have Hz : forall i j, (i < nrows (boundaryOperator r k))%coq_nat -> (j < ncols (boundaryOperator r k))%coq_nat ->
            entry (rows_of (boundaryOperator r k)) i j = false.
    move=> i j; rewrite /boundaryOperator.
    case: (k =? 0)%nat E => /= E; first by move=> _ _; exact: entry_zeros.
    by rewrite E /= => Hi; lia.
  rewrite (rk_zero Hz). apply: pidform_zero => //. exact: wfm_rows_of.
- split=> //; split=> //.
  set B := boundaryOperator r k.
  have HM := wfm_rows_of B.
  have [HD He] := @reduce_rank (nrows B) (ncols B) unit (rows_of B) (List.repeat nil (ncols B)) HM.
  split; first exact: HD.
  split; first by apply/leP; exact: rk_le_rows.
  split; first by apply/leP; exact: rk_le_cols.
  move=> i j Hi Hj. by rewrite He // eqb_eqn ltb_ltn.
Qed.

Lemma snf_ex r k : exists D,
  smithNormalForm r k = (nrows (boundaryOperator r k), ncols (boundaryOperator r k), D) /\
  pidform (nrows (boundaryOperator r k)) (ncols (boundaryOperator r k)) (rk (boundaryOperator r k)) D.
Proof.
have := snf_pidform r k.
case: (smithNormalForm r k) => [[nr nc] D] /= [-> [-> H]].
by exists D.
Qed.

(* C06: bettiNumbers reports (n_k - rank d_k) - rank d_{k+1} over GF(2), for every order k
   (n_k = number of columns of d_k; both ranks are 0 above the maximum order) *)
Theorem betti_formula r k :
  betti1 r k = Z.sub (Z.sub (Z.of_nat (ncols (boundaryOperator r k))) (Z.of_nat (rk (boundaryOperator r k))))
                     (Z.of_nat (rk (boundaryOperator r (S k)))).
Proof.
rewrite /betti1.
have [D [-> H]] := snf_ex r k.
have [D' [-> H']] := snf_ex r (S k).
rewrite (@kernelDim_pid _ _ _ _ H) (@imageDim_pid _ _ _ _ H').
have := H => -[_ [_ [Hle _]]].
lia.
Qed.

(* orders above the maximum report 0 *)
Theorem betti_above_max r k : (r_nord r <= k)%coq_nat -> (0 < k)%coq_nat -> betti1 r k = Z0.
Proof.
move=> Hk Hk0; rewrite betti_formula.
have E1 : boundaryOperator r k = emptymat.
  rewrite /boundaryOperator. have -> : (k =? 0)%nat = false by apply/PeanoNat.Nat.eqb_neq; lia.
  by have -> : (r_nord r <=? k)%nat = true by apply/PeanoNat.Nat.leb_le.
have E2 : boundaryOperator r (S k) = emptymat.
  rewrite /boundaryOperator /=. by have -> : (r_nord r <=? S k)%nat = true by apply/PeanoNat.Nat.leb_le; lia.
rewrite E1 E2.
have -> : rk emptymat = 0%N by apply: rk_zero => i j /=; lia.
by [].
Qed.
