(* Betti0.v -- the 0th Betti number is the number of connected components of the 1-skeleton (C06),
   for every complex built by public operations: b_0 = n_0 - rank d_1 (Betti.v) and the order-1
   boundary operator is the vertex-edge incidence matrix of a graph (TwoOnes.v), whose rank is
   #vertices - #components (Components.v; components as counted by Mathematical Components' n_comp). *)
From Coq Require Import ZArith Lia.
From mathcomp Require Import all_ssreflect all_fingroup all_algebra.
From SV Require Import Names ListFacts Rep Complex Homology ListMat SnfCount Rank Betti RepInv Shapes Incidence Closed.
From SV Require Import Components TwoOnes.
Set Implicit Arguments.
Unset Strict Implicit.
Unset Printing Implicit Defensive.
Import GRing.Theory.
Local Open Scope ring_scope.

(* the order-1 boundary operator as a matrix over GF(2): rows = points, columns = edges *)
Definition B1 (r : rep) : 'M['F_2]_(nrows (boundaryOperator r 1), ncols (boundaryOperator r 1)) :=
  mxf (nrows (boundaryOperator r 1)) (ncols (boundaryOperator r 1)) (entry (rows_of (boundaryOperator r 1))).

Lemma rk_zeros a b : rk (zeros a b) = 0%N.
Proof.
rewrite /rk (_ : mxf _ _ _ = 0) ?mxrank0 //.
by apply/matrixP => i j; rewrite !mxE entry_zeros.
Qed.

Theorem betti0_components r : cinv r -> (1 < r_nord r)%coq_nat ->
  betti1 r 0 = Z.of_nat (n_comp (adjB (B1 r)) predT).
Proof.
move=> Hc Hn.
have HS := c_s r Hc.
rewrite betti_formula.
have E0 : boundaryOperator r 0 = zeros 1 (length (simplicesOfOrder r 0)) by [].
have Hn0 : nrows (boundaryOperator r 1) = length (simplicesOfOrder r 0).
  have [_ H] := @boundary_shape r 1 HS Hn. by rewrite H.
have Hrank : (rk (boundaryOperator r 1) + n_comp (adjB (B1 r)) predT = nrows (boundaryOperator r 1))%N.
  apply: rank_graph => j.
  have Hj : (j < ncols (boundaryOperator r 1))%coq_nat by apply/ltP.
  have [a [b [Hab [Hb Hi]]]] := @edge_columns r Hc Hn j Hj.
  have Ha : (a < nrows (boundaryOperator r 1))%N by apply/ltP; lia.
  have Hb' : (b < nrows (boundaryOperator r 1))%N by apply/ltP.
  exists (Ordinal Ha), (Ordinal Hb'); split.
    by apply/eqP => /(congr1 val) /= E; lia.
  move=> i; rewrite !mxE /b2f.
  have Hi' : (i < nrows (boundaryOperator r 1))%coq_nat by apply/ltP.
  rewrite (@entry_rows_of _ i j Hi') -/(mentry _ i j) Hi.
  by rewrite !eqb_eqn.
rewrite E0 rk_zeros {1}/ncols /zeros /= List.repeat_length -Hn0.
move: Hrank; rewrite -plusE => Hrank.
have -> : Z.of_nat (nrows (boundaryOperator r 1)) =
          Z.add (Z.of_nat (rk (boundaryOperator r 1))) (Z.of_nat (n_comp (adjB (B1 r)) predT)).
  by rewrite -Nat2Z.inj_add Hrank.
move: (Z.of_nat (rk _)) (Z.of_nat (n_comp _ _)) => x y.
rewrite Z.sub_0_r Z.add_simpl_l //.
Qed.

(* without edges every point is its own component *)
Theorem betti0_no_edges r : sinv r -> (r_nord r <= 1)%coq_nat ->
  betti1 r 0 = Z.of_nat (length (simplicesOfOrder r 0)).
Proof.
move=> HS Hn. rewrite betti_formula.
have E0 : boundaryOperator r 0 = zeros 1 (length (simplicesOfOrder r 0)) by [].
have E1 : boundaryOperator r 1 = emptymat.
  by rewrite /boundaryOperator /=; have -> : (r_nord r <=? 1) = true by apply/PeanoNat.Nat.leb_le.
rewrite E0 E1 rk_zeros {1}/ncols /zeros /= List.repeat_length.
by rewrite !Z.sub_0_r.
Qed.

(* what adjacency means: the two points are distinct faces of a common edge *)
Lemma adjB_B1 r (a b : 'I_(nrows (boundaryOperator r 1))) :
  reflect (exists j : 'I_(ncols (boundaryOperator r 1)),
             [/\ a != b, mentry (boundaryOperator r 1) a j & mentry (boundaryOperator r 1) b j])
          (adjB (B1 r) a b).
Proof.
have F1 : forall x : bool, (b2f x == 1) = x by case.
have Ha : (a < nrows (boundaryOperator r 1))%coq_nat by apply/ltP.
have Hb : (b < nrows (boundaryOperator r 1))%coq_nat by apply/ltP.
apply: (iffP existsP) => -[j].
- case/and3P => H1; rewrite !mxE !F1 (@entry_rows_of _ a j Ha) (@entry_rows_of _ b j Hb) => H2 H3; by exists j.
- case=> H1 H2 H3; exists j; rewrite H1 !mxE !F1 (@entry_rows_of _ a j Ha) (@entry_rows_of _ b j Hb) /=.
  by move: H2 H3; rewrite /mentry => -> ->.
Qed.
