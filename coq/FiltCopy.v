(* FiltCopy.v -- Filtration.copy(): whatever its outcome, what it returns satisfies the two filtration invariants
   (minv: shapes, exactly the simplices have a birth, a face is born no later than its cofaces; binv: the two
   bookkeeping tables agree), so everything C13 / C14 derive from them holds of the copy.  Plain Coq. *)
From Coq Require Import String ZArith Bool Arith List Lia.
From SV Require Import Names NamesFacts Rep RepInv Complex Atomic Homology Filtration FiltProofs FiltClosed FiltBook.
Import ListNotations.

Definition both (f : filt) : Prop := minv f /\ binv f.

Lemma both_new uid i : both (new_filt uid i).
Proof. split; [apply minv_new|apply binv_new]. Qed.

Lemma both_setIndex f i : both f -> both (f_setIndex f i).
Proof. intros [M B]. split; [now apply setIndex_minv|now apply setIndex_binv]. Qed.

Lemma both_alloc f : both f -> both (with_rep f (fst (alloc (f_rep f)))).
Proof.
  intros [M B]. split; [|now apply binv_rep]. apply minv_same_obs; [|exact M]. apply same_obs_alloc.
Qed.

Lemma both_add f fs id attr f' x : both f -> f_addSimplex f fs id attr = (f', x) -> both f'.
Proof.
  intros [M B] H. split; [eapply addSimplex_minv; eauto|].
  destruct (addSimplex_binv _ _ _ _ _ _ M B H) as [[Hb _]|[Hb _]]; exact Hb.
Qed.

Theorem f_copy_invariants hp f uid orders hp' c x : f_copy hp f uid orders = (hp', c, x) -> minv c /\ binv c.
Proof.
  unfold f_copy. destruct (f_indices f) as [|i0 inds] eqn:Ei.
  - intros [= _ <- _]. apply both_new.
  - set (inner := fun (acc : heap * filt * res unit) (s : name) =>
                      match acc with
                      | (_, _, Raise _) => acc
                      | (hp2, c3, Ok _) =>
                          let hs := match assoc s (r_attr (f_rep f)) with Some h => h | None => (0, 0) end in
                          let '(r4, h') := alloc (f_rep c3) in
                          let hp3 := heap_set hp2 h' (heap_get hp2 hs) in
                          let c4 := with_rep c3 r4 in
                          match f_orderOf f s with
                          | Raise e => (hp3, c4, Raise e)
                          | Ok k =>
                              match f_addSimplex c4 (if k =? 0 then [] else faces (f_rep f) s) (Some s) (Some h') with
                              | (c5, Raise e) => (hp3, c5, Raise e)
                              | (c5, Ok _) => (hp3, c5, Ok tt)
                              end
                          end
                      end).
    assert (Hin : forall ss acc, both (snd (fst acc)) -> both (snd (fst (fold_left inner ss acc)))).
    { induction ss as [|s ss IH]; intros acc Hb; simpl; [exact Hb|]. apply IH.
      destruct acc as [[hp2 c3] [u|e]]; [|exact Hb]. simpl in Hb. unfold inner.
      destruct (alloc (f_rep c3)) as [r4 h'] eqn:Ea.
      assert (B4 : both (with_rep c3 r4)).
      { pose proof (both_alloc c3 Hb) as X. now rewrite Ea in X. }
      destruct (f_orderOf f s) as [k|e]; [|exact B4].
      destruct (f_addSimplex (with_rep c3 r4) (if k =? 0 then [] else faces (f_rep f) s) (Some s) (Some h')) as [c5 [n|e]] eqn:EA;
        simpl; eapply both_add; eauto. }
    destruct (fold_left _ (i0 :: inds) _) as [[hp1 c1] x1] eqn:EF.
    intros H. injection H as _ <- _.
    apply both_setIndex.
    match type of EF with fold_left ?outer ?L ?init = _ =>
      assert (Hout : forall L0 acc, both (snd (fst acc)) -> both (snd (fst (fold_left outer L0 acc)))) end.
    { induction L0 as [|ind L0 IH]; intros acc Hb; simpl; [exact Hb|]. apply IH.
      destruct acc as [[hp2 c2] [u|e]]; [|exact Hb]. simpl in Hb.
      apply (Hin _ (hp2, f_setIndex c2 ind, Ok tt)). simpl. now apply both_setIndex. }
    match type of EF with fold_left ?outer ?L ?init = _ =>
      pose proof (Hout L init) as X; rewrite EF in X end.
    apply X. simpl. apply both_new.
Qed.
