(* Atomic.v -- a rejected request leaves every observable field of the representation as it
   was (only the auto-name counter and the dict allocator may have advanced), and raises KeyError
   or ValueError.  Plain Coq. *)
From Coq Require Import String ZArith Bool Arith List Lia.
From SV Require Import Names NamesFacts Rep Fresh Complex.
Import ListNotations.
Open Scope nat_scope.

(* equality of everything a query can observe: all fields but _sequence and the allocator *)
Definition same_obs (r r' : rep) : Prop :=
  r_uid r' = r_uid r /\ r_nord r' = r_nord r /\ r_simp r' = r_simp r /\ r_idx r' = r_idx r /\
  r_bnd r' = r_bnd r /\ r_bas r' = r_bas r /\ r_attr r' = r_attr r.

Lemma same_obs_refl r : same_obs r r.
Proof. repeat split. Qed.
Lemma same_obs_trans a b c : same_obs a b -> same_obs b c -> same_obs a c.
Proof. unfold same_obs. intuition congruence. Qed.
Lemma same_obs_set_seq r s : same_obs r (set_seq r s).
Proof. repeat split. Qed.
Lemma same_obs_alloc r : same_obs r (fst (alloc r)).
Proof. repeat split. Qed.

(* every read-only query depends on the observable fields only *)
Lemma same_obs_queries r r' : same_obs r r' ->
  (forall s, orderOf r' s = orderOf r s) /\ (forall s, indexOf r' s = indexOf r s) /\
  (forall s, faces r' s = faces r s) /\ (forall s, cofaces r' s = cofaces r s) /\
  (forall s, basisOf r' s = basisOf r s) /\ (forall s, containsSimplex r' s = containsSimplex r s) /\
  (forall k, simplicesOfOrder r' k = simplicesOfOrder r k) /\ (forall b, simplices r' b = simplices r b) /\
  (forall k, boundaryOperator r' k = boundaryOperator r k) /\ maxOrder r' = maxOrder r /\
  (forall s, getAttributes r' s = getAttributes r s).
Proof.
  intros (H1 & H2 & H3 & H4 & H5 & H6 & H7).
  unfold orderOf, indexOf, faces, cofaces, basisOf, containsSimplex, simplices,
         boundaryOperator, simplicesOfOrder, maxOrder, getAttributes, idxk, bndk, bask.
  rewrite H2, H3, H4, H5, H6, H7. repeat split; reflexivity.
Qed.

Definition kv (e : exn) : Prop := e = KeyError \/ e = ValueError.

Lemma check_faces_kv r k fs e : check_faces r k fs = Raise e -> kv e.
Proof.
  induction fs as [|f t IH]; cbn [check_faces]; [discriminate|].
  destruct (assoc f (r_simp r)) as [[fo fi]|].
  - destruct (S fo =? k); auto. intros H. inversion H. right. reflexivity.
  - intros H. inversion H. left. reflexivity.
Qed.

Lemma check_faces_ok_orders r k fs : check_faces r k fs = Ok tt ->
  forall f, In f fs -> exists fo fi, assoc f (r_simp r) = Some (fo, fi) /\ S fo = k.
Proof.
  induction fs as [|f t IH]; cbn [check_faces In]; intros H g Hg; [tauto|].
  destruct (assoc f (r_simp r)) as [[fo fi]|] eqn:A; [|discriminate].
  destruct (S fo =? k) eqn:E; [|discriminate]. apply Nat.eqb_eq in E.
  destruct Hg as [<-|Hg]; [exists fo, fi; auto | auto].
Qed.

Lemma all_orders_ok r fs :
  (forall f, In f fs -> exists fo fi, assoc f (r_simp r) = Some (fo, fi)) -> exists os, all_orders r fs = Ok os.
Proof.
  induction fs as [|f t IH]; intros H; simpl; [eauto|].
  destruct (H f (or_introl eq_refl)) as (fo & fi & A). unfold orderOf. rewrite A.
  destruct IH as [os ->]; [intros g Hg; apply H; now right|]. eauto.
Qed.

(* simplexWithFaces, called after the faces were validated and with at least two faces, can only
   answer or raise ValueError *)
Lemma simplexWithFaces_kv r fs k e :
  2 <= length fs -> check_faces r k fs = Ok tt -> simplexWithFaces r fs = Raise e -> kv e.
Proof.
  intros Hl Hc. unfold simplexWithFaces.
  destruct (length fs <=? 1) eqn:E; [apply Nat.leb_le in E; lia|].
  destruct (all_orders_ok r fs) as [os Hos].
  { intros f Hf. destruct (check_faces_ok_orders _ _ _ Hc f Hf) as (fo & fi & A & _). eauto. }
  rewrite Hos. destruct (forallb _ os); [discriminate|]. intros H; inversion H; subst. now right.
Qed.

(* ---------- addSimplex ---------- *)
Theorem addSimplex_atomic r fs id attr r' e :
  addSimplex r fs id attr = (r', Raise e) -> same_obs r r' /\ kv e.
Proof.
  unfold addSimplex.
  destruct ((length fs - 1 =? 0) && negb (length fs =? 0)) eqn:E0.
  { intros H; injection H as <- <-. split; [apply same_obs_refl | now right]. }
  (* the name *)
  set (X := match id with
            | None => newSimplex r (length fs - 1)
            | Some n => if containsSimplex r n then (r, Raise KeyError) else (r, Ok n)
            end).
  assert (Hid : (exists r1 n, X = (r1, Ok n) /\ same_obs r r1) \/ X = (r, Raise KeyError)).
  { unfold X. destruct id as [n|].
    - destruct (containsSimplex r n); [right; reflexivity | left; exists r, n; split; [reflexivity | apply same_obs_refl]].
    - destruct (newSimplex_fresh r (length fs - 1)) as (i & n & Hn & _).
      left. exists (set_seq r (S i)), n. split; [exact Hn | apply same_obs_set_seq]. }
  destruct Hid as [(r1 & n & Hid & Hs1) | Hid]; rewrite Hid.
  2: { intros H; injection H as <- <-. split; [apply same_obs_refl | now left]. }
  (* the attribute dictionary *)
  assert (Hs2 : same_obs r (fst (match attr with Some h => (r1, h) | None => alloc r1 end))).
  { destruct attr; simpl; [exact Hs1 | eapply same_obs_trans; [exact Hs1 | apply same_obs_alloc]]. }
  destruct (match attr with Some h => (r1, h) | None => alloc r1 end) as [r2 h] eqn:Ea. simpl in Hs2.
  destruct (negb (nodupb fs)).
  { intros H; injection H as <- <-. split; [exact Hs2 | now left]. }
  destruct (check_faces r2 (length fs - 1) fs) as [[]|e1] eqn:Ec.
  2: { intros H; injection H as <- <-. split; [exact Hs2 | eapply check_faces_kv; eauto]. }
  (* growing / duplicate check *)
  destruct (r_nord r2 <=? length fs - 1) eqn:E1.
  - destruct (r_nord r2 <? length fs - 1) eqn:E2.
    + intros H; injection H as <- <-. split; [exact Hs2 | now right].
    + destruct (length fs - 1) as [|k'] eqn:Ek; [|]; cbn [fst snd];
        destruct (S _ <? _); intros H; inversion H.
  - destruct (0 <? length fs - 1) eqn:E3.
    + apply Nat.ltb_lt in E3.
      destruct (simplexWithFaces r2 fs) as [[sw|]|e2] eqn:Es.
      * intros H; injection H as <- <-. split; [exact Hs2 | now left].
      * destruct (length fs - 1) as [|k'] eqn:Ek; [lia|]. cbn [fst snd].
        destruct (S (S k') <? r_nord r2); intros H; inversion H.
      * intros H; injection H as <- <-. split; [exact Hs2|].
        eapply simplexWithFaces_kv; eauto. lia.
    + destruct (length fs - 1) as [|k'] eqn:Ek; cbn [fst snd];
        destruct (S _ <? _); intros H; inversion H.
Qed.

(* ---------- relabelSimplex / forceDeleteSimplex ---------- *)
Theorem relabelSimplex_atomic r s q r' e :
  relabelSimplex r s q = (r', Raise e) -> r' = r /\ kv e.
Proof.
  unfold relabelSimplex. destruct (containsSimplex r q).
  - intros H; injection H as <- <-. split; auto. now right.
  - destruct (assoc s (r_simp r)) as [[k i]|].
    + intros H; inversion H.
    + intros H; injection H as <- <-. split; auto. now left.
Qed.

Theorem forceDeleteSimplex_atomic r s r' e :
  forceDeleteSimplex r s = (r', Raise e) -> r' = r /\ e = KeyError.
Proof.
  unfold forceDeleteSimplex. destruct (assoc s (r_simp r)) as [[k i]|].
  - destruct ((S k =? r_nord r) && _); intros H; inversion H.
  - intros H; injection H as <- <-. auto.
Qed.

(* ---------- the algorithms of base.py that validate before they change anything ---------- *)
Theorem deleteSimplex_unknown r s : containsSimplex r s = false -> deleteSimplex r s = (r, Raise KeyError).
Proof.
  unfold containsSimplex, deleteSimplex, partOf, orderOf. destruct (assoc s (r_simp r)); [discriminate|]. reflexivity.
Qed.

Lemma isBasis_fatal_kv r bs e : c_isBasis r bs true = Raise e -> kv e.
Proof.
  unfold c_isBasis. induction bs as [|b t IH]; simpl; [discriminate|].
  destruct (containsSimplex r b) eqn:C.
  - unfold orderOf. unfold containsSimplex in C. destruct (assoc b (r_simp r)) as [[k i]|]; [|discriminate].
    destruct k; auto. intros H; inversion H; subst. now right.
  - intros H; inversion H; subst. now left.
Qed.

Theorem restrictBasisTo_not_a_basis r bs e : c_isBasis r bs true = Raise e ->
  restrictBasisTo r bs = (r, Raise e) /\ kv e.
Proof. intros H. unfold restrictBasisTo. rewrite H. split; auto. eapply isBasis_fatal_kv; eauto. Qed.

Theorem barycentricSubdivide_unknown r s pts : containsSimplex r s = false ->
  barycentricSubdivide r s pts = (r, Raise KeyError).
Proof. intros H. unfold barycentricSubdivide. now rewrite H. Qed.

Theorem barycentricSubdivide_point r s i pts : assoc s (r_simp r) = Some (0, i) ->
  barycentricSubdivide r s pts = (r, Raise ValueError).
Proof.
  intros H. unfold barycentricSubdivide, containsSimplex, orderOf. now rewrite H.
Qed.

Theorem ensureBasis_non_point r bs attr e : ensure_check rep containsSimplex orderOf r bs = Raise e ->
  c_ensureBasis r bs attr = (r, Raise e).
Proof. intros H. unfold c_ensureBasis, ensureBasis. now rewrite H. Qed.

Theorem addSimplexWithBasis_duplicate_name r bs n attr :
  bs <> [] -> containsSimplex r n = true -> c_addSimplexWithBasis r bs (Some n) attr = (r, Raise KeyError).
Proof.
  intros Hb Hn. unfold c_addSimplexWithBasis, addSimplexWithBasis.
  destruct bs; [congruence|]. now rewrite Hn.
Qed.

Theorem copy_into_overlap hp src target :
  length (intern (map fst src) (simplices target false)) <> 0 ->
  copy_into hp src target = (hp, target, Raise ValueError).
Proof.
  intros H. unfold copy_into. destruct (length _ =? 0) eqn:E; [apply Nat.eqb_eq in E; congruence|]. reflexivity.
Qed.

(* relabel: the whole renaming is checked first; a collision found there leaves the complex alone *)
Theorem relabel_rejected_by_check r rn st e :
  relabel_check rn rl0 (simplices r false) (simplices r false) = (st, Raise e) ->
  relabel r rn = (r, st, Raise e).
Proof. intros H. unfold relabel. now rewrite H. Qed.

Lemma relabel_check_kv rn : forall ss st names st' e,
  relabel_check rn st ss names = (st', Raise e) -> e = ValueError.
Proof.
  induction ss as [|s t IH]; intros st names st' e; simpl; [discriminate|].
  destruct (rl_apply rn st s) as [st1 s'].
  destruct (name_eqb s s'); [apply IH|].
  destruct (memn s' names); [intros H; now injection H as _ <- | apply IH].
Qed.
