(* StarOrder.v -- the list deleteSimplex walks (partOf(s, reverse=True)) lists the star of s
   without repeats, cofaces before faces, s last: when a simplex's turn comes, all its cofaces
   have been listed before it.  Plain Coq. *)
From Coq Require Import String ZArith Bool Arith List Lia.
From SV Require Import Names NamesFacts ListFacts Rep Fresh Complex Atomic RepInv Shapes Incidence.
Import ListNotations.
Open Scope nat_scope.

(* ---------- insertion sort by descending order ---------- *)
Definition ge_b (a b : nat) : bool := b <=? a.

Lemma In_insert_by le p l q : In q (insert_by le p l) <-> q = p \/ In q l.
Proof.
  induction l as [|a l IH]; simpl; [intuition|].
  destruct (le (fst p) (fst a)); simpl; [intuition|]. rewrite IH. intuition.
Qed.

Lemma In_sort_desc l q : In q (sort_desc l) <-> In q l.
Proof.
  unfold sort_desc. induction l as [|a l IH]; simpl; [tauto|].
  rewrite In_insert_by, IH. intuition.
Qed.

(* descending: everything after an element has an order not above it *)
Fixpoint desc (l : list (nat * name)) : Prop :=
  match l with [] => True | p :: t => (forall q, In q t -> fst q <= fst p) /\ desc t end.

Lemma desc_insert p l : desc l -> desc (insert_by (fun a b => b <=? a) p l).
Proof.
  induction l as [|a l IH]; intros H; simpl; [split; [intros q []|exact I]|].
  destruct H as [Ha Hl]. destruct (fst a <=? fst p) eqn:E.
  - apply Nat.leb_le in E. simpl. split; [|split; assumption].
    intros q [<-|Hq]; [exact E|]. specialize (Ha q Hq). lia.
  - apply Nat.leb_gt in E. simpl. split; [|now apply IH].
    intros q Hq. apply In_insert_by in Hq. destruct Hq as [->|Hq]; [lia | now apply Ha].
Qed.

Lemma desc_sort l : desc (sort_desc l).
Proof. unfold sort_desc. induction l as [|a l IH]; simpl; [exact I|]. now apply desc_insert. Qed.

Lemma desc_split l1 p l2 : desc (l1 ++ p :: l2) -> forall q, In q l2 -> fst q <= fst p.
Proof. induction l1 as [|a l1 IH]; simpl; intros [H1 H2]; [exact H1 | now apply IH]. Qed.

Lemma NoDup_snd_insert le p l : NoDup (map snd (insert_by le p l)) <-> NoDup (map snd (p :: l)).
Proof.
  induction l as [|a l IH]; simpl; [tauto|].
  destruct (le (fst p) (fst a)); simpl; [tauto|].
  split; intros H.
  - inversion H as [|x xs Hx Hxs]; subst. apply IH in Hxs. simpl in Hxs. inversion Hxs as [|y ys Hy Hys]; subst.
    constructor.
    + simpl. intros [E|Hin]; [|contradiction].
      apply Hx. apply in_map_iff. exists p. split; [congruence|]. apply In_insert_by. now left.
    + constructor; [|exact Hys]. intros Hin. apply Hx. apply in_map_iff in Hin. destruct Hin as (q & Eq & Hq).
      apply in_map_iff. exists q. split; [exact Eq|]. apply In_insert_by. now right.
  - inversion H as [|x xs Hx Hxs]; subst. inversion Hxs as [|y ys Hy Hys]; subst. constructor.
    + intros Hin. apply in_map_iff in Hin. destruct Hin as (q & Eq & Hq). apply In_insert_by in Hq. destruct Hq as [->|Hq].
      * apply Hx. simpl. now left.
      * apply Hy. apply in_map_iff. eauto.
    + apply IH. simpl. constructor; [|exact Hys]. intros Hin. apply Hx. simpl. now right.
Qed.

Lemma NoDup_snd_sort l : NoDup (map snd l) -> NoDup (map snd (sort_desc l)).
Proof.
  unfold sort_desc. induction l as [|a l IH]; simpl; intros H; [constructor|].
  inversion H as [|x xs Hx Hxs]; subst.
  apply (proj2 (NoDup_snd_insert _ _ _)). simpl. constructor; [|now apply IH].
  intros Hin. apply Hx. apply in_map_iff in Hin. destruct Hin as (q & Eq & Hq).
  change (In q (sort_desc l)) in Hq. apply (proj1 (In_sort_desc l q)) in Hq.
  apply in_map_iff. eauto.
Qed.

(* ---------- dedup_on ---------- *)
Lemma In_dedup_sub l p : In p (dedup_on l) -> In p l.
Proof.
  induction l as [|[k n] l IH]; simpl; [tauto|]. intros [<-|H]; [now left|].
  apply filter_In in H. right. apply IH. tauto.
Qed.

Lemma In_dedup_name l o c : In (o, c) l -> exists o', In (o', c) (dedup_on l).
Proof.
  induction l as [|[k n] l IH]; simpl; [tauto|]. intros [E|H].
  - injection E as -> ->. eauto.
  - destruct (IH H) as (o' & Ho'). destruct (name_eqb_spec n c) as [->|Hne]; [eauto|].
    exists o'. right. apply filter_In. split; [exact Ho'|]. simpl. now rewrite (name_eqb_neq n c).
Qed.

Lemma NoDup_dedup l : NoDup (map snd (dedup_on l)).
Proof.
  induction l as [|[k n] l IH]; simpl; [constructor|]. constructor.
  - intros Hin. apply in_map_iff in Hin. destruct Hin as ([o c] & Ec & Hq). simpl in Ec. subst c.
    apply filter_In in Hq. destruct Hq as [_ Hq]. simpl in Hq. now rewrite name_eqb_refl in Hq.
  - clear -IH. induction (dedup_on l) as [|[o c] d IHd]; simpl; [constructor|].
    inversion IH as [|x xs Hx Hxs]; subst. destruct (negb (name_eqb n c)); simpl; [|now apply IHd].
    constructor; [|now apply IHd]. intros Hin. apply Hx. apply in_map_iff in Hin. destruct Hin as (q & Eq & Hq).
    apply filter_In in Hq. apply in_map_iff. exists q. tauto.
Qed.

Lemma desc_nth l : desc l -> forall i j p q, nth_error l i = Some p -> nth_error l j = Some q -> i < j -> fst q <= fst p.
Proof.
  induction l as [|a l IH]; intros H i j p q Hi Hj Hij; [destruct i; discriminate|].
  destruct H as [Ha Hl]. destruct i as [|i]; destruct j as [|j]; try lia; simpl in *.
  - injection Hi as <-. apply Ha. eapply nth_error_In; eauto.
  - eapply IH; eauto. lia.
Qed.

Lemma NoDup_snoc {A} (l : list A) x : NoDup l -> ~ In x l -> NoDup (l ++ [x]).
Proof.
  induction l as [|a l IH]; simpl; intros H Hx; [constructor; [tauto | constructor]|].
  inversion H as [|y ys Hy Hys]; subst. constructor.
  - rewrite in_app_iff. simpl. intuition.
  - apply IH; tauto.
Qed.

Section Star.
  Variable r : rep.
  Hypothesis Hinv : sinv r.

  (* everything partOf_aux collects is a simplex of the stated order, above the start *)
  Lemma aux_orders f : forall s k is o c, assoc s (r_simp r) = Some (k, is) ->
    In (o, c) (partOf_aux f r s k) -> (exists jc, assoc c (r_simp r) = Some (o, jc)) /\ k < o.
  Proof.
    induction f as [|f IH]; intros s k is o c As H; [destruct H|].
    simpl in H. apply in_flat_map in H. destruct H as (c0 & Hc0 & H).
    destruct (coface_is_simplex r Hinv c0 s k is As Hc0) as (j0 & A0).
    destruct H as [E|H].
    - injection E as <- <-. split; [eauto | lia].
    - destruct (IH c0 (S k) j0 o c A0 H) as [H1 H2]. split; [exact H1 | lia].
  Qed.

  (* ... and it is closed under cofaces while fuel lasts *)
  Lemma aux_closed f : forall s k is o c u, assoc s (r_simp r) = Some (k, is) ->
    In (o, c) (partOf_aux f r s k) -> In u (cofaces r c) -> o - k < f -> In (S o, u) (partOf_aux f r s k).
  Proof.
    induction f as [|f IH]; intros s k is o c u As H Hu Hf; [destruct H|].
    simpl in H. simpl. apply in_flat_map in H. destruct H as (c0 & Hc0 & H).
    destruct (coface_is_simplex r Hinv c0 s k is As Hc0) as (j0 & A0).
    apply in_flat_map. exists c0. split; [exact Hc0|].
    destruct H as [E|H].
    - injection E as <- <-. right. destruct f as [|f]; [lia|]. simpl. apply in_flat_map. exists u. split; [exact Hu | now left].
    - right. destruct (aux_orders f c0 (S k) j0 o c A0 H) as [_ Hlt]. apply (IH c0 (S k) j0 o c u A0 H Hu). lia.
  Qed.

  Lemma aux_first f s k u : In u (cofaces r s) -> In (S k, u) (partOf_aux (S f) r s k).
  Proof. intros H. simpl. apply in_flat_map. exists u. split; [exact H | now left]. Qed.

  (* the walk of deleteSimplex: by position *)
  Theorem star_positions s k is L : assoc s (r_simp r) = Some (k, is) -> partOf r s true false = Ok L ->
    NoDup L /\ (forall t, In t L -> containsSimplex r t = true) /\
    (forall i t u, nth_error L i = Some t -> In u (cofaces r t) -> exists j, j < i /\ nth_error L j = Some u).
  Proof.
    intros As H. pose proof (s_p r Hinv) as [K Pm St Lr].
    assert (HL : L = map snd (sort_desc (dedup_on (partOf_aux (S (r_nord r)) r s k))) ++ [s]).
    { unfold partOf, orderOf in H. rewrite As in H. now injection H. }
    clear H. remember (partOf_aux (S (r_nord r)) r s k) as A eqn:EA.
    set (D := dedup_on A) in *. set (S_ := sort_desc D) in *. subst L.
    assert (HA : forall o c, In (o, c) S_ -> In (o, c) A).
    { intros o c Hc. unfold S_ in Hc. apply (proj1 (In_sort_desc _ _)) in Hc. now apply In_dedup_sub in Hc. }
    assert (Hord : forall o c, In (o, c) A -> (exists jc, assoc c (r_simp r) = Some (o, jc)) /\ k < o).
    { intros o c Hc. rewrite EA in Hc. apply (aux_orders _ s k is o c As Hc). }
    assert (HinS : forall o c, In (o, c) A -> In (o, c) S_).
    { intros o c Hc. destruct (In_dedup_name A o c Hc) as (o' & Ho'). apply (proj2 (In_sort_desc _ _)).
      destruct (Hord o c Hc) as [(j1 & A1) _]. destruct (Hord o' c (In_dedup_sub _ _ Ho')) as [(j2 & A2) _].
      rewrite A1 in A2. injection A2 as -> _. exact Ho'. }
    assert (Hnd : NoDup (map snd S_)) by (apply NoDup_snd_sort, NoDup_dedup).
    assert (Hs_out : ~ In s (map snd S_)).
    { intros Hin. apply in_map_iff in Hin. destruct Hin as ([o c] & Ec & Hc). simpl in Ec. subst c.
      destruct (Hord o s (HA o s Hc)) as [(j1 & A1) Hlt]. rewrite As in A1. injection A1 as -> _. lia. }
    split; [now apply NoDup_snoc|]. split.
    - intros t Ht. apply in_app_or in Ht. unfold containsSimplex. destruct Ht as [Ht|[<-|[]]]; [|now rewrite As].
      apply in_map_iff in Ht. destruct Ht as ([o c] & Ec & Hc). simpl in Ec. subst c.
      destruct (Hord o t (HA o t Hc)) as [(j1 & A1) _]. now rewrite A1.
    - intros i t u Hi Hu.
      assert (Hfind : forall o, In (o, u) A -> exists j, j < length S_ /\ nth_error S_ j = Some (o, u)).
      { intros o Ho. apply HinS in Ho. apply In_nth_error in Ho. destruct Ho as (j & Hj). exists j. split; [|exact Hj].
        apply nth_error_Some. congruence. }
      destruct (Nat.lt_ge_cases i (length (map snd S_))) as [Hlt|Hge].
      + rewrite nth_error_app1 in Hi by exact Hlt. rewrite nth_error_map in Hi.
        destruct (nth_error S_ i) as [[o c]|] eqn:Ei; [|discriminate]. simpl in Hi. injection Hi as ->.
        assert (HcA : In (o, t) A) by (apply HA; eapply nth_error_In; eauto).
        destruct (Hord o t HcA) as [(jt & At) Hko].
        assert (Ho : o < r_nord r) by (apply Pm in At; tauto).
        assert (HuA : In (S o, u) A) by (rewrite EA in *; apply (aux_closed _ s k is o t u As HcA Hu); lia).
        destruct (Hfind (S o) HuA) as (j & Hj1 & Hj2).
        exists j. split.
        * destruct (Nat.lt_trichotomy j i) as [Hji|[->|Hij]]; [exact Hji | |].
          -- rewrite Ei in Hj2. injection Hj2 as Hj2 _. lia.
          -- pose proof (desc_nth S_ (desc_sort D) i j (o, t) (S o, u) Ei Hj2 Hij) as Hd. simpl in Hd. lia.
        * rewrite nth_error_app1 by (now rewrite map_length). rewrite nth_error_map, Hj2. reflexivity.
      + rewrite nth_error_app2 in Hi by exact Hge. destruct (i - length (map snd S_)) as [|d] eqn:Ed; [|destruct d; discriminate].
        simpl in Hi. injection Hi as <-.
        assert (HuA : In (S k, u) A) by (rewrite EA; apply aux_first; exact Hu).
        destruct (Hfind (S k) HuA) as (j & Hj1 & Hj2).
        exists j. rewrite map_length in Hge. split; [lia|].
        rewrite nth_error_app1 by (now rewrite map_length). rewrite nth_error_map, Hj2. reflexivity.
  Qed.
End Star.
