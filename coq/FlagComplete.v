(* FlagComplete.v -- completeness of flagComplex (C11, C12): on a complex that meets the vertex-set
   reading flagComplex never fails, and afterwards EVERY set of two or more points that are pairwise
   joined by an edge carries a simplex.  With FlagSound.v: the flag complex is exactly the clique
   complex of the 1-skeleton.  Plain Coq. *)
From Coq Require Import String ZArith Bool Arith List Lia.
From SV Require Import Names NamesFacts ListFacts Rep Fresh Complex Atomic RepInv Reach Shapes Incidence AddEffect
                       Closed ClosedReach AddBasis BasisInv Duality DeleteEffect VInv AwbSpec VSets DD CopyFaithful
                       Homology ListMat Listing FlagExt VIso MinCycle FlagSound Continuation.
Import ListNotations.
Open Scope nat_scope.

(* ---------- addSimplex with a generated name and no attributes succeeds when its checks pass ---------- *)
Lemma check_faces_ok r k fs : (forall f, In f fs -> exists j, assoc f (r_simp r) = Some (k - 1, j)) -> 1 <= k ->
  check_faces r k fs = Ok tt.
Proof.
  intros H Hk. induction fs as [|f t IH]; [reflexivity|]. cbn [check_faces].
  destruct (H f (or_introl eq_refl)) as (j & A). rewrite A.
  replace (S (k - 1) =? k) with true by (symmetry; apply Nat.eqb_eq; lia).
  apply IH. intros g Hg. apply H. now right.
Qed.

Lemma addSimplex_succeeds r fs : NoDup fs -> 2 <= length fs -> length fs - 1 <= r_nord r ->
  (forall f, In f fs -> exists j, assoc f (r_simp r) = Some (length fs - 1 - 1, j)) ->
  (length fs - 1 < r_nord r -> simplexWithFaces r fs = Ok None) ->
  exists r' n, addSimplex r fs None None = (r', Ok n).
Proof.
  intros Hnd Hl Hk Hord Hswf. unfold addSimplex.
  replace ((length fs - 1 =? 0) && negb (length fs =? 0)) with false
    by (symmetry; apply andb_false_intro1; apply Nat.eqb_neq; lia).
  destruct (newSimplex_fresh r (length fs - 1)) as (i & id & -> & _ & _ & Hfresh).
  set (r1 := set_seq r (S i)). cbv zeta. unfold alloc.
  set (r2 := mkRep (r_uid r1) (r_nord r1) (r_simp r1) (r_idx r1) (r_bnd r1) (r_bas r1) (r_attr r1) (r_seq r1) (S (r_nalloc r1))).
  assert (Hs : same_obs r r2) by (repeat split).
  replace (negb (nodupb fs)) with false by (symmetry; apply negb_false_iff; now apply nodupb_NoDup).
  rewrite (check_faces_ok r2 (length fs - 1) fs); [|exact Hord|lia].
  change (r_nord r2) with (r_nord r).
  destruct (r_nord r <=? length fs - 1) eqn:E1.
  - apply Nat.leb_le in E1. replace (r_nord r <? length fs - 1) with false by (symmetry; apply Nat.ltb_ge; lia).
    destruct (length fs - 1) as [|k'] eqn:Ek; [lia|]. eexists. eexists. reflexivity.
  - apply Nat.leb_gt in E1. replace (0 <? length fs - 1) with true by (symmetry; apply Nat.ltb_lt; lia).
    rewrite (simplexWithFaces_respects r r2 fs Hs), (Hswf E1).
    destruct (length fs - 1) as [|k'] eqn:Ek; [lia|]. eexists. eexists. reflexivity.
Qed.

Lemma sOO_nodup r j : pinv r -> NoDup (simplicesOfOrder r j).
Proof.
  intros P. unfold simplicesOfOrder. destruct (j <? r_nord r) eqn:E; [|constructor].
  apply pinv_nodup_order; [exact P | now apply Nat.ltb_lt].
Qed.

(* ---------- the facets of a set of points all of whose facets are carried ---------- *)
Definition drop (x : name) (B : list name) : list name := filter (fun y => negb (name_eqb x y)) B.

Section Facets.
  Variable r : rep.
  Hypothesis Hv : vinv r.
  Let HS : sinv r := c_s r (b_c r (v_b r Hv)).
  Let P : pinv r := s_p r HS.
  Variable k : nat.
  Variable B : list name.
  Hypothesis HB : NoDup B.
  Hypothesis LB : length B = S (S (S k)).
  Hypothesis Hfac : forall x, In x B -> exists f, containsSimplex r f = true /\ sameset (basisOf r f) (drop x B).

  Definition facets : list name := filter (fun s => subsetn (basisOf r s) B) (simplicesOfOrder r (S k)).

  Lemma F_in f : In f facets <-> In f (simplicesOfOrder r (S k)) /\ incl (basisOf r f) B.
  Proof. unfold facets. rewrite filter_In, subsetn_incl. tauto. Qed.

  Lemma F_nodup : NoDup facets.
  Proof. apply NoDup_filter. apply sOO_nodup. exact P. Qed.

  Lemma listed_assoc f j0 : In f (simplicesOfOrder r j0) -> exists j, assoc f (r_simp r) = Some (j0, j).
  Proof.
    intros H. rewrite simplicesOfOrder_idxk in H by exact P. apply In_nth_error in H. destruct H as (j & Hj). exists j.
    destruct P as [K Pm St L]. apply Pm. split; [|exact Hj].
    destruct (Nat.lt_ge_cases j0 (r_nord r)) as [Hl|Hl]; [exact Hl|]. rewrite (St j0 Hl) in Hj. destruct j; discriminate.
  Qed.

  Lemma F_ord f : In f facets -> exists j, assoc f (r_simp r) = Some (S k, j).
  Proof. intros H. apply F_in in H. now apply listed_assoc. Qed.

  Lemma F_contains f : In f facets -> containsSimplex r f = true.
  Proof. intros H. destruct (F_ord f H) as (j & A). unfold containsSimplex. now rewrite A. Qed.

  Lemma F_missed f : In f facets -> exists m, In m B /\ forall x, In x (basisOf r f) <-> In x B /\ x <> m.
  Proof.
    intros Hf. pose proof Hf as Hf'. apply F_in in Hf'. destruct Hf' as [_ Hi]. destruct (F_ord f Hf) as (j & A).
    destruct (one_short (basisOf r f) B) as (m & Hm & Nm & Hall); auto.
    - apply basis_nodup; exact P.
    - rewrite (v_card r Hv f (S k) j A). exact LB.
    - exists m. split; [exact Hm|]. intros x. split.
      + intros Hx. split; [now apply Hi|]. intros ->. contradiction.
      + intros [Hx Nx]. destruct (Hall x Hx); [contradiction|assumption].
  Qed.

  Lemma In_drop x z : In z (drop x B) <-> In z B /\ z <> x.
  Proof. unfold drop. apply In_filter_neq. Qed.

  Lemma F_facet x : In x B -> exists f, In f facets /\ forall z, In z (basisOf r f) <-> In z B /\ z <> x.
  Proof.
    intros Hx. destruct (Hfac x Hx) as (f & Cf & Sf). exists f.
    assert (C : forall z, In z (basisOf r f) <-> In z B /\ z <> x) by (intros z; rewrite (Sf z); apply In_drop).
    split; [|exact C]. apply F_in. split; [|intros z Hz; apply C in Hz; tauto].
    apply contains_assoc in Cf. destruct Cf as (kf & j & A).
    assert (kf = S k).
    { pose proof (v_card r Hv f kf j A) as Lc.
      rewrite (NoDup_same_length (basisOf r f) (drop x B)) in Lc; [|apply basis_nodup; exact P|now apply NoDup_filter|exact Sf].
      pose proof (filter_neq_length x B HB Hx) as L. fold (drop x B) in L. lia. }
    subst kf. eapply order_listed; eauto.
  Qed.

  Lemma F_same_missed f f' m : In f facets -> In f' facets ->
    (forall x, In x (basisOf r f) <-> In x B /\ x <> m) -> (forall x, In x (basisOf r f') <-> In x B /\ x <> m) -> f = f'.
  Proof.
    intros Hf Hf' C C'. apply (v_uniq r Hv); try now apply F_contains.
    intros x. rewrite C, C'. tauto.
  Qed.

  Lemma F_length : length facets = S (S (S k)).
  Proof.
    apply Nat.le_antisymm.
    - rewrite <- LB.
      apply (pigeon (fun f m => In m B /\ forall x, In x (basisOf r f) <-> In x B /\ x <> m)); [exact F_nodup| |].
      + intros f Hf. destruct (F_missed f Hf) as (m & Hm & C). exists m. auto.
      + intros f f' m Hf Hf' [_ C] [_ C']. eapply F_same_missed; eauto.
    - rewrite <- LB.
      apply (pigeon (fun x f => forall z, In z (basisOf r f) <-> In z B /\ z <> x)); [exact HB| |].
      + intros x Hx. destruct (F_facet x Hx) as (f & Hf & C). exists f. auto.
      + intros x x' f Hx Hx' C C'. destruct (name_eq_dec x x') as [E|E]; [exact E|]. exfalso.
        assert (In x (basisOf r f)) by (apply C'; auto). apply C in H. tauto.
  Qed.

  (* every simplex is a face of none or of exactly two of the facets *)
  Lemma F_closed w : parity (map (fun f => memn w (faces r f)) facets) = false.
  Proof.
    rewrite parity_count, count_map.
    destruct (filter (fun f => memn w (faces r f)) facets) as [|f0 G'] eqn:EG; [reflexivity|].
    assert (InG : forall f, In f (f0 :: G') <-> In f facets /\ In w (faces r f)).
    { intros f. rewrite <- EG, filter_In, memn_In. reflexivity. }
    assert (NG : NoDup (f0 :: G')) by (rewrite <- EG; apply NoDup_filter; exact F_nodup).
    destruct (proj1 (InG f0) (or_introl eq_refl)) as [Hf0 Hw0].
    destruct (F_ord f0 Hf0) as (j0 & A0). destruct (F_missed f0 Hf0) as (m0 & Hm0 & C0).
    destruct (face_basis_char r Hv f0 k j0 w A0 Hw0) as (p & Hp & Cw).
    destruct (face_is_simplex r HS f0 w k j0 A0 Hw0) as (iw & Aw).
    assert (HpB : In p B) by (apply C0 in Hp; tauto).
    assert (Npm : p <> m0) by (apply C0 in Hp; tauto).
    destruct (F_facet p HpB) as (fb & Hfb & Cb). destruct (F_ord fb Hfb) as (jb & Ab).
    assert (Cw' : forall z, In z (basisOf r w) <-> In z B /\ z <> m0 /\ z <> p).
    { intros z. rewrite Cw, C0. tauto. }
    assert (Hwb : In w (faces r fb)).
    { destruct (subsets_are_simplices r Hv 1 fb (S k) jb (basisOf r w) Ab) as (u & Cu & Su & (u' & Hu' & Eu)).
      - apply basis_nodup; exact P.
      - intros z Hz. apply Cb. apply Cw' in Hz. tauto.
      - rewrite (v_card r Hv w k iw Aw). lia.
      - pose proof (v_card r Hv w k iw Aw) as L. destruct (basisOf r w); [discriminate|congruence].
      - simpl in Eu. subst u'. assert (u = w); [|now subst]. apply (v_uniq r Hv); auto. unfold containsSimplex. now rewrite Aw. }
    assert (Nfb : f0 <> fb). { intros ->. apply Cb in Hp. tauto. }
    assert (SG : forall f, In f (f0 :: G') <-> In f [f0; fb]).
    { intros f. split.
      - intros Hf. apply InG in Hf. destruct Hf as [Hf Hwf]. destruct (F_ord f Hf) as (jf & Af).
        destruct (F_missed f Hf) as (m & Hm & C).
        pose proof (face_basis_sub r Hv f k jf w Af Hwf) as Sub.
        assert (Nmw : ~ In m (basisOf r w)) by (intros H; apply Sub in H; apply C in H; tauto).
        destruct (name_eq_dec m m0) as [->|N0]; [left; eapply F_same_missed; eauto|].
        destruct (name_eq_dec m p) as [->|Np]; [right; left; eapply F_same_missed; eauto|].
        exfalso. apply Nmw. apply Cw'. auto.
      - intros [<-|[<-|[]]]; [now left|]. apply InG. auto. }
    rewrite (NoDup_same_length (f0 :: G') [f0; fb] NG); [reflexivity| |exact SG].
    constructor; [intros [E|[]]; congruence | constructor; [intros [] | constructor]].
  Qed.
End Facets.

(* ---------- from sets of simplices to combinations of indices ---------- *)
Lemma filter_in_combs {A} (p : A -> bool) : forall l, In (filter p l) (combs (length (filter p l)) l).
Proof.
  induction l as [|x t IH]; simpl; [now left|].
  destruct (p x) eqn:E; simpl.
  - apply in_or_app. left. apply in_map. exact IH.
  - destruct (length (filter p t)) as [|n] eqn:L.
    + destruct (filter p t); [now left | discriminate].
    + apply in_or_app. right. exact IH.
Qed.

Lemma map_nth_filter_seq (p : name -> bool) (l : list name) d :
  map (fun i => nth i l d) (filter (fun i => p (nth i l d)) (seq 0 (length l))) = filter p l.
Proof.
  rewrite <- (filter_map_fst (fun i => nth i l d) p). f_equal.
  rewrite (map_nth_seq (fun x => x) d l). apply map_id.
Qed.

(* ---------- simplexWithFaces: total on faces of one order, and what Some means ---------- *)
Lemma all_orders_ok r k fs : (forall f, In f fs -> exists j, assoc f (r_simp r) = Some (k, j)) ->
  all_orders r fs = Ok (repeat k (length fs)).
Proof.
  induction fs as [|f t IH]; intros H; [reflexivity|]. cbn [all_orders]. unfold orderOf.
  destruct (H f (or_introl eq_refl)) as (j & A). rewrite A. rewrite IH; [reflexivity|]. intros g Hg. apply H. now right.
Qed.

Lemma swf_total r fs : 2 <= length fs ->
  (forall f, In f fs -> exists j, assoc f (r_simp r) = Some (length fs - 1 - 1, j)) ->
  simplexWithFaces r fs =
  Ok (last (map Some (filter (fun s => seteq (faces r s) fs) (simplicesOfOrder r (length fs - 1)))) None).
Proof.
  intros Hl H. unfold simplexWithFaces.
  replace (length fs <=? 1) with false by (symmetry; apply Nat.leb_gt; lia).
  rewrite (all_orders_ok r _ fs H).
  replace (forallb (fun o => o =? length fs - 1 - 1) (repeat (length fs - 1 - 1) (length fs))) with true; [reflexivity|].
  symmetry. apply forallb_forall. intros o Ho. apply repeat_spec in Ho. subst. apply Nat.eqb_refl.
Qed.

Lemma last_Some_In {A} (l : list A) q : last (map Some l) None = Some q -> In q l.
Proof.
  induction l as [|a t IH]; [discriminate|]. destruct t as [|b t'].
  - simpl. intros H. injection H as ->. now left.
  - intros H. right. apply IH. exact H.
Qed.

Lemma swf_some r fs q : simplexWithFaces r fs = Ok (Some q) ->
  In q (simplicesOfOrder r (length fs - 1)) /\ seteq (faces r q) fs = true.
Proof.
  unfold simplexWithFaces. intros H. destruct (length fs <=? 1); [discriminate|].
  destruct (all_orders r fs) as [os|e]; [|discriminate].
  destruct (forallb (fun o => o =? length fs - 1 - 1) os); [|discriminate].
  injection H as H. apply last_Some_In in H. apply filter_In in H. exact H.
Qed.

(* ---------- nss bookkeeping ---------- *)
Definition registered (nss : nssT) (k i : nat) : Prop := exists s, nss_get k nss = Some s /\ In i s.

Lemma nss_get_add_same k i nss : registered (nss_add k i nss) k i.
Proof.
  unfold registered. induction nss as [|[k' s] t IH]; simpl.
  - rewrite Nat.eqb_refl. exists [i]. split; [reflexivity | now left].
  - destruct (k =? k') eqn:E; simpl; rewrite E.
    + destruct (existsb (Nat.eqb i) s) eqn:Ex.
      * exists s. split; [reflexivity|]. apply existsb_exists in Ex. destruct Ex as (x & Hx & Ei). apply Nat.eqb_eq in Ei. now subst.
      * exists (s ++ [i]). split; [reflexivity|]. apply in_or_app. right. now left.
    + exact IH.
Qed.

Lemma nss_get_add_keep k i nss j x : registered nss j x -> registered (nss_add k i nss) j x.
Proof.
  unfold registered. induction nss as [|[k' s] t IH]; simpl; intros (s0 & G & Hin); [discriminate|].
  destruct (j =? k') eqn:Ej.
  - injection G as <-. destruct (k =? k') eqn:E; simpl; rewrite Ej.
    + destruct (existsb (Nat.eqb i) s); [exists s; auto|]. exists (s ++ [i]). split; [reflexivity|]. apply in_or_app. now left.
    + exists s. auto.
  - destruct (k =? k') eqn:E; simpl; rewrite Ej.
    + exists s0. auto.
    + apply IH. exists s0. auto.
Qed.

Lemma nss_get_app_new nss k : nss_get k nss = None -> forall j x, registered nss j x -> registered (nss ++ [(k, [])]) j x.
Proof.
  intros _ j x (s & G & Hin). exists s. split; [|exact Hin].
  induction nss as [|[k' s'] t IH]; simpl in *; [discriminate|]. destruct (j =? k'); auto.
Qed.

Lemma nss_add_key k i nss j : nss_get j nss <> None -> nss_get j (nss_add k i nss) <> None.
Proof.
  induction nss as [|[k' s] t IH]; simpl; intros H; [congruence|].
  destruct (k =? k') eqn:E; simpl; destruct (j =? k') eqn:Ej; try congruence. now apply IH.
Qed.

(* ---------- one step of the fold of cps_order, as a function ---------- *)
Definition cps_step (bnd : mat) (k : nat) (newk1 : list nat) (acc : rep * nssT * nat * res unit) (fs : list nat)
  : rep * nssT * nat * res unit :=
  match acc with
  | (r', nss', maxk', Raise e) => acc
  | (r', nss', maxk', Ok _) =>
      if existsb (fun i => existsb (Nat.eqb i) newk1) fs && isClosed bnd fs then
        let cfs := map (fun i => nth i (simplicesOfOrder r' (k - 1)) (NInt 0)) fs in
        match c_simplexWithFaces r' cfs with
        | Raise e => (r', nss', maxk', Raise e)
        | Ok (Some _) => acc
        | Ok None =>
            match addSimplex r' cfs None None with
            | (r'', Raise e) => (r'', nss', maxk', Raise e)
            | (r'', Ok s) =>
                match indexOf r'' s with
                | Raise e => (r'', nss', maxk', Raise e)
                | Ok i => (r'', nss_add k i nss', Nat.max maxk' k, Ok tt)
                end
            end
        end
      else acc
  end.

Lemma cps_order_fold r k newk1 nss maxk :
  cps_order r k newk1 nss maxk =
  fold_left (cps_step (boundaryOperator r (k - 1)) k newk1)
            (combs (S k) (seq 0 (length (simplicesOfOrder r (k - 1))))) (r, nss, maxk, Ok tt).
Proof. reflexivity. Qed.

Record cinvK (r : rep) (k0 : nat) (nss0 : nssT) (maxk0 : nat) (done : list (list nat)) (ra : rep) (nsa : nssT) (ma : nat) : Prop := {
  ck_fl : fl r ra (S k0);
  ck_done : forall fs, In fs done -> isClosed (boundaryOperator r (S k0)) fs = true ->
            exists s, containsSimplex ra s = true /\ sameset (faces ra s) (cfs_of r k0 fs);
  ck_ord : forall s o j, assoc s (r_simp ra) = Some (o, j) -> o <= ma;
  ck_reg : forall i, i < length (simplicesOfOrder ra (S (S k0))) -> registered nsa (S (S k0)) i;
  ck_key : nss_get (S (S k0)) nsa <> None;
  ck_oth : forall j x, j <> S (S k0) -> registered nss0 j x -> registered nsa j x;
  ck_lst : forall j, j <> S (S k0) -> simplicesOfOrder ra j = simplicesOfOrder r j;
  ck_max : ma = maxk0 \/ (ma = Nat.max maxk0 (S (S k0)) /\ exists s j, assoc s (r_simp ra) = Some (S (S k0), j)) }.

Lemma nth_error_snoc_last {A} (l : list A) x : nth_error (l ++ [x]) (length l) = Some x.
Proof. rewrite nth_error_app2 by lia. now rewrite Nat.sub_diag. Qed.

Lemma cps_step_ok r k0 newk1 nss0 maxk0 done ra nsa ma fs : vinv r ->
  (forall i, i < length (simplicesOfOrder r (S k0)) -> In i newk1) ->
  cinvK r k0 nss0 maxk0 done ra nsa ma ->
  In fs (combs (S (S (S k0))) (seq 0 (length (simplicesOfOrder r (S k0))))) ->
  exists rb nsb mb,
    cps_step (boundaryOperator r (S k0)) (S (S k0)) newk1 (ra, nsa, ma, Ok tt) fs = (rb, nsb, mb, Ok tt) /\
    cinvK r k0 nss0 maxk0 (done ++ [fs]) rb nsb mb.
Proof.
  intros Hv Hnew [Fl Dn Od Rg Ky Ot Ls Mx] Hfs.
  pose proof Fl as [Va Ea La Ba].
  pose proof (c_s r (b_c r (v_b r Hv))) as HS. pose proof (s_p r HS) as P.
  pose proof (c_s ra (b_c ra (v_b ra Va))) as HSa. pose proof (s_p ra HSa) as Pa.
  pose proof (combs_length _ _ _ Hfs) as Lfs.
  destruct (combs_sub _ _ _ Hfs) as [Ifs Nfs]. specialize (Nfs (seq_NoDup _ _)).
  assert (Hj : forall j, In j fs -> j < length (simplicesOfOrder r (S k0))).
  { intros j Hin. apply Ifs in Hin. apply in_seq in Hin. lia. }
  unfold cps_step.
  assert (Enew : existsb (fun i => existsb (Nat.eqb i) newk1) fs = true).
  { destruct fs as [|j0 t]; [discriminate|]. apply existsb_exists. exists j0. split; [now left|].
    apply existsb_exists. exists j0. split; [apply Hnew; apply Hj; now left | apply Nat.eqb_refl]. }
  rewrite Enew. cbn [andb].
  destruct (isClosed (boundaryOperator r (S k0)) fs) eqn:Ecl.
  2: { exists ra, nsa, ma. split; [reflexivity|]. constructor; auto.
       intros fs' Hin Hc. apply in_app_or in Hin. destruct Hin as [Hin|[<-|[]]]; [now apply Dn | congruence]. }
  replace (S (S k0) - 1) with (S k0) by lia. cbv zeta. rewrite La.
  fold (cfs_of r k0 fs). set (cfs := cfs_of r k0 fs).
  assert (Hk : S k0 < r_nord r).
  { destruct fs as [|j0 t]; [discriminate|]. specialize (Hj j0 (or_introl eq_refl)).
    unfold simplicesOfOrder in Hj. destruct (S k0 <? r_nord r) eqn:E; [now apply Nat.ltb_lt in E | simpl in Hj; lia]. }
  assert (Hcfs : forall f, In f cfs -> exists j, assoc f (r_simp r) = Some (S k0, j)).
  { intros f Hf. apply in_map_iff in Hf. destruct Hf as (j & <- & Hin). exists j.
    destruct P as [K Pm St L]. apply Pm. split; [exact Hk|].
    rewrite <- simplicesOfOrder_idxk by (constructor; auto). apply List.nth_error_nth'. now apply Hj. }
  assert (Hold : forall f, In f cfs -> containsSimplex r f = true).
  { intros f Hf. destruct (Hcfs f Hf) as (j & A). unfold containsSimplex. now rewrite A. }
  assert (Hcfsa : forall f, In f cfs -> exists j, assoc f (r_simp ra) = Some (S k0, j)).
  { intros f Hf. destruct (Hcfs f Hf) as (j & A). destruct (e_old r ra Ea f (Hold f Hf)) as (C & O & _).
    unfold orderOf in O. rewrite A in O. destruct (assoc f (r_simp ra)) as [[ko jo]|]; [|discriminate].
    injection O as ->. now exists jo. }
  assert (Ncfs : NoDup cfs).
  { apply NoDup_map_nth; auto. apply sOO_nodup. exact P. }
  assert (Lcfs : length cfs = S (S (S k0))) by (unfold cfs, cfs_of; now rewrite map_length).
  assert (Hcfsa' : forall f, In f cfs -> exists j, assoc f (r_simp ra) = Some (length cfs - 1 - 1, j)).
  { replace (length cfs - 1 - 1) with (S k0) by lia. exact Hcfsa. }
  unfold c_simplexWithFaces. rewrite (swf_total ra cfs); [|lia|exact Hcfsa'].
  destruct (last (map Some (filter (fun s => seteq (faces ra s) cfs) (simplicesOfOrder ra (length cfs - 1)))) None)
    as [q|] eqn:Eswf.
  - (* already there *)
    exists ra, nsa, ma. split; [reflexivity|]. constructor; auto.
    intros fs' Hin Hc. apply in_app_or in Hin. destruct Hin as [Hin|[<-|[]]]; [now apply Dn|].
    apply last_Some_In in Eswf. apply filter_In in Eswf. destruct Eswf as [Hq Sq].
    exists q. split; [|now apply seteq_sameset].
    rewrite Lcfs in Hq. simpl in Hq.
    destruct (listed_assoc ra Va q (S (S k0))) as (jq & Aq); [exact Hq|]. unfold containsSimplex. now rewrite Aq.
  - (* a new simplex *)
    assert (Hswf : simplexWithFaces ra cfs = Ok None).
    { rewrite (swf_total ra cfs); [now rewrite Eswf|lia|exact Hcfsa']. }
    destruct (addSimplex_succeeds ra cfs Ncfs) as (rb & s & Hadd).
    + lia.
    + rewrite Lcfs. simpl.
      assert (E : exists f, In f cfs) by (destruct cfs as [|f t]; [discriminate|exists f; now left]).
      destruct E as (f & Hf). destruct (Hcfsa f Hf) as (j & A). destruct Pa as [K Pm St L]. apply Pm in A. lia.
    + exact Hcfsa'.
    + intros _. exact Hswf.
    + rewrite Hadd.
      destruct (addSimplex_effect ra cfs None None rb s HSa Hadd) as (Hnc & _ & Ho & Hf & Hold' & Hall).
      assert (Flb : fl r rb (S k0)).
      { eapply (fl_step r k0 ra fs rb (Ok s)); eauto.
        - unfold c_simplexWithFaces. rewrite La. exact Hswf.
        - rewrite La. exact Hadd. }
      pose proof Flb as [Vb Eb Lb Bb].
      pose proof (s_p rb (c_s rb (b_c rb (v_b rb Vb)))) as Pb.
      pose proof (addSimplex_listing ra cfs None None rb s HSa Hadd) as Lst. rewrite Lcfs in Lst. simpl in Lst.
      assert (As : exists i, assoc s (r_simp rb) = Some (S (S k0), i)).
      { unfold orderOf in Ho. rewrite Lcfs in Ho. simpl in Ho.
        destruct (assoc s (r_simp rb)) as [[o i]|]; [|discriminate]. injection Ho as ->. now exists i. }
      destruct As as (i & As).
      assert (Ei : i = length (simplicesOfOrder ra (S (S k0)))).
      { pose proof Pb as [K Pm St L]. pose proof (proj1 (Pm s _ i) As) as [_ Hi].
        rewrite <- simplicesOfOrder_idxk in Hi by exact Pb. rewrite (Lst (S (S k0))), Nat.eqb_refl in Hi.
        assert (Nl : NoDup (simplicesOfOrder ra (S (S k0)) ++ [s])).
        { pose proof (Lst (S (S k0))) as E. rewrite Nat.eqb_refl in E. rewrite <- E. apply sOO_nodup. exact Pb. }
        apply (proj1 (NoDup_nth_error _) Nl).
        - apply nth_error_Some. congruence.
        - rewrite Hi. symmetry. apply nth_error_snoc_last. }
      unfold indexOf. rewrite As.
      exists rb, (nss_add (S (S k0)) i nsa), (Nat.max ma (S (S k0))). split; [reflexivity|].
      constructor.
      * exact Flb.
      * intros fs' Hin Hc. apply in_app_or in Hin. destruct Hin as [Hin|[<-|[]]].
        -- destruct (Dn fs' Hin Hc) as (s' & Cs' & Ss'). exists s'. destruct (Hold' s' Cs') as (_ & _ & F & _).
           split; [rewrite Hall, Cs'; reflexivity|]. now rewrite F.
        -- exists s. split; [rewrite Hall, name_eqb_refl; apply orb_true_r | exact Hf].
      * intros s' o j A'. assert (C' : containsSimplex rb s' = true) by (unfold containsSimplex; now rewrite A').
        rewrite Hall in C'. apply orb_prop in C'. destruct C' as [C'|C'].
        -- destruct (Hold' s' C') as (O' & _). unfold orderOf in O'. rewrite A' in O'.
           destruct (assoc s' (r_simp ra)) as [[o' j']|] eqn:A''; [|discriminate]. injection O' as ->.
           pose proof (Od s' o' j' A''). lia.
        -- apply name_eqb_eq in C'. subst s'. rewrite As in A'. injection A' as <- _. lia.
      * intros i' Hi'. rewrite (Lst (S (S k0))), Nat.eqb_refl, app_length in Hi'. simpl in Hi'.
        destruct (Nat.eq_dec i' i) as [->|Ne]; [apply nss_get_add_same|].
        apply nss_get_add_keep. apply Rg. lia.
      * now apply nss_add_key.
      * intros j x Hjn Hr. apply nss_get_add_keep. now apply Ot.
      * intros j Hjn. rewrite (Lst j). replace (j =? S (S k0)) with false by (symmetry; now apply Nat.eqb_neq). now apply Ls.
      * right. split; [destruct Mx as [->|[-> _]]; lia | exists s, i; exact As].
Qed.

Lemma cps_fold_ok r k0 newk1 nss0 maxk0 : vinv r ->
  (forall i, i < length (simplicesOfOrder r (S k0)) -> In i newk1) ->
  forall L0 done ra nsa ma,
  (forall fs, In fs L0 -> In fs (combs (S (S (S k0))) (seq 0 (length (simplicesOfOrder r (S k0)))))) ->
  cinvK r k0 nss0 maxk0 done ra nsa ma ->
  exists r' nss' maxk',
    fold_left (cps_step (boundaryOperator r (S k0)) (S (S k0)) newk1) L0 (ra, nsa, ma, Ok tt) = (r', nss', maxk', Ok tt) /\
    cinvK r k0 nss0 maxk0 (done ++ L0) r' nss' maxk'.
Proof.
  intros Hv Hnew. induction L0 as [|fs L0 IH]; intros done ra nsa ma HL Hc.
  - exists ra, nsa, ma. split; [reflexivity|]. now rewrite app_nil_r.
  - destruct (cps_step_ok r k0 newk1 nss0 maxk0 done ra nsa ma fs Hv Hnew Hc (HL fs (or_introl eq_refl))) as (rb & nsb & mb & E & Hc').
    destruct (IH (done ++ [fs]) rb nsb mb (fun f H => HL f (or_intror H)) Hc') as (r' & nss' & maxk' & E' & Hc'').
    exists r', nss', maxk'. split; [cbn [fold_left]; rewrite E; exact E'|]. now rewrite <- app_assoc in Hc''.
Qed.

Theorem cps_order_complete r k0 newk1 nss1 maxk : vinv r ->
  (forall i, i < length (simplicesOfOrder r (S k0)) -> In i newk1) ->
  (forall s o j, assoc s (r_simp r) = Some (o, j) -> o <= maxk) ->
  (forall i, i < length (simplicesOfOrder r (S (S k0))) -> registered nss1 (S (S k0)) i) ->
  nss_get (S (S k0)) nss1 <> None ->
  exists r' nss' maxk',
    cps_order r (S (S k0)) newk1 nss1 maxk = (r', nss', maxk', Ok tt) /\
    cinvK r k0 nss1 maxk (combs (S (S (S k0))) (seq 0 (length (simplicesOfOrder r (S k0))))) r' nss' maxk'.
Proof.
  intros Hv Hnew Hord Hreg Hkey. rewrite cps_order_fold. replace (S (S k0) - 1) with (S k0) by lia.
  apply (cps_fold_ok r k0 newk1 nss1 maxk Hv Hnew _ [] r nss1 maxk); [auto|].
  constructor; auto.
  - constructor; [exact Hv | apply ext2_refl; exact (c_s r (b_c r (v_b r Hv))) | reflexivity | reflexivity].
  - intros fs [].
Qed.

(* ---------- cliques and what carries them ---------- *)
Definition clique (r : rep) (B : list name) : Prop := forall p q, In p B -> In q B -> p <> q -> edge_of r p q.
Definition carried (r : rep) (B : list name) : Prop := exists t, containsSimplex r t = true /\ sameset (basisOf r t) B.
Definition complete_at (r : rep) (n : nat) : Prop :=
  forall B, NoDup B -> length B = n -> clique r B -> carried r B.

Lemma ext2b_edges_fwd r r' p q : vinv r -> vinv r' -> ext2b r r' -> edge_of r p q -> edge_of r' p q.
Proof.
  intros Hv Hv' [E Bs] (e & He & Se).
  pose proof (s_p r' (c_s r' (b_c r' (v_b r' Hv')))) as P'.
  destruct (listed_assoc r Hv e 1 He) as (j & A).
  assert (Ce : containsSimplex r e = true) by (unfold containsSimplex; now rewrite A).
  destruct (e_old r r' E e Ce) as (Ce' & O & _). unfold orderOf in O. rewrite A in O.
  destruct (assoc e (r_simp r')) as [[o' j']|] eqn:A'; [|discriminate]. injection O as ->.
  exists e. split; [eapply order_listed; eauto|]. rewrite (Bs e Ce). exact Se.
Qed.

Lemma carried_ext r r' B : ext2b r r' -> carried r B -> carried r' B.
Proof.
  intros [E Bs] (t & Ct & St). destruct (e_old r r' E t Ct) as (Ct' & _). exists t. split; [exact Ct'|].
  rewrite (Bs t Ct). exact St.
Qed.

Lemma drop_clique r x B : clique r B -> clique r (drop x B).
Proof. intros H p q Hp Hq. apply In_filter_neq in Hp, Hq. apply H; tauto. Qed.

(* after one complete order, every clique one point larger is carried *)
Theorem order_complete r k0 nss maxk L r' nss' maxk' : vinv r ->
  L = combs (S (S (S k0))) (seq 0 (length (simplicesOfOrder r (S k0)))) ->
  cinvK r k0 nss maxk L r' nss' maxk' ->
  complete_at r (S (S k0)) -> complete_at r' (S (S (S k0))).
Proof.
  intros Hv EL [Fl Dn _ _ _ _ _ _] Hc B HB LB Cl.
  pose proof Fl as [V' E' L' B'].
  pose proof (c_s r (b_c r (v_b r Hv))) as HS. pose proof (s_p r HS) as P.
  assert (Cl0 : clique r B).
  { intros p q Hp Hq Ne. apply (ext2b_edges r r' p q Hv V'); [split; assumption|]. now apply Cl. }
  assert (Hfac : forall x, In x B -> exists f, containsSimplex r f = true /\ sameset (basisOf r f) (drop x B)).
  { intros x Hx. apply Hc.
    - now apply NoDup_filter.
    - pose proof (filter_neq_length x B HB Hx) as Lx. unfold drop. lia.
    - now apply drop_clique. }
  set (l := simplicesOfOrder r (S k0)).
  set (idxs := filter (fun i => subsetn (basisOf r (nth i l (NInt 0))) B) (seq 0 (length l))).
  assert (Ecfs : cfs_of r k0 idxs = facets r k0 B).
  { unfold cfs_of, idxs, facets. fold l. apply (map_nth_filter_seq (fun s => subsetn (basisOf r s) B)). }
  pose proof (F_length r Hv k0 B HB LB Hfac) as LF.
  assert (Li : length idxs = S (S (S k0))).
  { rewrite <- LF, <- Ecfs. unfold cfs_of. now rewrite map_length. }
  assert (Hin : In idxs L).
  { rewrite EL. fold l. rewrite <- Li. unfold idxs. apply filter_in_combs. }
  assert (Hj : forall j, In j idxs -> j < length l).
  { intros j Hj. unfold idxs in Hj. apply filter_In in Hj. destruct Hj as [Hj _]. apply in_seq in Hj. lia. }
  assert (Hk : S k0 < r_nord r).
  { destruct idxs as [|j0 t] eqn:Ei; [discriminate|]. specialize (Hj j0 (or_introl eq_refl)).
    unfold l, simplicesOfOrder in Hj. destruct (S k0 <? r_nord r) eqn:E; [now apply Nat.ltb_lt in E | simpl in Hj; lia]. }
  assert (Hcl : isClosed (boundaryOperator r (S k0)) idxs = true).
  { apply (closed_names r HS k0 Hk idxs Hj). rewrite Ecfs. apply F_closed; auto. }
  destruct (Dn idxs Hin Hcl) as (s & Cs & Ss). rewrite Ecfs in Ss.
  exists s. split; [exact Cs|].
  pose proof (v_b r' V') as [C'' Bi]. apply contains_assoc in Cs. destruct Cs as (ks & j & As).
  destruct (Bi s ks j As) as [_ Bk].
  assert (Hks : 1 <= ks).
  { destruct ks as [|ks]; [|lia]. exfalso. unfold faces in Ss. rewrite As in Ss.
    destruct (facets r k0 B) as [|f t] eqn:EF; [discriminate|]. apply (proj2 (Ss f)). now left. }
  intros p. rewrite (Bk Hks p). split.
  - intros (u & Hu & Hp). apply Ss in Hu. pose proof Hu as Hu'. apply F_in in Hu'. destruct Hu' as [_ Hi].
    apply Hi. rewrite <- (B' u); [exact Hp|]. eapply F_contains; eauto.
  - intros Hp.
    assert (Ex : exists x, In x B /\ x <> p).
    { destruct B as [|a [|b t]]; simpl in LB; try lia. destruct (name_eq_dec a p) as [->|Na].
      - exists b. split; [right; now left|]. intros ->. inversion HB as [|? ? Hn _]. apply Hn. now left.
      - exists a. split; [now left | exact Na]. }
    destruct Ex as (x & Hx & Nx). destruct (F_facet r Hv k0 B HB LB Hfac x Hx) as (f & Hf & Cf).
    exists f. split; [now apply Ss|]. rewrite (B' f); [apply Cf; auto | eapply F_contains; eauto].
Qed.

(* ---------- the while loop ---------- *)
Lemma nss_get_app_self nss k : nss_get k nss = None -> nss_get k (nss ++ [(k, [])]) = Some [].
Proof.
  induction nss as [|[k' s] t IH]; simpl; intros H; [now rewrite Nat.eqb_refl|].
  destruct (k =? k'); [discriminate | now apply IH].
Qed.

Lemma order_le_points r s o j : vinv r -> assoc s (r_simp r) = Some (o, j) -> S o <= length (simplicesOfOrder r 0).
Proof.
  intros Hv A. pose proof (s_p r (c_s r (b_c r (v_b r Hv)))) as P.
  rewrite <- (v_card r Hv s o j A). apply NoDup_incl_length; [apply basis_nodup; exact P|].
  intros p Hp. destruct (a_basis_point r Hv s o j p A Hp) as (i & Ai). eapply order_listed; eauto.
Qed.

Record loopT (c : rep) (k maxk : nat) (r : rep) (nss : nssT) : Prop := {
  lt_v : vinv r;
  lt_e : ext2b c r;
  lt_p : simplicesOfOrder r 0 = simplicesOfOrder c 0;
  lt_c : forall n, 2 <= n -> n <= S k -> complete_at r n;
  lt_o : forall s o j, assoc s (r_simp r) = Some (o, j) -> o <= maxk;
  lt_r : forall j i, k <= j -> i < length (simplicesOfOrder r j) -> registered nss j i }.

Lemma NoDup_firstn {A} n (l : list A) : NoDup l -> NoDup (firstn n l).
Proof.
  revert n. induction l as [|a t IH]; intros [|n] H; simpl; try constructor.
  - inversion H as [|? ? Ha Ht]; subst. intros Hin. apply Ha. rewrite <- (firstn_skipn n t). apply in_or_app. now left.
  - inversion H; subst. now apply IH.
Qed.

Lemma clique_incl r B B' : clique r B -> incl B' B -> clique r B'.
Proof. intros H Hi p q Hp Hq. apply H; auto. Qed.

(* no simplex of order k: no clique on k+1 or more points (given completeness at k+1 points) *)
Lemma no_big_cliques r k : vinv r -> 1 <= k -> complete_at r (S k) ->
  (forall s j, assoc s (r_simp r) = Some (k, j) -> False) ->
  forall n, S k <= n -> complete_at r n.
Proof.
  intros Hv Hk Hc Hno n Hn B HB LB Cl. exfalso.
  destruct (Hc (firstn (S k) B)) as (t & Ct & St).
  - now apply NoDup_firstn.
  - rewrite firstn_length. lia.
  - apply (clique_incl r B); [exact Cl|]. intros x Hx. rewrite <- (firstn_skipn (S k) B). apply in_or_app. now left.
  - apply contains_assoc in Ct. destruct Ct as (o & j & A).
    assert (o = k); [|subst; eauto].
    pose proof (v_card r Hv t o j A) as Lc. pose proof (s_p r (c_s r (b_c r (v_b r Hv)))) as P.
    rewrite (NoDup_same_length (basisOf r t) (firstn (S k) B)) in Lc.
    + rewrite firstn_length in Lc. lia.
    + apply basis_nodup; exact P.
    + now apply NoDup_firstn.
    + exact St.
Qed.

Lemma cps_loop_complete c Mx : vinv c -> length (simplicesOfOrder c 0) <= Mx ->
  forall fuel k maxk r nss, loopT c k maxk r nss -> 1 <= k -> k <= maxk + 2 -> maxk <= Mx -> Mx + 3 <= k + fuel ->
  exists r', cps_loop fuel k maxk r nss = (r', Ok tt) /\ vinv r' /\ ext2b c r' /\ forall n, 2 <= n -> complete_at r' n.
Proof.
  intros Vc HMx. induction fuel as [|f IH]; intros k maxk r nss T Hk Hkm Hm Hf; [lia|].
  pose proof T as [Vr Er Pr Cr Or Rr].
  pose proof (s_p r (c_s r (b_c r (v_b r Vr)))) as P.
  cbn [cps_loop]. destruct (maxk + 1 <? k) eqn:Estop.
  - (* the loop ends *)
    apply Nat.ltb_lt in Estop. exists r. split; [reflexivity|]. split; [exact Vr|]. split; [exact Er|].
    intros n Hn. destruct (Nat.le_gt_cases n (S k)) as [Hle|Hgt]; [now apply Cr|].
    apply (no_big_cliques r k Vr Hk); [apply Cr; lia| |lia].
    intros s j A. pose proof (Or s k j A). lia.
  - apply Nat.ltb_ge in Estop. replace (S k - 1) with k by lia.
    assert (Hnone : (forall s j, assoc s (r_simp r) = Some (k, j) -> False) -> loopT c (S k) maxk r nss).
    { intros Hno. constructor; auto.
      - intros n Hn Hle. destruct (Nat.eq_dec n (S (S k))) as [->|Ne]; [|apply Cr; lia].
        apply (no_big_cliques r k Vr Hk); [apply Cr; lia | exact Hno | lia].
      - intros j i Hj Hi. apply Rr; [lia | exact Hi]. }
    assert (Hempty : (forall i, registered nss k i -> False) -> forall s j, assoc s (r_simp r) = Some (k, j) -> False).
    { intros Hno s j A. apply (Hno j). apply Rr; [lia|].
      destruct P as [K Pm St L]. apply Pm in A. destruct A as [Hlt A].
      rewrite simplicesOfOrder_idxk by (constructor; auto). apply nth_error_Some. congruence. }
    destruct (nss_get k nss) as [[|i0 newk1]|] eqn:Eget.
    + apply (IH (S k) maxk r nss); try lia. apply Hnone. apply Hempty.
      intros i (s & G & Hin). rewrite Eget in G. injection G as <-. destruct Hin.
    + (* an order to complete *)
      destruct k as [|k0]; [lia|].
      set (nss1 := match nss_get (S (S k0)) nss with Some _ => nss | None => nss ++ [(S (S k0), [])] end).
      assert (R1 : forall j x, registered nss j x -> registered nss1 j x).
      { intros j x H. unfold nss1. destruct (nss_get (S (S k0)) nss) eqn:E; [exact H | now apply nss_get_app_new]. }
      destruct (cps_order_complete r k0 (i0 :: newk1) nss1 maxk Vr) as (r1 & nss' & maxk' & Eo & Ck).
      * intros i Hi. destruct (Rr (S k0) i (le_n _) Hi) as (s & G & Hin). rewrite Eget in G. now injection G as <-.
      * exact Or.
      * intros i Hi. apply R1. apply Rr; [lia | exact Hi].
      * unfold nss1. destruct (nss_get (S (S k0)) nss) eqn:E; [congruence | now rewrite nss_get_app_self].
      * fold nss1. rewrite Eo.
        pose proof Ck as [Fl Dn Od Rg Ky Ot Ls Mxx]. pose proof Fl as [V1 E1 L1 B1].
        assert (E1b : ext2b r r1) by (split; assumption).
        assert (T1 : loopT c (S (S k0)) maxk' r1 nss').
        { constructor.
          - exact V1.
          - eapply ext2b_trans; eauto.
          - rewrite (Ls 0) by lia. exact Pr.
          - intros n Hn Hle. destruct (Nat.eq_dec n (S (S (S k0)))) as [->|Ne].
            + eapply (order_complete r k0 nss1 maxk _ r1 nss' maxk' Vr eq_refl Ck). apply Cr; lia.
            + intros B HB LB Cl. apply (carried_ext r r1 B E1b). apply (Cr n Hn ltac:(lia) B HB LB).
              intros p q Hp Hq Ne'. apply (ext2b_edges r r1 p q Vr V1 E1b). now apply Cl.
          - exact Od.
          - intros j i Hj Hi. destruct (Nat.eq_dec j (S (S k0))) as [->|Ne]; [now apply Rg|].
            apply Ot; [exact Ne|]. apply R1. apply Rr; [lia|]. rewrite <- (Ls j Ne). exact Hi. }
        assert (Hm' : maxk <= maxk' /\ maxk' <= Mx).
        { destruct Mxx as [->|[-> (s & j & As)]]; [lia|]. split; [lia|].
          pose proof (order_le_points r1 s _ j V1 As) as Lp. rewrite (Ls 0) in Lp by lia. rewrite Pr in Lp. lia. }
        apply (IH (S (S k0)) maxk' r1 nss' T1); lia.
    + apply (IH (S k) maxk r nss); try lia. apply Hnone. apply Hempty.
      intros i (s & G & Hin). rewrite Eget in G. discriminate.
Qed.

(* ---------- the seed of flagComplex ---------- *)
Lemma nss_get_map (g : nat -> list nat) j : forall l, In j l -> nss_get j (map (fun k => (k, g k)) l) = Some (g j).
Proof.
  induction l as [|a t IH]; intros H; [destruct H|]. simpl. destruct (j =? a) eqn:E.
  - apply Nat.eqb_eq in E. now subst.
  - apply IH. destruct H as [->|H]; [rewrite Nat.eqb_refl in E; discriminate | exact H].
Qed.

Lemma nss_maxkey_ge nss k s : In (k, s) nss -> k <= nss_maxkey nss.
Proof.
  unfold nss_maxkey. induction nss as [|[k' s'] t IH]; intros H; [destruct H|]. simpl.
  destruct H as [E|H]; [injection E as -> _; lia | specialize (IH H); lia].
Qed.

Lemma sOO_nonempty_lt r j i : i < length (simplicesOfOrder r j) -> j < r_nord r.
Proof.
  unfold simplicesOfOrder. destruct (j <? r_nord r) eqn:E; [intros _; now apply Nat.ltb_lt|]. simpl. lia.
Qed.

Lemma flag_seed_registered c j i : 1 <= j -> i < length (simplicesOfOrder c j) -> registered (flag_seed c) j i.
Proof.
  intros Hj Hi. unfold flag_seed, registered. cbn [nss_get].
  destruct (j =? 1) eqn:E.
  - apply Nat.eqb_eq in E. subst j. exists (seq 0 (length (simplicesOfOrder c 1))). split; [reflexivity|]. apply in_seq. lia.
  - apply Nat.eqb_neq in E. pose proof (sOO_nonempty_lt c j i Hi) as Hl.
    rewrite (nss_get_map (fun k => seq 0 (length (simplicesOfOrder c k))) j); [|apply in_seq; lia].
    eexists. split; [reflexivity|]. apply in_seq. lia.
Qed.

Lemma flag_seed_maxkey c j : 1 <= j -> j < r_nord c -> j <= nss_maxkey (flag_seed c).
Proof.
  intros Hj Hl. destruct (Nat.eq_dec j 1) as [->|Ne].
  - apply (nss_maxkey_ge _ 1 (seq 0 (length (simplicesOfOrder c 1)))). now left.
  - apply (nss_maxkey_ge _ j (seq 0 (length (simplicesOfOrder c j)))). right.
    apply in_map_iff. exists j. split; [reflexivity|]. apply in_seq. lia.
Qed.

Lemma edge_carried r p q : edge_of r p q -> carried r [p; q].
Proof.
  intros (e & He & Se). exists e. split; [|exact Se].
  unfold simplicesOfOrder in He. destruct (1 <? r_nord r); [|destruct He].
  unfold containsSimplex.
Abort.

Lemma cps_unfold r nss : nss <> [] ->
  completePotentialSimplices r nss =
  cps_loop (nss_maxkey nss + length (simplicesOfOrder r 0) + 4) 1 (nss_maxkey nss) r nss.
Proof. destruct nss; [congruence | reflexivity]. Qed.

(* C11: flagComplex never fails on a complex that meets the vertex-set reading (once its copy is
   made), and afterwards every set of two or more points that are pairwise joined by an edge of the
   source carries a simplex *)
Theorem flagComplex_complete hp src uid hp1 c : vinv src -> copy_new hp (view_of src) uid = (hp1, c, Ok tt) ->
  exists r', flagComplex hp src uid = (hp1, r', Ok tt) /\ vinv r' /\
    forall B, NoDup B -> 2 <= length B -> clique src B -> carried r' B.
Proof.
  intros Hv E0. unfold flagComplex. rewrite E0.
  destruct (copy_vinv hp src uid hp1 c Hv E0) as [Vc Bc].
  pose proof (s_p c (c_s c (b_c c (v_b c Vc)))) as Pc.
  set (seed := flag_seed c). set (Mx := Nat.max (nss_maxkey seed) (length (simplicesOfOrder c 0))).
  assert (T : loopT c 1 (nss_maxkey seed) c seed).
  { constructor.
    - exact Vc.
    - apply ext2b_refl. exact (c_s c (b_c c (v_b c Vc))).
    - reflexivity.
    - intros n Hn Hle B HB LB Cl. assert (Hn2 : n = 2) by lia. rewrite Hn2 in LB.
      destruct B as [|p [|q [|x t]]]; simpl in LB; try lia.
      assert (Ne : p <> q). { intros ->. inversion HB as [|? ? Hn' _]. apply Hn'. now left. }
      destruct (Cl p q (or_introl eq_refl) (or_intror (or_introl eq_refl)) Ne) as (e & He & Se).
      exists e. split; [|exact Se]. destruct (listed_assoc c Vc e 1 He) as (j & A). unfold containsSimplex. now rewrite A.
    - intros s o j A. destruct o as [|o]; [lia|]. apply flag_seed_maxkey; [lia|].
      destruct Pc as [K Pm St L]. apply Pm in A. tauto.
    - intros j i Hj Hi. now apply flag_seed_registered. }
  assert (Es : seed <> []) by (unfold seed, flag_seed; discriminate).
  rewrite (cps_unfold c seed Es).
  assert (H1 : length (simplicesOfOrder c 0) <= Mx) by (unfold Mx; lia).
  assert (H2 : 1 <= nss_maxkey seed + 2) by lia.
  assert (H3 : nss_maxkey seed <= Mx) by (unfold Mx; lia).
  assert (H4 : Mx + 3 <= 1 + (nss_maxkey seed + length (simplicesOfOrder c 0) + 4)) by (unfold Mx; lia).
  destruct (cps_loop_complete c Mx Vc H1 (nss_maxkey seed + length (simplicesOfOrder c 0) + 4) 1 (nss_maxkey seed) c seed
              T (le_n 1) H2 H3 H4) as (r' & El & V' & E' & Call).
  rewrite El. exists r'. split; [reflexivity|]. split; [exact V'|].
  intros B HB LB Cl. apply (Call (length B) LB B HB eq_refl).
  intros p q Hp Hq Ne. apply (ext2b_edges_fwd c r' p q Vc V' E').
  destruct (Cl p q Hp Hq Ne) as (e & He & Se). exists e. split.
  - rewrite (copy_listing_per_order hp src uid hp1 c (b_c src (v_b src Hv)) E0 1). exact He.
  - intros z. rewrite <- (Se z). apply Bc.
    rewrite <- (copy_listing_per_order hp src uid hp1 c (b_c src (v_b src Hv)) E0 1) in He.
    destruct (listed_assoc c Vc e 1 He) as (j & A). unfold containsSimplex. now rewrite A.
Qed.

(* C11, both directions: the flag complex is the clique complex of the 1-skeleton of its source *)
Theorem flagComplex_is_clique_complex hp src uid hp1 c : vinv src -> copy_new hp (view_of src) uid = (hp1, c, Ok tt) ->
  exists r', flagComplex hp src uid = (hp1, r', Ok tt) /\ vinv r' /\
    forall B, NoDup B -> 2 <= length B -> (carried r' B <-> clique src B).
Proof.
  intros Hv E0. destruct (flagComplex_complete hp src uid hp1 c Hv E0) as (r' & Ef & V' & Cc).
  exists r'. split; [exact Ef|]. split; [exact V'|]. intros B HB LB. split; [|now apply Cc].
  intros (t & Ct & St) p q Hp Hq Ne.
  destruct (flagComplex_sound hp src uid hp1 r' Hv Ef) as [_ Sd].
  apply (Sd t p q Ct); [now apply St | now apply St | exact Ne].
Qed.

(* "whenever all facets of a possible simplex are present the simplex is too" *)
Theorem flagComplex_fills_facets hp src uid hp1 c : vinv src -> copy_new hp (view_of src) uid = (hp1, c, Ok tt) ->
  exists r', flagComplex hp src uid = (hp1, r', Ok tt) /\
    forall B, NoDup B -> 3 <= length B -> (forall x, In x B -> carried r' (drop x B)) -> carried r' B.
Proof.
  intros Hv E0. destruct (flagComplex_is_clique_complex hp src uid hp1 c Hv E0) as (r' & Ef & V' & Iff).
  exists r'. split; [exact Ef|]. intros B HB LB Hfac. apply Iff; [exact HB | lia|].
  intros p q Hp Hq Ne.
  (* a third point x: p and q both lie in the facet that drops x *)
  assert (Ex : exists x, In x B /\ x <> p /\ x <> q).
  { destruct (three_members B HB LB) as (a & b & c0 & Ha & Hb & Hc & Nab & Nac & Nbc).
    destruct (name_eq_dec a p) as [Eap|Nap]; [|destruct (name_eq_dec a q) as [Eaq|Naq]; [|exists a; auto]].
    - subst a. destruct (name_eq_dec b q) as [Ebq|Nbq]; [|exists b; auto].
      subst b. exists c0. auto.
    - subst a. destruct (name_eq_dec b p) as [Ebp|Nbp]; [|exists b; auto].
      subst b. exists c0. auto. }
  destruct Ex as (x & Hx & Nxp & Nxq).
  assert (Ld : 2 <= length (drop x B)).
  { pose proof (filter_neq_length x B HB Hx) as L. unfold drop. lia. }
  apply (proj1 (Iff (drop x B) (NoDup_filter _ HB) Ld) (Hfac x Hx)); try (apply In_filter_neq; split; auto). exact Ne.
Qed.
