(* FlagComplete.v -- completeness of flagComplex (C11, C12): on a complex that meets the vertex-set
   reading flagComplex never fails, and afterwards EVERY set of two or more points that are pairwise
   joined by an edge carries a simplex.  With FlagSound.v: the flag complex is exactly the clique
   complex of the 1-skeleton.  Plain Coq. *)
From Coq Require Import String ZArith Bool Arith List Lia.
From SV Require Import Names NamesFacts ListFacts Rep Fresh Complex Atomic RepInv Reach Shapes Incidence AddEffect
                       Closed ClosedReach AddBasis BasisInv Duality DeleteEffect VInv AwbSpec VSets DD CopyFaithful
                       Homology ListMat Listing FlagExt VIso MinCycle FlagSound Continuation.
Import ListNotations.
Open Scope nat_scope.

(* ---------- addSimplex with a generated name and no attributes succeeds when its checks pass ---------- *)
Lemma check_faces_ok r k fs : (forall f, In f fs -> exists j, assoc f (r_simp r) = Some (k - 1, j)) -> 1 <= k ->
  check_faces r k fs = Ok tt.
Proof.
  intros H Hk. induction fs as [|f t IH]; [reflexivity|]. cbn [check_faces].
  destruct (H f (or_introl eq_refl)) as (j & A). rewrite A.
  replace (S (k - 1) =? k) with true by (symmetry; apply Nat.eqb_eq; lia).
  apply IH. intros g Hg. apply H. now right.
Qed.

Lemma addSimplex_succeeds r fs : NoDup fs -> 2 <= length fs -> length fs - 1 <= r_nord r ->
  (forall f, In f fs -> exists j, assoc f (r_simp r) = Some (length fs - 1 - 1, j)) ->
  (length fs - 1 < r_nord r -> simplexWithFaces r fs = Ok None) ->
  exists r' n, addSimplex r fs None None = (r', Ok n).
Proof.
  intros Hnd Hl Hk Hord Hswf. unfold addSimplex.
  replace ((length fs - 1 =? 0) && negb (length fs =? 0)) with false
    by (symmetry; apply andb_false_intro1; apply Nat.eqb_neq; lia).
  destruct (newSimplex_fresh r (length fs - 1)) as (i & id & -> & _ & _ & Hfresh).
  set (r1 := set_seq r (S i)). cbv zeta. unfold alloc.
  set (r2 := mkRep (r_uid r1) (r_nord r1) (r_simp r1) (r_idx r1) (r_bnd r1) (r_bas r1) (r_attr r1) (r_seq r1) (S (r_nalloc r1))).
  assert (Hs : same_obs r r2) by (repeat split).
  replace (negb (nodupb fs)) with false by (symmetry; apply negb_false_iff; now apply nodupb_NoDup).
  rewrite (check_faces_ok r2 (length fs - 1) fs); [|exact Hord|lia].
  change (r_nord r2) with (r_nord r).
  destruct (r_nord r <=? length fs - 1) eqn:E1.
  - apply Nat.leb_le in E1. replace (r_nord r <? length fs - 1) with false by (symmetry; apply Nat.ltb_ge; lia).
    destruct (length fs - 1) as [|k'] eqn:Ek; [lia|]. eexists. eexists. reflexivity.
  - apply Nat.leb_gt in E1. replace (0 <? length fs - 1) with true by (symmetry; apply Nat.ltb_lt; lia).
    rewrite (simplexWithFaces_respects r r2 fs Hs), (Hswf E1).
    destruct (length fs - 1) as [|k'] eqn:Ek; [lia|]. eexists. eexists. reflexivity.
Qed.
