(* VIso2.v -- the vertex-set reading of a union (C01 / C16): a complex whose simplices are those of two complexes
   a and c that agree where they overlap (a shared name has the same points, shared points have the same name),
   each with the order and faces it has in its source, meets the vertex-set reading, with the points the simplex has
   in its source.  Instance: the result of a successful a.compose(c).  Plain Coq. *)
From Coq Require Import String ZArith Bool Arith List Lia.
From SV Require Import Names NamesFacts ListFacts Rep Fresh Complex Atomic RepInv Reach ReachGen2 Shapes Incidence AddEffect
                       Closed ClosedReach AddBasis BasisInv CopyFaithful VInv AwbSpec VSets Homology ComposeProofs.
Import ListNotations.
Open Scope nat_scope.

Section Sub2.
  Variables ra rc r' : rep.
  Hypothesis Hva : vinv ra.
  Hypothesis Hvc : vinv rc.
  Hypothesis Hb' : bcinv r'.
  Hypothesis HsubA : forall s, containsSimplex r' s = true -> containsSimplex ra s = true ->
    orderOf r' s = orderOf ra s /\ forall t, In t (faces r' s) <-> In t (faces ra s).
  Hypothesis HsubC : forall s, containsSimplex r' s = true -> containsSimplex ra s = false ->
    containsSimplex rc s = true /\ orderOf r' s = orderOf rc s /\ forall t, In t (faces r' s) <-> In t (faces rc s).
  Hypothesis K1 : forall s, containsSimplex rc s = true -> containsSimplex ra s = true -> sameset (basisOf ra s) (basisOf rc s).
  Hypothesis K2 : forall s t, containsSimplex rc s = true -> containsSimplex ra t = true ->
    sameset (basisOf ra t) (basisOf rc s) -> t = s.

  Let HS' : sinv r' := c_s r' (b_c r' Hb').
  Definition src (s : name) : rep := if containsSimplex ra s then ra else rc.

  Lemma src_vinv s : vinv (src s).
  Proof. unfold src. destruct (containsSimplex ra s); assumption. Qed.

  Lemma src_facts s : containsSimplex r' s = true ->
    containsSimplex (src s) s = true /\ orderOf r' s = orderOf (src s) s /\ forall t, In t (faces r' s) <-> In t (faces (src s) s).
  Proof.
    intros C. unfold src. destruct (containsSimplex ra s) eqn:Ca.
    - destruct (HsubA s C Ca) as [O F]. auto.
    - exact (HsubC s C Ca).
  Qed.

  Lemma src_assoc s k j : assoc s (r_simp r') = Some (k, j) -> exists i, assoc s (r_simp (src s)) = Some (k, i).
  Proof.
    intros As. assert (C : containsSimplex r' s = true) by (unfold containsSimplex; now rewrite As).
    destruct (src_facts s C) as (_ & Ho & _). unfold orderOf in Ho. rewrite As in Ho.
    destruct (assoc s (r_simp (src s))) as [[k0 i]|]; [|discriminate]. injection Ho as <-. eauto.
  Qed.

  (* a face u of s, read in s's source, has there the points it has in its own source *)
  Lemma face_same_points s u k i : assoc s (r_simp (src s)) = Some (S k, i) -> In u (faces (src s) s) ->
    sameset (basisOf (src u) u) (basisOf (src s) u).
  Proof.
    intros As Hu. unfold src in *. destruct (containsSimplex ra s) eqn:Cs.
    - (* s read in ra: its faces are simplices of ra *)
      destruct (face_is_simplex ra (c_s ra (b_c ra (v_b ra Hva))) s u k i As Hu) as (iu & Au).
      assert (Cu : containsSimplex ra u = true) by (unfold containsSimplex; now rewrite Au). rewrite Cu. intros z; reflexivity.
    - destruct (face_is_simplex rc (c_s rc (b_c rc (v_b rc Hvc))) s u k i As Hu) as (iu & Au).
      assert (Cu : containsSimplex rc u = true) by (unfold containsSimplex; now rewrite Au).
      destruct (containsSimplex ra u) eqn:Cua; [now apply K1|intros z; reflexivity].
  Qed.

  Lemma sub_basis2 : forall k s j, assoc s (r_simp r') = Some (k, j) -> sameset (basisOf r' s) (basisOf (src s) s).
  Proof.
    induction k as [|k IH]; intros s j As; destruct (src_assoc s _ j As) as (i & Ar).
    - destruct (b_b r' Hb' s 0 j As) as [E' _]. destruct (b_b (src s) (v_b _ (src_vinv s)) s 0 i Ar) as [E _].
      rewrite E', E by reflexivity. intros z; reflexivity.
    - destruct (b_b r' Hb' s (S k) j As) as [_ E']. destruct (b_b (src s) (v_b _ (src_vinv s)) s (S k) i Ar) as [_ E].
      assert (C : containsSimplex r' s = true) by (unfold containsSimplex; now rewrite As).
      destruct (src_facts s C) as (_ & _ & Hf).
      intros p. rewrite E', E by lia. split; intros (u & Hu & Hp).
      + exists u. split; [now apply Hf|]. destruct (face_is_simplex r' HS' s u k j As Hu) as (iu & Au).
        apply (face_same_points s u k i Ar (proj1 (Hf u) Hu)). now apply (IH u iu Au).
      + exists u. pose proof Hu as Hu0. apply Hf in Hu. split; [exact Hu|].
        destruct (face_is_simplex r' HS' s u k j As Hu) as (iu & Au).
        apply (IH u iu Au). now apply (face_same_points s u k i Ar Hu0).
  Qed.

  Theorem vinv_union : vinv r' /\ forall s, containsSimplex r' s = true -> sameset (basisOf r' s) (basisOf (src s) s).
  Proof.
    assert (G : forall s, containsSimplex r' s = true -> sameset (basisOf r' s) (basisOf (src s) s)).
    { intros s C. apply (contains_assoc r') in C. destruct C as (k & j & As). exact (sub_basis2 k s j As). }
    split; [|exact G]. constructor; [exact Hb'| |].
    - intros t k j At. destruct (src_assoc t k j At) as (i & Ar).
      rewrite <- (v_card (src t) (src_vinv t) t k i Ar).
      apply NoDup_sameset_length; [apply basis_nodup; apply s_p; exact HS'| |exact (sub_basis2 k t j At)].
      apply basis_nodup. apply s_p. exact (c_s _ (b_c _ (v_b _ (src_vinv t)))).
    - intros t u Ct Cu Hss.
      assert (Hst : sameset (basisOf (src t) t) (basisOf (src u) u)).
      { intros z. rewrite <- (G t Ct z), <- (G u Cu z). apply Hss. }
      destruct (src_facts t Ct) as (St & _). destruct (src_facts u Cu) as (Su & _).
      unfold src in *. destruct (containsSimplex ra t) eqn:Cta, (containsSimplex ra u) eqn:Cua.
      + now apply (v_uniq ra Hva).
      + apply (K2 u t Su Cta Hst).
      + symmetry. apply (K2 t u St Cua). intros z. symmetry. apply Hst.
      + now apply (v_uniq rc Hvc).
  Qed.
End Sub2.

(* ---------- instance: a.compose(c) ---------- *)
From SV Require Import VIso WorldProofs.

Lemma bcinv_setAttributes r s h : bcinv r -> bcinv (setAttributes r s h).
Proof.
  intros [[S F] B]. split; [split|].
  - now apply sinv_setAttributes.
  - intros t k j A. change (faces (setAttributes r s h) t) with (faces r t). exact (F t k j A).
  - intros t k j A. change (basisOf (setAttributes r s h) t) with (basisOf r t).
    change (faces (setAttributes r s h) t) with (faces r t). destruct (B t k j A) as [B0 B1]. split; [exact B0|].
    intros Hk p. rewrite (B1 Hk p). split; intros (u & Hu & Hp); exists u; split; auto.
Qed.

Lemma compose_step_bcinv a c acc s : bcinv (snd (fst acc)) -> bcinv (snd (fst (compose_step a c acc s))).
Proof.
  destruct acc as [[hp d] [u|e]]; [|auto]. cbn [fst snd]. intros B. unfold compose_step.
  destruct (c_simplexWithBasis a (basisOf c s) false) as [q|e]; [|exact B].
  destruct (containsSimplex a s).
  - destruct q as [q'|]; [|exact B]. destruct (name_eqb s q'); [|exact B].
    destruct (alloc d) as [d1 h'] eqn:Ea. cbn [fst snd]. apply bcinv_setAttributes.
    apply (bcinv_same_obs d d1); [|exact B]. pose proof (same_obs_alloc d) as X. now rewrite Ea in X.
  - destruct q as [q'|]; [exact B|].
    destruct (alloc d) as [d1 h'] eqn:Ea.
    assert (B1 : bcinv d1) by (apply (bcinv_same_obs d d1); [pose proof (same_obs_alloc d) as X; now rewrite Ea in X|exact B]).
    destruct (addSimplex d1 (faces c s) (Some s) (Some h')) as [d2 [id|e]] eqn:EA; cbn [fst snd]; eapply addSimplex_bcinv; eauto.
Qed.

Lemma compose_fold_bcinv a c : forall L acc, bcinv (snd (fst acc)) -> bcinv (snd (fst (fold_left (compose_step a c) L acc))).
Proof. induction L as [|s L IH]; intros acc B; simpl; [exact B|]. apply IH. now apply compose_step_bcinv. Qed.

Lemma order_by_faces r s : cinv r -> containsSimplex r s = true -> orderOf r s = Ok (length (faces r s) - 1).
Proof.
  intros [S F] C. unfold containsSimplex in C. unfold orderOf. destruct (assoc s (r_simp r)) as [[[|o] j]|] eqn:A; [| |discriminate].
  - unfold faces. rewrite A. reflexivity.
  - rewrite (F s o j A). simpl. reflexivity.
Qed.

Theorem compose_vinv hp a c uid hp' d : vinv a -> vinv c -> compose hp a c None uid = (hp', d, Ok tt) ->
  vinv d /\ forall s, containsSimplex d s = true -> sameset (basisOf d s) (basisOf (if containsSimplex a s then a else c) s).
Proof.
  intros Va Vc H.
  pose proof (b_c a (v_b a Va)) as Ca. pose proof (b_c c (v_b c Vc)) as Cc.
  pose proof (s_p a (c_s a Ca)) as Pa. pose proof (s_p c (c_s c Cc)) as Pc.
  destruct (compose_is_union hp a c uid hp' d Pa Pc H) as (Sd & Hmem & HfA & HfC).
  pose proof (compose_accepts_only_compatible hp a c uid hp' d Pc H) as Hlook.
  (* the basis invariant of the result *)
  assert (Bd : bcinv d).
  { unfold compose in H. destruct (copy_new hp (view_of a) uid) as [[hp1 d0] [[]|e]] eqn:E0; [|discriminate].
    rewrite compose_loop_fold in H.
    pose proof (compose_fold_bcinv a c (concat (map (simplicesOfOrder c) (seq 0 (r_nord c)))) (hp1, d0, Ok tt)) as X.
    rewrite H in X. apply X. simpl. exact (copy_new_bcinv _ _ _ _ _ _ E0). }
  pose proof (b_c d Bd) as Cd.
  assert (Ord : forall r s, cinv r -> cinv d -> containsSimplex r s = true -> containsSimplex d s = true ->
                (forall t, In t (faces d s) <-> In t (faces r s)) -> orderOf d s = orderOf r s).
  { intros r s Cr _ Crs Cds Hf. rewrite (order_by_faces d s Cd Cds), (order_by_faces r s Cr Crs). f_equal. f_equal.
    apply NoDup_same_length; [apply faces_nodup; exact (s_p d (c_s d Cd))|apply faces_nodup; exact (s_p r (c_s r Cr))|exact Hf]. }
  apply (vinv_union a c d Va Vc Bd).
  - intros s Cs Csa. split; [|now apply HfA]. apply (Ord a s Ca Cd Csa Cs). now apply HfA.
  - intros s Cs Csa. assert (Csc : containsSimplex c s = true) by (rewrite Hmem, Csa in Cs; exact Cs).
    split; [exact Csc|]. split; [|now apply HfC]. apply (Ord c s Cc Cd Csc Cs). now apply HfC.
  - (* a shared name has the same points *)
    intros s Csc Csa. pose proof (Hlook s Csc) as L. rewrite Csa in L.
    destruct (lookup_some a (basisOf c s) s Va L) as [_ Hs]. exact Hs.
  - (* shared points have the same name *)
    intros s t Csc Cta Hst. pose proof (Hlook s Csc) as L. destruct (containsSimplex a s) eqn:Csa.
    + destruct (lookup_some a (basisOf c s) s Va L) as [_ Hs]. apply (v_uniq a Va t s Cta Csa).
      intros z. rewrite (Hst z). symmetry. apply Hs.
    + exfalso. apply (contains_assoc c) in Csc. destruct Csc as (k & j & Ac).
      apply (contains_assoc a) in Cta. destruct Cta as (kt & jt & At).
      assert (Hp : pts a (basisOf c s)).
      { intros b Hb. apply (a_basis_point a Va t kt jt b At). now apply Hst. }
      assert (Hne : basisOf c s <> []) by (intros E; pose proof (v_card c Vc s k j Ac) as X; rewrite E in X; discriminate).
      destruct (lookup_none a (basisOf c s) Va Hp (basis_nodup c s Pc) Hne L) as [_ Hno].
      apply (Hno t); [unfold containsSimplex; now rewrite At|exact Hst].
Qed.

(* the family of vertex sets of the composition is the union of the operands' families *)
From SV Require Import FlagComplete.
Theorem compose_family hp a c uid hp' d : vinv a -> vinv c -> compose hp a c None uid = (hp', d, Ok tt) ->
  forall B, carried d B <-> carried a B \/ carried c B.
Proof.
  intros Va Vc H B.
  pose proof (s_p a (c_s a (b_c a (v_b a Va)))) as Pa. pose proof (s_p c (c_s c (b_c c (v_b c Vc)))) as Pc.
  destruct (compose_vinv hp a c uid hp' d Va Vc H) as (Vd & Hb).
  destruct (compose_is_union hp a c uid hp' d Pa Pc H) as (_ & Hmem & _ & _).
  pose proof (compose_accepts_only_compatible hp a c uid hp' d Pc H) as Hlook.
  unfold carried. split.
  - intros (t & Ct & Ht). pose proof (Hb t Ct) as Hs. destruct (containsSimplex a t) eqn:Cta.
    + left. exists t. split; [exact Cta|]. intros z. rewrite <- (Hs z). apply Ht.
    + right. exists t. rewrite Hmem, Cta in Ct. split; [exact Ct|]. intros z. rewrite <- (Hs z). apply Ht.
  - intros [(t & Ct & Ht)|(t & Ct & Ht)].
    + assert (Cd : containsSimplex d t = true) by (rewrite Hmem, Ct; reflexivity).
      exists t. split; [exact Cd|]. pose proof (Hb t Cd) as Hs. rewrite Ct in Hs. intros z. rewrite (Hs z). apply Ht.
    + assert (Cd : containsSimplex d t = true) by (rewrite Hmem, Ct; apply orb_true_r).
      exists t. split; [exact Cd|]. pose proof (Hb t Cd) as Hs. destruct (containsSimplex a t) eqn:Cta.
      * pose proof (Hlook t Ct) as L. rewrite Cta in L. destruct (lookup_some a (basisOf c t) t Va L) as [_ Hk].
        intros z. rewrite (Hs z), (Hk z). apply Ht.
      * intros z. rewrite (Hs z). apply Ht.
Qed.
