(* Lookup.v -- looking a simplex up by its basis, and deleting by basis, in vertex sets. *)
From Coq Require Import String ZArith Bool Arith List Lia.
From SV Require Import Names NamesFacts ListFacts Rep Fresh Complex Atomic RepInv Reach Shapes Incidence AddEffect
                       Closed ClosedReach AddBasis BasisInv Duality DeleteEffect CopyFaithful VInv AwbSpec.
From SV Require Import VSets.
Import ListNotations.
Open Scope nat_scope.

(* simplexWithBasis(bs) on points of the complex (no repeats, not empty): the one simplex whose points
   are exactly bs, None exactly when there is none, never an exception *)
Theorem lookup_by_basis_exact r bs : vinv r -> pts r bs -> NoDup bs -> bs <> [] ->
  match c_simplexWithBasis r bs false with
  | Ok (Some s) => containsSimplex r s = true /\ sameset (basisOf r s) bs /\
                   forall t, containsSimplex r t = true -> sameset (basisOf r t) bs -> t = s
  | Ok None => forall t, containsSimplex r t = true -> ~ sameset (basisOf r t) bs
  | Raise _ => False
  end.
Proof.
  intros Hv Hp Hnd Hne. destruct (c_simplexWithBasis r bs false) as [[s|]|e] eqn:E.
  - destruct (lookup_some r bs s Hv E) as [Hc Hs]. split; auto. split; auto.
    intros t Ht Hst. apply (v_uniq r Hv); auto. intros z. rewrite (Hst z). symmetry. apply Hs.
  - now destruct (lookup_none r bs Hv Hp Hnd Hne E).
  - unfold c_simplexWithBasis, simplexWithBasis in E. fold (c_isBasis r bs false) in E.
    rewrite (proj2 (isBasis_true_iff r bs) Hp) in E.
    destruct bs as [|b [|b2 t]]; [contradiction|discriminate|].
    cbv zeta in E. destruct (r_nord r <=? _); [discriminate|]. destruct (find _ _); discriminate.
Qed.

(* deleteSimplexWithBasis(bs): the simplex on bs and everything on a superset of bs go *)
Theorem delete_by_basis_vertex_sets r bs r' x : vinv r -> pts r bs -> NoDup bs -> bs <> [] ->
  deleteSimplexWithBasis r bs = (r', x) ->
  (x = Ok tt -> vinv r' /\
     (forall t, containsSimplex r' t = true <-> containsSimplex r t = true /\ ~ incl bs (basisOf r t)) /\
     (forall t, containsSimplex r' t = true -> sameset (basisOf r' t) (basisOf r t))) /\
  ((exists s, containsSimplex r s = true /\ sameset (basisOf r s) bs) -> x = Ok tt).
Proof.
  intros Hv Hp Hnd Hne H. unfold deleteSimplexWithBasis in H.
  pose proof (lookup_by_basis_exact r bs Hv Hp Hnd Hne) as L.
  destruct (c_simplexWithBasis r bs false) as [[s|]|e]; [|injection H as <- <-|contradiction].
  - destruct L as (Hc & Hs & _). destruct (deleteSimplex_vertex_sets r s r' x Hv Hc H) as (Hx & Hv' & Hm & Hb).
    split; [|auto]. intros _. split; auto. split; auto.
    intros t. rewrite Hm. split; intros [Ht Hn]; split; auto; intros Hi; apply Hn; intros z Hz.
    + apply Hi. now apply Hs.
    + apply Hi. now apply Hs.
  - split; [discriminate|]. intros (s & Hc & Hs). exfalso. exact (L s Hc Hs).
Qed.
