(* MinCycle.v -- the minimal-cycle lemma (C11): in a complex that meets the vertex-set reading,
   k+3 distinct simplices of order k+1 whose mod-2 boundary vanishes (every (k)-simplex is a face
   of an even number of them) are the k+3 facets of ONE set of k+3 points.  This is what makes
   `_isClosed` a correct test in `_completePotentialSimplices`.  Plain Coq. *)
From Coq Require Import String ZArith Bool Arith List Lia.
From SV Require Import Names NamesFacts ListFacts Rep Fresh Complex Atomic RepInv Reach Shapes Incidence AddEffect
                       Closed ClosedReach AddBasis BasisInv Duality DeleteEffect VInv AwbSpec VSets DD.
Import ListNotations.
Open Scope nat_scope.

(* ---------- pigeonhole, both ways ---------- *)
Lemma pigeon_surj {A B} (Rb : A -> B -> bool) (l : list A) (m : list B) :
  NoDup l -> length m <= length l ->
  (forall x, In x l -> exists y, In y m /\ Rb x y = true) ->
  (forall x x' y, In x l -> In x' l -> Rb x y = true -> Rb x' y = true -> x = x') ->
  forall y, In y m -> exists x, In x l /\ Rb x y = true.
Proof.
  intros Hl Hlen Htot Hinj y Hy.
  destruct (existsb (fun x => Rb x y) l) eqn:E.
  - apply existsb_exists in E. exact E.
  - exfalso. apply in_split in Hy. destruct Hy as (m1 & m2 & ->).
    assert (length l <= length (m1 ++ m2)).
    { apply (pigeon (fun x y' => Rb x y' = true)); auto.
      intros x Hx. destruct (Htot x Hx) as (y' & Hy' & R'). exists y'. split; [|exact R'].
      apply in_app_or in Hy'. apply in_or_app. destruct Hy' as [H|[H|H]]; auto. subst y'.
      exfalso. assert (F : existsb (fun x0 => Rb x0 y) l = true) by (apply existsb_exists; eauto).
      congruence. }
    rewrite app_length in *. simpl in Hlen. lia.
Qed.

Lemma parity_app l1 l2 : parity (l1 ++ l2) = xorb (parity l1) (parity l2).
Proof. induction l1 as [|b t IH]; simpl; [now destruct (parity l2)|]. rewrite IH. now rewrite xorb_assoc. Qed.

Lemma parity_true_ex {A} (g : A -> bool) l : parity (map g l) = true -> exists x, In x l /\ g x = true.
Proof.
  induction l as [|a t IH]; simpl; [discriminate|]. intros H. destruct (g a) eqn:Ea; [exists a; auto|].
  assert (H' : parity (map g t) = true) by (destruct (parity (map g t)); auto).
  destruct (IH H') as (x & Hx & Gx). exists x. auto.
Qed.

Lemma parity_other {A} (g : A -> bool) (l : list A) f : NoDup l -> In f l -> g f = true ->
  parity (map g l) = false -> exists f', In f' l /\ f' <> f /\ g f' = true.
Proof.
  intros Hnd Hf Gf Hp. apply in_split in Hf. destruct Hf as (l1 & l2 & ->).
  rewrite map_app, parity_app in Hp. simpl in Hp. rewrite Gf in Hp.
  assert (Hq : parity (map g (l1 ++ l2)) = true).
  { rewrite map_app, parity_app. destruct (parity (map g l1)), (parity (map g l2)); simpl in *; congruence. }
  destruct (parity_true_ex g _ Hq) as (x & Hx & Gx). exists x. split; [|split; [|exact Gx]].
  - apply in_app_or in Hx. apply in_or_app. destruct Hx; [left|right; right]; auto.
  - intros ->. apply NoDup_remove_2 in Hnd. contradiction.
Qed.

Lemma two_missing (a b : list name) p q : NoDup a -> NoDup b -> incl a b -> In p b -> In q b -> p <> q ->
  ~ In p a -> ~ In q a -> length a + 2 <= length b.
Proof.
  intros Ha Hb Hi Hp Hq Hpq Np Nq.
  assert (H : length (p :: q :: a) <= length b).
  { apply NoDup_incl_length.
    - constructor; [intros [E|E]; [congruence|contradiction]|]. constructor; auto.
    - intros z [<-|[<-|Hz]]; auto. }
  simpl in H. lia.
Qed.

Lemma filter_neq_length (a : name) : forall l, NoDup l -> In a l ->
  length l = S (length (filter (fun x => negb (name_eqb a x)) l)).
Proof.
  assert (G : forall l, ~ In a l -> filter (fun x => negb (name_eqb a x)) l = l).
  { induction l as [|b l IHl]; intros Hn; simpl; auto.
    destruct (name_eqb a b) eqn:Eb; [apply name_eqb_eq in Eb; subst b; exfalso; apply Hn; now left|].
    simpl. f_equal. apply IHl. intros H. apply Hn. now right. }
  induction l as [|b t IH]; intros Hnd Ha; [destruct Ha|]. inversion Hnd as [|? ? Hb Ht]; subst.
  simpl. destruct (name_eqb a b) eqn:E; simpl.
  - apply name_eqb_eq in E. subst b. f_equal. now rewrite G.
  - f_equal. apply IH; auto. destruct Ha as [->|H]; auto. rewrite name_eqb_refl in E. discriminate.
Qed.

Lemma In_filter_neq (a x : name) l : In x (filter (fun y => negb (name_eqb a y)) l) <-> In x l /\ x <> a.
Proof.
  rewrite filter_In. split; intros [H1 H2]; split; auto.
  - intros ->. rewrite name_eqb_refl in H2. discriminate.
  - apply negb_true_iff. destruct (name_eqb a x) eqn:E; auto. apply name_eqb_eq in E. congruence.
Qed.

Lemma two_members (l : list name) : NoDup l -> 2 <= length l -> exists a b, In a l /\ In b l /\ b <> a.
Proof.
  destruct l as [|a [|b t]]; simpl; try lia. intros Hnd _. exists a, b. split; [now left|]. split; [right; now left|].
  intros ->. inversion Hnd as [|? ? Hn _]. apply Hn. now left.
Qed.

Lemma three_members (l : list name) : NoDup l -> 3 <= length l ->
  exists a b c, In a l /\ In b l /\ In c l /\ a <> b /\ a <> c /\ b <> c.
Proof.
  destruct l as [|a [|b [|c t]]]; simpl; try lia. intros Hnd _. exists a, b, c.
  inversion Hnd as [|? ? Ha Hnd']; subst. inversion Hnd' as [|? ? Hb _]; subst.
  split; [now left|]. split; [right; now left|]. split; [right; right; now left|].
  split; [intros ->; apply Ha; now left|]. split; [intros ->; apply Ha; right; now left|].
  intros ->. apply Hb. now left.
Qed.

Section MC.
  Variable r : rep.
  Hypothesis Hv : vinv r.
  Let HS : sinv r := c_s r (b_c r (v_b r Hv)).
  Let P : pinv r := s_p r HS.

  Variable k : nat.
  Variable fs : list name.
  Hypothesis Hnd : NoDup fs.
  Hypothesis Hlen : length fs = S (S (S k)).
  Hypothesis Hord : forall f, In f fs -> exists j, assoc f (r_simp r) = Some (S k, j).
  Hypothesis Hcl : forall w, parity (map (fun f => memn w (faces r f)) fs) = false.

  Lemma fs_contains f : In f fs -> containsSimplex r f = true.
  Proof. intros H. destruct (Hord f H) as (j & A). unfold containsSimplex. now rewrite A. Qed.

  Lemma fs_card f : In f fs -> length (basisOf r f) = S (S k).
  Proof. intros H. destruct (Hord f H) as (j & A). exact (v_card r Hv f (S k) j A). Qed.

  (* the face of f that drops p *)
  Lemma drop_face f p u : In f fs -> In u (faces r f) -> In p (basisOf r f) -> ~ In p (basisOf r u) ->
    forall z, In z (basisOf r u) <-> In z (basisOf r f) /\ z <> p.
  Proof.
    intros Hf Hu Hp Np. destruct (Hord f Hf) as (j & A).
    destruct (face_basis_char r Hv f k j u A Hu) as (p0 & Hp0 & C).
    assert (p0 = p). { destruct (name_eq_dec p0 p) as [E|E]; [exact E|]. exfalso. apply Np. apply C. split; auto. }
    subst p0. exact C.
  Qed.

  (* two members that both contain two different facets of a third are that third *)
  Lemma two_facets f f' u u' p p' : In f fs -> In f' fs ->
    In u (faces r f) -> In u' (faces r f) -> In p (basisOf r f) -> In p' (basisOf r f) ->
    ~ In p (basisOf r u) -> ~ In p' (basisOf r u') -> p <> p' ->
    In u (faces r f') -> In u' (faces r f') -> f = f'.
  Proof.
    intros Hf Hf' Hu Hu' Hp Hp' Np Np' Hpp Huf Huf'.
    apply (v_uniq r Hv); try now apply fs_contains.
    assert (Hi : incl (basisOf r f) (basisOf r f')).
    { intros z Hz. destruct (Hord f' Hf') as (j' & A').
      destruct (name_eq_dec z p) as [E|E].
      - subst z. apply (face_basis_sub r Hv f' k j' u' A' Huf').
        apply (drop_face f p' u' Hf Hu' Hp' Np'). split; auto.
      - apply (face_basis_sub r Hv f' k j' u A' Huf).
        apply (drop_face f p u Hf Hu Hp Np). split; auto. }
    intros z. split; [apply Hi|].
    apply NoDup_length_incl; auto; [apply basis_nodup; exact P|]. rewrite (fs_card f Hf), (fs_card f' Hf'). lia.
  Qed.

  Section Base.
    Variable f1 : name.
    Hypothesis Hf1 : In f1 fs.
    Let others := filter (fun x => negb (name_eqb f1 x)) fs.
    Let Rb (p f' : name) : bool :=
      memn f' others &&
      existsb (fun u => negb (memn p (basisOf r u)) && memn u (faces r f')) (faces r f1).

    Lemma In_others x : In x others <-> In x fs /\ x <> f1.
    Proof.
      unfold others. rewrite filter_In. split; intros [H1 H2]; split; auto.
      - intros ->. rewrite name_eqb_refl in H2. discriminate.
      - apply negb_true_iff. destruct (name_eqb f1 x) eqn:E; auto. apply name_eqb_eq in E. congruence.
    Qed.

    Lemma Rb_spec p f' : Rb p f' = true <->
      In f' others /\ exists u, In u (faces r f1) /\ ~ In p (basisOf r u) /\ In u (faces r f').
    Proof.
      unfold Rb. rewrite andb_true_iff, memn_In, existsb_exists.
      split; intros (Ho & u & Hu & H); (split; [exact Ho|]); exists u; split; auto.
      - apply andb_prop in H. destruct H as [H1 H2]. apply negb_true_iff in H1. apply memn_In in H2. split; auto.
        intros Hin. apply memn_In in Hin. congruence.
      - destruct H as [H1 H2]. apply andb_true_intro. split; [|now apply memn_In].
        apply negb_true_iff. destruct (memn p (basisOf r u)) eqn:E; auto. apply memn_In in E. contradiction.
    Qed.

    Lemma others_nodup : NoDup others.
    Proof. unfold others. now apply NoDup_filter. Qed.

    Lemma others_length : length others = S (S k).
    Proof. pose proof (filter_neq_length f1 fs Hnd Hf1) as H. fold others in H. lia. Qed.

    Lemma Rb_total p : In p (basisOf r f1) -> exists f', In f' others /\ Rb p f' = true.
    Proof.
      intros Hp. destruct (Hord f1 Hf1) as (j & A).
      destruct (every_point_dropped r Hv f1 k j p A Hp) as (u & Hu & Np).
      destruct (parity_other (fun f => memn u (faces r f)) fs f1 Hnd Hf1) as (f' & Hf' & Ne & Hm).
      - now apply memn_In.
      - apply Hcl.
      - assert (Ho : In f' others) by (apply In_others; auto).
        exists f'. split; [exact Ho|]. apply Rb_spec. split; [exact Ho|]. exists u. split; auto. split; auto. now apply memn_In.
    Qed.

    Lemma Rb_inj p p' f' : In p (basisOf r f1) -> In p' (basisOf r f1) ->
      Rb p f' = true -> Rb p' f' = true -> p = p'.
    Proof.
      intros Hp Hp' R1 R2. apply Rb_spec in R1, R2.
      destruct R1 as (Hf' & u & Hu & Np & Huf). destruct R2 as (_ & u' & Hu' & Np' & Huf').
      destruct (name_eq_dec p p') as [E|E]; [exact E|]. exfalso.
      apply In_others in Hf'. destruct Hf' as [Hf' Ne]. apply Ne. symmetry.
      eapply (two_facets f1 f' u u' p p'); eauto.
    Qed.

    (* every other member shares a facet with f1 *)
    Lemma Rb_surj f' : In f' others -> exists p, In p (basisOf r f1) /\ Rb p f' = true.
    Proof.
      intros Hf'. apply (pigeon_surj Rb (basisOf r f1) others); auto.
      - apply basis_nodup; exact P.
      - rewrite others_length, (fs_card f1 Hf1). lia.
      - apply Rb_total.
      - intros x x' y Hx Hx' R1 R2. eapply Rb_inj; eauto.
    Qed.

    (* a facet of f1 lies in exactly one other member *)
    Lemma Rb_fun p f' f'' : In p (basisOf r f1) -> Rb p f' = true -> Rb p f'' = true -> f' = f''.
    Proof.
      intros Hp R1 R2. destruct (name_eq_dec f' f'') as [E|E]; [exact E|]. exfalso.
      pose proof (proj1 (Rb_spec p f') R1) as [Ho1 _]. pose proof (proj1 (Rb_spec p f'') R2) as [Ho2 _].
      set (l' := filter (fun x => negb (name_eqb p x)) (basisOf r f1)).
      set (m' := filter (fun x => negb (name_eqb f' x)) others).
      assert (Hl : length (basisOf r f1) = S (length l')) by (apply filter_neq_length; auto; apply basis_nodup; exact P).
      assert (Hm : length others = S (length m')) by (apply filter_neq_length; auto; apply others_nodup).
      destruct (pigeon_surj Rb l' m') with (y := f'') as (x & Hx & Rx).
      - apply NoDup_filter. apply basis_nodup; exact P.
      - rewrite others_length in Hm. rewrite (fs_card f1 Hf1) in Hl. lia.
      - intros x Hx. apply In_filter_neq in Hx. destruct Hx as [Hx Nx].
        destruct (Rb_total x Hx) as (y & Hy & Ry). exists y. split; [|exact Ry].
        apply In_filter_neq. split; [exact Hy|]. intros ->. apply Nx. eapply Rb_inj; eauto.
      - intros x x' y Hx Hx' Rx Rx'. apply In_filter_neq in Hx, Hx'. eapply Rb_inj; [| |exact Rx|exact Rx']; tauto.
      - apply In_filter_neq. split; auto.
      - apply In_filter_neq in Hx. destruct Hx as [Hx Nx]. apply Nx. eapply Rb_inj; eauto.
    Qed.

    (* the shape of another member that shares the facet dropping p *)
    Lemma other_shape p f' : In p (basisOf r f1) -> Rb p f' = true ->
      exists y, In y (basisOf r f') /\ ~ In y (basisOf r f1) /\
                forall z, In z (basisOf r f') <-> z = y \/ (In z (basisOf r f1) /\ z <> p).
    Proof.
      intros Hp R. apply Rb_spec in R. destruct R as (Ho & u & Hu & Np & Huf).
      apply In_others in Ho. destruct Ho as [Hf' Ne].
      destruct (Hord f' Hf') as (j' & A').
      destruct (face_basis_char r Hv f' k j' u A' Huf) as (y & Hy & Cy).
      pose proof (drop_face f1 p u Hf1 Hu Hp Np) as Cu.
      assert (Ny : ~ In y (basisOf r f1)).
      { intros Hin. apply Ne. symmetry. apply (v_uniq r Hv); try now apply fs_contains.
        assert (Hi : incl (basisOf r f') (basisOf r f1)).
        { intros z Hz. destruct (name_eq_dec z y) as [->|Nz]; [exact Hin|].
          assert (Hzu : In z (basisOf r u)) by (apply Cy; auto). apply Cu in Hzu. tauto. }
        intros z. split; [|apply Hi].
        apply NoDup_length_incl; auto; [apply basis_nodup; exact P|]. rewrite (fs_card f1 Hf1), (fs_card f' Hf'). lia. }
      exists y. split; [exact Hy|]. split; [exact Ny|]. intros z. split.
      - intros Hz. destruct (name_eq_dec z y) as [->|Nz]; [now left|]. right. apply Cu. apply Cy. auto.
      - intros [->|Hz]; [exact Hy|]. apply Cu in Hz. apply Cy in Hz. tauto.
    Qed.
  End Base.

  (* any two members share a facet *)
  Lemma share f f' : In f fs -> In f' fs -> f <> f' -> exists w, In w (faces r f) /\ In w (faces r f').
  Proof.
    intros Hf Hf' Ne. destruct (Rb_surj f Hf f') as (p & Hp & R).
    - apply In_filter_neq. auto.
    - apply (Rb_spec f) in R. destruct R as (_ & u & Hu & _ & Hu2). eauto.
  Qed.

  Theorem min_cycle : exists B, NoDup B /\ length B = S (S (S k)) /\
     (forall f, In f fs -> incl (basisOf r f) B) /\
     (forall p, In p B -> exists f, In f fs /\ In p (basisOf r f)).
  Proof.
    destruct (two_members fs Hnd) as (f1 & f2 & Hf1 & Hf2 & N12); [lia|].
    destruct (Rb_surj f1 Hf1 f2) as (p2 & Hp2 & R2); [apply In_filter_neq; auto|].
    destruct (other_shape f1 Hf1 p2 f2 Hp2 R2) as (y & Hy & Ny & C2).
    exists (y :: basisOf r f1).
    assert (Hall : forall f, In f fs -> incl (basisOf r f) (y :: basisOf r f1)).
    { intros f3 Hf3 z Hz.
      destruct (name_eq_dec f3 f1) as [->|N31]; [now right|].
      destruct (name_eq_dec f3 f2) as [->|N32]; [apply C2 in Hz; destruct Hz as [->|[Hz _]]; [now left|now right]|].
      destruct (Rb_surj f1 Hf1 f3) as (p3 & Hp3 & R3); [apply In_filter_neq; auto|].
      destruct (other_shape f1 Hf1 p3 f3 Hp3 R3) as (q & Hq & Nq & C3).
      assert (N23 : p2 <> p3). { intros ->. apply N32. symmetry. eapply (Rb_fun f1 Hf1 p3); eauto. }
      destruct (name_eq_dec q y) as [->|Nqy]; [apply C3 in Hz; destruct Hz as [->|[Hz _]]; [now left|now right]|].
      exfalso.
      destruct (share f2 f3 Hf2 Hf3) as (w & Hw2 & Hw3); [congruence|].
      destruct (Hord f2 Hf2) as (j2 & A2). destruct (Hord f3 Hf3) as (j3 & A3).
      destruct (face_is_simplex r HS f2 w k j2 A2 Hw2) as (iw & Aw).
      pose proof (v_card r Hv w k iw Aw) as Lw.
      pose proof (face_basis_sub r Hv f2 k j2 w A2 Hw2) as S2.
      pose proof (face_basis_sub r Hv f3 k j3 w A3 Hw3) as S3.
      assert (Hin : forall z0, In z0 (basisOf r w) -> In z0 (basisOf r f1) /\ z0 <> p2 /\ z0 <> p3).
      { intros z0 Hz0. pose proof (S2 z0 Hz0) as H2. pose proof (S3 z0 Hz0) as H3.
        apply C2 in H2. apply C3 in H3.
        destruct H2 as [->|[H2 H2']].
        - destruct H3 as [E|[H3 _]]; [congruence|contradiction].
        - destruct H3 as [->|[_ H3']]; [contradiction|]. auto. }
      assert (L : length (basisOf r w) + 2 <= length (basisOf r f1)).
      { apply (two_missing _ _ p2 p3); auto; try (apply basis_nodup; exact P).
        - intros z0 Hz0. apply Hin in Hz0. tauto.
        - intros H. apply Hin in H. tauto.
        - intros H. apply Hin in H. tauto. }
      rewrite Lw, (fs_card f1 Hf1) in L. lia. }
    split; [constructor; [exact Ny | apply basis_nodup; exact P]|].
    split; [simpl; now rewrite (fs_card f1 Hf1)|].
    split; [exact Hall|].
    intros p [<-|Hp]; [exists f2; auto | exists f1; auto].
  Qed.
  (* seen from the common point set B, every member misses exactly one point, and different
     members miss different points; so any two points of B lie together in some member *)
  Section Cover.
    Variable B : list name.
    Hypothesis HB : NoDup B.
    Hypothesis LB : length B = S (S (S k)).
    Hypothesis IB : forall f, In f fs -> incl (basisOf r f) B.

    Lemma missed f : In f fs -> exists m, In m B /\ forall x, In x (basisOf r f) <-> In x B /\ x <> m.
    Proof.
      intros Hf. destruct (one_short (basisOf r f) B) as (m & Hm & Nm & Hall); auto.
      - apply basis_nodup; exact P.
      - rewrite (fs_card f Hf). exact LB.
      - exists m. split; [exact Hm|]. intros x. split.
        + intros Hx. split; [now apply (IB f Hf)|]. intros ->. contradiction.
        + intros [Hx Nx]. destruct (Hall x Hx); [contradiction|assumption].
    Qed.

    Lemma same_missed f f' m : In f fs -> In f' fs ->
      (forall x, In x (basisOf r f) <-> In x B /\ x <> m) -> (forall x, In x (basisOf r f') <-> In x B /\ x <> m) -> f = f'.
    Proof.
      intros Hf Hf' C C'. apply (v_uniq r Hv); try now apply fs_contains.
      intros x. rewrite C, C'. tauto.
    Qed.

    Lemma pair_covered p q : In p B -> In q B -> exists f, In f fs /\ In p (basisOf r f) /\ In q (basisOf r f).
    Proof.
      intros Hp Hq. destruct (three_members fs Hnd) as (fa & fb & fc & Ha & Hb & Hc & Nab & Nac & Nbc); [lia|].
      assert (T : forall f, In f fs -> (In p (basisOf r f) /\ In q (basisOf r f)) \/
                   (forall x, In x (basisOf r f) <-> In x B /\ x <> p) \/
                   (forall x, In x (basisOf r f) <-> In x B /\ x <> q)).
      { intros f Hf. destruct (missed f Hf) as (m & Hm & C).
        destruct (name_eq_dec m p) as [->|Np]; [right; left; exact C|].
        destruct (name_eq_dec m q) as [->|Nq]; [right; right; exact C|].
        left. split; apply C; auto. }
      destruct (T fa Ha) as [Ga|Ga]; [exists fa; tauto|].
      destruct (T fb Hb) as [Gb|Gb]; [exists fb; tauto|].
      destruct (T fc Hc) as [Gc|Gc]; [exists fc; tauto|].
      exfalso.
      destruct Ga as [Ga|Ga], Gb as [Gb|Gb], Gc as [Gc|Gc];
        first [ apply Nab; eapply same_missed; eauto; fail
              | apply Nac; eapply same_missed; eauto; fail
              | apply Nbc; eapply same_missed; eauto; fail ].
    Qed.
    (* every point of B is the one some member misses *)
    Lemma every_point_missed m : In m B -> exists f, In f fs /\ forall x, In x (basisOf r f) <-> In x B /\ x <> m.
    Proof.
      intros Hm.
      set (Rb := fun (f m0 : name) => negb (memn m0 (basisOf r f)) && memn m0 B).
      assert (Rs : forall f m0, In f fs -> Rb f m0 = true -> forall x, In x (basisOf r f) <-> In x B /\ x <> m0).
      { intros f m0 Hf R. unfold Rb in R. apply andb_prop in R. destruct R as [R1 R2].
        apply negb_true_iff in R1. apply memn_In in R2.
        destruct (missed f Hf) as (m1 & Hm1 & C).
        destruct (name_eq_dec m1 m0) as [->|Ne]; [exact C|]. exfalso.
        assert (In m0 (basisOf r f)) by (apply C; auto). apply memn_In in H. congruence. }
      destruct (pigeon_surj Rb fs B Hnd) with (y := m) as (f & Hf & R); auto.
      - rewrite LB, Hlen. lia.
      - intros f Hf. destruct (missed f Hf) as (m1 & Hm1 & C). exists m1. split; [exact Hm1|].
        unfold Rb. apply andb_true_intro. split; [|now apply memn_In].
        apply negb_true_iff. destruct (memn m1 (basisOf r f)) eqn:E; auto. apply memn_In in E. apply C in E. tauto.
      - intros f f' y Hf Hf' R R'. eapply same_missed; eauto.
      - exists f. split; [exact Hf|]. now apply Rs.
    Qed.

    (* a simplex sitting on B has exactly the members as its faces *)
    Lemma facets_in_fs t j : assoc t (r_simp r) = Some (S (S k), j) -> sameset (basisOf r t) B ->
      forall u, In u (faces r t) -> In u fs.
    Proof.
      intros At Ss u Hu. destruct (face_basis_char r Hv t (S k) j u At Hu) as (p & Hp & C).
      destruct (every_point_missed p) as (f & Hf & Cf); [now apply Ss|].
      assert (u = f); [|now subst].
      apply (v_uniq r Hv).
      - destruct (face_is_simplex r HS t u (S k) j At Hu) as (i & Au). unfold containsSimplex. now rewrite Au.
      - now apply fs_contains.
      - intros x. rewrite C, Cf. rewrite (Ss x). tauto.
    Qed.

    Lemma faces_sameset_fs t j : assoc t (r_simp r) = Some (S (S k), j) -> sameset (basisOf r t) B ->
      sameset (faces r t) fs.
    Proof.
      intros At Ss x. split; [apply (facets_in_fs t j At Ss)|].
      apply NoDup_length_incl; [apply faces_nodup; exact P| |intros u Hu; eapply facets_in_fs; eauto].
      rewrite (c_f r (b_c r (v_b r Hv)) t (S k) j At), Hlen. lia.
    Qed.
  End Cover.
End MC.
