(* ListFacts.v -- facts about the list helpers of Names.v (set_nth, upd_nth, remove_nth) and
   nth / nth_error.  Plain Coq. *)
From Coq Require Import String ZArith Bool Arith List Lia.
From SV Require Import Names.
Import ListNotations.
Open Scope nat_scope.

Lemma length_set_nth {A} (i : nat) (x : A) (l : list A) : length (set_nth i x l) = length l.
Proof. revert i; induction l as [|h t IH]; intros [|i]; simpl; auto. Qed.

Lemma nth_set_nth {A} (d : A) (l : list A) : forall i k x,
  nth k (set_nth i x l) d = if (k =? i) && (i <? length l) then x else nth k l d.
Proof.
  induction l as [|h t IH]; intros [|i] [|k] x; simpl; auto.
  - destruct (k =? i); reflexivity.
  - rewrite IH. reflexivity.
Qed.

Lemma set_nth_nil {A} (i : nat) (x : A) : set_nth i x [] = [].
Proof. destruct i; reflexivity. Qed.

Lemma nth_error_set_nth {A} (l : list A) : forall i k x,
  nth_error (set_nth i x l) k = if (k =? i) && (i <? length l) then Some x else nth_error l k.
Proof.
  induction l as [|h t IH]; intros [|i] [|k] x; simpl; auto.
  - destruct (k =? i); reflexivity.
  - rewrite IH. reflexivity.
Qed.

Lemma length_upd_nth {A} i (f : A -> A) d l : length (upd_nth i f d l) = length l.
Proof. unfold upd_nth. apply length_set_nth. Qed.

Lemma nth_upd_nth {A} (d : A) l i k f :
  nth k (upd_nth i f d l) d = if (k =? i) && (i <? length l) then f (nth i l d) else nth k l d.
Proof. unfold upd_nth. apply nth_set_nth. Qed.

Lemma nth_upd_nth_same {A} (d : A) l i f : i < length l -> nth i (upd_nth i f d l) d = f (nth i l d).
Proof. intros H. rewrite nth_upd_nth, Nat.eqb_refl. apply Nat.ltb_lt in H. now rewrite H. Qed.

Lemma nth_upd_nth_other {A} (d : A) l i k f : k <> i -> nth k (upd_nth i f d l) d = nth k l d.
Proof. intros H. rewrite nth_upd_nth. apply Nat.eqb_neq in H. now rewrite H. Qed.

Lemma length_remove_nth {A} (l : list A) : forall i, i < length l -> length (remove_nth i l) = length l - 1.
Proof.
  induction l as [|h t IH]; intros [|i] H; simpl in *; try lia.
  rewrite IH by lia. destruct t; simpl in *; lia.
Qed.

Lemma remove_nth_overflow {A} (l : list A) : forall i, length l <= i -> remove_nth i l = l.
Proof. induction l as [|h t IH]; intros [|i] H; simpl in *; auto; try lia. f_equal. apply IH. lia. Qed.

Lemma nth_error_remove_nth {A} (l : list A) : forall i j,
  nth_error (remove_nth i l) j = if j <? i then nth_error l j else nth_error l (S j).
Proof.
  induction l as [|h t IH]; intros [|i] [|j]; simpl; try reflexivity.
  all: try (destruct (j <? i); destruct j; reflexivity).
  all: try (rewrite IH; reflexivity).
  all: try (destruct (S j <? S i); reflexivity).
Qed.

Lemma nth_remove_nth {A} (d : A) (l : list A) : forall i j,
  nth j (remove_nth i l) d = if j <? i then nth j l d else nth (S j) l d.
Proof.
  induction l as [|h t IH]; intros [|i] [|j]; simpl; try reflexivity.
  all: try (destruct (j <? i); destruct j; reflexivity).
  all: try (rewrite IH; reflexivity).
  all: try (destruct (S j <? S i); reflexivity).
Qed.

Lemma nth_error_snoc {A} (l : list A) x j :
  nth_error (l ++ [x]) j = if j <? length l then nth_error l j else if j =? length l then Some x else None.
Proof.
  destruct (j <? length l) eqn:E.
  - apply Nat.ltb_lt in E. now rewrite nth_error_app1.
  - apply Nat.ltb_ge in E. rewrite nth_error_app2 by lia.
    destruct (j =? length l) eqn:E2.
    + apply Nat.eqb_eq in E2. subst. now rewrite Nat.sub_diag.
    + apply Nat.eqb_neq in E2. destruct (j - length l) as [|n] eqn:E3; [lia|]. simpl. now destruct n.
Qed.

Lemma nth_error_nth' {A} (l : list A) d i x : nth_error l i = Some x -> nth i l d = x.
Proof. intros H. now apply nth_error_nth. Qed.

Lemma nth_error_In' {A} (l : list A) x : In x l <-> exists i, nth_error l i = Some x.
Proof. split; [apply In_nth_error | intros [i H]; eapply nth_error_In; eauto]. Qed.

Lemma NoDup_nth_error_inj {A} (l : list A) i j x :
  NoDup l -> nth_error l i = Some x -> nth_error l j = Some x -> i = j.
Proof.
  intros Hnd Hi Hj. rewrite NoDup_nth_error in Hnd. apply Hnd.
  - apply nth_error_Some. congruence.
  - congruence.
Qed.
