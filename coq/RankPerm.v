(* RankPerm.v -- the GF(2) rank of a 0/1 matrix does not change when its rows and columns are re-indexed by
   bijections of the index ranges (mathcomp permutations built from injective functions on ordinals). *)
From mathcomp Require Import all_ssreflect all_fingroup all_algebra.
From Coq Require Import Lia.
From SV Require Import Names Rep Complex Homology ListMat Rank.
Set Implicit Arguments.
Unset Strict Implicit.
Unset Printing Implicit Defensive.
Import GRing.Theory.
Local Open Scope ring_scope.

Lemma rank_reindex_rows m n (g : nat -> nat -> bool) (sg : nat -> nat) :
  (forall i, (i < m)%N -> (sg i < m)%N) ->
  (forall i i', (i < m)%N -> (i' < m)%N -> sg i = sg i' -> i = i') ->
  \rank (mxf m n (fun i j => g (sg i) j)) = \rank (mxf m n g).
Proof.
case: m => [|m] Hb Hi; first by rewrite (flatmx0 (mxf 0 n g)) (flatmx0 (mxf 0 n _)).
pose s' (i : 'I_m.+1) : 'I_m.+1 := inord (sg i).
have s'_inj : injective s'.
  move=> i i' E. apply: val_inj. apply: Hi; try exact: ltn_ord.
  have := congr1 val E. by rewrite /s' /= !inordK ?Hb ?ltn_ord.
pose s := perm s'_inj.
apply: (@rank_rows_perm _ _ _ _ s) => k.
by apply/rowP => j; rewrite !mxE permE /s' inordK ?Hb.
Qed.

Lemma rank_reindex_cols m n (g : nat -> nat -> bool) (tau : nat -> nat) :
  (forall j, (j < n)%N -> (tau j < n)%N) ->
  (forall j j', (j < n)%N -> (j' < n)%N -> tau j = tau j' -> j = j') ->
  \rank (mxf m n (fun i j => g i (tau j))) = \rank (mxf m n g).
Proof.
case: n => [|n] Hb Hi; first by rewrite (thinmx0 (mxf m 0 g)) (thinmx0 (mxf m 0 _)).
pose t' (j : 'I_n.+1) : 'I_n.+1 := inord (tau j).
have t'_inj : injective t'.
  move=> j j' E. apply: val_inj. apply: Hi; try exact: ltn_ord.
  have := congr1 val E. by rewrite /t' /= !inordK ?Hb ?ltn_ord.
pose t := perm t'_inj.
apply: (@rank_cols_perm _ _ _ _ t) => k.
by apply/colP => i; rewrite !mxE permE /t' inordK ?Hb.
Qed.

Theorem rank_reindex m n (f g : nat -> nat -> bool) (sg tau : nat -> nat) :
  (forall i, (i < m)%N -> (sg i < m)%N) ->
  (forall i i', (i < m)%N -> (i' < m)%N -> sg i = sg i' -> i = i') ->
  (forall j, (j < n)%N -> (tau j < n)%N) ->
  (forall j j', (j < n)%N -> (j' < n)%N -> tau j = tau j' -> j = j') ->
  (forall i j, (i < m)%N -> (j < n)%N -> f i j = g (sg i) (tau j)) ->
  \rank (mxf m n f) = \rank (mxf m n g).
Proof.
move=> Hs Is Ht It E.
rewrite (@mxf_ext m n f (fun i j => g (sg i) (tau j))) //.
rewrite (@rank_reindex_cols m n (fun i j => g (sg i) j) tau Ht It).
exact: rank_reindex_rows.
Qed.
