(* Shapes.v -- the boundary and basis matrices keep the shapes the listings dictate, over every
   history: bnd[k] is len(idx[k-1]) x len(idx[k]), bas[k] is len(idx[0]) x len(idx[k]), every
   column has as many entries as the matrix has rows (C03).  Plain Coq. *)
From Coq Require Import String ZArith Bool Arith List Lia.
From SV Require Import Names NamesFacts ListFacts Rep Fresh Complex Atomic RepInv.
Import ListNotations.
Open Scope nat_scope.

(* ---------- a successful addSimplex, as one equation ---------- *)
Definition add_struct (r2 : rep) (k : nat) : rep :=
  let rg := if r_nord r2 <=? k
            then let idx' := r_idx r2 ++ [[]] in
                 let prev := match k with 0 => last idx' [] | S k' => nth k' idx' [] end in
                 set_struct r2 (S k) idx' (r_bnd r2 ++ [zeros (length prev) 0])
                            (r_bas r2 ++ [zeros (length (nth 0 idx' [])) 0])
            else r2 in
  if S k <? r_nord rg
  then set_struct rg (r_nord rg) (r_idx rg) (upd_nth (S k) app_zero_row emptymat (r_bnd rg)) (r_bas rg)
  else rg.

Definition add_final (r : rep) (fs : list name) (id : name) (h : handle) (k : nat) : rep :=
  match k with
  | 0 =>
      let idx' := upd_nth 0 (fun l => l ++ [id]) [] (r_idx r) in
      let si := length (nth 0 idx' []) - 1 in
      let bas1 := if 1 <? r_nord r
                  then map (fun p => if (0 <? fst p) && (fst p <? r_nord r)
                                     then app_zero_row (snd p) else snd p)
                           (combine (seq 0 (length (r_bas r))) (r_bas r))
                  else r_bas r in
      let b0 := nth 0 bas1 emptymat in
      let b0' := if nrows b0 =? 0 then mkMat 1 [[true]]
                 else mkMat (S (nrows b0))
                            (map (fun c => c ++ [false]) (mcols b0) ++ [repeat false si ++ [true]]) in
      mkRep (r_uid r) (r_nord r) (r_simp r ++ [(id, (0, si))]) idx' (r_bnd r)
            (set_nth 0 b0' bas1) (r_attr r ++ [(id, h)]) (r_seq r) (r_nalloc r)
  | S k' =>
      let bs := flat_map (basisOf r) fs in
      let idx' := upd_nth k (fun l => l ++ [id]) [] (r_idx r) in
      let si := length (nth k idx' []) - 1 in
      mkRep (r_uid r) (r_nord r) (r_simp r ++ [(id, (k, si))]) idx'
            (upd_nth k (fun m => app_col m (mark (idxk r k') fs)) emptymat (r_bnd r))
            (upd_nth k (fun m => app_col m (mark (idxk r 0) bs)) emptymat (r_bas r))
            (r_attr r ++ [(id, h)]) (r_seq r) (r_nalloc r)
  end.

Lemma addSimplex_eq r fs id attr r' n :
  addSimplex r fs id attr = (r', Ok n) ->
  exists r2 h, same_obs r r2 /\ length fs - 1 <= r_nord r2 /\ r' = add_final (add_struct r2 (length fs - 1)) fs n h (length fs - 1).
Proof.
  unfold addSimplex. intros H.
  destruct ((length fs - 1 =? 0) && negb (length fs =? 0)) eqn:E0; [discriminate|].
  set (X := match id with
            | None => newSimplex r (length fs - 1)
            | Some n => if containsSimplex r n then (r, Raise KeyError) else (r, Ok n)
            end) in H.
  assert (Hid : (exists r1 m, X = (r1, Ok m) /\ same_obs r r1) \/ exists r1 e, X = (r1, Raise e)).
  { unfold X. destruct id as [m|].
    - destruct (containsSimplex r m) eqn:C; [right; eauto | left; exists r, m; split; [reflexivity | apply same_obs_refl]].
    - destruct (newSimplex_fresh r (length fs - 1)) as (i & m & Hn & _).
      left. exists (set_seq r (S i)), m. split; [exact Hn | apply same_obs_set_seq]. }
  destruct Hid as [(r1 & m & Hid & Hs1) | (r1 & e & Hid)]; rewrite Hid in H; [|discriminate].
  assert (Hs2 : same_obs r (fst (match attr with Some h => (r1, h) | None => alloc r1 end))).
  { destruct attr; simpl; [auto|]. eapply same_obs_trans; [exact Hs1 | apply same_obs_alloc]. }
  destruct (match attr with Some h => (r1, h) | None => alloc r1 end) as [r2 h] eqn:Ea. simpl in Hs2.
  destruct (negb (nodupb fs)); [discriminate|].
  destruct (check_faces r2 (length fs - 1) fs) as [[]|e1] eqn:Ec; [|discriminate].
  exists r2, h. split; [exact Hs2|]. unfold add_struct.
  destruct (r_nord r2 <=? length fs - 1) eqn:E1.
  - destruct (r_nord r2 <? length fs - 1) eqn:E2; [discriminate|].
    apply Nat.leb_le in E1. apply Nat.ltb_ge in E2. split; [lia|].
    destruct (length fs - 1) as [|k'] eqn:Ek; cbn [fst snd] in H.
    + simpl in H. inversion H; subst. reflexivity.
    + simpl r_nord in H. rewrite Nat.ltb_irrefl in H. inversion H; subst. simpl r_nord. rewrite Nat.ltb_irrefl. reflexivity.
  - apply Nat.leb_gt in E1. split; [lia|].
    destruct (0 <? length fs - 1).
    + destruct (simplexWithFaces r2 fs) as [[sw|]|e2]; try discriminate.
      destruct (length fs - 1) as [|k'] eqn:Ek; cbn [fst snd] in H; destruct (S _ <? _) in *; inversion H; subst; reflexivity.
    + destruct (length fs - 1) as [|k'] eqn:Ek; cbn [fst snd] in H; destruct (S _ <? _) in *; inversion H; subst; reflexivity.
Qed.

(* ---------- shapes ---------- *)
Definition mat_ok (m : mat) : Prop := Forall (fun c => length c = nrows m) (mcols m).
Definition dims (m : mat) (nr nc : nat) : Prop := mat_ok m /\ nrows m = nr /\ ncols m = nc.

Lemma dims_zeros a b : dims (zeros a b) a b.
Proof.
  unfold dims, mat_ok, zeros, ncols. simpl. repeat split.
  - apply Forall_forall. intros c Hc. apply repeat_spec in Hc. subst. apply repeat_length.
  - apply repeat_length.
Qed.
Lemma dims_app_col m nr nc col : dims m nr nc -> length col = nr -> dims (app_col m col) nr (S nc).
Proof.
  intros (H1 & H2 & H3) Hc. unfold dims, mat_ok, app_col, ncols in *. simpl. repeat split; auto.
  - apply Forall_app. split; auto. constructor; [congruence | constructor].
  - rewrite app_length. simpl. lia.
Qed.
Lemma dims_app_zero_row m nr nc : dims m nr nc -> dims (app_zero_row m) (S nr) nc.
Proof.
  intros (H1 & H2 & H3). unfold dims, mat_ok, app_zero_row, ncols in *. simpl. repeat split; auto.
  - apply Forall_forall. intros c Hc. apply in_map_iff in Hc. destruct Hc as [c0 [<- Hc0]].
    rewrite app_length. simpl. rewrite Forall_forall in H1. rewrite (H1 c0 Hc0). lia.
  - now rewrite map_length.
Qed.
Lemma dims_del_col m nr nc i : dims m nr nc -> i < nc -> dims (del_col i m) nr (nc - 1).
Proof.
  intros (H1 & H2 & H3) Hi. unfold dims, mat_ok, del_col, ncols in *. simpl. repeat split; auto.
  - rewrite Forall_forall in *. intros c Hc. apply H1. apply nth_error_In' in Hc. destruct Hc as [j Hj].
    rewrite nth_error_remove_nth in Hj. destruct (j <? i); eapply nth_error_In; eauto.
  - rewrite length_remove_nth by lia. lia.
Qed.
Lemma dims_del_row m nr nc i : dims m nr nc -> i < nr -> dims (del_row i m) (nr - 1) nc.
Proof.
  intros (H1 & H2 & H3) Hi. unfold dims, mat_ok, del_row, ncols in *. simpl. repeat split; auto.
  - apply Forall_forall. intros c Hc. apply in_map_iff in Hc. destruct Hc as [c0 [<- Hc0]].
    rewrite Forall_forall in H1. rewrite length_remove_nth by (rewrite (H1 c0 Hc0); lia). rewrite (H1 c0 Hc0). lia.
  - lia.
  - now rewrite map_length.
Qed.

Lemma length_mark names sel : length (mark names sel) = length names.
Proof. unfold mark. apply map_length. Qed.

Definition shape_k (r : rep) (k : nat) : Prop :=
  dims (bask r k) (length (idxk r 0)) (length (idxk r k)) /\
  (1 <= k -> dims (bndk r k) (length (idxk r (k - 1))) (length (idxk r k))).

Record sinv (r : rep) : Prop := mkSinv {
  s_p : pinv r;
  s_lb : length (r_bnd r) = r_nord r;
  s_ls : length (r_bas r) = r_nord r;
  s_sh : forall k, k < r_nord r -> shape_k r k }.

Lemma sinv_empty uid : sinv (empty_rep uid).
Proof. constructor; simpl; auto. apply pinv_empty. intros k H; lia. Qed.

Lemma sinv_same_obs r r' : same_obs r r' -> sinv r -> sinv r'.
Proof.
  intros Hs [P Lb Ls Sh]. pose proof Hs as (H1 & H2 & H3 & H4 & H5 & H6 & H7).
  constructor; [eapply pinv_same_obs; eauto | congruence | congruence |].
  intros k Hk. unfold shape_k, bask, bndk, idxk in *. rewrite H4, H5, H6. apply Sh. congruence.
Qed.

Lemma nth_snoc {A} (l : list A) x d k :
  nth k (l ++ [x]) d = if k <? length l then nth k l d else if k =? length l then x else d.
Proof.
  destruct (k <? length l) eqn:E.
  - apply Nat.ltb_lt in E. now rewrite app_nth1.
  - apply Nat.ltb_ge in E. rewrite app_nth2 by lia. destruct (k =? length l) eqn:E2.
    + apply Nat.eqb_eq in E2. subst. now rewrite Nat.sub_diag.
    + apply Nat.eqb_neq in E2. destruct (k - length l) as [|m] eqn:E3; [lia|]. simpl. now destruct m.
Qed.

(* relabelSimplex touches no matrix and no length *)
Theorem relabelSimplex_sinv r s q r' x : sinv r -> relabelSimplex r s q = (r', x) -> sinv r'.
Proof.
  intros Hinv H. pose proof Hinv as [P Lb Ls Sh].
  assert (HP : pinv r') by (eapply relabelSimplex_pinv; eauto).
  revert HP. destruct x as [[]|e]; intros HP.
  2: { apply relabelSimplex_atomic in H. destruct H as [-> _]. exact Hinv. }
  unfold relabelSimplex in H. destruct (containsSimplex r q); [discriminate|].
  destruct (assoc s (r_simp r)) as [[k i]|] eqn:As; [|discriminate]. injection H as <-.
  constructor; simpl; auto.
  intros k0 Hk0. specialize (Sh k0 Hk0). unfold shape_k, bask, bndk, idxk in *. simpl.
    assert (Hl : forall k1, length (nth k1 (upd_nth k (set_nth i q) [] (r_idx r)) []) = length (nth k1 (r_idx r) [])).
    { intros k1. rewrite nth_upd_nth. destruct ((k1 =? k) && (k <? length (r_idx r))) eqn:E; auto.
      apply andb_prop in E. destruct E as [E _]. apply Nat.eqb_eq in E. subst. apply length_set_nth. }
    rewrite !Hl. exact Sh.
Qed.

Lemma nth_map_default {A B} (f : A -> B) (l : list A) (d : A) (d' : B) k : k < length l -> nth k (map f l) d' = f (nth k l d).
Proof. intros H. rewrite (nth_indep _ d' (f d)) by (now rewrite map_length). apply map_nth. Qed.

Theorem forceDeleteSimplex_sinv r s r' x : sinv r -> forceDeleteSimplex r s = (r', x) -> sinv r'.
Proof.
  intros Hinv H. pose proof Hinv as [P Lb Ls Sh].
  assert (HP : pinv r') by (eapply forceDeleteSimplex_pinv; eauto).
  revert HP. destruct x as [[]|e]; intros HP.
  2: { apply forceDeleteSimplex_atomic in H. destruct H as [-> _]. exact Hinv. }
  unfold forceDeleteSimplex in H. destruct (assoc s (r_simp r)) as [[k i]|] eqn:As; [|discriminate].
  pose proof P as [K Pm St L].
  destruct (proj1 (Pm s k i) As) as [Hk Hnth].
  assert (Hi : i < length (idxk r k)) by (apply nth_error_Some; congruence).
  assert (Hkl : k < length (r_idx r)) by lia.
  set (idx' := upd_nth k (remove_nth i) [] (r_idx r)) in *.
  assert (Hidx : forall k0, length (nth k0 idx' []) = if k0 =? k then length (idxk r k) - 1 else length (idxk r k0)).
  { intros k0. unfold idx'. rewrite nth_upd_nth. apply Nat.ltb_lt in Hkl. rewrite Hkl, andb_true_r.
    destruct (k0 =? k); [|reflexivity]. now apply length_remove_nth. }
  set (bas1 := upd_nth k (del_col i) emptymat (r_bas r)) in *.
  set (bas2 := if k =? 0 then map (del_row i) bas1 else bas1) in *.
  set (bnd1 := if 0 <? k then upd_nth k (del_col i) emptymat (r_bnd r) else r_bnd r) in *.
  set (bnd2 := if S k <? r_nord r then upd_nth (S k) (del_row i) emptymat bnd1 else bnd1) in *.
  assert (Hlb1 : length bas1 = r_nord r) by (unfold bas1; now rewrite length_upd_nth).
  assert (Hlb2 : length bas2 = r_nord r) by (unfold bas2; destruct (k =? 0); [now rewrite map_length|auto]).
  assert (Hln1 : length bnd1 = r_nord r) by (unfold bnd1; destruct (0 <? k); [now rewrite length_upd_nth|auto]).
  assert (Hln2 : length bnd2 = r_nord r) by (unfold bnd2; destruct (S k <? r_nord r); [now rewrite length_upd_nth|auto]).
  (* the basis matrices *)
  assert (Hbas : forall k0, k0 < r_nord r ->
            dims (nth k0 bas2 emptymat) (length (nth 0 idx' [])) (length (nth k0 idx' []))).
  { intros k0 Hk0. destruct (Sh k0 Hk0) as [Hb _]. destruct (Sh k Hk) as [Hbk _].
    assert (Hb1 : dims (nth k0 bas1 emptymat) (length (idxk r 0)) (length (nth k0 idx' []))).
    { unfold bas1. rewrite nth_upd_nth, Hidx. rewrite Ls. apply Nat.ltb_lt in Hk. rewrite Hk, andb_true_r.
      destruct (k0 =? k) eqn:E; [|exact Hb]. apply dims_del_col; [exact Hbk | exact Hi]. }
    unfold bas2. destruct (k =? 0) eqn:E0.
    - apply Nat.eqb_eq in E0. rewrite (nth_map_default _ _ emptymat) by lia.
      rewrite (Hidx 0). rewrite E0 at 1. rewrite Nat.eqb_refl. rewrite E0 in *.
      apply dims_del_row; [exact Hb1 | exact Hi].
    - rewrite (Hidx 0). destruct (0 =? k) eqn:E1; [apply Nat.eqb_eq in E1; apply Nat.eqb_neq in E0; lia|]. exact Hb1. }
  (* the boundary matrices *)
  assert (Hbnd : forall k0, 1 <= k0 -> k0 < r_nord r ->
            dims (nth k0 bnd2 emptymat) (length (nth (k0 - 1) idx' [])) (length (nth k0 idx' []))).
  { intros k0 H1 Hk0. destruct (Sh k0 Hk0) as [_ Hn]. specialize (Hn H1).
    assert (Hn1 : nth k0 bnd1 emptymat = if (k0 =? k) then del_col i (bndk r k0) else bndk r k0).
    { unfold bnd1. destruct (0 <? k) eqn:E.
      - rewrite nth_upd_nth, Lb. apply Nat.ltb_lt in Hk. rewrite Hk, andb_true_r.
        destruct (k0 =? k) eqn:E2; [apply Nat.eqb_eq in E2; now subst | reflexivity].
      - apply Nat.ltb_ge in E. destruct (k0 =? k) eqn:E2; [apply Nat.eqb_eq in E2; lia | reflexivity]. }
    rewrite !Hidx. unfold bnd2.
    destruct (S k <? r_nord r) eqn:ES.
    - rewrite nth_upd_nth, Hln1. rewrite ES, andb_true_r.
      destruct (k0 =? S k) eqn:E3.
      + apply Nat.eqb_eq in E3. subst k0. replace (S k - 1) with k in * by lia. rewrite Nat.eqb_refl.
        rewrite Hn1.
        assert (E4 : (S k =? k) = false) by (apply Nat.eqb_neq; lia). rewrite !E4.
        apply dims_del_row; [exact Hn | exact Hi].
      + rewrite Hn1. apply Nat.eqb_neq in E3.
        destruct (k0 - 1 =? k) eqn:E5; [apply Nat.eqb_eq in E5; lia|].
        destruct (k0 =? k) eqn:E6; [|exact Hn]. apply Nat.eqb_eq in E6. subst k0. apply dims_del_col; [exact Hn | exact Hi].
    - apply Nat.ltb_ge in ES. rewrite Hn1.
      destruct (k0 - 1 =? k) eqn:E5; [apply Nat.eqb_eq in E5; lia|].
      destruct (k0 =? k) eqn:E6; [|exact Hn]. apply Nat.eqb_eq in E6. subst k0. apply dims_del_col; [exact Hn | exact Hi]. }
  destruct ((S k =? r_nord r) && (length (nth k idx' []) =? 0)) eqn:E; injection H as <-.
  - apply andb_prop in E. destruct E as [E1 _]. apply Nat.eqb_eq in E1.
    constructor; simpl; auto.
    + rewrite length_remove_nth by lia. lia.
    + rewrite length_remove_nth by lia. lia.
    + intros k0 Hk0. unfold shape_k, bask, bndk, idxk. simpl.
      rewrite !nth_remove_nth. replace (k0 <? k) with true by (symmetry; apply Nat.ltb_lt; lia).
      split; [apply Hbas; lia | intros H1; apply Hbnd; lia].
  - constructor; simpl; auto.
    intros k0 Hk0. unfold shape_k, bask, bndk, idxk. simpl. split; [now apply Hbas | intros H1; now apply Hbnd].
Qed.

(* ---------- addSimplex ---------- *)
Lemma nth_combine_seq {A} (l : list A) (d : A) : forall s k, k < length l ->
  nth k (combine (seq s (length l)) l) (0, d) = (s + k, nth k l d).
Proof.
  induction l as [|h t IH]; intros s [|k] Hk; simpl in *; try lia.
  - now rewrite Nat.add_0_r.
  - rewrite IH by lia. f_equal. lia.
Qed.

Definition add_struct_hi (r2 : rep) (k k' : nat) : rep :=
  let rg := if r_nord r2 <=? k
            then let idx' := r_idx r2 ++ [[]] in
                 set_struct r2 (S k) idx' (r_bnd r2 ++ [zeros (length (nth k' idx' [])) 0])
                            (r_bas r2 ++ [zeros (length (nth 0 idx' [])) 0])
            else r2 in
  if S k <? r_nord rg
  then set_struct rg (r_nord rg) (r_idx rg) (upd_nth (S k) app_zero_row emptymat (r_bnd rg)) (r_bas rg)
  else rg.
Definition add_final_hi (r : rep) (fs : list name) (id : name) (h : handle) (k k' : nat) : rep :=
  let bs := flat_map (basisOf r) fs in
  let idx' := upd_nth k (fun l => l ++ [id]) [] (r_idx r) in
  let si := length (nth k idx' []) - 1 in
  mkRep (r_uid r) (r_nord r) (r_simp r ++ [(id, (k, si))]) idx'
        (upd_nth k (fun m => app_col m (mark (idxk r k') fs)) emptymat (r_bnd r))
        (upd_nth k (fun m => app_col m (mark (idxk r 0) bs)) emptymat (r_bas r))
        (r_attr r ++ [(id, h)]) (r_seq r) (r_nalloc r).
Lemma add_hi_eq r2 fs id h k' :
  add_final (add_struct r2 (S k')) fs id h (S k') = add_final_hi (add_struct_hi r2 (S k') k') fs id h (S k') k'.
Proof. reflexivity. Qed.

Section AddShapes.
  Variables (r2 : rep) (fs : list name) (n : name) (h : handle).
  Hypothesis Hinv : sinv r2.

  Let P2 := s_p r2 Hinv.

  Lemma idxg_len k0 : length (nth k0 (r_idx r2 ++ [[]]) []) = length (idxk r2 k0).
  Proof. now rewrite nth_app_snoc_nil. Qed.

  (* adding a simplex of order k = S k' *)
  Lemma add_higher_sinv k k' : k = S k' -> k <= r_nord r2 ->
    pinv (add_final_hi (add_struct_hi r2 k k') fs n h k k') ->
    sinv (add_final_hi (add_struct_hi r2 k k') fs n h k k').
  Proof.
    intros Ek Hk HP. destruct Hinv as [P Lb Ls Sh]. pose proof P as [K Pm St L].
    unfold add_struct_hi in *.
    destruct (r_nord r2 <=? k) eqn:G.
    - (* a new order *)
      apply Nat.leb_le in G. assert (Hkn : k = r_nord r2) by lia.
      cbn [r_nord set_struct] in *. rewrite Nat.ltb_irrefl in *.
      assert (Hstale : idxk r2 k = []) by (apply St; lia).
      constructor; [exact HP | | |]; unfold add_final_hi; cbn [r_bnd r_bas r_nord r_idx set_struct].
      + rewrite length_upd_nth, app_length. simpl. lia.
      + rewrite length_upd_nth, app_length. simpl. lia.
      + intros k0 Hk0. unfold shape_k, bask, bndk, idxk. cbn [r_bnd r_bas r_idx set_struct].
        assert (Hig : forall j, length (nth j (r_idx r2 ++ [[]]) []) = length (idxk r2 j)) by (intros j; apply idxg_len).
        assert (Hlen : k < length (r_idx r2 ++ [[]])) by (rewrite app_length; simpl; lia).
        set (ig := r_idx r2 ++ [[]]) in *.
        assert (Hidx : forall j, length (nth j (upd_nth k (fun l => l ++ [n]) [] ig) []) =
                                 if j =? k then 1 else length (idxk r2 j)).
        { intros j. rewrite nth_upd_nth. apply Nat.ltb_lt in Hlen. rewrite Hlen, andb_true_r.
          destruct (j =? k); [|apply Hig]. rewrite app_length, Hig, Hstale. reflexivity. }
        rewrite !Hidx. rewrite !nth_upd_nth, !app_length, Lb, Ls. simpl length.
        replace (k <? r_nord r2 + 1) with true by (symmetry; apply Nat.ltb_lt; lia). rewrite !andb_true_r.
        assert (E0 : (0 =? k) = false) by (apply Nat.eqb_neq; lia). rewrite E0.
        destruct (k0 =? k) eqn:E.
        * apply Nat.eqb_eq in E. subst k0. rewrite !nth_snoc, Lb, Ls.
          replace (k <? r_nord r2) with false by (symmetry; apply Nat.ltb_ge; lia).
          replace (k =? r_nord r2) with true by (symmetry; apply Nat.eqb_eq; lia).
          split.
          -- apply dims_app_col; [rewrite Hig; apply dims_zeros|].
             now rewrite length_mark, Hig.
          -- intros _. replace (k - 1) with k' by lia.
             replace (k' =? k) with false by (symmetry; apply Nat.eqb_neq; lia).
             apply dims_app_col; [rewrite Hig; apply dims_zeros|].
             now rewrite length_mark, Hig.
        * apply Nat.eqb_neq in E. assert (Hk0' : k0 < r_nord r2) by lia. destruct (Sh k0 Hk0') as [Hb Hn].
          rewrite !nth_snoc, Lb, Ls.
          replace (k0 <? r_nord r2) with true by (symmetry; apply Nat.ltb_lt; lia).
          split; [exact Hb|]. intros H1.
          replace (k0 - 1 =? k) with false by (symmetry; apply Nat.eqb_neq; lia). now apply Hn.
    - (* an existing order *)
      apply Nat.leb_gt in G.
      assert (Hlen : k < length (r_idx r2)) by lia.
      assert (Hnord : r_nord (if S k <? r_nord r2
                              then set_struct r2 (r_nord r2) (r_idx r2) (upd_nth (S k) app_zero_row emptymat (r_bnd r2)) (r_bas r2)
                              else r2) = r_nord r2) by (destruct (S k <? r_nord r2); reflexivity).
      assert (Hridx : r_idx (if S k <? r_nord r2
                             then set_struct r2 (r_nord r2) (r_idx r2) (upd_nth (S k) app_zero_row emptymat (r_bnd r2)) (r_bas r2)
                             else r2) = r_idx r2) by (destruct (S k <? r_nord r2); reflexivity).
      assert (Hrbas : r_bas (if S k <? r_nord r2
                             then set_struct r2 (r_nord r2) (r_idx r2) (upd_nth (S k) app_zero_row emptymat (r_bnd r2)) (r_bas r2)
                             else r2) = r_bas r2) by (destruct (S k <? r_nord r2); reflexivity).
      set (rz := if S k <? r_nord r2 then _ else r2) in *.
      assert (Hrbnd : forall j, nth j (r_bnd rz) emptymat =
                                if (j =? S k) && (S k <? r_nord r2) then app_zero_row (bndk r2 (S k)) else bndk r2 j).
      { intros j. unfold rz. destruct (S k <? r_nord r2) eqn:E; cbn [r_bnd set_struct].
        - rewrite nth_upd_nth, Lb, E, !andb_true_r. destruct (j =? S k); reflexivity.
        - now rewrite andb_false_r. }
      assert (Hlbz : length (r_bnd rz) = r_nord r2).
      { unfold rz. destruct (S k <? r_nord r2); cbn [r_bnd set_struct]; [now rewrite length_upd_nth | exact Lb]. }
      constructor; [exact HP | | |]; unfold add_final_hi; cbn [r_bnd r_bas r_nord r_idx].
      + now rewrite length_upd_nth, Hlbz, Hnord.
      + now rewrite length_upd_nth, Hrbas, Hnord.
      + rewrite Hnord. intros k0 Hk0. unfold shape_k, bask, bndk, idxk. cbn [r_bnd r_bas r_idx].
        rewrite Hridx, Hrbas.
        assert (Hidx : forall j, length (nth j (upd_nth k (fun l => l ++ [n]) [] (r_idx r2)) []) =
                                 if j =? k then S (length (idxk r2 k)) else length (idxk r2 j)).
        { intros j. rewrite nth_upd_nth. apply Nat.ltb_lt in Hlen. rewrite Hlen, andb_true_r.
          destruct (j =? k); [|reflexivity]. rewrite app_length. simpl. unfold idxk. lia. }
        rewrite !Hidx. rewrite !nth_upd_nth, Hlbz, Ls.
        replace (k <? r_nord r2) with true by (symmetry; apply Nat.ltb_lt; lia). rewrite !andb_true_r.
        assert (E0 : (0 =? k) = false) by (apply Nat.eqb_neq; lia). rewrite E0.
        destruct (Sh k0 Hk0) as [Hb Hn]. destruct (Sh k G) as [Hbk Hnk].
        destruct (k0 =? k) eqn:E.
        * apply Nat.eqb_eq in E. subst k0. split.
          -- apply dims_app_col; [exact Hbk|]. unfold idxk. now rewrite length_mark, ?Hridx.
          -- intros _. replace (k - 1) with k' by lia.
             replace (k' =? k) with false by (symmetry; apply Nat.eqb_neq; lia).
             rewrite Hrbnd. replace (k =? S k) with false by (symmetry; apply Nat.eqb_neq; lia). simpl andb.
             apply dims_app_col; [replace k' with (k - 1) by lia; apply Hnk; lia|].
             unfold idxk. now rewrite length_mark, ?Hridx.
        * split; [exact Hb|]. intros H1. rewrite Hrbnd.
          destruct (k0 =? S k) eqn:E2.
          -- apply Nat.eqb_eq in E2. subst k0. replace (S k - 1) with k in * by lia. rewrite Nat.eqb_refl.
             replace (S k <? r_nord r2) with true by (symmetry; apply Nat.ltb_lt; lia). simpl andb.
             apply dims_app_zero_row. now apply Hn.
          -- simpl andb. apply Nat.eqb_neq in E2. apply Nat.eqb_neq in E.
             replace (k0 - 1 =? k) with false by (symmetry; apply Nat.eqb_neq; lia). now apply Hn.
  Qed.
End AddShapes.

Section AddVertexShapes.
  Variables (r2 : rep) (fs : list name) (n : name) (h : handle).
  Hypothesis Hinv : sinv r2.

  Lemma add_vertex_sinv :
    pinv (add_final (add_struct r2 0) fs n h 0) -> sinv (add_final (add_struct r2 0) fs n h 0).
  Proof.
    intros HP. destruct Hinv as [P Lb Ls Sh]. pose proof P as [K Pm St L].
    unfold add_struct in *.
    destruct (r_nord r2 <=? 0) eqn:G.
    - (* the first simplex *)
      apply Nat.leb_le in G. assert (Hn0 : r_nord r2 = 0) by lia.
      cbn [r_nord set_struct] in *. change (1 <? 1) with false in *. cbv iota in *.
      assert (Hstale : idxk r2 0 = []) by (apply St; lia).
      destruct (r_bas r2) as [|? ?] eqn:Eb; [|simpl in Ls; lia].
      destruct (r_bnd r2) as [|? ?] eqn:En; [|simpl in Lb; lia].
      assert (Hz : nth 0 (r_idx r2 ++ [[]]) [] = []) by (rewrite nth_app_snoc_nil; exact Hstale).
      constructor; [exact HP | | |]; unfold add_final; cbn [r_bnd r_bas r_nord r_idx set_struct].
      + reflexivity.
      + change (1 <? 1) with false. cbv iota. rewrite Hz. reflexivity.
      + intros k0 Hk0. assert (k0 = 0) by lia. subst k0.
        unfold shape_k, bask, bndk, idxk. cbn [r_bnd r_bas r_idx].
        change (1 <? 1) with false. cbv iota. rewrite Hz. simpl.
        split; [|lia].
        rewrite nth_upd_nth. rewrite app_length. simpl.
        replace (0 <? length (r_idx r2) + 1) with true by (symmetry; apply Nat.ltb_lt; lia). simpl.
        rewrite Hz. simpl. split; [|split]; simpl; auto.
        repeat constructor.
    - apply Nat.leb_gt in G.
      assert (Hlen : 0 < length (r_idx r2)) by lia.
      set (rz := if 1 <? r_nord r2 then _ else r2) in *.
      assert (Hnord : r_nord rz = r_nord r2) by (unfold rz; destruct (1 <? r_nord r2); reflexivity).
      assert (Hridx : r_idx rz = r_idx r2) by (unfold rz; destruct (1 <? r_nord r2); reflexivity).
      assert (Hrbas : r_bas rz = r_bas r2) by (unfold rz; destruct (1 <? r_nord r2); reflexivity).
      assert (Hrbnd : forall j, nth j (r_bnd rz) emptymat =
                                if (j =? 1) && (1 <? r_nord r2) then app_zero_row (bndk r2 1) else bndk r2 j).
      { intros j. unfold rz. destruct (1 <? r_nord r2) eqn:E; cbn [r_bnd set_struct].
        - rewrite nth_upd_nth, Lb, E, !andb_true_r. destruct (j =? 1); reflexivity.
        - now rewrite andb_false_r. }
      assert (Hlbz : length (r_bnd rz) = r_nord r2).
      { unfold rz. destruct (1 <? r_nord r2); cbn [r_bnd set_struct]; [now rewrite length_upd_nth | exact Lb]. }
      assert (Hidx : forall j, length (nth j (upd_nth 0 (fun l => l ++ [n]) [] (r_idx r2)) []) =
                               if j =? 0 then S (length (idxk r2 0)) else length (idxk r2 j)).
      { intros j. rewrite nth_upd_nth. apply Nat.ltb_lt in Hlen. rewrite Hlen, andb_true_r.
        destruct (j =? 0); [|reflexivity]. rewrite app_length. simpl. unfold idxk. lia. }
      set (bas1 := if 1 <? r_nord r2
                   then map (fun p => if (0 <? fst p) && (fst p <? r_nord r2) then app_zero_row (snd p) else snd p)
                            (combine (seq 0 (length (r_bas r2))) (r_bas r2))
                   else r_bas r2).
      assert (Hbas1 : forall j, j < r_nord r2 -> nth j bas1 emptymat = if 0 <? j then app_zero_row (bask r2 j) else bask r2 j).
      { intros j Hj. unfold bas1. destruct (1 <? r_nord r2) eqn:E.
        - rewrite (nth_map_default _ _ (0, emptymat)) by (rewrite combine_length, seq_length; lia).
          rewrite nth_combine_seq by lia. cbn [fst snd]. change (0 + j) with j. apply Nat.ltb_lt in Hj. rewrite Hj, andb_true_r. reflexivity.
        - apply Nat.ltb_ge in E. assert (j = 0) by lia. subst. reflexivity. }
      assert (Hlb1 : length bas1 = r_nord r2).
      { unfold bas1. destruct (1 <? r_nord r2); [|exact Ls]. rewrite map_length, combine_length, seq_length. lia. }
      destruct (Sh 0 G) as [Hb0 _].
      constructor; [exact HP | | |]; unfold add_final; cbn [r_bnd r_bas r_nord r_idx]; rewrite ?Hnord, ?Hridx, ?Hrbas; fold bas1.
      + exact Hlbz.
      + now rewrite length_set_nth.
      + intros k0 Hk0. unfold shape_k, bask, bndk, idxk. cbn [r_bnd r_bas r_idx].
        rewrite ?Hridx, ?Hrbas, ?Hnord. fold bas1. rewrite !Hidx. simpl (0 =? 0).
        destruct (Sh k0 Hk0) as [Hb Hn]. split.
        * destruct k0 as [|k0].
          -- rewrite nth_set_nth, Hlb1. replace (0 <? r_nord r2) with true by (symmetry; apply Nat.ltb_lt; lia). simpl ((0 =? 0) && true). cbv iota. rewrite (Hbas1 0 G). change (0 <? 0) with false. cbv iota.
             simpl (0 =? 0). cbv iota. destruct Hb0 as (Hok & Hr & Hc). fold (idxk r2 0).
             replace (S (length (idxk r2 0)) - 1) with (length (idxk r2 0)) by lia.
             destruct (nrows (bask r2 0) =? 0) eqn:E.
             ++ rewrite <- Hr. apply Nat.eqb_eq in E. rewrite E.
                split; [repeat constructor|]. split; [reflexivity|].
                unfold ncols in *. simpl. lia.
             ++ split; [|split].
                ** unfold mat_ok. simpl. apply Forall_app. split.
                   --- apply Forall_map. unfold mat_ok in Hok. eapply Forall_impl; [|exact Hok].
                       intros c Hc0. simpl in Hc0. rewrite app_length. simpl. lia.
                   --- constructor; [|constructor]. rewrite app_length, repeat_length. simpl. lia.
                ** simpl. lia.
                ** unfold ncols in *. simpl. rewrite app_length, map_length. simpl. lia.
          -- rewrite nth_set_nth. simpl ((S k0 =? 0) && _). cbv iota. rewrite (Hbas1 (S k0) Hk0). simpl (0 <? S k0). cbv iota.
             simpl (S k0 =? 0). cbv iota. apply dims_app_zero_row. exact Hb.
        * intros H1. rewrite Hrbnd. destruct k0 as [|[|k0]]; [lia| |].
          -- simpl (1 =? 1). simpl (1 - 1 =? 0). simpl (1 =? 0). cbv iota.
             replace (1 <? r_nord r2) with true by (symmetry; apply Nat.ltb_lt; lia). simpl andb. cbv iota.
             apply dims_app_zero_row. apply (Hn H1).
          -- simpl (S (S k0) =? 1). simpl andb. cbv iota. simpl (S (S k0) - 1 =? 0). simpl (S (S k0) =? 0). cbv iota.
             apply (Hn H1).
  Qed.
End AddVertexShapes.

Theorem addSimplex_sinv r fs id attr r' x : sinv r -> addSimplex r fs id attr = (r', x) -> sinv r'.
Proof.
  intros Hinv H. assert (HP : pinv r') by (eapply addSimplex_pinv; [apply (s_p r Hinv) | exact H]).
  destruct x as [n|e].
  2: { apply addSimplex_atomic in H. destruct H as [Hs _]. eapply sinv_same_obs; eauto. }
  apply addSimplex_eq in H. destruct H as (r2 & h & Hs & Hk & ->).
  assert (Hinv2 : sinv r2) by (eapply sinv_same_obs; eauto).
  destruct (length fs - 1) as [|k'] eqn:Ek.
  - now apply add_vertex_sinv.
  - rewrite add_hi_eq in *. now apply add_higher_sinv.
Qed.

Lemma rstep_sinv r o : sinv r -> sinv (rstep r o).
Proof.
  intros H. destruct o; simpl.
  - destruct (addSimplex r fs id attr) eqn:E. eapply addSimplex_sinv; eauto.
  - destruct (relabelSimplex r s q) eqn:E. eapply relabelSimplex_sinv; eauto.
  - destruct (forceDeleteSimplex r s) eqn:E. eapply forceDeleteSimplex_sinv; eauto.
Qed.

(* every representation reachable from the empty one by any sequence of primitive operations *)
Theorem reachable_sinv uid ops : sinv (fold_left rstep ops (empty_rep uid)).
Proof.
  assert (H : forall r, sinv r -> sinv (fold_left rstep ops r)).
  { induction ops as [|o t IH]; intros r Hr; simpl; auto. apply IH. now apply rstep_sinv. }
  apply H. apply sinv_empty.
Qed.

(* ---------- what the shapes give ---------- *)
(* the k-th boundary operator has one column per k-simplex and one row per (k-1)-simplex *)
Theorem boundary_shape r k : sinv r -> k < r_nord r ->
  ncols (boundaryOperator r k) = length (simplicesOfOrder r k) /\
  (1 <= k -> nrows (boundaryOperator r k) = length (simplicesOfOrder r (k - 1))).
Proof.
  intros [P Lb Ls Sh] Hk. unfold boundaryOperator, simplicesOfOrder.
  destruct (k =? 0) eqn:E0.
  - apply Nat.eqb_eq in E0. subst. split; [|lia]. unfold ncols, zeros. simpl. now rewrite repeat_length.
  - apply Nat.eqb_neq in E0. replace (r_nord r <=? k) with false by (symmetry; apply Nat.leb_gt; lia).
    replace (k <? r_nord r) with true by (symmetry; apply Nat.ltb_lt; lia).
    replace (k - 1 <? r_nord r) with true by (symmetry; apply Nat.ltb_lt; lia).
    destruct (Sh k Hk) as [_ Hn]. destruct Hn as (_ & Hr & Hc); [lia|]. split; [exact Hc | intros _; exact Hr].
Qed.

Theorem boundary_ncols r k : sinv r -> ncols (boundaryOperator r k) = length (simplicesOfOrder r k).
Proof.
  intros H. destruct (Nat.ltb_spec k (r_nord r)) as [Hk|Hk]; [now apply boundary_shape|].
  unfold boundaryOperator, simplicesOfOrder.
  replace (k <? r_nord r) with false by (symmetry; apply Nat.ltb_ge; lia).
  destruct (k =? 0) eqn:E0.
  - apply Nat.eqb_eq in E0. subst. unfold ncols, zeros, simplicesOfOrder. simpl. rewrite repeat_length.
    now replace (0 <? r_nord r) with false by (symmetry; apply Nat.ltb_ge; lia).
  - apply Nat.leb_le in Hk. now rewrite Hk.
Qed.

(* the simplices of one order are listed without repetition *)
Theorem simplicesOfOrder_nodup r k : pinv r -> NoDup (simplicesOfOrder r k).
Proof.
  intros P. unfold simplicesOfOrder. destruct (k <? r_nord r) eqn:E; [|constructor].
  apply Nat.ltb_lt in E. destruct P as [K Pm St L].
  apply NoDup_nth_error. intros i j Hi Hij.
  destruct (nth_error (idxk r k) i) as [s|] eqn:Ei; [|apply nth_error_None in Ei; lia].
  symmetry in Hij. assert (A1 : assoc s (r_simp r) = Some (k, i)) by (apply Pm; auto).
  assert (A2 : assoc s (r_simp r) = Some (k, j)) by (apply Pm; auto). congruence.
Qed.
