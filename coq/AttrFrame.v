(* AttrFrame.v -- the attribute frame of the mutators (C02): adding -- directly, by basis, ensuring a basis,
   in bulk -- leaves every simplex that was there with the dictionary (the same object) it had, and the new
   simplex of addSimplex gets the dictionary it was given (or one of its own); deleting -- one simplex, by
   basis, several, restricting -- leaves every survivor with the dictionary it had.  None of these operations
   takes the heap of dictionaries, so no content changes either.  Plain Coq. *)
From Coq Require Import String ZArith Bool Arith List Lia.
From SV Require Import Names NamesFacts ListFacts Rep Fresh Complex Atomic RepInv Reach ReachGen Shapes Incidence AddEffect.
From SV Require Import DelEffect DeleteEffect StarOrder Closed ReachGen2 ClosedReach VInv AttrInv.
Import ListNotations.
Open Scope nat_scope.

(* ---------- additions ---------- *)
Definition keeps_old (r0 r : rep) : Prop :=
  ainv r /\ forall t, containsSimplex r0 t = true -> containsSimplex r t = true /\ assoc t (r_attr r) = assoc t (r_attr r0).

Lemma keeps_old_refl r : ainv r -> keeps_old r r.
Proof. intros A. split; [exact A|]. auto. Qed.

Lemma keeps_old_same_obs r0 r r' : same_obs r r' -> keeps_old r0 r -> keeps_old r0 r'.
Proof.
  intros Hs [A K]. split; [eapply ainv_same_obs; eauto|]. destruct Hs as (_ & _ & Hsimp & _ & _ & _ & Ha).
  intros t Ct. unfold containsSimplex. rewrite Hsimp, Ha. now apply K.
Qed.

Theorem addSimplex_attr r fs id attr r' n : ainv r -> addSimplex r fs id attr = (r', Ok n) ->
  (forall t, containsSimplex r t = true -> containsSimplex r' t = true /\ assoc t (r_attr r') = assoc t (r_attr r)) /\
  exists h, assoc n (r_attr r') = Some h /\ (attr = Some h \/ (attr = None /\ fst h = r_uid r)).
Proof.
  intros A H. destruct (FiltProofs.addSimplex_contains r fs id attr r' n (s_p r (c_s r (a_c r A))) H) as [Hnew Hall].
  pose proof (addSimplex_form r fs id attr r' n H) as F. cbv zeta in F.
  destruct F as (r2 & h & Hs & _ & _ & _ & _ & _ & _ & _ & Ha & Hh & _).
  destruct Hs as (_ & _ & _ & _ & _ & _ & Ha2). rewrite Ha2 in Ha.
  assert (An : assoc n (r_attr r) = None) by (now apply (a_dom r A)).
  split.
  - intros t Ct. split; [rewrite Hall, Ct; reflexivity|]. rewrite Ha, assoc_app.
    destruct (assoc t (r_attr r)) as [v|] eqn:At; [reflexivity|]. apply (a_dom r A) in At. congruence.
  - exists h. split; [|exact Hh]. rewrite Ha, assoc_app, An. simpl. now rewrite name_eqb_refl.
Qed.

Lemma addSimplex_keeps_old r0 r fs id attr r' x : keeps_old r0 r -> addSimplex r fs id attr = (r', x) -> keeps_old r0 r'.
Proof.
  intros [A K] H. destruct x as [n|e].
  2: { apply addSimplex_atomic in H. destruct H as [Hs _]. eapply keeps_old_same_obs; eauto. split; auto. }
  split; [eapply addSimplex_ainv; eauto|]. destruct (addSimplex_attr r fs id attr r' n A H) as [Hold _].
  intros t Ct. destruct (K t Ct) as [C1 E1]. destruct (Hold t C1) as [C2 E2]. split; [exact C2|congruence].
Qed.

Section AddFamily.
  Variable r0 : rep.
  Let I := keeps_old r0.
  Let I_so : forall r r', same_obs r r' -> I r -> I r' := keeps_old_same_obs r0.
  Let I_add : forall r fs id attr r' x, I r -> addSimplex r fs id attr = (r', x) -> I r' := addSimplex_keeps_old r0.

  Theorem addSimplexWithBasis_keeps_old bs id attr r' x : ainv r0 -> c_addSimplexWithBasis r0 bs id attr = (r', x) -> keeps_old r0 r'.
  Proof. intros A H. apply (ReachGen2.addSimplexWithBasis_I I) in H; auto. now apply keeps_old_refl. Qed.

  Theorem ensureBasis_keeps_old bs attr r' x : ainv r0 -> c_ensureBasis r0 bs attr = (r', x) -> keeps_old r0 r'.
  Proof. intros A H. apply (ReachGen2.ensureBasis_I I) in H; auto. now apply keeps_old_refl. Qed.

  Theorem addSimplicesFrom_keeps_old hp src rn hp' r' st x : ainv r0 -> addSimplicesFrom hp r0 src rn = (hp', r', st, x) -> keeps_old r0 r'.
  Proof. intros A H. apply (ReachGen2.addSimplicesFrom_I I) in H; auto. now apply keeps_old_refl. Qed.
End AddFamily.

(* ---------- deletions ---------- *)
Definition survivors_keep (r0 r : rep) : Prop :=
  ainv r /\ forall t, containsSimplex r t = true -> containsSimplex r0 t = true /\ assoc t (r_attr r) = assoc t (r_attr r0).

Lemma survivors_refl r : ainv r -> survivors_keep r r.
Proof. intros A. split; [exact A|]. auto. Qed.

Lemma forceDelete_survivors r0 r s r' x : survivors_keep r0 r -> cofaces r s = [] -> forceDeleteSimplex r s = (r', x) -> survivors_keep r0 r'.
Proof.
  intros [A K] Hco H. destruct x as [[]|e].
  2: { apply forceDeleteSimplex_atomic in H. destruct H as [-> _]. split; auto. }
  split; [eapply forceDelete_ainv; eauto|].
  destruct (assoc s (r_simp r)) as [[k i]|] eqn:As.
  2: { unfold forceDeleteSimplex in H. rewrite As in H. discriminate. }
  pose proof (forceDelete_membership r s k i (c_s r (a_c r A)) As) as Hmem. rewrite H in Hmem. simpl in Hmem.
  assert (Ea : r_attr r' = assoc_del s (r_attr r)).
  { unfold forceDeleteSimplex in H. rewrite As in H. destruct (_ && _) in H; injection H as <-; reflexivity. }
  intros t Ct. rewrite Hmem in Ct. apply andb_prop in Ct. destruct Ct as [Ct Hne]. apply negb_true_iff in Hne.
  assert (Hts : t <> s) by (intros ->; rewrite name_eqb_refl in Hne; discriminate).
  destruct (K t Ct) as [C0 E0]. split; [exact C0|]. rewrite Ea, assoc_del_other by exact Hts. exact E0.
Qed.

Theorem deleteSimplex_survivors r0 r s r' x : survivors_keep r0 r -> deleteSimplex r s = (r', x) -> survivors_keep r0 r'.
Proof.
  intros Hc H. unfold deleteSimplex in H.
  destruct (partOf r s true false) as [L|e] eqn:EP; [|now injection H as <- _].
  assert (Hk : exists k is, assoc s (r_simp r) = Some (k, is)).
  { unfold partOf, orderOf in EP. destruct (assoc s (r_simp r)) as [[k is]|]; [eauto | discriminate]. }
  destruct Hk as (k & is & As).
  assert (HIs : forall r1, survivors_keep r0 r1 -> sinv r1) by (intros r1 [Hv _]; exact (c_s r1 (a_c r1 Hv))).
  destruct (star_positions r (HIs r Hc) s k is L As EP) as (Hnd & Hin & Hpos).
  exact (fold_delete_any (survivors_keep r0) HIs (forceDelete_survivors r0) L r Hc Hnd Hin Hpos r' x H).
Qed.

Theorem deleteSimplex_attr r s r' x : ainv r -> deleteSimplex r s = (r', x) -> survivors_keep r r'.
Proof. intros A. apply deleteSimplex_survivors. now apply survivors_refl. Qed.
Theorem deleteSimplexWithBasis_attr r bs r' x : ainv r -> deleteSimplexWithBasis r bs = (r', x) -> survivors_keep r r'.
Proof. intros A. apply (ReachGen2.deleteSimplexWithBasis_I (survivors_keep r) (deleteSimplex_survivors r)). now apply survivors_refl. Qed.
Theorem deleteSimplices_attr r ss r' x : ainv r -> deleteSimplices r ss = (r', x) -> survivors_keep r r'.
Proof. intros A. apply (ReachGen2.deleteSimplices_I (survivors_keep r) (deleteSimplex_survivors r)). now apply survivors_refl. Qed.
Theorem restrictBasisTo_attr r bs r' x : ainv r -> restrictBasisTo r bs = (r', x) -> survivors_keep r r'.
Proof. intros A. apply (ReachGen2.restrictBasisTo_I (survivors_keep r) (deleteSimplex_survivors r)). now apply survivors_refl. Qed.
