(* JsonProofs.v -- decoding an encoded complex gives it back (C17), at the level of the encoded
   structure (the list of {id, faces, attributes} records; the JSON text layer is Python's):
   same names, same orders, same faces, same attribute values, dictionaries of its own.  Plain Coq. *)
From Coq Require Import String ZArith Bool Arith List Lia.
From SV Require Import Names NamesFacts ListFacts Rep Fresh Complex Atomic RepInv Reach Shapes AddEffect CopyFaithful CopyAttrs
                       Homology Filtration Gen World WorldProofs.
Import ListNotations.
Open Scope nat_scope.

Theorem decode_faithful uid : forall (js : list jsimplex) hp r hp' r',
  sinv r -> ainv uid r -> decode hp r js = (hp', r', Ok tt) ->
  sinv r' /\ ainv uid r' /\
  (forall j, In j js ->
     containsSimplex r' (j_id j) = true /\ orderOf r' (j_id j) = Ok (length (j_faces j) - 1) /\
     (forall t, In t (faces r' (j_id j)) <-> In t (j_faces j)) /\
     exists h', assoc (j_id j) (r_attr r') = Some h' /\ fst h' = uid /\ heap_get hp' h' = j_attr j) /\
  (forall s, containsSimplex r s = true ->
     containsSimplex r' s = true /\ orderOf r' s = orderOf r s /\ faces r' s = faces r s) /\
  (forall s h', assoc s (r_attr r) = Some h' -> assoc s (r_attr r') = Some h' /\ heap_get hp' h' = heap_get hp h') /\
  (forall s, containsSimplex r' s = containsSimplex r s || memn s (map j_id js)) /\
  (forall h0, fst h0 <> uid -> heap_get hp' h0 = heap_get hp h0).
Proof.
  induction js as [|j rest IH]; intros hp r hp' r' Hinv Ha H; cbn [decode] in H.
  - injection H as <- <-. split; [exact Hinv|]. split; [exact Ha|]. split; [intros j []|].
    split; [intros s Hs; auto|]. split; [auto|]. split; [intros s; simpl; now rewrite orb_false_r | auto].
  - destruct (alloc r) as [r1 h1] eqn:Ea.
    assert (Ea' : r_attr r1 = r_attr r /\ r_simp r1 = r_simp r /\ r_uid r1 = r_uid r /\ r_nalloc r1 = S (r_nalloc r) /\ h1 = (r_uid r, r_nalloc r)).
    { unfold alloc in Ea. injection Ea as <- <-. simpl. repeat split. }
    destruct Ea' as (Ra & Rs & Ru & Rn & Eh1).
    assert (Hs1 : same_obs r r1) by (pose proof (same_obs_alloc r) as X; now rewrite Ea in X).
    assert (Hinv1 : sinv r1) by (eapply sinv_same_obs; eauto).
    destruct (same_obs_queries r r1 Hs1) as (Qo & _ & Qf & _ & _ & Qc & _).
    destruct (addSimplex r1 (j_faces j) (Some (j_id j)) (Some h1)) as [r2 [id|e]] eqn:E; [|discriminate].
    destruct (addSimplex_given r1 (j_faces j) (j_id j) h1 r2 id E) as (-> & Cs & Er2).
    destruct (addSimplex_effect r1 (j_faces j) (Some (j_id j)) (Some h1) r2 (j_id j) Hinv1 E) as (_ & _ & Ho & Hf & Hold & Hall).
    assert (Hinv2 : sinv r2) by (eapply addSimplex_sinv; eauto).
    destruct Ha as [Hu Hd Hown].
    destruct (add_struct_fields r1 (length (j_faces j) - 1)) as (Sa & Sn & Su & Ss).
    destruct (add_final_fields (add_struct r1 (length (j_faces j) - 1)) (j_faces j) (j_id j) h1 (length (j_faces j) - 1)) as (Fa & Fn & Fu & pos & Fs).
    rewrite <- Er2 in Fa, Fn, Fu, Fs. rewrite Sa, Ra in Fa. rewrite Sn, Rn in Fn. rewrite Su, Ru in Fu. rewrite Ss, Rs in Fs.
    assert (Hnone : assoc (j_id j) (r_attr r) = None).
    { apply Hd. unfold containsSimplex in Cs. rewrite Rs in Cs. destruct (assoc (j_id j) (r_simp r)); [discriminate | reflexivity]. }
    assert (Ha2 : ainv uid r2).
    { constructor.
      - rewrite Fu. exact Hu.
      - intros s0. rewrite Fa, Fs. rewrite !assoc_app. simpl.
        destruct (name_eqb s0 (j_id j)) eqn:E0.
        + apply name_eqb_eq in E0. subst s0. rewrite Hnone.
          assert (Hn2 : assoc (j_id j) (r_simp r) = None) by (now apply Hd). rewrite Hn2. split; discriminate.
        + specialize (Hd s0). destruct (assoc s0 (r_attr r)), (assoc s0 (r_simp r)); intuition discriminate.
      - intros s0 h0. rewrite Fa, Fn. rewrite assoc_app. destruct (assoc s0 (r_attr r)) as [hh|] eqn:E0.
        + intros E1. injection E1 as <-. destruct (Hown s0 hh E0). split; [assumption | lia].
        + simpl. destruct (name_eqb s0 (j_id j)); [|discriminate]. intros E1. injection E1 as <-. rewrite Eh1. simpl. split; [exact Hu | lia]. }
    destruct (IH _ _ _ _ Hinv2 Ha2 H) as (Hinv' & Ha' & Hrest & Hkeep & Hkeepa & Hcont & Hframe).
    assert (Hh1 : fst h1 = uid) by (rewrite Eh1; exact Hu).
    split; [exact Hinv'|]. split; [exact Ha'|]. split; [|split; [|split; [|split]]].
    + intros j0 [<-|Hin]; [|now apply Hrest].
      assert (Hc2 : containsSimplex r2 (j_id j) = true) by (rewrite Hall, name_eqb_refl; apply orb_true_r).
      destruct (Hkeep (j_id j) Hc2) as (C' & O' & F').
      split; [exact C'|]. split; [now rewrite O'|]. split; [intros t; now rewrite F'|].
      assert (A2 : assoc (j_id j) (r_attr r2) = Some h1) by (rewrite Fa; now apply assoc_new).
      destruct (Hkeepa (j_id j) h1 A2) as [A' Hg]. exists h1. split; [exact A'|]. split; [exact Hh1|].
      rewrite Hg, heap_get_set. now rewrite (proj2 (handle_eqb_eq h1 h1) eq_refl).
    + intros s0 Hs0. assert (Hc1 : containsSimplex r1 s0 = true) by (now rewrite Qc).
      destruct (Hold s0 Hc1) as (O2 & _ & F2 & _).
      assert (Hc2 : containsSimplex r2 s0 = true) by (rewrite Hall, Hc1; reflexivity).
      destruct (Hkeep s0 Hc2) as (C' & O' & F'). split; [exact C'|]. rewrite O', F', O2, F2, Qo, Qf. auto.
    + intros s0 h' A0. assert (A2 : assoc s0 (r_attr r2) = Some h') by (rewrite Fa; now apply assoc_old).
      destruct (Hkeepa s0 h' A2) as [A' Hg]. split; [exact A'|]. rewrite Hg, heap_get_set.
      destruct (handle_eqb h' h1) eqn:E0; [|reflexivity]. apply handle_eqb_eq in E0. subst h'.
      destruct (Hown s0 h1 A0) as [_ Hlt]. rewrite Eh1 in Hlt. simpl in Hlt. lia.
    + intros s0. rewrite Hcont, Hall, Qc. cbn [map]. unfold memn. simpl. rewrite (name_eqb_sym s0 (j_id j)). now rewrite orb_assoc.
    + intros h0 Hne. rewrite (Hframe h0 Hne), heap_get_set. destruct (handle_eqb h0 h1) eqn:E0; [|reflexivity].
      apply handle_eqb_eq in E0. subst h0. contradiction.
Qed.

(* the round trip: decode (encode c) has the names, orders, faces and attribute values of c *)
Theorem json_roundtrip hp0 src hp uid hp' r' : uid <> 0 ->
  decode hp (empty_rep uid) (encode_view hp0 (view_of src)) = (hp', r', Ok tt) ->
  sinv r' /\
  (forall s, containsSimplex r' s = memn s (simplices src false)) /\
  (forall s, In s (simplices src false) ->
     orderOf r' s = Ok (length (faces src s) - 1) /\ (forall t, In t (faces r' s) <-> In t (faces src s)) /\
     exists h', assoc s (r_attr r') = Some h' /\ fst h' = uid /\
       heap_get hp' h' = heap_get hp0 (match assoc s (r_attr src) with Some h => h | None => (0, 0) end)).
Proof.
  intros H0 H.
  assert (Ha0 : ainv uid (empty_rep uid)).
  { constructor; [reflexivity | intros s; simpl; tauto | intros s h Hh; discriminate]. }
  destruct (decode_faithful uid _ _ _ _ _ (sinv_empty uid) Ha0 H) as (Hinv & _ & Hall & _ & _ & Hcont & _).
  split; [exact Hinv|]. split.
  - intros s. rewrite Hcont. simpl. unfold encode_view, view_of. rewrite !map_map. simpl. now rewrite map_id.
  - intros s Hs.
    set (j := mkJs s (faces src s) (heap_get hp0 (match assoc s (r_attr src) with Some h => h | None => (0, 0) end))).
    assert (Hin : In j (encode_view hp0 (view_of src))).
    { unfold encode_view, view_of. rewrite map_map. apply in_map_iff. exists s. split; [reflexivity | exact Hs]. }
    destruct (Hall j Hin) as (_ & Ho & Hf & Hh). simpl in *. auto.
Qed.
