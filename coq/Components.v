(* Components.v -- for a 0/1 matrix over GF(2) whose every column has exactly two ones (the
   vertex-edge incidence matrix of a graph), rank = #vertices - #connected components.  With the
   Betti formula this is "the 0th Betti number is the number of connected components" (C06). *)
From mathcomp Require Import all_ssreflect all_fingroup all_algebra.
Set Implicit Arguments.
Unset Strict Implicit.
Unset Printing Implicit Defensive.
Import GRing.Theory.
Local Open Scope ring_scope.

Lemma f2_addxx (a : 'F_2) : a + a = 0.
Proof. by rewrite -mulr2n -mulr_natl (_ : 2%:R = 0 :> 'F_2) ?mul0r //; apply/val_inj. Qed.

Lemma f2_add_eq0 (a b : 'F_2) : a + b = 0 -> a = b.
Proof. by move=> H; rewrite -[a]addr0 -(f2_addxx b) addrA H add0r. Qed.

Section Comp.
Variables (n m : nat) (B : 'M['F_2]_(n, m)).
Variables (ea eb : 'I_m -> 'I_n).
Hypothesis HB : forall i j, B i j = ((i == ea j) || (i == eb j))%:R.
Hypothesis Hends : forall j, ea j != eb j.

Definition adj : rel 'I_n :=
  fun a b => [exists j, ((a == ea j) && (b == eb j)) || ((a == eb j) && (b == ea j))].

Lemma adj_sym : symmetric adj.
Proof.
move=> a b; apply/existsP/existsP => -[j /orP[/andP[H1 H2]|/andP[H1 H2]]]; exists j.
- by rewrite H2 H1 orbT.
- by rewrite H2 H1.
- by rewrite H2 H1 orbT.
- by rewrite H2 H1.
Qed.

Let csym : connect_sym adj := sym_connect_sym adj_sym.

Lemma ends_connected j : fingraph.root adj (ea j) = fingraph.root adj (eb j).
Proof.
apply/(fingraph.rootP csym); apply: connect1; apply/existsP; exists j.
by rewrite !eqxx.
Qed.

(* the sum of a column against any weights: the two ends *)
Lemma sum_col (f : 'I_n -> 'F_2) j : \sum_i f i * B i j = f (ea j) + f (eb j).
Proof.
rewrite (bigD1 (ea j)) //= (bigD1 (eb j)) /=; last by rewrite eq_sym.
rewrite !HB !eqxx orbT mulr1 /= mulr1 big1 ?addr0 // => i /andP[H1 H2].
by rewrite HB (negbTE H1) (negbTE H2) mulr0.
Qed.

Let c := #|fingraph.roots adj|.
Let rt (k : 'I_c) : 'I_n := enum_val k.
Definition G : 'M['F_2]_(c, n) := \matrix_(k, i) (fingraph.root adj i == rt k)%:R.
Definition G' : 'M['F_2]_(n, c) := \matrix_(i, k) (i == rt k)%:R.

Lemma rt_root k : fingraph.root adj (rt k) = rt k.
Proof. by apply/eqP; exact: (enum_valP k). Qed.

Lemma GG' : G *m G' = 1%:M.
Proof.
apply/matrixP => k k'; rewrite !mxE (bigD1 (rt k')) //= big1 ?addr0; last first.
  by move=> i Hi; rewrite !mxE (negbTE Hi) mulr0.
rewrite !mxE eqxx mulr1 rt_root.
by rewrite (inj_eq (@enum_val_inj _ _)) eq_sym.
Qed.

Lemma GB : G *m B = 0.
Proof.
apply/matrixP => k j; rewrite !mxE.
under eq_bigr do rewrite mxE.
by rewrite sum_col ends_connected f2_addxx.
Qed.

(* a vector killed by B is constant on components *)
Lemma ker_adj (x : 'I_n -> 'F_2) : (forall j, x (ea j) + x (eb j) = 0) -> forall a b, adj a b -> x a = x b.
Proof.
move=> H a b /existsP[j /orP[/andP[/eqP-> /eqP->]|/andP[/eqP-> /eqP->]]].
- exact: f2_add_eq0.
- by apply/esym/f2_add_eq0.
Qed.

Lemma ker_connect (x : 'I_n -> 'F_2) : (forall j, x (ea j) + x (eb j) = 0) -> forall a b, connect adj a b -> x a = x b.
Proof.
move=> H a b /connectP[p Hp ->]; elim: p a Hp => [|y p IH] a //= /andP[Hay Hp].
by rewrite (ker_adj H Hay); apply: IH.
Qed.

Lemma ker_decomp p (X : 'M['F_2]_(p, n)) : X *m B = 0 -> X = X *m G' *m G.
Proof.
move=> HX; apply/matrixP => i0 i; rewrite !mxE.
have Hx : forall j, X i0 (ea j) + X i0 (eb j) = 0.
  move=> j; have := congr1 (fun M : 'M_(p, m) => M i0 j) HX; rewrite !mxE => <-.
  by rewrite sum_col.
have Hroot : fingraph.root adj i \in fingraph.roots adj by exact: roots_root.
rewrite (bigD1 (enum_rank_in Hroot (fingraph.root adj i))) //= big1 ?addr0; last first.
  move=> k Hk; rewrite !mxE.
  have -> : (fingraph.root adj i == rt k) = false; last by rewrite mulr0.
  apply/negbTE; move: Hk; apply: contra => /eqP E.
  by apply/eqP; apply: enum_val_inj; rewrite enum_rankK_in // -/(rt k) -E.
rewrite !mxE /rt enum_rankK_in // eqxx mulr1.
rewrite (bigD1 (fingraph.root adj i)) //= big1 ?addr0; last first.
  by move=> i' Hi'; rewrite !mxE /rt enum_rankK_in // (negbTE Hi') mulr0.
rewrite !mxE /rt enum_rankK_in // eqxx mulr1.
by apply: (ker_connect Hx); exact: connect_root.
Qed.

Theorem rank_incidence : (\rank B + n_comp adj predT = n)%N.
Proof.
have Hc : n_comp adj predT = c.
  by rewrite /n_comp_mem /c; apply: eq_card => x; rewrite !inE andbT.
have HG : \rank G = c.
  by apply/eqP; rewrite -/(row_free G); apply/row_freeP; exists G'; exact: GG'.
have HK : (kermx B :=: G)%MS.
  apply/eqmxP/andP; split.
  - have H0 := mulmx_ker B. rewrite (ker_decomp H0). exact: submxMl.
  - by apply/sub_kermxP; exact: GB.
have := mxrank_ker B; rewrite HK.1 HG -Hc => Hr.
have Hle := rank_leq_row B.
by rewrite Hr subnKC.
Qed.
End Comp.

(* the same with the ends of each column given existentially, and adjacency read off the matrix *)
Definition adjB n m (B : 'M['F_2]_(n, m)) : rel 'I_n :=
  fun a b => [exists j, [&& a != b, B a j == 1 & B b j == 1]].

Theorem rank_graph n m (B : 'M['F_2]_(n, m)) :
  (forall j, exists a b : 'I_n, a != b /\ forall i, B i j = ((i == a) || (i == b))%:R) ->
  (\rank B + n_comp (adjB B) predT = n)%N.
Proof.
move=> Hcol.
pose P j (ab : 'I_n * 'I_n) := (ab.1 != ab.2) && [forall i, B i j == ((i == ab.1) || (i == ab.2))%:R].
have Hex : forall j, exists ab, P j ab.
  move=> j; have [a [b [Hab Hi]]] := Hcol j; exists (a, b); rewrite /P /= Hab /=.
  by apply/forallP => i; rewrite Hi.
pose ea j := (xchoose (Hex j)).1. pose eb j := (xchoose (Hex j)).2.
have Hends : forall j, ea j != eb j by move=> j; have /andP[] := xchooseP (Hex j).
have HB : forall i j, B i j = ((i == ea j) || (i == eb j))%:R.
  by move=> i j; have /andP[_ /forallP/(_ i)/eqP] := xchooseP (Hex j).
rewrite -[RHS](rank_incidence HB Hends).
congr (_ + _)%N; apply: eq_n_comp; apply: eq_connect => a b.
have F1 : forall x : bool, (x%:R == 1 :> 'F_2) = x by case.
rewrite /adjB /adj; apply/existsP/existsP => -[j].
- case/and3P => Hab; rewrite !HB !F1 => Ha Hb; exists j.
  case/orP: Ha => /eqP Ea; case/orP: Hb => /eqP Eb; rewrite Ea Eb ?eqxx ?orbT //.
  + by move: Hab; rewrite Ea Eb eqxx.
  + by move: Hab; rewrite Ea Eb eqxx.
- case/orP => /andP[/eqP Ea /eqP Eb]; exists j; rewrite !HB !F1 Ea Eb !eqxx ?orbT /= ?andbT //.
  first [exact: Hends | by rewrite eq_sym; exact: Hends].
Qed.
