(* ComplexesFrame.v -- Filtration.complexes() taken as a whole: however many snapshots it builds and
   wherever it stops, no attribute dictionary that existed before the call is written. *)
From Coq Require Import String ZArith Bool Arith List Lia.
From SV Require Import Names NamesFacts ListFacts Rep Fresh Complex Atomic RepInv Reach Homology Filtration Gen World WorldProofs.
Import ListNotations.
Open Scope nat_scope.

Definition cx_step (ff : filt) (pre : string) (acc : world * nat * res unit) (ind : idx) : world * nat * res unit :=
  match acc with
  | (_, _, Raise _) => acc
  | (w1, n, Ok _) =>
      let '(w2, u) := fresh_uid w1 in
      let fi := f_setIndex ff ind in
      let '(hp, r', res) := copy_new (w_heap w2) (f_view fi) u in
      match res with
      | Ok _ => (set_var (set_heap w2 hp) (pre ++ dec n)%string (OCx r'), S n, Ok tt)
      | Raise e => (set_heap w2 hp, n, Raise e)
      end
  end.

Definition cst (w0 : world) (acc : world * nat * res unit) : Prop :=
  w_uid w0 <= w_uid (fst (fst acc)) /\
  forall h, fst h < w_uid w0 -> heap_get (w_heap (fst (fst acc))) h = heap_get (w_heap w0) h.

Lemma cx_step_cst w0 ff pre acc ind : cst w0 acc -> cst w0 (cx_step ff pre acc ind).
Proof.
  destruct acc as [[w1 n] [u|e]]; [|auto]. intros [Hu Hf]. cbn [fst] in Hu, Hf. unfold cx_step, fresh_uid.
  destruct (copy_new _ _ _) as [[hp r'] res] eqn:E.
  destruct (copy_new_fresh _ _ _ _ _ _ E) as (_ & _ & F). cbn [w_heap] in F.
  assert (G : forall h, fst h < w_uid w0 -> heap_get hp h = heap_get (w_heap w0) h).
  { intros h Hlt. rewrite F by lia. now apply Hf. }
  destruct res as [x|e]; split; cbn; try lia; exact G.
Qed.

Lemma cx_fold_cst w0 ff pre L : forall acc, cst w0 acc -> cst w0 (fold_left (cx_step ff pre) L acc).
Proof. induction L as [|i L IH]; intros acc H; cbn [fold_left]; [exact H|]. apply IH. now apply cx_step_cst. Qed.

Theorem complexes_heap_frame w f pre w' o : exec w (CComplexes f pre) = (w', o) ->
  forall h, fst h < w_uid w -> heap_get (w_heap w') h = heap_get (w_heap w) h.
Proof.
  cbn [exec]. destruct (vget (w_vars w) f) as [[r|ff|e]|]; try (intros [= <- _]; reflexivity).
  change (fun (acc : world * nat * res unit) (ind : idx) => _) with (cx_step ff pre).
  pose proof (cx_fold_cst w ff pre (f_indices ff) (w, 0, Ok tt)) as X.
  destruct (fold_left (cx_step ff pre) (f_indices ff) (w, 0, Ok tt)) as [[w1 n] res].
  intros [= <- _]. apply X. split; cbn; auto.
Qed.
