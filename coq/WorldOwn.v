(* WorldOwn.v -- the ownership invariant of worlds: every complex (or the complex underneath a
   filtration) bound to a variable owns all its attribute dictionaries, under an owner below the
   world's counter.  Every derived-complex constructor keeps it (accepted or rejected), so the
   hypotheses `owned` of the frame theorems hold of everything constructors produce. *)
From Coq Require Import String ZArith Bool Arith List Lia.
From SV Require Import Names NamesFacts ListFacts Rep Fresh Complex Atomic RepInv Reach Homology Filtration Gen World WorldProofs CtorFrame CopyAttrs DeepcopyFrame DeepcopyContents CpsGen ComposeFresh FiltCopyFrame.
Import ListNotations.
Open Scope nat_scope.

Definition wown (w : world) : Prop :=
  forall y ob r, vget (w_vars w) y = Some ob -> rep_of ob = Some r -> owned r /\ r_uid r < w_uid w.

Lemma vget_vset_same vs x o : vget (vset vs x o) x = Some o.
Proof.
  induction vs as [|[k o'] t IH]; simpl.
  - now rewrite String.eqb_refl.
  - destruct (String.eqb_spec x k) as [->|Hxk]; simpl.
    + now rewrite String.eqb_refl.
    + destruct (String.eqb_spec x k); [contradiction|exact IH].
Qed.

Lemma wown_bind w x ob hp n : wown w -> w_uid w <= n ->
  (forall r, rep_of ob = Some r -> owned r /\ r_uid r < n) ->
  wown (mkWorld (vset (w_vars w) x ob) hp n (w_dicts w)).
Proof.
  intros W Hn Hob y ob' r Hy Hr. cbn [w_vars w_uid] in *.
  destruct (String.eqb_spec y x) as [->|Hne].
  - rewrite vget_vset_same in Hy. injection Hy as <-. now apply Hob.
  - rewrite vget_vset_other in Hy by exact Hne. destruct (W _ _ _ Hy Hr) as [O U]. split; [exact O|lia].
Qed.

Lemma wown_grow w hp n : wown w -> w_uid w <= n -> wown (mkWorld (w_vars w) hp n (w_dicts w)).
Proof. intros W Hn y ob r Hy Hr. destruct (W _ _ _ Hy Hr) as [O U]. cbn. split; [exact O|lia]. Qed.

Ltac own_by :=
  match goal with
  | E : copy_new _ _ _ = _ |- _ => destruct (copy_new_fresh _ _ _ _ _ _ E) as (O & U & _)
  | E : f_copy _ _ _ _ = _ |- _ => destruct (f_copy_fresh _ _ _ _ _ _ _ E) as (O & U & _)
  | E : deepcopy_rep _ _ _ = _ |- _ => destruct (deepcopy_owned _ _ _ _ _ E) as (O & U)
  | E : compose _ _ _ None _ = _ |- _ => destruct (compose_fresh _ _ _ _ _ _ _ E) as (O & U & _)
  | E : flagComplex _ _ _ = _ |- _ => destruct (flagComplex_fresh _ _ _ _ _ _ E) as (O & U & _)
  | E : decode _ (empty_rep ?u) _ = _ |- _ =>
      destruct (decode_owned _ _ _ _ _ _ (owned_empty u) E) as (O & U & _)
  end.

Theorem ctor_keeps_wown w c x w' o : ctor_result c = Some x -> exec w c = (w', o) -> wown w -> wown w'.
Proof.
  intros Hc H W. destruct c; simpl in Hc; try discriminate; injection Hc as ->; cbn [exec] in H.
  all: break H; try (injection H as <- _);
    repeat match goal with E : fresh_uid _ = _ |- _ => unfold fresh_uid in E; injection E as <- <- end;
    try exact W;
    unfold set_var, set_heap; cbn [w_vars w_heap w_uid w_dicts] in *;
    try (apply wown_grow; [exact W|lia]);
    try (apply wown_bind; [exact W|lia|]; intros rr Hrr; cbn [rep_of f_rep with_rep] in Hrr; injection Hrr as <-;
         own_by; cbn [empty_rep r_uid] in *; split; [assumption|lia]).
Qed.

(* the empty world meets the invariant, and so does every world reached from it by constructors
   alone -- non-vacuity of `wown` *)
Lemma wown_no_vars hp n d : wown (mkWorld [] hp n d).
Proof. intros y ob r Hy. discriminate. Qed.

Theorem new_keeps_wown w v w' o : exec w (CNew v) = (w', o) -> wown w -> wown w'.
Proof.
  cbn [exec]. unfold fresh_uid. intros [= <- _] W. unfold set_var. cbn [w_vars w_heap w_uid w_dicts].
  apply wown_bind; [exact W|lia|]. intros rr [= <-]. split; [apply owned_empty|cbn; lia].
Qed.

Theorem newf_keeps_wown w v i w' o : exec w (CNewF v i) = (w', o) -> wown w -> wown w'.
Proof.
  cbn [exec]. unfold fresh_uid. intros [= <- _] W. unfold set_var. cbn [w_vars w_heap w_uid w_dicts].
  apply wown_bind; [exact W|lia|]. intros rr [= <-]. split; [apply owned_empty|cbn; lia].
Qed.

(* queries leave the world, hence the invariant *)
Theorem query_keeps_wown w v q w' o : exec w (CQuery v q) = (w', o) -> wown w -> wown w'.
Proof. intros H W. now rewrite (query_leaves_world _ _ _ _ _ H). Qed.
