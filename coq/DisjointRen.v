(* DisjointRen.v -- C15: relabelDisjointFrom(c).  The renaming it builds maps exactly the simplices of the receiver that
   c also names, each to a name that neither the receiver nor c uses and that no other simplex was given; hence a
   completed relabelDisjointFrom leaves no name shared with c and renames only names that collided.  Plain Coq. *)
From Coq Require Import String ZArith Bool Arith List Lia.
From SV Require Import Names NamesFacts ListFacts Rep Fresh Complex Atomic RepInv Reach RelabelProofs Homology RelabelAll
                       AddEffect CopyFaithful RelabelPhi.
Import ListNotations.
Open Scope nat_scope.


(* what the loop has established about the renaming built so far *)
Record drinv (r c : rep) (m : list (name * name)) : Prop := {
  d_keys : forall s q, assoc s m = Some q -> containsSimplex r s = true /\ containsSimplex c s = true;
  d_vals : forall s q, assoc s m = Some q -> containsSimplex r q = false /\ containsSimplex c q = false;
  d_inj : forall s s' q, assoc s m = Some q -> assoc s' m = Some q -> s = s' }.

Lemma disj_search_spec fuel r c taken s k u q : disj_search fuel r c taken s k u = Some q ->
  containsSimplex r q = false /\ containsSimplex c q = false /\ memn q taken = false.
Proof.
  revert u. induction fuel as [|f IH]; intros u H; simpl in H; [discriminate|].
  destruct (containsSimplex r (disj_name s k u) || containsSimplex c (disj_name s k u) || memn (disj_name s k u) taken) eqn:E.
  - eapply IH; eauto.
  - injection H as <-. apply orb_false_iff in E. destruct E as [E E3]. apply orb_false_iff in E. tauto.
Qed.

Lemma assoc_set_spec {B} s (b : B) m x : assoc x (assoc_set s b m) = if name_eqb x s then Some b else assoc x m.
Proof.
  destruct (name_eqb_spec x s) as [->|Hne]; [apply assoc_set_same|now apply assoc_set_other].
Qed.

Lemma in_vals s q (m : list (name * name)) : assoc s m = Some q -> memn q (map snd m) = true.
Proof. intros A. apply memn_In. apply assoc_some_in in A. apply in_map_iff. exists (s, q). auto. Qed.

Lemma drinv_step r c m s q : drinv r c m -> containsSimplex r s = true -> containsSimplex c s = true ->
  containsSimplex r q = false -> containsSimplex c q = false -> memn q (map snd m) = false -> assoc s m = None ->
  drinv r c (assoc_set s q m).
Proof.
  intros [K V I] Cr Cc Qr Qc Qt An. constructor.
  - intros x y. rewrite assoc_set_spec. destruct (name_eqb_spec x s) as [->|Hne]; [intros _; auto|apply K].
  - intros x y. rewrite assoc_set_spec. destruct (name_eqb_spec x s) as [->|Hne]; [intros [= <-]; auto|apply V].
  - intros x x' y. rewrite !assoc_set_spec.
    destruct (name_eqb_spec x s) as [->|Hx], (name_eqb_spec x' s) as [->|Hx']; auto.
    + intros [= <-] A. apply in_vals in A. congruence.
    + intros A [= <-]. apply in_vals in A. congruence.
    + apply I.
Qed.

Lemma NoDup_app_left {A} (l1 l2 : list A) : NoDup (l1 ++ l2) -> NoDup l1.
Proof. induction l1 as [|a l1 IH]; simpl; intros H; [constructor|]. inversion H as [|x y Hn Hd]; subst. constructor; [|now apply IH]. intros Hin. apply Hn. apply in_or_app. now left. Qed.

Section Build.
  Variables r c : rep.
  Hypothesis Pc : pinv c.

  Let inner := fun (k : nat) (acc : res (list (name * name))) (s : name) =>
                 match acc with
                 | Raise e => Raise e
                 | Ok m =>
                     if containsSimplex r s then
                       match disj_search (S (length (r_simp r) + length (r_simp c) + length m)) r c (map snd m) s k 1 with
                       | Some q => Ok (assoc_set s q m)
                       | None => Raise OutOfFuel
                       end
                     else Ok m
                 end.

  (* after the simplices in `done` (all of c, each once): the keys are exactly those of `done` that the receiver has *)
  Definition covers (done : list name) (m : list (name * name)) : Prop :=
    forall s, assoc s m <> None <-> In s done /\ containsSimplex r s = true.

  Lemma inner_raise k L e : fold_left (inner k) L (Raise e) = Raise e.
  Proof. induction L as [|x L IH]; simpl; auto. Qed.

  Lemma inner_fold k : forall L done m m', NoDup (done ++ L) -> (forall s, In s L -> containsSimplex c s = true) ->
    drinv r c m -> covers done m -> fold_left (inner k) L (Ok m) = Ok m' -> drinv r c m' /\ covers (done ++ L) m'.
  Proof.
    induction L as [|s L IH]; intros done m m' Hnd HL D Cv H; cbn [fold_left] in H.
    - injection H as <-. now rewrite app_nil_r.
    - assert (Hnew : ~ In s done) by (intros Hin; apply NoDup_remove_2 in Hnd; apply Hnd; apply in_or_app; now left).
      assert (An : assoc s m = None).
      { destruct (assoc s m) eqn:A; [|reflexivity]. exfalso. apply Hnew. apply (Cv s). congruence. }
      replace (done ++ s :: L) with ((done ++ [s]) ++ L) in * by (now rewrite <- app_assoc).
      assert (Estep : inner k (Ok m) s = if containsSimplex r s then
                 match disj_search (S (length (r_simp r) + length (r_simp c) + length m)) r c (map snd m) s k 1 with
                 | Some q => Ok (assoc_set s q m) | None => Raise OutOfFuel end else Ok m) by reflexivity.
      rewrite Estep in H. clear Estep.
      destruct (containsSimplex r s) eqn:Cr.
      + destruct (disj_search _ r c (map snd m) s k 1) as [q|] eqn:Es; [|rewrite inner_raise in H; discriminate].
        destruct (disj_search_spec _ _ _ _ _ _ _ _ Es) as (Qr & Qc & Qt).
        apply (IH (done ++ [s]) (assoc_set s q m) m' Hnd); [intros; apply HL; now right| | |exact H].
        * apply drinv_step; auto. apply HL. now left.
        * intros x. rewrite assoc_set_spec, in_app_iff. destruct (name_eqb_spec x s) as [->|Hne].
          -- split; [intros _; split; [right; now left|exact Cr]|discriminate].
          -- rewrite (Cv x). split; [intros [A B]; split; [now left|exact B]|intros [[A|[A|[]]] B]; [auto|congruence]].
      + apply (IH (done ++ [s]) m m' Hnd); [intros; apply HL; now right|exact D| |exact H].
        intros x. rewrite (Cv x), in_app_iff. split; [intros [A B]; split; [now left|exact B]|].
        intros [[A|[A|[]]] B]; [auto|subst x; congruence].
  Qed.

  Theorem createDisjointRenaming_spec m : createDisjointRenaming r c = Ok m ->
    drinv r c m /\ forall s, assoc s m <> None <-> containsSimplex c s = true /\ containsSimplex r s = true.
  Proof.
    unfold createDisjointRenaming. fold inner.
    assert (G : forall ks done m0 m1, NoDup (done ++ concat (map (simplicesOfOrder c) ks)) ->
              (forall k s, In k ks -> In s (simplicesOfOrder c k) -> containsSimplex c s = true) ->
              drinv r c m0 -> covers done m0 ->
              fold_left (fun acc k => fold_left (inner k) (simplicesOfOrder c k) acc) ks (Ok m0) = Ok m1 ->
              drinv r c m1 /\ covers (done ++ concat (map (simplicesOfOrder c) ks)) m1).
    { induction ks as [|k ks IH]; intros done m0 m1 Hnd HL D Cv H; simpl in *.
      - injection H as <-. now rewrite app_nil_r.
      - destruct (fold_left (inner k) (simplicesOfOrder c k) (Ok m0)) as [m2|e] eqn:E.
        + rewrite app_assoc in Hnd.
          assert (N1 : NoDup (done ++ simplicesOfOrder c k)) by (apply NoDup_app_left in Hnd; exact Hnd).
          assert (L1 : forall s, In s (simplicesOfOrder c k) -> containsSimplex c s = true) by (intros s Hs; apply (HL k s); [now left|exact Hs]).
          destruct (inner_fold k (simplicesOfOrder c k) done m0 m2 N1 L1 D Cv E) as [D2 C2].
          rewrite app_assoc. apply (IH (done ++ simplicesOfOrder c k) m2 m1 Hnd); [|exact D2|exact C2|exact H].
          intros k0 s Hk Hs. apply (HL k0 s); [now right|exact Hs].
        + exfalso. clear -H. assert (X : forall ks0, fold_left (fun acc k0 => fold_left (inner k0) (simplicesOfOrder c k0) acc) ks0 (Raise e) = Raise e).
          { induction ks0 as [|k0 ks0 IH0]; simpl; [reflexivity|]. now rewrite inner_raise. }
          rewrite X in H. discriminate. }
    intros H.
    assert (Lst : concat (map (simplicesOfOrder c) (seq 0 (r_nord c))) = simplices c false).
    { rewrite (simplices_by_order c Pc). destruct Pc as [K Pm St Lx].
      replace (length (r_idx c)) with (r_nord c + (length (r_idx c) - r_nord c)) by lia.
      rewrite seq_app, map_app, concat_app.
      rewrite (Cmp.concat_all_nil (map (simplicesOfOrder c) (seq (0 + r_nord c) _))); [now rewrite app_nil_r|].
      intros x Hx. apply in_map_iff in Hx. destruct Hx as (k & <- & Hk). apply in_seq in Hk.
      unfold simplicesOfOrder. destruct (k <? r_nord c) eqn:E; auto. apply Nat.ltb_lt in E. lia. }
    destruct (G (seq 0 (r_nord c)) [] [] m) as [D Cv]; auto.
    - simpl. rewrite Lst. now apply simplices_nodup.
    - intros k s _ Hs. apply (contains_iff_listed c s Pc). eauto.
    - constructor; intros; discriminate.
    - intros s. simpl. split; [intros X; now elim X|intros [[] _]].
    - split; [exact D|]. intros s. rewrite (Cv s). simpl. rewrite Lst, (In_simplices_iff c s Pc). tauto.
  Qed.
End Build.

(* C15: a completed relabelDisjointFrom leaves no name shared with c, and renames only names that collided *)
Theorem relabelDisjointFrom_spec r c r' st mapping : pinv r -> pinv c ->
  relabelDisjointFrom r c = (r', st, Ok mapping) ->
  (forall s, containsSimplex r' s = true -> containsSimplex c s = false) /\
  (forall s t, In (s, t) mapping -> containsSimplex r s = true /\ containsSimplex c s = true /\ containsSimplex c t = false) /\
  (forall s, containsSimplex r s = true -> containsSimplex c s = false -> containsSimplex r' s = true).
Proof.
  intros Pr Pc H. unfold relabelDisjointFrom in H.
  destruct (createDisjointRenaming r c) as [m|e] eqn:Em; [|discriminate].
  destruct (createDisjointRenaming_spec r c Pc m Em) as [[K V I] Cv].
  destruct (relabel_phi r (RMap m) r' st mapping Pr ltac:(discriminate) H) as (Ren & Emap & _).
  pose proof (relabel_phi_dict r m r' st mapping Pr H) as Hum.
  assert (Pr' : pinv r') by (exact (relabel_pinv r (RMap m) r' st (Ok mapping) Pr H)).
  destruct Ren as (_ & _ & _ & Hidx).
  (* the simplices of r' are the images of those of r *)
  assert (Img : forall s, containsSimplex r' s = true <-> exists x, containsSimplex r x = true /\ s = um m x).
  { intros s. rewrite (contains_iff_listed r' s Pr'). split.
    - intros (k & Hk). rewrite simplicesOfOrder_idxk, Hidx in Hk by exact Pr'. apply in_map_iff in Hk.
      destruct Hk as (x & <- & Hx). exists x. rewrite <- simplicesOfOrder_idxk in Hx by exact Pr.
      assert (Cx : containsSimplex r x = true) by (apply (contains_iff_listed r x Pr); eauto).
      split; [exact Cx|]. apply Hum. now apply (In_simplices_iff r x Pr).
    - intros (x & Cx & ->). apply (contains_iff_listed r x Pr) in Cx. destruct Cx as (k & Hk). exists k.
      rewrite simplicesOfOrder_idxk, Hidx by exact Pr'. rewrite simplicesOfOrder_idxk in Hk by exact Pr.
      assert (Cx : containsSimplex r x = true) by (apply (contains_iff_listed r x Pr); exists k; now rewrite simplicesOfOrder_idxk).
      rewrite <- (Hum x) by (now apply (In_simplices_iff r x Pr)). now apply in_map. }
  split; [|split].
  - intros s Cs. apply Img in Cs. destruct Cs as (x & Cx & ->). unfold um. destruct (assoc x m) as [q|] eqn:A.
    + exact (proj2 (V x q A)).
    + destruct (containsSimplex c x) eqn:Cc; [|reflexivity]. exfalso. apply (proj2 (Cv x)); auto.
  - intros s t Hin. rewrite Emap in Hin. unfold changed in Hin. apply in_map_iff in Hin. destruct Hin as (x & [= <- <-] & Hx).
    apply filter_In in Hx. destruct Hx as [Hx Hne]. rewrite (Hum x Hx) in *. unfold um in *.
    destruct (assoc x m) as [q|] eqn:A; [|rewrite name_eqb_refl in Hne; discriminate].
    destruct (K x q A) as [Kr Kc]. destruct (V x q A) as [_ Vc]. auto.
  - intros s Cr Cc. apply Img. exists s. split; [exact Cr|]. unfold um. destruct (assoc s m) as [q|] eqn:A; [|reflexivity].
    destruct (K s q A) as [_ Kc]. congruence.
Qed.
