(* JsonOk.v -- the decoder accepts the encoding of every complex that meets the vertex-set reading
   (C17): at the level of the encoded records, decoding replays exactly the adds of copy(), whose
   success is CopyOk.v.  Plain Coq. *)
From Coq Require Import String ZArith Bool Arith List Lia.
From SV Require Import Names NamesFacts ListFacts Rep Fresh Complex Atomic RepInv Reach Shapes Incidence AddEffect
                       Closed ClosedReach AddBasis BasisInv VInv CopyFaithful Homology World CopyOk.
Import ListNotations.
Open Scope nat_scope.

(* decoding the records of a view and bulk-adding the view build the same representation and end the same way *)
Lemma decode_like_bulk_add hp0 : forall (v : srcview) hp hpb r st ns,
  exists hpd, decode hp r (encode_view hp0 v) =
              (hpd, snd (fst (fst (addFrom_loop hpb r RNone st v ns))),
               bind (snd (addFrom_loop hpb r RNone st v ns)) (fun _ => Ok tt)).
Proof.
  induction v as [|[s [fs h]] rest IH]; intros hp hpb r st ns.
  - exists hp. reflexivity.
  - cbn [encode_view map decode addFrom_loop rl_apply fst snd j_faces j_id j_attr].
    rewrite name_eqb_refl. cbn [negb andb]. rewrite rl_map_none.
    destruct (alloc r) as [r1 h'].
    destruct (addSimplex r1 fs (Some s) (Some h')) as [r2 [id|e]].
    + apply IH.
    + eexists. reflexivity.
Qed.

Theorem json_decode_succeeds src hp0 hp uid : vinv src ->
  exists hp' r', decode hp (empty_rep uid) (encode_view hp0 (view_of src)) = (hp', r', Ok tt).
Proof.
  intros Hv. destruct (copy_new_succeeds src Hv hp uid) as (hpc & c & E).
  unfold copy_new, addSimplicesFrom in E.
  destruct (decode_like_bulk_add hp0 (view_of src) hp hp (empty_rep uid) rl0 []) as (hpd & Ed).
  destruct (addFrom_loop hp (empty_rep uid) RNone rl0 (view_of src) []) as [[[hpa ra] sta] xa].
  injection E as _ _ Ex. cbn [fst snd] in Ed. rewrite Ed, Ex. eauto.
Qed.
