(* DelBasis.v -- what forceDeleteSimplex does to the bases of the other simplices: nothing when a
   simplex of order >= 1 goes; the deleted point disappears from them when a point goes.  Plain Coq. *)
From Coq Require Import String ZArith Bool Arith List Lia.
From SV Require Import Names NamesFacts ListFacts Rep Fresh Complex Atomic RepInv Shapes Incidence AddEffect DelEffect.
Import ListNotations.
Open Scope nat_scope.

Section DelB.
  Variables (r : rep) (s : name) (k i : nat).
  Hypothesis Hinv : sinv r.
  Hypothesis As : assoc s (r_simp r) = Some (k, i).

  Let r' := fst (forceDeleteSimplex r s).
  Let dropped := (S k =? r_nord r) && (length (remove_nth i (idxk r k)) =? 0).

  Lemma d_bas kt : kt < r_nord r' ->
    bask r' kt = (if k =? 0 then del_row i else fun m => m) (if kt =? k then del_col i (bask r k) else bask r kt).
  Proof.
    intros Hkt. pose proof Hinv as [P Lb Ls Sh]. destruct (d_k r s k i Hinv As) as (Hk & _ & _ & Hl).
    unfold r' in Hkt. rewrite (d_nord r s k i Hinv As) in Hkt. fold dropped in Hkt.
    set (bas1 := upd_nth k (del_col i) emptymat (r_bas r)).
    set (bas2 := if k =? 0 then map (del_row i) bas1 else bas1).
    assert (Hb1 : forall j, nth j bas1 emptymat = if j =? k then del_col i (bask r k) else bask r j).
    { intros j. unfold bas1. rewrite nth_upd_nth, Ls. apply Nat.ltb_lt in Hk. now rewrite Hk, andb_true_r. }
    assert (Hl1 : length bas1 = r_nord r) by (unfold bas1; now rewrite length_upd_nth).
    assert (Hraw : bask r' kt = nth kt bas2 emptymat).
    { unfold bask, r', forceDeleteSimplex. rewrite As. cbv zeta. fold bas1. fold bas2.
      rewrite nth_upd_nth_same by exact Hl. fold (idxk r k). fold dropped.
      destruct dropped eqn:Ed; cbn [fst r_bas]; [|reflexivity].
      rewrite nth_remove_nth. now replace (kt <? k) with true by (symmetry; apply Nat.ltb_lt; lia). }
    rewrite Hraw. unfold bas2. destruct (k =? 0) eqn:E0.
    - assert (Hkt2 : kt < length bas1) by (rewrite Hl1; destruct dropped; lia).
      rewrite (nth_map_default _ _ emptymat) by exact Hkt2. now rewrite Hb1.
    - apply Hb1.
  Qed.

  Theorem d_basis t kt it : t <> s -> assoc t (r_simp r) = Some (kt, it) ->
    forall p, In p (basisOf r' t) <-> In p (basisOf r t) /\ p <> s.
  Proof.
    intros Hne At p. pose proof Hinv as [P Lb Ls Sh]. pose proof P as [K Pm St L].
    destruct (d_pos r s k i Hinv As t kt it Hne At) as (Hkt' & At' & Hnei). fold r' in Hkt', At'.
    destruct (proj1 (Pm t kt it) At) as [Hkt Hit].
    destruct (d_k r s k i Hinv As) as (Hk & Hsi & Hil & Hl).
    assert (Hitl : it < length (idxk r kt)) by (apply nth_error_Some; congruence).
    destruct (Sh kt Hkt) as [Hdb _].
    assert (Hraw : basisOf r' t = names_of_col (idxk r' 0) (getcol (newpos k i kt it) (bask r' kt))).
    { unfold basisOf. now rewrite At'. }
    assert (Hold : basisOf r t = names_of_col (idxk r 0) (getcol it (bask r kt))).
    { unfold basisOf. now rewrite At. }
    unfold r' in Hraw at 2. rewrite (d_idx r s k i Hinv As 0) in Hraw. rewrite (d_bas kt Hkt') in Hraw.
    (* the column of t in the (column-deleted) matrix of its order is its old column *)
    assert (Hcol : getcol (newpos k i kt it) (if kt =? k then del_col i (bask r k) else bask r kt) = getcol it (bask r kt)).
    { unfold newpos. destruct (kt =? k) eqn:E.
      - apply Nat.eqb_eq in E. subst kt. specialize (Hnei eq_refl). cbn [andb]. rewrite getcol_del_col.
        f_equal. destruct (i <? it) eqn:E2.
        + apply Nat.ltb_lt in E2. replace (it - 1 <? i) with false by (symmetry; apply Nat.ltb_ge; lia). lia.
        + apply Nat.ltb_ge in E2. now replace (it <? i) with true by (symmetry; apply Nat.ltb_lt; lia).
      - reflexivity. }
    assert (Hnc : newpos k i kt it < ncols (if kt =? k then del_col i (bask r k) else bask r kt)).
    { destruct Hdb as (_ & _ & Hc). unfold newpos. destruct (kt =? k) eqn:E.
      - apply Nat.eqb_eq in E. subst kt. specialize (Hnei eq_refl). cbn [andb]. unfold ncols, del_col in *. simpl.
        rewrite length_remove_nth by lia. destruct (i <? it) eqn:E2; [apply Nat.ltb_lt in E2 | apply Nat.ltb_ge in E2]; lia.
      - cbn [andb]. lia. }
    destruct (k =? 0) eqn:E0.
    - (* a point goes: its row goes from every basis matrix, its name from the point listing *)
      apply Nat.eqb_eq in E0. subst k. rewrite Nat.eqb_refl in Hraw.
      rewrite (getcol_del_row _ _ _ Hnc), Hcol in Hraw.
      assert (Hnd : NoDup (idxk r 0)) by (apply pinv_nodup_order; auto).
      assert (Hlen : length (getcol it (bask r kt)) = length (idxk r 0)) by (apply (length_getcol _ _ _ _ Hdb); exact Hitl).
      rewrite Hraw, Hold, (In_noc_remove _ _ _ _ Hnd Hlen), Hsi. split; intros [H1 H2]; split; auto; congruence.
    - (* a higher simplex goes: no basis changes *)
      replace (0 =? k) with false in Hraw by (symmetry; apply Nat.eqb_neq; apply Nat.eqb_neq in E0; lia).
      rewrite Hcol in Hraw. rewrite Hraw, Hold. split; [|tauto]. intros Hp. split; [exact Hp|].
      intros ->. apply In_names_of_col in Hp. destruct Hp as (j & Hj & _).
      assert (A0 : assoc s (r_simp r) = Some (0, j)) by (apply Pm; split; [lia | exact Hj]).
      rewrite As in A0. injection A0 as A0 _. apply Nat.eqb_neq in E0. lia.
  Qed.
End DelB.
