(* Continuation.v -- the primitive mutators are functions of the observable fields: on observably
   equal complexes they give the same outcome and observably equal results.  With atomicity
   (a rejected request leaves an observably equal complex, Atomic.v) this is C05's "valid calls
   issued afterwards behave as if the rejected one had never been made", for requests that name
   their simplex and bring their attribute dictionary (a generated name or a fresh dictionary
   depends on counters that a rejected call may have advanced).  Plain Coq. *)
From Coq Require Import String ZArith Bool Arith List Lia.
From SV Require Import Names NamesFacts ListFacts Rep Fresh Complex Atomic RepInv Shapes AddEffect CopyAttrs.
Import ListNotations.
Open Scope nat_scope.

Theorem relabelSimplex_respects r1 r2 s q : same_obs r1 r2 ->
  snd (relabelSimplex r1 s q) = snd (relabelSimplex r2 s q) /\
  same_obs (fst (relabelSimplex r1 s q)) (fst (relabelSimplex r2 s q)).
Proof.
  intros Hs. pose proof Hs as (H1 & H2 & H3 & H4 & H5 & H6 & H7).
  unfold relabelSimplex, containsSimplex. rewrite H3.
  destruct (assoc q (r_simp r1)); [split; [reflexivity | exact Hs]|].
  destruct (assoc s (r_simp r1)) as [[k i]|]; [|split; [reflexivity | exact Hs]].
  rewrite H4, H7. split; [reflexivity|]. unfold same_obs. simpl. repeat split; auto.
Qed.

Theorem forceDeleteSimplex_respects r1 r2 s : same_obs r1 r2 ->
  snd (forceDeleteSimplex r1 s) = snd (forceDeleteSimplex r2 s) /\
  same_obs (fst (forceDeleteSimplex r1 s)) (fst (forceDeleteSimplex r2 s)).
Proof.
  intros Hs. pose proof Hs as (H1 & H2 & H3 & H4 & H5 & H6 & H7).
  unfold forceDeleteSimplex. rewrite H3.
  destruct (assoc s (r_simp r1)) as [[k i]|]; [|split; [reflexivity | exact Hs]].
  rewrite H2, H4, H5, H6, H7.
  match goal with |- context [if ?c then _ else _] => destruct c end; split; try reflexivity;
    unfold same_obs; simpl; repeat split; auto.
Qed.

Lemma add_struct_respects r1 r2 k : same_obs r1 r2 -> same_obs (add_struct r1 k) (add_struct r2 k).
Proof.
  intros (H1 & H2 & H3 & H4 & H5 & H6 & H7). unfold add_struct. rewrite H2, H4, H5, H6.
  destruct (r_nord r1 <=? k); cbn [r_nord set_struct]; rewrite ?H2; destruct (S k <? _);
    unfold same_obs; simpl; rewrite ?H2, ?H4, ?H5, ?H6; repeat split; auto.
Qed.

Lemma add_final_respects r1 r2 fs s h k : same_obs r1 r2 -> same_obs (add_final r1 fs s h k) (add_final r2 fs s h k).
Proof.
  intros Hs. pose proof Hs as (H1 & H2 & H3 & H4 & H5 & H6 & H7).
  destruct (same_obs_queries r1 r2 Hs) as (_ & _ & _ & _ & Qb & _).
  destruct k; unfold add_final, idxk, same_obs; cbn [r_uid r_nord r_simp r_idx r_bnd r_bas r_attr]; rewrite ?H1, ?H2, ?H3, ?H4, ?H5, ?H6, ?H7.
  - repeat split; auto.
  - assert (E : flat_map (basisOf r2) fs = flat_map (basisOf r1) fs).
    { apply flat_map_ext. intros a. apply Qb. }
    rewrite E. repeat split; auto.
Qed.

Lemma check_faces_respects r1 r2 k fs : r_simp r2 = r_simp r1 -> check_faces r2 k fs = check_faces r1 k fs.
Proof.
  intros H. induction fs as [|f t IH]; cbn [check_faces]; [reflexivity|]. rewrite H.
  destruct (assoc f (r_simp r1)) as [[fo fi]|]; [|reflexivity]. destruct (S fo =? k); [exact IH | reflexivity].
Qed.

Lemma simplexWithFaces_respects r1 r2 fs : same_obs r1 r2 -> simplexWithFaces r2 fs = simplexWithFaces r1 fs.
Proof.
  intros Hs. destruct (same_obs_queries r1 r2 Hs) as (Qo & _ & Qf & _ & _ & _ & Qs & _).
  unfold simplexWithFaces.
  assert (Eo : all_orders r2 fs = all_orders r1 fs).
  { induction fs as [|f t IH]; simpl; [reflexivity|]. rewrite Qo, IH. reflexivity. }
  rewrite Eo, Qs. destruct (length fs <=? 1); [reflexivity|]. destruct (all_orders r1 fs) as [os|e]; [|reflexivity].
  destruct (forallb _ os); [|reflexivity]. f_equal. f_equal. f_equal. apply filter_ext. intros a. now rewrite Qf.
Qed.

(* whether a named add with its own attributes is accepted, and under which name, is decided by the
   observable fields alone *)
Lemma addSimplex_outcome_respects r1 r2 fs n h : same_obs r1 r2 ->
  snd (addSimplex r1 fs (Some n) (Some h)) = snd (addSimplex r2 fs (Some n) (Some h)).
Proof.
  intros Hs. pose proof Hs as (H1 & H2 & H3 & H4 & H5 & H6 & H7).
  destruct (same_obs_queries r1 r2 Hs) as (_ & _ & _ & _ & _ & Qc & _).
  pose proof (check_faces_respects r1 r2 (length fs - 1) fs H3) as Ec.
  pose proof (simplexWithFaces_respects r1 r2 fs Hs) as Ef.
  unfold addSimplex.
  destruct ((length fs - 1 =? 0) && negb (length fs =? 0)); [reflexivity|].
  rewrite Qc. destruct (containsSimplex r1 n); [reflexivity|].
  destruct (negb (nodupb fs)); [reflexivity|]. rewrite Ec.
  destruct (check_faces r1 (length fs - 1) fs) as [[]|e]; [|reflexivity].
  rewrite H2. destruct (r_nord r1 <=? length fs - 1).
  - destruct (r_nord r1 <? length fs - 1); [reflexivity|].
    destruct (length fs - 1); cbn [fst snd r_nord set_struct];
      repeat match goal with |- context [if ?c then _ else _] => destruct c end; reflexivity.
  - destruct (0 <? length fs - 1).
    + rewrite Ef. destruct (simplexWithFaces r1 fs) as [[?|]|?]; try reflexivity.
      rewrite ?H2. destruct (length fs - 1); cbn [fst snd];
        repeat match goal with |- context [if ?c then _ else _] => destruct c end; reflexivity.
    + rewrite ?H2. destruct (length fs - 1); cbn [fst snd];
        repeat match goal with |- context [if ?c then _ else _] => destruct c end; reflexivity.
Qed.

Theorem addSimplex_respects r1 r2 fs n h : same_obs r1 r2 ->
  snd (addSimplex r1 fs (Some n) (Some h)) = snd (addSimplex r2 fs (Some n) (Some h)) /\
  same_obs (fst (addSimplex r1 fs (Some n) (Some h))) (fst (addSimplex r2 fs (Some n) (Some h))).
Proof.
  intros Hs. pose proof (addSimplex_outcome_respects r1 r2 fs n h Hs) as Ho. split; [exact Ho|].
  destruct (addSimplex r1 fs (Some n) (Some h)) as [r1' x1] eqn:E1.
  destruct (addSimplex r2 fs (Some n) (Some h)) as [r2' x2] eqn:E2.
  simpl in Ho. subst x2. destruct x1 as [id|e]; simpl.
  - destruct (addSimplex_given _ _ _ _ _ _ E1) as (-> & _ & ->).
    destruct (addSimplex_given _ _ _ _ _ _ E2) as (_ & _ & ->).
    apply add_final_respects, add_struct_respects. exact Hs.
  - destruct (addSimplex_atomic _ _ _ _ _ _ E1) as [A1 _]. destruct (addSimplex_atomic _ _ _ _ _ _ E2) as [A2 _].
    unfold same_obs in *. intuition congruence.
Qed.
