(* Gen.v -- model of simplicial/generators.py, TriangularLattice.__init__ and
   EulerIntegrator.  Model file: no proofs. *)
From Coq Require Import String ZArith Bool Arith List.
From SV Require Import Names Rep Complex Homology.
Import ListNotations.
Open Scope nat_scope.

(* sequencing of mutators: stop at the first exception, keeping the state reached *)
Definition bindR {A B} (x : rep * res A) (f : rep -> A -> rep * res B) : rep * res B :=
  match x with (r, Raise e) => (r, Raise e) | (r, Ok a) => f r a end.

(* n calls of c.addSimplex(), collecting the names *)
Fixpoint add_points (n : nat) (r : rep) (acc : list name) : rep * res (list name) :=
  match n with
  | 0 => (r, Ok acc)
  | S n' => bindR (addSimplex r [] None None) (fun r' s => add_points n' r' (acc ++ [s]))
  end.
Fixpoint add_edges (r : rep) (ps : list (list name)) : rep * res unit :=
  match ps with
  | [] => (r, Ok tt)
  | p :: t => bindR (addSimplex r p None None) (fun r' _ => add_edges r' t)
  end.

Definition k_skeleton (k : nat) (r : rep) : rep * res unit :=
  bindR (add_points (S k) r []) (fun r1 ss => add_edges r1 (combs 2 ss)).

Definition k_simplex (k : nat) (id : option name) (attr : option handle) (r : rep) : rep * res unit :=
  match k with
  | 0 => bindR (addSimplex r [] id attr) (fun r' _ => (r', Ok tt))
  | _ => bindR (add_points (S k) r [])
               (fun r1 bs => bindR (c_addSimplexWithBasis r1 bs id attr) (fun r2 _ => (r2, Ok tt)))
  end.

Definition k_void (k : nat) (r : rep) : rep * res unit :=
  let existing := simplicesOfOrder r (S k) in
  bindR (k_simplex (S k) None None r)
        (fun r1 _ =>
           match filter (fun s => negb (memn s existing)) (simplicesOfOrder r1 (S k)) with
           | [] => (r1, Raise IndexError)
           | s :: _ => deleteSimplex r1 s
           end).

Definition ring (n : nat) (r : rep) : rep * res unit :=
  if n <=? 2 then (r, Raise ValueError) else
  bindR (add_points n r [])
        (fun r1 ss =>
           bindR (add_edges r1 (map (fun i => [nth i ss (NInt 0); nth (S i) ss (NInt 0)]) (seq 0 (n - 1))))
                 (fun r2 _ => bindR (addSimplex r2 [nth (n - 1) ss (NInt 0); nth 0 ss (NInt 0)] None None)
                                    (fun r3 _ => (r3, Ok tt)))).

(* ---------- TriangularLattice(r, c) ---------- *)
Definition vtx (cols i j : nat) : name := NInt (Z.of_nat (i * cols + j)).
Fixpoint add_bases (r : rep) (bss : list (list name)) : rep * res unit :=
  match bss with
  | [] => (r, Ok tt)
  | bs :: t => bindR (c_addSimplexWithBasis r bs None None) (fun r' _ => add_bases r' t)
  end.
Fixpoint add_named_points (r : rep) (ns : list name) : rep * res unit :=
  match ns with
  | [] => (r, Ok tt)
  | n :: t => bindR (addSimplex r [] (Some n) None) (fun r' _ => add_named_points r' t)
  end.
Definition lattice_points (rows cols : nat) : list name :=
  flat_map (fun i => map (fun j => vtx cols i j) (seq 0 cols)) (seq 0 rows).
Definition lattice_ns (rows cols : nat) : list (list name) :=
  flat_map (fun i => map (fun j => [vtx cols i j; vtx cols (i + 2) j]) (seq 0 cols)) (seq 0 (rows - 2)).
Definition even (i : nat) : bool := Nat.even i.
Definition lattice_diag (rows cols : nat) : list (list name) :=
  flat_map (fun i =>
    flat_map (fun j =>
      (if negb ((j =? 0) && even i)
       then [[vtx cols i j; vtx cols (S i) (if even i then j - 1 else j)]] else [])
      ++
      (if negb ((j =? cols - 1) && negb (even i))
       then [[vtx cols i j; vtx cols (S i) (if even i then j else S j)]] else []))
      (seq 0 cols)) (seq 0 (rows - 1)).
Definition lattice_tri (rows cols : nat) : list (list name) :=
  flat_map (fun i =>
    flat_map (fun j =>
      (if negb ((j =? 0) && even i)
       then [[vtx cols i j; vtx cols (S i) (if even i then j - 1 else j); vtx cols (i + 2) j]] else [])
      ++
      (if negb ((j =? cols - 1) && negb (even i))
       then [[vtx cols i j; vtx cols (i + 2) j; vtx cols (S i) (if even i then j else S j)]] else []))
      (seq 0 cols)) (seq 0 (rows - 2)).
Definition triangularLattice (rows cols : nat) (uid : nat) : rep * res unit :=
  bindR (add_named_points (empty_rep uid) (lattice_points rows cols))
        (fun r1 _ => bindR (add_bases r1 (lattice_ns rows cols))
        (fun r2 _ => bindR (add_bases r2 (lattice_diag rows cols))
        (fun r3 _ => add_bases r3 (lattice_tri rows cols)))).

(* ---------- EulerIntegrator ---------- *)
Definition metric (hp : heap) (r : rep) (a : string) (default : Z) (s : name) : res Z :=
  match assoc s (r_attr r) with
  | None => Raise KeyError
  | Some h => match dict_get (heap_get hp h) a with
              | Some (AInt z) => Ok z
              | Some (AStr _) => Raise TypeError          (* non-numeric metric: outside the contract *)
              | None => Ok default
              end
  end.
Definition metric0 (hp : heap) (r : rep) (a : string) (default : Z) (s : name) : Z :=
  match metric hp r a default s with Ok z => z | Raise _ => default end.
(* levelSet(c, l): restrict c to the points whose metric exceeds l (destructive) *)
Definition levelSet (hp : heap) (r : rep) (a : string) (default : Z) (l : Z) : rep * res unit :=
  restrictBasisTo r (filter (fun s => match orderOf r s with Ok 0 => (l <? metric0 hp r a default s)%Z | _ => false end)
                            (simplices r false)).
(* integrate(c): works on a deep copy; attributes are never written, so the copy keeps the handles *)
Definition integrate (hp : heap) (c : rep) (a : string) (default : Z) : res Z :=
  (* a non-numeric metric anywhere makes max() / range() raise TypeError *)
  if existsb (fun s => match metric hp c a default s with Ok _ => false | Raise _ => true end) (simplices c false)
  then Raise TypeError else
  let maxH := fold_right Z.max 0%Z (map (metric0 hp c a default) (simplices c false)) in
  let '(_, x) :=
    fold_left (fun (acc : rep * res Z) (l : nat) =>
                 match acc with
                 | (r, Raise e) => acc
                 | (r, Ok acc_a) =>
                     match levelSet hp r a default (Z.of_nat l) with
                     | (r', Raise e) => (r', Raise e)
                     | (r', Ok _) => (r', Ok (acc_a + eulerCharacteristic r')%Z)
                     end
                 end) (seq 0 (Z.to_nat maxH)) (c, Ok 0%Z) in
  x.
