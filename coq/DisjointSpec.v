(* DisjointSpec.v -- C04: disjoint(ss), for simplices of a complex that meets the vertex-set reading, answers True
   exactly when no two of the listed simplices (two occurrences of one simplex included) have a point in common --
   i.e. when their closures are pairwise disjoint -- and never raises.  Plain Coq. *)
From Coq Require Import String ZArith Bool Arith List Lia.
From SV Require Import Names NamesFacts ListFacts Rep Fresh Complex Atomic RepInv Reach Shapes Incidence AddEffect
                       Closed ClosedReach AddBasis BasisInv VInv AwbSpec VSets Restrict.
Import ListNotations.
Open Scope nat_scope.

Definition cl (r : rep) (s : name) : list name := match closureOf r s false false with Ok L => L | Raise _ => [] end.
Definition meet (r : rep) (s t : name) : Prop := exists u, In u (cl r s) /\ In u (cl r t).

Lemma closureOf_ok r s : containsSimplex r s = true -> closureOf r s false false = Ok (cl r s).
Proof.
  intros C. unfold cl, closureOf. unfold containsSimplex in C. unfold orderOf.
  destruct (assoc s (r_simp r)) as [[k j]|]; [reflexivity|discriminate].
Qed.

Lemma intern_empty a b : (length (intern a b) =? 0) = true <-> forall x, In x a -> In x b -> False.
Proof.
  unfold intern. rewrite Nat.eqb_eq, length_zero_iff_nil. split.
  - intros E x Ha Hb. assert (Hin : In x (filter (fun y => memn y b) a)) by (apply filter_In; split; [exact Ha|now apply memn_In]).
    rewrite E in Hin. destruct Hin.
  - intros H. destruct (filter (fun y => memn y b) a) as [|x l] eqn:E; [reflexivity|]. exfalso.
    assert (Hin : In x (filter (fun y => memn y b) a)) by (rewrite E; now left).
    apply filter_In in Hin. destruct Hin as [Ha Hb]. apply memn_In in Hb. eauto.
Qed.

Section D.
  Variable r : rep.
  Let step := fun (acc : res (bool * option (list name))) (s : name) =>
               match acc with
               | Raise e => Raise e
               | Ok (false, c) => Ok (false, c)
               | Ok (true, None) => bind (closureOf r s false false) (fun c => Ok (true, Some c))
               | Ok (true, Some c0) =>
                   bind (closureOf r s false false)
                        (fun c => if length (intern c0 c) =? 0 then Ok (true, Some (unionn c0 c)) else Ok (false, Some c0))
               end.

  Lemma fold_false ss c : (forall s, In s ss -> containsSimplex r s = true) ->
    exists c', fold_left step ss (Ok (false, c)) = Ok (false, c').
  Proof. revert c. induction ss as [|s ss IH]; intros c H; simpl; [eauto|]. apply IH. intros; apply H; now right. Qed.

  (* with the union U of the closures seen so far: True exactly when nothing listed meets U and no two listed meet *)
  Lemma fold_some : forall ss U, (forall s, In s ss -> containsSimplex r s = true) ->
    exists b c, fold_left step ss (Ok (true, Some U)) = Ok (b, c) /\
      (b = true <-> (forall s x, In s ss -> In x U -> In x (cl r s) -> False) /\ ForallOrdPairs (fun s t => ~ meet r s t) ss).
  Proof.
    induction ss as [|s ss IH]; intros U H.
    - exists true, (Some U). split; [reflexivity|]. split; [intros _; split; [intros s x []|constructor]|reflexivity].
    - cbn [fold_left]. unfold step at 2. rewrite (closureOf_ok r s (H s (or_introl eq_refl))). cbn [bind].
      destruct (length (intern U (cl r s)) =? 0) eqn:E.
      + pose proof (proj1 (intern_empty U (cl r s)) E) as E0. clear E. rename E0 into E.
        destruct (IH (unionn U (cl r s)) (fun t Ht => H t (or_intror Ht))) as (b & c & Ef & Hb).
        exists b, c. split; [exact Ef|]. rewrite Hb. split.
        * intros [H1 H2]. split.
          -- intros t x [<-|Ht] Hx Hc; [eapply E; eauto|]. apply (H1 t x Ht); [apply In_unionn; now left|exact Hc].
          -- constructor; [|exact H2]. apply Forall_forall. intros t Ht (u & Hu1 & Hu2).
             apply (H1 t u Ht); [apply In_unionn; now right|exact Hu2].
        * intros [H1 H2]. inversion H2 as [|a l Hfa Hrest]; subst. split.
          -- intros t x Ht Hx Hc. apply In_unionn in Hx. destruct Hx as [Hx|Hx].
             ++ apply (H1 t x (or_intror Ht) Hx Hc).
             ++ rewrite Forall_forall in Hfa. apply (Hfa t Ht). exists x. auto.
          -- exact Hrest.
      + destruct (fold_false ss (Some U) (fun t Ht => H t (or_intror Ht))) as (c' & Ef).
        exists false, c'. split; [exact Ef|]. split; [discriminate|]. intros [H1 _]. exfalso.
        assert (E' : (length (intern U (cl r s)) =? 0) = true).
        { apply (proj2 (intern_empty U (cl r s))). intros x Hx Hc. apply (H1 s x (or_introl eq_refl) Hx Hc). }
        congruence.
  Qed.

  Theorem disjoint_spec ss : (forall s, In s ss -> containsSimplex r s = true) ->
    exists b, disjoint r ss = Ok b /\ (b = true <-> ForallOrdPairs (fun s t => ~ meet r s t) ss).
  Proof.
    intros H. unfold disjoint. fold step. destruct ss as [|s ss].
    - exists true. split; [reflexivity|]. split; [constructor|reflexivity].
    - cbn [fold_left]. unfold step at 2. rewrite (closureOf_ok r s (H s (or_introl eq_refl))). cbn [bind].
      destruct (fold_some ss (cl r s) (fun t Ht => H t (or_intror Ht))) as (b & c & Ef & Hb).
      exists b. rewrite Ef. split; [reflexivity|]. rewrite Hb. split.
      + intros [H1 H2]. constructor; [|exact H2]. apply Forall_forall. intros t Ht (u & Hu1 & Hu2). eapply H1; eauto.
      + intros H2. inversion H2 as [|a l Hfa Hrest]; subst. split; [|exact Hrest].
        intros t x Ht Hx Hc. rewrite Forall_forall in Hfa. apply (Hfa t Ht). exists x. auto.
  Qed.
End D.

(* in vertex sets: two simplices meet exactly when they have a point in common *)
Theorem meet_iff_common_point r s t : vinv r -> containsSimplex r s = true -> containsSimplex r t = true ->
  (meet r s t <-> exists p, In p (basisOf r s) /\ In p (basisOf r t)).
Proof.
  intros Hv Cs Ct. pose proof (closureOf_is_subsets r s false (cl r s) Hv Cs (closureOf_ok r s Cs)) as Ss.
  pose proof (closureOf_is_subsets r t false (cl r t) Hv Ct (closureOf_ok r t Ct)) as St.
  split.
  - intros (u & Hu1 & Hu2). apply Ss in Hu1. apply St in Hu2. destruct Hu1 as [Cu I1]. destruct Hu2 as [_ I2].
    apply (contains_assoc r) in Cu. destruct Cu as (k & j & Au).
    destruct (basisOf r u) as [|p l] eqn:E; [pose proof (v_card r Hv u k j Au) as X; rewrite E in X; discriminate|].
    exists p. split; [apply I1|apply I2]; now left.
  - intros (p & H1 & H2).
    destruct (closed_under_subsets r Hv s [p] Cs) as (u & Cu & Su).
    { constructor; [intros []|constructor]. } { discriminate. } { intros x [<-|[]]; exact H1. }
    exists u. split; [apply Ss|apply St]; (split; [exact Cu|]); intros x Hx; apply Su in Hx; destruct Hx as [<-|[]]; assumption.
Qed.
