(* VInv.v -- the vertex-set reading: in a complex built by in-contract operations a simplex IS its
   basis -- a simplex of order k has a basis of exactly k+1 points and no two simplices share a
   basis (C01).  Kept by addSimplex whenever the faces offered span exactly |fs| points not already
   spanned by a simplex, by relabelSimplex and by deleteSimplex.  Plain Coq. *)
From Coq Require Import String ZArith Bool Arith List Lia.
From SV Require Import Names NamesFacts ListFacts Rep Fresh Complex Atomic RepInv Reach Shapes Incidence AddEffect
                       DelEffect StarOrder Closed ClosedReach RelabelProofs RelabelAll Duality AddBasis DelBasis BasisInv.
Import ListNotations.
Open Scope nat_scope.

Definition sameset (a b : list name) : Prop := forall x, In x a <-> In x b.

Record vinv (r : rep) : Prop := {
  v_b : bcinv r;
  v_card : forall t k j, assoc t (r_simp r) = Some (k, j) -> length (basisOf r t) = S k;
  v_uniq : forall t u, containsSimplex r t = true -> containsSimplex r u = true ->
           sameset (basisOf r t) (basisOf r u) -> t = u }.

Lemma vinv_empty uid : vinv (empty_rep uid).
Proof.
  constructor; [apply bcinv_empty| |].
  - intros t k j H. discriminate.
  - intros t u H. discriminate.
Qed.

Lemma vinv_same_obs r r' : same_obs r r' -> vinv r -> vinv r'.
Proof.
  intros Hs [B C U]. destruct (same_obs_queries r r' Hs) as (_ & _ & _ & _ & Qb & Qc & _).
  pose proof Hs as (_ & _ & Hsimp & _).
  constructor; [eapply bcinv_same_obs; eauto| |].
  - intros t k j H. rewrite Hsimp in H. rewrite Qb. eapply C; eauto.
  - intros t u Ht Hu Hss. rewrite Qc in Ht, Hu. apply U; auto. intros x. rewrite <- !Qb. apply Hss.
Qed.

(* what the faces offered to addSimplex must look like for the vertex-set reading to survive: they
   span exactly |fs| points, and no simplex spans those points already *)
Definition span (r : rep) (fs : list name) (B : list name) : Prop :=
  NoDup B /\ forall p, In p B <-> exists f, In f fs /\ In p (basisOf r f).
Definition good_faces (r : rep) (fs : list name) : Prop :=
  fs = [] \/ forall B, span r fs B ->
             length B = length fs /\ forall t, containsSimplex r t = true -> ~ sameset (basisOf r t) B.

Lemma NoDup_sameset_length (a b : list name) : NoDup a -> NoDup b -> sameset a b -> length a = length b.
Proof. intros. apply NoDup_same_length; auto. Qed.

Theorem addSimplex_vinv r fs id attr r' x : vinv r -> good_faces r fs -> addSimplex r fs id attr = (r', x) -> vinv r'.
Proof.
  intros [B C U] Hg H. destruct x as [n|e].
  2: { apply addSimplex_atomic in H. destruct H as [Hs _]. eapply vinv_same_obs; eauto. constructor; auto. }
  pose proof (c_s r (b_c r B)) as HS.
  assert (B' : bcinv r') by (eapply addSimplex_bcinv; eauto).
  pose proof (c_s r' (b_c r' B')) as HS'.
  destruct (addSimplex_effect r fs id attr r' n HS H) as (Hnew & Hnd & Ho & Hf & Hold & Hall).
  pose proof H as H2. apply addSimplex_eq2 in H2. destruct H2 as (r2 & h & Hs & Hc2 & _ & Hchk & Hk0 & Hk & Er').
  assert (Hinv2 : sinv r2) by (eapply sinv_same_obs; eauto).
  destruct (same_obs_queries r r2 Hs) as (_ & _ & _ & _ & Qb & Qc & _).
  (* the basis of the new simplex *)
  assert (Hnb : (fs = [] /\ basisOf r' n = [n]) \/
                (fs <> [] /\ forall p, In p (basisOf r' n) <-> exists f, In f fs /\ In p (basisOf r f))).
  { destruct (length fs - 1) as [|k'] eqn:Ek.
    - assert (fs = []) by (apply Hk0; reflexivity). subst fs. left. split; [reflexivity|].
      rewrite Er'. apply (v_new_basis r2 n h Hinv2 Hc2).
    - right. split; [intros ->; simpl in Ek; discriminate|]. intros p.
      rewrite Er'. rewrite add_hi_eq. rewrite (hi_new_basis r2 fs n h (S k') k' Hinv2 eq_refl ltac:(lia) Hc2 p).
      split; intros (f & Hfin & Hp); exists f; split; auto; now rewrite ?Qb in *. }
  assert (Hbn : forall t, containsSimplex r t = true -> basisOf r' t = basisOf r t).
  { intros t Ht. now destruct (Hold t Ht) as (_ & _ & _ & Bt). }
  assert (Hnn : forall t, containsSimplex r t = true -> t <> n) by (intros t Ht ->; congruence).
  constructor; [exact B'| |].
  - (* cardinalities *)
    intros t k j At.
    assert (Hc' : containsSimplex r' t = true) by (unfold containsSimplex; now rewrite At).
    rewrite Hall in Hc'. destruct (name_eqb_spec t n) as [->|Hne].
    + unfold orderOf in Ho. rewrite At in Ho. injection Ho as Ho.
      destruct Hnb as [[-> Hb]|[Hne Hb]].
      * rewrite Hb. simpl in Ho. simpl. lia.
      * destruct Hg as [->|Hg]; [contradiction|].
        assert (Hsp : span r fs (basisOf r' n)) by (split; [apply basis_nodup, (s_p r' HS') | exact Hb]).
        destruct (Hg _ Hsp) as [Hlen _]. rewrite Hlen. destruct fs; [contradiction | simpl in *; lia].
    + rewrite orb_false_r in Hc'. rewrite (Hbn t Hc'). destruct (Hold t Hc') as (O & I & _ & _).
      unfold orderOf, indexOf in O, I. rewrite At in O, I.
      destruct (assoc t (r_simp r)) as [[k2 i2]|] eqn:A2; [|discriminate]. injection O as <-. eapply C; eauto.
  - (* uniqueness *)
    intros t u Ht Hu Hss. rewrite Hall in Ht, Hu.
    destruct (name_eqb_spec t n) as [->|Hnt]; destruct (name_eqb_spec u n) as [->|Hnu]; try reflexivity.
    + (* t = n is new, u is old *)
      rewrite orb_false_r in Hu. exfalso. rewrite (Hbn u Hu) in Hss.
      destruct Hnb as [[-> Hb]|[Hne Hb]].
      * (* a new point: its basis is itself, which no old simplex has in its basis *)
        rewrite Hb in Hss. assert (Hin : In n (basisOf r u)) by (apply Hss; now left).
        unfold basisOf in Hin. unfold containsSimplex in Hu. destruct (assoc u (r_simp r)) as [[ku ju]|]; [|discriminate].
        apply In_names_of_col_sub in Hin. pose proof (s_p r HS) as [K Pm St L].
        apply In_nth_error in Hin. destruct Hin as (i0 & Hi0).
        assert (A0 : assoc n (r_simp r) = Some (0, i0)).
        { apply Pm. split; [|exact Hi0]. destruct (Nat.lt_ge_cases 0 (r_nord r)) as [Hl|Hl]; [exact Hl|].
          rewrite (St 0 Hl) in Hi0. destruct i0; discriminate. }
        unfold containsSimplex in Hnew. rewrite A0 in Hnew. discriminate.
      * destruct Hg as [->|Hg]; [contradiction|].
        assert (Hsp : span r fs (basisOf r' n)) by (split; [apply basis_nodup, (s_p r' HS') | exact Hb]).
        destruct (Hg _ Hsp) as [_ Hno]. apply (Hno u Hu). intros x0. symmetry. apply Hss.
    + rewrite orb_false_r in Ht. exfalso. rewrite (Hbn t Ht) in Hss.
      destruct Hnb as [[-> Hb]|[Hne Hb]].
      * rewrite Hb in Hss. assert (Hin : In n (basisOf r t)) by (apply Hss; now left).
        unfold basisOf in Hin. unfold containsSimplex in Ht. destruct (assoc t (r_simp r)) as [[kt jt]|]; [|discriminate].
        apply In_names_of_col_sub in Hin. pose proof (s_p r HS) as [K Pm St L].
        apply In_nth_error in Hin. destruct Hin as (i0 & Hi0).
        assert (A0 : assoc n (r_simp r) = Some (0, i0)).
        { apply Pm. split; [|exact Hi0]. destruct (Nat.lt_ge_cases 0 (r_nord r)) as [Hl|Hl]; [exact Hl|].
          rewrite (St 0 Hl) in Hi0. destruct i0; discriminate. }
        unfold containsSimplex in Hnew. rewrite A0 in Hnew. discriminate.
      * destruct Hg as [->|Hg]; [contradiction|].
        assert (Hsp : span r fs (basisOf r' n)) by (split; [apply basis_nodup, (s_p r' HS') | exact Hb]).
        destruct (Hg _ Hsp) as [_ Hno]. apply (Hno t Ht). exact Hss.
    + rewrite orb_false_r in Ht, Hu. apply U; auto. intros x0. rewrite <- (Hbn t Ht), <- (Hbn u Hu). apply Hss.
Qed.

(* ---------- renaming ---------- *)
Theorem relabelSimplex_vinv r s q r' x : vinv r -> relabelSimplex r s q = (r', x) -> vinv r'.
Proof.
  intros [B C U] H. destruct x as [[]|e].
  2: { apply relabelSimplex_atomic in H. destruct H as [-> _]. constructor; auto. }
  pose proof (c_s r (b_c r B)) as HS. pose proof (s_p r HS) as P.
  assert (B' : bcinv r') by (eapply relabelSimplex_bcinv; eauto).
  pose proof (s_p r' (c_s r' (b_c r' B'))) as P'.
  destruct (relabelSimplex_carries r s q r' P H) as (Eb & Es & En & Ei & _).
  assert (Hren : renamed_by (ren1 s q) r r') by (repeat split; auto).
  assert (Hq : containsSimplex r q = false).
  { unfold relabelSimplex in H. destruct (containsSimplex r q); [discriminate | reflexivity]. }
  pose proof P as [K Pm St L]. pose proof P' as [K' Pm' St' L'].
  (* every simplex of r' is the image of one of r, with the image basis *)
  assert (Hpre : forall t k j, assoc t (r_simp r') = Some (k, j) ->
            exists t0, ren1 s q t0 = t /\ assoc t0 (r_simp r) = Some (k, j) /\ basisOf r' t = map (ren1 s q) (basisOf r t0)).
  { intros t k j At. destruct (proj1 (Pm' t k j) At) as [Hk Hj].
    rewrite Ei, nth_error_map in Hj. destruct (nth_error (idxk r k) j) as [t0|] eqn:E0; [|discriminate].
    simpl in Hj. injection Hj as <-.
    assert (A0 : assoc t0 (r_simp r) = Some (k, j)) by (apply Pm; split; [lia | exact E0]).
    destruct (renamed_structure (ren1 s q) r r' P P' Hren t0 k j A0) as (_ & _ & _ & Ba). eauto. }
  (* ren1 s q is injective on the names of r *)
  assert (Hinj : forall a b, containsSimplex r a = true -> containsSimplex r b = true -> ren1 s q a = ren1 s q b -> a = b).
  { intros a b Ha Hb. unfold ren1. destruct (name_eqb_spec a s) as [->|Has]; destruct (name_eqb_spec b s) as [->|Hbs]; auto.
    - intros <-. congruence.
    - intros ->. congruence. }
  assert (Hbc : forall t p, In p (basisOf r t) -> containsSimplex r p = true).
  { intros t p Hp. unfold basisOf in Hp. destruct (assoc t (r_simp r)) as [[kt jt]|]; [|destruct Hp].
    apply In_names_of_col_sub in Hp. apply In_nth_error in Hp. destruct Hp as (i0 & Hi0).
    assert (A0 : assoc p (r_simp r) = Some (0, i0)).
    { apply Pm. split; [|exact Hi0]. destruct (Nat.lt_ge_cases 0 (r_nord r)) as [Hl|Hl]; [exact Hl|].
      rewrite (St 0 Hl) in Hi0. destruct i0; discriminate. }
    unfold containsSimplex. now rewrite A0. }
  constructor; [exact B'| |].
  - intros t k j At. destruct (Hpre t k j At) as (t0 & _ & A0 & ->). rewrite map_length. eapply C; eauto.
  - intros t u Ht Hu Hss. unfold containsSimplex in Ht, Hu.
    destruct (assoc t (r_simp r')) as [[kt jt]|] eqn:At; [|discriminate].
    destruct (assoc u (r_simp r')) as [[ku ju]|] eqn:Au; [|discriminate].
    destruct (Hpre t kt jt At) as (t0 & <- & A0 & Bt). destruct (Hpre u ku ju Au) as (u0 & <- & A1 & Bu).
    f_equal. apply U; [unfold containsSimplex; now rewrite A0 | unfold containsSimplex; now rewrite A1|].
    intros p. rewrite Bt, Bu in Hss. split; intros Hp.
    + assert (Hi : In (ren1 s q p) (map (ren1 s q) (basisOf r u0))) by (apply Hss; now apply in_map).
      apply in_map_iff in Hi. destruct Hi as (p' & Ep & Hp'). assert (p' = p); [|now subst].
      apply Hinj; eauto.
    + assert (Hi : In (ren1 s q p) (map (ren1 s q) (basisOf r t0))) by (apply Hss; now apply in_map).
      apply in_map_iff in Hi. destruct Hi as (p' & Ep & Hp'). assert (p' = p); [|now subst].
      apply Hinj; eauto.
Qed.

(* ---------- deletion ---------- *)
Lemma basis_member_has_coface r t k j s : bcinv r -> assoc t (r_simp r) = Some (k, j) -> t <> s ->
  In s (basisOf r t) -> exists u, In u (cofaces r s).
Proof.
  intros Bc At Hne Hin. pose proof (c_s r (b_c r Bc)) as HS.
  apply (basis_is_closure_points r Bc k t j At s) in Hin.
  apply (chain_duality r HS k t s) in Hin. destruct k as [|k]; [simpl in Hin; congruence|].
  simpl in Hin. destruct Hin as (u & Hu & _). eauto.
Qed.

Theorem forceDelete_vinv r s r' x : vinv r -> cofaces r s = [] -> forceDeleteSimplex r s = (r', x) -> vinv r'.
Proof.
  intros [B C U] Hco H. destruct x as [[]|e].
  2: { apply forceDeleteSimplex_atomic in H. destruct H as [-> _]. constructor; auto. }
  pose proof (c_s r (b_c r B)) as HS.
  assert (B' : bcinv r') by (eapply forceDelete_bcinv; eauto).
  destruct (assoc s (r_simp r)) as [[k i]|] eqn:As; [|unfold forceDeleteSimplex in H; rewrite As in H; discriminate].
  assert (Er : r' = fst (forceDeleteSimplex r s)) by (now rewrite H). subst r'.
  pose proof (d_sinv r s k i HS As) as HS'.
  (* the bases of the survivors are what they were *)
  assert (Hsame : forall t kt it, t <> s -> assoc t (r_simp r) = Some (kt, it) ->
            sameset (basisOf (fst (forceDeleteSimplex r s)) t) (basisOf r t)).
  { intros t kt it Hne At p. rewrite (d_basis r s k i HS As t kt it Hne At p). split; [tauto|].
    intros Hp. split; [exact Hp|]. intros ->.
    destruct (basis_member_has_coface r t kt it s B At Hne Hp) as (u & Hu). rewrite Hco in Hu. destruct Hu. }
  assert (Hsurv : forall t, containsSimplex (fst (forceDeleteSimplex r s)) t = true ->
            t <> s /\ exists kt it, assoc t (r_simp r) = Some (kt, it)).
  { intros t Ht. destruct (d_sub r s k i HS As t Ht) as [Hc Hne]. split; [exact Hne|].
    unfold containsSimplex in Hc. destruct (assoc t (r_simp r)) as [[kt it]|]; [eauto | discriminate]. }
  constructor; [exact B'| |].
  - intros t kt' j At.
    assert (Hc' : containsSimplex (fst (forceDeleteSimplex r s)) t = true) by (unfold containsSimplex; now rewrite At).
    destruct (Hsurv t Hc') as (Hne & kt & it & A0).
    destruct (d_pos r s k i HS As t kt it Hne A0) as (_ & At' & _). rewrite At in At'. injection At' as <- _.
    rewrite (NoDup_sameset_length _ _ (basis_nodup _ t (s_p _ HS')) (basis_nodup r t (s_p r HS)) (Hsame t kt' it Hne A0)).
    eapply C; eauto.
  - intros t u Ht Hu Hss. destruct (Hsurv t Ht) as (Hnt & kt & it & At). destruct (Hsurv u Hu) as (Hnu & ku & iu & Au).
    apply U; [unfold containsSimplex; now rewrite At | unfold containsSimplex; now rewrite Au|].
    intros p. rewrite <- (Hsame t kt it Hnt At p), <- (Hsame u ku iu Hnu Au p). apply Hss.
Qed.

(* the walk of deleteSimplex, for any invariant that forceDeleteSimplex keeps on simplices without cofaces *)
Lemma fold_delete_any (I : rep -> Prop) :
  (forall r, I r -> sinv r) ->
  (forall r s r' x, I r -> cofaces r s = [] -> forceDeleteSimplex r s = (r', x) -> I r') ->
  forall (L : list name) rc,
  I rc -> NoDup L -> (forall t, In t L -> containsSimplex rc t = true) ->
  (forall i t u, nth_error L i = Some t -> In u (cofaces rc t) -> exists j, j < i /\ nth_error L j = Some u) ->
  forall r' x, fold_left del_step L (rc, Ok tt) = (r', x) -> I r'.
Proof.
  intros HIs HId. induction L as [|t L IH]; intros rc Hc Hnd Hin Hco r' x H; simpl in H.
  - now injection H as <- _.
  - inversion Hnd as [|y ys Hy Hys]; subst.
    assert (Hco0 : cofaces rc t = []).
    { destruct (cofaces rc t) as [|u l] eqn:E; [reflexivity|]. exfalso.
      destruct (Hco 0 t u eq_refl) as (j & Hj & _); [rewrite E; now left | lia]. }
    assert (Hct : containsSimplex rc t = true) by (apply Hin; now left).
    unfold containsSimplex in Hct. destruct (assoc t (r_simp rc)) as [[k i]|] eqn:At; [|discriminate].
    pose proof (del_ok rc t k i At) as Hok. rewrite Hok in H.
    set (r1 := fst (forceDeleteSimplex rc t)) in *.
    pose proof (HIs rc Hc) as HSc.
    assert (Hc1 : I r1) by (apply (HId rc t r1 (Ok tt) Hc Hco0 Hok)).
    refine (IH r1 Hc1 Hys _ _ r' x H).
    + intros t' Ht'. assert (Hne : t' <> t) by (intros ->; contradiction).
      assert (Hc' : containsSimplex rc t' = true) by (apply Hin; now right).
      unfold containsSimplex in Hc'. destruct (assoc t' (r_simp rc)) as [[k2 i2]|] eqn:A2; [|discriminate].
      destruct (d_pos rc t k i HSc At t' k2 i2 Hne A2) as (_ & A' & _).
      unfold containsSimplex. fold r1 in A'. now rewrite A'.
    + intros i' t' u Hi' Hu. assert (Ht' : In t' L) by (eapply nth_error_In; eauto).
      assert (Hne : t' <> t) by (intros ->; contradiction).
      assert (Hc' : containsSimplex rc t' = true) by (apply Hin; now right).
      apply (d_cofaces rc t k i HSc At t' Hne Hc' u) in Hu. destruct Hu as [Hu Hut].
      destruct (Hco (S i') t' u Hi' Hu) as (j & Hj & Hju). destruct j as [|j].
      * simpl in Hju. congruence.
      * exists j. split; [lia | exact Hju].
Qed.

Theorem deleteSimplex_vinv r s r' x : vinv r -> deleteSimplex r s = (r', x) -> vinv r'.
Proof.
  intros Hc H. unfold deleteSimplex in H.
  destruct (partOf r s true false) as [L|e] eqn:EP; [|now injection H as <- _].
  assert (Hk : exists k is, assoc s (r_simp r) = Some (k, is)).
  { unfold partOf, orderOf in EP. destruct (assoc s (r_simp r)) as [[k is]|]; [eauto | discriminate]. }
  destruct Hk as (k & is & As).
  assert (HIs : forall r0, vinv r0 -> sinv r0) by (intros r0 Hv; exact (c_s r0 (b_c r0 (v_b r0 Hv)))).
  destruct (star_positions r (HIs r Hc) s k is L As EP) as (Hnd & Hin & Hpos).
  exact (fold_delete_any vinv HIs forceDelete_vinv L r Hc Hnd Hin Hpos r' x H).
Qed.
