(* EqSets.v -- a == b forces the same set of simplices (C10): complexes that differ in any simplex
   (a highest-order one, a lone point, ...) are never equal.  Plain Coq. *)
From Coq Require Import String ZArith Bool Arith List Lia.
From SV Require Import Names NamesFacts ListFacts Rep Fresh Complex Atomic RepInv Cmp Shapes CopyFaithful.
Import ListNotations.
Open Scope nat_scope.

Lemma NoDup_incl_same_length_incl (l1 l2 : list name) : NoDup l1 -> NoDup l2 -> incl l1 l2 -> length l1 = length l2 -> incl l2 l1.
Proof.
  intros N1 N2 I E x Hx. destruct (in_dec name_eq_dec x l1) as [H|H]; [exact H|]. exfalso.
  assert (Hi : incl (x :: l1) l2) by (intros y [<-|Hy]; auto).
  assert (Hn : NoDup (x :: l1)) by (constructor; auto).
  pose proof (NoDup_incl_length Hn Hi) as Hl. simpl in Hl. lia.
Qed.

Theorem eq_same_simplices a b : pinv a -> pinv b -> c_eq a b = true ->
  forall s, containsSimplex a s = containsSimplex b s.
Proof.
  intros Pa Pb H s. unfold c_eq in H. apply andb_prop in H. destruct H as [Hle Hn]. apply Nat.eqb_eq in Hn.
  rewrite !numberOfSimplices_length in Hn by assumption.
  assert (Hincl : incl (simplices a false) (simplices b false)).
  { intros x Hx. apply In_simplices_iff in Hx; [|exact Pa]. apply In_simplices_iff; [exact Pb|].
    apply le_iff in Hle. apply (contains_iff_listed a x Pa) in Hx. destruct Hx as (k & Hk).
    assert (Hkn : k < r_nord a).
    { unfold simplicesOfOrder in Hk. destruct (k <? r_nord a) eqn:E; [now apply Nat.ltb_lt | destruct Hk]. }
    destruct (Hle k x Hkn Hk) as (Hc & _). exact Hc. }
  pose proof (NoDup_incl_same_length_incl _ _ (simplices_nodup a Pa) (simplices_nodup b Pb) Hincl Hn) as Hincl2.
  destruct (containsSimplex a s) eqn:Ca.
  - symmetry. apply In_simplices_iff; [exact Pb|]. apply Hincl. now apply In_simplices_iff.
  - destruct (containsSimplex b s) eqn:Cb; [|reflexivity].
    apply In_simplices_iff in Cb; [|exact Pb]. apply Hincl2 in Cb. apply In_simplices_iff in Cb; [|exact Pa]. congruence.
Qed.

(* the contrapositive, in the words of the property *)
Corollary differ_in_a_simplex_never_equal a b s : pinv a -> pinv b ->
  containsSimplex a s <> containsSimplex b s -> c_eq a b = false /\ c_ne a b = true.
Proof.
  intros Pa Pb Hd. destruct (c_eq a b) eqn:E.
  - exfalso. apply Hd. now apply eq_same_simplices.
  - split; [reflexivity|]. unfold c_ne. now rewrite E.
Qed.
