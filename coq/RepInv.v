(* RepInv.v -- representation invariants of ReferenceRepresentation, for every history of its
   three mutators: the name -> (order, index) dictionary is exactly the position map of the
   per-order listings, names are unique, listings above the maximum order are empty.  Plain Coq. *)
From Coq Require Import String ZArith Bool Arith List Lia.
From SV Require Import Names NamesFacts ListFacts Rep Fresh Complex Atomic.
Import ListNotations.
Open Scope nat_scope.

Record pinv (r : rep) : Prop := mkPinv {
  pi_keys : NoDup (map fst (r_simp r));
  pi_pos : forall s k i, assoc s (r_simp r) = Some (k, i) <-> (k < r_nord r /\ nth_error (idxk r k) i = Some s);
  pi_stale : forall k, r_nord r <= k -> idxk r k = [];
  pi_len : r_nord r <= length (r_idx r) }.

Lemma pinv_same_obs r r' : same_obs r r' -> pinv r -> pinv r'.
Proof.
  intros (H1 & H2 & H3 & H4 & H5 & H6 & H7) [K P S L]. unfold idxk in *.
  constructor; unfold idxk; rewrite ?H2, ?H3, ?H4; auto.
Qed.

Lemma pinv_empty uid : pinv (empty_rep uid).
Proof.
  constructor; simpl; auto.
  - constructor.
  - intros s k i. split; [discriminate | intros [H _]; lia].
  - intros k _. unfold idxk. simpl. now destruct k.
Qed.

(* ---------- the shape of a successful addSimplex ---------- *)
Lemma addSimplex_form r fs id attr r' n :
  addSimplex r fs id attr = (r', Ok n) ->
  let k := length fs - 1 in
  exists r2 h, same_obs r r2 /\ containsSimplex r2 n = false /\ check_faces r2 k fs = Ok tt /\
    (k = 0 -> fs = []) /\ k <= r_nord r2 /\
    let g := r_nord r2 <=? k in
    let idx_g := if g then r_idx r2 ++ [[]] else r_idx r2 in
    r_nord r' = (if g then S k else r_nord r2) /\
    r_idx r' = upd_nth k (fun l => l ++ [n]) [] idx_g /\
    r_simp r' = r_simp r2 ++ [(n, (k, length (nth k (upd_nth k (fun l => l ++ [n]) [] idx_g) []) - 1))] /\
    r_attr r' = r_attr r2 ++ [(n, h)] /\
    (attr = Some h \/ (attr = None /\ fst h = r_uid r)) /\ r_uid r' = r_uid r.
Proof.
  unfold addSimplex. intros H. cbv zeta.
  destruct ((length fs - 1 =? 0) && negb (length fs =? 0)) eqn:E0; [discriminate|].
  set (X := match id with
            | None => newSimplex r (length fs - 1)
            | Some n => if containsSimplex r n then (r, Raise KeyError) else (r, Ok n)
            end) in H.
  assert (Hid : (exists r1 m, X = (r1, Ok m) /\ same_obs r r1 /\ containsSimplex r1 m = false) \/ exists r1 e, X = (r1, Raise e)).
  { unfold X. destruct id as [m|].
    - destruct (containsSimplex r m) eqn:C; [right; eauto | left; exists r, m; repeat split; auto].
    - destruct (newSimplex_fresh r (length fs - 1)) as (i & m & Hn & _ & _ & Hc).
      left. exists (set_seq r (S i)), m. split; [exact Hn|]. split; [apply same_obs_set_seq|]. exact Hc. }
  destruct Hid as [(r1 & m & Hid & Hs1 & Hc1) | (r1 & e & Hid)]; rewrite Hid in H; [|discriminate].
  assert (Hs2 : same_obs r (fst (match attr with Some h => (r1, h) | None => alloc r1 end)) /\
                containsSimplex (fst (match attr with Some h => (r1, h) | None => alloc r1 end)) m = false).
  { destruct attr; simpl; [auto|]. split; [eapply same_obs_trans; [exact Hs1 | apply same_obs_alloc] | exact Hc1]. }
  destruct (match attr with Some h => (r1, h) | None => alloc r1 end) as [r2 h] eqn:Ea. simpl in Hs2.
  destruct Hs2 as [Hs2 Hc2].
  assert (Hh : attr = Some h \/ (attr = None /\ fst h = r_uid r)).
  { destruct attr as [h0|]; [injection Ea as _ <-; now left|]. right. split; auto.
    unfold alloc in Ea. injection Ea as _ <-. simpl. destruct Hs1 as [Hu _]. exact Hu. }
  assert (Hu2 : r_uid r2 = r_uid r) by (destruct Hs2 as [Hu _]; exact Hu).
  destruct (negb (nodupb fs)); [discriminate|].
  destruct (check_faces r2 (length fs - 1) fs) as [[]|e1] eqn:Ec; [|discriminate].
  assert (Hk0 : length fs - 1 = 0 -> fs = []).
  { intros Hz. rewrite Hz in E0. simpl in E0. destruct fs; auto. simpl in E0. discriminate. }
  exists r2, h. split; [exact Hs2|]. split.
  2: split; [exact Ec|]; split; [exact Hk0|].
  - (* the returned name is m *)
    destruct (r_nord r2 <=? length fs - 1) eqn:E1.
    + destruct (r_nord r2 <? length fs - 1); [discriminate|].
      destruct (length fs - 1) as [|k']; cbn [fst snd] in H; destruct (S _ <? _) in H; inversion H; subst; exact Hc2.
    + destruct (0 <? length fs - 1).
      * destruct (simplexWithFaces r2 fs) as [[sw|]|e2]; try discriminate.
        destruct (length fs - 1) as [|k']; cbn [fst snd] in H; destruct (S _ <? _) in H; inversion H; subst; exact Hc2.
      * destruct (length fs - 1) as [|k']; cbn [fst snd] in H; destruct (S _ <? _) in H; inversion H; subst; exact Hc2.
  - destruct (r_nord r2 <=? length fs - 1) eqn:E1.
    + destruct (r_nord r2 <? length fs - 1) eqn:E2; [discriminate|].
      apply Nat.leb_le in E1. apply Nat.ltb_ge in E2. split; [lia|].
      destruct (length fs - 1) as [|k'] eqn:Ek; cbn [fst snd] in H.
      * simpl in H. inversion H; subst. simpl. repeat split; try reflexivity; try exact Hh; try exact Hu2.
      * simpl r_nord in H. rewrite Nat.ltb_irrefl in H.
        inversion H; subst. simpl. repeat split; try reflexivity; try exact Hh; try exact Hu2.
    + apply Nat.leb_gt in E1. split; [lia|].
      destruct (0 <? length fs - 1).
      * destruct (simplexWithFaces r2 fs) as [[sw|]|e2]; try discriminate.
        destruct (length fs - 1) as [|k'] eqn:Ek; cbn [fst snd] in H; destruct (S _ <? _) in H;
          inversion H; subst; simpl; repeat split; try reflexivity; try exact Hh; try exact Hu2.
      * destruct (length fs - 1) as [|k'] eqn:Ek; cbn [fst snd] in H; destruct (S _ <? _) in H;
          inversion H; subst; simpl; repeat split; try reflexivity; try exact Hh; try exact Hu2.
Qed.

Lemma nth_app_snoc_nil {A} (l : list (list A)) k : nth k (l ++ [[]]) [] = nth k l [].
Proof.
  destruct (Nat.lt_ge_cases k (length l)) as [H|H].
  - now rewrite app_nth1.
  - rewrite app_nth2 by lia. rewrite (nth_overflow l) by lia.
    destruct (k - length l) as [|m]; [reflexivity | now destruct m].
Qed.

(* the listings after a successful add: one name appended to order k *)
Lemma idxk_after_add r2 k n idx' (g : bool) :
  pinv r2 -> k <= r_nord r2 -> g = (r_nord r2 <=? k) ->
  idx' = upd_nth k (fun l => l ++ [n]) [] (if g then r_idx r2 ++ [[]] else r_idx r2) ->
  (forall k', nth k' idx' [] = if k' =? k then idxk r2 k ++ [n] else idxk r2 k') /\
  (g = true -> idxk r2 k = []) /\ length idx' = (if g then S (length (r_idx r2)) else length (r_idx r2)).
Proof.
  intros [K P S L] Hk Hg ->. unfold idxk in *.
  assert (Hlen : k < length (if g then r_idx r2 ++ [[]] else r_idx r2)).
  { destruct g; [rewrite app_length; simpl; lia|]. symmetry in Hg. apply Nat.leb_gt in Hg. lia. }
  assert (Hold : forall k', nth k' (if g then r_idx r2 ++ [[]] else r_idx r2) [] = nth k' (r_idx r2) []).
  { intros k'. destruct g; [apply nth_app_snoc_nil | reflexivity]. }
  split; [|split].
  - intros k'. rewrite nth_upd_nth. apply Nat.ltb_lt in Hlen. rewrite Hlen, andb_true_r.
    destruct (k' =? k); now rewrite Hold.
  - intros ->. symmetry in Hg. apply Nat.leb_le in Hg. apply S. exact Hg.
  - rewrite length_upd_nth. destruct g; [rewrite app_length; simpl; lia | reflexivity].
Qed.

Theorem addSimplex_pinv r fs id attr r' x : pinv r -> addSimplex r fs id attr = (r', x) -> pinv r'.
Proof.
  intros Hinv H. destruct x as [n|e].
  2: { apply addSimplex_atomic in H. destruct H as [Hs _]. eapply pinv_same_obs; eauto. }
  apply addSimplex_form in H. cbv zeta in H.
  destruct H as (r2 & h & Hs & Hc & _ & _ & Hk & Hn & Hi & Hsimp & _).
  assert (Hinv2 : pinv r2) by (eapply pinv_same_obs; eauto).
  set (k := length fs - 1) in *.
  destruct (idxk_after_add r2 k n (r_idx r') (r_nord r2 <=? k) Hinv2 Hk eq_refl Hi) as (Hidx & Hg & Hlen).
  destruct Hinv2 as [K P S L].
  assert (Hnew : assoc n (r_simp r2) = None).
  { unfold containsSimplex in Hc. destruct (assoc n (r_simp r2)); [discriminate | reflexivity]. }
  assert (Hsi : length (nth k (r_idx r') []) - 1 = length (idxk r2 k)).
  { rewrite Hidx, Nat.eqb_refl, app_length. simpl. lia. }
  rewrite <- Hi in Hsimp. rewrite Hsi in Hsimp.
  assert (Hkn : k < r_nord r').
  { rewrite Hn. destruct (r_nord r2 <=? k) eqn:E; [lia | apply Nat.leb_gt in E; lia]. }
  assert (Hnord : r_nord r2 <= r_nord r').
  { rewrite Hn. destruct (r_nord r2 <=? k) eqn:E; [apply Nat.leb_le in E; lia | lia]. }
  constructor.
  - rewrite Hsimp, map_app. simpl. apply NoDup_app_snoc; auto. now apply assoc_none_notin.
  - intros s k0 i0. unfold idxk. rewrite Hidx, Hsimp, assoc_app. split.
    + destruct (assoc s (r_simp r2)) as [[k1 i1]|] eqn:A.
      * intros Heq. injection Heq as <- <-. apply P in A. destruct A as [A1 A2]. split; [lia|].
        destruct (k1 =? k) eqn:E; [|exact A2]. apply Nat.eqb_eq in E. subst k1.
        rewrite nth_error_app1; [exact A2 | apply nth_error_Some; congruence].
      * simpl. destruct (name_eqb_spec s n) as [->|Hne]; [|discriminate].
        intros Heq. injection Heq as <- <-. split; [exact Hkn|]. rewrite Nat.eqb_refl.
        rewrite nth_error_app2 by lia. now rewrite Nat.sub_diag.
    + intros [Hk0 Hnth]. destruct (k0 =? k) eqn:E.
      * apply Nat.eqb_eq in E. subst k0. rewrite nth_error_snoc in Hnth.
        destruct (i0 <? length (idxk r2 k)) eqn:E1.
        -- assert (Hkk : k < r_nord r2).
           { destruct (r_nord r2 <=? k) eqn:E2; [|apply Nat.leb_gt in E2; lia].
             rewrite (Hg eq_refl) in Hnth. destruct i0; discriminate. }
           assert (A : assoc s (r_simp r2) = Some (k, i0)) by (apply P; auto). now rewrite A.
        -- destruct (i0 =? length (idxk r2 k)) eqn:E2; [|discriminate].
           apply Nat.eqb_eq in E2. injection Hnth as <-. rewrite Hnew. simpl. rewrite name_eqb_refl. now subst i0.
      * apply Nat.eqb_neq in E. assert (Hk1 : k0 < r_nord r2).
        { rewrite Hn in Hk0. destruct (r_nord r2 <=? k) eqn:E2; [apply Nat.leb_le in E2; lia | lia]. }
        assert (A : assoc s (r_simp r2) = Some (k0, i0)) by (apply P; auto). now rewrite A.
  - intros k0 Hk0. unfold idxk. rewrite Hidx.
    destruct (k0 =? k) eqn:E; [apply Nat.eqb_eq in E; lia|]. apply S. lia.
  - rewrite Hlen, Hn. destruct (r_nord r2 <=? k) eqn:E; [apply Nat.leb_le in E; lia | lia].
Qed.

(* ---------- consequences of the position map ---------- *)
Lemma pinv_nodup_order r k : pinv r -> k < r_nord r -> NoDup (idxk r k).
Proof.
  intros [K P S L] Hk. apply NoDup_nth_error. intros i j Hi Hij.
  destruct (nth_error (idxk r k) i) as [s|] eqn:E; [|apply nth_error_None in E; lia].
  symmetry in Hij. assert (A1 : assoc s (r_simp r) = Some (k, i)) by (apply P; auto).
  assert (A2 : assoc s (r_simp r) = Some (k, j)) by (apply P; auto). congruence.
Qed.

Lemma pinv_unique_pos r s k i k' i' : pinv r ->
  k < r_nord r -> nth_error (idxk r k) i = Some s -> k' < r_nord r -> nth_error (idxk r k') i' = Some s ->
  k = k' /\ i = i'.
Proof.
  intros [K P S L] Hk H Hk' H'.
  assert (A1 : assoc s (r_simp r) = Some (k, i)) by (apply P; auto).
  assert (A2 : assoc s (r_simp r) = Some (k', i')) by (apply P; auto).
  rewrite A1 in A2. injection A2 as -> ->. auto.
Qed.

Lemma in_map_fst_assoc_del {B} s x (l : list (name * B)) : In x (map fst (assoc_del s l)) -> In x (map fst l).
Proof.
  induction l as [|[k v] t IH]; simpl; auto. destruct (name_eqb s k); simpl; [tauto|]. intros [H|H]; auto.
Qed.

Lemma nodup_assoc_del {B} s (l : list (name * B)) : NoDup (map fst l) -> NoDup (map fst (assoc_del s l)).
Proof.
  induction l as [|[k v] t IH]; simpl; auto. intros H. inversion H as [|? ? Hk Ht]; subst.
  destruct (name_eqb s k); simpl; auto. constructor; auto. intros Hin. apply Hk. eapply in_map_fst_assoc_del; eauto.
Qed.

(* ---------- relabelSimplex ---------- *)
Theorem relabelSimplex_pinv r s q r' x : pinv r -> relabelSimplex r s q = (r', x) -> pinv r'.
Proof.
  intros Hinv H. destruct x as [[]|e].
  2: { apply relabelSimplex_atomic in H. destruct H as [-> _]. exact Hinv. }
  unfold relabelSimplex in H. destruct (containsSimplex r q) eqn:Cq; [discriminate|].
  destruct (assoc s (r_simp r)) as [[k i]|] eqn:As; [|discriminate].
  injection H as <-. destruct Hinv as [K P S L].
  assert (Aq : assoc q (r_simp r) = None).
  { unfold containsSimplex in Cq. destruct (assoc q (r_simp r)); [discriminate | reflexivity]. }
  assert (Hsq : s <> q) by (intros ->; congruence).
  destruct (proj1 (P s k i) As) as [Hk Hnth].
  assert (Hi : i < length (idxk r k)) by (apply nth_error_Some; congruence).
  assert (Hkl : k < length (r_idx r)) by lia.
  assert (Hidx : forall k0, nth k0 (upd_nth k (set_nth i q) [] (r_idx r)) [] =
                            if k0 =? k then set_nth i q (idxk r k) else idxk r k0).
  { intros k0. rewrite nth_upd_nth. apply Nat.ltb_lt in Hkl. rewrite Hkl, andb_true_r. reflexivity. }
  constructor; simpl.
  - rewrite map_app. simpl. apply NoDup_app_snoc; [now apply nodup_assoc_del|].
    intros Hin. apply in_map_fst_assoc_del in Hin. now apply assoc_none_notin in Aq.
  - intros t k0 i0. unfold idxk. simpl. rewrite Hidx, assoc_app.
    destruct (name_eqb_spec t s) as [->|Hts].
    + (* the old name is gone *)
      rewrite assoc_del_same by exact K. simpl. rewrite (name_eqb_neq s q) by exact Hsq.
      split; [discriminate|]. intros [Hk0 Hn]. exfalso.
      destruct (k0 =? k) eqn:E.
      * apply Nat.eqb_eq in E. subst k0. rewrite nth_error_set_nth in Hn.
        destruct ((i0 =? i) && (i <? length (idxk r k))) eqn:E2.
        -- injection Hn as Hn. congruence.
        -- assert (A : assoc s (r_simp r) = Some (k, i0)) by (apply P; auto).
           rewrite As in A. injection A as <-. rewrite Nat.eqb_refl in E2. apply Nat.ltb_lt in Hi. now rewrite Hi in E2.
      * assert (A : assoc s (r_simp r) = Some (k0, i0)) by (apply P; auto).
        rewrite As in A. injection A as <- <-. now rewrite Nat.eqb_refl in E.
    + rewrite assoc_del_other by exact Hts.
      destruct (name_eqb_spec t q) as [->|Htq].
      * (* the new name sits where the old one was *)
        rewrite Aq. simpl. rewrite name_eqb_refl. split.
        -- intros Heq. injection Heq as <- <-. split; auto. rewrite Nat.eqb_refl, nth_error_set_nth, Nat.eqb_refl.
           apply Nat.ltb_lt in Hi. now rewrite Hi.
        -- intros [Hk0 Hn]. destruct (k0 =? k) eqn:E.
           ++ apply Nat.eqb_eq in E. subst k0. rewrite nth_error_set_nth in Hn.
              destruct ((i0 =? i) && (i <? length (idxk r k))) eqn:E2.
              ** apply andb_prop in E2. destruct E2 as [E2 _]. apply Nat.eqb_eq in E2. now subst.
              ** assert (A : assoc q (r_simp r) = Some (k, i0)) by (apply P; auto). congruence.
           ++ assert (A : assoc q (r_simp r) = Some (k0, i0)) by (apply P; auto). congruence.
      * (* every other name keeps its place *)
        destruct (assoc t (r_simp r)) as [[k1 i1]|] eqn:At.
        -- split.
           ++ intros Heq. injection Heq as <- <-. destruct (proj1 (P t k1 i1) At) as [Hk1 Hn1]. split; auto.
              destruct (k1 =? k) eqn:E; [|exact Hn1]. apply Nat.eqb_eq in E. subst k1.
              rewrite nth_error_set_nth. destruct ((i1 =? i) && (i <? length (idxk r k))) eqn:E2; [|exact Hn1].
              apply andb_prop in E2. destruct E2 as [E2 _]. apply Nat.eqb_eq in E2. subst i1. congruence.
           ++ intros [Hk0 Hn]. assert (Hn' : nth_error (idxk r k0) i0 = Some t).
              { destruct (k0 =? k) eqn:E; [|exact Hn]. apply Nat.eqb_eq in E. subst k0.
                rewrite nth_error_set_nth in Hn. destruct ((i0 =? i) && (i <? length (idxk r k))); [|exact Hn].
                injection Hn as Hn. congruence. }
              assert (A : assoc t (r_simp r) = Some (k0, i0)) by (apply P; auto). congruence.
        -- simpl. rewrite (name_eqb_neq t q) by exact Htq. split; [discriminate|].
           intros [Hk0 Hn]. assert (Hn' : nth_error (idxk r k0) i0 = Some t).
           { destruct (k0 =? k) eqn:E; [|exact Hn]. apply Nat.eqb_eq in E. subst k0.
             rewrite nth_error_set_nth in Hn. destruct ((i0 =? i) && (i <? length (idxk r k))); [|exact Hn].
             injection Hn as Hn. congruence. }
           assert (A : assoc t (r_simp r) = Some (k0, i0)) by (apply P; auto). congruence.
  - intros k0 Hk0. unfold idxk. simpl. rewrite Hidx.
    destruct (k0 =? k) eqn:E; [apply Nat.eqb_eq in E; lia|]. now apply S.
  - rewrite length_upd_nth. exact L.
Qed.

(* ---------- forceDeleteSimplex: the renumbering loop ---------- *)
Fixpoint index_of (t : name) (l : list name) : option nat :=
  match l with
  | [] => None
  | x :: r => if name_eqb t x then Some 0 else option_map S (index_of t r)
  end.

Lemma index_of_none t l : index_of t l = None <-> ~ In t l.
Proof.
  induction l as [|x r IH]; simpl; [tauto|].
  destruct (name_eqb_spec t x) as [->|Hne].
  - split; [discriminate | intros H; exfalso; apply H; now left].
  - destruct (index_of t r) as [m|]; simpl.
    + split; [discriminate|]. intros H. exfalso.
      assert (Hn : ~ In t r) by tauto. apply IH in Hn. discriminate.
    + split; [|reflexivity]. intros _ [H|H]; [congruence|]. destruct IH as [IH _]. now apply IH.
Qed.

Lemma index_of_some t l m : index_of t l = Some m -> nth_error l m = Some t.
Proof.
  revert m; induction l as [|x r IH]; intros m; simpl; [discriminate|].
  destruct (name_eqb_spec t x) as [->|Hne].
  - intros H; injection H as <-. reflexivity.
  - destruct (index_of t r) as [m'|]; simpl; [|discriminate]. intros H; injection H as <-. simpl. auto.
Qed.

Lemma index_of_nth t l m : NoDup l -> nth_error l m = Some t -> index_of t l = Some m.
Proof.
  intros Hnd H. destruct (index_of t l) as [m'|] eqn:E.
  - apply index_of_some in E. f_equal. eapply NoDup_nth_error_inj; eauto.
  - apply index_of_none in E. exfalso. apply E. eapply nth_error_In; eauto.
Qed.

Lemma assoc_renumber k : forall ts j simp t, NoDup ts ->
  assoc t (renumber k j ts simp) =
  match index_of t ts with Some m => Some (k, j + m) | None => assoc t simp end.
Proof.
  induction ts as [|a ts IH]; intros j simp t Hnd; simpl; [reflexivity|].
  inversion Hnd as [|? ? Ha Hts]; subst. rewrite IH by exact Hts.
  destruct (name_eqb_spec t a) as [->|Hne].
  - assert (E : index_of a ts = None) by (now apply index_of_none). rewrite E.
    rewrite assoc_set_same. f_equal. f_equal. lia.
  - destruct (index_of t ts) as [m|]; simpl.
    + f_equal. f_equal. lia.
    + now apply assoc_set_other.
Qed.

Lemma map_fst_renumber k : forall ts j (simp : list (name * (nat * nat))),
  (forall t, In t ts -> In t (map fst simp)) -> map fst (renumber k j ts simp) = map fst simp.
Proof.
  induction ts as [|a ts IH]; intros j simp H; simpl; [reflexivity|].
  rewrite IH.
  - apply map_fst_assoc_set. apply H. now left.
  - intros t Ht. rewrite map_fst_assoc_set by (apply H; now left). apply H. now right.
Qed.

Lemma in_assoc_del_other {B} s t (l : list (name * B)) : t <> s -> In t (map fst l) -> In t (map fst (assoc_del s l)).
Proof.
  intros Hne. induction l as [|[k v] r IH]; simpl; auto.
  destruct (name_eqb_spec s k) as [->|Hsk]; simpl; intros [H|H]; auto. congruence.
Qed.

Lemma skipn_remove_nth {A} (l : list A) : forall i, skipn i (remove_nth i l) = skipn (S i) l.
Proof.
  induction l as [|h t IH]; intros [|i]; try reflexivity.
  change (skipn i (remove_nth i t) = skipn (S i) t). apply IH.
Qed.

Lemma nth_error_skipn {A} (l : list A) : forall i m, nth_error (skipn i l) m = nth_error l (i + m).
Proof. induction l as [|h t IH]; intros [|i] m; simpl; auto. now destruct m. Qed.

Lemma NoDup_skipn {A} (l : list A) i : NoDup l -> NoDup (skipn i l).
Proof.
  revert i; induction l as [|h t IH]; intros [|i] H; simpl; auto. inversion H; subst. auto.
Qed.

Theorem forceDeleteSimplex_pinv r s r' x : pinv r -> forceDeleteSimplex r s = (r', x) -> pinv r'.
Proof.
  intros Hinv H. destruct x as [[]|e].
  2: { apply forceDeleteSimplex_atomic in H. destruct H as [-> _]. exact Hinv. }
  unfold forceDeleteSimplex in H. destruct (assoc s (r_simp r)) as [[k i]|] eqn:As; [|discriminate].
  pose proof Hinv as [K P St L].
  destruct (proj1 (P s k i) As) as [Hk Hnth].
  set (l := idxk r k) in *.
  assert (Hi : i < length l) by (apply nth_error_Some; congruence).
  assert (Hkl : k < length (r_idx r)) by lia.
  assert (Hndl : NoDup l) by (apply pinv_nodup_order; auto).
  set (idx' := upd_nth k (remove_nth i) [] (r_idx r)) in *.
  assert (Hidx : forall k0, nth k0 idx' [] = if k0 =? k then remove_nth i l else idxk r k0).
  { intros k0. unfold idx'. rewrite nth_upd_nth. apply Nat.ltb_lt in Hkl. rewrite Hkl, andb_true_r. reflexivity. }
  assert (Hss : nth k idx' [] = remove_nth i l) by (now rewrite Hidx, Nat.eqb_refl).
  rewrite Hss in H. rewrite skipn_remove_nth in H.
  set (tail := skipn (S i) l) in *.
  set (simp2 := renumber k i tail (assoc_del s (r_simp r))) in *.
  assert (Hndt : NoDup tail) by (now apply NoDup_skipn).
  assert (Htail : forall t m, index_of t tail = Some m <-> nth_error l (S i + m) = Some t).
  { intros t m. split.
    - intros E. apply index_of_some in E. unfold tail in E. now rewrite nth_error_skipn in E.
    - intros E. apply index_of_nth; auto. unfold tail. now rewrite nth_error_skipn. }
  (* the dictionary after the renumbering loop *)
  assert (HB : forall t, assoc t simp2 =
               if name_eqb t s then None else
               match assoc t (r_simp r) with
               | Some (k0, i0) => Some (k0, if (k0 =? k) && (i <? i0) then i0 - 1 else i0)
               | None => None
               end).
  { intros t. unfold simp2. rewrite assoc_renumber by exact Hndt.
    destruct (name_eqb_spec t s) as [->|Hts].
    - assert (E : index_of s tail = None).
      { apply index_of_none. intros Hin. apply nth_error_In' in Hin. destruct Hin as [m Hm].
        unfold tail in Hm. rewrite nth_error_skipn in Hm.
        assert (i = S i + m) by (exact (NoDup_nth_error_inj l i (S i + m) s Hndl Hnth Hm)). lia. }
      rewrite E. now apply assoc_del_same.
    - rewrite assoc_del_other by exact Hts.
      destruct (index_of t tail) as [m|] eqn:E.
      + apply Htail in E. assert (A : assoc t (r_simp r) = Some (k, S i + m)) by (apply P; auto).
        rewrite A, Nat.eqb_refl. simpl. replace (i <? S (i + m)) with true by (symmetry; apply Nat.ltb_lt; lia).
        f_equal. f_equal. lia.
      + destruct (assoc t (r_simp r)) as [[k0 i0]|] eqn:A; [|reflexivity].
        destruct ((k0 =? k) && (i <? i0)) eqn:E2; [|reflexivity]. exfalso.
        apply andb_prop in E2. destruct E2 as [E2 E3]. apply Nat.eqb_eq in E2. apply Nat.ltb_lt in E3. subst k0.
        apply P in A. destruct A as [_ A].
        assert (E' : index_of t tail = Some (i0 - S i)) by (apply Htail; replace (S i + (i0 - S i)) with i0 by lia; exact A).
        congruence. }
  assert (Hkeys : NoDup (map fst simp2)).
  { unfold simp2. rewrite map_fst_renumber; [now apply nodup_assoc_del|].
    intros t Ht. apply nth_error_In' in Ht. destruct Ht as [m Hm]. unfold tail in Hm. rewrite nth_error_skipn in Hm.
    assert (A : assoc t (r_simp r) = Some (k, S i + m)) by (apply P; auto).
    apply in_assoc_del_other.
    - intros ->. rewrite As in A. injection A as A. lia.
    - apply assoc_some_in in A. apply (in_map fst) in A. exact A. }
  (* the two possible outcomes differ only in the number of orders *)
  assert (Hfin : exists nord', r_nord r' = nord' /\ r_simp r' = simp2 /\ r_idx r' = idx' /\
                 (nord' = r_nord r \/ (nord' = k /\ S k = r_nord r /\ remove_nth i l = []))).
  { destruct ((S k =? r_nord r) && (length (remove_nth i l) =? 0)) eqn:E; injection H as <-; simpl.
    - apply andb_prop in E. destruct E as [E1 E2]. apply Nat.eqb_eq in E1, E2.
      exists k. repeat split; auto. right. repeat split; auto. now apply length_zero_iff_nil.
    - exists (r_nord r). repeat split; auto. }
  destruct Hfin as (nord' & Hn & Hsimp & Hidx' & Hcase).
  assert (Hle : nord' <= r_nord r) by (destruct Hcase as [->|(-> & <- & _)]; lia).
  constructor; rewrite ?Hn, ?Hsimp; unfold idxk; rewrite ?Hidx'.
  - exact Hkeys.
  - intros t k1 j. rewrite HB, Hidx. split.
    + destruct (name_eqb_spec t s) as [->|Hts]; [discriminate|].
      destruct (assoc t (r_simp r)) as [[k0 i0]|] eqn:A; [|discriminate].
      intros Heq. injection Heq as <- <-. apply P in A. destruct A as [Hk0 A].
      destruct (k0 =? k) eqn:E.
      * apply Nat.eqb_eq in E. subst k0. simpl. fold l in A.
        assert (Hne : i0 <> i) by (intros ->; rewrite Hnth in A; congruence).
        assert (Hnz : remove_nth i l <> []).
        { intros Hz. assert (Hlen : length (remove_nth i l) = length l - 1) by (now apply length_remove_nth).
          rewrite Hz in Hlen. simpl in Hlen. assert (i0 < length l) by (apply nth_error_Some; congruence). lia. }
        split; [destruct Hcase as [->|(_ & _ & Hz)]; [exact Hk0 | contradiction]|].
        rewrite nth_error_remove_nth. destruct (i <? i0) eqn:E3.
        -- apply Nat.ltb_lt in E3. replace (i0 - 1 <? i) with false by (symmetry; apply Nat.ltb_ge; lia).
           replace (S (i0 - 1)) with i0 by lia. exact A.
        -- apply Nat.ltb_ge in E3. replace (i0 <? i) with true by (symmetry; apply Nat.ltb_lt; lia). exact A.
      * simpl. split; [|exact A]. destruct Hcase as [->|(-> & Hsk & _)]; [exact Hk0|].
        apply Nat.eqb_neq in E. lia.
    + intros [Hk1 Hj]. destruct (k1 =? k) eqn:E.
      * apply Nat.eqb_eq in E. subst k1. rewrite nth_error_remove_nth in Hj.
        destruct (j <? i) eqn:E2.
        -- apply Nat.ltb_lt in E2. assert (A : assoc t (r_simp r) = Some (k, j)) by (apply P; auto).
           destruct (name_eqb_spec t s) as [->|Hts]; [rewrite As in A; injection A as A; lia|].
           rewrite A, Nat.eqb_refl. simpl. replace (i <? j) with false by (symmetry; apply Nat.ltb_ge; lia). reflexivity.
        -- apply Nat.ltb_ge in E2. assert (A : assoc t (r_simp r) = Some (k, S j)) by (apply P; auto).
           destruct (name_eqb_spec t s) as [->|Hts]; [rewrite As in A; injection A as A; lia|].
           rewrite A, Nat.eqb_refl. simpl. replace (i <? S j) with true by (symmetry; apply Nat.ltb_lt; lia).
           f_equal. f_equal. lia.
      * assert (A : assoc t (r_simp r) = Some (k1, j)) by (apply P; split; [lia | exact Hj]).
        destruct (name_eqb_spec t s) as [->|Hts].
        -- rewrite As in A. injection A as <- <-. now rewrite Nat.eqb_refl in E.
        -- rewrite A, E. reflexivity.
  - intros k0 Hk0. rewrite Hidx. destruct (k0 =? k) eqn:E.
    + apply Nat.eqb_eq in E. subst k0. destruct Hcase as [->|(_ & _ & Hz)]; [lia | exact Hz].
    + apply St. destruct Hcase as [->|(-> & <- & _)]; [exact Hk0|]. apply Nat.eqb_neq in E. lia.
  - unfold idx'. rewrite length_upd_nth. lia.
Qed.

(* ---------- every history of the three mutators ---------- *)
Inductive rop :=
| OpAdd (fs : list name) (id : option name) (attr : option handle)
| OpRelabel (s q : name)
| OpForceDelete (s : name).
Definition rstep (r : rep) (o : rop) : rep :=
  match o with
  | OpAdd fs id attr => fst (addSimplex r fs id attr)
  | OpRelabel s q => fst (relabelSimplex r s q)
  | OpForceDelete s => fst (forceDeleteSimplex r s)
  end.

Lemma rstep_pinv r o : pinv r -> pinv (rstep r o).
Proof.
  intros H. destruct o; simpl.
  - destruct (addSimplex r fs id attr) eqn:E. eapply addSimplex_pinv; eauto.
  - destruct (relabelSimplex r s q) eqn:E. eapply relabelSimplex_pinv; eauto.
  - destruct (forceDeleteSimplex r s) eqn:E. eapply forceDeleteSimplex_pinv; eauto.
Qed.

Theorem reachable_pinv uid ops : pinv (fold_left rstep ops (empty_rep uid)).
Proof.
  assert (H : forall r, pinv r -> pinv (fold_left rstep ops r)).
  { induction ops as [|o t IH]; intros r Hr; simpl; auto. apply IH. now apply rstep_pinv. }
  apply H. apply pinv_empty.
Qed.

(* ---------- what the public queries say under the invariant ---------- *)
Lemma simplicesOfOrder_idxk r k : pinv r -> simplicesOfOrder r k = idxk r k.
Proof.
  intros [K P St L]. unfold simplicesOfOrder. destruct (k <? r_nord r) eqn:E; auto.
  apply Nat.ltb_ge in E. symmetry. now apply St.
Qed.

(* orderOf / indexOf give the position of the simplex in the listing of its order *)
Theorem orderOf_indexOf_position r s k i : pinv r ->
  (orderOf r s = Ok k /\ indexOf r s = Ok i) <-> nth_error (simplicesOfOrder r k) i = Some s.
Proof.
  intros Hinv. rewrite simplicesOfOrder_idxk by exact Hinv. destruct Hinv as [K P St L].
  unfold orderOf, indexOf. split.
  - intros [H1 H2]. destruct (assoc s (r_simp r)) as [[k0 i0]|] eqn:A; [|discriminate].
    injection H1 as <-. injection H2 as <-. now apply P in A.
  - intros H. assert (Hk : k < r_nord r).
    { destruct (Nat.lt_ge_cases k (r_nord r)); auto. rewrite St in H by lia. now destruct i. }
    assert (A : assoc s (r_simp r) = Some (k, i)) by (apply P; auto). now rewrite A.
Qed.

Theorem contains_iff_listed r s : pinv r ->
  containsSimplex r s = true <-> exists k, In s (simplicesOfOrder r k).
Proof.
  intros Hinv. unfold containsSimplex. split.
  - destruct (assoc s (r_simp r)) as [[k i]|] eqn:A; [|discriminate]. intros _.
    exists k. rewrite simplicesOfOrder_idxk by exact Hinv. destruct Hinv as [K P St L].
    apply P in A. destruct A as [_ A]. eapply nth_error_In; eauto.
  - intros [k Hin]. rewrite simplicesOfOrder_idxk in Hin by exact Hinv.
    apply nth_error_In' in Hin. destruct Hin as [i Hi]. destruct Hinv as [K P St L].
    assert (Hk : k < r_nord r).
    { destruct (Nat.lt_ge_cases k (r_nord r)); auto. rewrite St in Hi by lia. now destruct i. }
    assert (A : assoc s (r_simp r) = Some (k, i)) by (apply P; auto). now rewrite A.
Qed.

(* no simplex is listed twice, in one order or in two *)
Theorem listed_once r s k i k' i' : pinv r ->
  nth_error (simplicesOfOrder r k) i = Some s -> nth_error (simplicesOfOrder r k') i' = Some s -> k = k' /\ i = i'.
Proof.
  intros Hinv H H'. apply (orderOf_indexOf_position r s k i Hinv) in H.
  apply (orderOf_indexOf_position r s k' i' Hinv) in H'. destruct H as [H1 H2], H' as [H1' H2'].
  rewrite H1 in H1'. rewrite H2 in H2'. injection H1' as ->. injection H2' as ->. auto.
Qed.

Lemma NoDup_concat {A} (ll : list (list A)) :
  (forall k, NoDup (nth k ll [])) ->
  (forall k k' x, k <> k' -> In x (nth k ll []) -> In x (nth k' ll []) -> False) ->
  NoDup (concat ll).
Proof.
  induction ll as [|l t IH]; intros H1 H2; simpl; [constructor|].
  apply NoDup_app'.
  - exact (H1 0).
  - apply IH; [intros k; exact (H1 (S k)) | intros k k' x Hne; apply (H2 (S k) (S k') x); lia].
  - intros x Hx Hc. apply in_concat in Hc. destruct Hc as [l' [Hl' Hx']].
    apply In_nth with (d := []) in Hl'. destruct Hl' as [k [Hk <-]].
    apply (H2 0 (S k) x); auto.
Qed.

(* simplices() lists each simplex once *)
Theorem simplices_nodup r : pinv r -> NoDup (simplices r false).
Proof.
  intros Hinv. unfold simplices. apply NoDup_concat.
  - intros k. destruct (Nat.lt_ge_cases k (r_nord r)) as [Hk|Hk].
    + now apply pinv_nodup_order.
    + destruct Hinv as [K P St L]. change (nth k (r_idx r) []) with (idxk r k). rewrite St by exact Hk. constructor.
  - intros k k' x Hne Hx Hx'. change (nth k (r_idx r) []) with (idxk r k) in Hx.
    change (nth k' (r_idx r) []) with (idxk r k') in Hx'.
    rewrite <- (simplicesOfOrder_idxk r k Hinv) in Hx. rewrite <- (simplicesOfOrder_idxk r k' Hinv) in Hx'.
    apply nth_error_In' in Hx, Hx'. destruct Hx as [i Hi], Hx' as [i' Hi'].
    destruct (listed_once r x k i k' i' Hinv Hi Hi'). contradiction.
Qed.

(* the per-order listings partition simplices(), in non-decreasing order *)
Theorem simplices_by_order r : pinv r ->
  simplices r false = concat (map (simplicesOfOrder r) (seq 0 (length (r_idx r)))).
Proof.
  intros Hinv. unfold simplices.
  assert (H : forall l : list (list name), concat l = concat (map (fun k => nth k l []) (seq 0 (length l)))).
  { induction l as [|h t IH]; simpl; auto. f_equal. rewrite <- seq_shift, map_map. exact IH. }
  rewrite (H (r_idx r)). f_equal. apply map_ext. intros k. symmetry. now apply simplicesOfOrder_idxk.
Qed.
