(* EulerCompose.v -- C19, additivity on the code's own union: for complexes a and c that share no name, when
   a.compose(c) succeeds the Euler integral of the result is the sum of the integrals of a and c -- the metric of a
   point of the result is read from a new dictionary that holds what the operand's dictionary holds (ComposeAttrs),
   the points of a simplex of the result are those it has in its operand (VIso2), and the integral is the
   simplex-wise sum (EulerInt).  Plain Coq. *)
From Coq Require Import String ZArith Bool Arith List Lia Permutation.
From SV Require Import Names NamesFacts ListFacts Rep Fresh Complex Homology Atomic RepInv Reach Shapes Incidence AddEffect
                       Closed ClosedReach AddBasis BasisInv VInv VSets Gen EulerInt CopyFaithful World WorldProofs CopyAttrs
                       ComposeProofs ComposeAttrs VIso2 EulerAdd.
Import ListNotations.

(* the least value of f over a non-empty list, as the code's fold computes it *)
Definition fold_min (f : name -> Z) (p : name) (l : list name) : Z := fold_right (fun q acc => Z.min (f q) acc) (f p) l.

Lemma fold_min_le f p l j : (j <= fold_min f p l)%Z <-> forall q, In q (p :: l) -> (j <= f q)%Z.
Proof.
  unfold fold_min. induction l as [|x l IH]; simpl.
  - split; [intros H q [<-|[]]; exact H|intros H; apply H; now left].
  - rewrite Z.min_glb_iff, IH. split.
    + intros [H1 H2] q [<-|[<-|Hq]]; [apply H2; now left|exact H1|apply H2; now right].
    + intros H. split; [apply H; right; now left|]. intros q [<-|Hq]; apply H; [now left|right; now right].
Qed.

Lemma fold_min_sameset f g p l p' l' : (forall q, In q (p :: l) <-> In q (p' :: l')) -> (forall q, In q (p :: l) -> f q = g q) ->
  fold_min f p l = fold_min g p' l'.
Proof.
  intros Hs Hfg. apply Z.le_antisymm.
  - apply (proj2 (fold_min_le g p' l' _)). intros q Hq. apply Hs in Hq. rewrite <- (Hfg q Hq).
    apply (proj1 (fold_min_le f p l _) (Z.le_refl _)). exact Hq.
  - apply (proj2 (fold_min_le f p l _)). intros q Hq. rewrite (Hfg q Hq). apply Hs in Hq.
    apply (proj1 (fold_min_le g p' l' _) (Z.le_refl _)). exact Hq.
Qed.

Lemma minm_sameset hp hp2 at_ dflt r r2 t : sameset (basisOf r t) (basisOf r2 t) -> basisOf r t <> [] ->
  (forall q, In q (basisOf r t) -> m hp at_ dflt r q = m hp2 at_ dflt r2 q) ->
  minm hp at_ dflt r t = minm hp2 at_ dflt r2 t.
Proof.
  intros Hs Hne Hm. unfold minm. destruct (basisOf r t) as [|p l] eqn:E1; [contradiction|].
  destruct (basisOf r2 t) as [|p' l'] eqn:E2.
  - exfalso. destruct (proj1 (Hs p) (or_introl eq_refl)).
  - apply (fold_min_sameset (m hp at_ dflt r) (m hp2 at_ dflt r2) p l p' l'); [exact Hs|exact Hm].
Qed.

Section ComposeIntegral.
  Variables (a c : rep) (uid : nat) (hp hp' : heap) (d : rep) (at_ : string) (dflt : Z).
  Hypothesis Va : vinv a.
  Hypothesis Vc : vinv c.
  Hypothesis Oa : forall s h, assoc s (r_attr a) = Some h -> fst h <> uid.
  Hypothesis Oc : forall s h, assoc s (r_attr c) = Some h -> fst h <> uid.
  Hypothesis Hu0 : uid <> 0.
  Hypothesis Disj : forall s, containsSimplex a s = true -> containsSimplex c s = false.
  Hypothesis Na : forall s, containsSimplex a s = true -> exists z, metric hp a at_ dflt s = Ok z.
  Hypothesis Nc : forall s, containsSimplex c s = true -> exists z, metric hp c at_ dflt s = Ok z.
  Hypothesis Ga : forall p i, assoc p (r_simp a) = Some (0, i) -> (0 <= m hp at_ dflt a p)%Z.
  Hypothesis Gc : forall p i, assoc p (r_simp c) = Some (0, i) -> (0 <= m hp at_ dflt c p)%Z.
  Hypothesis H : compose hp a c None uid = (hp', d, Ok tt).

  Let Pa : pinv a := s_p a (c_s a (b_c a (v_b a Va))).
  Let Pc : pinv c := s_p c (c_s c (b_c c (v_b c Vc))).

  (* the operand a simplex of the result comes from *)
  Definition from (s : name) : rep := if containsSimplex a s then a else c.

  Lemma metric_result s : containsSimplex d s = true -> metric hp' d at_ dflt s = metric hp (from s) at_ dflt s.
  Proof.
    intros Cd. destruct (compose_attrs a c uid hp Pa Pc Oa Oc Hu0 hp' d H) as [Hval _].
    destruct (compose_is_union hp a c uid hp' d Pa Pc H) as (_ & Hmem & _ & _).
    destruct (Hval s Cd) as (h' & Ah & _ & Hg). unfold metric at 1. rewrite Ah, Hg. unfold from.
    destruct (containsSimplex a s) eqn:Csa.
    - rewrite (Disj s Csa). destruct (Na s Csa) as (z & Ez). unfold metric in *. unfold cell.
      destruct (assoc s (r_attr a)); [reflexivity|discriminate].
    - rewrite Hmem, Csa in Cd. simpl in Cd. rewrite Cd. destruct (Nc s Cd) as (z & Ez). unfold metric in *. unfold cell.
      destruct (assoc s (r_attr c)); [reflexivity|discriminate].
  Qed.

  Lemma in_result s : containsSimplex (from s) s = true -> containsSimplex d s = true.
  Proof.
    destruct (compose_is_union hp a c uid hp' d Pa Pc H) as (_ & Hmem & _ & _). unfold from. rewrite Hmem.
    destruct (containsSimplex a s) eqn:E; [reflexivity|]. intros ->. reflexivity.
  Qed.

  Theorem integrate_compose_disjoint :
    exists za zc, integrate hp a at_ dflt = Ok za /\ integrate hp c at_ dflt = Ok zc /\
                  integrate hp' d at_ dflt = Ok (za + zc)%Z.
  Proof.
    destruct (compose_vinv hp a c uid hp' d Va Vc H) as (Vd & Hb).
    destruct (compose_is_union hp a c uid hp' d Pa Pc H) as (Sd & Hmem & HfA & HfC).
    pose proof (s_p d Sd) as Pd.
    (* the metric is numeric and non-negative on the result *)
    assert (Nd : forall s, containsSimplex d s = true -> exists z, metric hp' d at_ dflt s = Ok z).
    { intros s Cd. rewrite (metric_result s Cd). unfold from. destruct (containsSimplex a s) eqn:E; [now apply Na|].
      apply Nc. rewrite Hmem, E in Cd. exact Cd. }
    assert (Md : forall s, containsSimplex d s = true -> m hp' at_ dflt d s = m hp at_ dflt (from s) s).
    { intros s Cd. unfold m, metric0. now rewrite (metric_result s Cd). }
    assert (Ordd : forall s, containsSimplex d s = true -> orderOf d s = orderOf (from s) s).
    { intros s Cd. pose proof (b_c d (v_b d Vd)) as Cdd.
      assert (Cf : containsSimplex (from s) s = true).
      { unfold from. destruct (containsSimplex a s) eqn:E; [exact E|]. rewrite Hmem, E in Cd. exact Cd. }
      assert (Cfr : cinv (from s)) by (unfold from; destruct (containsSimplex a s); [exact (b_c a (v_b a Va))|exact (b_c c (v_b c Vc))]).
      rewrite (order_by_faces d s Cdd Cd), (order_by_faces (from s) s Cfr Cf). f_equal. f_equal.
      apply NoDup_same_length; [apply faces_nodup; exact Pd|apply faces_nodup; exact (s_p _ (c_s _ Cfr))|].
      unfold from in *. destruct (containsSimplex a s) eqn:E; [now apply HfA|]. apply HfC; [|exact E]. exact Cf. }
    assert (Gd : forall p i, assoc p (r_simp d) = Some (0, i) -> (0 <= m hp' at_ dflt d p)%Z).
    { intros p i Ap. assert (Cd : containsSimplex d p = true) by (unfold containsSimplex; now rewrite Ap).
      rewrite (Md p Cd). pose proof (Ordd p Cd) as O. unfold orderOf in O. rewrite Ap in O. unfold from in *.
      destruct (containsSimplex a p) eqn:E.
      - destruct (assoc p (r_simp a)) as [[k j]|] eqn:A; [|discriminate]. injection O as <-. eapply Ga; eauto.
      - destruct (assoc p (r_simp c)) as [[k j]|] eqn:A; [|discriminate]. injection O as <-. eapply Gc; eauto. }
    (* the three integrals as simplex-wise sums *)
    rewrite (integrate_is_simplexwise_sum hp at_ dflt a Va Na Ga), (integrate_is_simplexwise_sum hp at_ dflt c Vc Nc Gc),
            (integrate_is_simplexwise_sum hp' at_ dflt d Vd Nd Gd).
    eexists. eexists. split; [reflexivity|]. split; [reflexivity|]. f_equal.
    (* the simplices of the result: those of a and those of c, each once *)
    assert (Hperm : Permutation (simplices d false) (simplices a false ++ simplices c false)).
    { apply NoDup_Permutation.
      - now apply simplices_nodup.
      - apply NoDup_app'; [now apply simplices_nodup|now apply simplices_nodup|].
        intros x Hx Hy. apply (In_simplices_iff a x Pa) in Hx. apply (In_simplices_iff c x Pc) in Hy. rewrite (Disj x Hx) in Hy. discriminate.
      - intros x. rewrite in_app_iff, (In_simplices_iff d x Pd), (In_simplices_iff a x Pa), (In_simplices_iff c x Pc), Hmem.
        apply orb_true_iff. }
    (* term by term *)
    assert (Term : forall s, containsSimplex d s = true ->
              (sgn (ord d s) * minm hp' at_ dflt d s = sgn (ord (from s) s) * minm hp at_ dflt (from s) s)%Z).
    { intros s Cd. f_equal.
      - f_equal. pose proof (Ordd s Cd) as O. unfold orderOf in O. unfold ord.
        destruct (assoc s (r_simp d)) as [[k j]|]; destruct (assoc s (r_simp (from s))) as [[k' j']|]; try discriminate; [now injection O|reflexivity].
      - pose proof (Hb s Cd) as Hs. fold (from s) in Hs.
        apply (contains_assoc d) in Cd. destruct Cd as (k & j & Ad).
        assert (Hne : basisOf d s <> []) by (intros E; pose proof (v_card d Vd s k j Ad) as X; rewrite E in X; discriminate).
        apply (minm_sameset hp' hp at_ dflt d (from s) s Hs Hne).
        intros q Hq. destruct (a_basis_point d Vd s k j q Ad Hq) as (iq & Aq).
        assert (Cq : containsSimplex d q = true) by (unfold containsSimplex; now rewrite Aq).
        rewrite (Md q Cq). f_equal.
        (* q is a point of s in s's operand, so it comes from the same operand *)
        apply Hs in Hq. unfold from in *. destruct (containsSimplex a s) eqn:Es.
        + apply (contains_assoc a) in Es. destruct Es as (ks & js & As).
          destruct (a_basis_point a Va s ks js q As Hq) as (i2 & A2).
          assert (Cqa : containsSimplex a q = true) by (unfold containsSimplex; now rewrite A2). now rewrite Cqa.
        + assert (Cs : containsSimplex c s = true).
          { assert (X : containsSimplex d s = true) by (unfold containsSimplex; now rewrite Ad). rewrite Hmem, Es in X. exact X. }
          apply (contains_assoc c) in Cs. destruct Cs as (ks & js & As).
          destruct (a_basis_point c Vc s ks js q As Hq) as (i2 & A2).
          assert (Cqc : containsSimplex c q = true) by (unfold containsSimplex; now rewrite A2).
          destruct (containsSimplex a q) eqn:Cqa; [rewrite (Disj q Cqa) in Cqc; discriminate|reflexivity]. }
    rewrite (zsum_perm _ _ _ Hperm), zsum_app. f_equal; apply zsum_ext_in; intros s Hs.
    - apply (In_simplices_iff a s Pa) in Hs. assert (Cd : containsSimplex d s = true) by (rewrite Hmem, Hs; reflexivity).
      rewrite (Term s Cd). unfold from. now rewrite Hs.
    - apply (In_simplices_iff c s Pc) in Hs. assert (Cd : containsSimplex d s = true) by (rewrite Hmem, Hs; apply orb_true_r).
      rewrite (Term s Cd). unfold from. destruct (containsSimplex a s) eqn:E; [rewrite (Disj s E) in Hs; discriminate|reflexivity].
  Qed.
End ComposeIntegral.
