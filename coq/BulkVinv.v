(* BulkVinv.v -- bulk addition keeps the vertex-set reading (C01): when addSimplicesFrom (no renaming; also
   copy(target)) of a complex that meets the vertex-set reading into one that meets it succeeds, the result meets it,
   every simplex with the points it has where it comes from.  An accepted bulk add shares no name with the receiver
   (each add would be refused), hence no point, hence no vertex set.  Plain Coq. *)
From Coq Require Import String ZArith Bool Arith List Lia.
From SV Require Import Names NamesFacts ListFacts Rep Fresh Complex Atomic RepInv Reach ReachGen2 Shapes Incidence AddEffect
                       Closed ClosedReach AddBasis BasisInv CopyFaithful VInv AwbSpec VSets Homology ComposeProofs VIso2 CopyAttrs.
Import ListNotations.
Open Scope nat_scope.

Lemma bulk_add_new_names : forall (src : srcview) hp r st ns hp' r' st' ns',
  sinv r -> addFrom_loop hp r RNone st src ns = (hp', r', st', Ok ns') ->
  forall s, In s (map fst src) -> containsSimplex r s = false.
Proof.
  induction src as [|[s [fs h]] rest IH]; intros hp r st ns hp' r' st' ns' Hinv H s0 Hs0; [destruct Hs0|].
  cbn [addFrom_loop] in H. cbn [rl_apply] in H. rewrite name_eqb_refl in H. simpl negb in H. cbv iota in H. simpl andb in H. cbv iota in H.
  rewrite rl_map_none in H.
  destruct (alloc r) as [r1 h'] eqn:Ea.
  assert (Hs1 : same_obs r r1) by (pose proof (same_obs_alloc r) as X; now rewrite Ea in X).
  assert (Hinv1 : sinv r1) by (eapply sinv_same_obs; eauto).
  destruct (same_obs_queries r r1 Hs1) as (_ & _ & _ & _ & _ & Qc & _).
  destruct (addSimplex r1 fs (Some s) (Some h')) as [r2 [id|e]] eqn:E; [|discriminate].
  destruct (addSimplex_given r1 fs s h' r2 id E) as (-> & Cs & _).
  destruct (addSimplex_effect r1 fs (Some s) (Some h') r2 s Hinv1 E) as (_ & _ & _ & _ & _ & Hall).
  destruct Hs0 as [<-|Hs0].
  - simpl. now rewrite <- Qc.
  - assert (Hinv2 : sinv r2) by (eapply addSimplex_sinv; eauto).
    pose proof (IH _ _ _ _ _ _ _ _ Hinv2 H s0 Hs0) as C2. rewrite Hall in C2. apply orb_false_iff in C2. destruct C2 as [C2 _].
    now rewrite <- Qc.
Qed.

Theorem bulk_add_vinv hp r src st ns hp' r' st' ns' : vinv r -> vinv src ->
  addFrom_loop hp r RNone st (view_of src) ns = (hp', r', st', Ok ns') ->
  vinv r' /\ forall s, containsSimplex r' s = true -> sameset (basisOf r' s) (basisOf (if containsSimplex r s then r else src) s).
Proof.
  intros Vr Vs H.
  pose proof (b_c r (v_b r Vr)) as Cr. pose proof (b_c src (v_b src Vs)) as Cs.
  pose proof (s_p src (c_s src Cs)) as Ps.
  destruct (bulk_add_faithful (view_of src) hp r st ns hp' r' st' ns' (c_s r Cr) H) as (Sr' & Hsrc & Hkeep & Hmem).
  pose proof (bulk_add_new_names (view_of src) hp r st ns hp' r' st' ns' (c_s r Cr) H) as Hnew.
  assert (Names : forall s, In s (map fst (view_of src)) <-> containsSimplex src s = true).
  { intros s. unfold view_of. rewrite map_map. simpl. rewrite map_id. apply In_simplices_iff. exact Ps. }
  assert (Bd : bcinv r').
  { eapply (ReachGen2.addFrom_loop_I bcinv); eauto using bcinv_same_obs, addSimplex_bcinv. exact (v_b r Vr). }
  apply (vinv_union r src r' Vr Vs Bd).
  - intros s Cs' Csr. destruct (Hkeep s Csr) as (_ & O & _ & F & _). split; [exact O|]. intros t. now rewrite F.
  - intros s Cs' Csr. rewrite Hmem, Csr in Cs'. simpl in Cs'. apply memn_In in Cs'. pose proof (proj1 (Names s) Cs') as Css.
    split; [exact Css|].
    destruct (Hsrc s (faces src s) (match assoc s (r_attr src) with Some h => h | None => (0, 0) end)) as (_ & O & F).
    { unfold view_of. apply in_map_iff. exists s. split; [reflexivity|]. now apply (In_simplices_iff src s Ps). }
    split; [|exact F]. rewrite O. symmetry. now apply order_by_faces.
  - intros s Css Csr. exfalso. rewrite (Hnew s (proj2 (Names s) Css)) in Csr. discriminate.
  - intros s t Css Ctr Hst. exfalso.
    apply (contains_assoc src) in Css. destruct Css as (k & j & As).
    apply (contains_assoc r) in Ctr. destruct Ctr as (kt & jt & At).
    destruct (basisOf src s) as [|p l] eqn:Eb; [pose proof (v_card src Vs s k j As) as X; rewrite Eb in X; discriminate|].
    assert (Hp : In p (basisOf src s)) by (rewrite Eb; now left).
    destruct (a_basis_point src Vs s k j p As Hp) as (ip & Ap).
    assert (Cps : containsSimplex src p = true) by (unfold containsSimplex; now rewrite Ap).
    rewrite <- Eb in Hst. apply Hst in Hp.
    destruct (a_basis_point r Vr t kt jt p At Hp) as (ip' & Ap').
    assert (Cpr : containsSimplex r p = true) by (unfold containsSimplex; now rewrite Ap').
    rewrite (Hnew p (proj2 (Names p) Cps)) in Cpr. discriminate.
Qed.

(* addSimplicesFrom without a renaming, and copy(target) *)
Theorem addSimplicesFrom_vinv hp r src hp' r' st ns' : vinv r -> vinv src ->
  addSimplicesFrom hp r (view_of src) RNone = (hp', r', st, Ok ns') -> vinv r'.
Proof. intros Vr Vs H. unfold addSimplicesFrom in H. exact (proj1 (bulk_add_vinv _ _ _ _ _ _ _ _ _ Vr Vs H)). Qed.

Theorem copy_into_vinv hp src target hp' r' : vinv target -> vinv src ->
  copy_into hp (view_of src) target = (hp', r', Ok tt) -> vinv r'.
Proof.
  intros Vt Vs H. unfold copy_into in H.
  destruct (negb (length (intern (map fst (view_of src)) (simplices target false)) =? 0)); [discriminate|].
  destruct (addSimplicesFrom hp target (view_of src) RNone) as [[[hp1 r1] st] [l|e]] eqn:E; [|discriminate].
  injection H as _ <-. eapply addSimplicesFrom_vinv; [exact Vt|exact Vs|exact E].
Qed.
