(* SameBetti.v -- C06: the Betti numbers depend only on the family of vertex sets.  Two complexes that meet the
   vertex-set reading and carry simplices on the same sets of points -- whatever the names, the order of
   insertion, the deletions, copies, renamings or decodings that led to them -- have the same mod-2 Betti
   numbers: their boundary operators differ by a re-indexing of rows and columns (SameFamily.v), which does not
   change the GF(2) rank (RankPerm.v). *)
From Coq Require Import ZArith Lia.
From mathcomp Require Import all_ssreflect all_fingroup all_algebra.
From SV Require Import Names ListFacts Rep Complex Homology ListMat SnfCount Rank Betti RepInv Shapes Incidence Closed BasisInv VInv.
From SV Require Import Components TwoOnes Betti0 RankPerm FlagComplete SameFamily.
Set Implicit Arguments.
Unset Strict Implicit.
Unset Printing Implicit Defensive.
Import GRing.Theory.
Local Open Scope ring_scope.

Lemma rk_nocols m : ncols m = 0%N -> rk m = 0%N.
Proof. by move=> H; apply/eqP; rewrite -leqn0 -H; apply: rk_le_cols. Qed.

Lemma rk_higher r1 r2 k : vinv r1 -> vinv r2 -> same_family r1 r2 ->
  rk (boundaryOperator r1 (S k)) = rk (boundaryOperator r2 (S k)).
Proof.
move=> V1 V2 Hf.
have S1 := c_s r1 (b_c r1 (v_b r1 V1)). have S2 := c_s r2 (b_c r2 (v_b r2 V2)).
have Hn := @same_counts r1 r2 (S k) V1 V2 Hf.
have Hm := @same_counts r1 r2 k V1 V2 Hf.
have C1 := @boundary_ncols r1 (S k) S1. have C2 := @boundary_ncols r2 (S k) S2.
case En : (length (simplicesOfOrder r1 (S k))) => [|n'].
  by rewrite !rk_nocols // ?C1 ?C2 -?Hn.
have Hlt1 : (S k < r_nord r1)%coq_nat.
  by apply: (@sOO_nonempty_lt r1 (S k) 0); rewrite En; lia.
have Hlt2 : (S k < r_nord r2)%coq_nat.
  by apply: (@sOO_nonempty_lt r2 (S k) 0); rewrite -Hn En; lia.
have [_ R1] := @boundary_shape r1 (S k) S1 Hlt1. have [_ R2] := @boundary_shape r2 (S k) S2 Hlt2.
have R1' : nrows (boundaryOperator r1 (S k)) = length (simplicesOfOrder r1 k).
  by rewrite R1; [rewrite /= PeanoNat.Nat.sub_0_r | lia].
have R2' : nrows (boundaryOperator r2 (S k)) = length (simplicesOfOrder r1 k).
  by rewrite R2; [rewrite /= PeanoNat.Nat.sub_0_r Hm | lia].
rewrite /rk R1' R2' C1 C2 -Hn.
apply: (@rank_reindex _ _ _ _ (sig r1 r2 k) (sig r1 r2 (S k))).
- move=> i /ltP Hi. have [H _] := @sig_spec r1 r2 V1 V2 Hf k i Hi. by apply/ltP; rewrite Hm.
- move=> i i' /ltP Hi /ltP Hi'. exact: (@sig_inj r1 r2 V1 V2 Hf k i i' Hi Hi').
- move=> j /ltP Hj. have [H _] := @sig_spec r1 r2 V1 V2 Hf (S k) j Hj. by apply/ltP; rewrite Hn.
- move=> j j' /ltP Hj /ltP Hj'. exact: (@sig_inj r1 r2 V1 V2 Hf (S k) j j' Hj Hj').
- move=> i j /ltP Hi /ltP Hj.
  have [Hi2 _] := @sig_spec r1 r2 V1 V2 Hf k i Hi.
  rewrite (@entry_rows_of _ i j); last by rewrite R1'.
  rewrite (@entry_rows_of _ (sig r1 r2 k i) (sig r1 r2 (S k) j)); last by rewrite R2' Hm.
  exact: (@same_entries r1 r2 k i j V1 V2 Hf Hi Hj).
Qed.

Theorem same_betti r1 r2 k : vinv r1 -> vinv r2 -> same_family r1 r2 -> betti1 r1 k = betti1 r2 k.
Proof.
move=> V1 V2 Hf.
have S1 := c_s r1 (b_c r1 (v_b r1 V1)). have S2 := c_s r2 (b_c r2 (v_b r2 V2)).
rewrite !betti_formula (@boundary_ncols r1 k S1) (@boundary_ncols r2 k S2) (@same_counts r1 r2 k V1 V2 Hf).
rewrite (@rk_higher r1 r2 k V1 V2 Hf).
case: k => [|k]; last by rewrite (@rk_higher r1 r2 k V1 V2 Hf).
have -> : boundaryOperator r1 0 = zeros 1 (length (simplicesOfOrder r1 0)) by [].
have -> : boundaryOperator r2 0 = zeros 1 (length (simplicesOfOrder r2 0)) by [].
by rewrite !rk_zeros.
Qed.

(* a copy has the Betti numbers of its source *)
From SV Require Import CopyFaithful VIso NamesFacts.
Theorem copy_same_betti hp src uid hp' c k : vinv src -> copy_new hp (view_of src) uid = (hp', c, Ok tt) ->
  betti1 c k = betti1 src k.
Proof.
move=> Hv E.
have [Vc Bc] := @copy_vinv hp src uid hp' c Hv E.
have [_ [Hm _]] := @copy_faithful hp src uid hp' c E.
have P := s_p src (c_s src (b_c src (v_b src Hv))).
apply: same_betti => // B HB Hne; split => -[t [Ct St]].
- exists t; split; last by move=> x; rewrite -(St x); split => H; apply/(Bc t Ct).
  by move: Ct; rewrite Hm => /memn_In /(In_simplices_iff src t P).
- have Ct' : containsSimplex c t = true by rewrite Hm; apply/memn_In/(In_simplices_iff src t P).
  exists t; split => // x; rewrite -(St x); exact: (Bc t Ct' x).
Qed.
