(* VIso.v -- the vertex-set reading passes to sub-complexes with the same face relation: copies and
   snapshots of filtrations.  Plain Coq. *)
From Coq Require Import String ZArith Bool Arith List Lia.
From SV Require Import Names NamesFacts ListFacts Rep Fresh Complex Atomic RepInv Reach ReachGen2 Shapes Incidence AddEffect
                       Closed ClosedReach AddBasis BasisInv CopyFaithful VInv AwbSpec VSets Filtration FiltProofs SnapProofs.
Import ListNotations.
Open Scope nat_scope.

Section Sub.
  Variables r r' : rep.
  Hypothesis Hv : vinv r.
  Hypothesis Hb' : bcinv r'.
  Hypothesis Hsub : forall s, containsSimplex r' s = true ->
    containsSimplex r s = true /\ orderOf r' s = orderOf r s /\ forall t, In t (faces r' s) <-> In t (faces r s).

  Let HS' : sinv r' := c_s r' (b_c r' Hb').
  Let HS : sinv r := c_s r (b_c r (v_b r Hv)).

  Lemma sub_assoc s k j : assoc s (r_simp r') = Some (k, j) -> exists i, assoc s (r_simp r) = Some (k, i).
  Proof.
    intros As. assert (C : containsSimplex r' s = true) by (unfold containsSimplex; now rewrite As).
    destruct (Hsub s C) as (Cr & Ho & _). unfold orderOf in Ho. rewrite As in Ho.
    destruct (assoc s (r_simp r)) as [[k0 i]|]; [|discriminate]. injection Ho as <-. eauto.
  Qed.

  Lemma sub_basis : forall k s j, assoc s (r_simp r') = Some (k, j) -> sameset (basisOf r' s) (basisOf r s).
  Proof.
    induction k as [|k IH]; intros s j As; destruct (sub_assoc s _ j As) as (i & Ar).
    - destruct (b_b r' Hb' s 0 j As) as [E' _]. destruct (b_b r (v_b r Hv) s 0 i Ar) as [E _].
      rewrite E', E by reflexivity. intros z; reflexivity.
    - destruct (b_b r' Hb' s (S k) j As) as [_ E']. destruct (b_b r (v_b r Hv) s (S k) i Ar) as [_ E].
      assert (C : containsSimplex r' s = true) by (unfold containsSimplex; now rewrite As).
      destruct (Hsub s C) as (_ & _ & Hf).
      intros p. rewrite E', E by lia. split; intros (u & Hu & Hp).
      + exists u. split; [now apply Hf|]. destruct (face_is_simplex r' HS' s u k j As Hu) as (iu & Au).
        now apply (IH u iu Au).
      + exists u. apply Hf in Hu. split; [exact Hu|]. destruct (face_is_simplex r' HS' s u k j As Hu) as (iu & Au).
        now apply (IH u iu Au).
  Qed.

  Theorem vinv_sub : vinv r' /\ forall s, containsSimplex r' s = true -> sameset (basisOf r' s) (basisOf r s).
  Proof.
    assert (G : forall s, containsSimplex r' s = true -> sameset (basisOf r' s) (basisOf r s)).
    { intros s C. apply (contains_assoc r') in C. destruct C as (k & j & As). exact (sub_basis k s j As). }
    split; [|exact G]. constructor; [exact Hb'| |].
    - intros t k j At. destruct (sub_assoc t k j At) as (i & Ar).
      rewrite <- (v_card r Hv t k i Ar). apply NoDup_sameset_length; try (apply basis_nodup; apply s_p; assumption).
      exact (sub_basis k t j At).
    - intros t u Ct Cu Hss. destruct (Hsub t Ct) as (Crt & _). destruct (Hsub u Cu) as (Cru & _).
      apply (v_uniq r Hv); auto. intros z. rewrite <- (G t Ct z), <- (G u Cu z). apply Hss.
  Qed.
End Sub.

Lemma copy_new_bcinv hp src uid hp' c x : copy_new hp src uid = (hp', c, x) -> bcinv c.
Proof.
  intros H. eapply (ReachGen2.copy_new_I bcinv);
    eauto using bcinv_same_obs, bcinv_empty, addSimplex_bcinv, relabelSimplex_bcinv, deleteSimplex_bcinv.
Qed.

(* a copy of a complex that meets the vertex-set reading meets it, with the same point sets *)
Theorem copy_vinv hp src uid hp' c : vinv src -> copy_new hp (view_of src) uid = (hp', c, Ok tt) ->
  vinv c /\ forall s, containsSimplex c s = true -> sameset (basisOf c s) (basisOf src s).
Proof.
  intros Hv H. pose proof (b_c src (v_b src Hv)) as Hc. pose proof (s_p src (c_s src Hc)) as P.
  destruct (copy_faithful hp src uid hp' c H) as (_ & Hm & Hf).
  apply (vinv_sub src c Hv (copy_new_bcinv _ _ _ _ _ _ H)).
  intros s Cs. rewrite Hm in Cs. apply memn_In in Cs. pose proof Cs as Cs'. apply (In_simplices_iff src s P) in Cs'.
  split; [exact Cs'|]. destruct (Hf s Cs) as [Ho Hff]. split; [|exact Hff].
  rewrite Ho. apply (contains_assoc src) in Cs'. destruct Cs' as (k & j & As). unfold orderOf, faces. rewrite As.
  destruct k as [|k]; [reflexivity|]. pose proof (c_f src Hc s k j As) as L. unfold faces in L. rewrite As in L. rewrite L. reflexivity.
Qed.

(* the snapshot of a filtration whose complex meets the vertex-set reading meets it *)
Theorem snap_vinv hp f uid hp' c : vinv (f_rep f) -> copy_new hp (f_view f) uid = (hp', c, Ok tt) ->
  vinv c /\ forall s, containsSimplex c s = true -> sameset (basisOf c s) (basisOf (f_rep f) s).
Proof.
  intros Hv H. pose proof (b_c _ (v_b _ Hv)) as Hc. pose proof (s_p _ (c_s _ Hc)) as P.
  destruct (snap_answers_as_filtration hp f uid hp' c P H) as (_ & Hm & Hf).
  apply (vinv_sub (f_rep f) c Hv (copy_new_bcinv _ _ _ _ _ _ H)).
  intros s Cs. rewrite Hm in Cs. pose proof Cs as Cf. unfold f_contains in Cf. apply andb_prop in Cf. destruct Cf as [Cr _].
  split; [exact Cr|]. destruct (Hf s Cs) as [Ho Hff]. split; [|exact Hff].
  rewrite Ho. apply (contains_assoc (f_rep f)) in Cr. destruct Cr as (k & j & As). unfold orderOf, faces. rewrite As.
  destruct k as [|k]; [reflexivity|]. pose proof (c_f _ Hc s k j As) as L. unfold faces in L. rewrite As in L. rewrite L. reflexivity.
Qed.
