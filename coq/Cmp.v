(* Cmp.v -- the comparison operators (C10).  Plain Coq. *)
From Coq Require Import String ZArith Bool Arith List Lia.
From SV Require Import Names NamesFacts ListFacts Rep Fresh Complex Atomic RepInv.
Import ListNotations.
Open Scope nat_scope.

Lemma subsetn_incl a b : subsetn a b = true <-> incl a b.
Proof.
  unfold subsetn, incl. rewrite forallb_forall. split; intros H x Hx.
  - apply memn_In. now apply H.
  - apply memn_In. now apply H.
Qed.

(* a <= c: every simplex listed by a is in c, with the same order, and its faces in a are faces in c *)
Definition le_spec (a c : rep) : Prop :=
  forall k i, k < r_nord a -> In i (simplicesOfOrder a k) ->
  containsSimplex c i = true /\ orderOf c i = Ok k /\ incl (faces a i) (faces c i).

Theorem le_iff a c : c_le a c = true <-> le_spec a c.
Proof.
  unfold c_le, isSubComplexOf, le_spec. rewrite forallb_forall. split.
  - intros H k i Hk Hi. specialize (H k). rewrite in_seq in H. specialize (H (conj (Nat.le_0_l k) Hk)).
    rewrite forallb_forall in H. specialize (H i Hi).
    apply andb_prop in H. destruct H as [H H3]. apply andb_prop in H. destruct H as [H1 H2].
    split; [exact H1|]. split.
    + destruct (orderOf c i) as [k'|e]; [|discriminate]. apply Nat.eqb_eq in H2. now subst.
    + now apply subsetn_incl.
  - intros H k Hk. apply in_seq in Hk. rewrite forallb_forall. intros i Hi.
    destruct (H k i (proj2 Hk) Hi) as (H1 & H2 & H3). rewrite H1, H2, Nat.eqb_refl. simpl. now apply subsetn_incl.
Qed.

(* the strict / converse / equality operators are defined from <= and the number of simplices *)
Theorem lt_def a c : c_lt a c = c_le a c && (numberOfSimplices a <? numberOfSimplices c). Proof. reflexivity. Qed.
Theorem eq_def a c : c_eq a c = c_le a c && (numberOfSimplices a =? numberOfSimplices c). Proof. reflexivity. Qed.
Theorem ge_def a c : c_ge a c = c_le c a. Proof. reflexivity. Qed.
Theorem gt_def a c : c_gt a c = c_lt c a. Proof. reflexivity. Qed.
Theorem ne_def a c : c_ne a c = negb (c_eq a c). Proof. reflexivity. Qed.

(* attributes never matter *)
Definition with_attr (r : rep) (at' : list (name * handle)) : rep :=
  mkRep (r_uid r) (r_nord r) (r_simp r) (r_idx r) (r_bnd r) (r_bas r) at' (r_seq r) (r_nalloc r).
Theorem attr_blind a c x y :
  c_le (with_attr a x) (with_attr c y) = c_le a c /\ c_eq (with_attr a x) (with_attr c y) = c_eq a c /\
  c_lt (with_attr a x) (with_attr c y) = c_lt a c.
Proof. repeat split. Qed.

(* reflexive on every reachable complex *)
Theorem le_refl a : pinv a -> c_le a a = true.
Proof.
  intros Hinv. apply le_iff. intros k i Hk Hi.
  apply nth_error_In' in Hi. destruct Hi as [j Hj].
  apply (orderOf_indexOf_position a i k j Hinv) in Hj. destruct Hj as [Ho _].
  split; [|split; [exact Ho | apply incl_refl]].
  unfold containsSimplex. unfold orderOf in Ho. destruct (assoc i (r_simp a)); [reflexivity | discriminate].
Qed.

Theorem eq_refl' a : pinv a -> c_eq a a = true.
Proof. intros H. unfold c_eq. rewrite le_refl by exact H. now rewrite Nat.eqb_refl. Qed.

(* transitive *)
Theorem le_trans a b c : pinv b -> c_le a b = true -> c_le b c = true -> c_le a c = true.
Proof.
  intros Hb H1 H2. apply le_iff in H1, H2. apply le_iff. intros k i Hk Hi.
  destruct (H1 k i Hk Hi) as (C1 & O1 & F1).
  (* i is listed at order k in b *)
  unfold orderOf in O1. destruct (assoc i (r_simp b)) as [[k0 j]|] eqn:A; [|discriminate]. injection O1 as ->.
  destruct Hb as [K P St L]. destruct (proj1 (P i k j) A) as [Hkb Hn].
  assert (Hib : In i (simplicesOfOrder b k)).
  { unfold simplicesOfOrder. apply Nat.ltb_lt in Hkb. rewrite Hkb. eapply nth_error_In; eauto. }
  destruct (H2 k i Hkb Hib) as (C2 & O2 & F2).
  split; [exact C2|]. split; [exact O2|]. eapply incl_tran; eauto.
Qed.

(* the number of simplices is the length of simplices() *)
Lemma length_concat {A} (l : list (list A)) : length (concat l) = fold_right Nat.add 0 (map (@length A) l).
Proof. induction l as [|h t IH]; simpl; auto. rewrite app_length, IH. reflexivity. Qed.

Lemma concat_all_nil {A} (l : list (list A)) : (forall x, In x l -> x = []) -> concat l = [].
Proof. induction l as [|h t IH]; intros H; simpl; auto. rewrite (H h) by (now left). apply IH. intros; apply H; now right. Qed.

Lemma numberOfSimplices_length r : pinv r -> numberOfSimplices r = length (simplices r false).
Proof.
  intros Hinv. rewrite (simplices_by_order r Hinv). unfold numberOfSimplices, numberOfSimplicesOfOrder.
  destruct Hinv as [K P St L].
  replace (length (r_idx r)) with (r_nord r + (length (r_idx r) - r_nord r)) by lia.
  rewrite seq_app, map_app, concat_app, app_length.
  rewrite (concat_all_nil (map (simplicesOfOrder r) (seq (0 + r_nord r) _))).
  - simpl. rewrite Nat.add_0_r, length_concat, map_map. reflexivity.
  - intros x Hx. apply in_map_iff in Hx. destruct Hx as [k [<- Hk]]. apply in_seq in Hk.
    unfold simplicesOfOrder. destruct (k <? r_nord r) eqn:E; auto. apply Nat.ltb_lt in E. lia.
Qed.

(* antisymmetric up to == *)
Theorem le_antisym a b : pinv a -> pinv b -> c_le a b = true -> c_le b a = true -> c_eq a b = true.
Proof.
  intros Ha Hb H1 H2. unfold c_eq. rewrite H1. simpl. apply Nat.eqb_eq.
  rewrite !numberOfSimplices_length by assumption.
  assert (Hincl : forall x y, pinv x -> pinv y -> c_le x y = true -> incl (simplices x false) (simplices y false)).
  { intros x y Hx Hy H s Hs. apply le_iff in H.
    rewrite (simplices_by_order x Hx) in Hs. apply in_concat in Hs. destruct Hs as [l [Hl Hs]].
    apply in_map_iff in Hl. destruct Hl as [k [<- Hk]].
    assert (Hkx : k < r_nord x).
    { unfold simplicesOfOrder in Hs. destruct (k <? r_nord x) eqn:E; [now apply Nat.ltb_lt | destruct Hs]. }
    destruct (H k s Hkx Hs) as (C & _ & _).
    apply (contains_iff_listed y s Hy) in C. destruct C as [k' Hk'].
    rewrite (simplices_by_order y Hy). apply in_concat. exists (simplicesOfOrder y k'). split; auto.
    apply in_map_iff. exists k'. split; auto. apply in_seq.
    unfold simplicesOfOrder in Hk'. destruct (k' <? r_nord y) eqn:E; [|destruct Hk'].
    apply Nat.ltb_lt in E. destruct Hy as [_ _ _ L]. lia. }
  apply Nat.le_antisymm; apply NoDup_incl_length; auto using simplices_nodup.
Qed.
