(* DeleteEffect.v -- the exact effect of deleteSimplex (C02): it removes the star of the simplex
   -- the simplex and everything reached from it by coface steps -- and nothing else; every
   surviving simplex keeps its order and its faces.  Plain Coq. *)
From Coq Require Import String ZArith Bool Arith List Lia.
From SV Require Import Names NamesFacts ListFacts Rep Fresh Complex Atomic RepInv Reach Shapes Incidence AddEffect
                       DelEffect StarOrder Closed Duality.
Import ListNotations.
Open Scope nat_scope.

Lemma forceDelete_membership r s k i : sinv r -> assoc s (r_simp r) = Some (k, i) ->
  forall t, containsSimplex (fst (forceDeleteSimplex r s)) t = containsSimplex r t && negb (name_eqb t s).
Proof.
  intros HS As t. destruct (name_eqb_spec t s) as [->|Hne].
  - rewrite (d_gone r s k i HS As). now rewrite andb_false_r.
  - rewrite andb_true_r. destruct (containsSimplex r t) eqn:Ct.
    + unfold containsSimplex in Ct. destruct (assoc t (r_simp r)) as [[kt it]|] eqn:At; [|discriminate].
      destruct (d_pos r s k i HS As t kt it Hne At) as (_ & A' & _). unfold containsSimplex. now rewrite A'.
    + destruct (containsSimplex (fst (forceDeleteSimplex r s)) t) eqn:C'; [|reflexivity].
      apply (d_sub r s k i HS As) in C'. destruct C' as [C' _]. congruence.
Qed.

Lemma fold_delete_effect : forall (L : list name) rc,
  sinv rc -> NoDup L -> (forall t, In t L -> containsSimplex rc t = true) ->
  forall r' x, fold_left del_step L (rc, Ok tt) = (r', x) ->
  x = Ok tt /\ sinv r' /\
  (forall t, containsSimplex r' t = containsSimplex rc t && negb (memn t L)) /\
  (forall t, containsSimplex r' t = true ->
     orderOf r' t = orderOf rc t /\ forall u, In u (faces r' t) <-> In u (faces rc t) /\ ~ In u L).
Proof.
  induction L as [|s L IH]; intros rc HS Hnd Hin r' x H; simpl in H.
  - injection H as <- <-. split; [reflexivity|]. split; [exact HS|]. split.
    + intros t. simpl. now rewrite andb_true_r.
    + intros t _. split; [reflexivity|]. intros u. simpl. tauto.
  - inversion Hnd as [|y ys Hy Hys]; subst.
    assert (Hct : containsSimplex rc s = true) by (apply Hin; now left).
    unfold containsSimplex in Hct. destruct (assoc s (r_simp rc)) as [[k i]|] eqn:As; [|discriminate].
    pose proof (del_ok rc s k i As) as Hok. rewrite Hok in H.
    set (r1 := fst (forceDeleteSimplex rc s)) in *.
    assert (HS1 : sinv r1) by (apply (d_sinv rc s k i HS As)).
    pose proof (forceDelete_membership rc s k i HS As) as Hm1. fold r1 in Hm1.
    assert (Hin1 : forall t, In t L -> containsSimplex r1 t = true).
    { intros t Ht. rewrite Hm1. rewrite (Hin t (or_intror Ht)). simpl.
      destruct (name_eqb_spec t s) as [->|]; [contradiction | reflexivity]. }
    destruct (IH r1 HS1 Hys Hin1 r' x H) as (Hx & HS' & Hmem & Hfr).
    split; [exact Hx|]. split; [exact HS'|]. split.
    + intros t. rewrite Hmem, Hm1. unfold memn. simpl. rewrite (name_eqb_sym t s).
      destruct (containsSimplex rc t), (name_eqb s t), (existsb (name_eqb t) L); reflexivity.
    + intros t Ht. destruct (Hfr t Ht) as [Ho Hf].
      assert (Hc1 : containsSimplex r1 t = true).
      { rewrite Hmem in Ht. apply andb_prop in Ht. tauto. }
      assert (Hne : t <> s) by (intros ->; rewrite Hm1, name_eqb_refl, andb_false_r in Hc1; discriminate).
      rewrite Hm1 in Hc1. apply andb_prop in Hc1. destruct Hc1 as [Hc _].
      unfold containsSimplex in Hc. destruct (assoc t (r_simp rc)) as [[kt it]|] eqn:At; [|discriminate].
      destruct (d_pos rc s k i HS As t kt it Hne At) as (_ & A1 & _). fold r1 in A1.
      destruct (d_faces rc s k i HS As t kt it Hne At) as [Hf1 _]. fold r1 in Hf1.
      split.
      * rewrite Ho. unfold orderOf. now rewrite A1, At.
      * intros u. rewrite Hf, Hf1. simpl. intuition.
Qed.

(* deleteSimplex removes exactly the star of s: s and whatever is reached from s by coface steps *)
Theorem deleteSimplex_effect r s r' x : sinv r -> containsSimplex r s = true ->
  deleteSimplex r s = (r', x) ->
  x = Ok tt /\ sinv r' /\
  (forall t, containsSimplex r' t = true <-> containsSimplex r t = true /\ ~ exists j, cchain r j s t) /\
  (forall t, containsSimplex r' t = true ->
     orderOf r' t = orderOf r t /\ forall u, In u (faces r' t) <-> In u (faces r t)).
Proof.
  intros HS Hc H. unfold deleteSimplex in H.
  unfold containsSimplex in Hc. destruct (assoc s (r_simp r)) as [[k is]|] eqn:As; [|discriminate].
  destruct (partOf r s true false) as [L|e] eqn:EP.
  2: { unfold partOf, orderOf in EP. rewrite As in EP. discriminate. }
  destruct (star_positions r HS s k is L As EP) as (Hnd & Hin & _).
  pose proof (partOf_spec r HS s k is true L As EP) as Hstar.
  destruct (fold_delete_effect L r HS Hnd Hin r' x H) as (Hx & HS' & Hmem & Hfr).
  split; [exact Hx|]. split; [exact HS'|]. split.
  - intros t. rewrite Hmem, andb_true_iff, negb_true_iff. rewrite <- Hstar. split.
    + intros [H1 H2]. split; [exact H1|]. intros Hl. apply memn_In in Hl. congruence.
    + intros [H1 H2]. split; [exact H1|]. destruct (memn t L) eqn:E; [|reflexivity]. apply memn_In in E. contradiction.
  - intros t Ht. destruct (Hfr t Ht) as [Ho Hf]. split; [exact Ho|]. intros u. rewrite Hf. split; [tauto|].
    intros Hu. split; [exact Hu|]. intros HuL.
    (* a deleted face would drag t into the star *)
    apply Hstar in HuL. destruct HuL as (j & Hj).
    assert (HtL : In t L).
    { apply Hstar. exists (S j). apply (cchain_snoc r j s t u Hj). now apply (cofaces_inverse_of_faces r HS t u). }
    rewrite Hmem in Ht. apply andb_prop in Ht. destruct Ht as [_ Ht]. apply negb_true_iff in Ht.
    apply memn_In in HtL. congruence.
Qed.
