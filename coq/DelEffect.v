(* DelEffect.v -- the exact effect of forceDeleteSimplex on a complex satisfying the shape
   invariant: the simplex goes, every other simplex stays with its order; faces and cofaces of the
   others lose exactly the deleted simplex.  Plain Coq. *)
From Coq Require Import String ZArith Bool Arith List Lia.
From SV Require Import Names NamesFacts ListFacts Rep Fresh Complex Atomic RepInv Shapes Incidence AddEffect.
Import ListNotations.
Open Scope nat_scope.

(* ---------- columns and rows after deleting a row / a column ---------- *)
Lemma getcol_del_col i m j : getcol j (del_col i m) = getcol (if j <? i then j else S j) m.
Proof. unfold getcol, del_col. simpl. rewrite nth_remove_nth. now destruct (j <? i). Qed.
Lemma getcol_del_row i m j : j < ncols m -> getcol j (del_row i m) = remove_nth i (getcol j m).
Proof.
  intros H. unfold getcol, del_row, ncols in *. simpl.
  rewrite (nth_indep _ [] (remove_nth i [])) by (now rewrite map_length). apply map_nth.
Qed.
Lemma getrow_del_col i m t : getrow t (del_col i m) = remove_nth i (getrow t m).
Proof.
  unfold getrow, del_col. simpl. generalize (mcols m). intros l. revert i.
  induction l as [|c l IH]; intros [|i]; simpl; auto. now rewrite IH.
Qed.
Lemma getrow_del_row i m t : getrow t (del_row i m) = getrow (if t <? i then t else S t) m.
Proof.
  unfold getrow, del_row. simpl. rewrite map_map. apply map_ext. intros c. rewrite nth_remove_nth. now destruct (t <? i).
Qed.

(* ---------- names read off a column after removing one position ---------- *)
Lemma noc_remove_false idx : forall col i, nth i col false = false ->
  names_of_col (remove_nth i idx) (remove_nth i col) = names_of_col idx col.
Proof.
  unfold names_of_col. induction idx as [|a idx IH]; intros col i H.
  - destruct i; reflexivity.
  - destruct col as [|b col]; [destruct i; simpl; [now destruct idx | reflexivity]|].
    destruct i as [|i]; simpl in *.
    + subst b. reflexivity.
    + destruct b; simpl; [f_equal|]; now apply IH.
Qed.

Lemma In_noc_remove idx col i u : NoDup idx -> length col = length idx ->
  (In u (names_of_col (remove_nth i idx) (remove_nth i col)) <->
   In u (names_of_col idx col) /\ nth_error idx i <> Some u).
Proof.
  intros Hnd Hlen. rewrite !In_names_of_col. split.
  - intros (j & H1 & H2). rewrite nth_error_remove_nth in H1. rewrite nth_error_remove_nth in H2.
    destruct (j <? i) eqn:E.
    + split; [eauto|]. intros Hi. apply Nat.ltb_lt in E.
      assert (j = i) by (eapply NoDup_nth_error_inj; eauto; congruence). lia.
    + split; [eauto|]. intros Hi. apply Nat.ltb_ge in E.
      assert (S j = i) by (eapply NoDup_nth_error_inj; eauto; congruence). lia.
  - intros ((j & H1 & H2) & Hne).
    destruct (Nat.lt_trichotomy j i) as [Hlt|[->|Hgt]].
    + exists j. rewrite !nth_error_remove_nth. apply Nat.ltb_lt in Hlt. now rewrite Hlt.
    + congruence.
    + destruct j as [|j]; [lia|]. exists j. rewrite !nth_error_remove_nth.
      replace (j <? i) with false by (symmetry; apply Nat.ltb_ge; lia). auto.
Qed.

Section Del.
  Variables (r : rep) (s : name) (k i : nat).
  Hypothesis Hinv : sinv r.
  Hypothesis As : assoc s (r_simp r) = Some (k, i).

  Let r' := fst (forceDeleteSimplex r s).
  Let dropped := (S k =? r_nord r) && (length (remove_nth i (idxk r k)) =? 0).

  Lemma del_ok : forceDeleteSimplex r s = (r', Ok tt).
  Proof.
    unfold r'. destruct (forceDeleteSimplex r s) as [r1 [[]|e]] eqn:E; [reflexivity|].
    exfalso. unfold forceDeleteSimplex in E. rewrite As in E. destruct (_ && _) in E; discriminate.
  Qed.

  Lemma d_sinv : sinv r'.
  Proof. eapply forceDeleteSimplex_sinv; [exact Hinv | apply del_ok]. Qed.

  Lemma d_k : k < r_nord r /\ nth_error (idxk r k) i = Some s /\ i < length (idxk r k) /\ k < length (r_idx r).
  Proof.
    pose proof (s_p r Hinv) as [K Pm St L]. destruct (proj1 (Pm s k i) As) as [Hk Hi].
    repeat split; auto; [apply nth_error_Some; congruence | lia].
  Qed.

  Lemma d_idx_raw : r_idx r' = upd_nth k (remove_nth i) [] (r_idx r).
  Proof.
    unfold r', forceDeleteSimplex. rewrite As. cbv zeta.
    match goal with |- context [if ?c then (_, _) else _] => destruct c end; reflexivity.
  Qed.

  Lemma d_idx j : idxk r' j = if j =? k then remove_nth i (idxk r k) else idxk r j.
  Proof.
    unfold idxk at 1. rewrite d_idx_raw, nth_upd_nth. destruct d_k as (_ & _ & _ & Hl).
    apply Nat.ltb_lt in Hl. now rewrite Hl, andb_true_r.
  Qed.

  Lemma d_nord : r_nord r' = if dropped then k else r_nord r.
  Proof.
    unfold r', forceDeleteSimplex, dropped. rewrite As. cbv zeta.
    destruct d_k as (_ & _ & _ & Hl).
    rewrite nth_upd_nth_same by exact Hl. fold (idxk r k).
    destruct ((S k =? r_nord r) && (length (remove_nth i (idxk r k)) =? 0)); reflexivity.
  Qed.

  Lemma d_bnd kt : 1 <= kt -> kt < r_nord r' ->
    bndk r' kt = if kt =? k then del_col i (bndk r k) else if kt =? S k then del_row i (bndk r (S k)) else bndk r kt.
  Proof.
    intros H1 Hkt. pose proof Hinv as [P Lb Ls Sh]. destruct d_k as (Hk & _ & _ & Hl).
    rewrite d_nord in Hkt.
    set (bnd1 := if 0 <? k then upd_nth k (del_col i) emptymat (r_bnd r) else r_bnd r).
    set (bnd2 := if S k <? r_nord r then upd_nth (S k) (del_row i) emptymat bnd1 else bnd1).
    assert (Hb1 : forall j, nth j bnd1 emptymat = if (j =? k) && (0 <? k) then del_col i (bndk r k) else bndk r j).
    { intros j. unfold bnd1. destruct (0 <? k) eqn:E.
      - rewrite nth_upd_nth, Lb. apply Nat.ltb_lt in Hk. rewrite Hk, !andb_true_r. reflexivity.
      - now rewrite andb_false_r. }
    assert (Hl1 : length bnd1 = r_nord r) by (unfold bnd1; destruct (0 <? k); [now rewrite length_upd_nth | exact Lb]).
    assert (Hb2 : forall j, nth j bnd2 emptymat =
              if (j =? S k) && (S k <? r_nord r) then del_row i (nth (S k) bnd1 emptymat) else nth j bnd1 emptymat).
    { intros j. unfold bnd2. destruct (S k <? r_nord r) eqn:E.
      - rewrite nth_upd_nth, Hl1, E, !andb_true_r. reflexivity.
      - now rewrite andb_false_r. }
    assert (Hraw : bndk r' kt = nth kt bnd2 emptymat).
    { unfold bndk, r', forceDeleteSimplex. rewrite As. cbv zeta. fold bnd1. fold bnd2.
      rewrite nth_upd_nth_same by exact Hl. fold (idxk r k). fold dropped.
      destruct dropped eqn:Ed; cbn [fst r_bnd]; [|reflexivity].
      rewrite nth_remove_nth. now replace (kt <? k) with true by (symmetry; apply Nat.ltb_lt; lia). }
    rewrite Hraw, Hb2, !Hb1.
    destruct (kt =? k) eqn:E1.
    - apply Nat.eqb_eq in E1. subst kt. replace (k =? S k) with false by (symmetry; apply Nat.eqb_neq; lia).
      simpl andb. cbv iota. now replace (0 <? k) with true by (symmetry; apply Nat.ltb_lt; lia).
    - cbn [andb]. destruct (kt =? S k) eqn:E2.
      + apply Nat.eqb_eq in E2. subst kt.
        assert (Hlt : S k < r_nord r) by (destruct dropped; lia).
        apply Nat.ltb_lt in Hlt. rewrite Hlt, E1. cbn [andb]. reflexivity.
      + reflexivity.
  Qed.

  (* where the others are afterwards *)
  Definition newpos (kt it : nat) : nat := if (kt =? k) && (i <? it) then it - 1 else it.

  Lemma d_pos t kt it : t <> s -> assoc t (r_simp r) = Some (kt, it) ->
    kt < r_nord r' /\ assoc t (r_simp r') = Some (kt, newpos kt it) /\ (kt = k -> it <> i).
  Proof.
    intros Hne At. pose proof (s_p r Hinv) as [K Pm St L]. pose proof (s_p r' d_sinv) as [K' Pm' St' L'].
    destruct (proj1 (Pm t kt it) At) as [Hkt Hit]. destruct d_k as (Hk & Hsi & Hil & Hl).
    assert (Hnei : kt = k -> it <> i).
    { intros -> ->. rewrite Hsi in Hit. congruence. }
    assert (Hkt' : kt < r_nord r').
    { rewrite d_nord. destruct dropped eqn:Ed; [|exact Hkt]. unfold dropped in Ed.
      apply andb_prop in Ed. destruct Ed as [E1 E2]. apply Nat.eqb_eq in E1, E2.
      rewrite length_remove_nth in E2 by exact Hil.
      destruct (Nat.eq_dec kt k) as [->|Hd]; [|lia].
      assert (it < length (idxk r k)) by (apply nth_error_Some; congruence).
      specialize (Hnei eq_refl). lia. }
    split; [exact Hkt'|]. split; [|exact Hnei].
    apply Pm'. split; [exact Hkt'|]. rewrite d_idx. unfold newpos.
    destruct (kt =? k) eqn:E.
    - apply Nat.eqb_eq in E. subst kt. specialize (Hnei eq_refl). cbn [andb]. rewrite nth_error_remove_nth.
      destruct (i <? it) eqn:E2.
      + apply Nat.ltb_lt in E2. replace (it - 1 <? i) with false by (symmetry; apply Nat.ltb_ge; lia).
        now replace (S (it - 1)) with it by lia.
      + apply Nat.ltb_ge in E2. now replace (it <? i) with true by (symmetry; apply Nat.ltb_lt; lia).
    - cbn [andb]. exact Hit.
  Qed.

  Lemma d_gone : containsSimplex r' s = false.
  Proof.
    pose proof (s_p r' d_sinv) as [K' Pm' St' L']. pose proof (s_p r Hinv) as [K Pm St L].
    destruct d_k as (Hk & Hsi & Hil & Hl).
    unfold containsSimplex. destruct (assoc s (r_simp r')) as [[k2 i2]|] eqn:E; [|reflexivity]. exfalso.
    apply Pm' in E. destruct E as [Hk2 Hi2]. rewrite d_idx in Hi2.
    assert (Hk2' : k2 < r_nord r) by (rewrite d_nord in Hk2; destruct dropped; lia).
    destruct (k2 =? k) eqn:E.
    - apply Nat.eqb_eq in E. subst k2. rewrite nth_error_remove_nth in Hi2.
      assert (Hnd : NoDup (idxk r k)) by (apply pinv_nodup_order; [exact (s_p r Hinv) | exact Hk]).
      destruct (i2 <? i) eqn:E2.
      + apply Nat.ltb_lt in E2. assert (i2 = i) by (eapply NoDup_nth_error_inj; eauto). lia.
      + apply Nat.ltb_ge in E2. assert (S i2 = i) by (eapply NoDup_nth_error_inj; eauto). lia.
    - apply Nat.eqb_neq in E. assert (A2 : assoc s (r_simp r) = Some (k2, i2)) by (apply Pm; auto). congruence.
  Qed.

  (* nothing new appears *)
  Lemma d_sub t : containsSimplex r' t = true -> containsSimplex r t = true /\ t <> s.
  Proof.
    intros H. pose proof (s_p r' d_sinv) as [K' Pm' St' L']. pose proof (s_p r Hinv) as [K Pm St L].
    split; [|intros ->; rewrite d_gone in H; discriminate].
    unfold containsSimplex in *. destruct (assoc t (r_simp r')) as [[k2 i2]|] eqn:E; [|discriminate].
    apply Pm' in E. destruct E as [Hk2 Hi2]. rewrite d_idx in Hi2.
    assert (Hk2' : k2 < r_nord r) by (rewrite d_nord in Hk2; destruct dropped; destruct d_k; lia).
    destruct (k2 =? k) eqn:E.
    - apply Nat.eqb_eq in E. subst k2. rewrite nth_error_remove_nth in Hi2.
      destruct (i2 <? i).
      + assert (A2 : assoc t (r_simp r) = Some (k, i2)) by (apply Pm; auto). now rewrite A2.
      + assert (A2 : assoc t (r_simp r) = Some (k, S i2)) by (apply Pm; auto). now rewrite A2.
    - assert (A2 : assoc t (r_simp r) = Some (k2, i2)) by (apply Pm; auto). now rewrite A2.
  Qed.

  Lemma face_order t u kt it : assoc t (r_simp r) = Some (kt, it) -> In u (faces r t) ->
    exists kt' iu, kt = S kt' /\ assoc u (r_simp r) = Some (kt', iu).
  Proof.
    intros At H. destruct kt as [|kt']; [unfold faces in H; rewrite At in H; destruct H|].
    destruct (face_is_simplex r Hinv t u kt' it At H) as (iu & Au). eauto.
  Qed.

  (* the faces of the others: exactly the old ones without s *)
  Theorem d_faces t kt it : t <> s -> assoc t (r_simp r) = Some (kt, it) ->
    (forall u, In u (faces r' t) <-> In u (faces r t) /\ u <> s) /\
    (~ In s (faces r t) -> faces r' t = faces r t).
  Proof.
    intros Hne At. pose proof Hinv as [P Lb Ls Sh]. pose proof P as [K Pm St L].
    destruct (d_pos t kt it Hne At) as (Hkt' & At' & Hnei).
    destruct (proj1 (Pm t kt it) At) as [Hkt Hit].
    destruct d_k as (Hk & Hsi & Hil & Hl).
    assert (Hitl : it < length (idxk r kt)) by (apply nth_error_Some; congruence).
    destruct kt as [|kt'].
    { unfold faces. rewrite At', At. split; [intros u; simpl; tauto | reflexivity]. }
    assert (Hraw : faces r' t = names_of_col (idxk r' kt') (getcol (newpos (S kt') it) (bndk r' (S kt')))).
    { unfold faces. rewrite At'. reflexivity. }
    assert (Hold : faces r t = names_of_col (idxk r kt') (getcol it (bndk r (S kt')))).
    { unfold faces. rewrite At. reflexivity. }
    destruct (Sh (S kt') Hkt) as [_ Hdn]. specialize (Hdn ltac:(lia)). replace (S kt' - 1) with kt' in Hdn by lia.
    rewrite d_idx, (d_bnd (S kt') ltac:(lia) Hkt') in Hraw.
    destruct (S kt' =? k) eqn:E1.
    - (* same order as s: a column to the left or right of the deleted one *)
      apply Nat.eqb_eq in E1. replace (kt' =? k) with false in Hraw by (symmetry; apply Nat.eqb_neq; lia).
      rewrite getcol_del_col in Hraw. unfold newpos in Hraw. rewrite <- E1 in Hraw. rewrite Nat.eqb_refl in Hraw. cbn [andb] in Hraw.
      assert (Hsame : faces r' t = faces r t).
      { rewrite Hraw, Hold. f_equal. f_equal. specialize (Hnei E1).
        destruct (i <? it) eqn:E2.
        - apply Nat.ltb_lt in E2. replace (it - 1 <? i) with false by (symmetry; apply Nat.ltb_ge; lia). lia.
        - apply Nat.ltb_ge in E2. now replace (it <? i) with true by (symmetry; apply Nat.ltb_lt; lia). }
      split; [|intros _; exact Hsame]. intros u. rewrite Hsame. split; [|tauto]. intros Hu. split; [exact Hu|].
      intros ->. destruct (face_order t s (S kt') it At Hu) as (k2 & iu & Ek & Au). rewrite As in Au. injection Au as -> _. lia.
    - destruct (S kt' =? S k) eqn:E2.
      + (* one order above s: row i goes *)
        apply Nat.eqb_eq in E2. injection E2 as ->. rewrite Nat.eqb_refl in Hraw.
        unfold newpos in Hraw. rewrite E1 in Hraw. cbn [andb] in Hraw.
        assert (Hc : it < ncols (bndk r (S k))) by (destruct Hdn as (_ & _ & Hc); lia).
        rewrite (getcol_del_row _ _ _ Hc) in Hraw.
        assert (Hnd : NoDup (idxk r k)) by (apply pinv_nodup_order; auto).
        assert (Hlen : length (getcol it (bndk r (S k))) = length (idxk r k)) by (apply (length_getcol _ _ _ _ Hdn); exact Hitl).
        split.
        * intros u. rewrite Hraw, Hold, (In_noc_remove _ _ _ _ Hnd Hlen). rewrite Hsi. split; intros [H1 H2]; split; auto; congruence.
        * intros Hns. rewrite Hraw, Hold. apply noc_remove_false.
          destruct (nth i (getcol it (bndk r (S k))) false) eqn:En; [|reflexivity]. exfalso. apply Hns.
          rewrite Hold. apply In_names_of_col. exists i. split; [exact Hsi|].
          rewrite (List.nth_error_nth' _ false) by lia. now rewrite En.
      + (* elsewhere: nothing moves *)
        replace (kt' =? k) with false in Hraw by (symmetry; apply Nat.eqb_neq; apply Nat.eqb_neq in E2; lia).
        unfold newpos in Hraw. rewrite E1 in Hraw. cbn [andb] in Hraw.
        assert (Hsame : faces r' t = faces r t) by (rewrite Hraw, Hold; reflexivity).
        split; [|intros _; exact Hsame]. intros u. rewrite Hsame. split; [|tauto]. intros Hu. split; [exact Hu|].
        intros ->. destruct (face_order t s (S kt') it At Hu) as (k2 & iu & Ek & Au). rewrite As in Au. injection Au as -> _.
        injection Ek as ->. apply Nat.eqb_neq in E2. lia.
  Qed.

  (* ... and so do the cofaces *)
  Theorem d_cofaces t : t <> s -> containsSimplex r t = true ->
    forall u, In u (cofaces r' t) <-> In u (cofaces r t) /\ u <> s.
  Proof.
    intros Hne Ht u.
    rewrite <- (cofaces_inverse_of_faces r' d_sinv u t), <- (cofaces_inverse_of_faces r Hinv u t).
    destruct (name_eqb_spec u s) as [->|Hus].
    - split; [|tauto]. intros H. exfalso. pose proof d_gone as Hg. unfold containsSimplex in Hg.
      unfold faces in H. destruct (assoc s (r_simp r')); [discriminate | destruct H].
    - unfold containsSimplex in Ht. destruct (assoc u (r_simp r)) as [[ku iu]|] eqn:Au.
      + destruct (d_faces u ku iu Hus Au) as [Hf _]. rewrite Hf. tauto.
      + (* u is not a simplex of r, hence not of r' *)
        assert (Hn : containsSimplex r' u = false).
        { destruct (containsSimplex r' u) eqn:E; [|reflexivity]. apply d_sub in E. destruct E as [E _].
          unfold containsSimplex in E. rewrite Au in E. discriminate. }
        unfold containsSimplex in Hn. unfold faces. rewrite Au. destruct (assoc u (r_simp r')); [discriminate|]. simpl. tauto.
  Qed.
End Del.
