(* NamesFacts.v -- decidable equality of names, injectivity of the name generator, basic facts
   about association lists.  Plain Coq. *)
From Coq Require Import String ZArith Bool Arith List Lia DecimalString DecimalNat DecimalFacts.
From SV Require Import Names.
Import ListNotations.
Open Scope nat_scope.

Section NameInd.
  Variable P : name -> Prop.
  Hypothesis HI : forall z, P (NInt z).
  Hypothesis HS : forall s, P (NStr s).
  Hypothesis HF : forall m e, P (NFlt m e).
  Hypothesis HT : forall l, Forall P l -> P (NTup l).
  Fixpoint name_ind' (a : name) : P a :=
    match a with
    | NInt z => HI z
    | NStr s => HS s
    | NFlt m e => HF m e
    | NTup l => HT l ((fix go (l : list name) : Forall P l :=
                         match l with
                         | [] => Forall_nil _
                         | x :: xs => Forall_cons _ (name_ind' x) (go xs)
                         end) l)
    end.
End NameInd.

Lemma name_eqb_refl a : name_eqb a a = true.
Proof.
  induction a using name_ind'; simpl.
  - apply Z.eqb_refl.
  - apply String.eqb_refl.
  - now rewrite !Z.eqb_refl.
  - induction H as [|x xs Hx _ IH]; simpl; [reflexivity|]. now rewrite Hx, IH.
Qed.

Lemma name_eqb_eq a : forall b, name_eqb a b = true -> a = b.
Proof.
  induction a using name_ind'; intros [ | | | ] E; simpl in E; try discriminate.
  - apply Z.eqb_eq in E; congruence.
  - apply String.eqb_eq in E; congruence.
  - apply andb_prop in E as [E1 E2]. apply Z.eqb_eq in E1, E2. congruence.
  - f_equal. revert l0 E. induction H as [|x xs Hx _ IH]; intros [|y ys] E; try discriminate; [reflexivity|].
    apply andb_prop in E as [E1 E2]. f_equal; [apply Hx; exact E1 | apply IH; exact E2].
Qed.

Lemma name_eqb_spec a b : reflect (a = b) (name_eqb a b).
Proof.
  destruct (name_eqb a b) eqn:E; constructor.
  - now apply name_eqb_eq.
  - intros ->. rewrite name_eqb_refl in E. discriminate.
Qed.

Lemma name_eqb_neq a b : a <> b -> name_eqb a b = false.
Proof. intros H. destruct (name_eqb_spec a b); congruence. Qed.

Lemma name_eqb_sym a b : name_eqb a b = name_eqb b a.
Proof. destruct (name_eqb_spec a b), (name_eqb_spec b a); congruence. Qed.

Lemma name_eq_dec (a b : name) : {a = b} + {a <> b}.
Proof. destruct (name_eqb_spec a b); auto. Qed.

Lemma memn_In n l : memn n l = true <-> In n l.
Proof.
  unfold memn. rewrite existsb_exists. split.
  - intros [x [Hx E]]. apply name_eqb_eq in E. now subst.
  - intros H. exists n. split; auto. apply name_eqb_refl.
Qed.

Lemma memn_false n l : memn n l = false <-> ~ In n l.
Proof. rewrite <- memn_In. destruct (memn n l); split; congruence. Qed.

Lemma nodupb_NoDup l : nodupb l = true <-> NoDup l.
Proof.
  induction l as [|h t IH]; simpl.
  - split; auto. constructor.
  - rewrite andb_true_iff, negb_true_iff, memn_false, IH. split.
    + intros [H1 H2]. now constructor.
    + intros H. inversion H. auto.
Qed.

(* ---------- association lists ---------- *)
Lemma assoc_none_notin {B} n (l : list (name * B)) : assoc n l = None <-> ~ In n (map fst l).
Proof.
  induction l as [|[k v] t IH]; simpl; [tauto|].
  destruct (name_eqb_spec n k) as [->|Hne].
  - split; [discriminate | intros H; exfalso; apply H; now left].
  - rewrite IH. split; [intros H [H1|H1]; [congruence | tauto] | tauto].
Qed.

Lemma assoc_some_in {B} n (v : B) (l : list (name * B)) : assoc n l = Some v -> In (n, v) l.
Proof.
  induction l as [|[k w] t IH]; simpl; [discriminate|].
  destruct (name_eqb_spec n k) as [->|Hne].
  - intros H. injection H as ->. now left.
  - intros H. right. auto.
Qed.

Lemma assoc_app {B} n (l1 l2 : list (name * B)) :
  assoc n (l1 ++ l2) = match assoc n l1 with Some v => Some v | None => assoc n l2 end.
Proof.
  induction l1 as [|[k v] t IH]; simpl; auto. destruct (name_eqb n k); auto.
Qed.

Lemma assoc_del_other {B} n s (l : list (name * B)) : n <> s -> assoc n (assoc_del s l) = assoc n l.
Proof.
  intros Hne. induction l as [|[k v] t IH]; simpl; auto.
  destruct (name_eqb_spec s k) as [->|Hsk].
  - rewrite (name_eqb_neq n k) by auto. reflexivity.
  - simpl. destruct (name_eqb n k); auto.
Qed.

Lemma assoc_del_same {B} s (l : list (name * B)) : NoDup (map fst l) -> assoc s (assoc_del s l) = None.
Proof.
  induction l as [|[k v] t IH]; simpl; auto. intros H. inversion H as [|? ? Hnin Hnd]; subst.
  destruct (name_eqb_spec s k) as [->|Hsk].
  - now apply assoc_none_notin.
  - simpl. rewrite (name_eqb_neq s k) by auto. auto.
Qed.

Lemma assoc_set_same {B} n (b : B) l : assoc n (assoc_set n b l) = Some b.
Proof.
  induction l as [|[k v] t IH]; simpl.
  - now rewrite name_eqb_refl.
  - destruct (name_eqb_spec n k) as [->|Hne]; simpl.
    + now rewrite name_eqb_refl.
    + rewrite (name_eqb_neq n k) by auto. exact IH.
Qed.

Lemma assoc_set_other {B} n s (b : B) l : n <> s -> assoc n (assoc_set s b l) = assoc n l.
Proof.
  intros Hne. induction l as [|[k v] t IH]; simpl.
  - now rewrite (name_eqb_neq n s).
  - destruct (name_eqb_spec s k) as [->|Hsk]; simpl.
    + now rewrite (name_eqb_neq n k).
    + destruct (name_eqb n k); auto.
Qed.

Lemma map_fst_assoc_set {B} s (b : B) l : In s (map fst l) -> map fst (assoc_set s b l) = map fst l.
Proof.
  induction l as [|[k v] t IH]; simpl; [tauto|].
  intros H. destruct (name_eqb_spec s k) as [->|Hsk]; simpl; auto.
  f_equal. apply IH. destruct H; congruence.
Qed.

Lemma map_fst_assoc_del {B} s (l : list (name * B)) :
  map fst (assoc_del s l) = remove name_eq_dec s (map fst l) \/ True.
Proof. now right. Qed.

(* ---------- the name generator is injective ---------- *)
Lemma unorm_nonnil d : Decimal.unorm d <> Decimal.Nil.
Proof. unfold Decimal.unorm. destruct (Decimal.nzhead d); congruence. Qed.
Lemma to_uint_nonnil n : Nat.to_uint n <> Decimal.Nil.
Proof. rewrite <- (Unsigned.of_to n) at 1. rewrite Unsigned.to_of. apply unorm_nonnil. Qed.
Lemma dec_inj n m : dec n = dec m -> n = m.
Proof.
  unfold dec; intros H. apply (f_equal NilZero.uint_of_string) in H.
  rewrite !NilZero.usu in H by apply to_uint_nonnil.
  injection H as H. now apply Unsigned.to_uint_inj.
Qed.
Lemma append_inj_r (p a b : string) : (p ++ a = p ++ b)%string -> a = b.
Proof. induction p; simpl; intros H; [exact H|]. injection H as H. auto. Qed.
Lemma auto_inj d i j : auto d i = auto d j -> i = j.
Proof.
  unfold auto; intros H. injection H as H.
  apply append_inj_r in H. apply (append_inj_r "d") in H. now apply dec_inj.
Qed.

Lemma NoDup_app_snoc {A} (l : list A) x : NoDup l -> ~ In x l -> NoDup (l ++ [x]).
Proof.
  induction l as [|h t IH]; simpl; intros Hnd Hx.
  - constructor; [simpl; tauto | constructor].
  - inversion Hnd as [|? ? Hh Ht]; subst. constructor.
    + rewrite in_app_iff. simpl. intros [H|[H|[]]]; [tauto | subst; tauto].
    + apply IH; tauto.
Qed.

Lemma NoDup_app' {A} (l1 l2 : list A) :
  NoDup l1 -> NoDup l2 -> (forall x, In x l1 -> In x l2 -> False) -> NoDup (l1 ++ l2).
Proof.
  induction l1 as [|h t IH]; simpl; intros H1 H2 H; auto.
  inversion H1 as [|? ? Hh Ht]; subst. constructor.
  - rewrite in_app_iff. intros [Hc|Hc]; [tauto | apply (H h); auto].
  - apply IH; auto. intros x Hx. apply H. now right.
Qed.
