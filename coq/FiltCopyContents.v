(* FiltCopyContents.v -- C09 / C13: what Filtration.copy() holds when it succeeds: exactly the simplices of the source,
   each with its faces and with the birth index it has in the source.  Plain Coq. *)
From Coq Require Import String ZArith Bool Arith List Lia.
From SV Require Import Names NamesFacts ListFacts Rep RepInv Complex Atomic Homology Shapes AddEffect Filtration FiltProofs
                       FiltClosed FiltBook FiltCopy ComposeProofs StarOrder SortedViews.
Import ListNotations.
Open Scope nat_scope.

Lemma f_add_rep f fs id attr f' n : f_addSimplex f fs id attr = (f', Ok n) ->
  addSimplex (f_rep f) fs id attr = (f_rep f', Ok n) /\ f_index f' = f_index f.
Proof.
  unfold f_addSimplex. destruct (existsb _ fs); [discriminate|].
  destruct (addSimplex (f_rep f) fs id attr) as [r' [m|e]] eqn:E; [|discriminate].
  destruct (zassoc (f_index f) (f_includes f)) as [cur|]; [destruct (zassoc (f_index f) (f_maxOrders f)) as [mo|]|]; try discriminate.
  intros [= <- <-]. auto.
Qed.

Section CopyContents.
  Variables (f : filt) (uid : nat).
  Hypothesis Mf : minv f.
  Hypothesis Bf : binv f.
  Let Pf : pinv (f_rep f) := s_p _ (m_s f Mf).

  (* what holds of the copy after the simplices in D have been copied *)
  Record cc (D : list name) (c : filt) : Prop := {
    cc_both : both c;
    cc_mem : forall s, containsSimplex (f_rep c) s = memn s D;
    cc_same : forall s, In s D -> f_addedAtIndex c s = f_addedAtIndex f s /\
              forall t, In t (faces (f_rep c) s) <-> In t (faces (f_rep f) s) }.

  Lemma cc_rep D c r : same_obs (f_rep c) r -> cc D c -> cc D (with_rep c r).
  Proof.
    intros Hs [[M B] Mem Same]. destruct (same_obs_queries (f_rep c) r Hs) as (_ & _ & Qf & _ & _ & Qc & _).
    constructor.
    - split; [apply minv_same_obs; assumption|now apply binv_rep].
    - intros s. simpl. rewrite Qc. apply Mem.
    - intros s Hs'. destruct (Same s Hs') as [A F]. split.
      + unfold f_addedAtIndex, f_containsSome in *. simpl. rewrite Qc. exact A.
      + intros t. simpl. rewrite Qf. apply F.
  Qed.

  Lemma cc_setIndex D c i : cc D c -> cc D (f_setIndex c i).
  Proof.
    intros [Bc Mem Same]. constructor.
    - now apply both_setIndex.
    - intros s. unfold f_setIndex. destruct (f_isIndex c i); apply Mem.
    - intros s Hs. destruct (Same s Hs) as [A F]. split; [rewrite moving_keeps_births; exact A|].
      unfold f_setIndex. destruct (f_isIndex c i); exact F.
  Qed.

  (* one simplex s of the source, born at the index the copy stands at *)
  Lemma cc_add D c s h' c5 n k : cc D c -> ~ In s D -> containsSimplex (f_rep f) s = true ->
    f_addedAtIndex f s = Ok (f_index c) -> f_orderOf f s = Ok k ->
    f_addSimplex c (if k =? 0 then [] else faces (f_rep f) s) (Some s) (Some h') = (c5, Ok n) ->
    cc (D ++ [s]) c5 /\ f_index c5 = f_index c.
  Proof.
    intros [[M B] Mem Same] Hnew Cs Hb Hk H.
    destruct (f_add_rep _ _ _ _ _ _ H) as [Hr Hi]. pose proof (addSimplex_named _ _ _ _ _ _ Hr) as ->.
    destruct (addSimplex_effect _ _ _ _ _ _ (m_s c M) Hr) as (_ & _ & _ & Hf & Hold & Hall).
    destruct (add_is_born_at_the_current_index c _ (Some s) (Some h') c5 s M B H) as (Hbs & _ & Hbo).
    split; [|exact Hi]. constructor.
    - eapply both_add; [split; eassumption|exact H].
    - intros t. rewrite Hall, Mem. unfold memn. rewrite existsb_app. simpl. now rewrite orb_false_r.
    - intros t Ht. apply in_app_or in Ht. destruct Ht as [Ht|[<-|[]]].
      + assert (Hts : t <> s) by (intros ->; contradiction).
        destruct (Same t Ht) as [A F]. split; [rewrite (Hbo t Hts); exact A|].
        assert (Ct : containsSimplex (f_rep c) t = true) by (rewrite Mem; now apply memn_In).
        destruct (Hold t Ct) as (_ & _ & F2 & _). intros u. rewrite F2. apply F.
      + split; [rewrite Hbs; symmetry; exact Hb|]. intros u. rewrite (Hf u).
        unfold f_orderOf, orderOf in Hk.
        destruct (assoc s (r_simp (f_rep f))) as [[k0 j]|] eqn:As; [|discriminate]. injection Hk as ->.
        destruct k as [|k]; simpl; [|reflexivity]. unfold faces. rewrite As. simpl. tauto.
  Qed.

  Definition inner := fun (acc : heap * filt * res unit) (s : name) =>
                      match acc with
                      | (_, _, Raise _) => acc
                      | (hp2, c3, Ok _) =>
                          let hs := match assoc s (r_attr (f_rep f)) with Some h => h | None => (0, 0) end in
                          let '(r4, h') := alloc (f_rep c3) in
                          let hp3 := heap_set hp2 h' (heap_get hp2 hs) in
                          let c4 := with_rep c3 r4 in
                          match f_orderOf f s with
                          | Raise e => (hp3, c4, Raise e)
                          | Ok k =>
                              match f_addSimplex c4 (if k =? 0 then [] else faces (f_rep f) s) (Some s) (Some h') with
                              | (c5, Raise e) => (hp3, c5, Raise e)
                              | (c5, Ok _) => (hp3, c5, Ok tt)
                              end
                          end
                      end.

  Lemma inner_raise ss : forall hp c e, fold_left inner ss (hp, c, Raise e) = (hp, c, Raise e).
  Proof. induction ss as [|s ss IH]; intros; simpl; auto. Qed.

  Lemma inner_fold : forall ss D hp c hp' c', cc D c -> NoDup (D ++ ss) ->
    (forall s, In s ss -> containsSimplex (f_rep f) s = true /\ f_addedAtIndex f s = Ok (f_index c)) ->
    fold_left inner ss (hp, c, Ok tt) = (hp', c', Ok tt) -> cc (D ++ ss) c' /\ f_index c' = f_index c.
  Proof.
    induction ss as [|s ss IH]; intros D hp c hp' c' Hc Hnd Hs H; cbn [fold_left] in H.
    - injection H as _ <-. rewrite app_nil_r. auto.
    - assert (Hnew : ~ In s D) by (intros Hin; apply NoDup_remove_2 in Hnd; apply Hnd; apply in_or_app; now left).
      destruct (Hs s (or_introl eq_refl)) as [Cs Hb].
      unfold inner at 2 in H. destruct (alloc (f_rep c)) as [r4 h'] eqn:Ea.
      assert (C4 : cc D (with_rep c r4)).
      { apply cc_rep; [|exact Hc]. pose proof (same_obs_alloc (f_rep c)) as X. now rewrite Ea in X. }
      destruct (f_orderOf f s) as [k|e] eqn:Ek; [|rewrite inner_raise in H; discriminate].
      destruct (f_addSimplex (with_rep c r4) (if k =? 0 then [] else faces (f_rep f) s) (Some s) (Some h')) as [c5 [n|e]] eqn:EA;
        [|rewrite inner_raise in H; discriminate].
      destruct (cc_add D (with_rep c r4) s h' c5 n k C4 Hnew Cs Hb Ek EA) as [C5 I5]. simpl in I5.
      replace (D ++ s :: ss) with ((D ++ [s]) ++ ss) in * by (now rewrite <- app_assoc).
      destruct (IH (D ++ [s]) (heap_set hp h' (heap_get hp match assoc s (r_attr (f_rep f)) with Some h => h | None => (0, 0) end)) c5 hp' c' C5 Hnd) as [Cf If]; [|exact H|].
      + intros t Ht. rewrite I5. apply Hs. now right.
      + split; [exact Cf|congruence].
  Qed.

  Lemma NoDup_snd_sort_asc l : NoDup (map snd l) -> NoDup (map snd (sort_asc l)).
  Proof.
    unfold sort_asc. induction l as [|a l IH]; simpl; intros H; [constructor|].
    inversion H as [|x xs Hx Hxs]; subst.
    apply (proj2 (NoDup_snd_insert _ _ _)). simpl. constructor; [|now apply IH].
    intros Hin. apply Hx. apply in_map_iff in Hin. destruct Hin as (q & Eq & Hq).
    change (In q (sort_asc l)) in Hq. apply (proj1 (In_sort_asc l q)) in Hq.
    apply in_map_iff. eauto.
  Qed.

  (* the simplices copied at index ind: those born there, each once *)
  Definition batch (orders : list (idx * list name)) (ind : idx) : list name :=
    let own := match f_simplicesAddedAtIndex f ind false with Ok l => map snd l | Raise _ => [] end in
    match zassoc ind orders with
    | Some l => if seteq l own && nodupb l then l else own
    | None => own
    end.

  Lemma batch_spec orders ind : In ind (f_indices f) ->
    NoDup (batch orders ind) /\ forall s, In s (batch orders ind) <-> f_addedAtIndex f s = Ok ind.
  Proof.
    intros Hind. apply in_indices in Hind.
    destruct (zassoc ind (f_includes f)) as [ss|] eqn:Zi; [|congruence].
    assert (Own : exists l, f_simplicesAddedAtIndex f ind false = Ok l).
    { unfold f_simplicesAddedAtIndex. rewrite Zi. eauto. }
    destruct Own as (l & El).
    pose proof (addedAt_lists_the_births f ind false l Mf Bf El) as Hl.
    assert (Nl : NoDup (map snd l)).
    { unfold f_simplicesAddedAtIndex in El. rewrite Zi in El. injection El as <-.
      apply NoDup_snd_sort_asc. rewrite map_map. simpl. rewrite map_id. exact (b_nd f Bf ind ss Zi). }
    unfold batch. rewrite El. destruct (zassoc ind orders) as [l0|]; [|auto].
    destruct (seteq l0 (map snd l) && nodupb l0) eqn:E; [|auto].
    apply andb_prop in E. destruct E as [E1 E2]. apply AwbSpec.seteq_sameset in E1. apply nodupb_NoDup in E2.
    split; [exact E2|]. intros s. rewrite (E1 s). apply Hl.
  Qed.

  Definition outer (orders : list (idx * list name)) := fun (acc : heap * filt * res unit) (ind : idx) =>
    match acc with
    | (_, _, Raise _) => acc
    | (hp1, c1, Ok _) => fold_left inner (batch orders ind) (hp1, f_setIndex c1 ind, Ok tt)
    end.

  Lemma outer_raise orders L : forall hp c e, fold_left (outer orders) L (hp, c, Raise e) = (hp, c, Raise e).
  Proof. induction L as [|i L IH]; intros; simpl; auto. Qed.

  Lemma born_contains s i : f_addedAtIndex f s = Ok i -> containsSimplex (f_rep f) s = true.
  Proof. unfold f_addedAtIndex, f_containsSome. destruct (containsSimplex (f_rep f) s); [reflexivity|discriminate]. Qed.

  Lemma outer_fold orders : forall L done D hp c hp' c', (forall i, In i L -> In i (f_indices f)) -> NoDup (done ++ L) ->
    cc D c -> NoDup D -> (forall s, In s D <-> exists j, In j done /\ f_addedAtIndex f s = Ok j) ->
    fold_left (outer orders) L (hp, c, Ok tt) = (hp', c', Ok tt) ->
    exists D', cc D' c' /\ forall s, In s D' <-> exists j, In j (done ++ L) /\ f_addedAtIndex f s = Ok j.
  Proof.
    induction L as [|ind L IH]; intros done D hp c hp' c' HL Hnd Hc ND HD H; cbn [fold_left] in H.
    - injection H as _ <-. exists D. rewrite app_nil_r. auto.
    - unfold outer at 2 in H.
      destruct (batch_spec orders ind (HL ind (or_introl eq_refl))) as [NB SB].
      destruct (fold_left inner (batch orders ind) (hp, f_setIndex c ind, Ok tt)) as [[hp1 c1] [u|e]] eqn:EI;
        [|rewrite outer_raise in H; discriminate].
      destruct u.
      assert (Ii : f_index (f_setIndex c ind) = ind) by (unfold f_setIndex; destruct (f_isIndex c ind); reflexivity).
      assert (Hnew : ~ In ind done) by (intros Hin; apply NoDup_remove_2 in Hnd; apply Hnd; apply in_or_app; now left).
      destruct (inner_fold (batch orders ind) D hp (f_setIndex c ind) hp1 c1 (cc_setIndex D c ind Hc)) as [C1 _]; [| |exact EI|].
      + apply NoDup_app'; [exact ND|exact NB|]. intros s Hs1 Hs2. apply HD in Hs1. destruct Hs1 as (j & Hj & Bj).
        apply SB in Hs2. assert (j = ind) by congruence. subst j. contradiction.
      + intros s Hs. apply SB in Hs. split; [eapply born_contains; eauto|]. now rewrite Ii.
      + replace (done ++ ind :: L) with ((done ++ [ind]) ++ L) in * by (now rewrite <- app_assoc).
        apply (IH (done ++ [ind]) (D ++ batch orders ind) hp1 c1 hp' c'); auto.
        * intros i Hi. apply HL. now right.
        * apply NoDup_app'; [exact ND|exact NB|]. intros s Hs1 Hs2. apply HD in Hs1. destruct Hs1 as (j & Hj & Bj).
          apply SB in Hs2. assert (j = ind) by congruence. subst j. contradiction.
        * intros s. rewrite in_app_iff, (HD s), (SB s). split.
          -- intros [(j & Hj & Bj)|Bi]; [exists j; split; [apply in_or_app; now left|exact Bj]|exists ind; split; [apply in_or_app; right; now left|exact Bi]].
          -- intros (j & Hj & Bj). apply in_app_or in Hj. destruct Hj as [Hj|[<-|[]]]; [left; eauto|right; exact Bj].
  Qed.

  Theorem f_copy_contents hp orders hp' c : f_copy hp f uid orders = (hp', c, Ok tt) ->
    (forall s, containsSimplex (f_rep c) s = containsSimplex (f_rep f) s) /\
    (forall s, containsSimplex (f_rep f) s = true ->
       f_addedAtIndex c s = f_addedAtIndex f s /\ forall t, In t (faces (f_rep c) s) <-> In t (faces (f_rep f) s)).
  Proof.
    unfold f_copy. destruct (f_indices f) as [|i0 inds] eqn:Ei; [discriminate|].
    fold inner. change (fun (acc : heap * filt * res unit) (ind : idx) => _) with (outer orders).
    destruct (fold_left (outer orders) (i0 :: inds) (hp, new_filt uid i0, Ok tt)) as [[hp1 c1] x1] eqn:EF.
    intros H. injection H as <- <- Hx.
    assert (C0 : cc [] (new_filt uid i0)).
    { constructor; [apply both_new|intros s; reflexivity|intros s []]. }
    assert (Nd : NoDup ([] ++ i0 :: inds)).
    { simpl. rewrite <- Ei. pose proof (indices_strictly_ascending f Bf) as S.
      clear -S. induction S as [|a l Hs IH Ha]; constructor; auto. intros Hin. rewrite Forall_forall in Ha. specialize (Ha a Hin). lia. }
    assert (HL : forall i, In i (i0 :: inds) -> In i (f_indices f)) by (intros i Hi; now rewrite Ei).
    assert (HD0 : forall s, In s (@nil name) <-> exists j, In j (@nil idx) /\ f_addedAtIndex f s = Ok j).
    { intros s. split; [intros []|intros (j & [] & _)]. }
    destruct x1 as [[]|e]; [|discriminate].
    destruct (outer_fold orders (i0 :: inds) [] [] hp (new_filt uid i0) hp1 c1 HL Nd C0 (NoDup_nil _) HD0 EF) as (D & CD & HD).
    { apply (cc_setIndex D c1 i0) in CD. destruct CD as [_ Mem Same]. simpl in HD.
      assert (Cov : forall s, memn s D = containsSimplex (f_rep f) s).
      { intros s. apply bool_eq_iff. rewrite memn_In, (HD s). split.
        - intros (j & _ & Bj). eapply born_contains; eauto.
        - intros Cs. unfold f_addedAtIndex, f_containsSome. rewrite Cs.
          destruct (assoc s (f_appears f)) as [i|] eqn:A.
          + exists i. split; [|reflexivity]. change (In i (i0 :: inds)). rewrite <- Ei. apply (every_birth_is_an_index f s i Bf).
            unfold f_addedAtIndex, f_containsSome. now rewrite Cs, A.
          + apply (m_dom f Mf) in A. congruence. }
      split; [intros s; rewrite Mem; apply Cov|].
      intros s Cs. apply Same. apply memn_In. now rewrite Cov. }
  Qed.
End CopyContents.
