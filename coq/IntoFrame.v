(* IntoFrame.v -- constructors that fill a caller-supplied target (copy(c), snap into c, compose with
   a target): the target remains the owner of all its dictionaries and no dictionary of any other
   owner -- in particular none of the source or of the operands -- is written. *)
From Coq Require Import String ZArith Bool Arith List Lia.
From SV Require Import Names NamesFacts ListFacts Rep Fresh Complex Atomic RepInv Reach Homology Filtration Gen World WorldProofs ComposeFresh.
Import ListNotations.
Open Scope nat_scope.

Theorem copy_into_owned hp src t hp' r' x : owned t -> copy_into hp src t = (hp', r', x) ->
  owned r' /\ r_uid r' = r_uid t /\ forall h, fst h <> r_uid t -> heap_get hp' h = heap_get hp h.
Proof.
  intros Ot. unfold copy_into.
  destruct (negb (length (intern (map fst src) (simplices t false)) =? 0)); [intros [= <- <- _]; auto|].
  destruct (addSimplicesFrom hp t src RNone) as [[[hp1 r1] st] x1] eqn:E.
  intros H. injection H as <- <- _. unfold addSimplicesFrom in E.
  now apply addFrom_loop_owned in E.
Qed.

Theorem copy_into_exec_frame w v x w' o t :
  (exec w (CCopyInto v x) = (w', o) \/ exec w (CSnapInto v x) = (w', o)) ->
  vget (w_vars w) x = Some (OCx t) -> owned t ->
  forall h, fst h <> r_uid t -> heap_get (w_heap w') h = heap_get (w_heap w) h.
Proof.
  intros H Hx Ot h Hne.
  assert (H' : exec w (CCopyInto v x) = (w', o)) by (destruct H as [H|H]; exact H). clear H.
  cbn [exec] in H'. rewrite Hx in H'.
  destruct (vget (w_vars w) v) as [ob|]; [|injection H' as <- _; reflexivity].
  destruct ob as [r|f|e]; try (injection H' as <- _; reflexivity).
  - destruct (copy_into (w_heap w) (view_obj (OCx r)) t) as [[hp t'] res] eqn:E. injection H' as <- _. cbn.
    destruct (copy_into_owned _ _ _ _ _ _ Ot E) as (_ & _ & F). now apply F.
  - destruct (copy_into (w_heap w) (view_obj (OFilt f)) t) as [[hp t'] res] eqn:E. injection H' as <- _. cbn.
    destruct (copy_into_owned _ _ _ _ _ _ Ot E) as (_ & _ & F). now apply F.
Qed.

Theorem compose_into_exec_frame w a b d w' o t :
  exec w (CComposeInto a b d) = (w', o) -> vget (w_vars w) d = Some (OCx t) -> owned t ->
  forall h, fst h <> r_uid t -> heap_get (w_heap w') h = heap_get (w_heap w) h.
Proof.
  intros H Hd Ot h Hne. cbn [exec] in H. rewrite Hd in H.
  destruct (vget (w_vars w) a) as [[ra|?|?]|]; try (injection H as <- _; reflexivity).
  destruct (vget (w_vars w) b) as [[rb|?|?]|]; try (injection H as <- _; reflexivity).
  destruct (compose (w_heap w) ra rb (Some t) 0) as [[hp d'] res] eqn:E. injection H as <- _. cbn.
  destruct (compose_into_fresh _ _ _ _ _ _ _ _ Ot E) as (_ & _ & F). now apply F.
Qed.
