(* Fresh.v -- newSimplex: the `while True` search never runs out of its fuel |simplices| + 1 and
   returns a name that is not in the complex, whatever names the user chose (pigeonhole over the
   injective generator).  Plain Coq. *)
From Coq Require Import String ZArith Bool Arith List Lia FinFun.
From SV Require Import Names NamesFacts Rep.
Import ListNotations.
Open Scope nat_scope.

Lemma find_fresh_none fuel d simp : forall i,
  find_fresh fuel i d simp = None -> forall j, i <= j < i + fuel -> In (auto d j) (map fst simp).
Proof.
  induction fuel as [|f IH]; intros i H j Hj; [lia|]. simpl in H.
  destruct (assoc (auto d i) simp) eqn:E; [|discriminate].
  destruct (Nat.eq_dec j i) as [->|Hne].
  - destruct (in_dec name_eq_dec (auto d i) (map fst simp)) as [Hin|Hnin]; [exact Hin|].
    apply assoc_none_notin in Hnin. congruence.
  - apply (IH (S i)); [exact H | lia].
Qed.

Lemma find_fresh_some fuel d simp : forall s i id,
  find_fresh fuel s d simp = Some (i, id) -> id = auto d i /\ s <= i /\ ~ In id (map fst simp).
Proof.
  induction fuel as [|f IH]; intros s i id E; simpl in E; [discriminate|].
  destruct (assoc (auto d s) simp) eqn:A.
  - apply IH in E. destruct E as (E1 & E2 & E3). repeat split; auto. lia.
  - injection E as <- <-. repeat split; auto. now apply assoc_none_notin.
Qed.

Theorem newSimplex_fresh r d :
  exists i id, newSimplex r d = (set_seq r (S i), Ok id) /\ id = auto d i /\ r_seq r <= i /\
               containsSimplex r id = false.
Proof.
  unfold newSimplex. destruct (find_fresh _ _ _ _) as [[i id]|] eqn:E.
  - exists i, id. split; [reflexivity|].
    apply find_fresh_some in E. destruct E as (E1 & E2 & E3). repeat split; auto.
    unfold containsSimplex. apply assoc_none_notin in E3. now rewrite E3.
  - exfalso. pose proof (find_fresh_none _ _ _ _ E) as H.
    set (n := length (r_simp r)) in *.
    set (cands := map (fun j => auto d j) (seq (r_seq r) (S n))).
    assert (ND : NoDup cands).
    { unfold cands. apply Injective_map_NoDup; [intros a b Hab; eapply auto_inj; exact Hab | apply seq_NoDup]. }
    assert (INC : incl cands (map fst (r_simp r))).
    { intros x Hx. unfold cands in Hx. apply in_map_iff in Hx as [j [<- Hj]]. apply in_seq in Hj. apply H. lia. }
    pose proof (NoDup_incl_length ND INC) as L. unfold cands in L.
    rewrite map_length, seq_length, map_length in L. unfold n in L. lia.
Qed.

Corollary newSimplex_never_out_of_fuel r d : snd (newSimplex r d) <> Raise OutOfFuel.
Proof. destruct (newSimplex_fresh r d) as (i & id & -> & _). simpl. discriminate. Qed.
