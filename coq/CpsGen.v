(* CpsGen.v -- whatever is kept by addSimplex(faces) with no name and no attributes given (and does not look at
   the allocation counters) is kept by _completePotentialSimplices, hence by growFlagComplex; instance: the
   complex stays the owner of all its attribute dictionaries, so flagComplex() -- a copy, then the sweep -- and
   with it vietorisRipsComplex() return a complex that shares no dictionary with anything (C09).  Plain Coq. *)
From Coq Require Import String ZArith Bool Arith List Lia.
From SV Require Import Names NamesFacts ListFacts Rep Fresh Complex Atomic RepInv Homology World WorldProofs.
Import ListNotations.
Open Scope nat_scope.

Section AnyInvariantCps.
Variable I : rep -> Prop.
Hypothesis I_add : forall r fs r' x, I r -> addSimplex r fs None None = (r', x) -> I r'.

Lemma cps_order_I r k newk1 nss maxk r' nss' maxk' x : I r ->
  cps_order r k newk1 nss maxk = (r', nss', maxk', x) -> I r'.
Proof.
  intros HI. unfold cps_order.
  generalize (combs (S k) (seq 0 (length (simplicesOfOrder r (k - 1))))). intros L.
  generalize (boundaryOperator r (k - 1)). intros bnd.
  assert (G : forall ra nsa ma xa, I ra ->
            forall r1 n1 m1 x1, fold_left
              (fun (acc : rep * nssT * nat * res unit) (fs : list nat) =>
                 match acc with
                 | (r', nss', maxk', Raise e) => acc
                 | (r', nss', maxk', Ok _) =>
                     if existsb (fun i => existsb (Nat.eqb i) newk1) fs && isClosed bnd fs then
                       let cfs := map (fun i => nth i (simplicesOfOrder r' (k - 1)) (NInt 0)) fs in
                       match c_simplexWithFaces r' cfs with
                       | Raise e => (r', nss', maxk', Raise e)
                       | Ok (Some _) => acc
                       | Ok None =>
                           match addSimplex r' cfs None None with
                           | (r'', Raise e) => (r'', nss', maxk', Raise e)
                           | (r'', Ok s) =>
                               match indexOf r'' s with
                               | Raise e => (r'', nss', maxk', Raise e)
                               | Ok i => (r'', nss_add k i nss', Nat.max maxk' k, Ok tt)
                               end
                           end
                       end
                     else acc
                 end) L (ra, nsa, ma, xa) = (r1, n1, m1, x1) -> I r1).
  { induction L as [|fs L IH]; intros ra nsa ma xa He r1 n1 m1 x1 H; simpl in H.
    - injection H as <- _ _ _. exact He.
    - destruct xa as [u|e].
      2: { eapply IH; [exact He | exact H]. }
      destruct (existsb (fun i => existsb (Nat.eqb i) newk1) fs && isClosed bnd fs).
      2: { eapply IH; [exact He | exact H]. }
      cbv zeta in H.
      destruct (c_simplexWithFaces ra (map (fun i => nth i (simplicesOfOrder ra (k - 1)) (NInt 0)) fs)) as [[q|]|e].
      + eapply IH; [exact He | exact H].
      + destruct (addSimplex ra (map (fun i => nth i (simplicesOfOrder ra (k - 1)) (NInt 0)) fs) None None) as [rb [s|e]] eqn:EA.
        * assert (Hb : I rb) by (eapply I_add; eauto).
          destruct (indexOf rb s); eapply IH; try exact H; exact Hb.
        * assert (Hb : I rb) by (eapply I_add; eauto).
          eapply IH; [exact Hb | exact H].
      + eapply IH; [exact He | exact H]. }
  intros H. eapply (G r nss maxk (Ok tt) HI). exact H.
Qed.

Lemma cps_loop_I fuel : forall k maxk r nss r' x, I r -> cps_loop fuel k maxk r nss = (r', x) -> I r'.
Proof.
  induction fuel as [|f IH]; intros k maxk r nss r' x HS H; simpl in H.
  - now injection H as <- _.
  - destruct (maxk + 1 <? k); [now injection H as <- _|].
    destruct (nss_get (k - 0) nss) as [[|i newk1]|].
    + eapply (IH (S k)); eauto.
    + set (nss1 := match nss_get (S k) nss with Some _ => nss | None => nss ++ [(S k, [])] end) in H.
      destruct (cps_order r (S k) (i :: newk1) nss1 maxk) as [[[r1 nss'] maxk'] [u|e]] eqn:E.
      * eapply (IH (S k)); [|exact H]. eapply cps_order_I; eauto.
      * injection H as <- _. eapply cps_order_I; eauto.
    + eapply (IH (S k)); eauto.
Qed.

Theorem completePotentialSimplices_I r nss r' x : I r -> completePotentialSimplices r nss = (r', x) -> I r'.
Proof.
  intros HS H. unfold completePotentialSimplices in H. destruct nss as [|p t]; [now injection H as <- _|].
  eapply cps_loop_I; eauto.
Qed.

Theorem growFlagComplex_I r news r' x : I r -> growFlagComplex r news = (r', x) -> I r'.
Proof.
  intros HS H. unfold growFlagComplex in H.
  match type of H with match ?X with _ => _ end = _ => destruct X as [nss|e] end.
  - eapply completePotentialSimplices_I; eauto.
  - now injection H as <- _.
Qed.
End AnyInvariantCps.

(* ---------- instance: ownership of the attribute dictionaries ---------- *)
Definition owned_by (uid : nat) (r : rep) : Prop := owned r /\ r_uid r = uid.

Lemma add_none_owned_by uid r fs r' x : owned_by uid r -> addSimplex r fs None None = (r', x) -> owned_by uid r'.
Proof.
  intros [O U] H. split.
  - eapply addSimplex_owned; [exact O| |exact H]. intros h Hh. discriminate.
  - rewrite (addSimplex_uid _ _ _ _ _ _ H). exact U.
Qed.

Theorem growFlagComplex_owned r news r' x : owned r -> growFlagComplex r news = (r', x) -> owned r' /\ r_uid r' = r_uid r.
Proof. intros O H. exact (growFlagComplex_I (owned_by (r_uid r)) (add_none_owned_by (r_uid r)) r news r' x (conj O eq_refl) H). Qed.

(* flagComplex(): a new complex that owns every one of its dictionaries; no dictionary of anybody else is written *)
Theorem flagComplex_fresh hp src uid hp' r' x : flagComplex hp src uid = (hp', r', x) ->
  owned r' /\ r_uid r' = uid /\ forall h, fst h <> uid -> heap_get hp' h = heap_get hp h.
Proof.
  intros H. unfold flagComplex in H.
  destruct (copy_new hp (view_of src) uid) as [[hp1 c] y] eqn:E0.
  destruct (copy_new_fresh hp (view_of src) uid hp1 c y E0) as (O & U & Hh).
  destruct y as [[]|e].
  - destruct (completePotentialSimplices c (flag_seed c)) as [c' x'] eqn:E1. injection H as <- <- _.
    destruct (completePotentialSimplices_I (owned_by uid) (add_none_owned_by uid) c (flag_seed c) c' x' (conj O U) E1) as [O' U'].
    auto.
  - injection H as <- <- _. auto.
Qed.
