(* RelabelPhi.v -- C15: a completed relabel() renames by THE USER'S renaming and reports it: the
   function phi along which every listing is renamed is "the name the renaming gave this simplex (as
   remembered from its one call), itself otherwise", for a dict renaming `m.get(s, s)`; the returned
   mapping lists, in listing order, exactly the simplices whose name changed.  Plain Coq. *)
From Coq Require Import String ZArith Bool Arith List Lia.
From SV Require Import Names NamesFacts ListFacts Rep Fresh Complex Atomic RepInv Reach RelabelProofs Homology RelabelAll AddEffect CopyFaithful.
Import ListNotations.
Open Scope nat_scope.

Definition memo_of (st : rl) (x : name) : name := match assoc x (rl_memo st) with Some t => t | None => x end.
Definition psi (st : rl) (done : list name) (x : name) : name := if memn x done then memo_of st x else x.
Definition changed (st : rl) (ss : list name) : list (name * name) :=
  map (fun s => (s, memo_of st s)) (filter (fun s => negb (name_eqb s (memo_of st s))) ss).

Lemma rl_apply_hit rn st s t : rn <> RNone -> assoc s (rl_memo st) = Some t -> rl_apply rn st s = (st, t).
Proof. intros Hn A. destruct rn as [|m|f]; [congruence| |]; simpl; now rewrite A. Qed.

Lemma rl_apply_memo rn st s st1 t : rn <> RNone -> rl_apply rn st s = (st1, t) ->
  assoc s (rl_memo st1) = Some t /\ forall x v, assoc x (rl_memo st) = Some v -> assoc x (rl_memo st1) = Some v.
Proof.
  intros Hn H. destruct rn as [|m|f]; [congruence| |]; simpl in H;
    destruct (assoc s (rl_memo st)) as [t0|] eqn:A; injection H as <- <-; simpl;
    try (split; [exact A | auto]); (split; [now apply assoc_new | intros x v Hx; now apply assoc_old]).
Qed.

Lemma check_memo rn : rn <> RNone -> forall ss st names st' x, relabel_check rn st ss names = (st', x) ->
  (x = Ok tt -> forall s, In s ss -> exists t, assoc s (rl_memo st') = Some t) /\
  (forall y v, assoc y (rl_memo st) = Some v -> assoc y (rl_memo st') = Some v).
Proof.
  intros Hn. induction ss as [|s t IH]; intros st names st' x H; simpl in H.
  - injection H as <- <-. split; [intros _ s []|auto].
  - destruct (rl_apply rn st s) as [st1 s'] eqn:E. destruct (rl_apply_memo rn st s st1 s' Hn E) as [A1 M1].
    destruct (name_eqb s s').
    + destruct (IH st1 names st' x H) as [I1 I2]. split; [|auto].
      intros Hx u [<-|Hu]; [exists s'; now apply I2 | now apply I1].
    + destruct (memn s' names).
      * injection H as <- <-. split; [discriminate | exact M1].
      * destruct (IH st1 _ st' x H) as [I1 I2]. split; [|auto].
        intros Hx u [<-|Hu]; [exists s'; now apply I2 | now apply I1].
Qed.

(* for a dict renaming the remembered name is m.get(s, s) *)
Definition um (m : list (name * name)) (s : name) : name := match assoc s m with Some t => t | None => s end.
Definition memo_um (m : list (name * name)) (st : rl) : Prop := forall x v, assoc x (rl_memo st) = Some v -> v = um m x.
Lemma rl_apply_um m st s st1 t : memo_um m st -> rl_apply (RMap m) st s = (st1, t) -> t = um m s /\ memo_um m st1.
Proof.
  intros Hm H. cbn [rl_apply] in H. destruct (assoc s (rl_memo st)) as [t0|] eqn:A; cbv zeta in H; injection H as <- <-.
  - split; [now apply Hm | exact Hm].
  - split; [reflexivity|]. intros x v Hx. simpl in Hx. rewrite assoc_app in Hx.
    destruct (assoc x (rl_memo st)) as [v0|] eqn:Ax; [injection Hx as <-; now apply Hm|].
    simpl in Hx. destruct (name_eqb x s) eqn:Ex; [|discriminate]. apply name_eqb_eq in Ex. subst x. now injection Hx as <-.
Qed.
Lemma check_um m : forall ss st names st' x, memo_um m st -> relabel_check (RMap m) st ss names = (st', x) -> memo_um m st'.
Proof.
  induction ss as [|s t IH]; intros st names st' x Hm H; cbn [relabel_check] in H; [injection H as <- _; exact Hm|].
  destruct (rl_apply (RMap m) st s) as [st1 s'] eqn:E. destruct (rl_apply_um m st s st1 s' Hm E) as [_ Hm1].
  destruct (name_eqb s s'); [eapply IH; eauto|]. destruct (memn s' names); [injection H as <- _; exact Hm1 | eapply IH; eauto].
Qed.

Section Do.
  Variable rn : ren.
  Hypothesis Hrn : rn <> RNone.
  Variable r0 : rep.
  Hypothesis P0 : pinv r0.

  Lemma do_phi : forall rest done r st mapping r' st' mapping',
    NoDup (done ++ rest) -> (forall s, In s rest -> exists t, assoc s (rl_memo st) = Some t) ->
    (forall s, In s (done ++ rest) -> containsSimplex r0 s = true) ->
    pinv r -> r_bnd r = r_bnd r0 -> r_bas r = r_bas r0 -> r_nord r = r_nord r0 ->
    (forall k, idxk r k = map (psi st done) (idxk r0 k)) ->
    relabel_do r rn st rest mapping = (r', st', Ok mapping') ->
    st' = st /\ pinv r' /\ r_bnd r' = r_bnd r0 /\ r_bas r' = r_bas r0 /\ r_nord r' = r_nord r0 /\
    (forall k, idxk r' k = map (psi st (done ++ rest)) (idxk r0 k)) /\ mapping' = mapping ++ changed st rest.
  Proof.
    induction rest as [|s rest IH]; intros done r st mapping r' st' mapping' Hnd Hmemo Hin P Eb Es En Hidx H.
    - simpl in H. injection H as <- <- <-. rewrite app_nil_r. unfold changed. simpl. rewrite app_nil_r.
      split; [reflexivity|]. split; [exact P|]. split; [exact Eb|]. split; [exact Es|]. split; [exact En|]. split; [exact Hidx | reflexivity].
    - cbn [relabel_do] in H. destruct (Hmemo s (or_introl eq_refl)) as (t & At).
      rewrite (rl_apply_hit rn st s t Hrn At) in H.
      assert (Hm : memo_of st s = t) by (unfold memo_of; now rewrite At).
      assert (Hnd' : NoDup ((done ++ [s]) ++ rest)) by now rewrite <- app_assoc.
      assert (Hs_nd : ~ In s done).
      { intros Hd. apply NoDup_remove_2 in Hnd. apply Hnd. apply in_or_app. now left. }
      assert (Hpsi_ext : forall x, x <> s -> psi st (done ++ [s]) x = psi st done x).
      { intros x Nx. unfold psi. replace (memn x (done ++ [s])) with (memn x done); [reflexivity|].
        destruct (memn x done) eqn:E1, (memn x (done ++ [s])) eqn:E2; auto.
        - apply memn_In in E1. assert (memn x (done ++ [s]) = true) by (apply memn_In; apply in_or_app; now left). congruence.
        - apply memn_In in E2. apply in_app_or in E2. destruct E2 as [E2|[E2|[]]]; [apply memn_In in E2; congruence | congruence]. }
      destruct (name_eqb s t) eqn:Est.
      + (* the name stays *)
        apply name_eqb_eq in Est. subst t.
        destruct (IH (done ++ [s]) r st mapping r' st' mapping' Hnd') as (E1 & P' & B' & S' & N' & I' & M'); auto.
        * intros u Hu. apply Hmemo. now right.
        * intros u Hu. apply Hin. now rewrite <- app_assoc in Hu.
        * intros k. rewrite Hidx. apply map_ext. intros x. destruct (name_eq_dec x s) as [->|Nx]; [|symmetry; now apply Hpsi_ext].
          unfold psi. replace (memn s done) with false by (symmetry; destruct (memn s done) eqn:E; auto; apply memn_In in E; contradiction).
          replace (memn s (done ++ [s])) with true by (symmetry; apply memn_In; apply in_or_app; right; now left). now rewrite Hm.
        * rewrite <- app_assoc in I'. split; [exact E1|]. split; [exact P'|]. split; [exact B'|]. split; [exact S'|]. split; [exact N'|]. split; [exact I'|]. rewrite M'. unfold changed. simpl. rewrite Hm, name_eqb_refl. reflexivity.
      + destruct (relabelSimplex r s t) as [r1 [[]|e]] eqn:E; [|discriminate].
        assert (P1 : pinv r1) by (eapply relabelSimplex_pinv; eauto).
        destruct (relabelSimplex_carries r s t r1 P E) as (Eb1 & Es1 & En1 & Ei1 & _).
        destruct (IH (done ++ [s]) r1 st (mapping ++ [(s, t)]) r' st' mapping' Hnd') as (E1 & P' & B' & S' & N' & I' & M'); auto; try congruence.
        * intros u Hu. apply Hmemo. now right.
        * intros u Hu. apply Hin. now rewrite <- app_assoc in Hu.
        * (* the listing after this rename *)
          intros k. rewrite Ei1, Hidx, map_map. apply map_ext_in. intros x Hx.
          destruct (name_eq_dec x s) as [->|Nx].
          -- unfold psi at 1. replace (memn s done) with false by (symmetry; destruct (memn s done) eqn:E0; auto; apply memn_In in E0; contradiction).
             unfold ren1. rewrite name_eqb_refl. unfold psi.
             replace (memn s (done ++ [s])) with true by (symmetry; apply memn_In; apply in_or_app; right; now left). now rewrite Hm.
          -- rewrite (Hpsi_ext x Nx). unfold ren1. destruct (name_eqb (psi st done x) s) eqn:Ey; [|reflexivity]. exfalso.
             apply name_eqb_eq in Ey.
             (* x at (k, i) and s at (ks, is) in r0 are both named s in r: the same place, so x = s *)
             apply In_nth_error in Hx. destruct Hx as (i & Hi).
             assert (Cs : containsSimplex r0 s = true) by (apply Hin; apply in_or_app; right; now left).
             unfold containsSimplex in Cs. destruct (assoc s (r_simp r0)) as [[ks is]|] eqn:As0; [|discriminate].
             pose proof P0 as [K0 Pm0 St0 L0]. pose proof P as [K Pm St L].
             destruct (proj1 (Pm0 s ks is) As0) as [Hks His].
             assert (H1 : nth_error (idxk r k) i = Some s) by (rewrite Hidx; rewrite (map_nth_error _ _ _ Hi); now rewrite Ey).
             assert (H2 : nth_error (idxk r ks) is = Some s).
             { rewrite Hidx. rewrite (map_nth_error _ _ _ His). unfold psi.
               replace (memn s done) with false by (symmetry; destruct (memn s done) eqn:E0; auto; apply memn_In in E0; contradiction). reflexivity. }
             assert (Hk : k < r_nord r).
             { destruct (Nat.lt_ge_cases k (r_nord r)) as [Hl|Hl]; [exact Hl|]. rewrite (St k Hl) in H1. destruct i; discriminate. }
             assert (A1 : assoc s (r_simp r) = Some (k, i)) by (apply Pm; split; assumption).
             assert (A2 : assoc s (r_simp r) = Some (ks, is)) by (apply Pm; split; [congruence | exact H2]).
             rewrite A1 in A2. injection A2 as -> ->. rewrite His in Hi. injection Hi as ->. congruence.
        * rewrite <- app_assoc in I'. split; [exact E1|]. split; [exact P'|]. split; [exact B'|]. split; [exact S'|]. split; [exact N'|]. split; [exact I'|]. rewrite M', <- app_assoc. f_equal. unfold changed. simpl. rewrite Hm, Est. simpl. rewrite Hm. reflexivity.
  Qed.
End Do.

(* C15: a completed relabel renames every listing by phi = "the name the renaming gave, itself otherwise",
   leaves matrices and number of orders alone, and returns exactly the changed names in listing order *)
Theorem relabel_phi r rn r' st mapping : pinv r -> rn <> RNone -> relabel r rn = (r', st, Ok mapping) ->
  renamed_by (memo_of st) r r' /\
  mapping = changed st (simplices r false) /\
  (forall s, In s (simplices r false) -> exists t, assoc s (rl_memo st) = Some t).
Proof.
  intros P Hrn H. unfold relabel in H.
  destruct (relabel_check rn rl0 (simplices r false) (simplices r false)) as [st0 [[]|e]] eqn:Ec; [|discriminate].
  destruct (check_memo rn Hrn _ _ _ _ _ Ec) as [Hall _]. specialize (Hall eq_refl).
  destruct (do_phi rn Hrn r P (simplices r false) [] r st0 [] r' st mapping) as (E1 & P' & B' & S' & N' & I' & M'); auto.
  - simpl. now apply simplices_nodup.
  - simpl. intros s Hs. now apply (In_simplices_iff r s P).
  - intros k. unfold psi. simpl. now rewrite map_id.
  - subst st. split; [|split; [exact M' | exact Hall]].
    repeat split; auto. intros k. rewrite (I' k). cbn [app]. apply map_ext_in. intros x Hx. unfold psi.
    assert (Hm : memn x (simplices r false) = true); [|now rewrite Hm]. apply memn_In.
    destruct (Nat.lt_ge_cases k (r_nord r)) as [Hl|Hl].
    + unfold simplices. apply in_concat. exists (idxk r k). split; [|exact Hx]. unfold idxk. apply nth_In. destruct P as [K Pm St L]. lia.
    + destruct P as [K Pm St L]. rewrite (St k Hl) in Hx. destruct Hx.
Qed.

(* for a dict renaming: phi is m.get(s, s) on every simplex *)
Theorem relabel_phi_dict r m r' st mapping : pinv r -> relabel r (RMap m) = (r', st, Ok mapping) ->
  forall s, In s (simplices r false) -> memo_of st s = um m s.
Proof.
  intros P H s Hs. destruct (relabel_phi r (RMap m) r' st mapping P ltac:(discriminate) H) as (_ & _ & Hall).
  destruct (Hall s Hs) as (t & At). unfold memo_of. rewrite At.
  unfold relabel in H. destruct (relabel_check (RMap m) rl0 (simplices r false) (simplices r false)) as [st0 [[]|e]] eqn:Ec; [|discriminate].
  assert (Hm0 : memo_um m st0) by (eapply check_um; [|exact Ec]; intros x v Hx; discriminate).
  destruct (do_phi (RMap m) ltac:(discriminate) r P (simplices r false) [] r st0 [] r' st mapping) as (E1 & _); auto.
  - simpl. now apply simplices_nodup.
  - destruct (check_memo (RMap m) ltac:(discriminate) _ _ _ _ _ Ec) as [Hall0 _]. exact (Hall0 eq_refl).
  - simpl. intros u Hu. now apply (In_simplices_iff r u P).
  - intros k. unfold psi. simpl. now rewrite map_id.
  - subst st. now apply Hm0.
Qed.
