(* CtorHeapFrame.v -- at the level of exec: every derived-complex constructor (copy of a complex or a
   filtration, deepcopy, compose, flagComplex, JSON decoding, snap, vietorisRipsComplex, one step of
   complexes()) leaves every attribute dictionary that existed before the call as it was: owners are
   handed out from the world's counter, so "existed before" is "owner below the counter". *)
From Coq Require Import String ZArith Bool Arith List Lia.
From SV Require Import Names NamesFacts ListFacts Rep Fresh Complex Atomic RepInv Reach Homology Filtration Gen World WorldProofs CtorFrame CopyAttrs DeepcopyFrame CpsGen ComposeFresh FiltCopyFrame.
Import ListNotations.
Open Scope nat_scope.

Ltac frame_by h :=
  match goal with
  | E : copy_new _ _ _ = _ |- _ => destruct (copy_new_fresh _ _ _ _ _ _ E) as (_ & _ & F); apply F; cbn; lia
  | E : f_copy _ _ _ _ = _ |- _ => destruct (f_copy_fresh _ _ _ _ _ _ _ E) as (_ & _ & F); apply F; cbn; lia
  | E : deepcopy_rep _ _ _ = _ |- _ => apply (deepcopy_writes_only_new_cells _ _ _ _ _ E); cbn; lia
  | E : compose _ _ _ None _ = _ |- _ => destruct (compose_fresh _ _ _ _ _ _ _ E) as (_ & _ & F); apply F; cbn; lia
  | E : flagComplex _ _ _ = _ |- _ => destruct (flagComplex_fresh _ _ _ _ _ _ E) as (_ & _ & F); apply F; cbn; lia
  | E : decode _ (empty_rep ?u) _ = _ |- _ =>
      destruct (decode_owned _ _ _ _ _ _ (owned_empty u) E) as (_ & _ & F); apply F; cbn; lia
  end.

Theorem ctor_heap_frame w c x w' o : ctor_result c = Some x -> exec w c = (w', o) ->
  forall h, fst h < w_uid w -> heap_get (w_heap w') h = heap_get (w_heap w) h.
Proof.
  intros Hc H h Hlt. destruct c; simpl in Hc; try discriminate; injection Hc as ->; cbn [exec] in H.
  all: break H; try (injection H as <- _);
    repeat match goal with E : fresh_uid _ = _ |- _ => unfold fresh_uid in E; injection E as <- <- end;
    cbn [w_heap set_var set_heap w_uid] in *; try reflexivity; try frame_by h.
Qed.
