(* SubdivVinv.v -- barycentric subdivision keeps the vertex-set reading (C01): when barycentricSubdivide of a simplex of
   a complex that meets it succeeds, the result meets it.  The new point is not a point of the simplex, so every basis
   handed to addSimplexWithBasis is duplicate-free with at least two elements.  Plain Coq. *)
From Coq Require Import String ZArith Bool Arith List Lia.
From SV Require Import Names NamesFacts ListFacts Rep Fresh Complex Atomic RepInv Reach Shapes Incidence AddEffect
                       Closed ClosedReach AddBasis BasisInv VInv AwbSpec VSets FiltProofs.
Import ListNotations.
Open Scope nat_scope.

Lemma In_remove_nth {A} (x : A) : forall l i, In x (remove_nth i l) -> In x l.
Proof. induction l as [|h t IH]; intros [|i]; simpl; auto. intros [E|H]; [now left|right; eapply IH; eauto]. Qed.

Lemma NoDup_remove_nth {A} : forall (l : list A) i, NoDup l -> NoDup (remove_nth i l).
Proof.
  induction l as [|h t IH]; intros [|i] H; simpl; auto; inversion H as [|a b Hn Hd]; subst; auto.
  constructor; [|now apply IH]. intros Hin. apply Hn. eapply In_remove_nth; eauto.
Qed.

Theorem barycentricSubdivide_vinv r s pts r' mid : vinv r -> barycentricSubdivide r s pts = (r', Ok mid) -> vinv r'.
Proof.
  intros Vr H. unfold barycentricSubdivide in H.
  destruct (containsSimplex r s) eqn:Cs; [|discriminate]. cbn [negb] in H.
  destruct (orderOf r s) as [[|k]|e] eqn:Eo; try discriminate.
  destruct (addSimplex r [] None None) as [r1 [m|e]] eqn:E1; [|discriminate].
  pose proof (c_s r (b_c r (v_b r Vr))) as Sr.
  assert (V1 : vinv r1) by (eapply addSimplex_vinv; [exact Vr|now left|exact E1]).
  destruct (addSimplex_effect r [] None None r1 m Sr E1) as (Hnew & _ & _ & _ & Hold & _).
  destruct (Hold s Cs) as (_ & _ & _ & Bs).
  set (P := if seteq pts (basisOf r1 s) && nodupb pts then pts else basisOf r1 s) in *.
  assert (HP : NoDup P /\ sameset P (basisOf r s)).
  { unfold P. destruct (seteq pts (basisOf r1 s) && nodupb pts) eqn:E.
    - apply andb_prop in E. destruct E as [E1' E2]. split; [now apply nodupb_NoDup|]. rewrite <- Bs. now apply seteq_sameset.
    - split; [apply basis_nodup; exact (s_p r1 (c_s r1 (b_c r1 (v_b r1 V1))))|]. rewrite Bs. intros z; reflexivity. }
  destruct HP as [NP SP].
  apply (contains_assoc r) in Cs. destruct Cs as (k0 & j0 & As).
  assert (k0 = S k) by (unfold orderOf in Eo; rewrite As in Eo; now injection Eo). subst k0.
  assert (LP : length P = S (S k)).
  { rewrite <- (v_card r Vr s (S k) j0 As). apply NoDup_sameset_length; [exact NP|apply basis_nodup; exact (s_p r Sr)|exact SP]. }
  assert (MP : ~ In m P).
  { intros Hin. apply SP in Hin. destruct (a_basis_point r Vr s (S k) j0 m As Hin) as (i & Am).
    unfold containsSimplex in Hnew. rewrite Am in Hnew. discriminate. }
  destruct (deleteSimplex r1 s) as [r2 [[]|e]] eqn:E2; [|discriminate].
  assert (V2 : vinv r2) by (eapply deleteSimplex_vinv; eauto).
  assert (G : forall L r0 x0 r3 x3, vinv r0 -> (forall i, In i L -> i < length P) ->
            fold_left (fun acc idx =>
                         match acc with
                         | (r', Raise e) => (r', Raise e)
                         | (r', Ok _) =>
                             match c_addSimplexWithBasis r' (remove_nth idx P ++ [m]) None None with
                             | (r'', Raise e) => (r'', Raise e)
                             | (r'', Ok _) => (r'', Ok tt)
                             end
                         end) L (r0, x0) = (r3, Ok x3) -> vinv r3).
  { induction L as [|i L IH]; intros r0 x0 r3 x3 V0 HL HF; simpl in HF.
    - injection HF as <- _. exact V0.
    - destruct x0 as [u|e].
      + destruct (c_addSimplexWithBasis r0 (remove_nth i P ++ [m]) None None) as [r4 [n|e]] eqn:EA.
        * apply (IH r4 (Ok tt) r3 x3); [|intros; apply HL; now right|exact HF].
          assert (Li : i < length P) by (apply HL; now left).
          destruct (addSimplexWithBasis_spec r0 (remove_nth i P ++ [m]) None None r4 n V0) as (V4 & _); auto.
          -- apply NoDup_app_snoc; [now apply NoDup_remove_nth|]. intros Hin. apply MP. eapply In_remove_nth; eauto.
          -- rewrite app_length, (length_remove_nth P i Li). simpl. lia.
        * exfalso. clear -HF. assert (X : forall L0 r5 e5, fold_left (fun acc idx =>
                         match acc with
                         | (r', Raise e) => (r', Raise e)
                         | (r', Ok _) =>
                             match c_addSimplexWithBasis r' (remove_nth idx P ++ [m]) None None with
                             | (r'', Raise e) => (r'', Raise e)
                             | (r'', Ok _) => (r'', Ok tt)
                             end
                         end) L0 (r5, Raise e5) = (r5, Raise e5)) by (induction L0; intros; simpl; auto).
          rewrite X in HF. discriminate.
      + exfalso. clear -HF. assert (X : forall L0 r5 e5, fold_left (fun acc idx =>
                         match acc with
                         | (r', Raise e) => (r', Raise e)
                         | (r', Ok _) =>
                             match c_addSimplexWithBasis r' (remove_nth idx P ++ [m]) None None with
                             | (r'', Raise e) => (r'', Raise e)
                             | (r'', Ok _) => (r'', Ok tt)
                             end
                         end) L0 (r5, Raise e5) = (r5, Raise e5)) by (induction L0; intros; simpl; auto).
        rewrite X in HF. discriminate. }
  destruct (fold_left _ (seq 0 (length P)) (r2, Ok tt)) as [r3 [x3|e3]] eqn:EF; [|discriminate].
  injection H as <- _. apply (G (seq 0 (length P)) r2 (Ok tt) r3 x3 V2); [|exact EF].
  intros i Hi. apply in_seq in Hi. lia.
Qed.
