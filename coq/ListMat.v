(* ListMat.v -- entry-level characterisation of the list operations used by the model of
   _reduceBoundaries (Homology.v): what each step does to the entry function of the matrix, and
   that the block form diag(I_x, M') advances by one at every pivot.  Plain Coq (no ssreflect). *)
From Coq Require Import String ZArith Bool Arith List Lia.
From SV Require Import Names ListFacts Rep Complex Homology.
Import ListNotations.
Open Scope nat_scope.

Definition entry (M : bmat) (i j : nat) : bool := nth j (nth i M []) false.
Definition wfm (rb cb : nat) (M : bmat) : Prop := length M = rb /\ Forall (fun r => length r = cb) M.

Lemma wfm_row rb cb M i : wfm rb cb M -> i < rb -> length (nth i M []) = cb.
Proof.
  intros [HL HF] Hi. rewrite Forall_forall in HF. apply HF. apply nth_In. lia.
Qed.

(* ---------- swap ---------- *)
Definition sw (x k i : nat) : nat := if i =? x then k else if i =? k then x else i.

Lemma nth_swap {A} (d : A) (l : list A) (i j k : nat) :
  i < length l -> j < length l -> nth k (swap d i j l) d = nth (sw i j k) l d.
Proof.
  intros Hi Hj. unfold swap, sw. rewrite nth_set_nth, length_set_nth.
  destruct (k =? i) eqn:Eki.
  - apply Nat.ltb_lt in Hi. rewrite Hi. reflexivity.
  - simpl. rewrite nth_set_nth. apply Nat.ltb_lt in Hj. rewrite Hj.
    destruct (k =? j) eqn:Ekj; simpl; reflexivity.
Qed.

Lemma swap_nil {A} (d : A) i j : swap d i j [] = [].
Proof. unfold swap. now rewrite !set_nth_nil. Qed.

Lemma length_swap {A} (d : A) (l : list A) i j : length (swap d i j l) = length l.
Proof. unfold swap. now rewrite !length_set_nth. Qed.

(* ---------- mapi / xor_row ---------- *)
Lemma length_mapi_from {A B} (f : nat -> A -> B) l : forall s, length (mapi_from s f l) = length l.
Proof. induction l as [|h t IH]; intros s; simpl; auto. Qed.

Lemma nth_mapi_from {A B} (f : nat -> A -> B) (d : A) (d' : B) l : forall s k,
  k < length l -> nth k (mapi_from s f l) d' = f (s + k) (nth k l d).
Proof.
  induction l as [|h t IH]; intros s [|k] Hk; simpl in *; try lia.
  - now rewrite Nat.add_0_r.
  - rewrite IH by lia. f_equal. lia.
Qed.

Lemma length_xor_row a : forall b, length (xor_row a b) = length a.
Proof. induction a as [|x a IH]; intros [|y b]; simpl; auto. Qed.

Lemma nth_xor_row a : forall b j, length a = length b ->
  nth j (xor_row a b) false = xorb (nth j a false) (nth j b false).
Proof.
  induction a as [|x a IH]; intros [|y b] [|j] H; simpl in *; try discriminate; auto.
Qed.

(* ---------- the four stages of a reduction step, on entries ---------- *)
Section Step.
  Variables (rb cb x k l : nat) (M : bmat).
  Hypothesis HM : wfm rb cb M.
  Hypothesis Hx : x < rb. Hypothesis Hk : k < rb.
  Hypothesis Hxc : x < cb. Hypothesis Hl : l < cb.

  Let M1 := swap [] x k M.
  Let M2 := map (swap false x l) M1.
  Let prow := nth x M2 [].
  Let M3 := mapi (fun i r => if (x <? i) && nth x r false then xor_row r prow else r) M2.
  Let prow3 := nth x M3 [].
  Let M4 := map (fun r => mapi (fun j b => if (x <? j) && nth j prow3 false
                                           then xorb b (nth x r false) else b) r) M3.

  Lemma wfm_M1 : wfm rb cb M1.
  Proof.
    destruct HM as [HL HF]. split.
    - unfold M1. now rewrite length_swap.
    - rewrite Forall_forall in *. intros r Hr.
      destruct (In_nth _ _ [] Hr) as [i [Hi Hn]]. unfold M1 in *. rewrite length_swap in Hi.
      rewrite nth_swap in Hn by lia. subst r. apply HF. apply nth_In. unfold sw.
      destruct (i =? x); [lia|]. destruct (i =? k); lia.
  Qed.

  Lemma entry_M1 i j : entry M1 i j = entry M (sw x k i) j.
  Proof. unfold entry, M1. destruct HM as [HL _]. now rewrite nth_swap by lia. Qed.

  Lemma wfm_M2 : wfm rb cb M2.
  Proof.
    destruct wfm_M1 as [HL HF]. split.
    - unfold M2. now rewrite map_length.
    - unfold M2. rewrite Forall_forall in *. intros r Hr. apply in_map_iff in Hr.
      destruct Hr as [r0 [Hr0 Hin]]. subst r. rewrite length_swap. now apply HF.
  Qed.

  Lemma entry_M2 i j : i < rb -> entry M2 i j = entry M1 i (sw x l j).
  Proof.
    intros Hi. unfold entry, M2.
    replace (nth i (map (swap false x l) M1) []) with (swap false x l (nth i M1 [])).
    - rewrite nth_swap; auto; rewrite (wfm_row rb cb) by (auto using wfm_M1); lia.
    - rewrite <- (swap_nil false x l) at 2. symmetry. apply map_nth.
  Qed.

  Lemma wfm_M3 : wfm rb cb M3.
  Proof.
    destruct wfm_M2 as [HL HF]. split.
    - unfold M3, mapi. now rewrite length_mapi_from.
    - rewrite Forall_forall. intros r Hr.
      destruct (In_nth _ _ [] Hr) as [i [Hi Hn]]. unfold M3, mapi in *. rewrite length_mapi_from in Hi.
      rewrite (nth_mapi_from _ []) in Hn by lia. simpl in Hn. subst r.
      assert (Hrow : length (nth i M2 []) = cb) by (apply (wfm_row rb cb); auto using wfm_M2; lia).
      destruct ((x <? i) && nth x (nth i M2 []) false); auto. now rewrite length_xor_row.
  Qed.

  Lemma entry_M3 i j : i < rb ->
    entry M3 i j = if (x <? i) && entry M2 i x then xorb (entry M2 i j) (entry M2 x j) else entry M2 i j.
  Proof.
    intros Hi. destruct wfm_M2 as [HL HF]. unfold entry at 1. unfold M3, mapi.
    rewrite (nth_mapi_from _ []) by lia. simpl. fold (entry M2 i x).
    destruct ((x <? i) && entry M2 i x); [|reflexivity].
    rewrite nth_xor_row; [reflexivity|].
    unfold prow. rewrite !(wfm_row rb cb) by (auto using wfm_M2). reflexivity.
  Qed.

  Lemma wfm_M4 : wfm rb cb M4.
  Proof.
    destruct wfm_M3 as [HL HF]. split.
    - unfold M4. now rewrite map_length.
    - unfold M4. rewrite Forall_forall in *. intros r Hr. apply in_map_iff in Hr.
      destruct Hr as [r0 [Hr0 Hin]]. subst r. unfold mapi. rewrite length_mapi_from. now apply HF.
  Qed.

  Lemma entry_M4 i j : i < rb -> j < cb ->
    entry M4 i j = if (x <? j) && entry M3 x j then xorb (entry M3 i j) (entry M3 i x) else entry M3 i j.
  Proof.
    intros Hi Hj. destruct wfm_M3 as [HL HF]. unfold entry at 1. unfold M4.
    set (g := fun r => mapi _ r).
    replace (nth i (map g M3) []) with (g (nth i M3 [])).
    - unfold g, mapi. rewrite (nth_mapi_from _ false) by (rewrite (wfm_row rb cb); auto using wfm_M3).
      simpl. reflexivity.
    - symmetry. exact (map_nth g M3 [] i).
  Qed.

  Lemma reduce_step_M {L} (cls : list (list L)) : fst (reduce_step x k l M cls) = M4.
  Proof. reflexivity. Qed.

  (* the whole step, on the entry function of the input *)
  Let f1 i j := entry M (sw x k i) j.
  Let f2 i j := f1 i (sw x l j).
  Let f3 i j := if (x <? i) && f2 i x then xorb (f2 i j) (f2 x j) else f2 i j.
  Let f4 i j := if (x <? j) && f3 x j then xorb (f3 i j) (f3 i x) else f3 i j.

  Lemma step_entries {L} (cls : list (list L)) i j : i < rb -> j < cb ->
    entry (fst (reduce_step x k l M cls)) i j = f4 i j.
  Proof.
    intros Hi Hj. rewrite (reduce_step_M cls).
    rewrite entry_M4 by assumption.
    rewrite !entry_M3 by assumption.
    rewrite !entry_M2 by assumption.
    rewrite !entry_M1. reflexivity.
  Qed.

  Lemma step_wfm {L} (cls : list (list L)) : wfm rb cb (fst (reduce_step x k l M cls)).
  Proof. rewrite (reduce_step_M cls). exact wfm_M4. Qed.
End Step.

(* ---------- the pivot search ---------- *)
Lemma find_in_row_some x row : forall pos l,
  find_in_row x pos row = Some l -> x <= l /\ pos <= l /\ l < pos + length row /\ nth (l - pos) row false = true.
Proof.
  induction row as [|b t IH]; intros pos l H; simpl in H; [discriminate|].
  destruct ((x <=? pos) && b) eqn:E.
  - injection H as <-. apply andb_prop in E. destruct E as [E1 E2]. apply Nat.leb_le in E1.
    rewrite Nat.sub_diag. simpl. repeat split; auto; lia.
  - apply IH in H. destruct H as (H1 & H2 & H3 & H4).
    split; [lia|]. split; [lia|]. split; [simpl; lia|].
    replace (l - pos) with (S (l - S pos)) by lia. exact H4.
Qed.

Lemma find_in_row_none x row : forall pos,
  find_in_row x pos row = None -> forall j, j < length row -> x <= pos + j -> nth j row false = false.
Proof.
  induction row as [|b t IH]; intros pos H j Hj Hx; simpl in *; [lia|].
  destruct ((x <=? pos) && b) eqn:E; [discriminate|].
  destruct j as [|j].
  - destruct b; auto. rewrite andb_true_r in E. apply Nat.leb_gt in E. lia.
  - apply (IH (S pos)); auto; lia.
Qed.

Lemma find_pivot_from_some x M : forall k0 k l,
  find_pivot_from x k0 M = Some (k, l) ->
  x <= k /\ k0 <= k /\ k < k0 + length M /\ x <= l /\ l < length (nth (k - k0) M []) /\ entry M (k - k0) l = true.
Proof.
  induction M as [|row t IH]; intros k0 k l H; simpl in H; [discriminate|].
  destruct (x <=? k0) eqn:E.
  - destruct (find_in_row x 0 row) as [l'|] eqn:F.
    + injection H as <- <-. apply find_in_row_some in F. destruct F as (F1 & _ & F3 & F4).
      apply Nat.leb_le in E. rewrite Nat.sub_diag. unfold entry. simpl in *.
      rewrite Nat.sub_0_r in F4. repeat split; auto; lia.
    + apply IH in H. destruct H as (H1 & H2 & H3 & H4 & H5 & H6).
      replace (k - k0) with (S (k - S k0)) by lia. unfold entry in *. simpl. repeat split; auto; lia.
  - apply IH in H. destruct H as (H1 & H2 & H3 & H4 & H5 & H6).
    replace (k - k0) with (S (k - S k0)) by lia. unfold entry in *. simpl. repeat split; auto; lia.
Qed.

Lemma find_pivot_from_none x M : forall k0,
  find_pivot_from x k0 M = None ->
  forall i j, i < length M -> x <= k0 + i -> x <= j -> j < length (nth i M []) -> entry M i j = false.
Proof.
  induction M as [|row t IH]; intros k0 H i j Hi Hxi Hxj Hj; simpl in *; [lia|].
  destruct (x <=? k0) eqn:E.
  - destruct (find_in_row x 0 row) as [l'|] eqn:F; [discriminate|].
    destruct i as [|i].
    + unfold entry. simpl. apply (find_in_row_none x row 0 F); auto.
    + unfold entry in *. simpl. apply (IH (S k0)); auto; lia.
  - destruct i as [|i].
    + apply Nat.leb_gt in E. lia.
    + unfold entry in *. simpl. apply (IH (S k0)); auto; lia.
Qed.

Lemma find_pivot_some rb cb x M k l : wfm rb cb M -> find_pivot x M = Some (k, l) ->
  x <= k /\ k < rb /\ x <= l /\ l < cb /\ entry M k l = true.
Proof.
  intros HM H. apply find_pivot_from_some in H. rewrite Nat.sub_0_r in H.
  destruct H as (H1 & _ & H3 & H4 & H5 & H6). destruct HM as [HL HF].
  assert (k < rb) by lia. rewrite (wfm_row rb cb) in H5 by (auto; split; auto). repeat split; auto.
Qed.

Lemma find_pivot_none rb cb x M : wfm rb cb M -> find_pivot x M = None ->
  forall i j, i < rb -> j < cb -> x <= i -> x <= j -> entry M i j = false.
Proof.
  intros HM H i j Hi Hj Hxi Hxj. destruct HM as [HL HF].
  apply (find_pivot_from_none x M 0 H); auto; try lia.
  rewrite (wfm_row rb cb); auto; split; auto.
Qed.

(* ---------- block form: rows and columns below x are those of the identity ---------- *)
Definition block (rb cb x : nat) (f : nat -> nat -> bool) : Prop :=
  forall i j, i < rb -> j < cb -> (i < x \/ j < x) -> f i j = (i =? j).

Section BlockStep.
  Variables (rb cb x k l : nat) (f0 : nat -> nat -> bool).
  Hypothesis Hb : block rb cb x f0.
  Hypothesis Hxk : x <= k. Hypothesis Hk : k < rb.
  Hypothesis Hxl : x <= l. Hypothesis Hl : l < cb.
  Hypothesis Hp : f0 k l = true.

  Let f1 i j := f0 (sw x k i) j.
  Let f2 i j := f1 i (sw x l j).
  Let f3 i j := if (x <? i) && f2 i x then xorb (f2 i j) (f2 x j) else f2 i j.
  Let f4 i j := if (x <? j) && f3 x j then xorb (f3 i j) (f3 i x) else f3 i j.

  Lemma sw_lt a b i : a <= b -> x <= a -> i < x -> sw a b i = i.
  Proof. intros. unfold sw. destruct (i =? a) eqn:E1; [apply Nat.eqb_eq in E1; lia|].
         destruct (i =? b) eqn:E2; [apply Nat.eqb_eq in E2; lia|]. reflexivity. Qed.
  Lemma sw_range a b i n : a < n -> b < n -> i < n -> sw a b i < n.
  Proof. intros. unfold sw. destruct (i =? a); auto. destruct (i =? b); auto. Qed.
  Lemma sw_ge a b i : x <= a -> x <= b -> x <= i -> x <= sw a b i.
  Proof. intros. unfold sw. destruct (i =? a); auto. destruct (i =? b); auto. Qed.

  Lemma f2_block i j : i < rb -> j < cb -> (i < x \/ j < x) -> f2 i j = (i =? j).
  Proof.
    intros Hi Hj H. unfold f2, f1.
    destruct (Nat.lt_ge_cases i x) as [Hix|Hix]; destruct (Nat.lt_ge_cases j x) as [Hjx|Hjx].
    - rewrite !sw_lt by lia. apply Hb; auto.
    - rewrite (sw_lt x k i) by lia.
      rewrite Hb; auto; try (apply sw_range; lia).
      assert (x <= sw x l j) by (apply sw_ge; lia).
      destruct (i =? sw x l j) eqn:E; [apply Nat.eqb_eq in E; lia|].
      destruct (i =? j) eqn:E'; [apply Nat.eqb_eq in E'; lia|]. reflexivity.
    - rewrite (sw_lt x l j) by lia.
      rewrite Hb; auto; try (apply sw_range; lia).
      assert (x <= sw x k i) by (apply sw_ge; lia).
      destruct (sw x k i =? j) eqn:E; [apply Nat.eqb_eq in E; lia|].
      destruct (i =? j) eqn:E'; [apply Nat.eqb_eq in E'; lia|]. reflexivity.
    - lia.
  Qed.

  Lemma f2_pivot : f2 x x = true.
  Proof. unfold f2, f1, sw. rewrite !Nat.eqb_refl. exact Hp. Qed.

  Lemma f3_col i : i < rb -> f3 i x = (i =? x).
  Proof.
    intros Hi. unfold f3.
    destruct (x <? i) eqn:E.
    - apply Nat.ltb_lt in E. destruct (f2 i x) eqn:F; simpl.
      + rewrite f2_pivot. simpl. destruct (i =? x) eqn:E'; [apply Nat.eqb_eq in E'; lia|]. reflexivity.
      + destruct (i =? x) eqn:E'; [apply Nat.eqb_eq in E'; lia|]. reflexivity.
    - apply Nat.ltb_ge in E. simpl. destruct (Nat.eq_dec i x) as [->|Hne].
      + rewrite f2_pivot. now rewrite Nat.eqb_refl.
      + rewrite f2_block by lia. destruct (i =? x) eqn:E'; auto.
  Qed.

  Lemma f3_block i j : i < rb -> j < cb -> (i < x \/ j < x) -> f3 i j = (i =? j).
  Proof.
    intros Hi Hj H. unfold f3.
    destruct ((x <? i) && f2 i x) eqn:E.
    - apply andb_prop in E. destruct E as [E1 E2]. apply Nat.ltb_lt in E1.
      assert (Hjx : j < x) by lia.
      rewrite (f2_block i j) by lia. rewrite (f2_block x j) by lia.
      destruct (x =? j) eqn:E'; [apply Nat.eqb_eq in E'; lia|]. now rewrite xorb_false_r.
    - apply f2_block; auto.
  Qed.

  Lemma f4_block : block rb cb (S x) f4.
  Proof.
    intros i j Hi Hj H. unfold f4.
    assert (Hxrb : x < rb) by lia. assert (Hxcb : x < cb) by lia.
    destruct ((x <? j) && f3 x j) eqn:E.
    - apply andb_prop in E. destruct E as [E1 E2]. apply Nat.ltb_lt in E1.
      rewrite f3_col by lia.
      destruct (Nat.eq_dec i x) as [->|Hne].
      + rewrite E2, Nat.eqb_refl. simpl. destruct (x =? j) eqn:E'; [apply Nat.eqb_eq in E'; lia|]. reflexivity.
      + destruct (i =? x) eqn:E'; [apply Nat.eqb_eq in E'; lia|]. rewrite xorb_false_r.
        apply f3_block; auto. lia.
    - destruct (Nat.eq_dec j x) as [->|Hjx].
      + now rewrite f3_col.
      + destruct (Nat.lt_ge_cases j x) as [Hlt|Hge].
        * apply f3_block; auto.
        * assert (Hxj : x < j) by lia. apply Nat.ltb_lt in Hxj. rewrite Hxj in E. simpl in E.
          destruct (Nat.eq_dec i x) as [->|Hne].
          -- rewrite E. destruct (x =? j) eqn:E'; [apply Nat.eqb_eq in E'; lia|]. reflexivity.
          -- apply f3_block; auto. lia.
  Qed.
End BlockStep.
