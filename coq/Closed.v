(* Closed.v -- every simplex of order k >= 1 has exactly k+1 faces (all distinct, all simplices of
   order k-1): an invariant of every history of PUBLIC operations (C01).  It survives deletions
   because deleteSimplex walks the star cofaces-first (StarOrder.v), so that a simplex is only ever
   removed when nothing has it as a face (DelEffect.v).  Plain Coq. *)
From Coq Require Import String ZArith Bool Arith List Lia.
From SV Require Import Names NamesFacts ListFacts Rep Fresh Complex Atomic RepInv Reach Shapes Incidence AddEffect RelabelProofs.
From SV Require Import DelEffect StarOrder.
Import ListNotations.
Open Scope nat_scope.

Lemma NoDup_names_of_col idx col : NoDup idx -> NoDup (names_of_col idx col).
Proof.
  unfold names_of_col. revert col. induction idx as [|a idx IH]; intros col H; [constructor|].
  destruct col as [|b col]; [constructor|]. inversion H as [|x xs Hx Hxs]; subst. simpl.
  destruct b; simpl; [|now apply IH]. constructor; [|now apply IH].
  intros Hin. apply Hx. apply in_map_iff in Hin. destruct Hin as ([n c] & En & Hn). simpl in En. subst n.
  apply filter_In in Hn. destruct Hn as [Hn _]. now apply in_combine_l in Hn.
Qed.

Lemma faces_nodup r t : pinv r -> NoDup (faces r t).
Proof.
  intros P. unfold faces. destruct (assoc t (r_simp r)) as [[[|k'] j]|] eqn:At; try constructor.
  apply NoDup_names_of_col. destruct P as [K Pm St L]. destruct (proj1 (Pm t (S k') j) At) as [Hk _].
  apply pinv_nodup_order; [constructor; auto | lia].
Qed.

Definition finv (r : rep) : Prop :=
  forall t k' j, assoc t (r_simp r) = Some (S k', j) -> length (faces r t) = S (S k').
Record cinv (r : rep) : Prop := { c_s : sinv r; c_f : finv r }.

Lemma cinv_empty uid : cinv (empty_rep uid).
Proof. split; [apply sinv_empty|]. intros t k' j H. discriminate. Qed.

Lemma cinv_same_obs r r' : same_obs r r' -> cinv r -> cinv r'.
Proof.
  intros Hs [HS F]. split; [eapply sinv_same_obs; eauto|].
  destruct (same_obs_queries r r' Hs) as (_ & _ & Qf & _). destruct Hs as (_ & _ & Hsimp & _).
  intros t k' j H. rewrite Hsimp in H. rewrite Qf. eapply F; eauto.
Qed.

Lemma NoDup_same_length {A} (l1 l2 : list A) : NoDup l1 -> NoDup l2 -> (forall x, In x l1 <-> In x l2) -> length l1 = length l2.
Proof.
  intros N1 N2 H. apply Nat.le_antisymm; apply NoDup_incl_length; auto; intros x Hx; now apply H.
Qed.

Theorem addSimplex_cinv r fs id attr r' x : cinv r -> addSimplex r fs id attr = (r', x) -> cinv r'.
Proof.
  intros [HS F] H. destruct x as [n|e].
  2: { apply addSimplex_atomic in H. destruct H as [Hs _]. eapply cinv_same_obs; eauto. split; auto. }
  assert (HS' : sinv r') by (eapply addSimplex_sinv; eauto). split; [exact HS'|].
  destruct (addSimplex_effect r fs id attr r' n HS H) as (Hnew & Hnd & Ho & Hf & Hold & Hall).
  intros t k' j At.
  assert (Hc' : containsSimplex r' t = true) by (unfold containsSimplex; now rewrite At).
  rewrite Hall in Hc'. destruct (name_eqb_spec t n) as [->|Hne].
  - unfold orderOf in Ho. rewrite At in Ho. injection Ho as Ho.
    rewrite (NoDup_same_length (faces r' n) fs (faces_nodup r' n (s_p r' HS')) Hnd Hf). lia.
  - rewrite orb_false_r in Hc'. destruct (Hold t Hc') as (O & I & Fa & _).
    rewrite Fa. unfold orderOf, indexOf in O, I. rewrite At in O, I.
    destruct (assoc t (r_simp r)) as [[k2 i2]|] eqn:A2; [|discriminate]. injection O as <-. eapply F; eauto.
Qed.

Theorem relabelSimplex_cinv r s q r' x : cinv r -> relabelSimplex r s q = (r', x) -> cinv r'.
Proof.
  intros [HS F] H. destruct x as [[]|e].
  2: { apply relabelSimplex_atomic in H. destruct H as [-> _]. split; auto. }
  assert (HS' : sinv r') by (eapply relabelSimplex_sinv; eauto). split; [exact HS'|].
  destruct (relabelSimplex_carries r s q r' (s_p r HS) H) as (Eb & _ & En & Ei & _).
  pose proof (s_p r HS) as [K Pm St L]. pose proof (s_p r' HS') as [K' Pm' St' L'].
  intros t k' j At. destruct (proj1 (Pm' t (S k') j) At) as [Hk Hj].
  rewrite Ei, nth_error_map in Hj. destruct (nth_error (idxk r (S k')) j) as [t0|] eqn:E0; [|discriminate].
  assert (A0 : assoc t0 (r_simp r) = Some (S k', j)) by (apply Pm; split; [lia | exact E0]).
  specialize (F t0 k' j A0). unfold faces in *. rewrite At. rewrite A0 in F.
  unfold bndk in *. rewrite Eb. fold (idxk r' k'). rewrite Ei, names_of_col_map, map_length. exact F.
Qed.

(* deleting a simplex nothing has as a face *)
Theorem forceDelete_cinv r s r' x : cinv r -> cofaces r s = [] -> forceDeleteSimplex r s = (r', x) -> cinv r'.
Proof.
  intros [HS F] Hco H. destruct x as [[]|e].
  2: { apply forceDeleteSimplex_atomic in H. destruct H as [-> _]. split; auto. }
  destruct (assoc s (r_simp r)) as [[k i]|] eqn:As; [|unfold forceDeleteSimplex in H; rewrite As in H; discriminate].
  assert (Er : r' = fst (forceDeleteSimplex r s)) by (now rewrite H). subst r'.
  pose proof (d_sinv r s k i HS As) as HS'. split; [exact HS'|].
  intros t k' j At.
  assert (Hc' : containsSimplex (fst (forceDeleteSimplex r s)) t = true) by (unfold containsSimplex; now rewrite At).
  destruct (d_sub r s k i HS As t Hc') as [Hc Hne].
  unfold containsSimplex in Hc. destruct (assoc t (r_simp r)) as [[kt it]|] eqn:A0; [|discriminate].
  destruct (d_pos r s k i HS As t kt it Hne A0) as (_ & At' & _). rewrite At in At'. injection At' as <- _.
  destruct (d_faces r s k i HS As t (S k') it Hne A0) as [_ Hsame].
  rewrite Hsame; [eapply F; eauto|].
  intros Hin. apply (cofaces_inverse_of_faces r HS t s) in Hin. rewrite Hco in Hin. destruct Hin.
Qed.

(* ---------- deleteSimplex: the star goes, cofaces first ---------- *)
Definition del_step (acc : rep * res unit) (t : name) : rep * res unit :=
  match acc with (r', Raise e) => (r', Raise e) | (r', Ok _) => forceDeleteSimplex r' t end.

Lemma fold_delete_cinv : forall (L : list name) rc,
  cinv rc -> NoDup L -> (forall t, In t L -> containsSimplex rc t = true) ->
  (forall i t u, nth_error L i = Some t -> In u (cofaces rc t) -> exists j, j < i /\ nth_error L j = Some u) ->
  forall r' x, fold_left del_step L (rc, Ok tt) = (r', x) -> cinv r'.
Proof.
  induction L as [|t L IH]; intros rc Hc Hnd Hin Hco r' x H; simpl in H.
  - now injection H as <- _.
  - inversion Hnd as [|y ys Hy Hys]; subst.
    assert (Hco0 : cofaces rc t = []).
    { destruct (cofaces rc t) as [|u l] eqn:E; [reflexivity|]. exfalso.
      destruct (Hco 0 t u eq_refl) as (j & Hj & _); [rewrite E; now left | lia]. }
    assert (Hct : containsSimplex rc t = true) by (apply Hin; now left).
    unfold containsSimplex in Hct. destruct (assoc t (r_simp rc)) as [[k i]|] eqn:At; [|discriminate].
    pose proof (del_ok rc t k i At) as Hok. rewrite Hok in H.
    set (r1 := fst (forceDeleteSimplex rc t)) in *.
    assert (Hc1 : cinv r1) by (apply (forceDelete_cinv rc t r1 (Ok tt) Hc Hco0 Hok)).
    refine (IH r1 Hc1 Hys _ _ r' x H).
    + intros t' Ht'. assert (Hne : t' <> t) by (intros ->; contradiction).
      assert (Hc' : containsSimplex rc t' = true) by (apply Hin; now right).
      unfold containsSimplex in Hc'. destruct (assoc t' (r_simp rc)) as [[k2 i2]|] eqn:A2; [|discriminate].
      destruct (d_pos rc t k i (c_s rc Hc) At t' k2 i2 Hne A2) as (_ & A' & _).
      unfold containsSimplex. fold r1 in A'. now rewrite A'.
    + intros i' t' u Hi' Hu. assert (Ht' : In t' L) by (eapply nth_error_In; eauto).
      assert (Hne : t' <> t) by (intros ->; contradiction).
      assert (Hc' : containsSimplex rc t' = true) by (apply Hin; now right).
      apply (d_cofaces rc t k i (c_s rc Hc) At t' Hne Hc' u) in Hu. destruct Hu as [Hu Hut].
      destruct (Hco (S i') t' u Hi' Hu) as (j & Hj & Hju). destruct j as [|j].
      * simpl in Hju. congruence.
      * exists j. split; [lia | exact Hju].
Qed.

Theorem deleteSimplex_cinv r s r' x : cinv r -> deleteSimplex r s = (r', x) -> cinv r'.
Proof.
  intros Hc H. unfold deleteSimplex in H.
  destruct (partOf r s true false) as [L|e] eqn:EP; [|now injection H as <- _].
  assert (Hk : exists k is, assoc s (r_simp r) = Some (k, is)).
  { unfold partOf, orderOf in EP. destruct (assoc s (r_simp r)) as [[k is]|]; [eauto | discriminate]. }
  destruct Hk as (k & is & As).
  destruct (star_positions r (c_s r Hc) s k is L As EP) as (Hnd & Hin & Hpos).
  exact (fold_delete_cinv L r Hc Hnd Hin Hpos r' x H).
Qed.
