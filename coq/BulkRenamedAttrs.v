(* BulkRenamedAttrs.v -- C15: the attribute values of a bulk add under a renaming: every source simplex s arrives as phi(s)
   with a dictionary of the receiver's own (allocated after all earlier ones) that holds what the source's dictionary holds;
   the receiver's earlier dictionaries keep their contents; no dictionary of another owner is written.  Plain Coq. *)
From Coq Require Import String ZArith Bool Arith List Lia.
From SV Require Import Names NamesFacts ListFacts Rep Fresh Complex Atomic RepInv Reach Shapes AddEffect CopyFaithful
                       RelabelProofs RelabelAll RelabelPhi WorldProofs CopyAttrs BulkRenamed.
Import ListNotations.
Open Scope nat_scope.

Lemma addFrom_loop_grows rn : rn <> RNone -> forall (src : srcview) hp r st ns hp' r' st' x,
  addFrom_loop hp r rn st src ns = (hp', r', st', x) -> grows st st'.
Proof.
  intros Hn. induction src as [|[s0 [fs0 h0]] rest IH]; intros hp r st ns hp' r' st' x H; cbn [addFrom_loop] in H.
  - injection H as _ _ <- _. apply grows_refl.
  - destruct (rl_apply rn st s0) as [sta t0] eqn:Ea. destruct (rl_apply_memo rn st s0 sta t0 Hn Ea) as [_ Ga].
    destruct (negb (name_eqb s0 t0) && containsSimplex r t0); [injection H as _ _ <- _; exact Ga|].
    destruct (rl_map rn sta fs0) as [stb fs0'] eqn:Eb. destruct (rl_map_memo rn Hn fs0 sta stb fs0' Eb) as (Gb & _ & _).
    destruct (alloc r) as [ra ha].
    destruct (addSimplex ra fs0' (Some t0) (Some ha)) as [rb [id|e]].
    + eapply grows_trans; [exact Ga|]. eapply grows_trans; [exact Gb|]. eapply IH; eauto.
    + injection H as _ _ <- _. eapply grows_trans; eauto.
Qed.

Theorem bulk_add_renamed_attrs rn uid : rn <> RNone -> forall (src : srcview) hp r st ns hp' r' st' ns',
  ainv uid r -> (forall s fs h, In (s, (fs, h)) src -> fst h <> uid) ->
  addFrom_loop hp r rn st src ns = (hp', r', st', Ok ns') ->
  let phi := memo_of st' in
  ainv uid r' /\
  (forall s fs h, In (s, (fs, h)) src ->
     exists h', assoc (phi s) (r_attr r') = Some h' /\ fst h' = uid /\ heap_get hp' h' = heap_get hp h) /\
  (forall s h', assoc s (r_attr r) = Some h' -> assoc s (r_attr r') = Some h' /\ heap_get hp' h' = heap_get hp h') /\
  (forall h0, fst h0 <> uid -> heap_get hp' h0 = heap_get hp h0).
Proof.
  intros Hn. induction src as [|[s [fs h]] rest IH]; intros hp r st ns hp' r' st' ns' Hinv Hsrc H phi; cbn [addFrom_loop] in H.
  - injection H as <- <- _ _. split; [exact Hinv|]. split; [intros s fs h []|]. split; auto.
  - destruct (rl_apply rn st s) as [st1 t] eqn:E1.
    destruct (negb (name_eqb s t) && containsSimplex r t); [discriminate|].
    destruct (rl_map rn st1 fs) as [st2 fs'] eqn:E2.
    destruct (alloc r) as [r1 h1] eqn:Ea.
    assert (Ea' : r_attr r1 = r_attr r /\ r_simp r1 = r_simp r /\ r_uid r1 = r_uid r /\ r_nalloc r1 = S (r_nalloc r) /\ h1 = (r_uid r, r_nalloc r)).
    { unfold alloc in Ea. injection Ea as <- <-. simpl. repeat split. }
    destruct Ea' as (Ra & Rs & Ru & Rn & Eh1).
    destruct (addSimplex r1 fs' (Some t) (Some h1)) as [r2 [id|e]] eqn:E; [|discriminate].
    destruct (addSimplex_given r1 fs' t h1 r2 id E) as (-> & Cs & ->).
    destruct Hinv as [Hu Hd Ho].
    set (r2 := add_final (add_struct r1 (length fs' - 1)) fs' t h1 (length fs' - 1)) in *.
    destruct (add_struct_fields r1 (length fs' - 1)) as (Sa & Sn & Su & Ss).
    destruct (add_final_fields (add_struct r1 (length fs' - 1)) fs' t h1 (length fs' - 1)) as (Fa & Fn & Fu & pos & Fs).
    fold r2 in Fa, Fn, Fu, Fs. rewrite Sa, Ra in Fa. rewrite Sn, Rn in Fn. rewrite Su, Ru in Fu. rewrite Ss, Rs in Fs.
    assert (Hnone : assoc t (r_attr r) = None).
    { apply Hd. unfold containsSimplex in Cs. rewrite Rs in Cs. destruct (assoc t (r_simp r)); [discriminate | reflexivity]. }
    assert (Hinv2 : ainv uid r2).
    { constructor.
      - rewrite Fu. exact Hu.
      - intros s0. rewrite Fa, Fs. rewrite !assoc_app. simpl.
        destruct (name_eqb s0 t) eqn:E0.
        + apply name_eqb_eq in E0. subst s0. rewrite Hnone.
          assert (X : assoc t (r_simp r) = None) by (now apply Hd). rewrite X. split; discriminate.
        + specialize (Hd s0). destruct (assoc s0 (r_attr r)), (assoc s0 (r_simp r)); intuition discriminate.
      - intros s0 h0. rewrite Fa, Fn. rewrite assoc_app. destruct (assoc s0 (r_attr r)) as [hh|] eqn:E0.
        + intros E1'. injection E1' as <-. destruct (Ho s0 hh E0). split; [assumption | lia].
        + simpl. destruct (name_eqb s0 t); [|discriminate]. intros E1'. injection E1' as <-. rewrite Eh1. simpl. split; [exact Hu | lia]. }
    assert (Hsrc' : forall s0 fs0 h0, In (s0, (fs0, h0)) rest -> fst h0 <> uid) by (intros; eapply Hsrc; right; eauto).
    destruct (IH _ _ _ _ _ _ _ _ Hinv2 Hsrc' H) as (Hinv' & Hrest & Hkeep & Hframe). fold phi in Hrest.
    assert (Hh1 : fst h1 = uid) by (rewrite Eh1; exact Hu).
    assert (Hhne : fst h <> uid) by (eapply Hsrc; left; reflexivity).
    (* the name given to s stays the name phi gives it *)
    destruct (rl_apply_memo rn st s st1 t Hn E1) as [A1 G1]. destruct (rl_map_memo rn Hn fs st1 st2 fs' E2) as (G2 & _ & _).
    pose proof (addFrom_loop_grows rn Hn rest _ _ _ _ _ _ _ _ H) as G3.
    assert (Ps : phi s = t) by (apply (memo_of_grows st1 st' s t); [eapply grows_trans; eauto|exact A1]).
    split; [exact Hinv'|]. split; [|split].
    + intros s0 fs0 h0 [Heq|Hin].
      * injection Heq as <- <- <-. rewrite Ps.
        assert (A2 : assoc t (r_attr r2) = Some h1) by (rewrite Fa; now apply assoc_new).
        destruct (Hkeep t h1 A2) as [A' Hg]. exists h1. split; [exact A'|]. split; [exact Hh1|].
        rewrite Hg, heap_get_set. now rewrite (proj2 (handle_eqb_eq h1 h1) eq_refl).
      * destruct (Hrest s0 fs0 h0 Hin) as (h' & A' & Hf & Hg). exists h'. split; [exact A'|]. split; [exact Hf|].
        rewrite Hg, heap_get_set. destruct (handle_eqb h0 h1) eqn:E0; [|reflexivity].
        apply handle_eqb_eq in E0. subst h0. exfalso. eapply Hsrc'; eauto.
    + intros s0 h' A0. assert (A2 : assoc s0 (r_attr r2) = Some h') by (rewrite Fa; now apply assoc_old).
      destruct (Hkeep s0 h' A2) as [A' Hg]. split; [exact A'|]. rewrite Hg, heap_get_set.
      destruct (handle_eqb h' h1) eqn:E0; [|reflexivity]. apply handle_eqb_eq in E0. subst h'.
      destruct (Ho s0 h1 A0) as [_ Hlt]. rewrite Eh1 in Hlt. simpl in Hlt. lia.
    + intros h0 Hne. rewrite (Hframe h0 Hne), heap_get_set. destruct (handle_eqb h0 h1) eqn:E0; [|reflexivity].
      apply handle_eqb_eq in E0. subst h0. contradiction.
Qed.
