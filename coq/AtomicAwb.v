(* AtomicAwb.v -- C05: addSimplexWithBasis on a basis that already defines a simplex is rejected with KeyError and
   changes nothing observable (the only thing that may move is the allocation counter of attribute dictionaries).
   Plain Coq. *)
From Coq Require Import String ZArith Bool Arith List Lia.
From SV Require Import Names NamesFacts ListFacts Rep Fresh Complex Atomic.
Import ListNotations.

Lemma find_ext' {A} (f g : A -> bool) l : (forall x, f x = g x) -> find f l = find g l.
Proof. intros H. induction l as [|a l IH]; simpl; [reflexivity|]. rewrite H, IH. reflexivity. Qed.

Lemma isBasis_same_obs r r' bs f : same_obs r r' -> c_isBasis r' bs f = c_isBasis r bs f.
Proof.
  intros Hs. destruct (same_obs_queries r r' Hs) as (Qo & _ & _ & _ & _ & Qc & _).
  unfold c_isBasis. induction bs as [|b t IH]; simpl; [reflexivity|]. rewrite Qc, Qo, IH. reflexivity.
Qed.

Lemma lookup_same_obs r r' bs f : same_obs r r' -> c_simplexWithBasis r' bs f = c_simplexWithBasis r bs f.
Proof.
  intros Hs. pose proof (isBasis_same_obs r r' bs f Hs) as Hi.
  destruct (same_obs_queries r r' Hs) as (_ & _ & _ & _ & Qb & _ & Qs & _).
  unfold c_simplexWithBasis, simplexWithBasis. fold (c_isBasis r' bs f). fold (c_isBasis r bs f). rewrite Hi.
  destruct Hs as (_ & Hn & _). rewrite Hn.
  destruct (c_isBasis r bs f) as [[|]|e]; try reflexivity. destruct bs as [|b [|b2 t]]; try reflexivity.
  cbv zeta. rewrite Qs. destruct (r_nord r <=? _); [reflexivity|].
  rewrite (find_ext' _ (fun s => seteq (b :: b2 :: t) (basisOf r s))); [reflexivity|]. intros x. now rewrite Qb.
Qed.

Lemma lookup_after_alloc r bs : c_simplexWithBasis (fst (alloc r)) bs false = c_simplexWithBasis r bs false.
Proof. apply lookup_same_obs. apply same_obs_alloc. Qed.

Theorem addSimplexWithBasis_existing_basis r bs id attr s : bs <> [] ->
  c_simplexWithBasis r bs false = Ok (Some s) ->
  exists r', c_addSimplexWithBasis r bs id attr = (r', Raise KeyError) /\ same_obs r r'.
Proof.
  intros Hne Hl. unfold c_addSimplexWithBasis, addSimplexWithBasis. destruct bs as [|b bs]; [congruence|].
  set (B := b :: bs) in *.
  destruct (match id with Some n => containsSimplex r n || ((0 <? length B - 1) && memn n B) | None => false end).
  - exists r. split; [reflexivity|apply same_obs_refl].
  - destruct attr as [h|].
    + fold (c_simplexWithBasis r B false). rewrite Hl. exists r. split; [reflexivity|apply same_obs_refl].
    + destruct (alloc r) as [r1 h] eqn:Ea.
      assert (E1 : c_simplexWithBasis r1 B false = Ok (Some s)).
      { pose proof (lookup_after_alloc r B) as X. rewrite Ea in X. simpl in X. now rewrite X. }
      fold (c_simplexWithBasis r1 B false). rewrite E1. exists r1. split; [reflexivity|].
      pose proof (same_obs_alloc r) as X. now rewrite Ea in X.
Qed.
