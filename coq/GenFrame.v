(* GenFrame.v -- C18, the frame clause for k_skeleton and ring on ANY target (and k_simplex): whatever the outcome,
   every simplex the target had is still there with its order, position, faces, points and attribute dictionary.
   These generators are sequences of addSimplex calls; addSimplex has that frame (AddEffect, AttrFrame).  Plain Coq. *)
From Coq Require Import String ZArith Bool Arith List Lia.
From SV Require Import Names NamesFacts ListFacts Rep Fresh Complex Atomic RepInv Reach ReachGen2 Shapes Incidence AddEffect
                       Closed ClosedReach Homology Gen AttrInv AttrFrame.
Import ListNotations.

Definition full_frame (r0 r : rep) : Prop :=
  keeps_old r0 r /\
  forall t, containsSimplex r0 t = true ->
    orderOf r t = orderOf r0 t /\ indexOf r t = indexOf r0 t /\ faces r t = faces r0 t /\ basisOf r t = basisOf r0 t.

Lemma full_frame_refl r : ainv r -> full_frame r r.
Proof. intros A. split; [now apply keeps_old_refl|]. intros t _. repeat split. Qed.

Lemma full_frame_same_obs r0 r r' : same_obs r r' -> full_frame r0 r -> full_frame r0 r'.
Proof.
  intros Hs [K F]. split; [eapply keeps_old_same_obs; eauto|].
  destruct (same_obs_queries r r' Hs) as (Qo & Qi & Qf & _ & Qb & _). intros t Ct. rewrite Qo, Qi, Qf, Qb. now apply F.
Qed.

Lemma full_frame_add r0 r fs id attr r' x : full_frame r0 r -> addSimplex r fs id attr = (r', x) -> full_frame r0 r'.
Proof.
  intros [K F] H. destruct x as [n|e].
  2: { apply addSimplex_atomic in H. destruct H as [Hs _]. eapply full_frame_same_obs; eauto. split; auto. }
  split; [eapply addSimplex_keeps_old; eauto|].
  destruct K as [A K]. pose proof (c_s r (a_c r A)) as Sr.
  destruct (addSimplex_effect r fs id attr r' n Sr H) as (_ & _ & _ & _ & Hold & _).
  intros t Ct. destruct (K t Ct) as [C1 _]. destruct (Hold t C1) as (O & I & Fa & B). destruct (F t Ct) as (O0 & I0 & F0 & B0).
  rewrite O, I, Fa, B. auto.
Qed.

Section Generators.
  Variable r0 : rep.
  Let I := full_frame r0.

  Lemma add_points_frame : forall n r acc r' x, I r -> add_points n r acc = (r', x) -> I r'.
  Proof.
    induction n as [|n IH]; intros r acc r' x Hi H; simpl in H.
    - now injection H as <- _.
    - destruct (addSimplex r [] None None) as [r1 [s|e]] eqn:E; simpl in H.
      + eapply IH; [|exact H]. eapply full_frame_add; eauto.
      + injection H as <- _. eapply full_frame_add; eauto.
  Qed.

  Lemma add_edges_frame : forall ps r r' x, I r -> add_edges r ps = (r', x) -> I r'.
  Proof.
    induction ps as [|p ps IH]; intros r r' x Hi H; simpl in H.
    - now injection H as <- _.
    - destruct (addSimplex r p None None) as [r1 [s|e]] eqn:E; simpl in H.
      + eapply IH; [|exact H]. eapply full_frame_add; eauto.
      + injection H as <- _. eapply full_frame_add; eauto.
  Qed.

  Theorem k_skeleton_frame k r' x : ainv r0 -> k_skeleton k r0 = (r', x) -> full_frame r0 r'.
  Proof.
    intros A H. unfold k_skeleton in H.
    destruct (add_points (S k) r0 []) as [r1 [ss|e]] eqn:E1; simpl in H.
    - eapply add_edges_frame; [|exact H]. eapply add_points_frame; [|exact E1]. now apply full_frame_refl.
    - injection H as <- _. eapply add_points_frame; [|exact E1]. now apply full_frame_refl.
  Qed.

  Theorem ring_frame n r' x : ainv r0 -> ring n r0 = (r', x) -> full_frame r0 r'.
  Proof.
    intros A H. unfold ring in H. destruct (n <=? 2); [injection H as <- _; now apply full_frame_refl|].
    destruct (add_points n r0 []) as [r1 [ss|e]] eqn:E1; simpl in H.
    2: { injection H as <- _. eapply add_points_frame; [|exact E1]. now apply full_frame_refl. }
    assert (I1 : I r1) by (eapply add_points_frame; [|exact E1]; now apply full_frame_refl).
    destruct (add_edges r1 _) as [r2 [u|e]] eqn:E2; simpl in H.
    2: { injection H as <- _. eapply add_edges_frame; eauto. }
    assert (I2 : I r2) by (eapply add_edges_frame; eauto).
    destruct (addSimplex r2 _ None None) as [r3 [s|e]] eqn:E3; simpl in H; injection H as <- _; eapply full_frame_add; eauto.
  Qed.
End Generators.
