(* VRProofs.v -- the Vietoris-Rips construction in vertex sets (C12): the private complex that
   vietorisRipsComplex builds (the embedding's points, one edge per close pair) meets the
   vertex-set reading, has exactly those points and exactly those edges; its flag complex
   therefore has a simplex on a set of two or more points exactly when every two of them are a
   close pair.  Monotonicity in the set of close pairs, the empty and the full relation follow.
   Which pairs are close is the binary64 test of Floats.v, tied to the code bit for bit.  Plain Coq. *)
From Coq Require Import String ZArith Bool Arith List Lia.
From SV Require Import Names NamesFacts ListFacts Rep Fresh Complex Homology Atomic RepInv Reach Shapes Incidence AddEffect
                       Closed ClosedReach AddBasis BasisInv Duality DeleteEffect CopyFaithful VInv AwbSpec Gen VSets GenSets
                       World FlagExt VIso MinCycle FlagSound FlagComplete.
Import ListNotations.
Open Scope nat_scope.

Lemma sameset_single (B : list name) p : NoDup B -> B <> [] -> incl B [p] -> B = [p].
Proof.
  intros Hn Hne Hi. destruct B as [|a [|b t]]; [congruence| |].
  - destruct (Hi a (or_introl eq_refl)) as [<-|[]]. reflexivity.
  - exfalso. destruct (Hi a (or_introl eq_refl)) as [<-|[]]. destruct (Hi b (or_intror (or_introl eq_refl))) as [<-|[]].
    inversion Hn as [|? ? Hx _]. apply Hx. now left.
Qed.

(* a requested name is the name returned *)
Lemma addSimplex_requested_name r fs n attr r' q : addSimplex r fs (Some n) attr = (r', Ok q) -> q = n.
Proof.
  unfold addSimplex. intros H.
  destruct ((length fs - 1 =? 0) && negb (length fs =? 0)); [discriminate|].
  destruct (containsSimplex r n); [discriminate|].
  destruct (match attr with Some h => (r, h) | None => alloc r end) as [r0 h].
  destruct (negb (nodupb fs)); [discriminate|].
  destruct (check_faces r0 (length fs - 1) fs); [|discriminate].
  match type of H with (match ?X with _ => _ end) = _ => destruct X as [r1 [[]|e]] end; [|discriminate].
  destruct (length fs - 1); injection H as _ H; now symmetry.
Qed.

(* one named point more *)
Lemma add_named_point_carried r p r1 q : vinv r -> addSimplex r [] (Some p) None = (r1, Ok q) ->
  q = p /\ vinv r1 /\ containsSimplex r p = false /\
  forall B, NoDup B -> B <> [] -> (carried r1 B <-> carried r B \/ B = [p]).
Proof.
  intros Hv E. assert (q = p) by (eapply addSimplex_requested_name; eauto).
  subst q. destruct (add_point_spec r (Some p) None r1 p Hv E) as (Hv1 & Hn & Hc1 & Hb1 & [O N]).
  split; [reflexivity|]. split; [exact Hv1|]. split; [exact Hn|]. intros B HB Hne. split.
  - intros (t & Ct & St). destruct (N t Ct) as [Cr|Hi].
    + left. exists t. split; [exact Cr|]. destruct (O t Cr) as (_ & _ & _ & Eb). now rewrite <- Eb.
    + right. apply sameset_single; auto. intros x Hx. apply Hi. now apply St.
  - intros [(t & Ct & St)|EB].
    + destruct (O t Ct) as (C1 & _ & _ & Eb). exists t. split; [exact C1|]. now rewrite Eb.
    + subst B. exists p. split; [exact Hc1|]. rewrite Hb1. intros x. tauto.
Qed.

Lemma add_named_points_carried : forall ns r r', vinv r -> add_named_points r ns = (r', Ok tt) ->
  vinv r' /\ forall B, NoDup B -> B <> [] -> (carried r' B <-> carried r B \/ exists p, In p ns /\ B = [p]).
Proof.
  induction ns as [|p ns IH]; intros r r' Hv H; simpl in H.
  - injection H as <-. split; [exact Hv|]. intros B _ _. split; [now left | intros [H|(p & [] & _)]; exact H].
  - destruct (addSimplex r [] (Some p) None) as [r1 [q|e]] eqn:E; simpl in H; [|discriminate].
    destruct (add_named_point_carried r p r1 q Hv E) as (-> & Hv1 & _ & C1).
    destruct (IH r1 r' Hv1 H) as (Hv' & C'). split; [exact Hv'|]. intros B HB Hne.
    rewrite (C' B HB Hne), (C1 B HB Hne). split.
    + intros [[Hc| ->]|(x & Hx & ->)]; [now left | right; exists p; split; [now left|reflexivity] | right; exists x; split; [now right|reflexivity]].
    + intros [Hc|(x & [<-|Hx] & ->)]; [left; now left | left; now right | right; exists x; auto].
Qed.

Lemma carried_empty uid B : B <> [] -> ~ carried (empty_rep uid) B.
Proof. intros _ (t & Ct & _). discriminate. Qed.

(* one edge per pair *)
Lemma add_bases_carried : forall bss r r', vinv r ->
  (forall bs, In bs bss -> NoDup bs /\ 2 <= length bs) ->
  add_bases r bss = (r', Ok tt) ->
  vinv r' /\ forall B, NoDup B -> B <> [] -> (carried r' B <-> carried r B \/ exists bs, In bs bss /\ incl B bs).
Proof.
  induction bss as [|bs bss IH]; intros r r' Hv Hb H; simpl in H.
  - injection H as <-. split; [exact Hv|]. intros B _ _. split; [now left | intros [H|(p & [] & _)]; exact H].
  - destruct (c_addSimplexWithBasis r bs None None) as [r1 [n|e]] eqn:E; simpl in H; [|discriminate].
    destruct (Hb bs (or_introl eq_refl)) as [Nbs Lbs].
    destruct (addSimplexWithBasis_spec r bs None None r1 n Hv Nbs Lbs E) as (Hv1 & _).
    destruct (IH r1 r' Hv1 (fun b Hin => Hb b (or_intror Hin)) H) as (Hv' & C'). split; [exact Hv'|].
    intros B HB Hne. rewrite (C' B HB Hne).
    pose proof (add_by_basis_vertex_sets r bs None None r1 n Hv Nbs Lbs E B HB Hne) as C1.
    unfold carried. rewrite C1. split.
    + intros [[Hc|Hi]|(x & Hx & Hi)]; [now left | right; exists bs; split; [now left|exact Hi] | right; exists x; split; [now right|exact Hi]].
    + intros [Hc|(x & [<-|Hx] & Hi)]; [left; now left | left; now right | right; exists x; auto].
Qed.

(* ---------- the private complex of vietorisRipsComplex ---------- *)
Definition pair_names (ss : list name) (ij : nat * nat) : list name := [nth (fst ij) ss (NInt 0); nth (snd ij) ss (NInt 0)].
Definition closepair (ss : list name) (close : list (nat * nat)) (p q : name) : Prop :=
  exists ij, In ij close /\ incl [p; q] (pair_names ss ij).

Theorem vr_build_spec uid r close vr : NoDup (simplicesOfOrder r 0) ->
  (forall ij, In ij close -> fst ij < snd ij /\ snd ij < length (simplicesOfOrder r 0)) ->
  vr_build uid r close = (vr, Ok tt) ->
  vinv vr /\
  (forall p, carried vr [p] <-> In p (simplicesOfOrder r 0)) /\
  (forall p q, p <> q -> (carried vr [p; q] <-> closepair (simplicesOfOrder r 0) close p q)).
Proof.
  intros Hnd Hcl H. unfold vr_build in H. set (ss := simplicesOfOrder r 0) in *.
  destruct (add_named_points (empty_rep uid) ss) as [r1 [[]|e]] eqn:E1; simpl in H; [|discriminate].
  destruct (add_named_points_carried ss (empty_rep uid) r1 (vinv_empty uid) E1) as (Hv1 & C1).
  assert (Hb : forall bs, In bs (map (fun ij => [nth (fst ij) ss (NInt 0); nth (snd ij) ss (NInt 0)]) close) ->
               NoDup bs /\ 2 <= length bs).
  { intros bs Hin. apply in_map_iff in Hin. destruct Hin as (ij & <- & Hij). destruct (Hcl ij Hij) as [H1 H2].
    split; [|simpl; lia]. constructor; [|constructor; [intros []|constructor]].
    intros [E|[]]. apply (proj1 (NoDup_nth ss (NInt 0)) Hnd) in E; lia. }
  destruct (add_bases_carried _ r1 vr Hv1 Hb H) as (Hv & C).
  split; [exact Hv|]. split.
  - intros p. rewrite (C [p]); [|constructor; [intros []|constructor]|discriminate].
    rewrite (C1 [p]); [|constructor; [intros []|constructor]|discriminate]. split.
    + intros [[Hc|(x & Hx & E)]|(bs & Hin & Hi)].
      * exfalso. eapply carried_empty; eauto. discriminate.
      * injection E as ->. exact Hx.
      * apply in_map_iff in Hin. destruct Hin as (ij & <- & Hij). destruct (Hcl ij Hij) as [H1 H2].
        destruct (Hi p (or_introl eq_refl)) as [<-|[<-|[]]]; apply nth_In; lia.
    + intros Hp. left. right. exists p. auto.
  - intros p q Ne.
    assert (Npq : NoDup [p; q]) by (constructor; [intros [E|[]]; congruence | constructor; [intros []|constructor]]).
    rewrite (C [p; q] Npq); [|discriminate]. rewrite (C1 [p; q] Npq); [|discriminate]. split.
    + intros [[Hc|(x & Hx & E)]|(bs & Hin & Hi)].
      * exfalso. eapply carried_empty; eauto. discriminate.
      * discriminate.
      * apply in_map_iff in Hin. destruct Hin as (ij & <- & Hij). exists ij. split; [exact Hij | exact Hi].
    + intros (ij & Hij & Hi). right. exists (pair_names ss ij). split; [|exact Hi].
      apply in_map_iff. exists ij. split; [reflexivity | exact Hij].
Qed.

(* ---------- points and edges in terms of `carried` ---------- *)
Lemma nodup2 (p q : name) : p <> q -> NoDup [p; q].
Proof. intros Ne. constructor; [intros [E|[]]; congruence | constructor; [intros []|constructor]]. Qed.

Lemma point_carried r p : vinv r -> (carried r [p] <-> exists j, assoc p (r_simp r) = Some (0, j)).
Proof.
  intros Hv. pose proof (s_p r (c_s r (b_c r (v_b r Hv)))) as P. split.
  - intros (t & Ct & St). apply contains_assoc in Ct. destruct Ct as (k & j & A).
    pose proof (v_card r Hv t k j A) as Lc.
    rewrite (NoDup_same_length (basisOf r t) [p]) in Lc; [|apply basis_nodup; exact P|constructor; [intros []|constructor]|exact St].
    simpl in Lc. injection Lc as <-. destruct (b_b r (v_b r Hv) t 0 j A) as [B0 _]. specialize (B0 eq_refl).
    rewrite B0 in St. assert (t = p) by (destruct (proj1 (St t) (or_introl eq_refl)) as [E|[]]; now symmetry).
    subst t. now exists j.
  - intros (j & A). exists p. split; [unfold containsSimplex; now rewrite A|].
    destruct (b_b r (v_b r Hv) p 0 j A) as [B0 _]. rewrite (B0 eq_refl). intros x. tauto.
Qed.

Lemma edge_carried_iff r p q : vinv r -> p <> q -> (edge_of r p q <-> carried r [p; q]).
Proof.
  intros Hv Ne. pose proof (s_p r (c_s r (b_c r (v_b r Hv)))) as P. split.
  - intros (e & He & Se). exists e. split; [|exact Se].
    destruct (listed_assoc r Hv e 1 He) as (j & A). unfold containsSimplex. now rewrite A.
  - intros (t & Ct & St). exists t. split; [|exact St]. apply contains_assoc in Ct. destruct Ct as (k & j & A).
    pose proof (v_card r Hv t k j A) as Lc.
    rewrite (NoDup_same_length (basisOf r t) [p; q]) in Lc; [|apply basis_nodup; exact P|now apply nodup2|exact St].
    simpl in Lc. injection Lc as <-. eapply order_listed; eauto.
Qed.

(* C12: the Vietoris-Rips complex of the close pairs *)
Theorem vr_family hp uid u r close vr hp1 c :
  NoDup (simplicesOfOrder r 0) ->
  (forall ij, In ij close -> fst ij < snd ij /\ snd ij < length (simplicesOfOrder r 0)) ->
  vr_build uid r close = (vr, Ok tt) -> copy_new hp (view_of vr) u = (hp1, c, Ok tt) ->
  exists r', flagComplex hp vr u = (hp1, r', Ok tt) /\ vinv r' /\
    (forall p, carried r' [p] <-> In p (simplicesOfOrder r 0)) /\
    (forall B, NoDup B -> 2 <= length B ->
       (carried r' B <-> forall p q, In p B -> In q B -> p <> q -> closepair (simplicesOfOrder r 0) close p q)).
Proof.
  intros Hnd Hcl Hb E0. destruct (vr_build_spec uid r close vr Hnd Hcl Hb) as (Hv & Pts & Eds).
  destruct (flagComplex_is_clique_complex hp vr u hp1 c Hv E0) as (r' & Ef & V' & Iff).
  exists r'. split; [exact Ef|]. split; [exact V'|]. split.
  - intros p. rewrite <- (Pts p). rewrite (point_carried r' p V'), (point_carried vr p Hv).
    destruct (flagComplex_contains_source hp vr u hp1 r' Ef) as (_ & Hsrc & Hnew).
    pose proof (s_p vr (c_s vr (b_c vr (v_b vr Hv)))) as P.
    split.
    + intros (j & A). assert (C' : containsSimplex r' p = true) by (unfold containsSimplex; now rewrite A).
      destruct (Hnew p C') as [Hin|(k & Ok' & Hk)].
      * destruct (Hsrc p Hin) as (_ & O' & _). unfold orderOf in O'. rewrite A in O'. injection O' as O'.
        unfold simplices in Hin. apply in_concat in Hin. destruct Hin as (l & Hl & Hp).
        apply In_nth_error in Hl. destruct Hl as (ko & Hko).
        assert (Ao : exists jo, assoc p (r_simp vr) = Some (ko, jo)).
        { apply In_nth_error in Hp. destruct Hp as (jo & Hjo). exists jo. pose proof P as [K Pm St L].
          assert (Hidx : idxk vr ko = l). { unfold idxk. now rewrite (nth_error_nth _ _ _ Hko). }
          apply Pm. rewrite Hidx. split; [|exact Hjo].
          destruct (Nat.lt_ge_cases ko (r_nord vr)) as [Hl|Hl]; [exact Hl|]. rewrite (St ko Hl) in Hidx. subst l. destruct jo; discriminate. }
        destruct Ao as (jo & Ao). destruct ko as [|ko]; [now exists jo|]. exfalso.
        pose proof (c_f vr (b_c vr (v_b vr Hv)) p ko jo Ao) as Lf. rewrite Lf in O'. discriminate.
      * unfold orderOf in Ok'. rewrite A in Ok'. injection Ok' as <-. lia.
    + intros (j & A). assert (Hin : In p (simplices vr false)).
      { unfold simplices. apply in_concat. exists (idxk vr 0). pose proof P as [K Pm St L]. apply Pm in A. destruct A as [Hl A]. split.
        - unfold idxk. apply nth_In. lia.
        - eapply nth_error_In; eauto. }
      destruct (Hsrc p Hin) as (C' & O' & _). unfold faces in O'. rewrite A in O'. simpl in O'.
      unfold orderOf in O'. destruct (assoc p (r_simp r')) as [[k j']|]; [|discriminate]. injection O' as ->. now exists j'.
  - intros B HB LB. rewrite (Iff B HB LB). unfold clique. split; intros H p q Hp Hq Ne.
    + apply (Eds p q Ne). apply (edge_carried_iff vr p q Hv Ne). now apply H.
    + apply (edge_carried_iff vr p q Hv Ne). apply (Eds p q Ne). now apply H.
Qed.

(* consequences, stated on any two results that satisfy the family equation *)
Definition vr_fam (ss : list name) (close : list (nat * nat)) (r' : rep) : Prop :=
  forall B, NoDup B -> 2 <= length B ->
    (carried r' B <-> forall p q, In p B -> In q B -> p <> q -> closepair ss close p q).

Corollary vr_monotone ss close1 close2 r1 r2 : incl close1 close2 -> vr_fam ss close1 r1 -> vr_fam ss close2 r2 ->
  forall B, NoDup B -> 2 <= length B -> carried r1 B -> carried r2 B.
Proof.
  intros Hi F1 F2 B HB LB H. apply (F2 B HB LB). intros p q Hp Hq Ne.
  destruct (proj1 (F1 B HB LB) H p q Hp Hq Ne) as (ij & Hij & Hin). exists ij. split; [now apply Hi | exact Hin].
Qed.

Corollary vr_no_pairs ss r' : vr_fam ss [] r' -> forall B, NoDup B -> 2 <= length B -> ~ carried r' B.
Proof.
  intros F B HB LB H. destruct B as [|p [|q t]]; simpl in LB; try lia.
  assert (Ne : p <> q). { intros ->. inversion HB as [|? ? Hn _]. apply Hn. now left. }
  destruct (proj1 (F _ HB LB) H p q (or_introl eq_refl) (or_intror (or_introl eq_refl)) Ne) as (ij & [] & _).
Qed.

Corollary vr_all_pairs ss close r' : NoDup ss ->
  (forall i j, i < j -> j < length ss -> In (i, j) close) -> vr_fam ss close r' ->
  forall B, NoDup B -> 2 <= length B -> incl B ss -> carried r' B.
Proof.
  intros Hnd Hall F B HB LB Hi. apply (F B HB LB). intros p q Hp Hq Ne.
  apply Hi in Hp, Hq. apply (In_nth _ _ (NInt 0)) in Hp, Hq. destruct Hp as (i & Hil & <-). destruct Hq as (j & Hjl & <-).
  destruct (Nat.lt_trichotomy i j) as [Hlt|[->|Hgt]]; [|congruence|].
  - exists (i, j). split; [now apply Hall|]. unfold pair_names. simpl. intros z [<-|[<-|[]]]; [now left | right; now left].
  - exists (j, i). split; [now apply Hall|]. unfold pair_names. simpl. intros z [<-|[<-|[]]]; [right; now left | now left].
Qed.
