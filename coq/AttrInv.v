(* AttrInv.v -- the attribute table of a complex: after every history of public operations every simplex
   has exactly one attribute dictionary and nothing else has one (ainv); a completed relabel() hands each
   simplex's dictionary -- the same object -- to its new name (C15), and touches no dictionary's content
   (relabel does not take the heap).  Plain Coq. *)
From Coq Require Import String ZArith Bool Arith List Lia.
From SV Require Import Names NamesFacts ListFacts Rep Fresh Complex Atomic RepInv Reach ReachGen Shapes Incidence AddEffect.
From SV Require Import DelEffect DeleteEffect StarOrder Closed ReachGen2 ClosedReach RelabelProofs RelabelAll RelabelPhi VInv CopyFaithful.
Import ListNotations.
Open Scope nat_scope.

Record ainv (r : rep) : Prop := {
  a_c : cinv r;
  a_nd : NoDup (map fst (r_attr r));
  a_dom : forall s, assoc s (r_attr r) = None <-> containsSimplex r s = false }.

Lemma in_assoc_del_sub {B} s (l : list (name * B)) x : In x (assoc_del s l) -> In x l.
Proof.
  induction l as [|[k v] t IH]; simpl; [tauto|]. destruct (name_eqb s k); [now right|].
  intros [E|Hin]; [now left|right; now apply IH].
Qed.

Lemma ainv_empty uid : ainv (empty_rep uid).
Proof. split; [apply cinv_empty|constructor|]. intros s. unfold containsSimplex. simpl. tauto. Qed.

Lemma ainv_same_obs r r' : same_obs r r' -> ainv r -> ainv r'.
Proof.
  intros Hs [C N D]. split; [eapply cinv_same_obs; eauto| |].
  - destruct Hs as (_ & _ & _ & _ & _ & _ & Ha). now rewrite Ha.
  - intros s. destruct Hs as (_ & _ & Hsimp & _ & _ & _ & Ha). unfold containsSimplex. rewrite Ha, Hsimp. apply D.
Qed.

Theorem addSimplex_ainv r fs id attr r' x : ainv r -> addSimplex r fs id attr = (r', x) -> ainv r'.
Proof.
  intros [C N D] H. destruct x as [n|e].
  2: { apply addSimplex_atomic in H. destruct H as [Hs _]. eapply ainv_same_obs; eauto. split; auto. }
  split; [eapply addSimplex_cinv; eauto| |].
  - pose proof (addSimplex_form r fs id attr r' n H) as F. cbv zeta in F.
    destruct F as (r2 & h & Hs & Hc & _ & _ & _ & _ & _ & _ & Ha & _). rewrite Ha, map_app. simpl.
    destruct Hs as (_ & _ & Hsimp & _ & _ & _ & Ha2). rewrite Ha2.
    apply NoDup_app_snoc; [exact N|]. apply assoc_none_notin. apply D. unfold containsSimplex in *. now rewrite <- Hsimp.
  - destruct (FiltProofs.addSimplex_contains r fs id attr r' n (s_p r (c_s r C)) H) as [Hnew Hall].
    pose proof (addSimplex_form r fs id attr r' n H) as F. cbv zeta in F.
    destruct F as (r2 & h & Hs & _ & _ & _ & _ & _ & _ & _ & Ha & _).
    destruct Hs as (_ & _ & _ & _ & _ & _ & Ha2). intros s. rewrite Ha, Ha2, assoc_app, Hall.
    destruct (name_eqb_spec s n) as [->|Hne].
    + apply D in Hnew. rewrite Hnew. simpl. rewrite name_eqb_refl, orb_true_r. split; discriminate.
    + rewrite orb_false_r. destruct (assoc s (r_attr r)) as [v|] eqn:A.
      * split; [discriminate|]. intros Cs. apply D in Cs. congruence.
      * simpl. rewrite (name_eqb_neq s n) by exact Hne. split; [intros _; now apply D|reflexivity].
Qed.

Theorem relabelSimplex_ainv r s q r' x : ainv r -> relabelSimplex r s q = (r', x) -> ainv r'.
Proof.
  intros [C N D] H. destruct x as [[]|e].
  2: { apply relabelSimplex_atomic in H. destruct H as [-> _]. split; auto. }
  assert (C' : cinv r') by (eapply relabelSimplex_cinv; eauto).
  pose proof H as H0. unfold relabelSimplex in H. destruct (containsSimplex r q) eqn:Cq; [discriminate|].
  destruct (assoc s (r_simp r)) as [[k i]|] eqn:As; [|discriminate]. injection H as <-.
  assert (Aq : assoc q (r_attr r) = None) by (now apply D).
  assert (Cs : containsSimplex r s = true) by (unfold containsSimplex; now rewrite As).
  destruct (assoc s (r_attr r)) as [h|] eqn:Ah.
  2: { apply D in Ah. congruence. }
  assert (Hsq : s <> q) by (intros ->; congruence).
  split; [exact C'| |]; cbn [r_attr r_simp].
  - rewrite map_app. simpl. apply NoDup_app_snoc; [now apply nodup_assoc_del|].
    intros Hin. apply assoc_none_notin in Aq. apply Aq.
    apply in_map_iff in Hin. destruct Hin as ([a b] & <- & Hin). simpl.
    apply in_map_iff. exists (a, b). split; [reflexivity|]. eapply in_assoc_del_sub; eauto.
  - intros t. unfold containsSimplex. cbn [r_simp]. rewrite !assoc_app.
    destruct (name_eqb_spec t s) as [->|Hts].
    + rewrite (assoc_del_same s (r_attr r) N).
      assert (Ns : NoDup (map fst (r_simp r))) by (destruct (s_p r (c_s r C)) as [K Pm St L]; exact K).
      rewrite (assoc_del_same s (r_simp r) Ns). simpl. rewrite (name_eqb_neq s q) by exact Hsq. tauto.
    + rewrite !assoc_del_other by exact Hts. specialize (D t). unfold containsSimplex in D.
      destruct (assoc t (r_attr r)) as [v|], (assoc t (r_simp r)) as [[kt it]|]; simpl;
        try (destruct (name_eqb t q); split; intros; try discriminate; auto; fail).
      * exfalso. assert (Some v = None) by (apply D; reflexivity). discriminate.
      * exfalso. assert (@None handle = None) by reflexivity. apply D in H. discriminate.
Qed.

Theorem forceDelete_ainv r s r' x : ainv r -> cofaces r s = [] -> forceDeleteSimplex r s = (r', x) -> ainv r'.
Proof.
  intros [C N D] Hco H. destruct x as [[]|e].
  2: { apply forceDeleteSimplex_atomic in H. destruct H as [-> _]. split; auto. }
  assert (C' : cinv r') by (eapply forceDelete_cinv; eauto).
  destruct (assoc s (r_simp r)) as [[k i]|] eqn:As.
  2: { unfold forceDeleteSimplex in H. rewrite As in H. discriminate. }
  pose proof (forceDelete_membership r s k i (c_s r C) As) as Hmem. rewrite H in Hmem. simpl in Hmem.
  assert (Ea : r_attr r' = assoc_del s (r_attr r)).
  { unfold forceDeleteSimplex in H. rewrite As in H. destruct (_ && _) in H; injection H as <-; reflexivity. }
  split; [exact C'| |].
  - rewrite Ea. now apply nodup_assoc_del.
  - intros t. rewrite Ea, Hmem. destruct (name_eqb_spec t s) as [->|Hts].
    + rewrite (assoc_del_same s (r_attr r) N), andb_false_r. tauto.
    + rewrite assoc_del_other by exact Hts. rewrite andb_true_r. apply D.
Qed.

Theorem deleteSimplex_ainv r s r' x : ainv r -> deleteSimplex r s = (r', x) -> ainv r'.
Proof.
  intros Hc H. unfold deleteSimplex in H.
  destruct (partOf r s true false) as [L|e] eqn:EP; [|now injection H as <- _].
  assert (Hk : exists k is, assoc s (r_simp r) = Some (k, is)).
  { unfold partOf, orderOf in EP. destruct (assoc s (r_simp r)) as [[k is]|]; [eauto | discriminate]. }
  destruct Hk as (k & is & As).
  assert (HIs : forall r0, ainv r0 -> sinv r0) by (intros r0 Hv; exact (c_s r0 (a_c r0 Hv))).
  destruct (star_positions r (HIs r Hc) s k is L As EP) as (Hnd & Hin & Hpos).
  exact (fold_delete_any ainv HIs forceDelete_ainv L r Hc Hnd Hin Hpos r' x H).
Qed.

(* ---------- every algorithm of base.py, every history of public operations ---------- *)
Local Hint Resolve ainv_same_obs ainv_empty addSimplex_ainv relabelSimplex_ainv deleteSimplex_ainv : ainv.
Ltac inst L := intros; eapply (L ainv); eauto with ainv.

Theorem relabel_ainv r rn r' st x : ainv r -> relabel r rn = (r', st, x) -> ainv r'.
Proof. inst ReachGen2.relabel_I. Qed.

Lemma pstep_ainv r o : ainv r -> ainv (pstep r o).
Proof.
  intros H. destruct o; simpl.
  - destruct (addSimplex r fs id attr) eqn:E. eapply addSimplex_ainv; eauto.
  - destruct (c_addSimplexWithBasis r bs id attr) eqn:E. revert E. inst ReachGen2.addSimplexWithBasis_I.
  - destruct (c_ensureBasis r bs attr) eqn:E. revert E. inst ReachGen2.ensureBasis_I.
  - destruct (addSimplicesFrom hp r src rn) as [[[hp' r'] st] x] eqn:E. revert E. inst ReachGen2.addSimplicesFrom_I.
  - destruct (deleteSimplex r s) eqn:E. eapply deleteSimplex_ainv; eauto.
  - destruct (deleteSimplexWithBasis r bs) eqn:E. revert E. inst ReachGen2.deleteSimplexWithBasis_I.
  - destruct (deleteSimplices r ss) eqn:E. revert E. inst ReachGen2.deleteSimplices_I.
  - destruct (restrictBasisTo r bs) eqn:E. revert E. inst ReachGen2.restrictBasisTo_I.
  - destruct (barycentricSubdivide r s pts) eqn:E. revert E. inst ReachGen2.barycentricSubdivide_I.
  - destruct (relabel r rn) as [[r' st] x] eqn:E. revert E. inst ReachGen2.relabel_I.
  - destruct (relabelSimplex r s q) eqn:E. eapply relabelSimplex_ainv; eauto.
Qed.

Theorem public_history_ainv uid ops : ainv (fold_left pstep ops (empty_rep uid)).
Proof.
  assert (H : forall r, ainv r -> ainv (fold_left pstep ops r)).
  { induction ops as [|o t IH]; intros r Hr; simpl; auto. apply IH. now apply pstep_ainv. }
  apply H. apply ainv_empty.
Qed.

(* ---------- relabel carries each dictionary to the new name ---------- *)
Definition attrs_follow (phi : name -> name) (r r' : rep) : Prop :=
  forall s, containsSimplex r s = true -> assoc (phi s) (r_attr r') = assoc s (r_attr r).

Lemma contains_listed r s : pinv r -> containsSimplex r s = true -> exists k, In s (idxk r k).
Proof.
  intros P Cs. unfold containsSimplex in Cs. destruct (assoc s (r_simp r)) as [[k i]|] eqn:A; [|discriminate].
  destruct P as [K Pm St L]. apply Pm in A. destruct A as [_ A]. exists k. eapply nth_error_In; eauto.
Qed.

Lemma listed_contains r s k : pinv r -> In s (idxk r k) -> containsSimplex r s = true.
Proof.
  intros P Hin. apply In_nth_error in Hin. destruct Hin as (i & Hi). pose proof P as [K Pm St L].
  destruct (Nat.lt_ge_cases k (r_nord r)) as [Hl|Hl].
  - unfold containsSimplex. rewrite (proj2 (Pm s k i) (conj Hl Hi)). reflexivity.
  - rewrite (St k Hl) in Hi. destruct i; discriminate.
Qed.

Lemma relabelSimplex_follow r s q r' : ainv r -> relabelSimplex r s q = (r', Ok tt) -> attrs_follow (ren1 s q) r r'.
Proof.
  intros [C N D] H. unfold relabelSimplex in H. destruct (containsSimplex r q) eqn:Cq; [discriminate|].
  destruct (assoc s (r_simp r)) as [[k i]|] eqn:As; [|discriminate]. injection H as <-.
  assert (Aq : assoc q (r_attr r) = None) by (now apply D).
  assert (Cs : containsSimplex r s = true) by (unfold containsSimplex; now rewrite As).
  destruct (assoc s (r_attr r)) as [h|] eqn:Ah.
  2: { apply D in Ah. congruence. }
  intros t Ct. cbn [r_attr]. unfold ren1. rewrite assoc_app. destruct (name_eqb_spec t s) as [->|Hts].
  - destruct (name_eq_dec q s) as [->|Hqs]; [congruence|].
    rewrite (assoc_del_other q s) by exact Hqs. rewrite Aq. simpl. now rewrite name_eqb_refl, Ah.
  - rewrite assoc_del_other by exact Hts.
    destruct (assoc t (r_attr r)) as [v|] eqn:At; [reflexivity|]. apply D in At. congruence.
Qed.

Lemma relabel_do_follow rn : forall ss r st mapping r' st' x, ainv r ->
  relabel_do r rn st ss mapping = (r', st', x) ->
  exists phi, renamed_by phi r r' /\ attrs_follow phi r r'.
Proof.
  induction ss as [|s t IH]; intros r st mapping r' st' x Hinv H; simpl in H.
  - injection H as <- _ _. exists (fun x => x). split; [apply renamed_refl|]. intros u _. reflexivity.
  - destruct (rl_apply rn st s) as [st1 s'].
    destruct (name_eqb s s'); [eapply IH; eauto|].
    destruct (relabelSimplex r s s') as [r1 [[]|e]] eqn:E.
    + assert (A1 : ainv r1) by (eapply relabelSimplex_ainv; eauto).
      pose proof (s_p r (c_s r (a_c r Hinv))) as P.
      destruct (relabelSimplex_carries r s s' r1 P E) as (Eb & Es & En & Ei & _).
      destruct (IH r1 st1 _ r' st' x A1 H) as (phi & Hphi & Hfol).
      exists (fun y => phi (ren1 s s' y)). split.
      * apply (renamed_trans (ren1 s s') phi r r1 r'); [|exact Hphi]. repeat split; auto.
      * intros u Cu. rewrite Hfol; [now apply (relabelSimplex_follow r s s' r1 Hinv E)|].
        destruct (contains_listed r u P Cu) as (k & Hk).
        apply (listed_contains r1 _ k (s_p r1 (c_s r1 (a_c r1 A1)))). rewrite Ei. now apply in_map.
    + injection H as <- _ _. apply relabelSimplex_atomic in E. destruct E as [-> _].
      exists (fun x => x). split; [apply renamed_refl|]. intros u _. reflexivity.
Qed.

Lemma map_eq_pointwise {A B} (f g : A -> B) l : map f l = map g l -> forall x, In x l -> f x = g x.
Proof. induction l as [|a l IH]; simpl; intros E x Hx; [destruct Hx|]. injection E as E1 E2. destruct Hx as [<-|Hx]; auto. Qed.

(* C15: the dictionary of s is, after a completed relabel, the dictionary of phi(s), for the phi of relabel_phi *)
Theorem relabel_attrs_follow r rn r' st mapping : ainv r -> rn <> RNone -> relabel r rn = (r', st, Ok mapping) ->
  ainv r' /\ forall s, containsSimplex r s = true -> assoc (memo_of st s) (r_attr r') = assoc s (r_attr r).
Proof.
  intros A Hrn H. split; [eapply relabel_ainv; eauto|].
  pose proof (s_p r (c_s r (a_c r A))) as P.
  destruct (relabel_phi r rn r' st mapping P Hrn H) as ((_ & _ & _ & Hidx) & _ & _).
  unfold relabel in H.
  destruct (relabel_check rn rl0 (simplices r false) (simplices r false)) as [st0 [[]|e]]; [|discriminate].
  destruct (relabel_do_follow rn _ r st0 [] r' st (Ok mapping) A H) as (phi & (_ & _ & _ & Hidx') & Hfol).
  intros s Cs. destruct (contains_listed r s P Cs) as (k & Hk).
  assert (E : memo_of st s = phi s).
  { apply (map_eq_pointwise (memo_of st) phi (idxk r k)); [|exact Hk]. now rewrite <- Hidx, <- Hidx'. }
  rewrite E. now apply Hfol.
Qed.
