(* Rep.v -- model of simplicial/simplicialcomplex.py (class ReferenceRepresentation), written
   statement by statement after the code, including the order of checks and mutations.
   Model file: no proofs. *)
From Coq Require Import String ZArith Bool Arith List.
From SV Require Import Names.
Import ListNotations.
Open Scope nat_scope.

(* ---------- numpy 0/1 matrices, column-major ---------- *)
Record mat := mkMat { nrows : nat; mcols : list (list bool) }.
Definition zeros (r c : nat) : mat := mkMat r (repeat (repeat false r) c).   (* numpy.zeros([r, c]) *)
Definition app_col (m : mat) (col : list bool) : mat := mkMat (nrows m) (mcols m ++ [col]).   (* numpy.c_ *)
Definition app_zero_row (m : mat) : mat :=                                                     (* numpy.r_ *)
  mkMat (S (nrows m)) (map (fun c => c ++ [false]) (mcols m)).
Definition del_col (i : nat) (m : mat) : mat := mkMat (nrows m) (remove_nth i (mcols m)).      (* delete axis=1 *)
Definition del_row (i : nat) (m : mat) : mat := mkMat (pred (nrows m)) (map (remove_nth i) (mcols m)).
Definition getcol (j : nat) (m : mat) : list bool := nth j (mcols m) [].
Definition getrow (i : nat) (m : mat) : list bool := map (fun c => nth i c false) (mcols m).
Definition emptymat : mat := mkMat 0 [].
Definition ncols (m : mat) : nat := length (mcols m).

(* ---------- exceptions and results ---------- *)
Inductive exn := KeyError | ValueError | TypeError | IndexError | PlainException | OutOfFuel.
Inductive res (A : Type) := Ok (a : A) | Raise (e : exn).
Arguments Ok {A}. Arguments Raise {A}.

(* attribute dictionaries are heap objects; a handle is (owner uid, local counter) *)
Definition handle := (nat * nat)%type.
Definition handle_eqb (a b : handle) : bool := (fst a =? fst b) && (snd a =? snd b).

(* the seven fields of ReferenceRepresentation (+ the allocator of dict handles);
   r_nord = _maxOrder + 1 *)
Record rep := mkRep {
  r_uid : nat;
  r_nord : nat;                          (* _maxOrder + 1 *)
  r_simp : list (name * (nat * nat));    (* _simplices : name -> (order, index) *)
  r_idx : list (list name);              (* _indices *)
  r_bnd : list mat;                      (* _boundaries *)
  r_bas : list mat;                      (* _bases *)
  r_attr : list (name * handle);         (* _attributes *)
  r_seq : nat;                           (* _sequence *)
  r_nalloc : nat }.
Definition empty_rep (uid : nat) : rep := mkRep uid 0 [] [] [] [] [] 0 0.
Definition idxk (r : rep) (k : nat) : list name := nth k (r_idx r) [].
Definition bndk (r : rep) (k : nat) : mat := nth k (r_bnd r) emptymat.
Definition bask (r : rep) (k : nat) : mat := nth k (r_bas r) emptymat.
Definition maxOrder (r : rep) : Z := (Z.of_nat (r_nord r) - 1)%Z.

Definition set_seq (r : rep) (s : nat) : rep :=
  mkRep (r_uid r) (r_nord r) (r_simp r) (r_idx r) (r_bnd r) (r_bas r) (r_attr r) s (r_nalloc r).
(* attr = dict() : a fresh, empty dictionary object *)
Definition alloc (r : rep) : rep * handle :=
  (mkRep (r_uid r) (r_nord r) (r_simp r) (r_idx r) (r_bnd r) (r_bas r) (r_attr r) (r_seq r) (S (r_nalloc r)),
   (r_uid r, r_nalloc r)).

(* ---------- newSimplex: while True search, with fuel |simplices| + 1 ---------- *)
Fixpoint find_fresh (fuel i d : nat) (simp : list (name * (nat * nat))) : option (nat * name) :=
  match fuel with
  | 0 => None
  | S f =>
      let id := auto d i in
      match assoc id simp with
      | Some _ => find_fresh f (S i) d simp
      | None => Some (i, id)
      end
  end.
Definition newSimplex (r : rep) (d : nat) : rep * res name :=
  match find_fresh (S (length (r_simp r))) (r_seq r) d (r_simp r) with
  | Some (i, id) => (set_seq r (S i), Ok id)
  | None => (r, Raise OutOfFuel)
  end.

(* ---------- read-only interface ---------- *)
Definition containsSimplex (r : rep) (s : name) : bool :=
  match assoc s (r_simp r) with Some _ => true | None => false end.
Definition orderOf (r : rep) (s : name) : res nat :=
  match assoc s (r_simp r) with Some (k, _) => Ok k | None => Raise KeyError end.
Definition indexOf (r : rep) (s : name) : res nat :=
  match assoc s (r_simp r) with Some (_, i) => Ok i | None => Raise KeyError end.
Definition names_of_col (names : list name) (c : list bool) : list name :=
  map fst (filter (fun p => snd p) (combine names c)).
Definition basisOf (r : rep) (s : name) : list name :=
  match assoc s (r_simp r) with
  | Some (k, si) => names_of_col (idxk r 0) (getcol si (bask r k))
  | None => []
  end.
Definition faces (r : rep) (s : name) : list name :=
  match assoc s (r_simp r) with
  | Some (0, _) => []
  | Some (S k', i) => names_of_col (idxk r k') (getcol i (bndk r (S k')))
  | None => []
  end.
Definition cofaces (r : rep) (s : name) : list name :=
  match assoc s (r_simp r) with
  | Some (k, i) =>
      if S k =? r_nord r then [] else names_of_col (idxk r (S k)) (getrow i (bndk r (S k)))
  | None => []
  end.
Definition simplicesOfOrder (r : rep) (k : nat) : list name :=
  if k <? r_nord r then idxk r k else [].
Definition simplices (r : rep) (reverse : bool) : list name :=
  if reverse then concat (rev (r_idx r)) else concat (r_idx r).
Definition getAttributes (r : rep) (s : name) : res handle :=
  match assoc s (r_attr r) with Some h => Ok h | None => Raise KeyError end.
Definition boundaryOperator (r : rep) (k : nat) : mat :=
  if k =? 0 then zeros 1 (length (simplicesOfOrder r 0))
  else if r_nord r <=? k then emptymat
  else bndk r k.

(* SimplicialComplex.simplexWithFaces, as called from addSimplex through self._complex
   (faces already validated there) *)
Fixpoint all_orders (r : rep) (fs : list name) : res (list nat) :=
  match fs with
  | [] => Ok []
  | f :: t =>
      match orderOf r f with
      | Raise e => Raise e
      | Ok k => match all_orders r t with Raise e => Raise e | Ok l => Ok (k :: l) end
      end
  end.
Definition simplexWithFaces (r : rep) (fs : list name) : res (option name) :=
  let k := length fs - 1 in
  if length fs <=? 1 then Raise PlainException else
  match all_orders r fs with
  | Raise e => Raise e
  | Ok os =>
      if forallb (fun o => o =? k - 1) os then
        Ok (last (map Some (filter (fun s => seteq (faces r s) fs) (simplicesOfOrder r k))) None)
      else Raise ValueError
  end.

Definition mark (names : list name) (sel : list name) : list bool := map (fun n => memn n sel) names.

(* the face validation loop (repeated: once before any structure changes, once while the
   boundary column is built) *)
Fixpoint check_faces (r : rep) (k : nat) (fs : list name) : res unit :=
  match fs with
  | [] => Ok tt
  | f :: t =>
      match assoc f (r_simp r) with
      | None => Raise KeyError
      | Some (fo, _) => if S fo =? k then check_faces r k t else Raise ValueError
      end
  end.

Definition set_struct (r : rep) nord idx bnd bas : rep :=
  mkRep (r_uid r) nord (r_simp r) idx bnd bas (r_attr r) (r_seq r) (r_nalloc r).

(* ---------- addSimplex ---------- *)
Definition addSimplex (r : rep) (fs : list name) (id : option name) (attr : option handle)
  : rep * res name :=
  let k := length fs - 1 in
  if (k =? 0) && negb (length fs =? 0) then (r, Raise ValueError) else
  match (match id with
         | None => newSimplex r k
         | Some n => if containsSimplex r n then (r, Raise KeyError) else (r, Ok n)
         end) with
  | (r, Raise e) => (r, Raise e)
  | (r, Ok id) =>
  let '(r, h) := match attr with Some h => (r, h) | None => alloc r end in
  if negb (nodupb fs) then (r, Raise KeyError) else
  match check_faces r k fs with
  | Raise e => (r, Raise e)
  | Ok _ =>
  match (if r_nord r <=? k then
           if r_nord r <? k then (r, Raise ValueError)
           else
             let idx' := r_idx r ++ [[]] in
             let prev := match k with 0 => last idx' [] | S k' => nth k' idx' [] end in
             (set_struct r (S k) idx'
                         (r_bnd r ++ [zeros (length prev) 0])
                         (r_bas r ++ [zeros (length (nth 0 idx' [])) 0]), Ok tt)
         else if 0 <? k then
           match simplexWithFaces r fs with
           | Raise e => (r, Raise e)
           | Ok (Some _) => (r, Raise KeyError)
           | Ok None => (r, Ok tt)
           end
         else (r, Ok tt)) with
  | (r, Raise e) => (r, Raise e)
  | (r, Ok _) =>
  let r := if S k <? r_nord r
           then set_struct r (r_nord r) (r_idx r) (upd_nth (S k) app_zero_row emptymat (r_bnd r)) (r_bas r)
           else r in
  match k with
  | 0 =>
      let idx' := upd_nth 0 (fun l => l ++ [id]) [] (r_idx r) in
      let si := length (nth 0 idx' []) - 1 in
      let bas1 := if 1 <? r_nord r
                  then map (fun p => if (0 <? fst p) && (fst p <? r_nord r)
                                     then app_zero_row (snd p) else snd p)
                           (combine (seq 0 (length (r_bas r))) (r_bas r))
                  else r_bas r in
      let b0 := nth 0 bas1 emptymat in
      let b0' := if nrows b0 =? 0 then mkMat 1 [[true]]
                 else mkMat (S (nrows b0))
                            (map (fun c => c ++ [false]) (mcols b0) ++ [repeat false si ++ [true]]) in
      (mkRep (r_uid r) (r_nord r) (r_simp r ++ [(id, (0, si))]) idx' (r_bnd r)
             (set_nth 0 b0' bas1) (r_attr r ++ [(id, h)]) (r_seq r) (r_nalloc r), Ok id)
  | S k' =>
      let bs := flat_map (basisOf r) fs in
      let idx' := upd_nth k (fun l => l ++ [id]) [] (r_idx r) in
      let si := length (nth k idx' []) - 1 in
      (mkRep (r_uid r) (r_nord r) (r_simp r ++ [(id, (k, si))]) idx'
             (upd_nth k (fun m => app_col m (mark (idxk r k') fs)) emptymat (r_bnd r))
             (upd_nth k (fun m => app_col m (mark (idxk r 0) bs)) emptymat (r_bas r))
             (r_attr r ++ [(id, h)]) (r_seq r) (r_nalloc r), Ok id)
  end end end end.

(* ---------- relabelSimplex ---------- *)
Definition relabelSimplex (r : rep) (s q : name) : rep * res unit :=
  if containsSimplex r q then (r, Raise ValueError) else
  match assoc s (r_simp r) with
  | None => (r, Raise KeyError)
  | Some (k, i) =>
      let simp' := assoc_del s (r_simp r) ++ [(q, (k, i))] in
      let idx' := upd_nth k (set_nth i q) [] (r_idx r) in
      let attr' := match assoc s (r_attr r) with
                   | Some h => assoc_del s (r_attr r) ++ [(q, h)]
                   | None => r_attr r
                   end in
      (mkRep (r_uid r) (r_nord r) simp' idx' (r_bnd r) (r_bas r) attr' (r_seq r) (r_nalloc r), Ok tt)
  end.

(* ---------- forceDeleteSimplex ---------- *)
Fixpoint renumber (k j : nat) (ss : list name) (simp : list (name * (nat * nat))) :=
  match ss with
  | [] => simp
  | s :: t => renumber k (S j) t (assoc_set s (k, j) simp)
  end.

Definition forceDeleteSimplex (r : rep) (s : name) : rep * res unit :=
  match assoc s (r_simp r) with
  | None => (r, Raise KeyError)
  | Some (k, i) =>
      let bas1 := upd_nth k (del_col i) emptymat (r_bas r) in
      let bas2 := if k =? 0 then map (del_row i) bas1 else bas1 in
      let bnd1 := if 0 <? k then upd_nth k (del_col i) emptymat (r_bnd r) else r_bnd r in
      let bnd2 := if S k <? r_nord r then upd_nth (S k) (del_row i) emptymat bnd1 else bnd1 in
      let attr' := assoc_del s (r_attr r) in
      let simp1 := assoc_del s (r_simp r) in
      let idx' := upd_nth k (remove_nth i) [] (r_idx r) in
      let ss := nth k idx' [] in
      let simp2 := renumber k i (skipn i ss) simp1 in
      if (S k =? r_nord r) && (length ss =? 0) then
        (mkRep (r_uid r) k simp2 idx' (remove_nth k bnd2) (remove_nth k bas2) attr'
               (r_seq r) (r_nalloc r), Ok tt)
      else
        (mkRep (r_uid r) (r_nord r) simp2 idx' bnd2 bas2 attr' (r_seq r) (r_nalloc r), Ok tt)
  end.

(* setAttributes : c[s] = d *)
Definition setAttributes (r : rep) (s : name) (h : handle) : rep :=
  mkRep (r_uid r) (r_nord r) (r_simp r) (r_idx r) (r_bnd r) (r_bas r) (assoc_set s h (r_attr r))
        (r_seq r) (r_nalloc r).
