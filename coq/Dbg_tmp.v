(* Incidence.v -- faces, cofaces and the boundary matrices tell one story (C03), for every
   representation satisfying the shape invariant, i.e. at every point of every history:
   t is a face of s  <->  the boundary matrix of s's order has a 1 in (row of t, column of s)
                     <->  s is a coface of t.   Plain Coq. *)
From Coq Require Import String ZArith Bool Arith List Lia.
From SV Require Import Names NamesFacts ListFacts Rep Complex Atomic RepInv Shapes.
Import ListNotations.
Open Scope nat_scope.

Lemma In_names_of_col names c x :
  In x (names_of_col names c) <-> exists i, nth_error names i = Some x /\ nth_error c i = Some true.
Proof.
  unfold names_of_col. revert c. induction names as [|n t IH]; intros c.
  - simpl. split; [tauto|]. intros (i & H & _). destruct i; discriminate.
  - destruct c as [|b c].
    + simpl. split; [tauto|]. intros (i & _ & H). destruct i; discriminate.
    + simpl. destruct b; simpl.
      * split.
        -- intros [<-|H]; [exists 0; auto|]. apply IH in H. destruct H as (i & H1 & H2). exists (S i). auto.
        -- intros ([|i] & H1 & H2); simpl in *; [left; congruence|]. right. apply IH. eauto.
      * split.
        -- intros H. apply IH in H. destruct H as (i & H1 & H2). exists (S i). auto.
        -- intros ([|i] & H1 & H2); simpl in *; [discriminate|]. apply IH. eauto.
Qed.

(* the entry of a matrix, by column then row *)
Definition mentry (m : mat) (i j : nat) : bool := nth i (nth j (mcols m) []) false.

Lemma nth_error_getcol m i j nr nc : dims m nr nc -> i < nr -> j < nc ->
  nth_error (getcol j m) i = Some (mentry m i j).
Proof.
  intros (Hok & Hr & Hc) Hi Hj. unfold getcol, mentry. apply List.nth_error_nth'.
  unfold mat_ok in Hok. rewrite Forall_forall in Hok. rewrite (Hok (nth j (mcols m) [])); [lia|].
  apply nth_In. unfold ncols in Hc. lia.
Qed.

Lemma nth_error_getrow m i j nr nc : dims m nr nc -> j < nc ->
  nth_error (getrow i m) j = Some (mentry m i j).
Proof.
  intros (Hok & Hr & Hc) Hj. unfold getrow, mentry, ncols in *.
  rewrite nth_error_map. rewrite (List.nth_error_nth' (mcols m) []) by lia. reflexivity.
Qed.

Lemma getcol_short m i j nr nc : dims m nr nc -> nr <= i -> nth_error (getcol j m) i <> Some true.
Proof.
  intros (Hok & Hr & Hc) Hi H. unfold getcol in H.
  destruct (Nat.ltb_spec j (length (mcols m))) as [Hj|Hj].
  - unfold mat_ok in Hok. rewrite Forall_forall in Hok.
    assert (Hl : length (nth j (mcols m) []) = nrows m) by (apply Hok, nth_In; exact Hj).
    assert (i < length (nth j (mcols m) [])) by (apply nth_error_Some; congruence). lia.
  - rewrite nth_overflow in H by lia. destruct i; discriminate.
Qed.

Section Incidence.
  Variable r : rep.
  Hypothesis Hinv : sinv r.
  Let P := s_p r Hinv.

  (* positions are unique within a listing *)
  Lemma pos_unique k i i' x : k < r_nord r -> nth_error (idxk r k) i = Some x -> nth_error (idxk r k) i' = Some x -> i = i'.
  Proof.
    intros Hk H H'. destruct P as [K Pm St L].
    assert (A1 : assoc x (r_simp r) = Some (k, i)) by (apply Pm; auto).
    assert (A2 : assoc x (r_simp r) = Some (k, i')) by (apply Pm; auto). congruence.
  Qed.

  (* t (at row i of order k') is a face of s (at column j of order S k') iff the matrix says so *)
  Theorem face_iff_entry s t k' i j :
    assoc s (r_simp r) = Some (S k', j) -> assoc t (r_simp r) = Some (k', i) ->
    (In t (faces r s) <-> mentry (bndk r (S k')) i j = true).
  Proof.
    intros As At. destruct P as [K Pm St L]. pose proof Hinv as [_ Lb Ls Sh].
    destruct (proj1 (Pm s (S k') j) As) as [Hk Hj]. destruct (proj1 (Pm t k' i) At) as [Hk' Hi].
    destruct (Sh (S k') Hk) as [_ Hd]. specialize (Hd ltac:(lia)). replace (S k' - 1) with k' in Hd by lia.
    assert (Hjl : j < length (idxk r (S k'))) by (apply nth_error_Some; congruence).
    assert (Hil : i < length (idxk r k')) by (apply nth_error_Some; congruence).
    unfold faces. rewrite As. rewrite In_names_of_col. split.
    - intros (i' & H1 & H2). assert (i' = i) by (eapply pos_unique; eauto). subst i'.
      rewrite (nth_error_getcol _ _ _ _ _ Hd Hil Hjl) in H2. congruence.
    - intros H. exists i. split; [exact Hi|]. rewrite (nth_error_getcol _ _ _ _ _ Hd Hil Hjl). now rewrite H.
  Qed.

  Theorem coface_iff_entry s t k' i j :
    assoc s (r_simp r) = Some (S k', j) -> assoc t (r_simp r) = Some (k', i) ->
    (In s (cofaces r t) <-> mentry (bndk r (S k')) i j = true).
  Proof.
    intros As At. destruct P as [K Pm St L]. pose proof Hinv as [_ Lb Ls Sh].
    destruct (proj1 (Pm s (S k') j) As) as [Hk Hj]. destruct (proj1 (Pm t k' i) At) as [Hk' Hi].
    destruct (Sh (S k') Hk) as [_ Hd]. specialize (Hd ltac:(lia)). replace (S k' - 1) with k' in Hd by lia.
    assert (Hjl : j < length (idxk r (S k'))) by (apply nth_error_Some; congruence).
    unfold cofaces. rewrite At. replace (S k' =? r_nord r) with false by (symmetry; apply Nat.eqb_neq; lia).
    rewrite In_names_of_col. split.
Show.
Abort.
