(* GenSets.v -- k_simplex / k_void in vertex sets, and the frame clause of the point generator. *)
From Coq Require Import String ZArith Bool Arith List Lia.
From SV Require Import Names NamesFacts ListFacts Rep Fresh Complex Homology Atomic RepInv Reach Shapes Incidence AddEffect
                       Closed ClosedReach AddBasis BasisInv Duality DeleteEffect CopyFaithful VInv AwbSpec Gen.
From SV Require Import VSets.
Import ListNotations.
Open Scope nat_scope.

Lemma add_point_spec r id attr r1 p : vinv r -> addSimplex r [] id attr = (r1, Ok p) ->
  vinv r1 /\ containsSimplex r p = false /\ containsSimplex r1 p = true /\ basisOf r1 p = [p] /\ grows [p] r r1.
Proof.
  intros Hv E. pose proof (c_s r (b_c r (v_b r Hv))) as HS.
  assert (Hv1 : vinv r1) by (eapply addSimplex_vinv; [exact Hv | now left | exact E]).
  destruct (addSimplex_effect r [] id attr r1 p HS E) as (Hn & _ & Ho & _ & Hold & Hall).
  assert (Hb1 : basisOf r1 p = [p]).
  { unfold orderOf in Ho. destruct (assoc p (r_simp r1)) as [[kb ib]|] eqn:Ab; [|discriminate]. injection Ho as ->.
    destruct (b_b r1 (v_b r1 Hv1) p 0 ib Ab) as [B0 _]. now apply B0. }
  split; [exact Hv1|]. split; [exact Hn|]. split; [rewrite Hall, name_eqb_refl; apply orb_true_r|]. split; [exact Hb1|].
  constructor.
  - intros t0 Ht0. destruct (Hold t0 Ht0) as (O & _ & F & B). split; [rewrite Hall, Ht0; reflexivity | auto].
  - intros t0 Ht0. rewrite Hall in Ht0. apply orb_prop in Ht0. destruct Ht0 as [Ht0|Ht0]; [now left|].
    apply name_eqb_eq in Ht0. subst t0. right. rewrite Hb1. intros x Hx. exact Hx.
Qed.

Lemma grows_mono bs1 bs2 r r' : grows bs1 r r' -> incl bs1 bs2 -> grows bs2 r r'.
Proof.
  intros [O N] Hi. constructor; [exact O|]. intros t Ht. destruct (N t Ht) as [H|H]; [now left|].
  right. intros x Hx. apply Hi, H, Hx.
Qed.

(* n calls of addSimplex(): n new points, none of which was there, nothing else touched *)
Lemma add_points_spec : forall n r acc r' ss, vinv r -> add_points n r acc = (r', Ok ss) ->
  exists new, ss = acc ++ new /\ length new = n /\ NoDup new /\
    (forall p, In p new -> containsSimplex r p = false /\ containsSimplex r' p = true /\ basisOf r' p = [p]) /\
    vinv r' /\ grows new r r'.
Proof.
  induction n as [|n IH]; intros r acc r' ss Hv H; simpl in H.
  - injection H as <- <-. exists []. rewrite app_nil_r. split; [reflexivity|]. split; [reflexivity|].
    split; [constructor|]. split; [intros p []|]. split; [exact Hv|apply grows_refl].
  - destruct (addSimplex r [] None None) as [r1 [p|e]] eqn:E; simpl in H; [|discriminate].
    destruct (add_point_spec r None None r1 p Hv E) as (Hv1 & Hn & Hc1 & Hb1 & Hg1).
    destruct (IH r1 (acc ++ [p]) r' ss Hv1 H) as (new & -> & Hl & Hnd & Hnew & Hv' & Hg).
    exists (p :: new). rewrite <- app_assoc. split; [reflexivity|]. split; [simpl; lia|].
    assert (Hpn : ~ In p new) by (intros Hp; destruct (Hnew p Hp) as (C & _); congruence).
    split; [constructor; auto|]. split; [|split; [exact Hv'|]].
    + intros q [<-|Hq].
      * split; [exact Hn|]. destruct (g_old _ _ _ Hg p Hc1) as (C & _ & _ & B). split; [exact C|]. now rewrite B.
      * destruct (Hnew q Hq) as (C1 & C' & B'). split; [|auto].
        destruct (containsSimplex r q) eqn:Cq; auto. destruct (g_old _ _ _ Hg1 q Cq) as (C & _). congruence.
    + apply (grows_trans _ r r1 r').
      * apply (grows_mono [p]); auto. intros x [<-|[]]. now left.
      * apply (grows_mono new); auto. intros x Hx. now right.
Qed.

(* k_simplex(k), k >= 1, on a complex that meets the vertex-set reading: k+1 new points, and the sets of
   points that carry a simplex afterwards are those that did before and the non-empty subsets of the
   new points; nothing that was there changes *)
Theorem k_simplex_vertex_sets k id attr r r' : vinv r -> 1 <= k -> k_simplex k id attr r = (r', Ok tt) ->
  exists new, length new = S k /\ NoDup new /\ (forall p, In p new -> containsSimplex r p = false) /\
    vinv r' /\
    (forall t, containsSimplex r t = true ->
       containsSimplex r' t = true /\ orderOf r' t = orderOf r t /\ faces r' t = faces r t /\ basisOf r' t = basisOf r t) /\
    (forall B, NoDup B -> B <> [] ->
       ((exists t, containsSimplex r' t = true /\ sameset (basisOf r' t) B) <->
        (exists t, containsSimplex r t = true /\ sameset (basisOf r t) B) \/ incl B new)).
Proof.
  intros Hv Hk H. destruct k as [|k]; [lia|]. unfold k_simplex in H.
  destruct (add_points (S (S k)) r []) as [r1 [ss|e]] eqn:E1; simpl in H; [|discriminate].
  destruct (add_points_spec _ r [] r1 ss Hv E1) as (new & -> & Hl & Hnd & Hnew & Hv1 & Hg1). simpl in H.
  destruct (c_addSimplexWithBasis r1 new id attr) as [r2 [n|e]] eqn:E2; simpl in H; [|discriminate].
  injection H as <-.
  assert (Hl2 : 2 <= length new) by lia.
  destruct (addSimplexWithBasis_spec r1 new id attr r2 n Hv1 Hnd Hl2 E2) as (Hv2 & Hc & Hs & Hg2).
  exists new. split; [exact Hl|]. split; [exact Hnd|]. split; [intros p Hp; now destruct (Hnew p Hp)|].
  split; [exact Hv2|]. pose proof (grows_trans new r r1 r2 Hg1 Hg2) as Hg. split; [exact (g_old _ _ _ Hg)|].
  intros B NdB Hne. rewrite (add_by_basis_vertex_sets r1 new id attr r2 n Hv1 Hnd Hl2 E2 B NdB Hne). split.
  - intros [(t & Ht & Hst)|Hi]; [|now right]. destruct (containsSimplex r t) eqn:C.
    + left. exists t. split; auto. destruct (g_old _ _ _ Hg1 t C) as (_ & _ & _ & Bt). now rewrite <- Bt.
    + right. destruct (g_new _ _ _ Hg1 t Ht) as [C'|Hi]; [congruence|]. intros z Hz. apply Hi. now apply Hst.
  - intros [(t & Ht & Hst)|Hi]; [|now right]. left. exists t. destruct (g_old _ _ _ Hg1 t Ht) as (C & _ & _ & Bt).
    split; auto. now rewrite Bt.
Qed.

(* k_void(k): the same without the top simplex *)
Theorem k_void_vertex_sets k r r' : vinv r -> k_void k r = (r', Ok tt) ->
  exists new, length new = S (S k) /\ NoDup new /\ (forall p, In p new -> containsSimplex r p = false) /\
    vinv r' /\
    (forall t, containsSimplex r t = true -> containsSimplex r' t = true /\ sameset (basisOf r' t) (basisOf r t)) /\
    (forall B, NoDup B -> B <> [] ->
       ((exists t, containsSimplex r' t = true /\ sameset (basisOf r' t) B) <->
        (exists t, containsSimplex r t = true /\ sameset (basisOf r t) B) \/ (incl B new /\ ~ incl new B))).
Proof.
  intros Hv H. unfold k_void in H.
  destruct (k_simplex (S k) None None r) as [r1 [[]|e]] eqn:E1; simpl in H; [|discriminate].
  destruct (k_simplex_vertex_sets (S k) None None r r1 Hv (le_n_S _ _ (Nat.le_0_l k)) E1)
    as (new & Hl & Hnd & Hfresh & Hv1 & Hold & Hsets).
  pose proof (s_p r (c_s r (b_c r (v_b r Hv)))) as P. pose proof (s_p r1 (c_s r1 (b_c r1 (v_b r1 Hv1)))) as P1.
  destruct (filter (fun s => negb (memn s (simplicesOfOrder r (S k)))) (simplicesOfOrder r1 (S k))) as [|s l] eqn:EF; [discriminate|].
  assert (Hs : In s (s :: l)) by now left. rewrite <- EF in Hs. apply filter_In in Hs. destruct Hs as [Hs1 Hs2].
  apply negb_true_iff in Hs2. apply memn_false in Hs2.
  (* s is a simplex of order k+1 of r1 that r does not have *)
  assert (As1 : exists j, assoc s (r_simp r1) = Some (S k, j)).
  { unfold simplicesOfOrder in Hs1. destruct (S k <? r_nord r1) eqn:Lt; [|destruct Hs1]. apply Nat.ltb_lt in Lt.
    apply In_nth_error in Hs1. destruct Hs1 as (j & Hj). exists j. destruct P1 as [K Pm St L]. apply Pm. auto. }
  destruct As1 as (j & As1).
  assert (Cs1 : containsSimplex r1 s = true) by (apply (contains_assoc r1); eauto).
  assert (Cs0 : containsSimplex r s = false).
  { destruct (containsSimplex r s) eqn:C; auto. exfalso. apply Hs2.
    destruct (Hold s C) as (_ & Ho & _). unfold orderOf in Ho. rewrite As1 in Ho.
    destruct (assoc s (r_simp r)) as [[k0 j0]|] eqn:As0; [|discriminate]. injection Ho as <-.
    destruct P as [K Pm St L]. apply Pm in As0. destruct As0 as [Lt Hj0]. unfold simplicesOfOrder.
    apply Nat.ltb_lt in Lt. rewrite Lt. eapply nth_error_In; eauto. }
  (* so its points are exactly the new ones *)
  assert (Bs : sameset (basisOf r1 s) new).
  { assert (Hi : incl (basisOf r1 s) new).
    { destruct (proj1 (Hsets (basisOf r1 s) (basis_nodup r1 s P1)
                        ltac:(intros E0; pose proof (v_card r1 Hv1 s (S k) j As1) as L0; rewrite E0 in L0; discriminate))) as [(t & Ct & St)|Hi]; auto.
      - exists s. split; auto. intros z; reflexivity.
      - exfalso. destruct (Hold t Ct) as (Ct1 & _ & _ & Bt).
        assert (t = s); [|subst; congruence]. apply (v_uniq r1 Hv1); auto. intros z. rewrite Bt. apply St. }
    intros z. split; [apply Hi|]. apply NoDup_length_incl; auto. apply basis_nodup; exact P1.
    rewrite (v_card r1 Hv1 s (S k) j As1). lia. }
  destruct (deleteSimplex_vertex_sets r1 s r' (Ok tt) Hv1 Cs1 H) as (_ & Hv' & Hm & Hb).
  (* an old simplex has no new point *)
  assert (Oldnew : forall t, containsSimplex r t = true -> forall p, In p (basisOf r t) -> ~ In p new).
  { intros t Ct p Hp Hn. apply (contains_assoc r) in Ct. destruct Ct as (kt & jt & At).
    destruct (a_basis_point r Hv t kt jt p At Hp) as (i & Ap).
    assert (containsSimplex r p = true) by (apply (contains_assoc r); eauto). rewrite (Hfresh p Hn) in *. discriminate. }
  exists new. split; [exact Hl|]. split; [exact Hnd|]. split; [exact Hfresh|]. split; [exact Hv'|]. split.
  - intros t Ct. destruct (Hold t Ct) as (Ct1 & _ & _ & Bt).
    assert (Ct' : containsSimplex r' t = true).
    { apply Hm. split; auto. intros Hi. destruct new as [|p0 new0]; [discriminate|].
      apply (Oldnew t Ct p0); [|now left]. rewrite <- Bt. apply Hi. apply Bs. now left. }
    split; auto. intros z. rewrite <- Bt. now apply Hb.
  - intros B NdB Hne. split.
    + intros (t & Ct' & St). pose proof (proj1 (Hm t) Ct') as [Ct1 Hns].
      assert (St1 : sameset (basisOf r1 t) B) by (intros z; rewrite <- (St z); symmetry; now apply Hb).
      destruct (proj1 (Hsets B NdB Hne) (ex_intro _ t (conj Ct1 St1))) as [Ho|Hi]; [now left|].
      right. split; auto. intros Hn. apply Hns. intros z Hz. apply St1. apply Hn. now apply Bs.
    + intros [(t & Ct & St)|[Hi Hn]].
      * destruct (Hold t Ct) as (Ct1 & _ & _ & Bt). exists t.
        assert (Ct' : containsSimplex r' t = true).
        { apply Hm. split; auto. intros Hi. destruct new as [|p0 new0]; [discriminate|].
          apply (Oldnew t Ct p0); [|now left]. rewrite <- Bt. apply Hi. apply Bs. now left. }
        split; auto. intros z. rewrite (Hb t Ct' z), Bt. apply St.
      * destruct (proj2 (Hsets B NdB Hne) (or_intror Hi)) as (t & Ct1 & St1). exists t.
        assert (Ct' : containsSimplex r' t = true).
        { apply Hm. split; auto. intros Hc. apply Hn. intros z Hz. apply St1. apply Hc. now apply Bs. }
        split; auto. intros z. rewrite (Hb t Ct' z). apply St1.
Qed.
