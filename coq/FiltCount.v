(* FiltCount.v -- Filtration.numberOfSimplices() (which walks indices() and adds up the sizes of the
   _includes entries up to the current index) is the number of simplices the filtration lists at
   its current index, for every filtration that satisfies the bookkeeping invariant -- every
   filtration history (FiltBook). *)
From Coq Require Import String ZArith Bool Arith List Lia Sorted Permutation.
From SV Require Import Names NamesFacts Rep RepInv Complex Homology Filtration FiltProofs FiltClosed Shapes
  CopyFaithful FiltBook.
Import ListNotations.
Open Scope nat_scope.

Lemma zinsert_perm i l : Permutation (zinsert i l) (i :: l).
Proof.
  induction l as [|h t IH]; simpl; [apply Permutation_refl|].
  destruct (i <=? h)%Z; [apply Permutation_refl|].
  eapply perm_trans; [apply perm_skip; exact IH|apply perm_swap].
Qed.

Lemma zsort_perm l : Permutation (zsort l) l.
Proof.
  induction l as [|h t IH]; simpl; [constructor|].
  eapply perm_trans; [apply zinsert_perm|]. now apply perm_skip.
Qed.

Lemma sum_perm l1 l2 : Permutation l1 l2 -> fold_right Nat.add 0 l1 = fold_right Nat.add 0 l2.
Proof. induction 1; simpl; lia. Qed.

Lemma zassoc_of_in {B} i (v : B) l : NoDup (map fst l) -> In (i, v) l -> zassoc i l = Some v.
Proof.
  induction l as [|[k w] t IH]; simpl; intros Hnd Hin; [destruct Hin|].
  inversion Hnd as [|a b Hn Hd]; subst. destruct Hin as [[= -> ->]|Hin].
  - now rewrite Z.eqb_refl.
  - destruct (Z.eqb_spec i k) as [->|Hne]; [|now apply IH].
    exfalso. apply Hn. apply in_map_iff. exists (k, v). auto.
Qed.

Lemma zassoc_some_in {B} i (v : B) l : zassoc i l = Some v -> In (i, v) l.
Proof.
  induction l as [|[k w] t IH]; simpl; [discriminate|].
  destruct (Z.eqb_spec i k) as [->|Hne]; [intros [= ->]; now left|]. intros H. right. now apply IH.
Qed.

Section Count.
  Variable f : filt.
  Hypothesis Hm : minv f.
  Hypothesis Hb : binv f.

  Definition blk (p : idx * list name) : list name :=
    if (fst p <=? f_index f)%Z then snd p else [].
  Definition visible_by_tables : list name := flat_map blk (f_includes f).

  Lemma count_by_keys inc0 inc : (forall i l, In (i, l) inc -> zassoc i inc0 = Some l) ->
    map (fun i => if (i <=? f_index f)%Z then match zassoc i inc0 with Some l => length l | None => 0 end else 0)
        (map fst inc) = map (fun p => length (blk p)) inc.
  Proof.
    induction inc as [|[k v] t IH]; simpl; intros H; [reflexivity|]. f_equal.
    - unfold blk. simpl. rewrite (H k v) by (now left). destruct (k <=? f_index f)%Z; reflexivity.
    - apply IH. intros i l Hin. apply H. now right.
  Qed.

  Lemma length_flat_map_blk inc : length (flat_map blk inc) = fold_right Nat.add 0 (map (fun p => length (blk p)) inc).
  Proof. induction inc as [|p t IH]; simpl; [reflexivity|]. now rewrite app_length, IH. Qed.

  Lemma number_is_table_count : f_numberOfSimplices f = length visible_by_tables.
  Proof.
    unfold f_numberOfSimplices, visible_by_tables, f_indices. rewrite length_flat_map_blk.
    rewrite <- (count_by_keys (f_includes f) (f_includes f)).
    - apply sum_perm. apply Permutation_map. apply zsort_perm.
    - intros i l Hin. apply zassoc_of_in; [exact (b_keys f Hb)|exact Hin].
  Qed.

  Lemma blocks_nodup inc :
    NoDup (map fst inc) -> (forall i l, In (i, l) inc -> NoDup l) ->
    (forall i l s, In (i, l) inc -> In s l -> assoc s (f_appears f) = Some i) ->
    NoDup (flat_map blk inc).
  Proof.
    induction inc as [|[k v] t IH]; simpl; intros Hk Hl Hs; [constructor|].
    inversion Hk as [|a b Hn Hd]; subst. apply NoDup_app'.
    - unfold blk. simpl. destruct (k <=? f_index f)%Z; [apply (Hl k v); now left|constructor].
    - apply IH; [exact Hd| |]; intros; eauto.
    - intros s H1 H2. unfold blk in H1. simpl in H1. destruct (k <=? f_index f)%Z; [|destruct H1].
      apply in_flat_map in H2. destruct H2 as ([j l] & Hjl & Hin). unfold blk in Hin. simpl in Hin.
      destruct (j <=? f_index f)%Z; [|destruct Hin].
      assert (E1 : assoc s (f_appears f) = Some k) by (apply (Hs k v); auto).
      assert (E2 : assoc s (f_appears f) = Some j) by (apply (Hs j l); auto).
      assert (j = k) by congruence. subst j. apply Hn. apply in_map_iff. exists (k, l). auto.
  Qed.

  Lemma tables_nodup : NoDup visible_by_tables.
  Proof.
    apply blocks_nodup.
    - exact (b_keys f Hb).
    - intros i l Hin. apply (b_nd f Hb i). apply zassoc_of_in; [exact (b_keys f Hb)|exact Hin].
    - intros i l s Hin Hs. apply (b_iff f Hb). exists l. split; [|exact Hs].
      apply zassoc_of_in; [exact (b_keys f Hb)|exact Hin].
  Qed.

  Lemma tables_iff s : In s visible_by_tables <-> In s (f_simplices f false).
  Proof.
    unfold visible_by_tables, f_simplices. rewrite in_flat_map, filter_In.
    rewrite (In_simplices_iff _ _ (s_p _ (m_s f Hm))). unfold f_contains. split.
    - intros ([i l] & Hil & Hs). unfold blk in Hs. simpl in Hs. destruct (i <=? f_index f)%Z eqn:Le; [|destruct Hs].
      assert (A : assoc s (f_appears f) = Some i).
      { apply (b_iff f Hb). exists l. split; [|exact Hs]. apply zassoc_of_in; [exact (b_keys f Hb)|exact Hil]. }
      assert (C : containsSimplex (f_rep f) s = true).
      { destruct (containsSimplex (f_rep f) s) eqn:C; [reflexivity|]. apply (m_dom f Hm) in C. congruence. }
      rewrite C, A, Le. auto.
    - intros [C H]. rewrite C in H. simpl in H. destruct (assoc s (f_appears f)) as [i|] eqn:A; [|discriminate].
      apply (b_iff f Hb) in A. destruct A as (l & Hl & Hs). exists (i, l). split; [now apply zassoc_some_in|].
      unfold blk. simpl. now rewrite H.
  Qed.

  Theorem numberOfSimplices_counts_the_view : f_numberOfSimplices f = length (f_simplices f false).
  Proof.
    rewrite number_is_table_count.
    assert (N2 : NoDup (f_simplices f false)).
    { unfold f_simplices. apply NoDup_filter. apply simplices_nodup. exact (s_p _ (m_s f Hm)). }
    pose proof tables_nodup as N1.
    assert (L1 : length visible_by_tables <= length (f_simplices f false)).
    { apply NoDup_incl_length; [exact N1|]. intros s Hs. now apply tables_iff. }
    assert (L2 : length (f_simplices f false) <= length visible_by_tables).
    { apply NoDup_incl_length; [exact N2|]. intros s Hs. now apply tables_iff. }
    lia.
  Qed.
End Count.

(* ... which is what the snapshot at that index counts *)
From SV Require Closed ClosedReach Listing Cmp.
Theorem snapshot_counts_what_the_filtration_counts hp f uid hp' c :
  minv f -> binv f -> Closed.cinv (f_rep f) -> copy_new hp (f_view f) uid = (hp', c, Ok tt) ->
  numberOfSimplices c = f_numberOfSimplices f.
Proof.
  intros Hm Hb Hc H.
  pose proof (ClosedReach.copy_new_cinv hp (f_view f) uid hp' c (Ok tt) H) as Cc.
  rewrite (Cmp.numberOfSimplices_length c (s_p _ (Closed.c_s _ Cc))).
  rewrite (Listing.snap_listing hp f uid hp' c Hc H).
  symmetry. now apply numberOfSimplices_counts_the_view.
Qed.
