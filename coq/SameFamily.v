(* SameFamily.v -- two complexes that meet the vertex-set reading and carry simplices on the same sets of
   points have, order by order, equally many simplices and boundary operators that differ only by a
   re-indexing of rows and columns (the bijection "same points").  The list-level half of C06's "the result
   depends only on the family of vertex sets".  Plain Coq. *)
From Coq Require Import String ZArith Bool Arith List Lia.
From SV Require Import Names NamesFacts ListFacts Rep Fresh Complex Atomic RepInv Reach Shapes Incidence AddEffect
                       Closed ClosedReach AddBasis BasisInv Duality DeleteEffect VInv AwbSpec VSets DD CopyFaithful
                       Homology ListMat Listing FlagExt VIso MinCycle FlagSound Continuation FlagComplete.
Import ListNotations.
Open Scope nat_scope.

Fixpoint idx_of (p : name -> bool) (l : list name) : nat :=
  match l with [] => 0 | x :: t => if p x then 0 else S (idx_of p t) end.

Lemma idx_of_spec p l d : (exists x, In x l /\ p x = true) -> idx_of p l < length l /\ p (nth (idx_of p l) l d) = true.
Proof.
  induction l as [|a t IH]; intros (x & Hx & Px); [destruct Hx|]. simpl. destruct (p a) eqn:Ea.
  - split; [lia | exact Ea].
  - destruct Hx as [->|Hx]; [congruence|]. destruct (IH (ex_intro _ x (conj Hx Px))) as [H1 H2]. split; [lia | exact H2].
Qed.

(* in a complex that meets the reading: t is a face of s exactly when it has one order less and its points are among s's *)
Lemma face_iff_subset r s t k j i : vinv r -> assoc s (r_simp r) = Some (S k, j) -> assoc t (r_simp r) = Some (k, i) ->
  (In t (faces r s) <-> incl (basisOf r t) (basisOf r s)).
Proof.
  intros Hv As At. pose proof (s_p r (c_s r (b_c r (v_b r Hv)))) as P. split.
  - intros H. exact (face_basis_sub r Hv s k j t As H).
  - intros Hi. destruct (subsets_are_simplices r Hv 1 s (S k) j (basisOf r t) As) as (u & Cu & Su & (u' & Hu' & Eu)).
    + apply basis_nodup; exact P.
    + exact Hi.
    + rewrite (v_card r Hv t k i At). lia.
    + pose proof (v_card r Hv t k i At) as L. destruct (basisOf r t); [discriminate|congruence].
    + simpl in Eu. subst u'. assert (u = t); [|now subst]. apply (v_uniq r Hv); auto. unfold containsSimplex. now rewrite At.
Qed.

Section Same.
  Variables r1 r2 : rep.
  Hypothesis V1 : vinv r1.
  Hypothesis V2 : vinv r2.
  Definition same_family : Prop := forall B, NoDup B -> B <> [] -> (carried r1 B <-> carried r2 B).
  Hypothesis Hfam : same_family.
  Let P1 : pinv r1 := s_p r1 (c_s r1 (b_c r1 (v_b r1 V1))).
  Let P2 : pinv r2 := s_p r2 (c_s r2 (b_c r2 (v_b r2 V2))).

  Definition sig (k i : nat) : nat :=
    idx_of (fun t => seteq (basisOf r2 t) (basisOf r1 (nth i (simplicesOfOrder r1 k) (NInt 0)))) (simplicesOfOrder r2 k).

  (* the partner of a simplex of r1 in r2 *)
  Lemma partner k s : In s (simplicesOfOrder r1 k) ->
    exists t, In t (simplicesOfOrder r2 k) /\ sameset (basisOf r2 t) (basisOf r1 s).
  Proof.
    intros Hs. destruct (listed_assoc r1 V1 s k Hs) as (j & A).
    assert (Bne : basisOf r1 s <> []) by (pose proof (v_card r1 V1 s k j A) as L; destruct (basisOf r1 s); [discriminate|congruence]).
    destruct (proj1 (Hfam (basisOf r1 s) (basis_nodup r1 s P1) Bne)) as (t & Ct & St).
    - exists s. split; [unfold containsSimplex; now rewrite A | intros x; tauto].
    - exists t. split; [|exact St]. apply contains_assoc in Ct. destruct Ct as (k' & j' & A').
      assert (k' = k); [|subst; eapply order_listed; eauto].
      pose proof (v_card r2 V2 t k' j' A') as L'. pose proof (v_card r1 V1 s k j A) as L.
      rewrite (NoDup_same_length (basisOf r2 t) (basisOf r1 s)) in L'; [lia|apply basis_nodup; exact P2|apply basis_nodup; exact P1|exact St].
  Qed.

  Lemma sig_spec k i : i < length (simplicesOfOrder r1 k) ->
    sig k i < length (simplicesOfOrder r2 k) /\
    sameset (basisOf r2 (nth (sig k i) (simplicesOfOrder r2 k) (NInt 0))) (basisOf r1 (nth i (simplicesOfOrder r1 k) (NInt 0))).
  Proof.
    intros Hi. destruct (partner k _ (nth_In _ (NInt 0) Hi)) as (t & Ht & St).
    destruct (idx_of_spec (fun t0 => seteq (basisOf r2 t0) (basisOf r1 (nth i (simplicesOfOrder r1 k) (NInt 0)))) (simplicesOfOrder r2 k) (NInt 0)) as [H1 H2].
    - exists t. split; [exact Ht | now apply seteq_sameset].
    - split; [exact H1 | now apply seteq_sameset].
  Qed.

  Lemma sig_inj k i i' : i < length (simplicesOfOrder r1 k) -> i' < length (simplicesOfOrder r1 k) -> sig k i = sig k i' -> i = i'.
  Proof.
    intros Hi Hi' E. destruct (sig_spec k i Hi) as [_ S]. destruct (sig_spec k i' Hi') as [_ S']. rewrite E in S.
    set (l := simplicesOfOrder r1 k) in *.
    assert (En : nth i l (NInt 0) = nth i' l (NInt 0)).
    { destruct (listed_assoc r1 V1 _ k (nth_In _ (NInt 0) Hi)) as (j & A). destruct (listed_assoc r1 V1 _ k (nth_In _ (NInt 0) Hi')) as (j' & A').
      apply (v_uniq r1 V1); try (unfold containsSimplex; now rewrite ?A, ?A').
      intros x. rewrite <- (S x), <- (S' x). tauto. }
    apply (proj1 (NoDup_nth l (NInt 0)) (sOO_nodup r1 k P1)); auto.
  Qed.
End Same.

Lemma same_family_sym r1 r2 : same_family r1 r2 -> same_family r2 r1.
Proof. intros H B HB Hne. symmetry. now apply H. Qed.

(* equally many simplices of every order *)
Theorem same_counts r1 r2 k : vinv r1 -> vinv r2 -> same_family r1 r2 ->
  length (simplicesOfOrder r1 k) = length (simplicesOfOrder r2 k).
Proof.
  intros V1 V2 Hf.
  assert (G : forall a b, vinv a -> vinv b -> same_family a b -> length (simplicesOfOrder a k) <= length (simplicesOfOrder b k)).
  { intros a b Va Vb Hab. pose proof (s_p a (c_s a (b_c a (v_b a Va)))) as Pa.
    apply (pigeon (fun s t => sameset (basisOf b t) (basisOf a s))); [apply sOO_nodup; exact Pa| |].
    - intros s Hs. destruct (partner a b Va Vb Hab k s Hs) as (t & Ht & St). eauto.
    - intros s s' t Hs Hs' S S'. destruct (listed_assoc a Va s k Hs) as (j & A). destruct (listed_assoc a Va s' k Hs') as (j' & A').
      apply (v_uniq a Va); try (unfold containsSimplex; now rewrite ?A, ?A'). intros x. rewrite <- (S x), <- (S' x). tauto. }
  apply Nat.le_antisymm; [apply G; auto | apply G; auto; now apply same_family_sym].
Qed.

(* the boundary operators agree entry by entry along the re-indexing *)
Theorem same_entries r1 r2 k i j : vinv r1 -> vinv r2 -> same_family r1 r2 ->
  i < length (simplicesOfOrder r1 k) -> j < length (simplicesOfOrder r1 (S k)) ->
  mentry (boundaryOperator r1 (S k)) i j = mentry (boundaryOperator r2 (S k)) (sig r1 r2 k i) (sig r1 r2 (S k) j).
Proof.
  intros V1 V2 Hf Hi Hj.
  pose proof (c_s r1 (b_c r1 (v_b r1 V1))) as S1. pose proof (c_s r2 (b_c r2 (v_b r2 V2))) as S2.
  destruct (sig_spec r1 r2 V1 V2 Hf k i Hi) as [Hi2 Si]. destruct (sig_spec r1 r2 V1 V2 Hf (S k) j Hj) as [Hj2 Sj].
  set (t1 := nth i (simplicesOfOrder r1 k) (NInt 0)) in *. set (s1 := nth j (simplicesOfOrder r1 (S k)) (NInt 0)) in *.
  set (t2 := nth (sig r1 r2 k i) (simplicesOfOrder r2 k) (NInt 0)) in *. set (s2 := nth (sig r1 r2 (S k) j) (simplicesOfOrder r2 (S k)) (NInt 0)) in *.
  assert (E1 : mentry (boundaryOperator r1 (S k)) i j = true <-> In t1 (faces r1 s1)).
  { apply (boundary_entries r1 k i j s1 t1 S1); now apply List.nth_error_nth'. }
  assert (E2 : mentry (boundaryOperator r2 (S k)) (sig r1 r2 k i) (sig r1 r2 (S k) j) = true <-> In t2 (faces r2 s2)).
  { apply (boundary_entries r2 k _ _ s2 t2 S2); now apply List.nth_error_nth'. }
  destruct (listed_assoc r1 V1 t1 k (nth_In _ (NInt 0) Hi)) as (a1 & At1). destruct (listed_assoc r1 V1 s1 (S k) (nth_In _ (NInt 0) Hj)) as (b1 & As1).
  destruct (listed_assoc r2 V2 t2 k (nth_In _ (NInt 0) Hi2)) as (a2 & At2). destruct (listed_assoc r2 V2 s2 (S k) (nth_In _ (NInt 0) Hj2)) as (b2 & As2).
  rewrite (face_iff_subset r1 s1 t1 k b1 a1 V1 As1 At1) in E1. rewrite (face_iff_subset r2 s2 t2 k b2 a2 V2 As2 At2) in E2.
  assert (Eq : incl (basisOf r1 t1) (basisOf r1 s1) <-> incl (basisOf r2 t2) (basisOf r2 s2)).
  { split; intros H x Hx; [apply Sj, H, Si, Hx | apply Sj, H, Si, Hx]. }
  destruct (mentry (boundaryOperator r1 (S k)) i j) eqn:M1, (mentry (boundaryOperator r2 (S k)) (sig r1 r2 k i) (sig r1 r2 (S k) j)) eqn:M2; auto.
  - exfalso. assert (X : false = true) by (apply E2, Eq, E1; reflexivity). discriminate.
  - exfalso. assert (X : false = true) by (apply E1, Eq, E2; reflexivity). discriminate.
Qed.
