(* World.v -- object identity (variables, the heap of attribute dictionaries), the embedding
   state machine, the JSON AST layer, and the command interpreter `exec` that the
   correspondence driver runs.  Model file: no proofs. *)
From Coq Require Import String ZArith Bool Arith List.
From SV Require Import Names Rep Complex Homology Filtration Gen.
Import ListNotations.
Open Scope nat_scope.

(* ---------- embeddings (coordinates are opaque here; the float arithmetic is in Floats.v) ---------- *)
Definition coord := string.                       (* a float, as its hex literal *)
Record emb := mkEmb {
  e_cx : string;                                  (* the variable holding the complex *)
  e_dim : nat;
  e_pos : list (name * list coord);               (* _position *)
  e_calls : list name }.                          (* log of computePositionOf calls *)
Definition zero_coord : coord := "0x0.0p+0"%string.

(* ---------- JSON AST of an encoded complex ---------- *)
Record jsimplex := mkJs { j_id : name; j_faces : list name; j_attr : dict }.
Definition encode_view (hp : heap) (v : srcview) : list jsimplex :=
  map (fun p => mkJs (fst p) (fst (snd p)) (heap_get hp (snd (snd p)))) v.
(* as_simplicial_complex: replay addSimplex in file order; each attribute object is new *)
Fixpoint decode (hp : heap) (r : rep) (js : list jsimplex) : heap * rep * res unit :=
  match js with
  | [] => (hp, r, Ok tt)
  | s :: t =>
      let '(r1, h) := alloc r in
      let hp1 := heap_set hp h (j_attr s) in
      match addSimplex r1 (j_faces s) (Some (j_id s)) (Some h) with
      | (r2, Raise e) => (hp1, r2, Raise e)
      | (r2, Ok _) => decode hp1 r2 t
      end
  end.

(* ---------- the world ---------- *)
Inductive obj := OCx (r : rep) | OFilt (f : filt) | OEmb (e : emb).
Record world := mkWorld {
  w_vars : list (string * obj);
  w_heap : heap;
  w_uid : nat;                         (* next owner uid; uid 0 owns the dicts the script creates *)
  w_dicts : list handle }.             (* dict objects created by the script, in creation order *)
Definition world0 : world := mkWorld [] [] 1 [].

Fixpoint vget (vs : list (string * obj)) (v : string) : option obj :=
  match vs with [] => None | (k, o) :: t => if String.eqb v k then Some o else vget t v end.
Fixpoint vset (vs : list (string * obj)) (v : string) (o : obj) : list (string * obj) :=
  match vs with
  | [] => [(v, o)]
  | (k, o') :: t => if String.eqb v k then (k, o) :: t else (k, o') :: vset t v o
  end.

(* attribute arguments of a call *)
Inductive attrarg := ANone | ANew (d : dict) | ARef (k : nat).
Definition take_attr (w : world) (a : attrarg) : world * option handle :=
  match a with
  | ANone => (w, None)
  | ANew d =>
      let h := (0, length (w_dicts w)) in
      (mkWorld (w_vars w) (heap_set (w_heap w) h d) (w_uid w) (w_dicts w ++ [h]), Some h)
  | ARef k => (w, nth_error (w_dicts w) k)
  end.

(* ---------- values returned to the driver ---------- *)
Inductive value :=
| VUnit | VBool (b : bool) | VInt (z : Z) | VNat (n : nat) | VIdx (i : idx)
| VName (n : name) | VOptName (o : option name)
| VNames (l : list name)                       (* ordered *)
| VNameSet (l : list name)                     (* a set *)
| VGroups (l : list (list name))               (* ordered groups, each a set *)
| VPairs (l : list (name * name))              (* a mapping *)
| VMat (m : mval)
| VNats (l : list nat)
| VBetti (l : list (nat * Z))
| VChains (l : list (nat * list (list name)))
| VDict (d : dict)
| VIdxs (l : list idx)
| VCoords (l : list coord)
| VPosMap (l : list (name * list coord))
| VCallLog (mapping : list (name * name)) (calls : list name).
Inductive outcome := OkV (v : value) | Err (e : exn).
Definition out_of {A} (f : A -> value) (x : res A) : outcome :=
  match x with Ok a => OkV (f a) | Raise e => Err e end.

(* per-simplex line of a snapshot *)
Record ssnap := mkSs { ss_name : name; ss_order : nat; ss_index : nat; ss_faces : list name;
                       ss_cofaces : list name; ss_basis : list name; ss_attr : dict; ss_handle : handle }.
Record snapshot := mkSnap {
  sn_kind : nat;                          (* 0 complex, 1 filtration *)
  sn_max : Z;
  sn_orders : list (list name);           (* simplicesOfOrder(k), k = 0..max *)
  sn_all : list name;                     (* simplices() *)
  sn_rev : list name;                     (* simplices(reverse=True) *)
  sn_simplices : list ssnap;
  sn_bops : list mval;                    (* boundaryOperator(k), k = 0..max+1 *)
  sn_index : idx; sn_indices : list idx;
  sn_births : list (name * idx) }.

Definition ssnap_of (hp : heap) (r : rep) (s : name) : ssnap :=
  let h := match assoc s (r_attr r) with Some h => h | None => (0, 0) end in
  mkSs s (match orderOf r s with Ok k => k | Raise _ => 0 end)
       (match indexOf r s with Ok k => k | Raise _ => 0 end)
       (faces r s) (cofaces r s) (basisOf r s) (heap_get hp h) h.
Definition snap_cx (hp : heap) (r : rep) : snapshot :=
  mkSnap 0 (maxOrder r) (map (simplicesOfOrder r) (seq 0 (r_nord r))) (simplices r false)
         (simplices r true) (map (ssnap_of hp r) (simplices r false))
         (map (fun k => mval_of (boundaryOperator r k)) (seq 0 (S (r_nord r)))) 0%Z [] [].
(* a filtration is observed through its own (index-aware) queries where it overrides them *)
Definition snap_filt (hp : heap) (f : filt) : snapshot :=
  let r := f_rep f in
  mkSnap 1 (maxOrder r) (map (simplicesOfOrder r) (seq 0 (r_nord r))) (f_simplices f false)
         (f_simplices f true) (map (ssnap_of hp r) (f_simplices f false))
         (map (fun k => mval_of (boundaryOperator r k)) (seq 0 (S (r_nord r))))
         (f_index f) (f_indices f)
         (map (fun s => (s, match assoc s (f_appears f) with Some i => i | None => 0%Z end))
              (f_simplices f false)).

(* ---------- commands ---------- *)
Inductive cmpop := OpLe | OpLt | OpGe | OpGt | OpEq | OpNe.
Inductive genkind := GSimplex | GVoid | GSkeleton | GRing.

Inductive query :=
| QOrder (s : name) | QIndex (s : name) | QFaces (s : name) | QCofaces (s : name) | QBasis (s : name)
| QContains (s : name) | QMaxOrder | QCounts | QTotal | QSimplices (rev : bool) | QOfOrder (k : nat)
| QClosure (s : name) (rev excl : bool) | QPartOf (s : name) (rev excl : bool)
| QWithBasis (bs : list name) | QWithFaces (fs : list name) | QContainsBasis (bs : list name)
| QIsBasis (bs : list name) | QDisjoint (ss : list name) | QBoundary (ss : list name)
| QBop (k : nat) | QSnf (k : nat) | QZ (ks : option (list nat)) | QBetti (ks : option (list nat))
| QEuler | QCmp (op : cmpop) (w : string) | QAttr (s : name)
| QIntegrate (a : string) (default : Z)
| QGetIndex | QIndices (rev : bool) | QIsIndex (i : idx) | QAddedAt (s : name)
| QAddedAtIndex (i : idx) (rev : bool) | QContainsSome (s : name).

Inductive cmd :=
| CNew (v : string) | CNewF (v : string) (i : idx)
| CCopy (w v : string) (orders : list (idx * list name))
| CCopyInto (v w : string) | CDeepCopy (w v : string)
| CCompose (w a b : string) | CComposeInto (a b d : string)
| CFlag (w v : string) | CJson (w v : string)
| CSnapF (w f : string) | CSnapInto (f w : string) | CComplexes (f pre : string)
| CNextOf (w f : string) (pos : nat)     (* the pos-th step of an iteration over f.complexes() *)
| CVR (w v : string) (close : list (nat * nat))
| CGen (g : genkind) (v : string) (n : nat) (id : option name) (a : attrarg)
| CLattice (w : string) (rows cols : nat)
| CAdd (v : string) (fs : list name) (id : option name) (a : attrarg)
| CAddB (v : string) (bs : list name) (id : option name) (a : attrarg)
| CEnsure (v : string) (bs : list name) (a : attrarg)
| CAddFrom (v w : string) (rn : ren)
| CDel (v : string) (s : name) | CDelB (v : string) (bs : list name) | CDels (v : string) (ss : list name)
| CRestrict (v : string) (bs : list name)
| CSubdiv (v : string) (s : name) (order : list name)
| CRelabel (v : string) (rn : ren) | CRelabel1 (v : string) (s q : name) | CRelabelDisj (v w : string)
| CSetAttr (v : string) (s : name) (key : string) (val : aval)
| CSetAttrs (v : string) (s : name) (a : attrarg)
| CGrow (v : string) (ss : list name)
| CSetIndex (f : string) (i : idx) | CNext (f : string) | CPrev (f : string) | CMin (f : string) | CMax (f : string)
| CEmb (e v : string) (dim : nat) | CPos (e : string) (s : name) (p : list coord)
| CGetPos (e : string) (s : name) | CPositions (e : string) (ss : option (list name))
| CClear (e : string) | CLen (e : string) | CIn (e : string) (s : name) | CCalls (e : string)
| CQuery (v : string) (q : query).

Definition fresh_uid (w : world) : world * nat :=
  (mkWorld (w_vars w) (w_heap w) (S (w_uid w)) (w_dicts w), w_uid w).
Definition set_var (w : world) (v : string) (o : obj) : world :=
  mkWorld (vset (w_vars w) v o) (w_heap w) (w_uid w) (w_dicts w).
Definition set_heap (w : world) (hp : heap) : world := mkWorld (w_vars w) hp (w_uid w) (w_dicts w).

(* the underlying representation / public view of a complex-like variable *)
Definition rep_of (o : obj) : option rep :=
  match o with OCx r => Some r | OFilt f => Some (f_rep f) | OEmb _ => None end.
Definition view_obj (o : obj) : srcview :=
  match o with OCx r => view_of r | OFilt f => f_view f | OEmb _ => [] end.

(* deepcopy of a complex: same structure, same _sequence, new dict objects (sharing kept) *)
Definition deepcopy_rep (hp : heap) (r : rep) (uid : nat) : heap * rep :=
  let '(hp', attr', n, _) :=
    fold_left (fun (acc : heap * list (name * handle) * nat * list (handle * handle)) (p : name * handle) =>
                 let '(hp1, at1, n1, memo) := acc in
                 match find (fun m => handle_eqb (fst m) (snd p)) memo with
                 | Some m => (hp1, at1 ++ [(fst p, snd m)], n1, memo)
                 | None => let h' := (uid, n1) in
                           (heap_set hp1 h' (heap_get hp1 (snd p)), at1 ++ [(fst p, h')], S n1, memo ++ [(snd p, h')])
                 end) (r_attr r) (hp, [], 0, []) in
  (hp', mkRep uid (r_nord r) (r_simp r) (r_idx r) (r_bnd r) (r_bas r) attr' (r_seq r) n).

Definition cmp_reps (op : cmpop) (a c : rep) : bool :=
  match op with
  | OpLe => c_le a c | OpLt => c_lt a c | OpGe => c_ge a c
  | OpGt => c_gt a c | OpEq => c_eq a c | OpNe => c_ne a c
  end.

Definition group_by_order (l : list (nat * name)) : list (list name) :=
  map snd
      (fold_right (fun p acc => match acc with
                                | ((k, g) :: t) => if fst p =? k then (k, snd p :: g) :: t
                                                   else (fst p, [snd p]) :: acc
                                | [] => [(fst p, [snd p])]
                                end) [] l).
Definition with_orders (r : rep) (l : list name) : list (nat * name) :=
  map (fun s => (match orderOf r s with Ok k => k | Raise _ => 0 end, s)) l.

(* ---------- queries ---------- *)
Definition query_rep (w : world) (r : rep) (q : query) : outcome :=
  let hp := w_heap w in
  match q with
  | QOrder s => out_of VNat (orderOf r s)
  | QIndex s => out_of VNat (indexOf r s)
  | QFaces s => if containsSimplex r s then OkV (VNameSet (faces r s)) else Err KeyError
  | QCofaces s => if containsSimplex r s then OkV (VNameSet (cofaces r s)) else Err KeyError
  | QBasis s => if containsSimplex r s then OkV (VNameSet (basisOf r s)) else Err KeyError
  | QContains s => OkV (VBool (containsSimplex r s))
  | QMaxOrder => OkV (VInt (maxOrder r))
  | QCounts => OkV (VNats (numberOfSimplicesOfOrder r))
  | QTotal => OkV (VNat (numberOfSimplices r))
  | QSimplices rev => OkV (VNames (simplices r rev))
  | QOfOrder k => OkV (VNames (simplicesOfOrder r k))
  | QClosure s rev excl => out_of (fun l => VGroups (group_by_order (with_orders r l))) (closureOf r s rev excl)
  | QPartOf s rev excl => out_of (fun l => VGroups (group_by_order (with_orders r l))) (partOf r s rev excl)
  | QWithBasis bs => out_of VOptName (c_simplexWithBasis r bs false)
  | QWithFaces fs => out_of VOptName (c_simplexWithFaces r fs)
  | QContainsBasis bs => out_of (fun o => VBool (match o with Some _ => true | None => false end))
                                (c_simplexWithBasis r bs false)
  | QIsBasis bs => out_of VBool (c_isBasis r bs false)
  | QDisjoint ss => out_of VBool (disjoint r ss)
  | QBoundary ss => out_of VNameSet (boundary r ss)
  | QBop k => OkV (VMat (mval_of (boundaryOperator r k)))
  | QSnf k => OkV (VMat (smithNormalForm r k))
  | QZ ks => OkV (VChains (Zchains r ks))
  | QBetti ks => OkV (VBetti (bettiNumbers r ks))
  | QEuler => OkV (VInt (eulerCharacteristic r))
  | QCmp op v => match vget (w_vars w) v with
                 | Some o => match rep_of o with
                             | Some c => OkV (VBool (cmp_reps op r c))
                             | None => Err TypeError
                             end
                 | None => Err TypeError
                 end
  | QAttr s => out_of (fun h => VDict (heap_get hp h)) (getAttributes r s)
  | QIntegrate a d => out_of VInt (integrate hp r a d)
  | _ => Err TypeError
  end.

Definition query_filt (w : world) (f : filt) (q : query) : outcome :=
  let r := f_rep f in
  match q with
  | QOrder s => out_of VNat (f_orderOf f s)
  | QIndex s => out_of VNat (f_indexOf f s)
  | QContains s => OkV (VBool (f_contains f s))
  | QTotal => OkV (VNat (f_numberOfSimplices f))
  | QCounts => OkV (VNats (f_numberOfSimplicesOfOrder f))
  | QSimplices rev => OkV (VNames (f_simplices f rev))
  | QEuler => OkV (VInt (f_eulerCharacteristic f))
  | QGetIndex => OkV (VIdx (f_index f))
  | QIndices rev => OkV (VIdxs (if rev then List.rev (f_indices f) else f_indices f))
  | QIsIndex i => OkV (VBool (f_isIndex f i))
  | QAddedAt s => out_of VIdx (f_addedAtIndex f s)
  | QAddedAtIndex i rev => out_of (fun l => VGroups (group_by_order l)) (f_simplicesAddedAtIndex f i rev)
  | QContainsSome s => OkV (VBool (f_containsSome f s))
  | _ => query_rep w r q              (* inherited, index-unaware queries *)
  end.

Definition f_simplexWithBasis := simplexWithBasis filt f_rep f_contains f_orderOf.
Definition query_obj (w : world) (o : obj) (q : query) : outcome :=
  match o with
  | OCx r => query_rep w r q
  | OFilt f =>
      match q with
      | QWithBasis bs => out_of VOptName (f_simplexWithBasis f bs false)
      | QContainsBasis bs => out_of (fun o => VBool (match o with Some _ => true | None => false end))
                                    (f_simplexWithBasis f bs false)
      | _ => query_filt w f q
      end
  | OEmb _ => Err TypeError
  end.

(* ---------- command interpreter ---------- *)
Definition ret (w : world) (x : outcome) : world * outcome := (w, x).
Definition unit_out (x : res unit) : outcome := out_of (fun _ => VUnit) x.

(* apply a mutator of the representation to a complex variable (not to a filtration) *)
Definition on_cx {A} (w : world) (v : string) (f : rep -> rep * res A) (k : A -> value) : world * outcome :=
  match vget (w_vars w) v with
  | Some (OCx r) => let '(r', x) := f r in (set_var w v (OCx r'), out_of k x)
  | _ => (w, Err TypeError)
  end.

Definition vr_build (uid : nat) (r : rep) (close : list (nat * nat)) : rep * res unit :=
  (* the points, then an edge for every close pair (i < j, in the order given) *)
  let ss := simplicesOfOrder r 0 in
  bindR (add_named_points (empty_rep uid) ss)
        (fun vr _ => add_bases vr (map (fun ij => [nth (fst ij) ss (NInt 0); nth (snd ij) ss (NInt 0)]) close)).

(* Embedding.positionSimplex / positionOf / clearPositions as a state machine over the cache;
   `ord` is what complex().orderOf(s) answers *)
Definition emb_positionSimplex (e : emb) (s : name) (p : list coord) : res emb :=
  if negb (length p =? e_dim e) then Raise ValueError
  else Ok (mkEmb (e_cx e) (e_dim e) (assoc_set s p (e_pos e)) (e_calls e)).
Definition emb_clear (e : emb) : emb := mkEmb (e_cx e) (e_dim e) [] (e_calls e).
Definition emb_read (ord : res nat) (e : emb) (s : name) : emb * res (list coord) :=
  match ord with
  | Raise x => (e, Raise x)
  | Ok 0 =>
      match assoc s (e_pos e) with
      | Some p => (e, Ok p)
      | None => let p := repeat zero_coord (e_dim e) in       (* computePositionOf: the origin *)
                (mkEmb (e_cx e) (e_dim e) (e_pos e ++ [(s, p)]) (e_calls e ++ [s]), Ok p)
      end
  | Ok _ => (e, Raise ValueError)
  end.
Definition emb_order (w : world) (e : emb) (s : name) : res nat :=
  match vget (w_vars w) (e_cx e) with
  | Some o =>
      match rep_of o with
      | None => Raise TypeError
      | Some r => match o with OFilt f => f_orderOf f s | _ => orderOf r s end
      end
  | None => Raise TypeError
  end.
Definition emb_positionOf (w : world) (e : emb) (s : name) : emb * res (list coord) :=
  emb_read (emb_order w e s) e s.

Definition exec (w : world) (c : cmd) : world * outcome :=
  match c with
  | CNew v => let '(w1, u) := fresh_uid w in (set_var w1 v (OCx (empty_rep u)), OkV VUnit)
  | CNewF v i => let '(w1, u) := fresh_uid w in (set_var w1 v (OFilt (new_filt u i)), OkV VUnit)
  | CCopy x v orders =>
      match vget (w_vars w) v with
      | Some (OCx r) =>
          let '(w1, u) := fresh_uid w in
          let '(hp, r', res) := copy_new (w_heap w1) (view_of r) u in
          match res with
          | Ok _ => (set_var (set_heap w1 hp) x (OCx r'), OkV VUnit)
          | Raise e => (set_heap w1 hp, Err e)
          end
      | Some (OFilt f) =>
          let '(w1, u) := fresh_uid w in
          let '(hp, f', res) := f_copy (w_heap w1) f u orders in
          match res with
          | Ok _ => (set_var (set_heap w1 hp) x (OFilt f'), OkV VUnit)
          | Raise e => (set_heap w1 hp, Err e)
          end
      | _ => (w, Err TypeError)
      end
  | CCopyInto v x | CSnapInto v x =>
      match vget (w_vars w) v, vget (w_vars w) x with
      | Some o, Some (OCx t) =>
          match o with
          | OEmb _ => (w, Err TypeError)
          | _ => let '(hp, t', res) := copy_into (w_heap w) (view_obj o) t in
                 (set_var (set_heap w hp) x (OCx t'), unit_out res)
          end
      | _, _ => (w, Err TypeError)
      end
  | CDeepCopy x v =>
      match vget (w_vars w) v with
      | Some (OCx r) =>
          let '(w1, u) := fresh_uid w in
          let '(hp, r') := deepcopy_rep (w_heap w1) r u in
          (set_var (set_heap w1 hp) x (OCx r'), OkV VUnit)
      | Some (OFilt f) =>
          (* copy.deepcopy of a filtration: the complex underneath and the three tables, nothing shared *)
          let '(w1, u) := fresh_uid w in
          let '(hp, r') := deepcopy_rep (w_heap w1) (f_rep f) u in
          (set_var (set_heap w1 hp) x (OFilt (with_rep f r')), OkV VUnit)
      | _ => (w, Err TypeError)
      end
  | CCompose x a b =>
      match vget (w_vars w) a, vget (w_vars w) b with
      | Some (OCx ra), Some (OCx rb) =>
          let '(w1, u) := fresh_uid w in
          let '(hp, d, res) := compose (w_heap w1) ra rb None u in
          match res with
          | Ok _ => (set_var (set_heap w1 hp) x (OCx d), OkV VUnit)
          | Raise e => (set_heap w1 hp, Err e)
          end
      | _, _ => (w, Err TypeError)
      end
  | CComposeInto a b d =>
      match vget (w_vars w) a, vget (w_vars w) b, vget (w_vars w) d with
      | Some (OCx ra), Some (OCx rb), Some (OCx rd) =>
          let '(hp, d', res) := compose (w_heap w) ra rb (Some rd) 0 in
          (set_var (set_heap w hp) d (OCx d'), unit_out res)
      | _, _, _ => (w, Err TypeError)
      end
  | CFlag x v =>
      match vget (w_vars w) v with
      | Some (OCx r) =>
          let '(w1, u) := fresh_uid w in
          let '(hp, r', res) := flagComplex (w_heap w1) r u in
          match res with
          | Ok _ => (set_var (set_heap w1 hp) x (OCx r'), OkV VUnit)
          | Raise e => (set_heap w1 hp, Err e)
          end
      | _ => (w, Err TypeError)
      end
  | CJson x v =>
      match vget (w_vars w) v with
      | Some o =>
          match o with
          | OEmb _ => (w, Err TypeError)
          | _ =>
              (* the text layer turns tuples into arrays, which cannot be simplex names *)
              if existsb (fun p => match fst p with NTup _ => true | _ => false end) (view_obj o)
              then (w, Err TypeError) else
              let '(w1, u) := fresh_uid w in
              let '(hp, r', res) := decode (w_heap w1) (empty_rep u) (encode_view (w_heap w1) (view_obj o)) in
              match res with
              | Ok _ => (set_var (set_heap w1 hp) x (OCx r'), OkV VUnit)
              | Raise e => (set_heap w1 hp, Err e)
              end
          end
      | None => (w, Err TypeError)
      end
  | CSnapF x f =>
      match vget (w_vars w) f with
      | Some (OFilt ff) =>
          let '(w1, u) := fresh_uid w in
          let '(hp, r', res) := copy_new (w_heap w1) (f_view ff) u in
          match res with
          | Ok _ => (set_var (set_heap w1 hp) x (OCx r'), OkV VUnit)
          | Raise e => (set_heap w1 hp, Err e)
          end
      | _ => (w, Err TypeError)
      end
  | CNextOf x f pos =>
      (* FiltrationIterator.__next__: remember the index, move to the pos-th index, snap(), move
         back -- the filtration is left as it was, the snapshot is a fresh complex *)
      match vget (w_vars w) f with
      | Some (OFilt ff) =>
          match nth_error (f_indices ff) pos with
          | None => (w, Err KeyError)            (* StopIteration: never scripted *)
          | Some ind =>
              let '(w1, u) := fresh_uid w in
              let '(hp, r', res) := copy_new (w_heap w1) (f_view (f_setIndex ff ind)) u in
              match res with
              | Ok _ => (set_var (set_heap w1 hp) x (OCx r'), OkV VUnit)
              | Raise e => (set_heap w1 hp, Err e)
              end
          end
      | _ => (w, Err TypeError)
      end
  | CComplexes f pre =>
      match vget (w_vars w) f with
      | Some (OFilt ff) =>
          let '(w', _, res) :=
            fold_left (fun (acc : world * nat * res unit) (ind : idx) =>
                         match acc with
                         | (_, _, Raise _) => acc
                         | (w1, n, Ok _) =>
                             let '(w2, u) := fresh_uid w1 in
                             let fi := f_setIndex ff ind in
                             let '(hp, r', res) := copy_new (w_heap w2) (f_view fi) u in
                             match res with
                             | Ok _ => (set_var (set_heap w2 hp) (pre ++ dec n)%string (OCx r'), S n, Ok tt)
                             | Raise e => (set_heap w2 hp, n, Raise e)
                             end
                         end) (f_indices ff) (w, 0, Ok tt) in
          (w', unit_out res)
      | _ => (w, Err TypeError)
      end
  | CVR x v close =>
      match vget (w_vars w) v with
      | Some o =>
          match rep_of o with
          | Some r =>
              let '(w0, u0) := fresh_uid w in
              let '(vr, res) := vr_build u0 r close in
              match res with
              | Raise e => (w0, Err e)
              | Ok _ =>
                  let '(w1, u) := fresh_uid w0 in
                  (* vr is a private complex of the constructor; its flag complex is the result *)
                  let '(hp, r', res') := flagComplex (w_heap w1) vr u in
                  match res' with
                  | Ok _ => (set_var (set_heap w1 hp) x (OCx r'), OkV VUnit)
                  | Raise e => (set_heap w1 hp, Err e)
                  end
              end
          | None => (w, Err TypeError)
          end
      | None => (w, Err TypeError)
      end
  | CGen g v n id a =>
      let '(w0, h) := take_attr w a in
      let '(w1, r0) := match vget (w_vars w0) v with
                       | Some (OCx r) => (w0, Some r)
                       | Some _ => (w0, None)
                       | None => let '(w1, u) := fresh_uid w0 in (w1, Some (empty_rep u))
                       end in
      match r0 with
      | None => (w1, Err TypeError)
      | Some r =>
          let '(r', res) := match g with
                            | GSimplex => k_simplex n id h r
                            | GVoid => k_void n r
                            | GSkeleton => k_skeleton n r
                            | GRing => ring n r
                            end in
          (* a generator that raises on a new complex leaves no variable behind *)
          match res, vget (w_vars w0) v with
          | Raise e, None => (w1, Err e)
          | _, _ => (set_var w1 v (OCx r'), unit_out res)
          end
      end
  | CLattice x rows cols =>
      let '(w1, u) := fresh_uid w in
      let '(r', res) := triangularLattice rows cols u in
      match res with
      | Ok _ => (set_var w1 x (OCx r'), OkV VUnit)
      | Raise e => (w1, Err e)
      end
  | CAdd v fs id a =>
      let '(w1, h) := take_attr w a in
      match vget (w_vars w1) v with
      | Some (OCx r) => let '(r', x) := addSimplex r fs id h in (set_var w1 v (OCx r'), out_of VName x)
      | Some (OFilt f) => let '(f', x) := f_addSimplex f fs id h in (set_var w1 v (OFilt f'), out_of VName x)
      | _ => (w1, Err TypeError)
      end
  | CAddB v bs id a =>
      let '(w1, h) := take_attr w a in
      match vget (w_vars w1) v with
      | Some (OCx r) => let '(r', x) := c_addSimplexWithBasis r bs id h in (set_var w1 v (OCx r'), out_of VName x)
      | Some (OFilt f) => let '(f', x) := f_addSimplexWithBasis f bs id h in (set_var w1 v (OFilt f'), out_of VName x)
      | _ => (w1, Err TypeError)
      end
  | CEnsure v bs a =>
      let '(w1, h) := take_attr w a in
      on_cx w1 v (fun r => c_ensureBasis r bs h) (fun _ => VUnit)
  | CAddFrom v x rn =>
      match vget (w_vars w) v, vget (w_vars w) x with
      | Some (OCx r), Some o =>
          match o with
          | OEmb _ => (w, Err TypeError)
          | _ => let '(hp, r', st, res) := addSimplicesFrom (w_heap w) r (view_obj o) rn in
                 (set_var (set_heap w hp) v (OCx r'), out_of VNames res)
          end
      | _, _ => (w, Err TypeError)
      end
  | CDel v s =>
      match vget (w_vars w) v with
      | Some (OCx r) => let '(r', x) := deleteSimplex r s in (set_var w v (OCx r'), unit_out x)
      | Some (OFilt f) => let '(f', x) := f_deleteSimplex f s in (set_var w v (OFilt f'), unit_out x)
      | _ => (w, Err TypeError)
      end
  | CDelB v bs => on_cx w v (fun r => deleteSimplexWithBasis r bs) (fun _ => VUnit)
  | CDels v ss => on_cx w v (fun r => deleteSimplices r ss) (fun _ => VUnit)
  | CRestrict v bs => on_cx w v (fun r => restrictBasisTo r bs) (fun _ => VUnit)
  | CSubdiv v s order => on_cx w v (fun r => barycentricSubdivide r s order) VName
  | CRelabel v rn =>
      match vget (w_vars w) v with
      | Some (OCx r) =>
          let '(r', st, x) := relabel r rn in
          (set_var w v (OCx r'), out_of (fun m => VCallLog m (rl_calls st)) x)
      | _ => (w, Err TypeError)
      end
  | CRelabel1 v s q => on_cx w v (fun r => relabelSimplex r s q) (fun _ => VUnit)
  | CRelabelDisj v x =>
      match vget (w_vars w) v, vget (w_vars w) x with
      | Some (OCx r), Some (OCx c) =>
          let '(r', st, res) := relabelDisjointFrom r c in
          (set_var w v (OCx r'), out_of VPairs res)
      | _, _ => (w, Err TypeError)
      end
  | CSetAttr v s key val =>
      match vget (w_vars w) v with
      | Some o =>
          match rep_of o with
          | Some r =>
              match getAttributes r s with
              | Raise e => (w, Err e)
              | Ok h => (set_heap w (heap_set (w_heap w) h (dict_set (heap_get (w_heap w) h) key val)), OkV VUnit)
              end
          | None => (w, Err TypeError)
          end
      | None => (w, Err TypeError)
      end
  | CSetAttrs v s a =>
      let '(w1, h) := take_attr w a in
      match h, vget (w_vars w1) v with
      | Some h', Some (OCx r) => (set_var w1 v (OCx (setAttributes r s h')), OkV VUnit)
      | _, _ => (w1, Err TypeError)
      end
  | CGrow v ss => on_cx w v (fun r => growFlagComplex r ss) (fun _ => VUnit)
  | CSetIndex f i =>
      match vget (w_vars w) f with
      | Some (OFilt ff) => (set_var w f (OFilt (f_setIndex ff i)), OkV VUnit)
      | _ => (w, Err TypeError)
      end
  | CNext f =>
      match vget (w_vars w) f with
      | Some (OFilt ff) => let '(f', x) := f_setNext ff in (set_var w f (OFilt f'), out_of VIdx x)
      | _ => (w, Err TypeError)
      end
  | CPrev f =>
      match vget (w_vars w) f with
      | Some (OFilt ff) => let '(f', x) := f_setPrev ff in (set_var w f (OFilt f'), out_of VIdx x)
      | _ => (w, Err TypeError)
      end
  | CMin f =>
      match vget (w_vars w) f with
      | Some (OFilt ff) => let '(f', x) := f_setMin ff in (set_var w f (OFilt f'), unit_out x)
      | _ => (w, Err TypeError)
      end
  | CMax f =>
      match vget (w_vars w) f with
      | Some (OFilt ff) => let '(f', x) := f_setMax ff in (set_var w f (OFilt f'), unit_out x)
      | _ => (w, Err TypeError)
      end
  | CEmb e v dim => (set_var w e (OEmb (mkEmb v dim [] [])), OkV VUnit)
  | CPos e s p =>
      match vget (w_vars w) e with
      | Some (OEmb em) =>
          match emb_positionSimplex em s p with
          | Raise x => (w, Err x)
          | Ok em' => (set_var w e (OEmb em'), OkV VUnit)
          end
      | _ => (w, Err TypeError)
      end
  | CGetPos e s =>
      match vget (w_vars w) e with
      | Some (OEmb em) => let '(em', x) := emb_positionOf w em s in (set_var w e (OEmb em'), out_of VCoords x)
      | _ => (w, Err TypeError)
      end
  | CPositions e ss =>
      match vget (w_vars w) e with
      | Some (OEmb em) =>
          let pts := match ss with
                     | Some l => l
                     | None => match vget (w_vars w) (e_cx em) with
                               | Some o => match rep_of o with Some r => simplicesOfOrder r 0 | None => [] end
                               | None => []
                               end
                     end in
          let '(em', x) :=
            fold_left (fun (acc : emb * res (list (name * list coord))) (s : name) =>
                         match acc with
                         | (_, Raise _) => acc
                         | (e1, Ok l) => match emb_positionOf w e1 s with
                                         | (e2, Ok p) => (e2, Ok (assoc_set s p l))
                                         | (e2, Raise x) => (e2, Raise x)
                                         end
                         end) pts (em, Ok []) in
          (set_var w e (OEmb em'), out_of VPosMap x)
      | _ => (w, Err TypeError)
      end
  | CClear e =>
      match vget (w_vars w) e with
      | Some (OEmb em) => (set_var w e (OEmb (emb_clear em)), OkV VUnit)
      | _ => (w, Err TypeError)
      end
  | CLen e =>
      match vget (w_vars w) e with
      | Some (OEmb em) =>
          match vget (w_vars w) (e_cx em) with
          | Some o => match rep_of o with
                      | Some r => (w, OkV (VNat (length (simplicesOfOrder r 0))))
                      | None => (w, Err TypeError)
                      end
          | None => (w, Err TypeError)
          end
      | _ => (w, Err TypeError)
      end
  | CIn e s =>
      match vget (w_vars w) e with
      | Some (OEmb em) =>
          match vget (w_vars w) (e_cx em) with
          | Some o => match rep_of o with
                      | Some r => (w, OkV (VBool (memn s (simplicesOfOrder r 0))))
                      | None => (w, Err TypeError)
                      end
          | None => (w, Err TypeError)
          end
      | _ => (w, Err TypeError)
      end
  | CCalls e =>
      match vget (w_vars w) e with
      | Some (OEmb em) => (w, OkV (VNames (e_calls em)))
      | _ => (w, Err TypeError)
      end
  | CQuery v q =>
      match vget (w_vars w) v with
      | Some o => (w, query_obj w o q)
      | None => (w, Err TypeError)
      end
  end.

(* observation commands *)
Definition snapshot_of (w : world) (v : string) : option snapshot :=
  match vget (w_vars w) v with
  | Some (OCx r) => Some (snap_cx (w_heap w) r)
  | Some (OFilt f) => Some (snap_filt (w_heap w) f)
  | _ => None
  end.
(* identity of attribute dictionaries: (variable, simplex, handle) for every simplex of every
   complex-like variable, and (k, handle) for the script's own dicts *)
Definition identities (w : world) : list (string * name * handle) :=
  flat_map (fun p => match rep_of (snd p) with
                     | Some r => map (fun q => (fst p, fst q, snd q)) (r_attr r)
                     | None => []
                     end) (w_vars w).
