(* FloatMono.v -- C12: the closeness test distance(p, q) <= eps on binary64 numbers is monotone in eps: a pair that is
   close at eps1 is close at every eps2 with eps1 <= eps2 (as doubles).  Uses the standard library's specification of
   the primitive comparison (FloatAxioms.leb_spec: leb is SFleb on the decoded numbers) -- an axiom of the standard
   library, named in the trusted base -- and proves that SFleb is transitive by cases on the decoded numbers. *)
From Coq Require Import ZArith Bool Lia PrimFloat SpecFloat FloatAxioms List.
From SV Require Import Floats.

Lemma SFcompare_trans_le x y z :
  SFleb x y = true -> SFleb y z = true -> SFleb x z = true.
Proof.
  unfold SFleb, SFcompare.
  destruct x as [sx|sx| |sx mx ex], y as [sy|sy| |sy my ey], z as [sz|sz| |sz mz ez];
    try destruct sx; try destruct sy; try destruct sz; simpl; try discriminate; try reflexivity; intros H1 H2;
    repeat match goal with
    | H : context [Z.compare ?a ?b] |- _ => destruct (Z.compare_spec a b); simpl in H; try discriminate
    | H : context [Pos.compare ?a ?b] |- _ => destruct (Pos.compare_spec a b); simpl in H; try discriminate
    | H : context [CompOpp ?c] |- _ => unfold CompOpp in H
    end;
    repeat match goal with
    | |- context [Z.compare ?a ?b] => destruct (Z.compare_spec a b); simpl; try reflexivity
    | |- context [Pos.compare ?a ?b] => destruct (Pos.compare_spec a b); simpl; try reflexivity
    end; try discriminate; try reflexivity; try lia.
  all: repeat match goal with
       | H : context [Pos.compare_cont Eq ?a ?b] |- _ => change (Pos.compare_cont Eq a b) with (Pos.compare a b) in H
       | |- context [Pos.compare_cont Eq ?a ?b] => change (Pos.compare_cont Eq a b) with (Pos.compare a b)
       end;
       destruct (Pos.compare_spec mx my); destruct (Pos.compare_spec my mz); simpl in *; try discriminate;
       destruct (Pos.compare_spec mx mz); simpl; try reflexivity; try lia.
Qed.

Theorem leb_trans (x y z : float) : (x <=? y)%float = true -> (y <=? z)%float = true -> (x <=? z)%float = true.
Proof. rewrite !leb_spec. apply SFcompare_trans_le. Qed.

(* the closeness test is monotone in the radius *)
Theorem close_monotone eps1 eps2 p q : (eps1 <=? eps2)%float = true -> close eps1 p q = true -> close eps2 p q = true.
Proof. unfold close. intros He Hc. exact (leb_trans _ _ _ Hc He). Qed.

(* so the list of close pairs at eps1 is included in the list at eps2 *)
Theorem close_pairs_monotone eps1 eps2 (pairs : list (list float * list float)) : (eps1 <=? eps2)%float = true ->
  incl (filter (fun pq => close eps1 (fst pq) (snd pq)) pairs) (filter (fun pq => close eps2 (fst pq) (snd pq)) pairs).
Proof.
  intros He pq Hin. apply filter_In in Hin. destruct Hin as [Hin Hc]. apply filter_In. split; [exact Hin|].
  now apply (close_monotone eps1 eps2).
Qed.
