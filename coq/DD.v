(* DD.v -- consecutive boundary operators multiply to zero mod 2 (C03), for every complex that meets the
   vertex-set reading.  Plain Coq. *)
From Coq Require Import String ZArith Bool Arith List Lia.
From SV Require Import Names NamesFacts ListFacts Rep Fresh Complex Atomic RepInv Reach Shapes Incidence AddEffect
                       Closed ClosedReach AddBasis BasisInv Duality DeleteEffect CopyFaithful VInv AwbSpec VSets.
Import ListNotations.
Open Scope nat_scope.

Lemma map_nth_seq {A B} (g : A -> B) d (l : list A) : map (fun u => g (nth u l d)) (seq 0 (length l)) = map g l.
Proof.
  induction l as [|a l IH]; [reflexivity|]. cbn [length seq map nth]. f_equal.
  rewrite <- seq_shift, map_map. exact IH.
Qed.

Section DD.
  Variable r : rep.
  Hypothesis Hv : vinv r.
  Let HS : sinv r := c_s r (b_c r (v_b r Hv)).
  Let P : pinv r := s_p r HS.

  (* the points of a face are the points of the simplex but one *)
  Lemma face_basis_char t k j u : assoc t (r_simp r) = Some (S k, j) -> In u (faces r t) ->
    exists p, In p (basisOf r t) /\ forall z, In z (basisOf r u) <-> In z (basisOf r t) /\ z <> p.
  Proof.
    intros At Hu. destruct (face_drops_one r Hv t k j u At Hu) as (p & Hp & Hnp & Hall). exists p. split; auto.
    intros z. split.
    - intros Hz. split; [eapply face_basis_sub; eauto|]. intros ->. contradiction.
    - intros [Hz Hne]. destruct (Hall z Hz); [contradiction|auto].
  Qed.

  (* the faces of t that have w as a face: none or exactly two *)
  Theorem two_ways_down t k j w : assoc t (r_simp r) = Some (S (S k), j) ->
    let L := filter (fun u => memn w (faces r u)) (faces r t) in L = [] \/ length L = 2.
  Proof.
    intros At L. destruct L as [|u L'] eqn:EL; [now left|]. right. rewrite <- EL.
    assert (HuL : In u L) by (rewrite EL; now left).
    assert (InL : forall x, In x L <-> In x (faces r t) /\ In w (faces r x)).
    { intros x. unfold L. rewrite filter_In, memn_In. reflexivity. }
    apply InL in HuL. destruct HuL as [Hu Hw].
    destruct (face_is_simplex r HS t u (S k) j At Hu) as (iu & Au).
    destruct (face_is_simplex r HS u w k iu Au Hw) as (iw & Aw).
    destruct (face_basis_char t (S k) j u At Hu) as (p & Hp & Cu).
    destruct (face_basis_char u k iu w Au Hw) as (q & Hq & Cw).
    assert (Hpq : p <> q) by (intros ->; apply Cu in Hq; tauto).
    assert (Hqt : In q (basisOf r t)) by (apply Cu in Hq; tauto).
    (* the other way down: the face of t that drops q *)
    destruct (every_point_dropped r Hv t (S k) j q At Hqt) as (u2 & Hu2 & Hnq).
    destruct (face_is_simplex r HS t u2 (S k) j At Hu2) as (iu2 & Au2).
    destruct (face_basis_char t (S k) j u2 At Hu2) as (q' & Hq' & Cu2).
    assert (q' = q).
    { destruct (name_eq_dec q' q) as [E|N]; auto. exfalso. apply Hnq. apply Cu2. auto. }
    subst q'.
    assert (Hne : u <> u2).
    { intros <-. apply Hnq. apply Cu. auto. }
    (* w is a face of u2 too *)
    assert (Hw2 : In w (faces r u2)).
    { destruct (subsets_are_simplices r Hv 1 u2 (S k) iu2 (basisOf r w) Au2) as (w' & Cw' & Sw' & Hch).
      - apply basis_nodup; exact P.
      - intros z Hz. apply Cu2. apply Cw in Hz. destruct Hz as [Hz Hzq]. apply Cu in Hz. tauto.
      - rewrite (v_card r Hv w k iw Aw). lia.
      - intros E. pose proof (v_card r Hv w k iw Aw) as Lw. rewrite E in Lw. discriminate.
      - simpl in Hch. destruct Hch as (x & Hx & <-).
        assert (x = w); [|now subst].
        apply (v_uniq r Hv); auto. apply (contains_assoc r); eauto. }
    (* every member of L is u or u2 *)
    assert (Hall : forall x, In x L -> x = u \/ x = u2).
    { intros x Hx. apply InL in Hx. destruct Hx as [Hx Hwx].
      destruct (face_is_simplex r HS t x (S k) j At Hx) as (ix & Ax).
      destruct (face_basis_char t (S k) j x At Hx) as (p' & Hp' & Cx).
      destruct (face_basis_char x k ix w Ax Hwx) as (q2 & Hq2 & Cwx).
      assert (Hnw : ~ In p' (basisOf r w)) by (intros Hc; apply Cwx in Hc; destruct Hc as [Hc _]; apply Cx in Hc; tauto).
      assert (Hcase : p' = p \/ p' = q).
      { destruct (name_eq_dec p' p) as [E|N]; [now left|]. right.
        destruct (name_eq_dec p' q) as [E2|N2]; auto. exfalso. apply Hnw. apply Cw. split; auto. apply Cu. auto. }
      assert (Cx' : containsSimplex r x = true) by (apply (contains_assoc r); eauto).
      destruct Hcase as [-> | ->]; [left|right]; apply (v_uniq r Hv); auto; try (apply (contains_assoc r); eauto);
        intros z; rewrite (Cx z); [rewrite (Cu z)|rewrite (Cu2 z)]; reflexivity. }
    apply (NoDup_same_length L [u; u2]).
    - apply NoDup_filter. apply faces_nodup. exact P.
    - constructor; [intros [E|[]]; now apply Hne|constructor; [intros []|constructor]].
    - intros x. split; [intros Hx; destruct (Hall x Hx) as [->| ->]; simpl; auto|].
      intros [<-|[<-|[]]]; apply InL; auto.
  Qed.

  (* ---------- parity ---------- *)
  Fixpoint parity (l : list bool) : bool := match l with [] => false | b :: t => xorb b (parity t) end.
  Lemma parity_count l : parity l = Nat.odd (length (filter (fun b => b) l)).
  Proof.
    induction l as [|b l IH]; [reflexivity|]. cbn [parity filter]. destruct b.
    - cbn [length]. rewrite xorb_true_l, IH, Nat.odd_succ, <- Nat.negb_odd. reflexivity.
    - rewrite xorb_false_l. exact IH.
  Qed.
  Lemma count_map {A} (f : A -> bool) l : length (filter (fun b => b) (map f l)) = length (filter f l).
  Proof. induction l as [|a l IH]; simpl; [reflexivity|]. destruct (f a); simpl; now rewrite IH. Qed.

  Lemma inner_zero t k j w : assoc t (r_simp r) = Some (S (S k), j) ->
    parity (map (fun u => memn w (faces r u) && memn u (faces r t)) (simplicesOfOrder r (S k))) = false.
  Proof.
    intros At. rewrite parity_count, count_map. pose proof P as [K Pm St Lr].
    assert (El : length (filter (fun s => memn w (faces r s) && memn s (faces r t)) (simplicesOfOrder r (S k))) =
                 length (filter (fun u => memn w (faces r u)) (faces r t))).
    { apply NoDup_same_length.
      - apply NoDup_filter. apply simplicesOfOrder_nodup. exact P.
      - apply NoDup_filter. apply faces_nodup. exact P.
      - intros x. rewrite !filter_In, andb_true_iff, !memn_In. split; [tauto|]. intros [Hx Hwx]. split; auto.
        destruct (face_is_simplex r HS t x (S k) j At Hx) as (ix & Ax). apply Pm in Ax. destruct Ax as [Lt Hix].
        unfold simplicesOfOrder. apply Nat.ltb_lt in Lt. rewrite Lt. eapply nth_error_In; eauto. }
    rewrite El. destruct (two_ways_down t k j w At) as [-> | ->]; reflexivity.
  Qed.

  (* THE PRODUCT OF CONSECUTIVE BOUNDARY OPERATORS IS ZERO MOD 2: entry (i, j) of d_{k+1} . d_{k+2}, the
     mod-2 sum over the (k+1)-simplices u of d_{k+1}[i,u] * d_{k+2}[u,j], vanishes *)
  Theorem dd_zero k i j :
    i < length (simplicesOfOrder r k) -> j < length (simplicesOfOrder r (S (S k))) ->
    parity (map (fun u => mentry (boundaryOperator r (S k)) i u && mentry (boundaryOperator r (S (S k))) u j)
                (seq 0 (length (simplicesOfOrder r (S k))))) = false.
  Proof.
    intros Hi Hj.
    destruct (nth_error (simplicesOfOrder r k) i) as [w|] eqn:Ew; [|apply nth_error_None in Ew; lia].
    destruct (nth_error (simplicesOfOrder r (S (S k))) j) as [t|] eqn:Et; [|apply nth_error_None in Et; lia].
    set (idx := simplicesOfOrder r (S k)).
    assert (E : map (fun u => mentry (boundaryOperator r (S k)) i u && mentry (boundaryOperator r (S (S k))) u j) (seq 0 (length idx)) =
                map (fun s => memn w (faces r s) && memn s (faces r t)) idx).
    { rewrite <- (map_nth_seq (fun s => memn w (faces r s) && memn s (faces r t)) (NInt 0) idx).
      apply map_ext_in. intros n Hn. apply in_seq in Hn.
      destruct (nth_error idx n) as [s|] eqn:Es; [|apply nth_error_None in Es; lia].
      rewrite (nth_error_nth' idx (NInt 0) n s Es). f_equal.
      - apply eq_true_iff_eq. rewrite (boundary_entries r k i n s w HS Es Ew), memn_In. reflexivity.
      - apply eq_true_iff_eq. rewrite (boundary_entries r (S k) n j t s HS Et Es), memn_In. reflexivity. }
    rewrite E. pose proof P as [K Pm St Lr].
    assert (At : assoc t (r_simp r) = Some (S (S k), j)).
    { unfold simplicesOfOrder in Et. destruct (S (S k) <? r_nord r) eqn:Lt; [|destruct j; discriminate]. apply Nat.ltb_lt in Lt. apply Pm. auto. }
    exact (inner_zero t k j w At).
  Qed.

  (* ---------- boundary() of chains ---------- *)
  Lemma In_symdiffn x a b : In x (symdiffn a b) <-> (In x a /\ ~ In x b) \/ (In x b /\ ~ In x a).
  Proof.
    unfold symdiffn. rewrite in_app_iff, !filter_In, !negb_true_iff, !memn_false. tauto.
  Qed.
  Lemma memn_symdiffn x a b : memn x (symdiffn a b) = xorb (memn x a) (memn x b).
  Proof.
    destruct (memn x (symdiffn a b)) eqn:E.
    - apply memn_In, In_symdiffn in E.
      destruct E as [[H1 H2]|[H1 H2]]; apply memn_In in H1; apply memn_false in H2; rewrite H1, H2; reflexivity.
    - apply memn_false in E. rewrite In_symdiffn in E.
      destruct (memn x a) eqn:Ea, (memn x b) eqn:Eb; try reflexivity; exfalso; apply E; [left|right];
        (split; [now apply memn_In | now apply memn_false]).
  Qed.
  Lemma NoDup_symdiffn a b : NoDup a -> NoDup b -> NoDup (symdiffn a b).
  Proof.
    intros Ha Hb. unfold symdiffn. apply NoDup_app'; try now apply NoDup_filter.
    intros x H1 H2. apply filter_In in H1, H2. destruct H1 as [H1 _]. destruct H2 as [_ H2].
    apply negb_true_iff, memn_false in H2. contradiction.
  Qed.

  Definition bfold (ss acc : list name) : list name := fold_left (fun bs s => symdiffn bs (faces r s)) ss acc.
  Lemma memn_bfold w : forall ss acc,
    memn w (bfold ss acc) = xorb (memn w acc) (parity (map (fun s => memn w (faces r s)) ss)).
  Proof.
    induction ss as [|s ss IH]; intros acc; cbn [bfold fold_left map parity]; [now rewrite xorb_false_r|].
    fold (bfold ss (symdiffn acc (faces r s))). rewrite IH, memn_symdiffn. now rewrite xorb_assoc.
  Qed.
  Lemma NoDup_bfold : forall ss acc, NoDup acc -> NoDup (bfold ss acc).
  Proof.
    induction ss as [|s ss IH]; intros acc Ha; cbn [bfold fold_left]; [exact Ha|].
    apply IH. apply NoDup_symdiffn; auto. apply faces_nodup. exact P.
  Qed.

  Lemma parity_false {A} (l : list A) : parity (map (fun _ => false) l) = false.
  Proof. induction l as [|a l IH]; [reflexivity|]. cbn [map parity]. rewrite IH. reflexivity. Qed.
  Lemma parity_ext {A} (f g : A -> bool) l : (forall x, In x l -> f x = g x) -> parity (map f l) = parity (map g l).
  Proof.
    induction l as [|a l IH]; intros H; [reflexivity|]. cbn [map parity].
    rewrite (H a (or_introl eq_refl)), IH; [reflexivity|]. intros x Hx. apply H. now right.
  Qed.
  Lemma parity_xor {A} (f g : A -> bool) l : parity (map (fun x => xorb (f x) (g x)) l) = xorb (parity (map f l)) (parity (map g l)).
  Proof.
    induction l as [|a l IH]; simpl; [reflexivity|]. rewrite IH.
    destruct (f a), (g a), (parity (map f l)), (parity (map g l)); reflexivity.
  Qed.
  Lemma parity_swap {A B} (f : A -> bool) (g : A -> B -> bool) (U : list A) : forall ss,
    parity (map (fun u => f u && parity (map (g u) ss)) U) =
    parity (map (fun s => parity (map (fun u => f u && g u s) U)) ss).
  Proof.
    induction ss as [|s ss IH]; cbn [map parity].
    - rewrite (parity_ext _ (fun _ => false)); [apply parity_false|]. intros; apply andb_false_r.
    - rewrite <- IH, <- parity_xor. apply parity_ext. intros u _. destruct (f u); reflexivity.
  Qed.
  Lemma parity_restrict (f : name -> bool) (b U : list name) : NoDup b -> NoDup U -> incl b U ->
    parity (map f b) = parity (map (fun u => f u && memn u b) U).
  Proof.
    intros Hb HU Hi. rewrite !parity_count, !count_map. f_equal. apply NoDup_same_length; try now apply NoDup_filter.
    intros x. rewrite !filter_In, andb_true_iff, memn_In. split; [intros [H1 H2]; auto|tauto].
  Qed.

  Lemma chain_orders ss : isChainFatal r ss = Ok tt -> ss = [] \/ exists p, forall s, In s ss -> exists i, assoc s (r_simp r) = Some (p, i).
  Proof.
    destruct ss as [|s0 ss0]; [now left|]. intros H. right. unfold isChainFatal in H.
    destruct (orderOf r s0) as [p|e]; [|discriminate]. exists p.
    revert H. generalize (s0 :: ss0). clear s0 ss0. induction l as [|s ss IH]; intros H x Hx; [destruct Hx|]. cbn [fold_left] in H.
    destruct (negb (containsSimplex r s)) eqn:C.
    { exfalso. clear -H. induction ss; simpl in H; [discriminate|auto]. }
    unfold orderOf in H. destruct (assoc s (r_simp r)) as [[sk i]|] eqn:As.
    2: { exfalso. clear -H. induction ss; simpl in H; [discriminate|auto]. }
    destruct (sk =? p) eqn:E.
    2: { exfalso. clear -H. induction ss; simpl in H; [discriminate|auto]. }
    apply Nat.eqb_eq in E. subst sk. destruct Hx as [<-|Hx]; [eauto|]. apply IH; auto.
  Qed.
  Lemma chain_ok ss p : (forall s, In s ss -> exists i, assoc s (r_simp r) = Some (p, i)) -> isChainFatal r ss = Ok tt.
  Proof.
    intros H. destruct ss as [|s0 ss0]; [reflexivity|]. unfold isChainFatal.
    destruct (H s0 (or_introl eq_refl)) as (i0 & A0). unfold orderOf at 1. rewrite A0.
    revert H. generalize (s0 :: ss0). clear. induction l as [|s ss IH]; intros H; [reflexivity|]. cbn [fold_left].
    destruct (H s (or_introl eq_refl)) as (i & As). unfold containsSimplex, orderOf. rewrite As. cbn [negb]. rewrite Nat.eqb_refl.
    apply IH. intros x Hx. apply H. now right.
  Qed.

  Lemma nil_of_no_member (l : list name) : (forall w, memn w l = false) -> l = [].
  Proof. destruct l as [|a l]; [reflexivity|]. intros H. specialize (H a). simpl in H. rewrite name_eqb_refl in H. discriminate. Qed.

  (* boundary() of a chain is the mod-2 sum of its members' faces *)
  Theorem boundary_is_mod2_sum ss b : boundary r ss = Ok b ->
    NoDup b /\ forall w, In w b <-> parity (map (fun s => memn w (faces r s)) ss) = true.
  Proof.
    intros H. unfold boundary in H. destruct (isChainFatal r ss) as [[]|e]; [|discriminate]. injection H as <-.
    fold (bfold ss []). split; [apply NoDup_bfold; constructor|].
    intros w. rewrite <- memn_In, memn_bfold. cbn [memn existsb]. now rewrite xorb_false_l.
  Qed.

  (* THE BOUNDARY OF A BOUNDARY IS EMPTY *)
  Theorem boundary_of_boundary ss b : boundary r ss = Ok b -> boundary r b = Ok [].
  Proof.
    intros H. unfold boundary in H. destruct (isChainFatal r ss) as [[]|e] eqn:Ec; [|discriminate]. injection H as <-.
    fold (bfold ss []). pose proof P as [K Pm St Lr].
    destruct (chain_orders ss Ec) as [->|(p & Hp)]; [reflexivity|].
    assert (Hb : forall u, In u (bfold ss []) -> exists s, In s ss /\ In u (faces r s)).
    { intros u Hu. apply memn_In in Hu. rewrite memn_bfold in Hu. simpl in Hu.
      destruct (existsb (fun s => memn u (faces r s)) ss) eqn:X.
      - apply existsb_exists in X. destruct X as (s & Hs & Hm). apply memn_In in Hm. eauto.
      - rewrite (parity_ext _ (fun _ => false)), parity_false in Hu; [discriminate|].
        intros s Hs. destruct (memn u (faces r s)) eqn:M; auto.
        assert (existsb (fun s => memn u (faces r s)) ss = true) by (apply existsb_exists; eauto). congruence. }
    destruct p as [|p].
    { (* a chain of points: no faces at all *)
      assert (E : bfold ss [] = []).
      { destruct (bfold ss []) as [|u l] eqn:E; [reflexivity|]. destruct (Hb u (or_introl eq_refl)) as (s & Hs & Hu).
        destruct (Hp s Hs) as (i & As). unfold faces in Hu. rewrite As in Hu. destruct Hu. }
      rewrite E. reflexivity. }
    assert (Hbo : forall u, In u (bfold ss []) -> exists i, assoc u (r_simp r) = Some (p, i)).
    { intros u Hu. destruct (Hb u Hu) as (s & Hs & Hf). destruct (Hp s Hs) as (i & As). exact (face_is_simplex r HS s u p i As Hf). }
    unfold boundary. rewrite (chain_ok _ p Hbo). f_equal. fold (bfold (bfold ss []) []).
    apply nil_of_no_member. intros w. rewrite memn_bfold. cbn [memn existsb]. rewrite xorb_false_l.
    destruct p as [|k].
    { (* edges: their boundary consists of points, which have no faces *)
      rewrite (parity_ext _ (fun _ => false)); [apply parity_false|].
      intros u Hu. destruct (Hbo u Hu) as (i & Au). unfold faces. now rewrite Au. }
    rewrite (parity_restrict _ (bfold ss []) (simplicesOfOrder r (S k))).
    - rewrite (parity_ext _ (fun u => memn w (faces r u) && parity (map (fun s => memn u (faces r s)) ss))).
      2: { intros u _. rewrite memn_bfold. cbn [memn existsb]. now rewrite xorb_false_l. }
      rewrite (parity_swap (fun u => memn w (faces r u)) (fun u s => memn u (faces r s))).
      rewrite (parity_ext _ (fun _ => false)); [apply parity_false|].
      intros s Hs. destruct (Hp s Hs) as (j & As). exact (inner_zero s k j w As).
    - apply NoDup_bfold. constructor.
    - apply simplicesOfOrder_nodup. exact P.
    - intros u Hu. destruct (Hbo u Hu) as (i & Au). apply Pm in Au. destruct Au as [Lt Hi].
      unfold simplicesOfOrder. apply Nat.ltb_lt in Lt. rewrite Lt. eapply nth_error_In; eauto.
  Qed.
End DD.
