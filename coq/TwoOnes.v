(* TwoOnes.v -- in a complex built by public operations every column of the order-1 boundary
   operator has exactly two ones (an edge has two distinct end points).  Plain Coq. *)
From Coq Require Import String ZArith Bool Arith List Lia.
From SV Require Import Names NamesFacts ListFacts Rep Fresh Complex Atomic RepInv Shapes Incidence AddEffect Closed.
Import ListNotations.
Open Scope nat_scope.

Definition count_true (l : list bool) : nat := length (filter (fun b => b) l).

Lemma length_names_of_col idx : forall col, length col = length idx -> length (names_of_col idx col) = count_true col.
Proof.
  unfold names_of_col, count_true. induction idx as [|a idx IH]; intros [|b col] H; simpl in *; try discriminate; auto.
  injection H as H. destruct b; simpl; rewrite IH; auto.
Qed.

Lemma one_true col : count_true col = 1 -> exists a, a < length col /\ forall i, nth i col false = (i =? a).
Proof.
  unfold count_true. induction col as [|b col IH]; simpl; intros H; [discriminate|].
  destruct b; simpl in H.
  - injection H as H. exists 0. split; [lia|]. intros [|i]; simpl; [reflexivity|].
    assert (Hall : forall i, nth i col false = false).
    { clear -H. induction col as [|b col IH]; intros [|i]; simpl in *; auto.
      - destruct b; [discriminate | reflexivity].
      - apply IH. destruct b; [discriminate | exact H]. }
    apply Hall.
  - destruct (IH H) as (a & Ha & Hi). exists (S a). split; [lia|]. intros [|i]; simpl; [reflexivity | apply Hi].
Qed.

Lemma two_trues col : count_true col = 2 ->
  exists a b, a < b /\ b < length col /\ forall i, nth i col false = (i =? a) || (i =? b).
Proof.
  unfold count_true. induction col as [|c col IH]; simpl; intros H; [discriminate|].
  destruct c; simpl in H.
  - injection H as H. destruct (one_true col H) as (b & Hb & Hi). exists 0, (S b). split; [lia|]. split; [lia|].
    intros [|i]; simpl; [reflexivity | apply Hi].
  - destruct (IH H) as (a & b & Hab & Hb & Hi). exists (S a), (S b). split; [lia|]. split; [lia|].
    intros [|i]; simpl; [reflexivity | apply Hi].
Qed.

Theorem edge_columns r : cinv r -> 1 < r_nord r ->
  forall j, j < ncols (boundaryOperator r 1) ->
  exists a b, a < b /\ b < nrows (boundaryOperator r 1) /\
    forall i, mentry (boundaryOperator r 1) i j = (i =? a) || (i =? b).
Proof.
  intros [HS F] Hn j Hj. pose proof HS as [P Lb Ls Sh]. pose proof P as [K Pm St L].
  assert (EB : boundaryOperator r 1 = bndk r 1).
  { unfold boundaryOperator. simpl. now replace (r_nord r <=? 1) with false by (symmetry; apply Nat.leb_gt; lia). }
  rewrite EB in *.
  destruct (Sh 1 Hn) as [_ Hd]. specialize (Hd ltac:(lia)). simpl in Hd. destruct Hd as (Hok & Hr & Hc).
  rewrite Hc in Hj.
  destruct (nth_error (idxk r 1) j) as [e|] eqn:Ee; [|apply nth_error_None in Ee; lia].
  assert (Ae : assoc e (r_simp r) = Some (1, j)) by (apply Pm; auto).
  pose proof (F e 0 j Ae) as Hlen. unfold faces in Hlen. rewrite Ae in Hlen.
  assert (Hcl : length (getcol j (bndk r 1)) = length (idxk r 0)).
  { apply (length_getcol _ _ _ j (conj Hok (conj Hr Hc))). exact Hj. }
  rewrite (length_names_of_col _ _ Hcl) in Hlen.
  destruct (two_trues _ Hlen) as (a & b & Hab & Hb & Hi).
  exists a, b. split; [exact Hab|]. split; [rewrite Hr, <- Hcl; exact Hb|].
  intros i. unfold mentry. apply Hi.
Qed.
