(* Filtration.v -- model of simplicial/filtration.py: the overridden methods, and the inherited
   ones the properties use, instantiated with the overridden interface exactly as Python's
   method resolution does.  Indices are numbers in units of 1/4 (ints and floats compare
   exactly in Python).  Model file: no proofs. *)
From Coq Require Import String ZArith Bool Arith List.
From SV Require Import Names Rep Complex Homology.
Import ListNotations.
Open Scope nat_scope.

Definition idx := Z.
Record filt := mkFilt {
  f_rep : rep;
  f_index : idx;
  f_appears : list (name * idx);          (* _appears *)
  f_includes : list (idx * list name);    (* _includes : index -> set of simplices *)
  f_maxOrders : list (idx * Z) }.         (* _maxOrders (dead data on the control path) *)

Fixpoint zassoc {B} (i : idx) (l : list (idx * B)) : option B :=
  match l with [] => None | (k, v) :: t => if Z.eqb i k then Some v else zassoc i t end.
Fixpoint zassoc_del {B} (i : idx) (l : list (idx * B)) : list (idx * B) :=
  match l with [] => [] | (k, v) :: t => if Z.eqb i k then t else (k, v) :: zassoc_del i t end.
Fixpoint zassoc_set {B} (i : idx) (b : B) (l : list (idx * B)) : list (idx * B) :=
  match l with
  | [] => [(i, b)]
  | (k, v) :: t => if Z.eqb i k then (k, b) :: t else (k, v) :: zassoc_set i b t
  end.
Fixpoint zinsert (i : Z) (l : list Z) : list Z :=
  match l with [] => [i] | h :: t => if (i <=? h)%Z then i :: h :: t else h :: zinsert i t end.
Definition zsort (l : list Z) : list Z := fold_right zinsert [] l.

Definition new_filt (uid : nat) (ind : idx) : filt :=
  mkFilt (empty_rep uid) ind [] [(ind, [])] [(ind, (-1)%Z)].

Definition f_indices (f : filt) : list idx := zsort (map fst (f_includes f)).
Definition f_isIndex (f : filt) (i : idx) : bool :=
  match zassoc i (f_includes f) with Some _ => true | None => false end.

Fixpoint index_in (i : Z) (l : list Z) (pos : nat) : option nat :=
  match l with [] => None | h :: t => if Z.eqb i h then Some pos else index_in i t (S pos) end.

Definition f_setIndex (f : filt) (ind : idx) : filt :=
  if f_isIndex f ind then mkFilt (f_rep f) ind (f_appears f) (f_includes f) (f_maxOrders f)
  else
    let inc := f_includes f ++ [(ind, [])] in
    let inds := zsort (map fst inc) in
    let mo := match index_in ind inds 0 with
              | Some (S i) => match zassoc (nth i inds 0%Z) (f_maxOrders f) with
                              | Some m => m | None => (-1)%Z end
              | _ => (-1)%Z
              end in
    mkFilt (f_rep f) ind (f_appears f) inc (f_maxOrders f ++ [(ind, mo)]).

(* setNextIndex / setPreviousIndex: ValueError when the current index is not an index *)
Definition f_setNext (f : filt) : filt * res idx :=
  let inds := f_indices f in
  match index_in (f_index f) inds 0 with
  | None => (f, Raise ValueError)
  | Some i =>
      if S i =? length inds then (f, Ok (f_index f))
      else let j := nth (S i) inds 0%Z in
           (mkFilt (f_rep f) j (f_appears f) (f_includes f) (f_maxOrders f), Ok j)
  end.
Definition f_setPrev (f : filt) : filt * res idx :=
  let inds := f_indices f in
  match index_in (f_index f) inds 0 with
  | None => (f, Raise ValueError)
  | Some 0 => (f, Ok (f_index f))
  | Some (S i) => let j := nth i inds 0%Z in
                  (mkFilt (f_rep f) j (f_appears f) (f_includes f) (f_maxOrders f), Ok j)
  end.
Definition f_setMin (f : filt) : filt * res unit :=
  match f_indices f with [] => (f, Raise IndexError) | i :: _ => (f_setIndex f i, Ok tt) end.
Definition f_setMax (f : filt) : filt * res unit :=
  match rev (f_indices f) with [] => (f, Raise IndexError) | i :: _ => (f_setIndex f i, Ok tt) end.

Definition f_containsSome (f : filt) (s : name) : bool := containsSimplex (f_rep f) s.
Definition f_contains (f : filt) (s : name) : bool :=
  containsSimplex (f_rep f) s &&
  match assoc s (f_appears f) with Some i => (i <=? f_index f)%Z | None => false end.
Definition f_orderOf (f : filt) (s : name) : res nat :=
  match orderOf (f_rep f) s with Ok k => Ok k | Raise _ => Raise PlainException end.
Definition f_indexOf (f : filt) (s : name) : res nat :=
  match indexOf (f_rep f) s with Ok k => Ok k | Raise _ => Raise PlainException end.
Definition f_simplices (f : filt) (reverse : bool) : list name :=
  filter (f_contains f) (simplices (f_rep f) reverse).

Definition with_rep (f : filt) (r : rep) : filt :=
  mkFilt r (f_index f) (f_appears f) (f_includes f) (f_maxOrders f).

(* Filtration.addSimplex *)
Definition f_addSimplex (f : filt) (fs : list name) (id : option name) (attr : option handle)
  : filt * res name :=
  if existsb (fun x => f_containsSome f x && negb (f_contains f x)) fs then (f, Raise ValueError) else
  match addSimplex (f_rep f) fs id attr with
  | (r', Raise e) => (with_rep f r', Raise e)
  | (r', Ok nid) =>
      let ind := f_index f in
      let app' := f_appears f ++ [(nid, ind)] in
      match zassoc ind (f_includes f), zassoc ind (f_maxOrders f) with
      | Some cur, Some mo =>
          (mkFilt r' ind app'
                  (zassoc_set ind (cur ++ [nid]) (f_includes f))
                  (if (mo <? maxOrder r')%Z then zassoc_set ind (maxOrder r') (f_maxOrders f)
                   else f_maxOrders f), Ok nid)
      | _, _ => (mkFilt r' ind app' (f_includes f) (f_maxOrders f), Raise KeyError)
      end
  end.

(* Filtration.forceDeleteSimplex *)
Definition f_forceDelete (f : filt) (s : name) : filt * res unit :=
  match forceDeleteSimplex (f_rep f) s with
  | (r', Raise e) => (with_rep f r', Raise e)
  | (r', Ok _) =>
      match assoc s (f_appears f) with
      | None => (with_rep f r', Raise KeyError)
      | Some i =>
          let app' := assoc_del s (f_appears f) in
          let cur := match zassoc i (f_includes f) with Some l => l | None => [] end in
          let cur' := filter (fun x => negb (name_eqb s x)) cur in
          if (length cur' =? 0) && negb (Z.eqb i (f_index f)) then
            (mkFilt r' (f_index f) app' (zassoc_del i (f_includes f)) (zassoc_del i (f_maxOrders f)), Ok tt)
          else
            (mkFilt r' (f_index f) app' (zassoc_set i cur' (f_includes f)) (f_maxOrders f), Ok tt)
      end
  end.

(* inherited deleteSimplex: partOf uses Filtration.orderOf and the representation's cofaces
   (not filtered by index), then Filtration.forceDeleteSimplex *)
Definition f_deleteSimplex (f : filt) (s : name) : filt * res unit :=
  match f_orderOf f s with
  | Raise e => (f, Raise e)
  | Ok _ =>
      match partOf (f_rep f) s true false with
      | Raise e => (f, Raise e)
      | Ok ts =>
          fold_left (fun acc t => match acc with
                                  | (f', Raise e) => (f', Raise e)
                                  | (f', Ok _) => f_forceDelete f' t
                                  end) ts (f, Ok tt)
      end
  end.

Definition f_addSimplexWithBasis :=
  addSimplexWithBasis filt f_rep with_rep f_contains f_orderOf f_addSimplex.

(* counting *)
Definition f_numberOfSimplices (f : filt) : nat :=
  fold_right Nat.add 0
             (map (fun i => if (i <=? f_index f)%Z
                            then match zassoc i (f_includes f) with Some l => length l | None => 0 end
                            else 0) (f_indices f)).
Fixpoint strip_zeros (l : list nat) : list nat :=     (* drop trailing zeros *)
  match l with
  | [] => []
  | n :: t => match strip_zeros t with
              | [] => if n =? 0 then [] else [n]
              | t' => n :: t'
              end
  end.
Definition f_numberOfSimplicesOfOrder (f : filt) : list nat :=
  strip_zeros (map (fun k => length (filter (f_contains f) (simplicesOfOrder (f_rep f) k)))
                   (seq 0 (r_nord (f_rep f)))).
Definition f_eulerCharacteristic (f : filt) : Z := alt_sum 1 (f_numberOfSimplicesOfOrder f).

(* birth indices *)
Definition f_addedAtIndex (f : filt) (s : name) : res idx :=
  if f_containsSome f s then
    match assoc s (f_appears f) with Some i => Ok i | None => Raise KeyError end
  else Raise PlainException.
(* simplicesAddedAtIndex: sorted by order; the order inside one order is Python's set order *)
Definition f_simplicesAddedAtIndex (f : filt) (i : idx) (reverse : bool) : res (list (nat * name)) :=
  match zassoc i (f_includes f) with
  | None => Raise ValueError
  | Some ss =>
      let ks := map (fun s => (match orderOf (f_rep f) s with Ok k => k | Raise _ => 0 end, s)) ss in
      Ok (if reverse then sort_desc ks else sort_asc ks)
  end.

(* what snap()/addSimplicesFrom see of the filtration at its current index *)
Definition f_view (f : filt) : srcview :=
  map (fun s => (s, (faces (f_rep f) s,
                     match assoc s (r_attr (f_rep f)) with Some h => h | None => (0, 0) end)))
      (f_simplices f false).

(* Filtration.copy(); `orders` gives, per index, the order in which simplicesAddedAtIndex
   listed the simplices (Python set order inside one order: an oracle argument) *)
Definition f_copy (hp : heap) (f : filt) (uid : nat) (orders : list (idx * list name))
  : heap * filt * res unit :=
  match f_indices f with
  | [] => (hp, new_filt uid 0%Z, Raise IndexError)
  | i0 :: _ =>
      let c0 := new_filt uid i0 in
      let '(hp', c', x) :=
        fold_left
          (fun (acc : heap * filt * res unit) (ind : idx) =>
             match acc with
             | (_, _, Raise _) => acc
             | (hp1, c1, Ok _) =>
                 let c2 := f_setIndex c1 ind in
                 let own := match f_simplicesAddedAtIndex f ind false with
                            | Ok l => map snd l | Raise _ => [] end in
                 let ss := match zassoc ind orders with
                           | Some l => if seteq l own && nodupb l then l else own
                           | None => own
                           end in
                 fold_left
                   (fun (acc : heap * filt * res unit) (s : name) =>
                      match acc with
                      | (_, _, Raise _) => acc
                      | (hp2, c3, Ok _) =>
                          let hs := match assoc s (r_attr (f_rep f)) with Some h => h | None => (0, 0) end in
                          let '(r4, h') := alloc (f_rep c3) in
                          let hp3 := heap_set hp2 h' (heap_get hp2 hs) in
                          let c4 := with_rep c3 r4 in
                          match f_orderOf f s with
                          | Raise e => (hp3, c4, Raise e)
                          | Ok k =>
                              match f_addSimplex c4 (if k =? 0 then [] else faces (f_rep f) s) (Some s) (Some h') with
                              | (c5, Raise e) => (hp3, c5, Raise e)
                              | (c5, Ok _) => (hp3, c5, Ok tt)
                              end
                          end
                      end) ss (hp1, c2, Ok tt)
             end) (f_indices f) (hp, c0, Ok tt) in
      (hp', f_setIndex c' i0, x)
  end.
