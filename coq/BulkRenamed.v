(* BulkRenamed.v -- C15 / C02: addSimplicesFrom under a renaming phi (a dict or a function, called once per simplex and
   remembered) inserts a copy of the source along phi: every source simplex s arrives as phi(s) with its order, with faces
   phi(faces of s) and with a dictionary of the receiver's own holding what the source's dictionary holds; the receiver's
   own simplices keep name, order, position, faces and points; membership = old + phi(source); the list returned is
   phi of the source's listing.  phi is the final memo: "the name the renaming gave s, s itself if it was never asked".
   Plain Coq. *)
From Coq Require Import String ZArith Bool Arith List Lia.
From SV Require Import Names NamesFacts ListFacts Rep Fresh Complex Atomic RepInv Reach Shapes AddEffect CopyFaithful
                       RelabelProofs RelabelAll RelabelPhi WorldProofs CopyAttrs.
Import ListNotations.
Open Scope nat_scope.

Definition grows (st st' : rl) : Prop := forall x v, assoc x (rl_memo st) = Some v -> assoc x (rl_memo st') = Some v.
Lemma grows_refl st : grows st st. Proof. intros x v H; exact H. Qed.
Lemma grows_trans a b c : grows a b -> grows b c -> grows a c. Proof. intros H1 H2 x v H. auto. Qed.

Lemma memo_of_grows st st' x v : grows st st' -> assoc x (rl_memo st) = Some v -> memo_of st' x = v.
Proof. intros G A. unfold memo_of. now rewrite (G x v A). Qed.

Lemma rl_map_memo rn : rn <> RNone -> forall l st st2 l', rl_map rn st l = (st2, l') ->
  grows st st2 /\ (forall x, In x l -> exists v, assoc x (rl_memo st2) = Some v) /\ l' = map (memo_of st2) l.
Proof.
  intros Hn. induction l as [|x l IH]; intros st st2 l' H; simpl in H.
  - injection H as <- <-. split; [apply grows_refl|]. split; [intros x []|reflexivity].
  - destruct (rl_apply rn st x) as [st1 y] eqn:E1. destruct (rl_map rn st1 l) as [st3 ys] eqn:E2. injection H as <- <-.
    destruct (rl_apply_memo rn st x st1 y Hn E1) as [A1 G1]. destruct (IH st1 st3 ys E2) as (G2 & M2 & ->).
    split; [eapply grows_trans; eauto|]. split.
    + intros z [<-|Hz]; [exists y; now apply G2|now apply M2].
    + simpl. f_equal. symmetry. now apply (memo_of_grows st1 st3 x y G2).
Qed.

Theorem bulk_add_renamed rn : rn <> RNone -> forall (src : srcview) hp r st ns hp' r' st' ns',
  sinv r -> addFrom_loop hp r rn st src ns = (hp', r', st', Ok ns') ->
  let phi := memo_of st' in
  sinv r' /\ grows st st' /\
  (forall s fs h, In (s, (fs, h)) src ->
     containsSimplex r' (phi s) = true /\ orderOf r' (phi s) = Ok (length fs - 1) /\
     (forall t, In t (faces r' (phi s)) <-> In t (map phi fs))) /\
  (forall s, containsSimplex r s = true ->
     containsSimplex r' s = true /\ orderOf r' s = orderOf r s /\ indexOf r' s = indexOf r s /\
     faces r' s = faces r s /\ basisOf r' s = basisOf r s) /\
  (forall s, containsSimplex r' s = containsSimplex r s || memn s (map phi (map fst src))) /\
  ns' = ns ++ map phi (map fst src).
Proof.
  intros Hn. induction src as [|[s [fs h]] rest IH]; intros hp r st ns hp' r' st' ns' Hinv H phi; cbn [addFrom_loop] in H.
  - injection H as _ <- <- <-. split; [exact Hinv|]. split; [apply grows_refl|]. split; [intros s fs h []|]. split.
    + intros s Hs. repeat split; auto.
    + split; [intros s; simpl; now rewrite orb_false_r|simpl; now rewrite app_nil_r].
  - destruct (rl_apply rn st s) as [st1 t] eqn:E1.
    destruct (negb (name_eqb s t) && containsSimplex r t); [discriminate|].
    destruct (rl_map rn st1 fs) as [st2 fs'] eqn:E2.
    destruct (alloc r) as [r1 h'] eqn:Ea.
    assert (Hs1 : same_obs r r1) by (pose proof (same_obs_alloc r) as X; now rewrite Ea in X).
    assert (Hinv1 : sinv r1) by (eapply sinv_same_obs; eauto).
    destruct (same_obs_queries r r1 Hs1) as (Qo & Qi & Qf & _ & Qb & Qc & _).
    destruct (addSimplex r1 fs' (Some t) (Some h')) as [r2 [id|e]] eqn:E; [|discriminate].
    destruct (addSimplex_given r1 fs' t h' r2 id E) as (-> & _ & Er2).
    destruct (addSimplex_effect r1 fs' (Some t) (Some h') r2 t Hinv1 E) as (Hnew & Hnd & Ho & Hf & Hold & Hall).
    assert (Hinv2 : sinv r2) by (eapply addSimplex_sinv; eauto).
    destruct (rl_apply_memo rn st s st1 t Hn E1) as [A1 G1]. destruct (rl_map_memo rn Hn fs st1 st2 fs' E2) as (G2 & M2 & Efs).
    destruct (IH _ _ _ _ _ _ _ _ Hinv2 H) as (Hinv' & G3 & Hsrc & Hkeep & Hcont & Hns). fold phi in Hsrc, Hcont, Hns.
    assert (Ps : phi s = t) by (apply (memo_of_grows st1 st' s t); [eapply grows_trans; eauto|exact A1]).
    assert (Pfs : map phi fs = fs').
    { rewrite Efs. apply map_ext_in. intros x Hx. destruct (M2 x Hx) as (v & Av).
      unfold phi. rewrite (memo_of_grows st2 st' x v G3 Av). unfold memo_of. now rewrite Av. }
    split; [exact Hinv'|]. split; [eapply grows_trans; [exact G1|eapply grows_trans; eauto]|]. split; [|split; [|split]].
    + intros s0 fs0 h0 [Heq|Hin].
      * injection Heq as <- <- <-. rewrite Ps, Pfs.
        assert (Hc2 : containsSimplex r2 t = true) by (rewrite Hall, name_eqb_refl; apply orb_true_r).
        destruct (Hkeep t Hc2) as (C' & O' & _ & F' & _). split; [exact C'|]. split; [now rewrite O', Ho, <- Pfs, map_length|].
        intros u; now rewrite F'.
      * apply (Hsrc s0 fs0 h0 Hin).
    + intros s0 Hs0. assert (Hc1 : containsSimplex r1 s0 = true) by (now rewrite Qc).
      destruct (Hold s0 Hc1) as (O2 & I2 & F2 & B2).
      assert (Hc2 : containsSimplex r2 s0 = true) by (rewrite Hall, Hc1; reflexivity).
      destruct (Hkeep s0 Hc2) as (C' & O' & I' & F' & B').
      split; [exact C'|]. rewrite O', I', F', B', O2, I2, F2, B2, Qo, Qi, Qf, Qb. repeat split; reflexivity.
    + intros s0. rewrite Hcont, Hall, Qc. cbn [map fst]. rewrite Ps. simpl memn. destruct (containsSimplex r s0), (name_eqb s0 t), (memn s0 (map phi (map fst rest))); reflexivity.
    + rewrite Hns. cbn [map fst]. rewrite Ps, <- app_assoc. reflexivity.
Qed.
