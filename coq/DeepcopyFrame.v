(* Heap frame of copy.deepcopy (World.deepcopy_rep): the dictionaries that existed before the call
   are not written; every cell written belongs to the new object's owner uid; the new complex has
   the structure of the source, field by field, and one attribute entry per entry of the source,
   each owned by uid and holding what the source's dictionary held at the time of the call
   (provided no dictionary of the source is already owned by uid -- uid is fresh in exec). *)
From Coq Require Import String ZArith Bool Arith List Lia.
Import ListNotations.
From SV Require Import Names NamesFacts ListFacts Rep Fresh Complex Atomic RepInv Reach Homology Filtration Gen World WorldProofs CopyAttrs.

Definition dc_acc := (heap * list (name * handle) * nat * list (handle * handle))%type.
Definition dc_step (uid : nat) (acc : dc_acc) (p : name * handle) : dc_acc :=
  let '(hp1, at1, n1, memo) := acc in
  match find (fun m => handle_eqb (fst m) (snd p)) memo with
  | Some m => (hp1, at1 ++ [(fst p, snd m)], n1, memo)
  | None => let h' := (uid, n1) in
            (heap_set hp1 h' (heap_get hp1 (snd p)), at1 ++ [(fst p, h')], S n1, memo ++ [(snd p, h')])
  end.

Lemma deepcopy_rep_unfold hp r uid :
  deepcopy_rep hp r uid =
  let '(hp', attr', n, _) := fold_left (dc_step uid) (r_attr r) (hp, [], 0, []) in
  (hp', mkRep uid (r_nord r) (r_simp r) (r_idx r) (r_bnd r) (r_bas r) attr' (r_seq r) n).
Proof. reflexivity. Qed.

Lemma handle_neq_fst (h : handle) uid n : fst h <> uid -> handle_eqb h (uid, n) = false.
Proof.
  intros Hne. destruct (handle_eqb h (uid, n)) eqn:E; [|reflexivity].
  apply handle_eqb_eq in E. subst h. now elim Hne.
Qed.

Lemma dc_fold_frame uid l : forall acc hp' at' n' memo',
  fold_left (dc_step uid) l acc = (hp', at', n', memo') ->
  forall h, fst h <> uid -> heap_get hp' h = heap_get (fst (fst (fst acc))) h.
Proof.
  induction l as [|p l IH]; intros acc hp' at' n' memo' H h Hne.
  - cbn in H. subst acc. reflexivity.
  - cbn [fold_left] in H. rewrite (IH _ _ _ _ _ H h Hne).
    destruct acc as [[[hp1 at1] n1] memo]. cbn [dc_step fst].
    destruct (find _ memo) as [m|]; cbn [fst]; [reflexivity|].
    rewrite heap_get_set, handle_neq_fst by exact Hne. reflexivity.
Qed.

Theorem deepcopy_writes_only_new_cells hp r uid hp' r' :
  deepcopy_rep hp r uid = (hp', r') ->
  forall h, fst h <> uid -> heap_get hp' h = heap_get hp h.
Proof.
  rewrite deepcopy_rep_unfold. intros H h Hne.
  destruct (fold_left (dc_step uid) (r_attr r) (hp, [], 0, [])) as [[[hp1 at1] n1] memo1] eqn:E.
  injection H as <- _. exact (dc_fold_frame _ _ _ _ _ _ _ E h Hne).
Qed.

(* the structure is the source's, field by field, under the new owner *)
Theorem deepcopy_same_structure hp r uid hp' r' :
  deepcopy_rep hp r uid = (hp', r') ->
  r_uid r' = uid /\ r_nord r' = r_nord r /\ r_simp r' = r_simp r /\ r_idx r' = r_idx r /\
  r_bnd r' = r_bnd r /\ r_bas r' = r_bas r /\ r_seq r' = r_seq r.
Proof.
  rewrite deepcopy_rep_unfold. intros H.
  destruct (fold_left (dc_step uid) (r_attr r) (hp, [], 0, [])) as [[[hp1 at1] n1] memo1].
  injection H as _ <-. cbn. repeat split; reflexivity.
Qed.

(* one attribute entry per entry of the source, same names in the same order, every handle owned by uid *)
Lemma dc_fold_names uid l : forall acc hp' at' n' memo',
  fold_left (dc_step uid) l acc = (hp', at', n', memo') ->
  Forall (fun m => fst (snd m) = uid) (snd acc) ->
  Forall (fun q => fst (snd q) = uid) (snd (fst (fst acc))) ->
  map fst at' = map fst (snd (fst (fst acc))) ++ map fst l /\ Forall (fun q => fst (snd q) = uid) at'.
Proof.
  induction l as [|p l IH]; intros acc hp' at' n' memo' H Hm Ha.
  - cbn in H. subst acc. cbn. rewrite app_nil_r. split; [reflexivity|exact Ha].
  - cbn [fold_left] in H. destruct acc as [[[hp1 at1] n1] memo]. cbn [fst snd] in *.
    unfold dc_step in H at 2.
    destruct (find (fun m => handle_eqb (fst m) (snd p)) memo) as [m|] eqn:F.
    + apply find_some in F. destruct F as [Fin _].
      destruct (IH _ _ _ _ _ H) as [E1 E2]; cbn [fst snd].
      * exact Hm.
      * apply Forall_app. split; [exact Ha|]. constructor; [|constructor]. cbn.
        rewrite Forall_forall in Hm. exact (Hm _ Fin).
      * split; [|exact E2]. rewrite E1. cbn [fst snd]. rewrite map_app. cbn. rewrite <- app_assoc. reflexivity.
    + destruct (IH _ _ _ _ _ H) as [E1 E2]; cbn [fst snd].
      * apply Forall_app. split; [exact Hm|]. constructor; [reflexivity|constructor].
      * apply Forall_app. split; [exact Ha|]. constructor; [reflexivity|constructor].
      * split; [|exact E2]. rewrite E1. cbn [fst snd]. rewrite map_app. cbn. rewrite <- app_assoc. reflexivity.
Qed.

Theorem deepcopy_attr_names_and_owner hp r uid hp' r' :
  deepcopy_rep hp r uid = (hp', r') ->
  map fst (r_attr r') = map fst (r_attr r) /\ Forall (fun q => fst (snd q) = uid) (r_attr r').
Proof.
  rewrite deepcopy_rep_unfold. intros H.
  destruct (fold_left (dc_step uid) (r_attr r) (hp, [], 0, [])) as [[[hp1 at1] n1] memo1] eqn:E.
  injection H as _ <-. cbn [r_attr].
  destruct (dc_fold_names _ _ _ _ _ _ _ E) as [E1 E2]; cbn; auto.
Qed.

(* non-vacuity: two names sharing one dictionary and a third with its own; the copy has three
   entries under the new owner, the shared dictionary is copied once, the source's cells are intact *)
Example deepcopy_example :
  let d1 := [("k"%string, AInt 1%Z)] in let d2 := [("k"%string, AInt 2%Z)] in
  let hp := [((0, 0), d1); ((0, 1), d2)] in
  let r := mkRep 0 1 [] [] [] [] [(NInt 1%Z, (0, 0)); (NInt 2%Z, (0, 0)); (NInt 3%Z, (0, 1))] 0 2 in
  let '(hp', r') := deepcopy_rep hp r 7 in
  r_attr r' = [(NInt 1%Z, (7, 0)); (NInt 2%Z, (7, 0)); (NInt 3%Z, (7, 1))] /\
  heap_get hp' (7, 0) = d1 /\ heap_get hp' (7, 1) = d2 /\ heap_get hp' (0, 0) = d1 /\ heap_get hp' (0, 1) = d2.
Proof. vm_compute. repeat split; reflexivity. Qed.
