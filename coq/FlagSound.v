(* FlagSound.v -- `_completePotentialSimplices` keeps the vertex-set reading (C11, C12): a
   combination of k+1 simplices of order k-1 that passes `_isClosed` is, by the minimal-cycle lemma,
   the set of facets of one set of k+1 points, and when `simplexWithFaces` finds nothing no simplex
   sits on those points yet -- so the `addSimplex` that follows is an add of `good_faces`.  Hence
   flagComplex / growFlagComplex of a complex that meets the reading meets it again, and every
   simplex they create sits on a clique of the 1-skeleton.  Plain Coq. *)
From Coq Require Import String ZArith Bool Arith List Lia.
From SV Require Import Names NamesFacts ListFacts Rep Fresh Complex Atomic RepInv Reach Shapes Incidence AddEffect
                       Closed ClosedReach AddBasis BasisInv Duality DeleteEffect VInv AwbSpec VSets DD CopyFaithful
                       Homology ListMat Listing FlagExt VIso MinCycle.
Import ListNotations.
Open Scope nat_scope.

(* ---------- _isClosed on the matrix: every row of the column sum is even ---------- *)
Lemma fold_xor_length (bnd : mat) nr nc : dims bnd nr nc -> forall fs acc, length acc = nr ->
  (forall j, In j fs -> j < nc) ->
  length (fold_left (fun a j => xor_row a (getcol j bnd)) fs acc) = nr.
Proof.
  intros D. induction fs as [|j t IH]; intros acc Ha Hj; simpl; [exact Ha|].
  apply IH; [|intros; apply Hj; now right]. now rewrite length_xor_row.
Qed.

Lemma fold_xor_nth (bnd : mat) nr nc : dims bnd nr nc -> forall fs acc i, length acc = nr -> i < nr ->
  (forall j, In j fs -> j < nc) ->
  nth i (fold_left (fun a j => xor_row a (getcol j bnd)) fs acc) false =
  xorb (nth i acc false) (parity (map (fun j => mentry bnd i j) fs)).
Proof.
  intros D. induction fs as [|j t IH]; intros acc i Ha Hi Hj; simpl; [now rewrite xorb_false_r|].
  assert (Lc : length (getcol j bnd) = nr) by (eapply length_getcol; eauto; apply Hj; now left).
  rewrite IH; [|now rewrite length_xor_row|exact Hi|intros; apply Hj; now right].
  rewrite nth_xor_row by congruence. rewrite xorb_assoc. reflexivity.
Qed.

Lemma forallb_negb_nth (l : list bool) : forallb negb l = true <-> forall i, i < length l -> nth i l false = false.
Proof.
  induction l as [|b t IH]; simpl.
  - split; [intros _ i Hi; lia | reflexivity].
  - rewrite andb_true_iff, IH. split.
    + intros [Hb Ht] [|i] Hi; [now destruct b|]. apply Ht. lia.
    + intros H. split; [specialize (H 0 ltac:(lia)); simpl in H; now subst b|]. intros i Hi. apply (H (S i)). lia.
Qed.

Lemma nth_repeat_false n i : nth i (repeat false n) false = false.
Proof. revert i. induction n as [|n IH]; intros [|i]; simpl; auto. Qed.

Lemma isClosed_parity (bnd : mat) nr nc fs : dims bnd nr nc -> (forall j, In j fs -> j < nc) ->
  (isClosed bnd fs = true <-> forall i, i < nr -> parity (map (fun j => mentry bnd i j) fs) = false).
Proof.
  intros D Hj. unfold isClosed. pose proof D as (_ & Hr & _). rewrite Hr.
  assert (Lr : length (repeat false nr) = nr) by apply repeat_length.
  rewrite forallb_negb_nth. rewrite (fold_xor_length bnd nr nc D fs _ Lr Hj).
  split; intros H i Hi.
  - specialize (H i Hi). rewrite (fold_xor_nth bnd nr nc D fs _ i Lr Hi Hj) in H.
    rewrite nth_repeat_false, xorb_false_l in H. exact H.
  - rewrite (fold_xor_nth bnd nr nc D fs _ i Lr Hi Hj). rewrite nth_repeat_false, xorb_false_l. now apply H.
Qed.

(* ---------- the same test, read on names ---------- *)
Section Names.
  Variable r : rep.
  Hypothesis HS : sinv r.
  Let P : pinv r := s_p r HS.
  Variable k' : nat.              (* the faces offered have order S k' *)
  Hypothesis Hk : S k' < r_nord r.

  Definition cfs_of (fs : list nat) : list name := map (fun i => nth i (simplicesOfOrder r (S k')) (NInt 0)) fs.

  Lemma bnd_dims : dims (boundaryOperator r (S k')) (length (simplicesOfOrder r k')) (length (simplicesOfOrder r (S k'))).
  Proof.
    pose proof (s_sh r HS (S k') Hk) as [_ D]. specialize (D ltac:(lia)).
    unfold boundaryOperator. simpl (S k' =? 0). cbv iota.
    replace (r_nord r <=? S k') with false by (symmetry; apply Nat.leb_gt; lia).
    unfold simplicesOfOrder. replace (S k' <? r_nord r) with true by (symmetry; apply Nat.ltb_lt; lia).
    replace (k' <? r_nord r) with true by (symmetry; apply Nat.ltb_lt; lia).
    replace (S k' - 1) with k' in D by lia. exact D.
  Qed.

  Lemma closed_names (fs : list nat) : (forall j, In j fs -> j < length (simplicesOfOrder r (S k'))) ->
    (isClosed (boundaryOperator r (S k')) fs = true <->
     forall w, parity (map (fun f => memn w (faces r f)) (cfs_of fs)) = false).
  Proof.
    intros Hj. rewrite (isClosed_parity _ _ _ fs bnd_dims Hj).
    assert (E : forall i t, nth_error (simplicesOfOrder r k') i = Some t ->
                parity (map (fun j => mentry (boundaryOperator r (S k')) i j) fs) =
                parity (map (fun f => memn t (faces r f)) (cfs_of fs))).
    { intros i t Ht. unfold cfs_of. rewrite map_map. apply parity_ext. intros j Hin.
      specialize (Hj j Hin).
      assert (Hs : nth_error (simplicesOfOrder r (S k')) j = Some (nth j (simplicesOfOrder r (S k')) (NInt 0)))
        by (now apply List.nth_error_nth').
      pose proof (boundary_entries r k' i j _ t HS Hs Ht) as B.
      destruct (mentry (boundaryOperator r (S k')) i j) eqn:Em; symmetry.
      - apply memn_In. now apply B.
      - destruct (memn t (faces r (nth j (simplicesOfOrder r (S k')) (NInt 0)))) eqn:Ef; auto.
        apply memn_In in Ef. apply B in Ef. discriminate. }
    split.
    - intros H w. destruct (In_dec name_eq_dec w (simplicesOfOrder r k')) as [Hin|Hn].
      + apply In_nth_error in Hin. destruct Hin as (i & Hi). rewrite <- (E i w Hi). apply H.
        apply nth_error_Some. congruence.
      + rewrite (parity_ext _ (fun _ => false)); [apply parity_false|].
        intros f Hf. destruct (memn w (faces r f)) eqn:Em; auto. exfalso. apply Hn. apply memn_In in Em.
        unfold cfs_of in Hf. apply in_map_iff in Hf. destruct Hf as (j & <- & Hjn). specialize (Hj j Hjn).
        pose proof P as [K Pm St L].
        assert (As : assoc (nth j (simplicesOfOrder r (S k')) (NInt 0)) (r_simp r) = Some (S k', j)).
        { apply Pm. split; [lia|]. rewrite <- simplicesOfOrder_idxk by exact P. now apply List.nth_error_nth'. }
        destruct (face_is_simplex r HS _ w k' j As Em) as (i & Aw). apply Pm in Aw. destruct Aw as [_ Aw].
        rewrite <- simplicesOfOrder_idxk in Aw by exact P. eapply nth_error_In; eauto.
    - intros H i Hi. destruct (nth_error (simplicesOfOrder r k') i) as [t|] eqn:Et.
      + rewrite (E i t Et). apply H.
      + apply nth_error_None in Et. lia.
  Qed.
End Names.

(* ---------- combinations ---------- *)
Lemma combs_sub {A} (k : nat) : forall (l : list A) c, In c (combs k l) -> incl c l /\ (NoDup l -> NoDup c).
Proof.
  induction k as [|k IH]; intros l c H.
  - assert (c = []) by (destruct l; simpl in H; destruct H as [H|H]; auto; destruct H). subst c.
    split; [intros x Hx; destruct Hx | constructor].
  - induction l as [|x t IHl]; simpl in H; [destruct H|]. apply in_app_or in H. destruct H as [H|H].
    + apply in_map_iff in H. destruct H as (c0 & <- & Hc0). destruct (IH t c0 Hc0) as [Hi Hn]. split.
      * intros y [<-|Hy]; [now left | right; now apply Hi].
      * intros Hnd. inversion Hnd as [|? ? Hx Ht]; subst. constructor; [|now apply Hn]. intros Hin. apply Hx. now apply Hi.
    + destruct (IHl H) as [Hi Hn]. split; [intros y Hy; right; now apply Hi|].
      intros Hnd. inversion Hnd; subst. now apply Hn.
Qed.

(* ---------- simplexWithFaces answering None ---------- *)
Lemma last_map_Some {A} (l : list A) : last (map Some l) None = None -> l = [].
Proof.
  destruct l as [|a t]; [reflexivity|]. intros H. exfalso.
  assert (G : forall (l : list A) a, exists b, last (map Some (a :: l)) None = Some b).
  { induction l as [|x l IH]; intros a0; [exists a0; reflexivity|]. destruct (IH x) as (b & Hb). exists b.
    change (map Some (a0 :: x :: l)) with (Some a0 :: map Some (x :: l)).
    simpl. simpl in Hb. exact Hb. }
  destruct (G t a) as (b & Hb). congruence.
Qed.

Lemma swf_none r fs : simplexWithFaces r fs = Ok None ->
  forall s, In s (simplicesOfOrder r (length fs - 1)) -> seteq (faces r s) fs = false.
Proof.
  unfold simplexWithFaces. intros H s Hs. destruct (length fs <=? 1); [discriminate|].
  destruct (all_orders r fs) as [os|e]; [|discriminate].
  destruct (forallb (fun o => o =? length fs - 1 - 1) os); [|discriminate].
  injection H as H. apply last_map_Some in H.
  destruct (seteq (faces r s) fs) eqn:E; auto. exfalso.
  assert (Hin : In s (filter (fun s0 => seteq (faces r s0) fs) (simplicesOfOrder r (length fs - 1))))
    by (apply filter_In; auto).
  rewrite H in Hin. destruct Hin.
Qed.

(* ---------- a closed combination that no simplex has as its faces is an add of good faces ---------- *)
Lemma closed_good_faces r k fs : vinv r -> NoDup fs -> length fs = S (S (S k)) ->
  (forall f, In f fs -> exists j, assoc f (r_simp r) = Some (S k, j)) ->
  (forall w, parity (map (fun f => memn w (faces r f)) fs) = false) ->
  simplexWithFaces r fs = Ok None -> good_faces r fs.
Proof.
  intros Hv Hnd Hlen Hord Hcl Hn. right. intros B [HB Hspan].
  pose proof (s_p r (c_s r (b_c r (v_b r Hv)))) as P.
  destruct (min_cycle r Hv k fs Hnd Hlen Hord Hcl) as (B0 & NB0 & LB0 & I0 & C0).
  assert (SB : sameset B B0).
  { intros p. rewrite Hspan. split; [intros (f & Hf & Hp); now apply (I0 f Hf) | apply C0]. }
  split; [rewrite (NoDup_same_length B B0 HB NB0 SB); congruence|].
  intros t Ct Ss. pose proof Ct as Ct'. apply contains_assoc in Ct'. destruct Ct' as (kt & j & At).
  assert (kt = S (S k)).
  { pose proof (v_card r Hv t kt j At) as Lc.
    rewrite (NoDup_same_length (basisOf r t) B0) in Lc; [lia|apply basis_nodup; exact P|exact NB0|].
    intros x. rewrite (Ss x). apply SB. }
  subst kt.
  assert (Ss0 : sameset (basisOf r t) B0) by (intros x; rewrite (Ss x); apply SB).
  pose proof (faces_sameset_fs r Hv k fs Hnd Hlen Hord B0 NB0 LB0 I0 t j At Ss0) as Sf.
  assert (E : seteq (faces r t) fs = true) by (now apply seteq_sameset).
  rewrite (swf_none r fs Hn t) in E; [discriminate|].
  rewrite Hlen. simpl. rewrite simplicesOfOrder_idxk by exact P. destruct P as [K Pm St L].
  apply Pm in At. destruct At as [_ At]. eapply nth_error_In; eauto.
Qed.

(* ---------- one order of _completePotentialSimplices, as a fold with an invariant ---------- *)
Lemma cps_order_inv (J : rep -> Prop) r k newk1 nss maxk r' nss' maxk' x :
  J r ->
  (forall ra fs rb y, J ra -> In fs (combs (S k) (seq 0 (length (simplicesOfOrder r (k - 1))))) ->
     isClosed (boundaryOperator r (k - 1)) fs = true ->
     c_simplexWithFaces ra (map (fun i => nth i (simplicesOfOrder ra (k - 1)) (NInt 0)) fs) = Ok None ->
     addSimplex ra (map (fun i => nth i (simplicesOfOrder ra (k - 1)) (NInt 0)) fs) None None = (rb, y) -> J rb) ->
  cps_order r k newk1 nss maxk = (r', nss', maxk', x) -> J r'.
Proof.
  intros J0 Jstep. unfold cps_order.
  set (L := combs (S k) (seq 0 (length (simplicesOfOrder r (k - 1))))) in *.
  assert (HL : forall fs, In fs L -> In fs L) by auto.
  revert HL. generalize L at 1 3. intros L0 HL.
  set (bnd := boundaryOperator r (k - 1)) in *.
  assert (G : forall ra nsa ma xa, J ra ->
            forall r1 n1 m1 x1, fold_left
              (fun (acc : rep * nssT * nat * res unit) (fs : list nat) =>
                 match acc with
                 | (r', nss', maxk', Raise e) => acc
                 | (r', nss', maxk', Ok _) =>
                     if existsb (fun i => existsb (Nat.eqb i) newk1) fs && isClosed bnd fs then
                       let cfs := map (fun i => nth i (simplicesOfOrder r' (k - 1)) (NInt 0)) fs in
                       match c_simplexWithFaces r' cfs with
                       | Raise e => (r', nss', maxk', Raise e)
                       | Ok (Some _) => acc
                       | Ok None =>
                           match addSimplex r' cfs None None with
                           | (r'', Raise e) => (r'', nss', maxk', Raise e)
                           | (r'', Ok s) =>
                               match indexOf r'' s with
                               | Raise e => (r'', nss', maxk', Raise e)
                               | Ok i => (r'', nss_add k i nss', Nat.max maxk' k, Ok tt)
                               end
                           end
                       end
                     else acc
                 end) L0 (ra, nsa, ma, xa) = (r1, n1, m1, x1) -> J r1).
  { induction L0 as [|fs L0 IH]; intros ra nsa ma xa He r1 n1 m1 x1 H; simpl in H.
    - injection H as <- _ _ _. exact He.
    - assert (HL' : forall fs0, In fs0 L0 -> In fs0 L) by (intros; apply HL; now right).
      destruct xa as [u|e].
      2: { eapply (IH HL'); [exact He | exact H]. }
      destruct (existsb (fun i => existsb (Nat.eqb i) newk1) fs) eqn:Enew; simpl in H.
      2: { eapply (IH HL'); [exact He | exact H]. }
      destruct (isClosed bnd fs) eqn:Ecl.
      2: { eapply (IH HL'); [exact He | exact H]. }
      destruct (c_simplexWithFaces ra (map (fun i => nth i (simplicesOfOrder ra (k - 1)) (NInt 0)) fs)) as [[q|]|e] eqn:Eswf.
      + eapply (IH HL'); [exact He | exact H].
      + destruct (addSimplex ra (map (fun i => nth i (simplicesOfOrder ra (k - 1)) (NInt 0)) fs) None None) as [rb [s|e]] eqn:EA.
        * assert (Hb : J rb) by (eapply (Jstep ra fs rb); eauto; apply HL; now left).
          destruct (indexOf rb s); eapply (IH HL'); try exact H; exact Hb.
        * assert (Hb : J rb) by (eapply (Jstep ra fs rb); eauto; apply HL; now left).
          eapply (IH HL'); [exact Hb | exact H].
      + eapply (IH HL'); [exact He | exact H]. }
  intros H. eapply (G r nss maxk (Ok tt) J0). exact H.
Qed.

Lemma NoDup_map_nth (l : list name) d : NoDup l -> forall idxs, NoDup idxs -> (forall j, In j idxs -> j < length l) ->
  NoDup (map (fun i => nth i l d) idxs).
Proof.
  intros Hl. induction idxs as [|i t IH]; intros Hn Hj; simpl; [constructor|].
  inversion Hn as [|? ? Hi Ht]; subst. constructor; [|apply IH; auto; intros; apply Hj; now right].
  intros Hin. apply in_map_iff in Hin. destruct Hin as (j & E & Hjt).
  assert (i = j); [|subst; contradiction].
  symmetry. apply (proj1 (NoDup_nth l d) Hl); auto; [apply Hj; now right | apply Hj; now left].
Qed.

(* the state while one order is being completed *)
Record fl (r ra : rep) (k1 : nat) : Prop :=
  { fl_v : vinv ra; fl_e : ext2 r ra; fl_l : simplicesOfOrder ra k1 = simplicesOfOrder r k1;
    fl_b : forall s, containsSimplex r s = true -> basisOf ra s = basisOf r s }.

Lemma fl_step r k0 ra fs rb y : vinv r -> fl r ra (S k0) ->
  In fs (combs (S (S (S k0))) (seq 0 (length (simplicesOfOrder r (S k0))))) ->
  isClosed (boundaryOperator r (S k0)) fs = true ->
  c_simplexWithFaces ra (map (fun i => nth i (simplicesOfOrder ra (S k0)) (NInt 0)) fs) = Ok None ->
  addSimplex ra (map (fun i => nth i (simplicesOfOrder ra (S k0)) (NInt 0)) fs) None None = (rb, y) ->
  fl r rb (S k0).
Proof.
  intros Hv [Va Ea La Ba] Hfs Hcl Hswf Hadd.
  pose proof (c_s r (b_c r (v_b r Hv))) as HS. pose proof (s_p r HS) as P.
  pose proof (c_s ra (b_c ra (v_b ra Va))) as HSa.
  rewrite La in *.
  pose proof (combs_length _ _ _ Hfs) as Lfs.
  destruct (combs_sub _ _ _ Hfs) as [Ifs Nfs]. specialize (Nfs (seq_NoDup _ _)).
  assert (Hj : forall j, In j fs -> j < length (simplicesOfOrder r (S k0))).
  { intros j Hin. apply Ifs in Hin. apply in_seq in Hin. lia. }
  assert (Hk : S k0 < r_nord r).
  { destruct fs as [|j0 t]; [discriminate|]. specialize (Hj j0 (or_introl eq_refl)).
    unfold simplicesOfOrder in Hj. destruct (S k0 <? r_nord r) eqn:E; [now apply Nat.ltb_lt in E | simpl in Hj; lia]. }
  set (cfs := map (fun i => nth i (simplicesOfOrder r (S k0)) (NInt 0)) fs) in *.
  assert (Hcfs : forall f, In f cfs -> exists j, assoc f (r_simp r) = Some (S k0, j)).
  { intros f Hf. apply in_map_iff in Hf. destruct Hf as (j & <- & Hin). exists j.
    destruct P as [K Pm St L]. apply Pm. split; [exact Hk|].
    rewrite <- simplicesOfOrder_idxk by (constructor; auto). apply List.nth_error_nth'. now apply Hj. }
  assert (Hold : forall f, In f cfs -> containsSimplex r f = true).
  { intros f Hf. destruct (Hcfs f Hf) as (j & A). unfold containsSimplex. now rewrite A. }
  assert (Ncfs : NoDup cfs).
  { apply NoDup_map_nth; auto. rewrite simplicesOfOrder_idxk by exact P. apply pinv_nodup_order; auto. }
  assert (Lcfs : length cfs = S (S (S k0))) by (unfold cfs; now rewrite map_length).
  assert (Good : good_faces ra cfs).
  { apply (closed_good_faces ra k0 cfs Va Ncfs Lcfs).
    - intros f Hf. destruct (Hcfs f Hf) as (j & A). destruct (e_old r ra Ea f (Hold f Hf)) as (C & O & _).
      unfold orderOf in O. rewrite A in O. destruct (assoc f (r_simp ra)) as [[ko jo]|]; [|discriminate].
      injection O as ->. now exists jo.
    - intros w. rewrite (parity_ext _ (fun f => memn w (faces r f))).
      + apply (proj1 (closed_names r HS k0 Hk fs Hj) Hcl).
      + intros f Hf. destruct (e_old r ra Ea f (Hold f Hf)) as (_ & _ & F). now rewrite F.
    - exact Hswf. }
  constructor.
  - eapply addSimplex_vinv; eauto.
  - destruct y as [n|e].
    + apply (ext2_trans r ra rb Ea). eapply (ext2_add ra cfs rb n HSa); [lia | exact Hadd].
    + apply (ext2_trans r ra rb Ea). apply ext2_same_obs; [|exact HSa]. apply addSimplex_atomic in Hadd. tauto.
  - destruct y as [n|e].
    + rewrite (addSimplex_listing ra cfs None None rb n HSa Hadd). rewrite Lcfs.
      replace (S k0 =? S (S (S k0)) - 1) with false; [exact La|]. symmetry. apply Nat.eqb_neq. lia.
    + apply addSimplex_atomic in Hadd. destruct Hadd as [Hs _].
      destruct (same_obs_queries ra rb Hs) as (_ & _ & _ & _ & _ & _ & Ql & _). rewrite Ql. exact La.
  - intros s Hs. rewrite <- (Ba s Hs). destruct (e_old r ra Ea s Hs) as (Ca & _).
    destruct y as [n|e].
    + destruct (addSimplex_effect ra cfs None None rb n HSa Hadd) as (_ & _ & _ & _ & Hold' & _).
      destruct (Hold' s Ca) as (_ & _ & _ & B). exact B.
    + apply addSimplex_atomic in Hadd. destruct Hadd as [Hs' _].
      destruct (same_obs_queries ra rb Hs') as (_ & _ & _ & _ & Qb & _). apply Qb.
Qed.

Lemma cps_order_vinv r k0 newk1 nss maxk r' nss' maxk' x : vinv r ->
  cps_order r (S (S k0)) newk1 nss maxk = (r', nss', maxk', x) -> fl r r' (S k0).
Proof.
  intros Hv H.
  apply (cps_order_inv (fun ra => fl r ra (S k0)) r (S (S k0)) newk1 nss maxk r' nss' maxk' x); [| |exact H].
  - constructor; [exact Hv | apply ext2_refl; exact (c_s r (b_c r (v_b r Hv))) | reflexivity | reflexivity].
  - replace (S (S k0) - 1) with (S k0) by lia. intros ra fs rb y Hfl Hfs Hcl Hswf Hadd.
    eapply (fl_step r k0 ra fs rb y); eauto.
Qed.

Definition ext2b (r r' : rep) : Prop :=
  ext2 r r' /\ forall s, containsSimplex r s = true -> basisOf r' s = basisOf r s.
Lemma ext2b_refl r : sinv r -> ext2b r r.
Proof. intros H. split; [now apply ext2_refl | reflexivity]. Qed.
Lemma ext2b_trans a b c : ext2b a b -> ext2b b c -> ext2b a c.
Proof.
  intros [E1 B1] [E2 B2]. split; [eapply ext2_trans; eauto|]. intros s Hs.
  destruct (e_old a b E1 s Hs) as (Cb & _). rewrite (B2 s Cb). now apply B1.
Qed.

Lemma cps_loop_vinv fuel : forall k maxk r nss r' x, vinv r -> 1 <= k ->
  cps_loop fuel k maxk r nss = (r', x) -> vinv r' /\ ext2b r r'.
Proof.
  induction fuel as [|f IH]; intros k maxk r nss r' x Hv Hk H; simpl in H.
  - injection H as <- _. split; [exact Hv | apply ext2b_refl; exact (c_s r (b_c r (v_b r Hv)))].
  - destruct (maxk + 1 <? k); [injection H as <- _; split; [exact Hv | apply ext2b_refl; exact (c_s r (b_c r (v_b r Hv)))]|].
    replace (k - 0) with k in H by lia.
    destruct (nss_get k nss) as [[|i newk1]|].
    + eapply (IH (S k)); eauto.
    + set (nss1 := match nss_get (S k) nss with Some _ => nss | None => nss ++ [(S k, [])] end) in H.
      destruct k as [|k0]; [lia|].
      destruct (cps_order r (S (S k0)) (i :: newk1) nss1 maxk) as [[[r1 nss'] maxk'] [u|e]] eqn:E.
      * destruct (cps_order_vinv r k0 _ _ _ _ _ _ _ Hv E) as [V1 E1 _ B1].
        destruct (IH (S (S k0)) maxk' r1 nss' r' x V1 ltac:(lia) H) as [V2 E2].
        split; [exact V2 | eapply ext2b_trans; [split; eauto | exact E2]].
      * injection H as <- _. destruct (cps_order_vinv r k0 _ _ _ _ _ _ _ Hv E) as [V1 E1 _ B1]. split; [auto | split; auto].
    + eapply (IH (S k)); eauto.
Qed.

Theorem completePotentialSimplices_vinv r nss r' x : vinv r ->
  completePotentialSimplices r nss = (r', x) -> vinv r' /\ ext2b r r'.
Proof.
  intros Hv H. unfold completePotentialSimplices in H.
  destruct nss as [|p t]; [injection H as <- _; split; [exact Hv | apply ext2b_refl; exact (c_s r (b_c r (v_b r Hv)))]|].
  eapply cps_loop_vinv; [exact Hv | | exact H]. lia.
Qed.

Theorem growFlagComplex_vinv r news r' x : vinv r -> growFlagComplex r news = (r', x) -> vinv r' /\ ext2b r r'.
Proof.
  intros Hv H. unfold growFlagComplex in H.
  match type of H with match ?X with _ => _ end = _ => destruct X as [nss|e] end.
  - eapply completePotentialSimplices_vinv; eauto.
  - injection H as <- _. split; [exact Hv | apply ext2b_refl; exact (c_s r (b_c r (v_b r Hv)))].
Qed.

(* ---------- what a simplex of the result sits on ---------- *)
Definition edge_of (r : rep) (p q : name) : Prop :=
  exists e, In e (simplicesOfOrder r 1) /\ sameset (basisOf r e) [p; q].

Lemma order_listed r s k j : pinv r -> assoc s (r_simp r) = Some (k, j) -> In s (simplicesOfOrder r k).
Proof.
  intros P A. rewrite simplicesOfOrder_idxk by exact P. destruct P as [K Pm St L].
  apply Pm in A. destruct A as [_ A]. eapply nth_error_In; eauto.
Qed.

(* in a complex that meets the reading, any two points of a simplex are joined by an edge *)
Lemma simplex_is_clique r t p q : vinv r -> containsSimplex r t = true ->
  In p (basisOf r t) -> In q (basisOf r t) -> p <> q -> edge_of r p q.
Proof.
  intros Hv Ct Hp Hq Ne. pose proof (s_p r (c_s r (b_c r (v_b r Hv)))) as P.
  destruct (closed_under_subsets r Hv t [p; q] Ct) as (e & Ce & Se).
  - constructor; [intros [E|[]]; congruence | constructor; [intros [] | constructor]].
  - discriminate.
  - intros z [<-|[<-|[]]]; assumption.
  - exists e. split; [|exact Se]. apply contains_assoc in Ce. destruct Ce as (k & j & A).
    pose proof (v_card r Hv e k j A) as Lc.
    rewrite (NoDup_same_length (basisOf r e) [p; q]) in Lc.
    + simpl in Lc. injection Lc as <-. eapply order_listed; eauto.
    + apply basis_nodup; exact P.
    + constructor; [intros [E|[]]; congruence | constructor; [intros [] | constructor]].
    + exact Se.
Qed.

(* the edges of the result of a completion are the edges it started from *)
Lemma ext2b_edges r r' p q : vinv r -> vinv r' -> ext2b r r' -> edge_of r' p q -> edge_of r p q.
Proof.
  intros Hv Hv' [E B] (e & He & Se).
  pose proof (s_p r (c_s r (b_c r (v_b r Hv)))) as P. pose proof (s_p r' (c_s r' (b_c r' (v_b r' Hv')))) as P'.
  assert (A' : exists j, assoc e (r_simp r') = Some (1, j)).
  { rewrite simplicesOfOrder_idxk in He by exact P'. apply In_nth_error in He. destruct He as (j & Hj). exists j.
    destruct P' as [K Pm St L]. apply Pm. split; [|exact Hj].
    destruct (Nat.lt_ge_cases 1 (r_nord r')) as [Hl|Hl]; [exact Hl|]. rewrite (St 1 Hl) in Hj. destruct j; discriminate. }
  destruct A' as (j & A').
  assert (Ce' : containsSimplex r' e = true) by (unfold containsSimplex; now rewrite A').
  destruct (e_new r r' E e Ce') as [Ce|(k & Ok' & Hk)].
  2: { unfold orderOf in Ok'. rewrite A' in Ok'. injection Ok' as <-. lia. }
  destruct (e_old r r' E e Ce) as (_ & O & _). unfold orderOf in O. rewrite A' in O.
  destruct (assoc e (r_simp r)) as [[k0 j0]|] eqn:A; [|discriminate]. injection O as <-.
  exists e. split; [eapply order_listed; eauto|]. rewrite <- (B e Ce). exact Se.
Qed.

(* C11, soundness: whatever flagComplex returns meets the vertex-set reading, and every simplex of it
   sits on a set of points that are pairwise joined by an edge of the source *)
Theorem flagComplex_sound hp src uid hp' r' : vinv src -> flagComplex hp src uid = (hp', r', Ok tt) ->
  vinv r' /\
  (forall t p q, containsSimplex r' t = true -> In p (basisOf r' t) -> In q (basisOf r' t) -> p <> q ->
     edge_of src p q).
Proof.
  intros Hv H. unfold flagComplex in H.
  destruct (copy_new hp (view_of src) uid) as [[hp1 c] [[]|e]] eqn:E0; [|discriminate].
  destruct (completePotentialSimplices c (flag_seed c)) as [c' x] eqn:E1. injection H as <- <- ->.
  destruct (copy_vinv hp src uid hp1 c Hv E0) as [Vc Bc].
  destruct (completePotentialSimplices_vinv c (flag_seed c) c' (Ok tt) Vc E1) as [V' E'].
  split; [exact V'|]. intros t p q Ct Hp Hq Ne.
  pose proof (simplex_is_clique c' t p q V' Ct Hp Hq Ne) as Ed.
  apply (ext2b_edges c c' p q Vc V' E') in Ed. destruct Ed as (e & He & Se).
  exists e. split.
  - rewrite <- (copy_listing_per_order hp src uid hp1 c (b_c src (v_b src Hv)) E0 1). exact He.
  - intros z. rewrite <- (Se z). symmetry. apply Bc.
    pose proof (s_p c (c_s c (b_c c (v_b c Vc)))) as Pc.
    rewrite simplicesOfOrder_idxk in He by exact Pc. apply In_nth_error in He. destruct He as (j & Hj).
    destruct Pc as [K Pm St L]. unfold containsSimplex.
    assert (A : assoc e (r_simp c) = Some (1, j)).
    { apply Pm. split; [|exact Hj]. destruct (Nat.lt_ge_cases 1 (r_nord c)) as [Hl|Hl]; [exact Hl|].
      rewrite (St 1 Hl) in Hj. destruct j; discriminate. }
    now rewrite A.
Qed.

Theorem growFlagComplex_sound r news r' x : vinv r -> growFlagComplex r news = (r', x) ->
  vinv r' /\
  (forall t p q, containsSimplex r' t = true -> In p (basisOf r' t) -> In q (basisOf r' t) -> p <> q ->
     edge_of r p q).
Proof.
  intros Hv H. destruct (growFlagComplex_vinv r news r' x Hv H) as [V' E'].
  split; [exact V'|]. intros t p q Ct Hp Hq Ne.
  apply (ext2b_edges r r' p q Hv V' E'). eapply simplex_is_clique; eauto.
Qed.
