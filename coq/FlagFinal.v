(* FlagFinal.v -- C11 and C12 without side conditions: with CopyOk.v the working copy inside
   flagComplex always succeeds on a complex that meets the vertex-set reading.  Plain Coq. *)
From Coq Require Import String ZArith Bool Arith List Lia.
From SV Require Import Names NamesFacts ListFacts Rep Fresh Complex Atomic RepInv Reach Shapes Incidence AddEffect
                       Closed ClosedReach AddBasis BasisInv VInv AwbSpec VSets CopyFaithful Homology World
                       FlagExt VIso MinCycle FlagSound FlagComplete CopyOk VRProofs.
Import ListNotations.
Open Scope nat_scope.

Theorem flag_complex_is_clique_complex hp src uid : vinv src ->
  exists hp1 r', flagComplex hp src uid = (hp1, r', Ok tt) /\ vinv r' /\
    forall B, NoDup B -> 2 <= length B -> (carried r' B <-> clique src B).
Proof.
  intros Hv. destruct (copy_new_succeeds src Hv hp uid) as (hp1 & c & E0).
  destruct (flagComplex_is_clique_complex hp src uid hp1 c Hv E0) as (r' & H). exists hp1, r'. exact H.
Qed.

Theorem flag_complex_fills_facets hp src uid : vinv src ->
  exists hp1 r', flagComplex hp src uid = (hp1, r', Ok tt) /\
    forall B, NoDup B -> 3 <= length B -> (forall x, In x B -> carried r' (drop x B)) -> carried r' B.
Proof.
  intros Hv. destruct (copy_new_succeeds src Hv hp uid) as (hp1 & c & E0).
  destruct (flagComplex_fills_facets hp src uid hp1 c Hv E0) as (r' & H). exists hp1, r'. exact H.
Qed.

(* taking the flag complex again adds nothing: the families of the first and the second result coincide *)
Theorem flag_complex_idempotent hp src uid hp1 r1 hp' uid' : vinv src -> flagComplex hp src uid = (hp1, r1, Ok tt) ->
  exists hp2 r2, flagComplex hp' r1 uid' = (hp2, r2, Ok tt) /\
    forall B, NoDup B -> 2 <= length B -> (carried r2 B <-> carried r1 B).
Proof.
  intros Hv E1.
  destruct (flag_complex_is_clique_complex hp src uid Hv) as (hp1' & r1' & E1' & V1 & I1).
  rewrite E1 in E1'. injection E1' as <- <-.
  destruct (flag_complex_is_clique_complex hp' r1 uid' V1) as (hp2 & r2 & E2 & V2 & I2).
  exists hp2, r2. split; [exact E2|]. intros B HB LB. rewrite (I2 B HB LB). split.
  - (* a clique of r1's edges is a clique of the source's edges: r1's edges are carried 2-sets of r1 *)
    intros Cl. apply (I1 B HB LB). intros p q Hp Hq Ne.
    apply (proj1 (I1 [p; q] (nodup2 p q Ne) (le_n 2))); [|now left|right; now left|exact Ne].
    apply (edge_carried_iff r1 p q V1 Ne). now apply Cl.
  - intros Cr p q Hp Hq Ne. apply (edge_carried_iff r1 p q V1 Ne).
    destruct Cr as (t & Ct & St).
    destruct (closed_under_subsets r1 V1 t [p; q] Ct (nodup2 p q Ne)) as (e & Ce & Se); [discriminate| |exists e; auto].
    intros z [<-|[<-|[]]]; now apply St.
Qed.

(* C12 without side conditions *)
Theorem vr_complex_family hp uid u r close vr :
  NoDup (simplicesOfOrder r 0) ->
  (forall ij, In ij close -> fst ij < snd ij /\ snd ij < length (simplicesOfOrder r 0)) ->
  vr_build uid r close = (vr, Ok tt) ->
  exists hp1 r', flagComplex hp vr u = (hp1, r', Ok tt) /\ vinv r' /\
    (forall p, carried r' [p] <-> In p (simplicesOfOrder r 0)) /\
    vr_fam (simplicesOfOrder r 0) close r'.
Proof.
  intros Hnd Hcl Hb. destruct (vr_build_spec uid r close vr Hnd Hcl Hb) as (Hv & _).
  destruct (copy_new_succeeds vr Hv hp u) as (hp1 & c & E0).
  destruct (vr_family hp uid u r close vr hp1 c Hnd Hcl Hb E0) as (r' & H). exists hp1, r'. exact H.
Qed.
