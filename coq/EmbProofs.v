(* EmbProofs.v -- the embedding cache as a state machine (C20).  Plain Coq. *)
From Coq Require Import String ZArith Bool Arith List Lia.
From SV Require Import Names NamesFacts Rep Complex Homology Filtration Gen World.
Import ListNotations.
Open Scope nat_scope.

(* a position of the wrong dimension is rejected and changes nothing *)
Lemma positionSimplex_wrong_dim e s p : length p <> e_dim e -> emb_positionSimplex e s p = Raise ValueError.
Proof. intros H. unfold emb_positionSimplex. apply Nat.eqb_neq in H. now rewrite H. Qed.

(* an assigned position of the right dimension is what positionOf returns *)
Lemma assign_then_read e s p e' :
  emb_positionSimplex e s p = Ok e' -> emb_read (Ok 0) e' s = (e', Ok p).
Proof.
  unfold emb_positionSimplex. destruct (negb (length p =? e_dim e)); [discriminate|].
  intros H; injection H as <-. unfold emb_read. simpl. now rewrite assoc_set_same.
Qed.

(* reading any point never disturbs what the cache holds for another point *)
Lemma read_preserves_others ord e s t : t <> s -> assoc t (e_pos (fst (emb_read ord e s))) = assoc t (e_pos e).
Proof.
  intros Hne. unfold emb_read. destruct ord as [[|k]|x]; simpl; auto.
  destruct (assoc s (e_pos e)); simpl; auto. rewrite assoc_app. destruct (assoc t (e_pos e)); auto.
  simpl. now rewrite (name_eqb_neq t s).
Qed.

(* and never changes a position that is already there: assigned positions take precedence and
   persist over any number of reads (of this or other points) *)
Lemma read_preserves_present ord e s t p :
  assoc t (e_pos e) = Some p -> assoc t (e_pos (fst (emb_read ord e s))) = Some p.
Proof.
  intros H. unfold emb_read. destruct ord as [[|k]|x]; simpl; auto.
  destruct (assoc s (e_pos e)); simpl; auto. rewrite assoc_app. now rewrite H.
Qed.

Lemma assign_preserves_others e s p e' t :
  emb_positionSimplex e s p = Ok e' -> t <> s -> assoc t (e_pos e') = assoc t (e_pos e).
Proof.
  unfold emb_positionSimplex. destruct (negb (length p =? e_dim e)); [discriminate|].
  intros H Hne; injection H as <-. simpl. now apply assoc_set_other.
Qed.

Fixpoint reads (ord : name -> res nat) (e : emb) (ss : list name) : emb :=
  match ss with [] => e | s :: t => reads ord (fst (emb_read (ord s) e s)) t end.

Theorem precedence e s p e' ord ss :
  emb_positionSimplex e s p = Ok e' -> ord s = Ok 0 ->
  emb_read (ord s) (reads ord e' ss) s = (reads ord e' ss, Ok p).
Proof.
  intros Ha Ho. assert (H : assoc s (e_pos (reads ord e' ss)) = Some p).
  { assert (H0 : assoc s (e_pos e') = Some p).
    { unfold emb_positionSimplex in Ha. destruct (negb (length p =? e_dim e)); [discriminate|].
      injection Ha as <-. simpl. apply assoc_set_same. }
    clear Ha. revert e' H0. induction ss as [|x t IH]; intros e' H0; simpl; auto.
    apply IH. now apply read_preserves_present. }
  rewrite Ho. unfold emb_read. now rewrite H.
Qed.

(* computed positions are computed once and then cached: a second read does not call
   computePositionOf again and returns the same position *)
Theorem computed_once e s :
  let '(e1, p1) := emb_read (Ok 0) e s in
  let '(e2, p2) := emb_read (Ok 0) e1 s in
  p2 = p1 /\ e2 = e1 /\ (assoc s (e_pos e) = None -> e_calls e1 = e_calls e ++ [s]) /\
  (assoc s (e_pos e) <> None -> e_calls e1 = e_calls e).
Proof.
  unfold emb_read. destruct (assoc s (e_pos e)) as [p|] eqn:A.
  - rewrite A. repeat split; auto. congruence.
  - simpl. rewrite assoc_app, A. simpl. rewrite name_eqb_refl. repeat split; auto. congruence.
Qed.

(* a simplex of order above 0 has no position *)
Lemma read_higher_order e s k : emb_read (Ok (S k)) e s = (e, Raise ValueError).
Proof. reflexivity. Qed.

Lemma clear_forgets e s : assoc s (e_pos (emb_clear e)) = None.
Proof. reflexivity. Qed.

(* computePositionOf of the base class is the origin of the right dimension *)
Lemma computed_is_origin e s : assoc s (e_pos e) = None ->
  snd (emb_read (Ok 0) e s) = Ok (repeat zero_coord (e_dim e)) /\
  length (repeat zero_coord (e_dim e)) = e_dim e.
Proof. intros A. unfold emb_read. rewrite A. simpl. split; auto. apply repeat_length. Qed.
