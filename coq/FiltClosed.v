(* FiltClosed.v -- in a filtration a face is born no later than its cofaces, for every history of
   index changes, adds and deletes; hence the complex seen at any index is closed under faces (C13).
   Plain Coq. *)
From Coq Require Import String ZArith Bool Arith List Lia.
From SV Require Import Names NamesFacts ListFacts Rep Fresh Complex Atomic RepInv Reach Shapes Incidence AddEffect DelEffect StarOrder DeleteEffect
                       Homology Filtration FiltProofs.
Import ListNotations.
Open Scope nat_scope.

Record minv (f : filt) : Prop := {
  m_s : sinv (f_rep f);
  m_nd : NoDup (map fst (f_appears f));
  m_dom : forall s, assoc s (f_appears f) = None <-> containsSimplex (f_rep f) s = false;
  m_mono : forall s t bs, containsSimplex (f_rep f) s = true -> In t (faces (f_rep f) s) ->
           assoc s (f_appears f) = Some bs -> exists bt, assoc t (f_appears f) = Some bt /\ (bt <= bs)%Z }.

Lemma minv_new uid i : minv (new_filt uid i).
Proof.
  constructor; simpl.
  - apply sinv_empty.
  - constructor.
  - intros s. unfold containsSimplex. simpl. tauto.
  - intros s t bs H. discriminate.
Qed.

Lemma minv_index f j inc mo : minv f -> minv (mkFilt (f_rep f) j (f_appears f) inc mo).
Proof. intros [A B C D]. constructor; auto. Qed.

Lemma minv_same_obs f r' : same_obs (f_rep f) r' -> minv f -> minv (with_rep f r').
Proof.
  intros Hs [A B C D]. destruct (same_obs_queries _ _ Hs) as (_ & _ & Qf & _ & _ & Qc & _).
  constructor; simpl; auto.
  - eapply sinv_same_obs; eauto.
  - intros s. rewrite Qc. apply C.
  - intros s t bs. rewrite Qc, Qf. apply D.
Qed.

Theorem setIndex_minv f i : minv f -> minv (f_setIndex f i).
Proof. intros H. unfold f_setIndex. destruct (f_isIndex f i); now apply minv_index. Qed.

Theorem addSimplex_minv f fs id attr f' x : minv f -> f_addSimplex f fs id attr = (f', x) -> minv f'.
Proof.
  intros Hm H. unfold f_addSimplex in H.
  destruct (existsb (fun x0 => f_containsSome f x0 && negb (f_contains f x0)) fs) eqn:Ex; [now injection H as <- _|].
  destruct (addSimplex (f_rep f) fs id attr) as [r' [n|e]] eqn:E.
  2: { injection H as <- _. apply minv_same_obs; [|exact Hm]. apply addSimplex_atomic in E. tauto. }
  destruct Hm as [HS Hnd Hdom Hmono].
  destruct (addSimplex_effect _ _ _ _ _ _ HS E) as (Hnew & _ & _ & Hf & Hold & Hall).
  assert (HS' : sinv r') by (eapply addSimplex_sinv; eauto).
  assert (Hn : assoc n (f_appears f) = None) by (now apply Hdom).
  assert (Hm' : minv (mkFilt r' (f_index f) (f_appears f ++ [(n, f_index f)]) (f_includes f) (f_maxOrders f))).
  { constructor; simpl.
    - exact HS'.
    - rewrite map_app. simpl. apply NoDup_app_snoc; [exact Hnd|]. now apply assoc_none_notin.
    - intros s. rewrite assoc_app, Hall. destruct (name_eqb_spec s n) as [->|Hne].
      + rewrite Hn. simpl. rewrite name_eqb_refl, orb_true_r. split; discriminate.
      + rewrite orb_false_r. destruct (assoc s (f_appears f)) eqn:A.
        * split; [discriminate|]. intros Hc. apply Hdom in Hc. congruence.
        * simpl. rewrite (name_eqb_neq s n) by exact Hne. split; auto. intros _. now apply Hdom.
    - intros s t bs Hc Ht Hb. rewrite assoc_app in Hb. rewrite Hall in Hc.
      destruct (name_eqb_spec s n) as [->|Hne].
      + (* the new simplex: its faces are the ones asked for, all visible at the current index *)
        rewrite Hn in Hb. simpl in Hb. rewrite name_eqb_refl in Hb. injection Hb as <-.
        apply Hf in Ht.
        assert (Hvis : f_containsSome f t && negb (f_contains f t) = false).
        { destruct (f_containsSome f t && negb (f_contains f t)) eqn:Ev; [|reflexivity]. exfalso.
          assert (Hex : existsb (fun x0 => f_containsSome f x0 && negb (f_contains f x0)) fs = true)
            by (apply existsb_exists; exists t; auto). congruence. }
        assert (Hct : containsSimplex (f_rep f) t = true).
        { destruct (addSimplex_eq2 _ _ _ _ _ _ E) as (r2 & h & Hs & _ & _ & Hchk & _).
          destruct (check_faces_ok_orders r2 _ fs Hchk t Ht) as (fo & fi & Af & _).
          destruct Hs as (_ & _ & Hsimp & _). rewrite Hsimp in Af. unfold containsSimplex. now rewrite Af. }
        unfold f_containsSome in Hvis. rewrite Hct in Hvis. simpl in Hvis. apply negb_false_iff in Hvis.
        unfold f_contains in Hvis. rewrite Hct in Hvis. simpl in Hvis.
        destruct (assoc t (f_appears f)) as [bt|] eqn:At; [|discriminate]. apply Z.leb_le in Hvis.
        exists bt. split; [|exact Hvis]. rewrite assoc_app, At. reflexivity.
      + rewrite orb_false_r in Hc. destruct (Hold s Hc) as (_ & _ & F2 & _). rewrite F2 in Ht.
        destruct (assoc s (f_appears f)) as [b0|] eqn:A0.
        * injection Hb as <-. destruct (Hmono s t b0 Hc Ht A0) as (bt & At & Hle). exists bt. split; [|exact Hle].
          rewrite assoc_app, At. reflexivity.
        * apply Hdom in A0. congruence. }
  destruct (zassoc (f_index f) (f_includes f)) as [cur|]; [destruct (zassoc (f_index f) (f_maxOrders f)) as [mo|]|];
    injection H as <- _; destruct Hm' as [A B C D]; constructor; auto.
Qed.

Theorem forceDelete_minv f s f' x : minv f -> f_forceDelete f s = (f', x) -> minv f'.
Proof.
  intros Hm H. unfold f_forceDelete in H.
  destruct (forceDeleteSimplex (f_rep f) s) as [r' [[]|e]] eqn:E.
  2: { injection H as <- _. apply forceDeleteSimplex_atomic in E. destruct E as [-> _]. destruct Hm; constructor; auto. }
  destruct Hm as [HS Hnd Hdom Hmono].
  destruct (assoc s (r_simp (f_rep f))) as [[k i]|] eqn:As.
  2: { unfold forceDeleteSimplex in E. rewrite As in E. discriminate. }
  assert (Er : r' = fst (forceDeleteSimplex (f_rep f) s)) by (now rewrite E). 
  assert (HS' : sinv r') by (rewrite Er; apply (d_sinv _ s k i HS As)).
  pose proof (forceDelete_membership (f_rep f) s k i HS As) as Hmem. rewrite <- Er in Hmem.
  assert (Hm' : forall inc mo, minv (mkFilt r' (f_index f) (assoc_del s (f_appears f)) inc mo)).
  { intros inc mo. constructor; simpl.
    - exact HS'.
    - now apply nodup_assoc_del.
    - intros t. rewrite Hmem. destruct (name_eqb_spec t s) as [->|Hne].
      + rewrite assoc_del_same by exact Hnd. rewrite andb_false_r. tauto.
      + rewrite assoc_del_other by exact Hne. rewrite andb_true_r. apply Hdom.
    - intros t u bt Hc Hu Hb. rewrite Hmem in Hc. apply andb_prop in Hc. destruct Hc as [Hc Hne].
      apply negb_true_iff in Hne. assert (Hts : t <> s) by (intros ->; rewrite name_eqb_refl in Hne; discriminate).
      rewrite assoc_del_other in Hb by exact Hts.
      unfold containsSimplex in Hc. destruct (assoc t (r_simp (f_rep f))) as [[kt it]|] eqn:At; [|discriminate].
      destruct (d_faces (f_rep f) s k i HS As t kt it Hts At) as [Hf _]. rewrite <- Er in Hf.
      apply Hf in Hu. destruct Hu as [Hu Hus].
      assert (Hc0 : containsSimplex (f_rep f) t = true) by (unfold containsSimplex; now rewrite At).
      destruct (Hmono t u bt Hc0 Hu Hb) as (bu & Au & Hle). exists bu. split; [|exact Hle].
      now rewrite assoc_del_other. }
  destruct (assoc s (f_appears f)) as [i0|] eqn:Ab.
  - destruct ((length _ =? 0) && negb (Z.eqb i0 (f_index f))); injection H as <- _; apply Hm'.
  - exfalso. apply Hdom in Ab. unfold containsSimplex in Ab. rewrite As in Ab. discriminate.
Qed.

(* the inherited deleteSimplex: a fold of Filtration.forceDeleteSimplex *)
Definition f_del_step (acc : filt * res unit) (t : name) : filt * res unit :=
  match acc with (f', Raise e) => (f', Raise e) | (f', Ok _) => f_forceDelete f' t end.

Lemma f_fold_minv : forall (L : list name) f x0 f' x, minv f -> fold_left f_del_step L (f, x0) = (f', x) -> minv f'.
Proof.
  induction L as [|t L IH]; intros f x0 f' x Hm H; simpl in H; [now injection H as <- _|].
  destruct x0 as [u|e]; simpl in H.
  - destruct (f_forceDelete f t) as [f1 x1] eqn:E. eapply IH; [|exact H]. eapply forceDelete_minv; eauto.
  - eapply IH; eauto.
Qed.

Theorem deleteSimplex_minv f s f' x : minv f -> f_deleteSimplex f s = (f', x) -> minv f'.
Proof.
  intros Hm H. unfold f_deleteSimplex in H.
  destruct (f_orderOf f s); [|now injection H as <- _].
  destruct (partOf (f_rep f) s true false) as [L|e]; [|now injection H as <- _].
  exact (f_fold_minv L f (Ok tt) f' x Hm H).
Qed.

(* what the invariant gives: at every index, the visible simplices are closed under faces *)
Theorem view_closed_under_faces f i s t : minv f ->
  f_contains (at_index f i) s = true -> In t (faces (f_rep f) s) -> f_contains (at_index f i) t = true.
Proof.
  intros [HS Hnd Hdom Hmono] Hs Ht. unfold f_contains in *. simpl in *.
  apply andb_prop in Hs. destruct Hs as [Hc Hb].
  destruct (assoc s (f_appears f)) as [bs|] eqn:Ab; [|discriminate]. apply Z.leb_le in Hb.
  destruct (Hmono s t bs Hc Ht Ab) as (bt & At & Hle).
  assert (Hct : containsSimplex (f_rep f) t = true).
  { destruct (containsSimplex (f_rep f) t) eqn:E; [reflexivity|]. apply Hdom in E. congruence. }
  rewrite Hct, At. simpl. apply Z.leb_le. lia.
Qed.

(* ---------- every history of a filtration ---------- *)
Inductive fop :=
| FSetIndex (i : idx) | FNext | FPrev | FMin | FMax
| FAdd (fs : list name) (id : option name) (attr : option handle)
| FDelete (s : name).

Definition fstep (f : filt) (o : fop) : filt :=
  match o with
  | FSetIndex i => f_setIndex f i
  | FNext => fst (f_setNext f) | FPrev => fst (f_setPrev f)
  | FMin => fst (f_setMin f) | FMax => fst (f_setMax f)
  | FAdd fs id attr => fst (f_addSimplex f fs id attr)
  | FDelete s => fst (f_deleteSimplex f s)
  end.

Lemma fstep_minv f o : minv f -> minv (fstep f o).
Proof.
  intros H. destruct o; simpl.
  - now apply setIndex_minv.
  - unfold f_setNext. destruct (index_in _ _ _) as [i|]; [|exact H]. destruct (S i =? _); [exact H|]. now apply minv_index.
  - unfold f_setPrev. destruct (index_in _ _ _) as [[|i]|]; try exact H. now apply minv_index.
  - unfold f_setMin. destruct (f_indices f); [exact H|]. now apply setIndex_minv.
  - unfold f_setMax. destruct (rev (f_indices f)); [exact H|]. now apply setIndex_minv.
  - destruct (f_addSimplex f fs id attr) eqn:E. eapply addSimplex_minv; eauto.
  - destruct (f_deleteSimplex f s) eqn:E. eapply deleteSimplex_minv; eauto.
Qed.

Theorem filtration_history_minv uid i0 ops : minv (fold_left fstep ops (new_filt uid i0)).
Proof.
  assert (H : forall f, minv f -> minv (fold_left fstep ops f)).
  { induction ops as [|o t IH]; intros f Hf; simpl; auto. apply IH. now apply fstep_minv. }
  apply H. apply minv_new.
Qed.
