(* FiltCinv.v -- the complex under a filtration is closed (k+1 faces per simplex) at every point of
   every filtration history.  Plain Coq. *)
From Coq Require Import String ZArith Bool Arith List Lia.
From SV Require Import Names NamesFacts ListFacts Rep Fresh Complex Atomic RepInv Reach Shapes Incidence AddEffect
                       DelEffect StarOrder Closed ClosedReach BasisInv VInv Filtration FiltProofs FiltClosed.
Import ListNotations.
Open Scope nat_scope.

Lemma f_rep_raise_closed (l : list name) f e : f_rep (fst (fold_left f_del_step l (f, Raise e))) = f_rep f.
Proof. induction l as [|t l IH]; simpl; auto. Qed.
Lemma f_fold_raise (l : list name) f e : fold_left f_del_step l (f, Raise e) = (f, Raise e).
Proof. induction l as [|t l IH]; simpl; auto. Qed.

(* the representation under the filtration goes through a prefix of the plain deletion fold *)
Lemma f_fold_prefix : forall (L : list name) f f' x, fold_left f_del_step L (f, Ok tt) = (f', x) ->
  exists L1 L2 x', L = L1 ++ L2 /\ fold_left del_step L1 (f_rep f, Ok tt) = (f_rep f', x').
Proof.
  induction L as [|t L IH]; intros f f' x H; simpl in H.
  - injection H as <- _. exists [], [], (Ok tt). split; reflexivity.
  - unfold f_forceDelete in H. destruct (forceDeleteSimplex (f_rep f) t) as [r' [[]|e]] eqn:E.
    + destruct (assoc t (f_appears f)) as [i|].
      * destruct ((_ =? 0) && _);
          (match type of H with fold_left _ _ (?f1, Ok tt) = _ =>
             destruct (IH f1 f' x H) as (L1 & L2 & x' & -> & HL) end;
           exists (t :: L1), L2, x'; split; [reflexivity|]; simpl; rewrite E; exact HL).
      * rewrite f_fold_raise in H. injection H as <- _. exists [t], L, (Ok tt). split; [reflexivity|]. simpl. now rewrite E.
    + rewrite f_fold_raise in H. injection H as <- _. exists [], (t :: L), (Ok tt). split; [reflexivity|]. simpl.
      unfold forceDeleteSimplex in E. destruct (assoc t (r_simp (f_rep f))) as [[k i]|]; [|now injection E as <- _].
      cbv zeta in E. destruct ((S k =? _) && _); discriminate.
Qed.

Theorem f_deleteSimplex_cinv f s f' x : cinv (f_rep f) -> f_deleteSimplex f s = (f', x) -> cinv (f_rep f').
Proof.
  intros Hc H. unfold f_deleteSimplex in H.
  destruct (f_orderOf f s); [|now injection H as <- _].
  destruct (partOf (f_rep f) s true false) as [L|e] eqn:EP; [|now injection H as <- _].
  assert (Hk : exists k is, assoc s (r_simp (f_rep f)) = Some (k, is)).
  { unfold partOf, orderOf in EP. destruct (assoc s (r_simp (f_rep f))) as [[k is]|]; [eauto | discriminate]. }
  destruct Hk as (k & is & As).
  destruct (star_positions (f_rep f) (c_s _ Hc) s k is L As EP) as (Hnd & Hin & Hpos).
  change (fold_left _ L (f, Ok tt)) with (fold_left f_del_step L (f, Ok tt)) in H.
  destruct (f_fold_prefix L f f' x H) as (L1 & L2 & x' & -> & HL).
  refine (fold_delete_any cinv (fun r0 H0 => c_s r0 H0) forceDelete_cinv L1 (f_rep f) Hc _ _ _ (f_rep f') x' HL).
  - clear -Hnd. induction L1 as [|a l IH]; [constructor|]. simpl in Hnd. inversion Hnd as [|? ? Ha Hl]; subst.
    constructor; [intros Hc; apply Ha; apply in_or_app; now left|now apply IH].
  - intros t Ht. apply Hin. apply in_or_app. now left.
  - intros i t u Hi Hu. assert (Hil : i < length L1) by (apply nth_error_Some; congruence).
    destruct (Hpos i t u) as (j & Hj & Hju); [rewrite nth_error_app1; auto|exact Hu|].
    exists j. split; [exact Hj|]. rewrite nth_error_app1 in Hju by lia. exact Hju.
Qed.

Theorem f_addSimplex_cinv f fs id attr f' x : cinv (f_rep f) -> f_addSimplex f fs id attr = (f', x) -> cinv (f_rep f').
Proof.
  intros Hc H. unfold f_addSimplex in H. destruct (existsb _ fs); [now injection H as <- _|].
  destruct (addSimplex (f_rep f) fs id attr) as [r' [n|e]] eqn:E.
  - assert (Hc' : cinv r') by (eapply addSimplex_cinv; eauto).
    destruct (zassoc (f_index f) (f_includes f)) as [cur|]; [destruct (zassoc (f_index f) (f_maxOrders f)) as [mo|]|];
      injection H as <- _; exact Hc'.
  - injection H as <- _. eapply addSimplex_cinv; eauto.
Qed.

Lemma f_rep_setIndex f i : f_rep (f_setIndex f i) = f_rep f.
Proof. unfold f_setIndex. destruct (f_isIndex f i); reflexivity. Qed.

Lemma fstep_cinv f o : cinv (f_rep f) -> cinv (f_rep (fstep f o)).
Proof.
  intros H. destruct o; cbn [fstep].
  - now rewrite f_rep_setIndex.
  - unfold f_setNext. destruct (index_in _ _ _) as [i|]; [|exact H]. destruct (S i =? _); exact H.
  - unfold f_setPrev. destruct (index_in _ _ _) as [[|i]|]; exact H.
  - unfold f_setMin. destruct (f_indices f); cbn [fst]; [exact H|now rewrite f_rep_setIndex].
  - unfold f_setMax. destruct (rev (f_indices f)); cbn [fst]; [exact H|now rewrite f_rep_setIndex].
  - destruct (f_addSimplex f fs id attr) eqn:E. eapply f_addSimplex_cinv; eauto.
  - destruct (f_deleteSimplex f s) eqn:E. eapply f_deleteSimplex_cinv; eauto.
Qed.

Theorem filtration_history_cinv uid i0 ops : cinv (f_rep (fold_left fstep ops (new_filt uid i0))).
Proof.
  assert (G : forall f, cinv (f_rep f) -> cinv (f_rep (fold_left fstep ops f))).
  { induction ops as [|o t IH]; intros f Hf; simpl; auto. apply IH. now apply fstep_cinv. }
  apply G. apply cinv_empty.
Qed.
