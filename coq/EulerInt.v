(* EulerInt.v -- the Euler integral as a sum over simplices (C19).  Plain Coq. *)
From Coq Require Import String ZArith Bool Arith List Lia Permutation.
From SV Require Import Names NamesFacts ListFacts Rep Fresh Complex Homology Atomic RepInv Reach ReachGen2 Shapes Incidence AddEffect
                       DelEffect StarOrder Closed ClosedReach AddBasis BasisInv Duality DeleteEffect CopyFaithful VInv AwbSpec VReach VSets Restrict Gen World.
Import ListNotations.
Open Scope nat_scope.

(* ---------- survivors of deletions keep their attribute entry ---------- *)
Definition aframe (r0 r1 : rep) : Prop :=
  forall t, containsSimplex r1 t = true -> containsSimplex r0 t = true /\ assoc t (r_attr r1) = assoc t (r_attr r0).
Lemma aframe_refl r : aframe r r. Proof. intros t H; auto. Qed.
Lemma aframe_trans a b c : aframe a b -> aframe b c -> aframe a c.
Proof. intros H1 H2 t Ht. destruct (H2 t Ht) as [Hb E2]. destruct (H1 t Hb) as [Ha E1]. split; congruence. Qed.

Lemma forceDelete_aframe r s r' x : sinv r -> forceDeleteSimplex r s = (r', x) -> aframe r r'.
Proof.
  intros HS H. destruct (assoc s (r_simp r)) as [[k i]|] eqn:As.
  - assert (E : r' = fst (forceDeleteSimplex r s)) by now rewrite H.
    intros t Ht. rewrite E in Ht. destruct (d_sub r s k i HS As t Ht) as [Ct Hne]. split; auto.
    rewrite E. unfold forceDeleteSimplex. rewrite As. cbv zeta.
    destruct ((S k =? r_nord r) && _); cbn [fst r_attr]; now apply assoc_del_other.
  - unfold forceDeleteSimplex in H. rewrite As in H. injection H as <- _. apply aframe_refl.
Qed.

Definition FI (r0 : rep) (r1 : rep) : Prop := sinv r1 /\ aframe r0 r1.
Lemma deleteSimplex_FI r0 r s r' x : FI r0 r -> deleteSimplex r s = (r', x) -> FI r0 r'.
Proof.
  intros Hc H. unfold deleteSimplex in H.
  destruct (partOf r s true false) as [L|e] eqn:EP; [|now injection H as <- _].
  assert (Hk : exists k is, assoc s (r_simp r) = Some (k, is)).
  { unfold partOf, orderOf in EP. destruct (assoc s (r_simp r)) as [[k is]|]; [eauto | discriminate]. }
  destruct Hk as (k & is & As).
  assert (HIs : forall r1, FI r0 r1 -> sinv r1) by (intros r1 [Hs _]; exact Hs).
  destruct (star_positions r (HIs r Hc) s k is L As EP) as (Hnd & Hin & Hpos).
  refine (fold_delete_any (FI r0) HIs _ L r Hc Hnd Hin Hpos r' x H).
  intros r1 s1 r2 x2 [HS1 HF1] Hco E. split.
  - eapply forceDeleteSimplex_sinv; eauto.
  - eapply aframe_trans; [exact HF1|]. eapply forceDelete_aframe; eauto.
Qed.
Lemma restrict_aframe r bs r' x : sinv r -> restrictBasisTo r bs = (r', x) -> aframe r r'.
Proof.
  intros HS H.
  assert (F : FI r r') by (eapply (ReachGen2.restrictBasisTo_I (FI r) (deleteSimplex_FI r)); [|exact H]; split; [exact HS|apply aframe_refl]).
  now destruct F.
Qed.

(* ---------- sums over lists of simplices ---------- *)
Fixpoint zsum {A} (f : A -> Z) (l : list A) : Z := match l with [] => 0%Z | x :: t => (f x + zsum f t)%Z end.
Lemma zsum_app {A} (f : A -> Z) l1 l2 : zsum f (l1 ++ l2) = (zsum f l1 + zsum f l2)%Z.
Proof. induction l1; simpl; lia. Qed.
Lemma zsum_perm {A} (f : A -> Z) l1 l2 : Permutation l1 l2 -> zsum f l1 = zsum f l2.
Proof. induction 1; simpl; lia. Qed.
Lemma zsum_ext_in {A} (f g : A -> Z) l : (forall x, In x l -> f x = g x) -> zsum f l = zsum g l.
Proof. induction l; simpl; intros H; [reflexivity|]. rewrite (H a), IHl; auto. Qed.
Lemma zsum_filter {A} (f : A -> Z) (p : A -> bool) l : zsum f (filter p l) = zsum (fun x => if p x then f x else 0%Z) l.
Proof. induction l; simpl; [reflexivity|]. destruct (p a); simpl; lia. Qed.
Lemma zsum_const {A} (c : Z) (l : list A) : zsum (fun _ => c) l = (c * Z.of_nat (length l))%Z.
Proof. induction l; simpl length; [simpl; lia|]. simpl zsum. rewrite IHl. lia. Qed.
Lemma zsum_concat {A} (f : A -> Z) ll : zsum f (concat ll) = zsum (zsum f) ll.
Proof. induction ll; simpl; [reflexivity|]. now rewrite zsum_app, IHll. Qed.
Lemma zsum_swap {A B} (f : A -> B -> Z) la lb :
  zsum (fun a => zsum (fun b => f a b) lb) la = zsum (fun b => zsum (fun a => f a b) la) lb.
Proof.
  induction la as [|a la IH]; simpl.
  - induction lb; simpl; lia.
  - rewrite IH. clear IH. induction lb; simpl; lia.
Qed.

Definition sgn (k : nat) : Z := if Nat.even k then 1%Z else (-1)%Z.
Definition ord (r : rep) (t : name) : nat := match assoc t (r_simp r) with Some (k, _) => k | None => 0 end.

(* the Euler characteristic is the sum of the signs of the simplices *)
Lemma alt_sum_spec : forall (l : list nat) (s : Z) (k : nat), s = sgn k ->
  alt_sum s l = zsum (fun p => (sgn (fst p) * Z.of_nat (snd p))%Z) (combine (seq k (length l)) l).
Proof.
  induction l as [|n l IH]; intros s k Hs; simpl; [reflexivity|].
  rewrite (IH (- s)%Z (S k)); [now subst|]. subst. unfold sgn. rewrite Nat.even_succ, <- Nat.negb_even.
  destruct (Nat.even k); reflexivity.
Qed.
Theorem euler_as_sum r : pinv r -> eulerCharacteristic r = zsum (fun t => sgn (ord r t)) (simplices r false).
Proof.
  intros P. unfold eulerCharacteristic, numberOfSimplicesOfOrder.
  rewrite (alt_sum_spec _ 1%Z 0 eq_refl). rewrite map_length, seq_length.
  pose proof P as [K Pm St L].
  assert (E : simplices r false = concat (map (simplicesOfOrder r) (seq 0 (r_nord r)))).
  { rewrite (simplices_by_order r P).
    replace (length (r_idx r)) with (r_nord r + (length (r_idx r) - r_nord r)) by lia.
    rewrite seq_app, map_app, concat_app.
    assert (Z0 : concat (map (simplicesOfOrder r) (seq (0 + r_nord r) (length (r_idx r) - r_nord r))) = []).
    { apply concat_nil_Forall. apply Forall_forall. intros l Hl. apply in_map_iff in Hl. destruct Hl as (k & <- & Hk).
      apply in_seq in Hk. unfold simplicesOfOrder. replace (k <? r_nord r) with false; [reflexivity|]. symmetry. apply Nat.ltb_ge. lia. }
    rewrite Z0. now rewrite app_nil_r. }
  rewrite E, zsum_concat.
  assert (G : forall a n, a + n <= r_nord r ->
     zsum (fun p => (sgn (fst p) * Z.of_nat (snd p))%Z) (combine (seq a n) (map (fun k => length (simplicesOfOrder r k)) (seq a n))) =
     zsum (zsum (fun t => sgn (ord r t))) (map (simplicesOfOrder r) (seq a n))).
  { intros a m. revert a. induction m as [|m IH]; intros a Ha; simpl; [reflexivity|].
    rewrite (IH (S a)) by lia. f_equal.
    rewrite (zsum_ext_in (fun t => sgn (ord r t)) (fun _ => sgn a)); [now rewrite zsum_const|].
    intros t Ht. unfold simplicesOfOrder in Ht. destruct (a <? r_nord r) eqn:Lt; [|destruct Ht]. apply Nat.ltb_lt in Lt.
    apply In_nth_error in Ht. destruct Ht as (i & Hi). unfold ord. rewrite (proj2 (Pm t a i) (conj Lt Hi)). reflexivity. }
  apply (G 0 (r_nord r)). lia.
Qed.

Section Int.
  Variables (hp : heap) (a : string) (d : Z).
  Definition m (r : rep) (p : name) : Z := metric0 hp r a d p.

  Lemma m_frame r r' t : aframe r r' -> containsSimplex r' t = true -> m r' t = m r t.
  Proof. intros F Ht. destruct (F t Ht) as [_ E]. unfold m, metric0, metric. now rewrite E. Qed.

  Lemma ord_of r t k j : assoc t (r_simp r) = Some (k, j) -> ord r t = k.
  Proof. intros H. unfold ord. now rewrite H. Qed.

  (* one level: restrict to the points whose metric exceeds l *)
  Lemma levelSet_spec r l r' x : vinv r -> levelSet hp r a d l = (r', x) ->
    x = Ok tt /\ vinv r' /\
    (forall t, containsSimplex r' t = true <->
               containsSimplex r t = true /\ forall p, In p (basisOf r t) -> (l < m r p)%Z) /\
    (forall t, containsSimplex r' t = true ->
               sameset (basisOf r' t) (basisOf r t) /\ ord r' t = ord r t /\ m r' t = m r t).
  Proof.
    intros Hv H. unfold levelSet in H.
    set (bs := filter _ (simplices r false)) in H.
    pose proof (c_s r (b_c r (v_b r Hv))) as HS. pose proof (s_p r HS) as P.
    assert (Hbs : forall p, In p bs <-> (exists i, assoc p (r_simp r) = Some (0, i)) /\ (l < m r p)%Z).
    { intros p. unfold bs. rewrite filter_In, (In_simplices_iff r p P). unfold containsSimplex, orderOf.
      destruct (assoc p (r_simp r)) as [[[|k] i]|]; split.
      - intros [_ Hl]. split; [eauto|]. now apply Z.ltb_lt.
      - intros [_ Hl]. split; auto. now apply Z.ltb_lt.
      - intros [_ Hf]. discriminate.
      - intros [(i0 & E) _]. discriminate.
      - intros [Hf _]. discriminate.
      - intros [(i0 & E) _]. discriminate. }
    assert (Pt : pts r bs) by (intros p Hp; now apply Hbs in Hp).
    destruct (restrict_vertex_sets r bs r' x Hv H) as [Hok Hres]. pose proof (Hok Pt) as ->.
    destruct (Hres eq_refl) as (Hv' & Hm & Hb). split; [reflexivity|]. split; [exact Hv'|].
    pose proof (restrict_aframe r bs r' (Ok tt) HS H) as AF. split.
    - intros t. rewrite Hm. split; intros [Ct Hi]; split; auto.
      + intros p Hp. now apply Hbs, Hi.
      + intros p Hp. apply Hbs. split; [|now apply Hi]. apply (contains_assoc r) in Ct. destruct Ct as (k & j & At).
        exact (a_basis_point r Hv t k j p At Hp).
    - intros t Ct'. pose proof (Hb t Ct') as Sb. split; [exact Sb|]. split; [|now apply m_frame].
      pose proof Ct' as Ct. apply Hm in Ct. destruct Ct as [Ct _].
      apply (contains_assoc r) in Ct. destruct Ct as (k & j & At).
      apply (contains_assoc r') in Ct'. destruct Ct' as (k' & j' & At').
      rewrite (ord_of r t k j At), (ord_of r' t k' j' At').
      pose proof (v_card r Hv t k j At) as L1. pose proof (v_card r' Hv' t k' j' At') as L2.
      pose proof (s_p r' (c_s r' (b_c r' (v_b r' Hv')))) as P'.
      pose proof (NoDup_sameset_length _ _ (basis_nodup r' t P') (basis_nodup r t P) Sb). lia.
  Qed.

  (* the loop of integrate *)
  Definition istep (acc : rep * res Z) (l : nat) : rep * res Z :=
    match acc with
    | (r, Raise e) => acc
    | (r, Ok acc_a) =>
        match levelSet hp r a d (Z.of_nat l) with
        | (r', Raise e) => (r', Raise e)
        | (r', Ok _) => (r', Ok (acc_a + eulerCharacteristic r')%Z)
        end
    end.

  Variable c : rep.
  Hypothesis Hvc : vinv c.
  Hypothesis Hnonneg : forall p i, assoc p (r_simp c) = Some (0, i) -> (0 <= m c p)%Z.

  Definition allabove (l : Z) (t : name) : bool := forallb (fun p => (l <=? m c p)%Z) (basisOf c t).

  Record LI (l : Z) (r : rep) : Prop := {
    li_v : vinv r;
    li_m : forall t, containsSimplex r t = true <-> containsSimplex c t = true /\ allabove l t = true;
    li_s : forall t, containsSimplex r t = true -> sameset (basisOf r t) (basisOf c t) /\ ord r t = ord c t /\ m r t = m c t }.

  Lemma LI_0 : LI 0 c.
  Proof.
    constructor; auto.
    - intros t. split; [|tauto]. intros Ct. split; auto. apply forallb_forall. intros p Hp. apply Z.leb_le.
      apply (contains_assoc c) in Ct. destruct Ct as (k & j & At).
      destruct (a_basis_point c Hvc t k j p At Hp) as (i & Ap). eauto.
    - intros t Ct. split; [intros z; reflexivity|auto].
  Qed.

  Lemma chi_LI l r : LI l r ->
    eulerCharacteristic r = zsum (fun t => if allabove l t then sgn (ord c t) else 0%Z) (simplices c false).
  Proof.
    intros [Hv Hm Hs]. pose proof (s_p r (c_s r (b_c r (v_b r Hv)))) as P. pose proof (s_p c (c_s c (b_c c (v_b c Hvc)))) as Pc.
    rewrite (euler_as_sum r P), <- (zsum_filter (fun t => sgn (ord c t)) (allabove l)).
    rewrite (zsum_ext_in (fun t => sgn (ord r t)) (fun t => sgn (ord c t))).
    - apply zsum_perm. apply NoDup_Permutation.
      + apply simplices_nodup; exact P.
      + apply NoDup_filter. apply simplices_nodup; exact Pc.
      + intros t. rewrite filter_In, (In_simplices_iff r t P), (In_simplices_iff c t Pc). apply Hm.
    - intros t Ht. apply (In_simplices_iff r t P) in Ht. destruct (Hs t Ht) as (_ & -> & _). reflexivity.
  Qed.

  Lemma step_LI l r r' x : LI (Z.of_nat l) r -> levelSet hp r a d (Z.of_nat l) = (r', x) ->
    x = Ok tt /\ LI (Z.of_nat (S l)) r'.
  Proof.
    intros [Hv Hm Hs] H. destruct (levelSet_spec r (Z.of_nat l) r' x Hv H) as (-> & Hv' & Hm' & Hs'). split; [reflexivity|].
    constructor; [exact Hv'| |].
    - intros t. rewrite Hm'. split.
      + intros [Ct Hab]. pose proof Ct as Ct0. apply Hm in Ct0. destruct Ct0 as [Cc _]. split; auto.
        destruct (Hs t Ct) as (Sb & _ & _). apply forallb_forall. intros p Hp. apply Z.leb_le.
        assert (Hp' : In p (basisOf r t)) by now apply Sb.
        destruct (basis_point r Hv t p Ct Hp') as [Cp _]. destruct (Hs p Cp) as (_ & _ & Em).
        specialize (Hab p Hp'). rewrite Em in Hab. lia.
      + intros [Cc Hab]. assert (Ct : containsSimplex r t = true).
        { apply Hm. split; auto. apply forallb_forall. intros p Hp. apply Z.leb_le.
          pose proof (proj1 (forallb_forall _ _) Hab p Hp) as Hl. apply Z.leb_le in Hl. lia. }
        split; auto. destruct (Hs t Ct) as (Sb & _ & _). intros p Hp.
        destruct (basis_point r Hv t p Ct Hp) as [Cp _]. destruct (Hs p Cp) as (_ & _ & Em). rewrite Em.
        pose proof (proj1 (forallb_forall _ _) Hab p (proj1 (Sb p) Hp)) as Hl. apply Z.leb_le in Hl. lia.
    - intros t Ct'. destruct (Hs' t Ct') as (Sb' & Eo' & Em'). pose proof Ct' as Ct. apply Hm' in Ct. destruct Ct as [Ct _].
      destruct (Hs t Ct) as (Sb & Eo & Em). split; [intros z; rewrite (Sb' z); apply Sb|]. split; congruence.
  Qed.

  Lemma loop_LI : forall n b r acc r' x, LI (Z.of_nat b) r ->
    fold_left istep (seq b n) (r, Ok acc) = (r', x) ->
    x = Ok (acc + zsum (fun l => zsum (fun t => if allabove (Z.of_nat (S l)) t then sgn (ord c t) else 0%Z) (simplices c false)) (seq b n))%Z.
  Proof.
    induction n as [|n IH]; intros b r acc r' x HL H; simpl in H.
    - injection H as _ <-. simpl. f_equal. lia.
    - destruct (levelSet hp r a d (Z.of_nat b)) as [r1 x1] eqn:E. destruct (step_LI b r r1 x1 HL E) as [-> HL1].
      rewrite (IH (S b) r1 _ r' x HL1 H). f_equal. rewrite (chi_LI _ r1 HL1). simpl zsum. lia.
  Qed.
End Int.

Section Final.
  Variables (hp : heap) (a : string) (d : Z) (c : rep).
  Hypothesis Hvc : vinv c.
  Hypothesis Hnum : forall s, containsSimplex c s = true -> exists z, metric hp c a d s = Ok z.
  Hypothesis Hnonneg : forall p i, assoc p (r_simp c) = Some (0, i) -> (0 <= m hp a d c p)%Z.
  Local Notation mm := (m hp a d c).

  (* the smallest metric among the points of a simplex *)
  Definition minm (t : name) : Z :=
    match basisOf c t with [] => 0%Z | p :: l => fold_right (fun q acc => Z.min (mm q) acc) (mm p) l end.

  Lemma forallb_min (j : Z) p l :
    forallb (fun q => (j <=? mm q)%Z) (p :: l) = (j <=? fold_right (fun q acc => Z.min (mm q) acc) (mm p) l)%Z.
  Proof.
    revert p. induction l as [|q l IH]; intros p; cbn [fold_right forallb].
    - now rewrite andb_true_r.
    - specialize (IH p). cbn [forallb] in IH.
      destruct (j <=? mm p)%Z eqn:E1, (j <=? mm q)%Z eqn:E2; cbn [andb] in *;
        destruct (forallb (fun q0 => (j <=? mm q0)%Z) l) eqn:E3; cbn [andb] in *; symmetry; symmetry in IH;
        try apply Z.leb_le; try apply Z.leb_gt; try apply Z.leb_le in E1; try apply Z.leb_gt in E1;
        try apply Z.leb_le in E2; try apply Z.leb_gt in E2; try apply Z.leb_le in IH; try apply Z.leb_gt in IH; lia.
  Qed.

  Lemma count_levels (M : Z) : forall N, (0 <= M)%Z ->
    zsum (fun l => if (Z.of_nat (S l) <=? M)%Z then 1%Z else 0%Z) (seq 0 N) = Z.min (Z.of_nat N) M.
  Proof.
    intros N HM. induction N as [|N IH]; [simpl; lia|].
    rewrite seq_S, zsum_app, IH. cbn [zsum plus]. destruct (Z.of_nat (S N) <=? M)%Z eqn:E.
    - apply Z.leb_le in E. lia.
    - apply Z.leb_gt in E. lia.
  Qed.

  Let maxH := fold_right Z.max 0%Z (map (metric0 hp c a d) (simplices c false)).
  Lemma maxH_ge s : In s (simplices c false) -> (mm s <= maxH)%Z.
  Proof.
    unfold maxH, m. generalize (simplices c false). induction l as [|x l IH]; intros H; [destruct H|].
    simpl. destruct H as [->|H]; [lia|]. specialize (IH H). lia.
  Qed.
  Lemma maxH_nonneg : (0 <= maxH)%Z.
  Proof. unfold maxH. generalize (simplices c false). induction l; simpl; lia. Qed.

  (* THE EULER INTEGRAL IS THE SUM OVER THE SIMPLICES OF (-1)^order TIMES THE SMALLEST METRIC AMONG THE
     SIMPLEX'S POINTS *)
  Theorem integrate_is_simplexwise_sum :
    integrate hp c a d = Ok (zsum (fun t => (sgn (ord c t) * minm t)%Z) (simplices c false)).
  Proof.
    pose proof (s_p c (c_s c (b_c c (v_b c Hvc)))) as P.
    unfold integrate.
    assert (E0 : existsb (fun s => match metric hp c a d s with Ok _ => false | Raise _ => true end) (simplices c false) = false).
    { destruct (existsb _ _) eqn:E; [|reflexivity]. apply existsb_exists in E. destruct E as (s & Hs & E).
      apply (In_simplices_iff c s P) in Hs. destruct (Hnum s Hs) as (z & Ez). rewrite Ez in E. discriminate. }
    rewrite E0. fold maxH.
    change (fold_left _ (seq 0 (Z.to_nat maxH)) (c, Ok 0%Z)) with (fold_left (istep hp a d) (seq 0 (Z.to_nat maxH)) (c, Ok 0%Z)).
    destruct (fold_left (istep hp a d) (seq 0 (Z.to_nat maxH)) (c, Ok 0%Z)) as [r' x] eqn:EF.
    rewrite (loop_LI hp a d c Hvc (Z.to_nat maxH) 0 c 0%Z r' x (LI_0 hp a d c Hvc Hnonneg) EF). f_equal.
    rewrite Z.add_0_l, zsum_swap. apply zsum_ext_in. intros t Ht.
    apply (In_simplices_iff c t P) in Ht. pose proof Ht as Ht'. apply (contains_assoc c) in Ht'. destruct Ht' as (k & j & At).
    pose proof (v_card c Hvc t k j At) as Lc.
    unfold allabove, minm. destruct (basisOf c t) as [|p l] eqn:Eb; [discriminate|].
    set (M := fold_right (fun q acc => Z.min (mm q) acc) (mm p) l).
    rewrite (zsum_ext_in _ (fun l0 => (sgn (ord c t) * (if (Z.of_nat (S l0) <=? M)%Z then 1 else 0))%Z)).
    2: { intros l0 _. rewrite (forallb_min (Z.of_nat (S l0)) p l). fold M. destruct (_ <=? M)%Z; lia. }
    assert (HM : (0 <= M /\ M <= maxH)%Z).
    { assert (G : forall q, In q (p :: l) -> (0 <= mm q <= maxH)%Z).
      { intros q Hq. rewrite <- Eb in Hq. destruct (a_basis_point c Hvc t k j q At Hq) as (i & Aq). split; [eapply Hnonneg; eauto|].
        apply maxH_ge. apply (In_simplices_iff c q P). apply (contains_assoc c). eauto. }
      unfold M. clear - G. revert G. generalize p. induction l as [|q l IH]; intros p0 G; simpl.
      - apply G. now left.
      - assert (G' : forall q0, In q0 (p0 :: l) -> (0 <= mm q0 <= maxH)%Z) by (intros q0 [<-|H]; apply G; [now left|right; now right]).
        specialize (IH p0 G'). pose proof (G q (or_intror (or_introl eq_refl))). lia. }
    assert (Hs : forall L, zsum (fun l0 => (sgn (ord c t) * (if (Z.of_nat (S l0) <=? M)%Z then 1 else 0))%Z) L =
                           (sgn (ord c t) * zsum (fun l0 => if (Z.of_nat (S l0) <=? M)%Z then 1%Z else 0%Z) L)%Z).
    { induction L; cbn [zsum]; [lia|]. rewrite IHL. lia. }
    rewrite Hs, (count_levels M (Z.to_nat maxH)) by lia. f_equal. lia.
  Qed.

  (* ... equivalently the sum over the levels l = 0, 1, .. of the Euler characteristic of c restricted
     (from c itself, not cumulatively as the code does) to the points whose metric exceeds l *)
  Lemma level_LI l r' x : levelSet hp c a d (Z.of_nat l) = (r', x) -> x = Ok tt /\ LI hp a d c (Z.of_nat (S l)) r'.
  Proof.
    intros H. destruct (levelSet_spec hp a d c (Z.of_nat l) r' x Hvc H) as (-> & Hv' & Hm' & Hs'). split; [reflexivity|].
    constructor; [exact Hv'| |exact Hs'].
    intros t. rewrite Hm'. unfold allabove. rewrite forallb_forall. split; intros [Ct Hab]; split; auto.
    - intros p Hp. apply Z.leb_le. specialize (Hab p Hp). lia.
    - intros p Hp. specialize (Hab p Hp). apply Z.leb_le in Hab. lia.
  Qed.
  Theorem integrate_is_levelwise_sum :
    integrate hp c a d =
    Ok (zsum (fun l => eulerCharacteristic (fst (levelSet hp c a d (Z.of_nat l)))) (seq 0 (Z.to_nat maxH))).
  Proof.
    pose proof (s_p c (c_s c (b_c c (v_b c Hvc)))) as P.
    unfold integrate.
    assert (E0 : existsb (fun s => match metric hp c a d s with Ok _ => false | Raise _ => true end) (simplices c false) = false).
    { destruct (existsb _ _) eqn:E; [|reflexivity]. apply existsb_exists in E. destruct E as (s & Hs & E).
      apply (In_simplices_iff c s P) in Hs. destruct (Hnum s Hs) as (z & Ez). rewrite Ez in E. discriminate. }
    rewrite E0. fold maxH.
    change (fold_left _ (seq 0 (Z.to_nat maxH)) (c, Ok 0%Z)) with (fold_left (istep hp a d) (seq 0 (Z.to_nat maxH)) (c, Ok 0%Z)).
    destruct (fold_left (istep hp a d) (seq 0 (Z.to_nat maxH)) (c, Ok 0%Z)) as [r' x] eqn:EF.
    rewrite (loop_LI hp a d c Hvc (Z.to_nat maxH) 0 c 0%Z r' x (LI_0 hp a d c Hvc Hnonneg) EF). f_equal.
    rewrite Z.add_0_l. apply zsum_ext_in. intros l _.
    destruct (levelSet hp c a d (Z.of_nat l)) as [r1 x1] eqn:E1. destruct (level_LI l r1 x1 E1) as [_ HL].
    symmetry. exact (chi_LI hp a d c Hvc (Z.of_nat (S l)) r1 HL).
  Qed.

  (* over isolated points the integral is the sum of their values *)
  Theorem integrate_isolated_points : r_nord c <= 1 ->
    integrate hp c a d = Ok (zsum mm (simplices c false)).
  Proof.
    intros H1. rewrite integrate_is_simplexwise_sum. f_equal. apply zsum_ext_in. intros t Ht.
    pose proof (s_p c (c_s c (b_c c (v_b c Hvc)))) as P. apply (In_simplices_iff c t P) in Ht.
    apply (contains_assoc c) in Ht. destruct Ht as (k & j & At).
    assert (k = 0) by (destruct P as [K Pm St L]; apply Pm in At; lia). subst k.
    destruct (b_b c (v_b c Hvc) t 0 j At) as [Eb _]. unfold minm. rewrite (Eb eq_refl), (ord_of c t 0 j At). cbn [fold_right sgn Nat.even]. lia.
  Qed.
End Final.

(* the hypotheses are satisfiable: a filled triangle with heights 3, 1, 2 on its points *)
Section Example.

  Let c := fold_left vstep [VPoint (Some (NInt 1)) (Some (9, 0)); VPoint (Some (NInt 2)) (Some (9, 1));
                            VPoint (Some (NInt 3)) (Some (9, 2)); VAddB [NInt 1; NInt 2; NInt 3] None None] (empty_rep 9).
  Let hp : heap := [((9, 0), [("h"%string, AInt 3)]); ((9, 1), [("h"%string, AInt 1)]); ((9, 2), [("h"%string, AInt 2)])].
  Example integral_example :
    vinv c /\
    (forall s, containsSimplex c s = true -> exists z, metric hp c "h" 0 s = Ok z) /\
    (forall p i, assoc p (r_simp c) = Some (0, i) -> (0 <= m hp "h" 0 c p)%Z) /\
    integrate hp c "h" 0 = Ok 3%Z /\
    zsum (fun t => (sgn (ord c t) * minm hp "h" 0 c t)%Z) (simplices c false) = 3%Z.
  Proof.
    assert (Hv : vinv c) by apply vertex_set_reading_at_every_point.
    pose proof (s_p c (c_s c (b_c c (v_b c Hv)))) as P.
    split; [exact Hv|]. split; [|split; [|split; vm_compute; reflexivity]].
    - intros s Hs. apply (In_simplices_iff c s P) in Hs. vm_compute in Hs.
      repeat (destruct Hs as [<-|Hs]; [vm_compute; eauto|]). destruct Hs.
    - intros p i Ap. assert (Hs : In p (simplices c false)) by (apply (In_simplices_iff c p P), (contains_assoc c); eauto).
      vm_compute in Hs. repeat (destruct Hs as [<-|Hs]; [vm_compute; discriminate|]). destruct Hs.
  Qed.
End Example.
