(* CopyAttrs.v -- copy() gives every simplex an attribute dictionary of its own (owned by the new
   complex, allocated after all earlier ones) holding what the source's dictionary held (C09).
   Plain Coq. *)
From Coq Require Import String ZArith Bool Arith List Lia.
From SV Require Import Names NamesFacts ListFacts Rep Fresh Complex Atomic RepInv Reach Shapes AddEffect CopyFaithful WorldProofs.
Import ListNotations.
Open Scope nat_scope.

Lemma addSimplex_given r fs s h r' id : addSimplex r fs (Some s) (Some h) = (r', Ok id) ->
  id = s /\ containsSimplex r s = false /\
  r' = add_final (add_struct r (length fs - 1)) fs s h (length fs - 1).
Proof.
  intros E. unfold addSimplex in E. destruct ((length fs - 1 =? 0) && negb (length fs =? 0)); [discriminate|].
  destruct (containsSimplex r s) eqn:Cs; [discriminate|].
  destruct (negb (nodupb fs)); [discriminate|]. destruct (check_faces r (length fs - 1) fs); [|discriminate].
  unfold add_struct.
  destruct (r_nord r <=? length fs - 1) eqn:E1.
  - destruct (r_nord r <? length fs - 1); [discriminate|].
    destruct (length fs - 1) as [|k'] eqn:Ek; cbn [fst snd] in E.
    + simpl in E. inversion E; subst. auto.
    + simpl r_nord in E. rewrite Nat.ltb_irrefl in E. inversion E; subst. simpl r_nord. rewrite Nat.ltb_irrefl. auto.
  - destruct (0 <? length fs - 1).
    + destruct (simplexWithFaces r fs) as [[sw|]|e2]; try discriminate.
      destruct (length fs - 1) as [|k'] eqn:Ek; cbn [fst snd] in E; destruct (S _ <? _) in *; inversion E; subst; auto.
    + destruct (length fs - 1) as [|k'] eqn:Ek; cbn [fst snd] in E; destruct (S _ <? _) in *; inversion E; subst; auto.
Qed.

Lemma add_struct_fields r k : r_attr (add_struct r k) = r_attr r /\ r_nalloc (add_struct r k) = r_nalloc r /\
  r_uid (add_struct r k) = r_uid r /\ r_simp (add_struct r k) = r_simp r.
Proof. unfold add_struct. destruct (r_nord r <=? k); cbn [r_nord set_struct]; destruct (S k <? _); repeat split. Qed.

Lemma add_final_fields r fs s h k : r_attr (add_final r fs s h k) = r_attr r ++ [(s, h)] /\
  r_nalloc (add_final r fs s h k) = r_nalloc r /\ r_uid (add_final r fs s h k) = r_uid r /\
  exists pos, r_simp (add_final r fs s h k) = r_simp r ++ [(s, pos)].
Proof. destruct k; simpl; repeat split; eauto. Qed.

(* the loop invariant on the complex being filled *)
Record ainv (uid : nat) (r : rep) : Prop := {
  a_uid : r_uid r = uid;
  a_dom : forall s, assoc s (r_attr r) = None <-> assoc s (r_simp r) = None;
  a_own : forall s h, assoc s (r_attr r) = Some h -> fst h = uid /\ snd h < r_nalloc r }.

Lemma handle_eqb_eq a b : handle_eqb a b = true <-> a = b.
Proof.
  unfold handle_eqb. destruct a as [a1 a2], b as [b1 b2]. simpl. rewrite andb_true_iff, !Nat.eqb_eq.
  split; [intros [-> ->]; reflexivity | intros E; injection E; auto].
Qed.

Theorem bulk_add_attrs uid : forall (src : srcview) hp r st ns hp' r' st' ns',
  ainv uid r -> (forall s fs h, In (s, (fs, h)) src -> fst h <> uid) ->
  addFrom_loop hp r RNone st src ns = (hp', r', st', Ok ns') ->
  ainv uid r' /\
  (forall s fs h, In (s, (fs, h)) src ->
     exists h', assoc s (r_attr r') = Some h' /\ fst h' = uid /\ heap_get hp' h' = heap_get hp h) /\
  (forall s h', assoc s (r_attr r) = Some h' -> assoc s (r_attr r') = Some h' /\ heap_get hp' h' = heap_get hp h') /\
  (forall h0, fst h0 <> uid -> heap_get hp' h0 = heap_get hp h0).
Proof.
  induction src as [|[s [fs h]] rest IH]; intros hp r st ns hp' r' st' ns' Hinv Hsrc H; cbn [addFrom_loop] in H.
  - injection H as <- <- _ _. split; [exact Hinv|]. split; [intros s fs h []|]. split; auto.
  - cbn [rl_apply] in H. rewrite name_eqb_refl in H. simpl negb in H. cbv iota in H. simpl andb in H. cbv iota in H.
    rewrite rl_map_none in H.
    destruct (alloc r) as [r1 h1] eqn:Ea.
    assert (Ea' : r_attr r1 = r_attr r /\ r_simp r1 = r_simp r /\ r_uid r1 = r_uid r /\ r_nalloc r1 = S (r_nalloc r) /\ h1 = (r_uid r, r_nalloc r)).
    { unfold alloc in Ea. injection Ea as <- <-. simpl. repeat split. }
    destruct Ea' as (Ra & Rs & Ru & Rn & Eh1).
    destruct (addSimplex r1 fs (Some s) (Some h1)) as [r2 [id|e]] eqn:E; [|discriminate].
    destruct (addSimplex_given r1 fs s h1 r2 id E) as (-> & Cs & ->).
    destruct Hinv as [Hu Hd Ho].
    set (r2 := add_final (add_struct r1 (length fs - 1)) fs s h1 (length fs - 1)) in *.
    destruct (add_struct_fields r1 (length fs - 1)) as (Sa & Sn & Su & Ss).
    destruct (add_final_fields (add_struct r1 (length fs - 1)) fs s h1 (length fs - 1)) as (Fa & Fn & Fu & pos & Fs).
    fold r2 in Fa, Fn, Fu, Fs. rewrite Sa, Ra in Fa. rewrite Sn, Rn in Fn. rewrite Su, Ru in Fu. rewrite Ss, Rs in Fs.
    assert (Hnone : assoc s (r_attr r) = None).
    { apply Hd. unfold containsSimplex in Cs. rewrite Rs in Cs. destruct (assoc s (r_simp r)); [discriminate | reflexivity]. }
    assert (Hinv2 : ainv uid r2).
    { constructor.
      - rewrite Fu. exact Hu.
      - intros s0. rewrite Fa, Fs. simpl. rewrite !assoc_app. simpl.
        destruct (name_eqb s0 s) eqn:E0.
        + apply name_eqb_eq in E0. subst s0. rewrite Hnone.
          assert (assoc s (r_simp r) = None) by (now apply Hd). rewrite H0. split; discriminate.
        + specialize (Hd s0). destruct (assoc s0 (r_attr r)), (assoc s0 (r_simp r)); intuition discriminate.
      - intros s0 h0. rewrite Fa, Fn. simpl. rewrite assoc_app. destruct (assoc s0 (r_attr r)) as [hh|] eqn:E0.
        + intros E1. injection E1 as <-. destruct (Ho s0 hh E0). split; [assumption | lia].
        + simpl. destruct (name_eqb s0 s); [|discriminate]. intros E1. injection E1 as <-. rewrite Eh1. simpl. split; [exact Hu | lia]. }
    assert (Hsrc' : forall s0 fs0 h0, In (s0, (fs0, h0)) rest -> fst h0 <> uid) by (intros; eapply Hsrc; right; eauto).
    destruct (IH _ _ _ _ _ _ _ _ Hinv2 Hsrc' H) as (Hinv' & Hrest & Hkeep & Hframe).
    assert (Hh1 : fst h1 = uid) by (rewrite Eh1; exact Hu).
    assert (Hhne : fst h <> uid) by (eapply Hsrc; left; reflexivity).
    split; [exact Hinv'|]. split; [|split].
    + intros s0 fs0 h0 [Heq|Hin].
      * injection Heq as <- <- <-.
        assert (A2 : assoc s (r_attr r2) = Some h1) by (rewrite Fa; now apply assoc_new).
        destruct (Hkeep s h1 A2) as [A' Hg]. exists h1. split; [exact A'|]. split; [exact Hh1|].
        rewrite Hg, heap_get_set. now rewrite (proj2 (handle_eqb_eq h1 h1) eq_refl).
      * destruct (Hrest s0 fs0 h0 Hin) as (h' & A' & Hf & Hg). exists h'. split; [exact A'|]. split; [exact Hf|].
        rewrite Hg, heap_get_set. destruct (handle_eqb h0 h1) eqn:E0; [|reflexivity].
        apply handle_eqb_eq in E0. subst h0. exfalso. eapply Hsrc'; eauto.
    + intros s0 h' A0. assert (A2 : assoc s0 (r_attr r2) = Some h') by (rewrite Fa; now apply assoc_old).
      destruct (Hkeep s0 h' A2) as [A' Hg]. split; [exact A'|]. rewrite Hg, heap_get_set.
      destruct (handle_eqb h' h1) eqn:E0; [|reflexivity]. apply handle_eqb_eq in E0. subst h'.
      destruct (Ho s0 h1 A0) as [_ Hlt]. rewrite Eh1 in Hlt. simpl in Hlt. lia.
    + intros h0 Hne. rewrite (Hframe h0 Hne), heap_get_set. destruct (handle_eqb h0 h1) eqn:E0; [|reflexivity].
      apply handle_eqb_eq in E0. subst h0. contradiction.
Qed.

(* copy(): every simplex of the copy has a dictionary owned by the copy whose contents are those
   of the source's dictionary; no dictionary of another owner is written *)
Theorem copy_attrs hp src uid hp' r' :
  (forall s h, assoc s (r_attr src) = Some h -> fst h <> uid) -> uid <> 0 ->
  copy_new hp (view_of src) uid = (hp', r', Ok tt) ->
  (forall s, In s (simplices src false) ->
     exists h', assoc s (r_attr r') = Some h' /\ fst h' = uid /\
       heap_get hp' h' = heap_get hp (match assoc s (r_attr src) with Some h => h | None => (0, 0) end)) /\
  (forall h0, fst h0 <> uid -> heap_get hp' h0 = heap_get hp h0).
Proof.
  intros Hown H0 H. unfold copy_new, addSimplicesFrom in H.
  destruct (addFrom_loop hp (empty_rep uid) RNone rl0 (view_of src) []) as [[[hp1 r1] st1] [ns|e]] eqn:E; [|discriminate].
  injection H as <- <-.
  assert (Hinv0 : ainv uid (empty_rep uid)).
  { constructor; [reflexivity | intros s; simpl; tauto | intros s h Hh; discriminate]. }
  assert (Hsrc : forall s fs h, In (s, (fs, h)) (view_of src) -> fst h <> uid).
  { intros s fs h Hin. unfold view_of in Hin. apply in_map_iff in Hin. destruct Hin as (s0 & Eq & _).
    injection Eq as <- <- <-. destruct (assoc s0 (r_attr src)) as [h0|] eqn:A; [eapply Hown; eauto | simpl; auto]. }
  destruct (bulk_add_attrs uid _ _ _ _ _ _ _ _ _ Hinv0 Hsrc E) as (_ & Hall & _ & Hframe).
  split; [|exact Hframe]. intros s Hs.
  apply (Hall s (faces src s) (match assoc s (r_attr src) with Some h => h | None => (0, 0) end)).
  unfold view_of. apply in_map_iff. exists s. split; [reflexivity | exact Hs].
Qed.
