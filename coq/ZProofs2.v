(* ZProofs2.v -- every chain returned by Z() is a cycle: the mod-2 sum of the columns of the
   order-k boundary operator named by its members is zero (C07).  Plain Coq on top of ZCycles. *)
From Coq Require Import String ZArith Bool Arith List Lia.
From SV Require Import Names NamesFacts ListFacts Rep Complex Homology ListMat SnfCount RepInv ZCycles.
From mathcomp Require ssrbool ssrnat.
From SV Require Rank Betti ZProofs.
Import ListNotations.
Open Scope nat_scope.

(* the column of the boundary operator a simplex name stands for (by its position in the listing) *)
Definition colval (r : rep) (k : nat) (s : name) : nat -> bool :=
  fun i => match index_of s (simplicesOfOrder r k) with
           | Some t => entry (rows_of (boundaryOperator r k)) i t
           | None => false
           end.

Lemma In_skipn_nth {A} (d : A) (l : list A) n x : In x (skipn n l) -> exists j, n <= j /\ j < length l /\ nth j l d = x.
Proof.
  revert n. induction l as [|h t IH]; intros [|n] H; simpl in *; try tauto.
  - destruct H as [<-|H]; [exists 0; repeat split; lia|].
    apply In_nth with (d := d) in H. destruct H as [j [Hj <-]]. exists (S j). repeat split; simpl; lia.
  - apply IH in H. destruct H as (j & H1 & H2 & H3). exists (S j). repeat split; simpl; auto; lia.
Qed.

Theorem Z1_cycles r k ch :
  NoDup (simplicesOfOrder r k) ->
  ncols (boundaryOperator r k) = length (simplicesOfOrder r k) ->
  In ch (Z1 r k) ->
  forall i, i < nrows (boundaryOperator r k) -> vsum name (colval r k) ch i = false.
Proof.
  intros Hnd Hshape Hin i Hi. unfold Z1 in Hin.
  set (B := boundaryOperator r k) in *.
  set (names := simplicesOfOrder r k) in *.
  set (cls := map (fun s => [s]) names) in *.
  pose proof (wfm_rows_of B) as HM.
  assert (Hlen : length cls = ncols B) by (unfold cls; rewrite map_length; now rewrite Hshape).
  assert (H0 : forall i0 t, i0 < nrows B -> t < ncols B ->
                 entry (rows_of B) i0 t = vsum name (colval r k) (nth t cls []) i0).
  { intros i0 t Hi0 Ht. unfold cls.
    rewrite (nth_indep _ [] ((fun s => [s]) (NInt 0))) by (rewrite map_length; lia).
    rewrite (map_nth (fun s => [s])). unfold vsum. simpl. rewrite xorb_false_r.
    unfold colval. fold names. fold B.
    rewrite (index_of_nth (nth t names (NInt 0)) names t Hnd); [reflexivity|].
    apply List.nth_error_nth'. lia. }
  (* the reduced matrix and its labels *)
  pose proof (ZProofs.reduce_pidform (L := name) B cls) as Hpid.
  pose proof (zero_column_is_cycle name (nrows B) (ncols B) (colval r k) (rows_of B) cls) as Hz.
  unfold reduceB in *.
  destruct (reduce (Nat.min (nrows B) (ncols B)) 0 (rows_of B) cls) as [A cls'] eqn:ER.
  simpl in Hpid.
  rewrite (kernelDim_pid _ _ _ _ Hpid) in Hin.
  apply (In_skipn_nth []) in Hin. destruct Hin as (j & Hj1 & Hj2 & <-).
  pose proof (@ZProofs.reduce_labels name (Nat.min (nrows B) (ncols B)) 0 (rows_of B) cls) as Hl.
  rewrite ER in Hl. simpl in Hl. rewrite Hl, Hlen in Hj2.
  assert (Hrk : Betti.rk B <= ncols B) by (exact (ssrbool.elimT ssrnat.leP (Betti.rk_le_cols B))).
  apply (Hz j HM Hlen H0 Hj2); [|exact Hi].
  intros a Ha. destruct Hpid as (_ & _ & _ & Hent). rewrite Hent by assumption.
  destruct (a =? j) eqn:E; [|reflexivity]. apply Nat.eqb_eq in E. subst a.
  destruct (j <? Betti.rk B) eqn:E2; [|reflexivity]. apply Nat.ltb_lt in E2. lia.
Qed.
