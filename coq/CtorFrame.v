From Coq Require Import String ZArith Bool Arith List Lia.
From SV Require Import Names NamesFacts ListFacts Rep Fresh Complex Atomic RepInv Reach Homology Filtration Gen World WorldProofs.
Import ListNotations.
Open Scope nat_scope.

(* the derived-complex constructors and the variable each binds *)
Definition ctor_result (c : cmd) : option string :=
  match c with
  | CCopy x _ _ | CDeepCopy x _ | CCompose x _ _ | CFlag x _ | CJson x _ | CSnapF x _
  | CVR x _ _ | CNextOf x _ _ => Some x
  | _ => None
  end.

Ltac break H :=
  repeat match type of H with
         | context [match ?X with _ => _ end] => destruct X eqn:?
         | context [let '(_, _) := ?X in _] => destruct X eqn:?
         end.

Theorem ctor_binds_only_result w c x w' o y : ctor_result c = Some x -> exec w c = (w', o) -> y <> x ->
  vget (w_vars w') y = vget (w_vars w) y.
Proof.
  intros Hc H Hne. destruct c; simpl in Hc; try discriminate; injection Hc as ->; cbn [exec] in H.
  all: break H; try (injection H as <- _);
    repeat match goal with E : fresh_uid _ = _ |- _ => unfold fresh_uid in E; injection E as <- <- end;
    simpl; auto; try (now apply vget_vset_other).
Qed.
