(* Names.v -- simplex names (any hashable Python value of the modelled sub-universe),
   the two library name generators, generic list helpers.  Model file: no proofs. *)
From Coq Require Import String Ascii DecimalString ZArith Bool Arith List.
Import ListNotations.
Open Scope nat_scope.

(* NInt 3 = 3 ; NStr "a" = 'a' ; NFlt m e = m * 2^e as a float (m odd, e < 0 in generated
   workloads, so it is never ==/hash-equal to an int) ; NTup l = tuple. *)
Inductive name := NInt (z : Z) | NStr (s : string) | NFlt (m e : Z) | NTup (l : list name).

Fixpoint name_eqb (a b : name) : bool :=
  match a, b with
  | NInt x, NInt y => Z.eqb x y
  | NStr x, NStr y => String.eqb x y
  | NFlt m e, NFlt m' e' => Z.eqb m m' && Z.eqb e e'
  | NTup x, NTup y =>
      (fix go (x y : list name) : bool :=
         match x, y with
         | [], [] => true
         | a :: x', b :: y' => name_eqb a b && go x' y'
         | _, _ => false
         end) x y
  | _, _ => false
  end.

(* decimal rendering, as Python's str() of a non-negative / any int *)
Definition dec (n : nat) : string := NilZero.string_of_uint (Nat.to_uint n).
Definition decZ (z : Z) : string := NilZero.string_of_int (Z.to_int z).

(* ReferenceRepresentation.newSimplex : f'{d}d{i}' *)
Definition auto (d i : nat) : name := NStr (dec d ++ "d" ++ dec i)%string.

(* repr() of the float m * 2^e for the modelled floats: exact decimal expansion (valid while
   Python does not switch to exponent notation, i.e. for the small dyadic values generated) *)
Fixpoint zeros_str (n : nat) : string := match n with 0 => ""%string | S n' => String "0"%char (zeros_str n') end.
Definition repr_flt (m e : Z) : string :=
  if (0 <=? e)%Z then (decZ (m * 2 ^ e) ++ ".0")%string
  else
    let k := Z.to_nat (- e) in
    let n := (Z.abs m * 5 ^ (- e))%Z in
    let ip := (n / 10 ^ (- e))%Z in
    let fp := decZ (n mod 10 ^ (- e)) in
    ((if (m <? 0)%Z then "-" else "") ++ decZ ip ++ "." ++ zeros_str (k - String.length fp) ++ fp)%string.

(* repr() of a str of printable ASCII: double quotes when the text has a single quote and no double
   quote, single quotes otherwise; backslash and the chosen quote are escaped *)
Fixpoint has_char (c : ascii) (s : string) : bool :=
  match s with EmptyString => false | String d t => Ascii.eqb c d || has_char c t end.
Fixpoint esc_str (q : ascii) (s : string) : string :=
  match s with
  | EmptyString => EmptyString
  | String c t =>
      if Ascii.eqb c "\"%char then String "\"%char (String "\"%char (esc_str q t))
      else if Ascii.eqb c q then String "\"%char (String q (esc_str q t))
      else String c (esc_str q t)
  end.
Definition repr_str (s : string) : string :=
  let q := if has_char "'"%char s && negb (has_char """"%char s) then """"%char else "'"%char in
  String q (esc_str q s ++ String q EmptyString)%string.

(* Python str() / repr() on ints, strs and tuples of those (floats are outside the modelled
   domain of the one place that uses it, _createDisjointRenaming) *)
Fixpoint repr_name (a : name) : string :=
  match a with
  | NInt z => decZ z
  | NStr s => repr_str s
  | NFlt m e => repr_flt m e
  | NTup l =>
      match l with
      | [] => "()"%string
      | [x] => ("(" ++ repr_name x ++ ",)")%string
      | x :: r =>
          ("(" ++ repr_name x ++
           (fix go (r : list name) : string :=
              match r with [] => ")"%string | y :: r' => (", " ++ repr_name y ++ go r')%string end) r)%string
      end
  end.
Definition str_name (a : name) : string :=
  match a with NStr s => s | _ => repr_name a end.

(* SimplicialComplex._createDisjointRenaming : f'{s}->{k}d{u}' *)
Definition disj_name (s : name) (k u : nat) : name :=
  NStr (str_name s ++ "->" ++ dec k ++ "d" ++ dec u)%string.

(* ---------- generic list helpers ---------- *)
Fixpoint remove_nth {A} (i : nat) (l : list A) : list A :=
  match l, i with
  | [], _ => []
  | _ :: t, 0 => t
  | h :: t, S i' => h :: remove_nth i' t
  end.
Fixpoint set_nth {A} (i : nat) (x : A) (l : list A) : list A :=
  match l, i with
  | [], _ => []
  | _ :: t, 0 => x :: t
  | h :: t, S i' => h :: set_nth i' x t
  end.
Definition upd_nth {A} (i : nat) (f : A -> A) (d : A) (l : list A) : list A :=
  set_nth i (f (nth i l d)) l.

Definition memn (n : name) (l : list name) : bool := existsb (name_eqb n) l.
Fixpoint nodupb (l : list name) : bool :=
  match l with [] => true | h :: t => negb (memn h t) && nodupb t end.
Fixpoint dedupn (l : list name) : list name :=     (* keeps first occurrences *)
  match l with [] => [] | h :: t => h :: filter (fun x => negb (name_eqb h x)) (dedupn t) end.
Definition subsetn (a b : list name) : bool := forallb (fun x => memn x b) a.
Definition seteq (a b : list name) : bool := subsetn a b && subsetn b a.
Definition unionn (a b : list name) : list name := a ++ filter (fun x => negb (memn x a)) b.
Definition intern (a b : list name) : list name := filter (fun x => memn x b) a.
Definition symdiffn (a b : list name) : list name :=
  filter (fun x => negb (memn x b)) a ++ filter (fun x => negb (memn x a)) b.

Fixpoint assoc {B} (n : name) (l : list (name * B)) : option B :=
  match l with [] => None | (k, v) :: t => if name_eqb n k then Some v else assoc n t end.
Fixpoint assoc_del {B} (n : name) (l : list (name * B)) : list (name * B) :=
  match l with [] => [] | (k, v) :: t => if name_eqb n k then t else (k, v) :: assoc_del n t end.
Fixpoint assoc_set {B} (n : name) (b : B) (l : list (name * B)) : list (name * B) :=
  match l with
  | [] => [(n, b)]
  | (k, v) :: t => if name_eqb n k then (k, b) :: t else (k, v) :: assoc_set n b t
  end.

(* itertools.combinations(l, k), in itertools' order *)
Fixpoint combs {A} (k : nat) (l : list A) : list (list A) :=
  match k with
  | 0 => [[]]
  | S k' =>
      match l with
      | [] => []
      | x :: t => map (cons x) (combs k' t) ++ combs (S k') t
      end
  end.
(* combinations(l, len(l)-1): drop the last element first, ..., the first element last *)
Fixpoint drop_one {A} (l : list A) : list (list A) :=
  match l with
  | [] => []
  | x :: t => map (cons x) (drop_one t) ++ [t]
  end.
