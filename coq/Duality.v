(* Duality.v -- closureOf and partOf are the two directions of one relation (C04): t is in the
   closure of s iff s is part of t, for every complex satisfying the shape invariant.  Both are
   characterised by chains: closureOf(s) lists what is reached from s by face steps, partOf(s) what
   is reached by coface steps, and cofaces is the inverse of faces (Incidence.v).  Plain Coq. *)
From Coq Require Import String ZArith Bool Arith List Lia.
From SV Require Import Names NamesFacts ListFacts Rep Fresh Complex Atomic RepInv Shapes Incidence.
From SV Require Import StarOrder.
Import ListNotations.
Open Scope nat_scope.

Lemma In_dedupn x l : In x (dedupn l) <-> In x l.
Proof.
  induction l as [|a l IH]; simpl; [tauto|]. rewrite filter_In, IH. split.
  - intros [->|[H _]]; auto.
  - intros [->|H]; [now left|]. destruct (name_eqb_spec a x) as [->|Hne]; [now left|]. right. split; [exact H|].
    destruct (name_eqb a x) eqn:E; [apply name_eqb_eq in E; contradiction | reflexivity].
Qed.

Lemma In_sort_asc l q : In q (sort_asc l) <-> In q l.
Proof.
  unfold sort_asc. induction l as [|a l IH]; simpl; [tauto|].
  rewrite In_insert_by, IH. intuition.
Qed.

Section Chains.
  Variable r : rep.
  Hypothesis Hinv : sinv r.

  (* t is reached from s by n face steps / coface steps *)
  Fixpoint fchain (n : nat) (s t : name) : Prop :=
    match n with 0 => s = t | S n' => exists u, In u (faces r s) /\ fchain n' u t end.
  Fixpoint cchain (n : nat) (s t : name) : Prop :=
    match n with 0 => s = t | S n' => exists u, In u (cofaces r s) /\ cchain n' u t end.

  Lemma fchain_snoc n : forall s t v, fchain n s v -> In t (faces r v) -> fchain (S n) s t.
  Proof.
    induction n as [|n IH]; intros s t v H Ht; simpl in *.
    - subst v. exists t. split; [exact Ht | reflexivity].
    - destruct H as (u & Hu & H). exists u. split; [exact Hu|]. apply (IH u t v H Ht).
  Qed.
  Lemma cchain_snoc n : forall s t v, cchain n s v -> In t (cofaces r v) -> cchain (S n) s t.
  Proof.
    induction n as [|n IH]; intros s t v H Ht; simpl in *.
    - subst v. exists t. split; [exact Ht | reflexivity].
    - destruct H as (u & Hu & H). exists u. split; [exact Hu|]. apply (IH u t v H Ht).
  Qed.

  (* the two kinds of chain are each other's reversal *)
  Theorem chain_duality n : forall s t, fchain n s t <-> cchain n t s.
  Proof.
    induction n as [|n IH]; intros s t; simpl; [split; congruence|]. split.
    - intros (u & Hu & H). apply IH in H. apply (cchain_snoc n t s u H).
      now apply (cofaces_inverse_of_faces r Hinv s u).
    - intros (u & Hu & H). apply IH in H. apply (fchain_snoc n s t u H).
      now apply (cofaces_inverse_of_faces r Hinv u t).
  Qed.

  (* orders along a chain *)
  Lemma fchain_order n : forall s t k is, assoc s (r_simp r) = Some (k, is) -> fchain n s t ->
    n <= k /\ exists it, assoc t (r_simp r) = Some (k - n, it).
  Proof.
    induction n as [|n IH]; intros s t k is As H; simpl in H.
    - subst t. split; [lia|]. rewrite Nat.sub_0_r. eauto.
    - destruct H as (u & Hu & H). destruct k as [|k']; [unfold faces in Hu; rewrite As in Hu; destruct Hu|].
      destruct (face_is_simplex r Hinv s u k' is As Hu) as (iu & Au).
      destruct (IH u t k' iu Au H) as (Hle & it & At). split; [lia|]. exists it. now replace (S k' - S n) with (k' - n) by lia.
  Qed.

  (* ---------- closureOf ---------- *)
  Lemma closure_levels_spec k : forall cur t,
    (exists j, j <= k /\ exists s0, In s0 cur /\ fchain j s0 t) <-> In t (concat (closure_levels r k cur)).
  Proof.
    induction k as [|k IH]; intros cur t; simpl.
    - rewrite app_nil_r. split.
      + intros (j & Hj & s0 & Hs0 & H). assert (j = 0) by lia. subst j. simpl in H. now subst.
      + intros H. exists 0. split; [lia|]. exists t. split; [exact H | reflexivity].
    - rewrite in_app_iff, <- IH. split.
      + intros (j & Hj & s0 & Hs0 & H). destruct j as [|j].
        * left. simpl in H. now subst.
        * right. simpl in H. destruct H as (u & Hu & H). exists j. split; [lia|]. exists u. split; [|exact H].
          apply (proj2 (In_dedupn _ _)). apply in_flat_map. eauto.
      + intros [H|(j & Hj & u & Hu & H)].
        * exists 0. split; [lia|]. exists t. split; [exact H | reflexivity].
        * apply (proj1 (In_dedupn _ _)) in Hu. apply in_flat_map in Hu. destruct Hu as (s0 & Hs0 & Hu).
          exists (S j). split; [lia|]. exists s0. split; [exact Hs0|]. simpl. eauto.
  Qed.

  Theorem closureOf_spec s k is rev L : assoc s (r_simp r) = Some (k, is) -> closureOf r s rev false = Ok L ->
    forall t, In t L <-> exists j, fchain j s t.
  Proof.
    intros As H t. unfold closureOf, orderOf in H. rewrite As in H. injection H as <-.
    assert (Hc : In t (concat (closure_levels r k [s])) <-> exists j, fchain j s t).
    { rewrite <- closure_levels_spec. split.
      - intros (j & _ & s0 & [<-|[]] & H). eauto.
      - intros (j & H). exists j. destruct (fchain_order j s t k is As H) as [Hle _]. split; [exact Hle|].
        exists s. split; [now left | exact H]. }
    destruct rev; [exact Hc|]. rewrite <- Hc. rewrite !in_concat. split; intros (l & Hl & Ht); exists l; split; auto.
    - now apply in_rev.
    - now apply in_rev in Hl.
  Qed.

  (* ---------- partOf ---------- *)
  Lemma aux_spec f : forall s k is o c, assoc s (r_simp r) = Some (k, is) ->
    (In (o, c) (partOf_aux f r s k) <-> exists j, 1 <= j /\ j <= f /\ o = k + j /\ cchain j s c).
  Proof.
    induction f as [|f IH]; intros s k is o c As; simpl.
    - split; [tauto|]. intros (j & H1 & H2 & _). lia.
    - rewrite in_flat_map. split.
      + intros (c0 & Hc0 & H). destruct (coface_is_simplex r Hinv c0 s k is As Hc0) as (j0 & A0).
        destruct H as [E|H].
        * injection E as <- <-. exists 1. repeat split; try lia. simpl. eauto.
        * apply (IH c0 (S k) j0 o c A0) in H. destruct H as (j & H1 & H2 & -> & H).
          exists (S j). repeat split; try lia. simpl. eauto.
      + intros (j & H1 & H2 & -> & H). destruct j as [|j]; [lia|]. simpl in H. destruct H as (c0 & Hc0 & H).
        destruct (coface_is_simplex r Hinv c0 s k is As Hc0) as (j0 & A0).
        exists c0. split; [exact Hc0|]. destruct j as [|j].
        * simpl in H. subst c0. left. f_equal. lia.
        * right. apply (IH c0 (S k) j0 (k + S (S j)) c A0). exists (S j). repeat split; try lia. exact H.
  Qed.

  Lemma cchain_order n : forall s t k is, assoc s (r_simp r) = Some (k, is) -> cchain n s t ->
    exists it, assoc t (r_simp r) = Some (k + n, it).
  Proof.
    induction n as [|n IH]; intros s t k is As H; simpl in H.
    - subst t. rewrite Nat.add_0_r. eauto.
    - destruct H as (u & Hu & H). destruct (coface_is_simplex r Hinv u s k is As Hu) as (iu & Au).
      destruct (IH u t (S k) iu Au H) as (it & At). exists it. now replace (k + S n) with (S k + n) by lia.
  Qed.

  Theorem partOf_spec s k is rev L : assoc s (r_simp r) = Some (k, is) -> partOf r s rev false = Ok L ->
    forall t, In t L <-> exists j, cchain j s t.
  Proof.
    intros As H t. pose proof (s_p r Hinv) as [K Pm St Lr].
    unfold partOf, orderOf in H. rewrite As in H.
    remember (partOf_aux (S (r_nord r)) r s k) as A eqn:EA.
    assert (HA : (exists o, In (o, t) A) <-> exists j, 1 <= j /\ cchain j s t).
    { rewrite EA. split.
      - intros (o & Ho). apply (aux_spec _ s k is o t As) in Ho. destruct Ho as (j & H1 & _ & _ & Hc). eauto.
      - intros (j & H1 & Hc). exists (k + j). apply (aux_spec _ s k is (k + j) t As). exists j. repeat split; auto.
        destruct (cchain_order j s t k is As Hc) as (it & At). apply Pm in At. lia. }
    assert (HD : forall l : list (nat * name), In t (map snd l) <-> exists o, In (o, t) l).
    { intros l. rewrite in_map_iff. split; [intros ([o c] & E & Hi); simpl in E; subst; eauto | intros (o & Ho); exists (o, t); auto]. }
    assert (Hdd : (exists o, In (o, t) (dedup_on A)) <-> exists o, In (o, t) A).
    { split; [intros (o & Ho); exists o; now apply In_dedup_sub | intros (o & Ho); now apply (In_dedup_name A o t)]. }
    assert (Hsorted : forall srt, (forall q, In q srt <-> In q (dedup_on A)) ->
              (In t (map snd srt) <-> exists j, 1 <= j /\ cchain j s t)).
    { intros srt Hs. rewrite HD, <- HA, <- Hdd. split; intros (o & Ho); exists o; now apply Hs. }
    assert (Hfinal : forall body, (In t body <-> exists j, 1 <= j /\ cchain j s t) ->
              forall L0, (forall x, In x L0 <-> x = s \/ In x body) -> (In t L0 <-> exists j, cchain j s t)).
    { intros body Hb L0 HL. rewrite HL, Hb. split.
      - intros [->|(j & _ & Hc)]; [exists 0; reflexivity | eauto].
      - intros ([|j] & Hc); [left; simpl in Hc; congruence | right; exists (S j); split; [lia | exact Hc]]. }
    destruct rev; injection H as <-.
    - apply (Hfinal (map snd (sort_desc (dedup_on A)))).
      + apply Hsorted. intros q. apply In_sort_desc.
      + intros x. rewrite in_app_iff. simpl. intuition.
    - apply (Hfinal (map snd (sort_asc (dedup_on A)))).
      + apply Hsorted. intros q. apply In_sort_asc.
      + intros x. simpl. intuition.
  Qed.

  (* t is in the closure of s iff s is part of t *)
  Theorem closure_star_duality s t ks is kt it rs rt Ls Lt :
    assoc s (r_simp r) = Some (ks, is) -> assoc t (r_simp r) = Some (kt, it) ->
    closureOf r s rs false = Ok Ls -> partOf r t rt false = Ok Lt ->
    (In t Ls <-> In s Lt).
  Proof.
    intros As At Hs Ht. rewrite (closureOf_spec s ks is rs Ls As Hs t), (partOf_spec t kt it rt Lt At Ht s).
    split; intros (j & H); exists j; now apply chain_duality.
  Qed.
End Chains.
