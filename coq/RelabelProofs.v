(* RelabelProofs.v -- relabelling changes names and nothing else (C15): one rename carries the
   listings pointwise and leaves every matrix alone; the user's function is called at most once
   per simplex; the sequential algorithm rejects a forward chain (refuted by a witness).  Plain Coq. *)
From Coq Require Import String ZArith Bool Arith List Lia.
From SV Require Import Names NamesFacts ListFacts Rep Fresh Complex Atomic RepInv Reach.
Import ListNotations.
Open Scope nat_scope.

Definition ren1 (s q x : name) : name := if name_eqb x s then q else x.

Lemma set_nth_map_ren l : forall i s q, NoDup l -> nth_error l i = Some s -> set_nth i q l = map (ren1 s q) l.
Proof.
  induction l as [|h t IH]; intros [|i] s q Hnd H; simpl in *; try discriminate.
  - injection H as ->. unfold ren1 at 1. rewrite name_eqb_refl. f_equal.
    inversion Hnd as [|? ? Hs Ht]; subst. symmetry. rewrite <- (map_id t) at 2. apply map_ext_in.
    intros x Hx. unfold ren1. rewrite name_eqb_neq; auto. intros ->. contradiction.
  - inversion Hnd as [|? ? Hh Ht]; subst. f_equal.
    + unfold ren1. rewrite name_eqb_neq; auto. intros ->. apply Hh. eapply nth_error_In; eauto.
    + now apply IH.
Qed.

Lemma map_ren_absent l s q : ~ In s l -> map (ren1 s q) l = l.
Proof.
  intros H. rewrite <- (map_id l) at 2. apply map_ext_in. intros x Hx. unfold ren1.
  rewrite name_eqb_neq; auto. intros ->. contradiction.
Qed.

(* one accepted rename: same matrices, same number of orders, every listing renamed pointwise (so
   every simplex keeps its order and its position), the attribute dictionary moves with the name *)
Theorem relabelSimplex_carries r s q r' : pinv r -> relabelSimplex r s q = (r', Ok tt) ->
  r_bnd r' = r_bnd r /\ r_bas r' = r_bas r /\ r_nord r' = r_nord r /\
  (forall k, idxk r' k = map (ren1 s q) (idxk r k)) /\
  (forall h, assoc s (r_attr r) = Some h -> assoc s (r_attr r) = Some h -> In (q, h) (r_attr r')).
Proof.
  intros Hinv H. unfold relabelSimplex in H. destruct (containsSimplex r q) eqn:Cq; [discriminate|].
  destruct (assoc s (r_simp r)) as [[k i]|] eqn:As; [|discriminate]. injection H as <-. simpl.
  pose proof Hinv as [K P St L]. destruct (proj1 (P s k i) As) as [Hk Hn].
  repeat split; auto.
  - intros k0. unfold idxk. simpl. rewrite nth_upd_nth.
    assert (Hkl : k <? length (r_idx r) = true) by (apply Nat.ltb_lt; lia). rewrite Hkl, andb_true_r.
    destruct (k0 =? k) eqn:E.
    + apply Nat.eqb_eq in E. subst k0. apply set_nth_map_ren; auto. now apply pinv_nodup_order.
    + symmetry. apply map_ren_absent. intros Hin. apply nth_error_In' in Hin. destruct Hin as [j Hj].
      destruct (Nat.lt_ge_cases k0 (r_nord r)) as [Hlt|Hge].
      * destruct (pinv_unique_pos r s k i k0 j Hinv Hk Hn Hlt Hj) as [-> _]. now rewrite Nat.eqb_refl in E.
      * change (nth k0 (r_idx r) []) with (idxk r k0) in Hj. rewrite St in Hj by exact Hge. now destruct j.
  - intros h Hh _. rewrite Hh. apply in_or_app. right. now left.
Qed.

(* the faces / cofaces / basis are read from the unchanged matrices against the renamed listings *)
Lemma names_of_col_map (f : name -> name) names col : names_of_col (map f names) col = map f (names_of_col names col).
Proof.
  unfold names_of_col. revert col. induction names as [|n t IH]; intros [|b col]; simpl; auto.
  destruct b; simpl; now rewrite IH.
Qed.

(* ---------- the memo of _createRelabelling: the user's function is called at most once per simplex ---------- *)
Definition rl_ok (st : rl) : Prop :=
  NoDup (rl_calls st) /\ forall s, In s (rl_calls st) -> assoc s (rl_memo st) <> None.

Lemma rl_ok0 : rl_ok rl0.
Proof. split; [constructor | intros s []]. Qed.

Lemma rl_apply_ok rn st s : rl_ok st -> rl_ok (fst (rl_apply rn st s)).
Proof.
  intros [Hnd Hm]. unfold rl_apply. destruct rn as [|m|f].
  - split; auto.
  - destruct (assoc s (rl_memo st)) eqn:A; [split; auto|]. unfold rl_ok. cbn [fst rl_calls rl_memo]. split; auto.
    intros t Ht. rewrite assoc_app. specialize (Hm t Ht). destruct (assoc t (rl_memo st)); congruence.
  - destruct (assoc s (rl_memo st)) eqn:A; [split; auto|]. unfold rl_ok. cbn [fst rl_calls rl_memo]. split.
    + apply NoDup_app_snoc; auto. intros Hin. apply Hm in Hin. congruence.
    + intros t Ht. rewrite assoc_app. apply in_app_or in Ht. destruct Ht as [Ht|[<-|[]]].
      * specialize (Hm t Ht). destruct (assoc t (rl_memo st)); congruence.
      * rewrite A. cbn [assoc]. rewrite name_eqb_refl. discriminate.
Qed.

Lemma relabel_check_ok rn : forall ss st names st' x, rl_ok st -> relabel_check rn st ss names = (st', x) -> rl_ok st'.
Proof.
  induction ss as [|s t IH]; intros st names st' x Hok H; simpl in H.
  - now injection H as <- _.
  - pose proof (rl_apply_ok rn st s Hok) as Hok1. destruct (rl_apply rn st s) as [st1 s']. simpl in Hok1.
    destruct (name_eqb s s'); [eapply IH; eauto|].
    destruct (memn s' names); [now injection H as <- _ | eapply IH; eauto].
Qed.

Lemma relabel_do_ok rn : forall ss r st mapping r' st' x, rl_ok st -> relabel_do r rn st ss mapping = (r', st', x) -> rl_ok st'.
Proof.
  induction ss as [|s t IH]; intros r st mapping r' st' x Hok H; simpl in H.
  - now injection H as _ <- _.
  - pose proof (rl_apply_ok rn st s Hok) as Hok1. destruct (rl_apply rn st s) as [st1 s']. simpl in Hok1.
    destruct (name_eqb s s'); [eapply IH; eauto|].
    destruct (relabelSimplex r s s') as [r1 [[]|e]]; [eapply IH; eauto | now injection H as _ <- _].
Qed.

Theorem relabel_called_once r rn r' st x : relabel r rn = (r', st, x) -> NoDup (rl_calls st).
Proof.
  unfold relabel. intros H.
  destruct (relabel_check rn rl0 (simplices r false) (simplices r false)) as [st0 [[]|e]] eqn:E.
  - apply relabel_check_ok in E; [|apply rl_ok0]. apply relabel_do_ok in H; auto. now destruct H.
  - injection H as _ <- _. apply relabel_check_ok in E; [|apply rl_ok0]. now destruct E.
Qed.

(* ---------- the forward chain {a -> b, b -> c} is rejected, though injective onto names that do not stay ---------- *)
Definition two_points : rep :=
  fst (addSimplex (fst (addSimplex (empty_rep 1) [] (Some (NStr "a")) None)) [] (Some (NStr "b")) None).
Theorem forward_chain_refuted :
  snd (relabel two_points (RMap [(NStr "a", NStr "b"); (NStr "b", NStr "c")])) = Raise ValueError /\
  (* whereas the same chain listed against the listing order succeeds *)
  snd (relabel two_points (RMap [(NStr "b", NStr "c"); (NStr "a", NStr "x")])) =
    Ok [(NStr "a", NStr "x"); (NStr "b", NStr "c")].
Proof. vm_compute. split; reflexivity. Qed.
