(* RelabelAll.v -- a whole relabel() (and relabelDisjointFrom's renaming step) changes names and
   nothing else (C15): the matrices and the number of orders are untouched, every listing is the old
   one renamed pointwise by one function; hence every boundary operator, every Smith normal form,
   the Betti numbers and the Euler characteristic are unchanged -- whether the call completes or
   stops at a rejected single rename.  Plain Coq. *)
From Coq Require Import String ZArith Bool Arith List Lia.
From SV Require Import Names NamesFacts ListFacts Rep Fresh Complex Atomic RepInv Reach RelabelProofs Homology.
Import ListNotations.
Open Scope nat_scope.

Definition renamed_by (phi : name -> name) (r r' : rep) : Prop :=
  r_bnd r' = r_bnd r /\ r_bas r' = r_bas r /\ r_nord r' = r_nord r /\
  forall k, idxk r' k = map phi (idxk r k).

Lemma renamed_refl r : renamed_by (fun x => x) r r.
Proof. repeat split; auto. intros k. now rewrite map_id. Qed.

Lemma renamed_trans f g a b c : renamed_by f a b -> renamed_by g b c -> renamed_by (fun x => g (f x)) a c.
Proof.
  intros (B1 & S1 & N1 & I1) (B2 & S2 & N2 & I2). repeat split; try congruence.
  intros k. rewrite I2, I1, map_map. reflexivity.
Qed.

Lemma relabel_do_renames rn : forall ss r st mapping r' st' x, pinv r ->
  relabel_do r rn st ss mapping = (r', st', x) -> exists phi, renamed_by phi r r'.
Proof.
  induction ss as [|s t IH]; intros r st mapping r' st' x Hinv H; simpl in H.
  - injection H as <- _ _. exists (fun x => x). apply renamed_refl.
  - destruct (rl_apply rn st s) as [st1 s'].
    destruct (name_eqb s s'); [eapply IH; eauto|].
    destruct (relabelSimplex r s s') as [r1 [[]|e]] eqn:E.
    + assert (P1 : pinv r1) by (eapply relabelSimplex_pinv; eauto).
      destruct (relabelSimplex_carries r s s' r1 Hinv E) as (Eb & Es & En & Ei & _).
      destruct (IH r1 st1 _ r' st' x P1 H) as (phi & Hphi).
      exists (fun y => phi (ren1 s s' y)). apply (renamed_trans (ren1 s s') phi r r1 r'); [|exact Hphi].
      repeat split; auto.
    + injection H as <- _ _. apply relabelSimplex_atomic in E. destruct E as [-> _].
      exists (fun x => x). apply renamed_refl.
Qed.

Theorem relabel_renames r rn r' st x : pinv r -> relabel r rn = (r', st, x) -> exists phi, renamed_by phi r r'.
Proof.
  intros Hinv H. unfold relabel in H.
  destruct (relabel_check rn rl0 (simplices r false) (simplices r false)) as [st0 [[]|e]].
  - eapply relabel_do_renames; eauto.
  - injection H as <- _ _. exists (fun x => x). apply renamed_refl.
Qed.

(* what does not look at names does not change *)
Lemma renamed_simplicesOfOrder phi r r' k : renamed_by phi r r' -> simplicesOfOrder r' k = map phi (simplicesOfOrder r k).
Proof. intros (_ & _ & N & I). unfold simplicesOfOrder. rewrite N, I. now destruct (k <? r_nord r). Qed.

Lemma renamed_boundaryOperator phi r r' k : renamed_by phi r r' -> boundaryOperator r' k = boundaryOperator r k.
Proof.
  intros H. pose proof H as (B & _ & N & _). unfold boundaryOperator, bndk.
  rewrite (renamed_simplicesOfOrder phi r r' 0 H), map_length, N, B. reflexivity.
Qed.

Theorem renamed_homology phi r r' : renamed_by phi r r' ->
  (forall k, boundaryOperator r' k = boundaryOperator r k) /\
  (forall k, smithNormalForm r' k = smithNormalForm r k) /\
  (forall ks, bettiNumbers r' ks = bettiNumbers r ks) /\
  eulerCharacteristic r' = eulerCharacteristic r /\
  numberOfSimplicesOfOrder r' = numberOfSimplicesOfOrder r.
Proof.
  intros H. pose proof H as (_ & _ & N & _).
  assert (HB : forall k, boundaryOperator r' k = boundaryOperator r k) by (intros k; eapply renamed_boundaryOperator; eauto).
  assert (HS : forall k, smithNormalForm r' k = smithNormalForm r k) by (intros k; unfold smithNormalForm; now rewrite HB, N).
  assert (HN : numberOfSimplicesOfOrder r' = numberOfSimplicesOfOrder r).
  { unfold numberOfSimplicesOfOrder. rewrite N. apply map_ext. intros k.
    now rewrite (renamed_simplicesOfOrder phi r r' k H), map_length. }
  split; [exact HB|]. split; [exact HS|]. split.
  - intros ks. unfold bettiNumbers. rewrite N. apply map_ext. intros k. unfold betti1. now rewrite !HS.
  - split; [unfold eulerCharacteristic; now rewrite HN | exact HN].
Qed.

(* faces / cofaces / basis / position are carried along the same function *)
Theorem renamed_structure phi r r' : pinv r -> pinv r' -> renamed_by phi r r' ->
  forall s k i, assoc s (r_simp r) = Some (k, i) ->
  assoc (phi s) (r_simp r') = Some (k, i) /\
  faces r' (phi s) = map phi (faces r s) /\ cofaces r' (phi s) = map phi (cofaces r s) /\
  basisOf r' (phi s) = map phi (basisOf r s).
Proof.
  intros P P' (B & Sb & N & I) s k i As.
  pose proof P as [K Pm St L]. pose proof P' as [K' Pm' St' L'].
  destruct (proj1 (Pm s k i) As) as [Hk Hi].
  assert (As' : assoc (phi s) (r_simp r') = Some (k, i)).
  { apply Pm'. split; [lia|]. rewrite I, nth_error_map, Hi. reflexivity. }
  split; [exact As'|]. unfold faces, cofaces, basisOf, bndk, bask. rewrite As', As, B, Sb, N.
  split; [|split].
  - destruct k as [|k']; [reflexivity|]. fold (idxk r' k'). rewrite I. apply names_of_col_map.
  - destruct (S k =? r_nord r); [reflexivity|]. fold (idxk r' (S k)). rewrite I. apply names_of_col_map.
  - fold (idxk r' 0). rewrite I. apply names_of_col_map.
Qed.
