(* ClosedReach.v -- the face-count invariant (Closed.v) holds after every PUBLIC operation of
   base.py, hence at every point of every history of public operations (C01).  Plain Coq. *)
From Coq Require Import String ZArith Bool Arith List Lia.
From SV Require Import Names NamesFacts ListFacts Rep Fresh Complex Atomic RepInv Reach ReachGen Shapes Incidence AddEffect.
From SV Require Import DelEffect StarOrder Closed ReachGen2.
Import ListNotations.
Open Scope nat_scope.

Local Hint Resolve cinv_same_obs cinv_empty addSimplex_cinv relabelSimplex_cinv deleteSimplex_cinv : cinv.
Ltac inst L := intros; eapply (L cinv); eauto with cinv.

Theorem deleteSimplexWithBasis_cinv r bs r' x : cinv r -> deleteSimplexWithBasis r bs = (r', x) -> cinv r'.
Proof. inst ReachGen2.deleteSimplexWithBasis_I. Qed.
Theorem deleteSimplices_cinv r ss r' x : cinv r -> deleteSimplices r ss = (r', x) -> cinv r'.
Proof. inst ReachGen2.deleteSimplices_I. Qed.
Theorem restrictBasisTo_cinv r bs r' x : cinv r -> restrictBasisTo r bs = (r', x) -> cinv r'.
Proof. inst ReachGen2.restrictBasisTo_I. Qed.
Theorem ensureBasis_cinv r bs attr r' x : cinv r -> c_ensureBasis r bs attr = (r', x) -> cinv r'.
Proof. inst ReachGen2.ensureBasis_I. Qed.
Theorem addSimplexWithBasis_cinv r bs id attr r' x : cinv r -> c_addSimplexWithBasis r bs id attr = (r', x) -> cinv r'.
Proof. inst ReachGen2.addSimplexWithBasis_I. Qed.
Theorem barycentricSubdivide_cinv r s pts r' x : cinv r -> barycentricSubdivide r s pts = (r', x) -> cinv r'.
Proof. inst ReachGen2.barycentricSubdivide_I. Qed.
Theorem relabel_cinv r rn r' st x : cinv r -> relabel r rn = (r', st, x) -> cinv r'.
Proof. inst ReachGen2.relabel_I. Qed.
Theorem addSimplicesFrom_cinv hp r src rn hp' r' st x : cinv r -> addSimplicesFrom hp r src rn = (hp', r', st, x) -> cinv r'.
Proof. inst ReachGen2.addSimplicesFrom_I. Qed.
Theorem copy_new_cinv hp src uid hp' r' x : copy_new hp src uid = (hp', r', x) -> cinv r'.
Proof. inst ReachGen2.copy_new_I. Qed.
Theorem copy_into_cinv hp src target hp' r' x : cinv target -> copy_into hp src target = (hp', r', x) -> cinv r'.
Proof. inst ReachGen2.copy_into_I. Qed.

(* ---------- histories of public operations on one complex ---------- *)
Inductive pop :=
| PAdd (fs : list name) (id : option name) (attr : option handle)
| PAddB (bs : list name) (id : option name) (attr : option handle)
| PEnsure (bs : list name) (attr : option handle)
| PAddFrom (hp : heap) (src : srcview) (rn : ren)
| PDelete (s : name) | PDeleteB (bs : list name) | PDeletes (ss : list name)
| PRestrict (bs : list name)
| PSubdivide (s : name) (pts : list name)
| PRelabel (rn : ren) | PRelabel1 (s q : name).

Definition pstep (r : rep) (o : pop) : rep :=
  match o with
  | PAdd fs id attr => fst (addSimplex r fs id attr)
  | PAddB bs id attr => fst (c_addSimplexWithBasis r bs id attr)
  | PEnsure bs attr => fst (c_ensureBasis r bs attr)
  | PAddFrom hp src rn => let '(_, r', _, _) := addSimplicesFrom hp r src rn in r'
  | PDelete s => fst (deleteSimplex r s)
  | PDeleteB bs => fst (deleteSimplexWithBasis r bs)
  | PDeletes ss => fst (deleteSimplices r ss)
  | PRestrict bs => fst (restrictBasisTo r bs)
  | PSubdivide s pts => fst (barycentricSubdivide r s pts)
  | PRelabel rn => let '(r', _, _) := relabel r rn in r'
  | PRelabel1 s q => fst (relabelSimplex r s q)
  end.

Lemma pstep_cinv r o : cinv r -> cinv (pstep r o).
Proof.
  intros H. destruct o; simpl.
  - destruct (addSimplex r fs id attr) eqn:E. eapply addSimplex_cinv; eauto.
  - destruct (c_addSimplexWithBasis r bs id attr) eqn:E. eapply addSimplexWithBasis_cinv; eauto.
  - destruct (c_ensureBasis r bs attr) eqn:E. eapply ensureBasis_cinv; eauto.
  - destruct (addSimplicesFrom hp r src rn) as [[[hp' r'] st] x] eqn:E. eapply addSimplicesFrom_cinv; eauto.
  - destruct (deleteSimplex r s) eqn:E. eapply deleteSimplex_cinv; eauto.
  - destruct (deleteSimplexWithBasis r bs) eqn:E. eapply deleteSimplexWithBasis_cinv; eauto.
  - destruct (deleteSimplices r ss) eqn:E. eapply deleteSimplices_cinv; eauto.
  - destruct (restrictBasisTo r bs) eqn:E. eapply restrictBasisTo_cinv; eauto.
  - destruct (barycentricSubdivide r s pts) eqn:E. eapply barycentricSubdivide_cinv; eauto.
  - destruct (relabel r rn) as [[r' st] x] eqn:E. eapply relabel_cinv; eauto.
  - destruct (relabelSimplex r s q) eqn:E. eapply relabelSimplex_cinv; eauto.
Qed.

(* every complex reachable from the empty one by public operations, accepted or rejected *)
Theorem public_history_cinv uid ops : cinv (fold_left pstep ops (empty_rep uid)).
Proof.
  assert (H : forall r, cinv r -> cinv (fold_left pstep ops r)).
  { induction ops as [|o t IH]; intros r Hr; simpl; auto. apply IH. now apply pstep_cinv. }
  apply H. apply cinv_empty.
Qed.

(* what the invariant says, in the words of C01: a simplex of order k >= 1 has exactly k+1 faces,
   all distinct, each a simplex of the complex of order k-1 (and a point has none) *)
Theorem faces_of_a_simplex r t k : cinv r -> orderOf r t = Ok k ->
  NoDup (faces r t) /\
  (forall u, In u (faces r t) -> containsSimplex r u = true /\ orderOf r u = Ok (k - 1)) /\
  length (faces r t) = (if k =? 0 then 0 else S k).
Proof.
  intros [HS F] Ho. unfold orderOf in Ho. destruct (assoc t (r_simp r)) as [[k0 j]|] eqn:At; [|discriminate].
  injection Ho as ->. split; [apply faces_nodup, (s_p r HS)|]. split.
  - intros u Hu. destruct k as [|k']; [unfold faces in Hu; rewrite At in Hu; destruct Hu|].
    destruct (face_is_simplex r HS t u k' j At Hu) as (iu & Au).
    unfold containsSimplex, orderOf. rewrite Au. simpl. rewrite Nat.sub_0_r. auto.
  - destruct k as [|k']; [unfold faces; now rewrite At|]. simpl. eapply F; eauto.
Qed.
