(* Homology.v -- model of the homology / derived-complex part of simplicial/base.py:
   _reduceBoundaries, smithNormalForm, Z, bettiNumbers, _isClosed, _completePotentialSimplices,
   flagComplex, growFlagComplex, compose.  Model file: no proofs. *)
From Coq Require Import String ZArith Bool Arith List.
From SV Require Import Names Rep Complex.
Import ListNotations.
Open Scope nat_scope.

(* row-major 0/1 matrices for the reduction *)
Definition bmat := list (list bool).
Definition rows_of (m : mat) : bmat := map (fun i => getrow i m) (seq 0 (nrows m)).

Definition swap {A} (d : A) (i j : nat) (l : list A) : list A :=
  set_nth i (nth j l d) (set_nth j (nth i l d) l).
Fixpoint xor_row (a b : list bool) : list bool :=
  match a, b with
  | x :: a', y :: b' => xorb x y :: xor_row a' b'
  | _, _ => a
  end.
Fixpoint mapi_from {A B} (i : nat) (f : nat -> A -> B) (l : list A) : list B :=
  match l with [] => [] | x :: t => f i x :: mapi_from (S i) f t end.
Definition mapi {A B} (f : nat -> A -> B) (l : list A) : list B := mapi_from 0 f l.

(* first l >= x (position counted from `pos`) with a 1 *)
Fixpoint find_in_row (x pos : nat) (row : list bool) : option nat :=
  match row with
  | [] => None
  | b :: t => if (x <=? pos) && b then Some pos else find_in_row x (S pos) t
  end.
(* for k in range(x, rb): for l in range(x, cb): if B[k, l] == 1 *)
Fixpoint find_pivot_from (x k : nat) (M : bmat) : option (nat * nat) :=
  match M with
  | [] => None
  | row :: t =>
      if x <=? k then
        match find_in_row x 0 row with
        | Some l => Some (k, l)
        | None => find_pivot_from x (S k) t
        end
      else find_pivot_from x (S k) t
  end.
Definition find_pivot (x : nat) (M : bmat) : option (nat * nat) := find_pivot_from x 0 M.

Section Reduce.
  Variable L : Type.           (* column labels: lists of simplex names in the code *)

  Definition reduce_step (x k l : nat) (M : bmat) (cls : list (list L)) : bmat * list (list L) :=
    let M1 := swap [] x k M in                                   (* exchange rows x and k *)
    let M2 := map (swap false x l) M1 in                         (* exchange columns x and l *)
    let cls2 := swap [] x l cls in
    let prow := nth x M2 [] in
    let M3 := mapi (fun i r => if (x <? i) && nth x r false then xor_row r prow else r) M2 in
    let prow3 := nth x M3 [] in
    let M4 := map (fun r => mapi (fun j b => if (x <? j) && nth j prow3 false
                                             then xorb b (nth x r false) else b) r) M3 in
    let cls4 := mapi (fun j c => if (x <? j) && nth j prow3 false then c ++ nth x cls2 [] else c) cls2 in
    (M4, cls4).

  (* _reduceBoundaries(B, _, cLabels, x); fuel = min(rows, cols) - x *)
  Fixpoint reduce (fuel x : nat) (M : bmat) (cls : list (list L)) : bmat * list (list L) :=
    match fuel with
    | 0 => (M, cls)
    | S f =>
        match find_pivot x M with
        | None => (M, cls)
        | Some (k, l) => let '(M', cls') := reduce_step x k l M cls in reduce f (S x) M' cls'
        end
    end.
End Reduce.
Arguments reduce {L}. Arguments reduce_step {L}.

Definition reduceB (nr nc : nat) (M : bmat) {L} (cls : list (list L)) := reduce (min nr nc) 0 M cls.

(* a matrix value as the API returns it: shape + rows *)
Definition mval := (nat * nat * bmat)%type.
Definition mval_of (m : mat) : mval := (nrows m, ncols m, rows_of m).

Definition smithNormalForm (r : rep) (k : nat) : mval :=
  let B := boundaryOperator r k in
  if (k =? 0) || (r_nord r <=? k) then mval_of B
  else (nrows B, ncols B, fst (reduceB (nrows B) (ncols B) (rows_of B) (repeat ([] : list unit) (ncols B)))).

Definition col_is_zero (M : bmat) (j : nat) : bool := forallb (fun r => negb (nth j r false)) M.
Definition kernelDim (m : mval) : nat :=
  let '(_, nc, M) := m in length (filter (col_is_zero M) (seq 0 nc)).
Definition imageDim (m : mval) : nat :=
  let '(_, _, M) := m in length (filter (fun r => existsb (fun b => b) r) M).

Definition betti1 (r : rep) (k : nat) : Z :=
  (Z.of_nat (kernelDim (smithNormalForm r k)) - Z.of_nat (imageDim (smithNormalForm r (S k))))%Z.
(* bettiNumbers(ks): ks = None is range(maxOrder + 1) *)
Definition bettiNumbers (r : rep) (ks : option (list nat)) : list (nat * Z) :=
  let ks := match ks with Some l => l | None => seq 0 (r_nord r) end in
  map (fun k => (k, betti1 r k)) ks.

(* Z(ks): ks = None is range(1, maxOrder + 1) *)
Definition Z1 (r : rep) (k : nat) : list (list name) :=
  let B := boundaryOperator r k in
  let cb := ncols B in
  let cls := map (fun s => [s]) (simplicesOfOrder r k) in
  let '(A, cls') := reduceB (nrows B) cb (rows_of B) cls in
  skipn (cb - kernelDim (nrows B, cb, A)) cls'.
Definition Zchains (r : rep) (ks : option (list nat)) : list (nat * list (list name)) :=
  let ks := match ks with Some l => l | None => seq 1 (r_nord r - 1) end in
  map (fun k => (k, Z1 r k)) ks.

(* ---------- flag complexes ---------- *)
Definition isClosed (boundary : mat) (fs : list nat) : bool :=
  forallb negb
          (fold_left (fun acc j => xor_row acc (getcol j boundary)) fs (repeat false (nrows boundary))).

Definition nssT := list (nat * list nat).
Fixpoint nss_get (k : nat) (nss : nssT) : option (list nat) :=
  match nss with [] => None | (k', s) :: t => if k =? k' then Some s else nss_get k t end.
Fixpoint nss_add (k i : nat) (nss : nssT) : nssT :=
  match nss with
  | [] => [(k, [i])]
  | (k', s) :: t => if k =? k' then (k', if existsb (Nat.eqb i) s then s else s ++ [i]) :: t
                    else (k', s) :: nss_add k i t
  end.
Definition nss_maxkey (nss : nssT) : nat := fold_right (fun p m => max (fst p) m) 0 nss.

(* SimplicialComplex.simplexWithFaces as a public query (faces possibly unknown) *)
Definition c_simplexWithFaces (r : rep) (fs : list name) : res (option name) := simplexWithFaces r fs.

(* one order of _completePotentialSimplices: all (k+1)-subsets of the (k-1)-simplices that
   contain a new one and close *)
Definition cps_order (r : rep) (k : nat) (newk1 : list nat) (nss : nssT) (maxk : nat)
  : rep * nssT * nat * res unit :=
  let boundary := boundaryOperator r (k - 1) in
  let ks := length (simplicesOfOrder r (k - 1)) in
  fold_left
    (fun (acc : rep * nssT * nat * res unit) (fs : list nat) =>
       match acc with
       | (r', nss', maxk', Raise e) => acc
       | (r', nss', maxk', Ok _) =>
           if existsb (fun i => existsb (Nat.eqb i) newk1) fs && isClosed boundary fs then
             let cfs := map (fun i => nth i (simplicesOfOrder r' (k - 1)) (NInt 0)) fs in
             match c_simplexWithFaces r' cfs with
             | Raise e => (r', nss', maxk', Raise e)
             | Ok (Some _) => acc
             | Ok None =>
                 match addSimplex r' cfs None None with
                 | (r'', Raise e) => (r'', nss', maxk', Raise e)
                 | (r'', Ok s) =>
                     match indexOf r'' s with
                     | Raise e => (r'', nss', maxk', Raise e)
                     | Ok i => (r'', nss_add k i nss', Nat.max maxk' k, Ok tt)
                     end
                 end
             end
           else acc
       end)
    (combs (S k) (seq 0 ks)) (r, nss, maxk, Ok tt).

(* the while loop: k = 1; while k <= maxk + 1: k = k + 1; ... *)
Fixpoint cps_loop (fuel k maxk : nat) (r : rep) (nss : nssT) : rep * res unit :=
  match fuel with
  | 0 => (r, Raise OutOfFuel)
  | S f =>
      if maxk + 1 <? k then (r, Ok tt) else
      let k := S k in
      match nss_get (k - 1) nss with
      | None => cps_loop f k maxk r nss
      | Some [] => cps_loop f k maxk r nss
      | Some newk1 =>
          let nss1 := match nss_get k nss with Some _ => nss | None => nss ++ [(k, [])] end in
          match cps_order r k newk1 nss1 maxk with
          | (r', _, _, Raise e) => (r', Raise e)
          | (r', nss', maxk', Ok _) => cps_loop f k maxk' r' nss'
          end
      end
  end.
Definition completePotentialSimplices (r : rep) (nss : nssT) : rep * res unit :=
  match nss with
  | [] => (r, Raise ValueError)                 (* max() of an empty sequence *)
  | _ => cps_loop (nss_maxkey nss + length (simplicesOfOrder r 0) + 4) 1 (nss_maxkey nss) r nss
  end.

Definition flag_seed (r : rep) : nssT :=
  (1, seq 0 (length (simplicesOfOrder r 1)))
    :: map (fun k => (k, seq 0 (length (simplicesOfOrder r k)))) (seq 2 (r_nord r - 2)).
(* flagComplex(): copy, then complete from every simplex of order >= 1 *)
Definition flagComplex (hp : heap) (r : rep) (uid : nat) : heap * rep * res unit :=
  match copy_new hp (view_of r) uid with
  | (hp', c, Raise e) => (hp', c, Raise e)
  | (hp', c, Ok _) => let '(c', x) := completePotentialSimplices c (flag_seed c) in (hp', c', x)
  end.
Definition growFlagComplex (r : rep) (newSimplices : list name) : rep * res unit :=
  match fold_left (fun acc s =>
                     match acc with
                     | Raise e => Raise e
                     | Ok nss => match orderOf r s, indexOf r s with
                                 | Ok k, Ok i => Ok (nss_add k i nss)
                                 | Raise e, _ => Raise e
                                 | _, Raise e => Raise e
                                 end
                     end) newSimplices (Ok []) with
  | Raise e => (r, Raise e)
  | Ok nss => completePotentialSimplices r nss
  end.

(* ---------- compose ---------- *)
Definition compose_loop (hp : heap) (a c d : rep) : heap * rep * res unit :=
  fold_left
    (fun (acc : heap * rep * res unit) (s : name) =>
       match acc with
       | (hp', d', Raise e) => acc
       | (hp', d', Ok _) =>
           let sb := basisOf c s in
           match c_simplexWithBasis a sb false with
           | Raise e => (hp', d', Raise e)
           | Ok q =>
               let hc := match assoc s (r_attr c) with Some h => h | None => (0, 0) end in
               if containsSimplex a s then
                 match q with
                 | None => (hp', d', Raise ValueError)
                 | Some q' =>
                     if name_eqb s q' then
                       let ha := match assoc s (r_attr a) with Some h => h | None => (0, 0) end in
                       let '(d1, h') := alloc d' in
                       let merged := fold_left (fun dd kv => dict_set dd (fst kv) (snd kv))
                                               (heap_get hp' hc) (heap_get hp' ha) in
                       (heap_set hp' h' merged, setAttributes d1 s h', Ok tt)
                     else (hp', d', Raise ValueError)
                 end
               else
                 match q with
                 | Some _ => (hp', d', Raise ValueError)
                 | None =>
                     let '(d1, h') := alloc d' in
                     let hp1 := heap_set hp' h' (heap_get hp' hc) in
                     match addSimplex d1 (faces c s) (Some s) (Some h') with
                     | (d2, Raise e) => (hp1, d2, Raise e)
                     | (d2, Ok _) => (hp1, d2, Ok tt)
                     end
                 end
           end
       end)
    (concat (map (simplicesOfOrder c) (seq 0 (r_nord c)))) (hp, d, Ok tt).
(* a.compose(c) / a.compose(c, d) *)
Definition compose (hp : heap) (a c : rep) (target : option rep) (uid : nat) : heap * rep * res unit :=
  match (match target with
         | None => copy_new hp (view_of a) uid
         | Some d => copy_into hp (view_of a) d
         end) with
  | (hp', d, Raise e) => (hp', d, Raise e)
  | (hp', d, Ok _) => compose_loop hp' a c d
  end.
