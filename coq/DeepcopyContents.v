(* Contents of copy.deepcopy: entry by entry, the dictionary of the copy holds what the source's
   dictionary held when the call was made (for a uid that owns no dictionary of the source, as the
   fresh uid of exec does). *)
From Coq Require Import String ZArith Bool Arith List Lia.
Import ListNotations.
From SV Require Import Names NamesFacts ListFacts Rep Fresh Complex Atomic RepInv Reach Homology Filtration Gen World WorldProofs CopyAttrs DeepcopyFrame.

Lemma Forall2_impl' {A B} (P Q : A -> B -> Prop) : (forall a b, P a b -> Q a b) ->
  forall l l', Forall2 P l l' -> Forall2 Q l l'.
Proof. intros H l l' F. induction F; constructor; auto. Qed.

Section Contents.
Variable uid : nat.
Variable hp0 : heap.

Definition good (n : nat) (hp1 : heap) (src dst : handle) : Prop :=
  fst dst = uid /\ snd dst < n /\ heap_get hp1 dst = heap_get hp0 src.

Lemma handle_neq_snd (k n : nat) : k < n -> handle_eqb (uid, k) (uid, n) = false.
Proof.
  intros Hlt. destruct (handle_eqb (uid, k) (uid, n)) eqn:E; [|reflexivity].
  apply handle_eqb_eq in E. inversion E. lia.
Qed.

Lemma good_step n hp1 d src dst : good n hp1 src dst -> good (S n) (heap_set hp1 (uid, n) d) src dst.
Proof.
  intros (H1 & H2 & H3). destruct dst as [u k]. cbn [fst snd] in *. subst u.
  unfold good. cbn [fst snd]. split; [reflexivity|]. split; [lia|]. rewrite heap_get_set, handle_neq_snd by exact H2. exact H3.
Qed.

Definition inv (acc : dc_acc) (done : list (name * handle)) : Prop :=
  let '(hp1, at1, n1, memo) := acc in
  (forall h, fst h <> uid -> heap_get hp1 h = heap_get hp0 h) /\
  Forall (fun m => good n1 hp1 (fst m) (snd m)) memo /\
  Forall2 (fun q p => fst q = fst p /\ good n1 hp1 (snd p) (snd q)) at1 done.

Lemma inv_step acc done p : inv acc done -> fst (snd p) <> uid -> inv (dc_step uid acc p) (done ++ [p]).
Proof.
  destruct acc as [[[hp1 at1] n1] memo]. intros (HA & HB & HC) Hp. unfold dc_step. cbv beta iota zeta.
  match goal with |- context [find ?f memo] => destruct (find f memo) as [m|] eqn:F end.
  - apply find_some in F. destruct F as [Fin Feq]. cbv beta in Feq. apply handle_eqb_eq in Feq.
    cbv beta iota delta [inv]. split; [exact HA|]. split; [exact HB|].
    apply Forall2_app; [exact HC|]. constructor; [|constructor]. cbn [fst snd]. split; [reflexivity|].
    rewrite <- Feq. rewrite Forall_forall in HB. exact (HB _ Fin).
  - cbv beta iota zeta delta [inv]. split; [|split].
    + intros h Hh. rewrite heap_get_set, handle_neq_fst by exact Hh. exact (HA _ Hh).
    + apply Forall_app. split.
      * eapply Forall_impl; [|exact HB]. intros m Hm. now apply good_step.
      * constructor; [|constructor]. unfold good. cbn [fst snd]. split; [reflexivity|]. split; [lia|].
        rewrite heap_get_set. destruct (handle_eqb (uid, n1) (uid, n1)) eqn:E.
        -- exact (HA _ Hp).
        -- assert (X : handle_eqb (uid, n1) (uid, n1) = true) by now apply handle_eqb_eq. congruence.
    + apply Forall2_app.
      * eapply Forall2_impl'; [|exact HC]. intros q p' (Hq & Hg). split; [exact Hq|]. now apply good_step.
      * constructor; [|constructor]. cbn [fst snd]. split; [reflexivity|]. unfold good. cbn [fst snd]. split; [reflexivity|]. split; [lia|].
        rewrite heap_get_set. destruct (handle_eqb (uid, n1) (uid, n1)) eqn:E.
        -- exact (HA _ Hp).
        -- assert (X : handle_eqb (uid, n1) (uid, n1) = true) by now apply handle_eqb_eq. congruence.
Qed.

Lemma inv_fold l : forall acc done, inv acc done -> Forall (fun p => fst (snd p) <> uid) l ->
  inv (fold_left (dc_step uid) l acc) (done ++ l).
Proof.
  induction l as [|p l IH]; intros acc done Hi Hl.
  - cbn. now rewrite app_nil_r.
  - cbn [fold_left]. inversion Hl as [|? ? Hp Hl']; subst.
    replace (done ++ p :: l) with ((done ++ [p]) ++ l) by (rewrite <- app_assoc; reflexivity).
    apply IH; [|exact Hl']. now apply inv_step.
Qed.
End Contents.

Theorem deepcopy_contents hp r uid hp' r' :
  deepcopy_rep hp r uid = (hp', r') ->
  Forall (fun p => fst (snd p) <> uid) (r_attr r) ->
  Forall2 (fun q p => fst q = fst p /\ fst (snd q) = uid /\ heap_get hp' (snd q) = heap_get hp (snd p))
          (r_attr r') (r_attr r).
Proof.
  rewrite deepcopy_rep_unfold. intros H Hown.
  assert (I0 : inv uid hp (hp, [], 0, []) []) by (unfold inv; split; [reflexivity|split; constructor]).
  pose proof (inv_fold uid hp (r_attr r) _ _ I0 Hown) as I. cbn [app] in I.
  destruct (fold_left (dc_step uid) (r_attr r) (hp, [], 0, [])) as [[[hp1 at1] n1] memo1].
  injection H as <- <-. cbn [r_attr]. destruct I as (_ & _ & HC).
  eapply Forall2_impl'; [|exact HC]. intros q p (Hq & Hu & _ & Hg). auto.
Qed.

(* in terms of the ownership invariant of WorldProofs: the deep copy of any complex is owned by its
   new uid, and for an owned source with another uid the contents hypothesis holds by itself *)
Theorem deepcopy_owned hp r uid hp' r' : deepcopy_rep hp r uid = (hp', r') -> owned r' /\ r_uid r' = uid.
Proof.
  intros H. destruct (deepcopy_same_structure _ _ _ _ _ H) as (Hu & _).
  destruct (deepcopy_attr_names_and_owner _ _ _ _ _ H) as (_ & Hf).
  split; [|exact Hu]. intros s h Hin. rewrite Forall_forall in Hf. rewrite Hu. exact (Hf _ Hin).
Qed.

Theorem deepcopy_contents_owned hp r uid hp' r' :
  owned r -> r_uid r <> uid -> deepcopy_rep hp r uid = (hp', r') ->
  Forall2 (fun q p => fst q = fst p /\ fst (snd q) = uid /\ heap_get hp' (snd q) = heap_get hp (snd p))
          (r_attr r') (r_attr r).
Proof.
  intros Ho Hne H. apply (deepcopy_contents _ _ _ _ _ H).
  apply Forall_forall. intros [s h] Hin. cbn [fst snd]. rewrite (Ho _ _ Hin). exact Hne.
Qed.
