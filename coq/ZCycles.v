(* ZCycles.v -- the column labels carried by _reduceBoundaries: at every stage each column of the
   matrix is an injective additive image of the mod-2 sum of the original columns named by its
   label list, so a zero column of the reduced matrix is labelled by a cycle (C07).  Plain Coq. *)
From Coq Require Import String ZArith Bool Arith List Lia.
From SV Require Import Names ListFacts Rep Complex Homology ListMat.
Import ListNotations.
Open Scope nat_scope.

Section Cycles.
  Variables (L : Type) (rb cb : nat).
  Variable val : L -> nat -> bool.          (* the original column a label stands for *)

  Definition vec := nat -> bool.
  Definition vsum (l : list L) : vec := fun i => fold_right (fun s acc => xorb (val s i) acc) false l.

  Lemma vsum_app l1 l2 i : vsum (l1 ++ l2) i = xorb (vsum l1 i) (vsum l2 i).
  Proof.
    unfold vsum. induction l1 as [|s t IH]; simpl; [now destruct (fold_right _ _ l2)|].
    rewrite IH. now rewrite xorb_assoc.
  Qed.

  (* the accumulated row operations, as a map on column vectors *)
  Record rowmap (g : vec -> vec) : Prop := {
    g_ext : forall a b, (forall t, t < rb -> a t = b t) -> forall i, i < rb -> g a i = g b i;
    g_add : forall a b i, i < rb -> g (fun t => xorb (a t) (b t)) i = xorb (g a i) (g b i);
    g_inj : forall a, (forall i, i < rb -> g a i = false) -> forall i, i < rb -> a i = false }.

  Definition linv (M : bmat) (cls : list (list L)) : Prop :=
    length cls = cb /\
    exists g, rowmap g /\ forall i j, i < rb -> j < cb -> entry M i j = g (vsum (nth j cls [])) i.

  Lemma rowmap_id : rowmap (fun v => v).
  Proof. constructor; auto. Qed.

  Lemma sw_invol a b i : sw a b (sw a b i) = i.
  Proof.
    unfold sw. destruct (i =? a) eqn:E1.
    - apply Nat.eqb_eq in E1. subst. destruct (b =? a) eqn:E2; [now apply Nat.eqb_eq in E2|].
      now rewrite Nat.eqb_refl.
    - destruct (i =? b) eqn:E2.
      + apply Nat.eqb_eq in E2. subst. now rewrite Nat.eqb_refl.
      + now rewrite E1, E2.
  Qed.

  Lemma sw_lt a b i n : a < n -> b < n -> i < n -> sw a b i < n.
  Proof. intros. unfold sw. destruct (i =? a); auto. destruct (i =? b); auto. Qed.

  Lemma nth_mapi {A B} (f : nat -> A -> B) (d : A) (d' : B) l k : k < length l -> nth k (mapi f l) d' = f k (nth k l d).
  Proof. intros H. unfold mapi. now rewrite (nth_mapi_from f d d' l 0 k H). Qed.

  Lemma nth_swap_labels (cls : list (list L)) x l j : x < length cls -> l < length cls ->
    nth j (swap [] x l cls) [] = nth (sw x l j) cls [].
  Proof. intros. now apply nth_swap. Qed.

  (* one pivot step keeps the invariant *)
  Lemma step_linv x k l M (cls : list (list L)) :
    wfm rb cb M -> x < rb -> k < rb -> x < cb -> l < cb -> linv M cls ->
    linv (fst (reduce_step x k l M cls)) (snd (reduce_step x k l M cls)).
  Proof.
    intros HM Hx Hk Hxc Hl [Hlen [g [Hg Hinv]]].
    pose (f1 := fun i j => entry M (sw x k i) j).
    pose (f2 := fun i j => f1 i (sw x l j)).
    pose (f3 := fun i j => if (x <? i) && f2 i x then xorb (f2 i j) (f2 x j) else f2 i j).
    assert (He : forall i j, i < rb -> j < cb ->
             entry (fst (reduce_step x k l M cls)) i j =
             if (x <? j) && f3 x j then xorb (f3 i j) (f3 i x) else f3 i j).
    { intros i j Hi Hj. exact (step_entries rb cb x k l M HM Hx Hk Hxc Hl cls i j Hi Hj). }
    (* the labels after the step *)
    set (cls2 := swap [] x l cls).
    assert (Hc2 : forall j, nth j cls2 [] = nth (sw x l j) cls []).
    { intros j. apply nth_swap_labels; lia. }
    assert (Hcls' : forall j, j < cb ->
              nth j (snd (reduce_step x k l M cls)) [] =
              if (x <? j) && f3 x j then nth j cls2 [] ++ nth x cls2 [] else nth j cls2 []).
    { intros j Hj. unfold reduce_step. cbn [snd]. fold cls2.
      rewrite (nth_mapi _ [] []) by (unfold cls2; rewrite length_swap; lia).
      set (M3 := mapi _ (map (swap false x l) (swap [] x k M))).
      change (nth j (nth x M3 []) false) with (entry M3 x j). unfold M3.
      rewrite (entry_M3 rb cb x k l M HM Hx Hk Hxc Hl x j Hx).
      rewrite !(entry_M2 rb cb x k l M HM Hx Hk Hxc Hl) by assumption.
      rewrite !(entry_M1 rb cb x k l M HM Hx Hk Hxc Hl). reflexivity. }
    (* the new row map *)
    pose (c := fun i => f2 i x).
    pose (g1 := fun (v : vec) i => g v (sw x k i)).
    pose (g3 := fun (v : vec) i => if (x <? i) && c i then xorb (g1 v i) (g1 v x) else g1 v i).
    assert (Hg3 : rowmap g3).
    { destruct Hg as [Gext Gadd Ginj]. constructor.
      - intros a b Hab i Hi. unfold g3, g1.
        rewrite (Gext a b Hab (sw x k i)) by (apply sw_lt; lia).
        rewrite (Gext a b Hab (sw x k x)) by (apply sw_lt; lia). reflexivity.
      - intros a b i Hi. unfold g3, g1.
        rewrite !Gadd by (apply sw_lt; lia).
        destruct ((x <? i) && c i); [|reflexivity].
        destruct (g a (sw x k i)), (g b (sw x k i)), (g a (sw x k x)), (g b (sw x k x)); reflexivity.
      - intros a Hz. apply Ginj. intros i Hi.
        assert (Hxx : g1 a x = false).
        { specialize (Hz x Hx). unfold g3 in Hz. rewrite Nat.ltb_irrefl in Hz. exact Hz. }
        assert (H1 : forall t, t < rb -> g1 a t = false).
        { intros t Ht. specialize (Hz t Ht). unfold g3 in Hz. rewrite Hxx in Hz.
          destruct ((x <? t) && c t); [now rewrite xorb_false_r in Hz | exact Hz]. }
        specialize (H1 (sw x k i) (sw_lt x k i rb Hx Hk Hi)). unfold g1 in H1. now rewrite sw_invol in H1. }
    (* f2, f3 through the old invariant *)
    assert (Hf2 : forall i j, i < rb -> j < cb -> f2 i j = g1 (vsum (nth j cls2 [])) i).
    { intros i j Hi Hj. unfold f2, f1, g1. rewrite Hinv by (try apply sw_lt; lia). now rewrite Hc2. }
    assert (Hf3 : forall i j, i < rb -> j < cb -> f3 i j = g3 (vsum (nth j cls2 [])) i).
    { intros i j Hi Hj. unfold f3, g3, c. rewrite !Hf2 by lia. reflexivity. }
    split.
    - unfold reduce_step. cbn [snd]. unfold mapi at 1. rewrite length_mapi_from, length_swap. exact Hlen.
    - exists g3. split; [exact Hg3|]. intros i j Hi Hj. rewrite He, Hcls' by assumption.
      destruct ((x <? j) && f3 x j).
      + rewrite !Hf3 by lia. destruct Hg3 as [Gext Gadd _].
        rewrite <- Gadd by exact Hi. apply Gext; [|exact Hi]. intros t _. now rewrite vsum_app.
      + now apply Hf3.
  Qed.

  Lemma reduce_linv fuel : forall x M (cls : list (list L)),
    wfm rb cb M -> linv M cls -> linv (fst (reduce fuel x M cls)) (snd (reduce fuel x M cls)) /\
    wfm rb cb (fst (reduce fuel x M cls)).
  Proof.
    induction fuel as [|f IH]; intros x M cls HM Hinv; [simpl; auto|].
    change (reduce (S f) x M cls) with
      (match find_pivot x M with
       | None => (M, cls)
       | Some (k, l) => let '(M', cls') := reduce_step x k l M cls in reduce f (S x) M' cls'
       end).
    destruct (find_pivot x M) as [[k l]|] eqn:Hp; [|simpl; auto].
    destruct (find_pivot_some rb cb x M k l HM Hp) as (Hxk & Hk & Hxl & Hl & _).
    assert (Hx : x < rb) by lia. assert (Hxc : x < cb) by lia.
    pose proof (step_linv x k l M cls HM Hx Hk Hxc Hl Hinv) as Hs.
    pose proof (step_wfm rb cb x k l M HM Hx Hk Hxc Hl cls) as Hw.
    destruct (reduce_step x k l M cls) as [M' cls']. simpl in Hs, Hw. now apply IH.
  Qed.

  (* a zero column of the reduced matrix is labelled by a cycle: the mod-2 sum of the original
     columns its label list names is zero *)
  Theorem zero_column_is_cycle M (cls : list (list L)) j :
    wfm rb cb M -> length cls = cb ->
    (forall i t, i < rb -> t < cb -> entry M i t = vsum (nth t cls []) i) ->
    j < cb ->
    let '(D, cls') := reduceB rb cb M cls in
    (forall i, i < rb -> entry D i j = false) -> forall i, i < rb -> vsum (nth j cls' []) i = false.
  Proof.
    intros HM Hlen H0 Hj.
    assert (Hinv0 : linv M cls) by (split; [exact Hlen | exists (fun v => v); split; [apply rowmap_id | exact H0]]).
    destruct (reduce_linv (Nat.min rb cb) 0 M cls HM Hinv0) as [[_ [g [Hg Hinv]]] _].
    unfold reduceB. destruct (reduce (Nat.min rb cb) 0 M cls) as [D cls']. simpl in Hinv.
    intros Hz. destruct Hg as [_ _ Ginj]. apply Ginj. intros i Hi. rewrite <- Hinv by assumption. now apply Hz.
  Qed.
End Cycles.
