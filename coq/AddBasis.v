(* AddBasis.v -- the basis of a newly added simplex: the point itself for a point, the union of the
   bases of its faces otherwise (C03: "the basis of a simplex is the set of points in its
   closure" is kept by addSimplex).  Plain Coq. *)
From Coq Require Import String ZArith Bool Arith List Lia.
From SV Require Import Names NamesFacts ListFacts Rep Fresh Complex Atomic RepInv Shapes Incidence AddEffect.
Import ListNotations.
Open Scope nat_scope.

Lemma In_names_of_col_sub names col x : In x (names_of_col names col) -> In x names.
Proof. intros H. apply In_names_of_col in H. destruct H as (i & Hi & _). eapply nth_error_In; eauto. Qed.

Section NewBasisHigher.
  Variables (r2 : rep) (fs : list name) (n : name) (h : handle) (k k' : nat).
  Hypothesis Hinv : sinv r2.
  Hypothesis Ek : k = S k'.
  Hypothesis Hk : k <= r_nord r2.
  Hypothesis Hnew : containsSimplex r2 n = false.

  Let rz := add_struct_hi r2 k k'.
  Let r' := add_final_hi rz fs n h k k'.

  Lemma z_bas kf : kf < r_nord r2 -> nth kf (r_bas rz) emptymat = bask r2 kf.
  Proof.
    intros Hkf. pose proof Hinv as [P Lb Ls Sh]. unfold rz, add_struct_hi.
    destruct (r_nord r2 <=? k) eqn:G; cbn [r_nord set_struct].
    - rewrite Nat.ltb_irrefl. cbn [r_bas set_struct]. rewrite app_nth1 by lia. reflexivity.
    - destruct (S k <? r_nord r2); reflexivity.
  Qed.

  Lemma z_basisOf f : basisOf rz f = basisOf r2 f.
  Proof.
    pose proof (s_p r2 Hinv) as [K Pm St L].
    unfold basisOf. unfold rz at 1. rewrite (rz_simp r2 k k').
    destruct (assoc f (r_simp r2)) as [[kf jf]|] eqn:Af; [|reflexivity].
    destruct (proj1 (Pm f kf jf) Af) as [Hkf _].
    unfold bask, idxk. fold rz. rewrite (z_bas kf Hkf). unfold rz. now rewrite (rz_idx r2 k k' 0).
  Qed.

  Lemma z_col : k < length (r_bas rz) /\ ncols (nth k (r_bas rz) emptymat) = length (idxk r2 k).
  Proof.
    pose proof Hinv as [P Lb Ls Sh]. pose proof P as [K Pm St L]. unfold rz, add_struct_hi.
    destruct (r_nord r2 <=? k) eqn:G; cbn [r_nord set_struct].
    - apply Nat.leb_le in G. rewrite Nat.ltb_irrefl. cbn [r_bas set_struct]. rewrite app_length. simpl. split; [lia|].
      rewrite app_nth2 by lia. replace (k - length (r_bas r2)) with 0 by lia. simpl.
      rewrite (St k) by lia. unfold ncols, zeros. simpl. reflexivity.
    - apply Nat.leb_gt in G.
      assert (E : r_bas (if S k <? r_nord r2
                         then set_struct r2 (r_nord r2) (r_idx r2) (upd_nth (S k) app_zero_row emptymat (r_bnd r2)) (r_bas r2)
                         else r2) = r_bas r2) by (destruct (S k <? r_nord r2); reflexivity).
      rewrite E. split; [lia|]. destruct (Sh k G) as [(_ & _ & Hc) _]. exact Hc.
  Qed.

  Theorem hi_new_basis p : In p (basisOf r' n) <-> exists f, In f fs /\ In p (basisOf r2 f).
  Proof.
    pose proof (s_p r2 Hinv) as [K Pm St L].
    assert (An : assoc n (r_simp r2) = None) by (unfold containsSimplex in Hnew; destruct (assoc n (r_simp r2)); [discriminate | reflexivity]).
    assert (As' : assoc n (r_simp r') = Some (k, length (idxk r2 k))).
    { unfold r', rz. rewrite (hi_simp r2 fs n h k k' Hinv Ek Hk). now apply assoc_new. }
    destruct z_col as [Hlen Hnc].
    assert (Hcol : getcol (length (idxk r2 k)) (bask r' k) = mark (idxk rz 0) (flat_map (basisOf rz) fs)).
    { unfold r', add_final_hi, bask. cbn [r_bas]. rewrite nth_upd_nth_same by exact Hlen.
      rewrite <- Hnc. apply getcol_app_col_new. }
    assert (Hi0 : idxk r' 0 = idxk r2 0).
    { unfold r', rz. rewrite (hi_idx r2 fs n h k k' Hinv Ek Hk 0). now replace (0 =? k) with false by (symmetry; apply Nat.eqb_neq; lia). }
    assert (Hz0 : idxk rz 0 = idxk r2 0) by (unfold idxk, rz; apply rz_idx).
    unfold basisOf. rewrite As'. fold (idxk r' 0). fold (bask r' k). rewrite Hcol, Hi0, Hz0, In_names_of_col_mark.
    rewrite in_flat_map. split.
    - intros (_ & f & Hf & Hp). exists f. split; [exact Hf|]. now rewrite z_basisOf in Hp.
    - intros (f & Hf & Hp). split.
      + unfold basisOf in Hp. destruct (assoc f (r_simp r2)) as [[kf jf]|]; [|destruct Hp]. eapply In_names_of_col_sub; eauto.
      + exists f. split; [exact Hf|]. now rewrite z_basisOf.
  Qed.
End NewBasisHigher.

Section NewBasisVertex.
  Variables (r2 : rep) (n : name) (h : handle).
  Hypothesis Hinv : sinv r2.
  Hypothesis Hnew : containsSimplex r2 n = false.

  Let r' := add_final (add_struct r2 0) [] n h 0.

  Theorem v_new_basis : basisOf r' n = [n].
  Proof.
    pose proof Hinv as [P Lb Ls Sh]. pose proof P as [K Pm St L].
    assert (An : assoc n (r_simp r2) = None) by (unfold containsSimplex in Hnew; destruct (assoc n (r_simp r2)); [discriminate | reflexivity]).
    assert (As' : assoc n (r_simp r') = Some (0, length (idxk r2 0))).
    { unfold r'. rewrite (v_simp r2 n h Hinv). now apply assoc_new. }
    unfold basisOf. rewrite As'. fold (idxk r' 0). unfold r'. rewrite (v_idx r2 n h Hinv 0). simpl (0 =? 0). cbv iota.
    (* the new column of the order-0 basis matrix *)
    assert (Hcol : getcol (length (idxk r2 0)) (nth 0 (r_bas (add_final (add_struct r2 0) [] n h 0)) emptymat) =
                   repeat false (length (idxk r2 0)) ++ [true]).
    { unfold add_final. cbn [r_bas]. set (rz := add_struct r2 0).
      assert (Hzi : nth 0 (r_idx rz) [] = idxk r2 0) by (apply (v_rz_idx r2 0)).
      assert (Hzl : 0 < length (r_idx rz)) by (apply (v_rz_len r2 Hinv)).
      rewrite nth_upd_nth_same by exact Hzl. rewrite Hzi, app_length. simpl length.
      replace (length (idxk r2 0) + 1 - 1) with (length (idxk r2 0)) by lia.
      unfold rz, add_struct.
      destruct (r_nord r2 <=? 0) eqn:G.
      - (* the very first simplex *)
        apply Nat.leb_le in G. assert (Hn0 : r_nord r2 = 0) by lia.
        cbn [r_nord set_struct]. change (1 <? 1) with false. cbv iota. cbn [r_bas r_nord set_struct].
        change (1 <? 1) with false. cbv iota.
        destruct (r_bas r2) as [|? ?] eqn:Eb; [|simpl in Ls; lia].
        assert (Hst : idxk r2 0 = []) by (apply St; lia).
        assert (Hz : nth 0 (r_idx r2 ++ [[]]) [] = []) by (rewrite nth_app_snoc_nil; exact Hst).
        rewrite Hz, Hst. reflexivity.
      - apply Nat.leb_gt in G.
        assert (Hn : r_nord (if 1 <? r_nord r2 then set_struct r2 (r_nord r2) (r_idx r2) (upd_nth 1 app_zero_row emptymat (r_bnd r2)) (r_bas r2) else r2) = r_nord r2)
          by (destruct (1 <? r_nord r2); reflexivity).
        assert (Hb : r_bas (if 1 <? r_nord r2 then set_struct r2 (r_nord r2) (r_idx r2) (upd_nth 1 app_zero_row emptymat (r_bnd r2)) (r_bas r2) else r2) = r_bas r2)
          by (destruct (1 <? r_nord r2); reflexivity).
        rewrite Hn, Hb.
        set (bas1 := if 1 <? r_nord r2 then _ else r_bas r2).
        assert (Hb10 : nth 0 bas1 emptymat = bask r2 0).
        { unfold bas1. destruct (1 <? r_nord r2) eqn:E; [|reflexivity].
          rewrite (nth_map_default _ _ (0, emptymat)) by (rewrite combine_length, seq_length; lia).
          rewrite nth_combine_seq by lia. reflexivity. }
        assert (Hlb1 : length bas1 = r_nord r2).
        { unfold bas1. destruct (1 <? r_nord r2); [|exact Ls]. rewrite map_length, combine_length, seq_length. lia. }
        rewrite nth_set_nth, Hlb1. replace (0 <? r_nord r2) with true by (symmetry; apply Nat.ltb_lt; lia).
        simpl ((0 =? 0) && true). cbv iota. rewrite Hb10.
        destruct (Sh 0 G) as [(Hok & Hr & Hc) _].
        destruct (nrows (bask r2 0) =? 0) eqn:E0.
        + apply Nat.eqb_eq in E0. rewrite <- Hr, E0. reflexivity.
        + unfold getcol. cbn [mcols]. rewrite app_nth2 by (rewrite map_length; unfold ncols in Hc; lia).
          rewrite map_length. unfold ncols in Hc. rewrite Hc, Nat.sub_diag. reflexivity. }
    unfold bask. rewrite Hcol. apply names_of_col_last.
  Qed.
End NewBasisVertex.
