(* FiltProofs.v -- the filtration model: the complex seen at an index, monotonicity, birth
   indices (C13); index-unaware queries refuted by witnesses (C14).  Plain Coq. *)
From Coq Require Import String ZArith Bool Arith List Lia.
From SV Require Import Names NamesFacts ListFacts Rep Fresh Complex Atomic RepInv Homology Filtration.
Import ListNotations.
Open Scope nat_scope.

(* the same filtration looked at from index i *)
Definition at_index (f : filt) (i : idx) : filt :=
  mkFilt (f_rep f) i (f_appears f) (f_includes f) (f_maxOrders f).

Lemma contains_setIndex f i s : f_contains (f_setIndex f i) s = f_contains (at_index f i) s.
Proof. unfold f_setIndex. destruct (f_isIndex f i); reflexivity. Qed.

Lemma simplices_setIndex f i b : f_simplices (f_setIndex f i) b = f_simplices (at_index f i) b.
Proof.
  unfold f_simplices. assert (E : f_rep (f_setIndex f i) = f_rep (at_index f i)) by (unfold f_setIndex; destruct (f_isIndex f i); reflexivity).
  rewrite E. apply filter_ext. intros s. apply contains_setIndex.
Qed.

(* the complex seen at index i: exactly the simplices of the filtration added at indices <= i *)
Theorem view_def f i s :
  In s (f_simplices (at_index f i) false) <->
  In s (simplices (f_rep f) false) /\ containsSimplex (f_rep f) s = true /\
  exists b, assoc s (f_appears f) = Some b /\ (b <= i)%Z.
Proof.
  unfold f_simplices, f_contains. simpl. rewrite filter_In. split.
  - intros [H1 H2]. apply andb_prop in H2. destruct H2 as [H2 H3]. split; auto. split; auto.
    destruct (assoc s (f_appears f)) as [b|]; [|discriminate]. exists b. split; auto. now apply Z.leb_le.
  - intros (H1 & H2 & b & H3 & H4). split; auto. rewrite H2, H3. simpl. now apply Z.leb_le.
Qed.

(* for i <= j the complex at i is contained in the complex at j *)
Theorem view_monotone f i j s : (i <= j)%Z ->
  In s (f_simplices (at_index f i) false) -> In s (f_simplices (at_index f j) false).
Proof.
  intros Hij H. apply view_def in H. apply view_def. destruct H as (H1 & H2 & b & H3 & H4).
  repeat split; auto. exists b. split; auto. lia.
Qed.

Theorem contains_monotone f i j s : (i <= j)%Z ->
  f_contains (at_index f i) s = true -> f_contains (at_index f j) s = true.
Proof.
  unfold f_contains. simpl. intros Hij H. apply andb_prop in H. destruct H as [H1 H2]. rewrite H1. simpl.
  destruct (assoc s (f_appears f)) as [b|]; [|discriminate]. apply Z.leb_le in H2. apply Z.leb_le. lia.
Qed.

(* births: exactly the simplices of the representation have a birth index *)
Definition finv (f : filt) : Prop :=
  forall s, assoc s (f_appears f) = None <-> containsSimplex (f_rep f) s = false.

Lemma finv_new uid i : finv (new_filt uid i).
Proof. intros s. simpl. unfold containsSimplex. simpl. tauto. Qed.

Lemma addSimplex_contains r fs id attr r' n : pinv r -> addSimplex r fs id attr = (r', Ok n) ->
  containsSimplex r n = false /\ forall s, containsSimplex r' s = containsSimplex r s || name_eqb s n.
Proof.
  intros Hinv H. apply addSimplex_form in H. cbv zeta in H.
  destruct H as (r2 & h & Hs & Hc & _ & _ & _ & _ & _ & Hsimp & _).
  destruct (same_obs_queries r r2 Hs) as (_ & _ & _ & _ & _ & Hq & _).
  split; [now rewrite <- Hq|]. intros s. unfold containsSimplex in *. rewrite Hsimp, assoc_app.
  destruct Hs as (_ & _ & Hs3 & _). rewrite Hs3.
  destruct (assoc s (r_simp r)); simpl; auto. destruct (name_eqb s n); reflexivity.
Qed.

(* a successful add registers the new simplex at the current index, and nothing else changes its birth *)
Theorem add_registers_birth f fs id attr f' n : pinv (f_rep f) -> finv f ->
  f_addSimplex f fs id attr = (f', Ok n) ->
  assoc n (f_appears f') = Some (f_index f) /\ f_index f' = f_index f /\
  (forall s, s <> n -> assoc s (f_appears f') = assoc s (f_appears f)) /\ finv f'.
Proof.
  intros Hinv Hf H. unfold f_addSimplex in H.
  destruct (existsb _ fs); [discriminate|].
  destruct (addSimplex (f_rep f) fs id attr) as [r' [m|e]] eqn:E; [|discriminate].
  destruct (addSimplex_contains _ _ _ _ _ _ Hinv E) as [Hnew Hall].
  assert (Hn : assoc m (f_appears f) = None) by (now apply Hf).
  destruct (zassoc (f_index f) (f_includes f)) as [cur|]; [|discriminate].
  destruct (zassoc (f_index f) (f_maxOrders f)) as [mo|]; [|discriminate].
  injection H as <- <-. simpl. split; [|split; [reflexivity|split]].
  - rewrite assoc_app, Hn. simpl. now rewrite name_eqb_refl.
  - intros s0 Hs. rewrite assoc_app. destruct (assoc s0 (f_appears f)); auto. simpl. now rewrite (name_eqb_neq s0 m).
  - intros s. simpl. rewrite assoc_app, Hall. destruct (name_eqb_spec s m) as [->|Hne].
    + rewrite Hn. simpl. rewrite name_eqb_refl, orb_true_r. split; discriminate.
    + rewrite orb_false_r. destruct (assoc s (f_appears f)) eqn:A.
      * split; [discriminate|]. intros Hc. apply Hf in Hc. congruence.
      * simpl. rewrite (name_eqb_neq s m) by exact Hne. split; auto. intros _. now apply Hf.
Qed.

(* ---------- C14: queries that ignore the current index, refuted on the model by a witness ---------- *)
Definition witness : filt :=
  let f0 := new_filt 1 0%Z in
  let f1 := fst (f_addSimplex f0 [] (Some (NStr "a")) None) in
  let f2 := fst (f_addSimplex f1 [] (Some (NStr "b")) None) in
  let f3 := f_setIndex f2 8%Z in
  let f4 := fst (f_addSimplex f3 [NStr "a"; NStr "b"] (Some (NStr "ab")) None) in
  f_setIndex f4 0%Z.
(* the snapshot at the current index, as snap() builds it *)
Definition snap_rep (f : filt) : rep := let '(_, r, _) := copy_new [] (f_view f) 9 in r.

Theorem maxOrder_ignores_index_refuted : maxOrder (f_rep witness) <> maxOrder (snap_rep witness).
Proof. vm_compute. discriminate. Qed.
Theorem simplicesOfOrder_ignores_index_refuted :
  simplicesOfOrder (f_rep witness) 1 <> simplicesOfOrder (snap_rep witness) 1.
Proof. vm_compute. discriminate. Qed.
Theorem bettiNumbers_ignores_index_refuted :
  bettiNumbers (f_rep witness) (Some [0]) <> bettiNumbers (snap_rep witness) (Some [0]).
Proof. vm_compute. discriminate. Qed.
(* whereas the index-aware queries agree with the snapshot on this witness *)
Example witness_aware_queries_agree :
  f_simplices witness false = simplices (snap_rep witness) false /\
  f_numberOfSimplices witness = numberOfSimplices (snap_rep witness) /\
  f_numberOfSimplicesOfOrder witness = numberOfSimplicesOfOrder (snap_rep witness) /\
  f_eulerCharacteristic witness = eulerCharacteristic (snap_rep witness).
Proof. vm_compute. repeat split. Qed.

(* stepping: next / previous move to the adjacent index of the sorted index list *)
Theorem next_moves_to_adjacent f i : index_in (f_index f) (f_indices f) 0 = Some i ->
  S i < length (f_indices f) -> snd (f_setNext f) = Ok (nth (S i) (f_indices f) 0%Z).
Proof.
  intros H Hlt. unfold f_setNext. rewrite H. destruct (S i =? length (f_indices f)) eqn:E; [apply Nat.eqb_eq in E; lia|]. reflexivity.
Qed.
Theorem next_stays_at_the_end f i : index_in (f_index f) (f_indices f) 0 = Some i ->
  S i = length (f_indices f) -> f_setNext f = (f, Ok (f_index f)).
Proof. intros H E. unfold f_setNext. rewrite H. apply Nat.eqb_eq in E. now rewrite E. Qed.
Theorem prev_moves_to_adjacent f i : index_in (f_index f) (f_indices f) 0 = Some (S i) ->
  snd (f_setPrev f) = Ok (nth i (f_indices f) 0%Z).
Proof. intros H. unfold f_setPrev. now rewrite H. Qed.
Theorem prev_stays_at_the_start f : index_in (f_index f) (f_indices f) 0 = Some 0 -> f_setPrev f = (f, Ok (f_index f)).
Proof. intros H. unfold f_setPrev. now rewrite H. Qed.
