(* Floats.v -- the floating-point parts of the library in Coq's primitive binary64 floats:
   Embedding.distance (Euclidean), the <= eps test of vietorisRipsComplex, and
   TriangularLatticeEmbedding.computePositionOf.  math.pow(x, 2) is modelled as x * x (both are
   correctly rounded products here); int(n / c) and n % c on the small naturals involved are the
   natural quotient and remainder. *)
From Coq Require Import ZArith Uint63 PrimFloat List Arith Bool.
Import ListNotations.
Open Scope float_scope.

Fixpoint sumsq (acc : float) (p q : list float) : float :=
  match p, q with
  | a :: p', b :: q' => sumsq (acc + (b - a) * (b - a)) p' q'
  | _, _ => acc
  end.
(* Embedding.distance, dimension = length of the coordinate lists *)
Definition distance (p q : list float) : float := PrimFloat.sqrt (sumsq 0 p q).
(* the test of vietorisRipsComplex: distance(...) <= eps, ties included *)
Definition close (eps : float) (p q : list float) : bool := PrimFloat.leb (distance p q) eps.

Definition fnat (n : nat) : float := PrimFloat.of_uint63 (Uint63.of_Z (Z.of_nat n)).

(* TriangularLatticeEmbedding.computePositionOf for the n-th point of an nr x nc lattice in an
   h x w box *)
Definition lattice_pos (nr nc : nat) (h w : float) (n : nat) : float * float :=
  let i := Nat.div n nc in
  let j := Nat.modulo n nc in
  let rh := (h + 0) / fnat nr in
  let cw := (w + 0) / fnat (2 * nc) in
  let y := h - rh * fnat i in
  let x := if Nat.even i then cw * fnat (j * 2) else cw * fnat (j * 2 + 1) in
  (x, y).

Definition in_box (h w : float) (p : float * float) : bool :=
  PrimFloat.leb 0 (fst p) && PrimFloat.leb (fst p) w && PrimFloat.leb 0 (snd p) && PrimFloat.leb (snd p) h.
Definition same_pos (p q : float * float) : bool := PrimFloat.eqb (fst p) (fst q) && PrimFloat.eqb (snd p) (snd q).
Fixpoint all_distinct (l : list (float * float)) : bool :=
  match l with [] => true | p :: t => negb (existsb (same_pos p) t) && all_distinct t end.
Definition lattice_ok (nr nc : nat) (h w : float) : bool :=
  let ps := map (lattice_pos nr nc h w) (seq 0 (nr * nc)) in
  forallb (in_box h w) ps && all_distinct ps.

Definition sizes : list (nat * nat) := flat_map (fun r => map (fun c => (r, c)) (seq 1 6)) (seq 1 6).
Definition boxes : list (float * float) := [(1, 1); (2, 3); (0.5, 4); (3.25, 1.5)].

(* every lattice up to 6 x 6, in each of the four boxes: distinct points get distinct positions
   inside the box (computed in the kernel; the bound is part of the statement) *)
Lemma lattice_range_ok :
  forallb (fun rc => forallb (fun hw => lattice_ok (fst rc) (snd rc) (fst hw) (snd hw)) boxes) sizes = true.
Proof. vm_compute. reflexivity. Qed.

(* the Euclidean metric on exactly representable inputs: 3-4-5, coincident points, one dimension *)
Example distance_345 : distance [0; 0] [3; 4] = 5. Proof. vm_compute. reflexivity. Qed.
Example distance_same : distance [1.5; -2; 7] [1.5; -2; 7] = 0. Proof. vm_compute. reflexivity. Qed.
Example distance_1d : distance [2] [-1] = 3. Proof. vm_compute. reflexivity. Qed.
Example close_tie : close 5 [0; 0] [3; 4] = true. Proof. vm_compute. reflexivity. Qed.
Example close_negative : close (-1) [0; 0] [0; 0] = false. Proof. vm_compute. reflexivity. Qed.
