(* ComposeAttrs.v -- the attribute values of a.compose(c) (C16): when the call succeeds, every simplex of the
   result has a dictionary of the result's own holding -- for a simplex of both operands the dictionary of a
   updated with that of c (c wins on a shared key), for a simplex of one operand what that operand's dictionary
   holds; the operands' dictionaries are not written.  Plain Coq. *)
From Coq Require Import String ZArith Bool Arith List Lia.
From SV Require Import Names NamesFacts ListFacts Rep Fresh Complex Atomic RepInv Reach Shapes AddEffect CopyFaithful
                       Homology World WorldProofs CopyAttrs ComposeProofs.
Import ListNotations.
Open Scope nat_scope.

Definition cell (r : rep) (s : name) : handle := match assoc s (r_attr r) with Some h => h | None => (0, 0) end.
Definition merge (da dc : dict) : dict := fold_left (fun dd kv => dict_set dd (fst kv) (snd kv)) dc da.

Section ComposeAttrs.
  Variables (a c : rep) (uid : nat) (hp : heap).
  Hypothesis Pa : pinv a.
  Hypothesis Pc : pinv c.
  Hypothesis Oa : forall s h, assoc s (r_attr a) = Some h -> fst h <> uid.
  Hypothesis Oc : forall s h, assoc s (r_attr c) = Some h -> fst h <> uid.
  Hypothesis Hu0 : uid <> 0.

  Lemma cell_foreign r : (forall s h, assoc s (r_attr r) = Some h -> fst h <> uid) -> forall s, fst (cell r s) <> uid.
  Proof. intros O s. unfold cell. destruct (assoc s (r_attr r)) as [h|] eqn:A; [eapply O; eauto|simpl; auto]. Qed.

  (* what the dictionary of s holds once the simplices in `done` (of c) have been handled *)
  Definition val (done : list name) (s : name) : dict :=
    if memn s done then
      (if containsSimplex a s then merge (heap_get hp (cell a s)) (heap_get hp (cell c s)) else heap_get hp (cell c s))
    else heap_get hp (cell a s).

  Record cainv (done : list name) (hp1 : heap) (d : rep) : Prop := {
    ca_st : cstate a c (containsSimplex a) done d;
    ca_a : ainv uid d;
    ca_frame : forall h0, fst h0 <> uid -> heap_get hp1 h0 = heap_get hp h0;
    ca_val : forall s, containsSimplex d s = true -> exists h', assoc s (r_attr d) = Some h' /\ heap_get hp1 h' = val done s }.

  Lemma val_snoc_other done s t : t <> s -> val (done ++ [s]) t = val done t.
  Proof.
    intros Hne. unfold val. replace (memn t (done ++ [s])) with (memn t done); [reflexivity|].
    unfold memn. rewrite existsb_app. simpl. rewrite (name_eqb_neq t s) by exact Hne. now rewrite !orb_false_r.
  Qed.

  Lemma memn_snoc_same done s : memn s (done ++ [s]) = true.
  Proof. apply memn_In. apply in_or_app. right. now left. Qed.

  Lemma step_cainv done hp1 d s hp2 d2 : ~ In s done -> cainv done hp1 d ->
    compose_step a c (hp1, d, Ok tt) s = (hp2, d2, Ok tt) -> cainv (done ++ [s]) hp2 d2.
  Proof.
    intros Hnew [St A Fr Va] E.
    assert (St2 : cstate a c (containsSimplex a) (done ++ [s]) d2).
    { apply (compose_fold a c (containsSimplex a) (fun x => eq_refl) [s] done hp1 d hp2 d2 St). exact E. }
    pose proof (cs_mem _ _ _ _ _ St) as Hmem.
    unfold compose_step in E. destruct (c_simplexWithBasis a (basisOf c s) false) as [q|e]; [|discriminate].
    assert (Hset : forall h' v, fst h' = uid -> forall h, fst h <> uid -> heap_get (heap_set hp1 h' v) h = heap_get hp h).
    { intros h' v Hh' h Hne. rewrite heap_get_set. destruct (handle_eqb h h') eqn:E0; [|now apply Fr].
      apply handle_eqb_eq in E0. congruence. }
    destruct A as [Au Ad Ao].
    destruct (containsSimplex a s) eqn:Cs.
    - (* a simplex of both: its dictionary in the result is replaced by a new cell holding the merge *)
      destruct q as [q'|]; [|discriminate]. destruct (name_eqb s q'); [|discriminate].
      destruct (alloc d) as [d1 h'] eqn:Ea.
      assert (Ea' : r_attr d1 = r_attr d /\ r_simp d1 = r_simp d /\ r_uid d1 = r_uid d /\ r_nalloc d1 = S (r_nalloc d) /\ h' = (r_uid d, r_nalloc d)).
      { unfold alloc in Ea. injection Ea as <- <-. simpl. repeat split. }
      destruct Ea' as (Ra & Rs & Ru & Rn & Eh). injection E as <- <-.
      assert (Hh' : fst h' = uid) by (rewrite Eh; exact Au).
      assert (Cd : containsSimplex d s = true) by (rewrite Hmem, Cs; reflexivity).
      constructor; [exact St2| | |].
      + constructor; cbn [setAttributes r_uid r_attr r_simp r_nalloc].
        * congruence.
        * intros t. rewrite Ra, Rs. destruct (name_eq_dec t s) as [->|Hne].
          -- rewrite assoc_set_same. unfold containsSimplex in Cd. destruct (assoc s (r_simp d)); [split; discriminate|discriminate].
          -- rewrite assoc_set_other by exact Hne. apply Ad.
        * intros t h0. rewrite Ra, Rn. destruct (name_eq_dec t s) as [->|Hne].
          -- rewrite assoc_set_same. intros [= <-]. rewrite Eh. simpl. split; [exact Au|lia].
          -- rewrite assoc_set_other by exact Hne. intros A0. destruct (Ao t h0 A0). split; [assumption|lia].
      + apply Hset. exact Hh'.
      + intros t Ct. change (containsSimplex (setAttributes d1 s h') t) with (containsSimplex d1 t) in Ct.
        assert (Ct0 : containsSimplex d t = true) by (unfold containsSimplex in *; now rewrite <- Rs).
        cbn [setAttributes r_attr]. rewrite Ra. destruct (name_eq_dec t s) as [->|Hne].
        * exists h'. rewrite assoc_set_same. split; [reflexivity|]. rewrite heap_get_set.
          rewrite (proj2 (handle_eqb_eq h' h') eq_refl). unfold val. rewrite memn_snoc_same, Cs.
          rewrite !Fr by (apply cell_foreign; assumption). reflexivity.
        * destruct (Va t Ct0) as (ht & At & Ht). exists ht. rewrite assoc_set_other by exact Hne. split; [exact At|].
          rewrite heap_get_set. destruct (handle_eqb ht h') eqn:E0.
          -- apply handle_eqb_eq in E0. subst ht. destruct (Ao t h' At) as [_ Hlt]. rewrite Eh in Hlt. simpl in Hlt. lia.
          -- rewrite Ht. symmetry. now apply val_snoc_other.
    - (* a simplex of c only: added with a new cell holding what c's dictionary holds *)
      destruct q as [q'|]; [discriminate|].
      destruct (alloc d) as [d1 h'] eqn:Ea.
      assert (Ea' : r_attr d1 = r_attr d /\ r_simp d1 = r_simp d /\ r_uid d1 = r_uid d /\ r_nalloc d1 = S (r_nalloc d) /\ h' = (r_uid d, r_nalloc d)).
      { unfold alloc in Ea. injection Ea as <- <-. simpl. repeat split. }
      destruct Ea' as (Ra & Rs & Ru & Rn & Eh).
      destruct (addSimplex d1 (faces c s) (Some s) (Some h')) as [dd [id|e]] eqn:EA; [|discriminate].
      injection E as <- <-.
      destruct (addSimplex_given d1 (faces c s) s h' dd id EA) as (-> & Cs1 & ->).
      set (fs := faces c s) in *.
      set (r2 := add_final (add_struct d1 (length fs - 1)) fs s h' (length fs - 1)) in *.
      destruct (add_struct_fields d1 (length fs - 1)) as (Sa & Sn & Su & Ss).
      destruct (add_final_fields (add_struct d1 (length fs - 1)) fs s h' (length fs - 1)) as (Fa & Fn & Fu & pos & Fs).
      fold r2 in Fa, Fn, Fu, Fs. rewrite Sa, Ra in Fa. rewrite Sn, Rn in Fn. rewrite Su, Ru in Fu. rewrite Ss, Rs in Fs.
      assert (Hh' : fst h' = uid) by (rewrite Eh; exact Au).
      assert (Hnone : assoc s (r_attr d) = None).
      { apply Ad. unfold containsSimplex in Cs1. rewrite Rs in Cs1. destruct (assoc s (r_simp d)); [discriminate | reflexivity]. }
      constructor; [exact St2| | |].
      + constructor.
        * rewrite Fu. exact Au.
        * intros s0. rewrite Fa, Fs. rewrite !assoc_app. simpl. destruct (name_eqb s0 s) eqn:E0.
          -- apply name_eqb_eq in E0. subst s0. rewrite Hnone.
             assert (X : assoc s (r_simp d) = None) by (now apply Ad). rewrite X. split; discriminate.
          -- specialize (Ad s0). destruct (assoc s0 (r_attr d)), (assoc s0 (r_simp d)); intuition discriminate.
        * intros s0 h0. rewrite Fa, Fn. rewrite assoc_app. destruct (assoc s0 (r_attr d)) as [hh|] eqn:E0.
          -- intros [= <-]. destruct (Ao s0 hh E0). split; [assumption | lia].
          -- simpl. destruct (name_eqb s0 s); [|discriminate]. intros [= <-]. rewrite Eh. simpl. split; [exact Au | lia].
      + apply Hset. exact Hh'.
      + intros t Ct. rewrite Fa, assoc_app. destruct (name_eq_dec t s) as [->|Hne].
        * rewrite Hnone. simpl. rewrite name_eqb_refl. exists h'. split; [reflexivity|]. rewrite heap_get_set.
          rewrite (proj2 (handle_eqb_eq h' h') eq_refl). unfold val. rewrite memn_snoc_same, Cs.
          rewrite Fr by (apply cell_foreign; assumption). reflexivity.
        * assert (Ct0 : containsSimplex d t = true).
          { unfold containsSimplex in Ct. rewrite Fs, assoc_app in Ct. unfold containsSimplex.
            destruct (assoc t (r_simp d)); [reflexivity|]. simpl in Ct. rewrite (name_eqb_neq t s) in Ct by exact Hne. discriminate. }
          destruct (Va t Ct0) as (ht & At & Ht). exists ht. rewrite At. split; [reflexivity|].
          rewrite heap_get_set. destruct (handle_eqb ht h') eqn:E0.
          -- apply handle_eqb_eq in E0. subst ht. destruct (Ao t h' At) as [_ Hlt]. rewrite Eh in Hlt. simpl in Hlt. lia.
          -- rewrite Ht. symmetry. now apply val_snoc_other.
  Qed.

  Lemma fold_cainv : forall (L : list name) done hp1 d hp2 d2, NoDup (done ++ L) -> cainv done hp1 d ->
    fold_left (compose_step a c) L (hp1, d, Ok tt) = (hp2, d2, Ok tt) -> cainv (done ++ L) hp2 d2.
  Proof.
    induction L as [|s L IH]; intros done hp1 d hp2 d2 Hnd Hc H; cbn [fold_left] in H.
    - injection H as <- <-. now rewrite app_nil_r.
    - destruct (compose_step a c (hp1, d, Ok tt) s) as [[hp3 d3] [u|e]] eqn:E.
      2: { rewrite fold_raise in H. discriminate. }
      destruct u. replace (done ++ s :: L) with ((done ++ [s]) ++ L) in * by (now rewrite <- app_assoc).
      apply (IH (done ++ [s]) hp3 d3 hp2 d2 Hnd); [|exact H].
      apply (step_cainv done hp1 d s hp3 d3); [|exact Hc|exact E].
      intros Hin. rewrite <- app_assoc in Hnd. simpl in Hnd. apply NoDup_remove_2 in Hnd. apply Hnd. apply in_or_app. now left.
  Qed.

  Theorem compose_attrs hp' d : compose hp a c None uid = (hp', d, Ok tt) ->
    (forall s, containsSimplex d s = true ->
       exists h', assoc s (r_attr d) = Some h' /\ fst h' = uid /\
         heap_get hp' h' =
           if containsSimplex c s then
             (if containsSimplex a s then merge (heap_get hp (cell a s)) (heap_get hp (cell c s)) else heap_get hp (cell c s))
           else heap_get hp (cell a s)) /\
    (forall h0, fst h0 <> uid -> heap_get hp' h0 = heap_get hp h0).
  Proof.
    intros H. unfold compose in H.
    destruct (copy_new hp (view_of a) uid) as [[hp1 d0] [[]|e]] eqn:E0; [|discriminate].
    destruct (copy_faithful hp a uid hp1 d0 E0) as (Hinv0 & Hc0 & Hf0).
    assert (Hst0 : cstate a c (containsSimplex a) [] d0).
    { constructor.
      - exact Hinv0.
      - intros s. rewrite Hc0. simpl. rewrite orb_false_r. apply bool_eq_iff. rewrite memn_In. apply In_simplices_iff. exact Pa.
      - intros s Hs t. apply (In_simplices_iff a s Pa) in Hs. destruct (Hf0 s Hs) as [_ Hf]. apply Hf.
      - intros s []. }
    (* the copy: every simplex of a has a cell of the result holding what a's dictionary holds *)
    pose proof E0 as E1. unfold copy_new, addSimplicesFrom in E1.
    destruct (addFrom_loop hp (empty_rep uid) RNone rl0 (view_of a) []) as [[[hpx rx] stx] [ns|e]] eqn:EL; [|discriminate].
    injection E1 as <- <-.
    assert (Hinv00 : ainv uid (empty_rep uid)).
    { constructor; [reflexivity | intros s; simpl; tauto | intros s h Hh; discriminate]. }
    assert (Hsrc : forall s fs h, In (s, (fs, h)) (view_of a) -> fst h <> uid).
    { intros s fs h Hin. unfold view_of in Hin. apply in_map_iff in Hin. destruct Hin as (s0 & Eq & _).
      injection Eq as <- <- <-. destruct (assoc s0 (r_attr a)) as [h0|] eqn:A; [eapply Oa; eauto | simpl; auto]. }
    destruct (bulk_add_attrs uid _ _ _ _ _ _ _ _ _ Hinv00 Hsrc EL) as (A0 & Hall & _ & Hframe).
    assert (C0 : cainv [] hpx rx).
    { constructor; [exact Hst0|exact A0|exact Hframe|].
      intros s Cs. rewrite Hc0 in Cs. apply memn_In in Cs.
      destruct (Hall s (faces a s) (cell a s)) as (h' & Ah & _ & Hg).
      { unfold view_of. apply in_map_iff. exists s. split; [reflexivity|exact Cs]. }
      exists h'. split; [exact Ah|]. unfold val. simpl. exact Hg. }
    rewrite compose_loop_fold in H.
    set (L := concat (map (simplicesOfOrder c) (seq 0 (r_nord c)))) in *.
    assert (HL : NoDup L).
    { unfold L. replace (concat (map (simplicesOfOrder c) (seq 0 (r_nord c)))) with (simplices c false).
      - now apply simplices_nodup.
      - rewrite (simplices_by_order c Pc). destruct Pc as [K Pm St Lx].
        replace (length (r_idx c)) with (r_nord c + (length (r_idx c) - r_nord c)) by lia.
        rewrite seq_app, map_app, concat_app.
        rewrite (Cmp.concat_all_nil (map (simplicesOfOrder c) (seq (0 + r_nord c) _))); [now rewrite app_nil_r|].
        intros x Hx. apply in_map_iff in Hx. destruct Hx as (k & <- & Hk). apply in_seq in Hk.
        unfold simplicesOfOrder. destruct (k <? r_nord c) eqn:E; auto. apply Nat.ltb_lt in E. lia. }
    pose proof (fold_cainv L [] hpx rx hp' d HL C0 H) as [St A Fr Va]. simpl in Va.
    split; [|exact Fr].
    intros s Cs. destruct (Va s Cs) as (h' & Ah & Hg). exists h'. split; [exact Ah|].
    split; [exact (proj1 (a_own uid d A s h' Ah))|].
    rewrite Hg. unfold val. unfold L. now rewrite (memn_listing c s Pc).
  Qed.
End ComposeAttrs.

(* ---------- what the merge is: c's entries written over a's ---------- *)
Lemma dict_get_set d k v k' : dict_get (dict_set d k v) k' = if String.eqb k' k then Some v else dict_get d k'.
Proof.
  induction d as [|[k0 v0] t IH]; simpl.
  - reflexivity.
  - destruct (String.eqb k k0) eqn:E; simpl.
    + apply String.eqb_eq in E. subst k0. destruct (String.eqb k' k); reflexivity.
    + destruct (String.eqb k' k0) eqn:E1.
      * apply String.eqb_eq in E1. subst k0. destruct (String.eqb k' k) eqn:E2; [|reflexivity].
        apply String.eqb_eq in E2. subst k'. rewrite String.eqb_refl in E. discriminate.
      * exact IH.
Qed.

Lemma dict_get_app d1 d2 k : dict_get (d1 ++ d2) k = match dict_get d1 k with Some v => Some v | None => dict_get d2 k end.
Proof. induction d1 as [|[k0 v0] t IH]; simpl; [reflexivity|]. destruct (String.eqb k k0); auto. Qed.

(* reading key k from the merge: the last entry for k in c's dictionary if there is one, else a's entry *)
Theorem merge_spec : forall dc da k,
  dict_get (merge da dc) k = match dict_get (rev dc) k with Some v => Some v | None => dict_get da k end.
Proof.
  induction dc as [|[k0 v0] t IH]; intros da k.
  - reflexivity.
  - change (merge da ((k0, v0) :: t)) with (merge (dict_set da k0 v0) t). rewrite IH. simpl rev.
    rewrite dict_get_app. destruct (dict_get (rev t) k); [reflexivity|]. simpl. rewrite dict_get_set.
    destruct (String.eqb k k0); reflexivity.
Qed.
