(* ComposeOk.v -- C16, the other direction: when the two complexes are compatible -- a name they share
   denotes simplices with the same points, and points they share carry the same name -- a.compose(c)
   succeeds (and is then the union, ComposeProofs.v).  The loop visits c order by order; when a simplex's
   turn comes its faces are in the result with the right order, and no simplex of the result has the same
   faces: one of a's would have the same points (so the same name), one of c's is the same simplex.
   Plain Coq. *)
From Coq Require Import String ZArith Bool Arith List Lia.
From SV Require Import Names NamesFacts ListFacts Rep Fresh Complex Atomic RepInv Reach Shapes ShapesReach Incidence AddEffect
                       Closed ClosedReach AddBasis BasisInv Duality DeleteEffect VInv AwbSpec VSets DD CopyFaithful
                       Homology ListMat Listing FlagExt VIso MinCycle FlagSound Continuation FlagComplete CopyOk ComposeProofs Lookup.
Import ListNotations.
Open Scope nat_scope.

(* simplexWithBasis(bs, fatal=False) on any duplicate-free non-empty list: it finds the simplex on bs or says None *)
Lemma lookup_total r bs : vinv r -> NoDup bs -> bs <> [] ->
  (exists s, c_simplexWithBasis r bs false = Ok (Some s) /\ containsSimplex r s = true /\ sameset (basisOf r s) bs) \/
  (c_simplexWithBasis r bs false = Ok None /\ forall t, containsSimplex r t = true -> ~ sameset (basisOf r t) bs).
Proof.
  intros Hv Hnd Hne. destruct (c_isBasis r bs false) as [[|]|e] eqn:Eb.
  - apply isBasis_true_iff in Eb. pose proof (lookup_by_basis_exact r bs Hv Eb Hnd Hne) as H.
    destruct (c_simplexWithBasis r bs false) as [[s|]|e]; [left; exists s; tauto | right; auto | destruct H].
  - right. assert (Np : ~ pts r bs) by (intros Hp; apply isBasis_true_iff in Hp; congruence).
    split.
    + unfold c_simplexWithBasis, simplexWithBasis. fold (c_isBasis r bs false). now rewrite Eb.
    + intros t Ct St. apply Np. intros b Hb. apply contains_assoc in Ct. destruct Ct as (k & j & A).
      apply (a_basis_point r Hv t k j b A). now apply St.
  - destruct (isBasis_no_raise r bs) as (b & Hb). congruence.
Qed.

Section ComposeOk.
  Variables a c : rep.
  Hypothesis Va : vinv a.
  Hypothesis Vc : vinv c.
  (* compatible: a shared name denotes the same points; shared points carry the same name *)
  Hypothesis K1 : forall s, containsSimplex c s = true -> containsSimplex a s = true -> sameset (basisOf a s) (basisOf c s).
  Hypothesis K2 : forall s t, containsSimplex c s = true -> containsSimplex a t = true ->
                  sameset (basisOf a t) (basisOf c s) -> t = s.
  Let Sa : sinv a := c_s a (b_c a (v_b a Va)).
  Let Sc : sinv c := c_s c (b_c c (v_b c Vc)).
  Let Pa : pinv a := s_p a Sa.
  Let Pc : pinv c := s_p c Sc.

  Record coinv (k : nat) (done : list name) (d : rep) : Prop := {
    co_s : sinv d;
    co_in : forall s, containsSimplex d s = true <->
            containsSimplex a s = true \/ exists o j, assoc s (r_simp c) = Some (o, j) /\ (o < k \/ (o = k /\ In s done));
    co_a : forall s, containsSimplex a s = true -> orderOf d s = orderOf a s /\ forall t, In t (faces d s) <-> In t (faces a s);
    co_c : forall s, containsSimplex d s = true -> containsSimplex a s = false ->
           orderOf d s = orderOf c s /\ forall t, In t (faces d s) <-> In t (faces c s) }.

  Lemma same_card_same_order s o j o' j' : assoc s (r_simp a) = Some (o, j) -> assoc s (r_simp c) = Some (o', j') -> o = o'.
  Proof.
    intros Aa Ac. assert (Ca : containsSimplex a s = true) by (unfold containsSimplex; now rewrite Aa).
    assert (Cc : containsSimplex c s = true) by (unfold containsSimplex; now rewrite Ac).
    pose proof (v_card a Va s o j Aa) as La. pose proof (v_card c Vc s o' j' Ac) as Lc.
    rewrite (NoDup_same_length (basisOf a s) (basisOf c s)) in La; [lia|apply basis_nodup; exact Pa|apply basis_nodup; exact Pc|now apply K1].
  Qed.

  Lemma step_one k done s rest hp d : simplicesOfOrder c k = done ++ s :: rest -> coinv k done d ->
    exists hp1 d1, compose_step a c (hp, d, Ok tt) s = (hp1, d1, Ok tt) /\ coinv k (done ++ [s]) d1.
  Proof.
    intros Hl [Sd In_ Ia Ic]. unfold compose_step.
    assert (Hin : In s (simplicesOfOrder c k)) by (rewrite Hl; apply in_or_app; right; now left).
    destruct (listed_assoc c Vc s k Hin) as (j & As).
    assert (Cs : containsSimplex c s = true) by (unfold containsSimplex; now rewrite As).
    assert (Nd : NoDup (simplicesOfOrder c k)) by (apply sOO_nodup; exact Pc).
    assert (Hns : ~ In s done).
    { rewrite Hl in Nd. apply NoDup_remove_2 in Nd. intros H. apply Nd. apply in_or_app. now left. }
    assert (Bne : basisOf c s <> []).
    { pose proof (v_card c Vc s k j As) as L. destruct (basisOf c s); [discriminate|congruence]. }
    destruct (alloc d) as [dd h'] eqn:Ea.
    assert (Hs1 : same_obs d dd) by (pose proof (same_obs_alloc d) as X; now rewrite Ea in X).
    assert (S1 : sinv dd) by (eapply sinv_same_obs; eauto).
    destruct (same_obs_queries d dd Hs1) as (Qo & _ & Qf & _ & _ & Qc & _).
    pose proof Hs1 as (_ & Hnord & Hsimp & _).
    destruct (lookup_total a (basisOf c s) Va (basis_nodup c s Pc) Bne) as [(q & El & Cq & Sq)|[El Hnone]]; rewrite El.
    - (* a has a simplex on these points: it must be s *)
      pose proof (K2 s q Cs Cq Sq) as ->. rewrite Cq, name_eqb_refl.
      eexists. eexists. split; [reflexivity|]. constructor.
      + apply sinv_setAttributes. exact S1.
      + intros u. change (containsSimplex (setAttributes dd s h') u) with (containsSimplex dd u). rewrite Qc, (In_ u). split.
        * intros [H|(o & j' & A & Hc)]; [now left|]. right. exists o, j'. split; [exact A|].
          destruct Hc as [Hc|[Hc Hd]]; [now left | right; split; [exact Hc | apply in_or_app; now left]].
        * intros [H|(o & j' & A & [Hc|[Hc Hd]])]; [now left | right; exists o, j'; auto|].
          apply in_app_or in Hd. destruct Hd as [Hd|[<-|[]]]; [right; exists o, j'; auto | now left].
      + intros u Cu. change (orderOf (setAttributes dd s h') u) with (orderOf dd u). change (faces (setAttributes dd s h') u) with (faces dd u).
        rewrite Qo. split; [apply Ia; auto | intros t; rewrite Qf; now apply Ia].
      + intros u Cu Nu. change (containsSimplex (setAttributes dd s h') u) with (containsSimplex dd u) in Cu. rewrite Qc in Cu.
        change (orderOf (setAttributes dd s h') u) with (orderOf dd u). change (faces (setAttributes dd s h') u) with (faces dd u).
        rewrite Qo. split; [apply Ic; auto | intros t; rewrite Qf; now apply Ic].
    - (* no simplex of a on these points: s is not in a, and is added *)
      assert (Nas : containsSimplex a s = false).
      { destruct (containsSimplex a s) eqn:E; auto. exfalso. apply (Hnone s E). now apply K1. }
      rewrite Nas.
      destruct (faces_length c Vc s k j As) as [Lf L1].
      (* the faces are in d, with the order they have in c *)
      assert (Hfa : forall f, In f (faces c s) -> 1 <= k /\ exists i, assoc f (r_simp dd) = Some (k - 1, i)).
      { intros f Hf. destruct k as [|k0]; [unfold faces in Hf; rewrite As in Hf; destruct Hf|].
        destruct (face_is_simplex c Sc s f k0 j As Hf) as (i & Af). split; [lia|]. replace (S k0 - 1) with k0 by lia.
        assert (Cd : containsSimplex d f = true) by (apply In_; right; exists k0, i; split; [exact Af | left; lia]).
        rewrite Hsimp. destruct (containsSimplex a f) eqn:Caf.
        - destruct (Ia f Caf) as [O _]. apply contains_assoc in Caf. destruct Caf as (oa & ja & Aa).
          pose proof (same_card_same_order f oa ja k0 i Aa Af) as ->.
          unfold orderOf in O. rewrite Aa in O. destruct (assoc f (r_simp d)) as [[o' j']|]; [|discriminate]. injection O as ->. now exists j'.
        - destruct (Ic f Cd Caf) as [O _]. unfold orderOf in O. rewrite Af in O.
          destruct (assoc f (r_simp d)) as [[o' j']|]; [|discriminate]. injection O as ->. now exists j'. }
      destruct (addSimplex_succeeds_named dd (faces c s) s h') as (d2 & E).
      + apply faces_nodup; exact Pc.
      + exact L1.
      + rewrite Lf. destruct k as [|k0]; [lia|].
        destruct (faces c s) as [|f0 t0] eqn:Ef; [simpl in Lf; lia|].
        destruct (Hfa f0 (or_introl eq_refl)) as (_ & i & Af). pose proof (s_p dd S1) as [K Pm St L]. apply Pm in Af. simpl in Af. lia.
      + rewrite Qc. destruct (containsSimplex d s) eqn:Cd; [|reflexivity]. exfalso.
        apply In_ in Cd. destruct Cd as [Cd|(o & j' & A' & [Ho|[Ho Hd]])]; [congruence| |]; rewrite As in A'; injection A' as <- <-; [lia | contradiction].
      + intros f Hf. rewrite Lf. destruct (Hfa f Hf) as (_ & i & Af). eauto.
      + intros H0 Hlt. rewrite (swf_total dd (faces c s)).
        * destruct (last (map Some (filter (fun s0 => seteq (faces dd s0) (faces c s)) (simplicesOfOrder dd (length (faces c s) - 1)))) None) as [q|] eqn:Elast; [|reflexivity].
          exfalso. apply last_Some_In in Elast. apply filter_In in Elast. destruct Elast as [Hq Sq]. rewrite Lf in Hq.
          apply seteq_sameset in Sq. rewrite Qf in Sq.
          destruct (listed_assoc_gen dd (s_p dd S1) q k Hq) as (jq & Aq). rewrite Hsimp in Aq.
          assert (Cq : containsSimplex d q = true) by (unfold containsSimplex; now rewrite Aq).
          destruct k as [|k0]; [lia|].
          destruct (containsSimplex a q) eqn:Caq.
          -- (* a simplex of a with the faces of s: the same points, hence the same name *)
             destruct (Ia q Caq) as [Oq Fq]. pose proof Caq as X. apply contains_assoc in X. destruct X as (oa & ja & Aa).
             assert (oa = S k0) by (unfold orderOf in Oq; rewrite Aq, Aa in Oq; now injection Oq). subst oa.
             assert (Sfaces : sameset (faces a q) (faces c s)) by (intros t; rewrite <- (Fq t); apply Sq).
             assert (Hb : sameset (basisOf a q) (basisOf c s)).
             { intros p. destruct (b_b a (v_b a Va) q (S k0) ja Aa) as [_ Bq]. destruct (b_b c (v_b c Vc) s (S k0) j As) as [_ Bs].
               rewrite (Bq ltac:(lia) p), (Bs ltac:(lia) p).
               assert (Hfb : forall u, In u (faces c s) -> sameset (basisOf a u) (basisOf c u)).
               { intros u Hu. apply K1.
                 - destruct (face_is_simplex c Sc s u k0 j As Hu) as (iu & Au). unfold containsSimplex. now rewrite Au.
                 - apply Sfaces in Hu. destruct (face_is_simplex a Sa q u k0 ja Aa Hu) as (iu & Au). unfold containsSimplex. now rewrite Au. }
               split; intros (u & Hu & Hp).
               - apply Sfaces in Hu. exists u. split; [exact Hu | now apply (Hfb u Hu)].
               - exists u. split; [now apply Sfaces | now apply (Hfb u Hu)]. }
             pose proof (K2 s q Cs Caq Hb). subst q. congruence.
          -- destruct (Ic q Cq Caq) as [Oq Fq]. apply In_ in Cq. destruct Cq as [Cq|(o & j' & Aq' & Hcase)]; [congruence|].
             unfold orderOf in Oq. rewrite Aq, Aq' in Oq. injection Oq as <-.
             destruct Hcase as [Hlt'|[_ Hd]]; [lia|].
             assert (q = s); [|subst; contradiction].
             apply (same_faces_same_simplex c Vc s q k0 j j' As Aq'). intros t. rewrite <- (Fq t). apply Sq.
        * destruct (faces c s) as [|f0 [|f1 t]]; simpl in *; lia.
        * intros f Hf. rewrite Lf. destruct (Hfa f Hf) as (_ & i & Af). eauto.
      + rewrite E. eexists. exists d2. split; [reflexivity|].
        destruct (addSimplex_effect dd (faces c s) (Some s) (Some h') d2 s S1 E) as (Hnc & _ & Ho & Hf & Hold & Hall).
        constructor.
        * eapply addSimplex_sinv; eauto.
        * intros u. rewrite Hall, Qc, orb_true_iff, (In_ u). split.
          -- intros [[H|(o & j' & A & Hc)]|Eu]; [now left| |].
             ++ right. exists o, j'. split; [exact A|]. destruct Hc as [Hc|[Hc Hd]]; [now left | right; split; [exact Hc | apply in_or_app; now left]].
             ++ apply name_eqb_eq in Eu. subst u. right. exists k, j. split; [exact As | right; split; [reflexivity | apply in_or_app; right; now left]].
          -- intros [H|(o & j' & A & [Hc|[Hc Hd]])]; [left; now left | left; right; exists o, j'; auto|].
             apply in_app_or in Hd. destruct Hd as [Hd|[<-|[]]]; [left; right; exists o, j'; auto | right; apply name_eqb_refl].
        * intros u Cu. assert (Cd : containsSimplex dd u = true) by (rewrite Qc; apply In_; now left).
          destruct (Hold u Cd) as (O' & _ & F' & _). destruct (Ia u Cu) as [O'' F''].
          split; [rewrite O', Qo; exact O'' | intros t; rewrite F', Qf; apply F''].
        * intros u Cu Nu. rewrite Hall in Cu. apply orb_prop in Cu. destruct Cu as [Cu|Eu].
          -- destruct (Hold u Cu) as (O' & _ & F' & _). rewrite Qc in Cu. destruct (Ic u Cu Nu) as [O'' F''].
             split; [rewrite O', Qo; exact O'' | intros t; rewrite F', Qf; apply F''].
          -- apply name_eqb_eq in Eu. subst u. split; [|exact Hf]. rewrite Ho, Lf. unfold orderOf. now rewrite As.
  Qed.
  Lemma fold_app_ok L1 L2 hp d :
    fold_left (compose_step a c) (L1 ++ L2) (hp, d, Ok tt) =
    fold_left (compose_step a c) L2 (fold_left (compose_step a c) L1 (hp, d, Ok tt)).
  Proof. apply fold_left_app. Qed.

  Lemma step_order k : forall rest done hp d, simplicesOfOrder c k = done ++ rest -> coinv k done d ->
    exists hp1 d1, fold_left (compose_step a c) rest (hp, d, Ok tt) = (hp1, d1, Ok tt) /\ coinv k (done ++ rest) d1.
  Proof.
    induction rest as [|s rest IH]; intros done hp d Hl Hc.
    - exists hp, d. split; [reflexivity | now rewrite app_nil_r].
    - destruct (step_one k done s rest hp d Hl Hc) as (hp1 & d1 & E1 & C1).
      destruct (IH (done ++ [s]) hp1 d1) as (hp2 & d2 & E2 & C2); [now rewrite <- app_assoc | exact C1|].
      exists hp2, d2. split; [cbn [fold_left]; rewrite E1; exact E2 | now rewrite <- app_assoc in C2].
  Qed.

  Lemma coinv_next k d : coinv k (simplicesOfOrder c k) d -> coinv (S k) [] d.
  Proof.
    intros [Sd In_ Ia Ic]. constructor; auto.
    intros s. rewrite (In_ s). split; (intros [H|(o & j & A & Hc)]; [now left | right; exists o, j; split; [exact A|]]).
    - destruct Hc as [Hc|[Hc _]]; left; lia.
    - destruct Hc as [Hc|[_ []]]. destruct (Nat.eq_dec o k) as [->|Ne]; [right; split; [reflexivity | eapply order_listed; eauto] | left; lia].
  Qed.

  Lemma step_orders : forall n k hp d, coinv k [] d ->
    exists hp1 d1, fold_left (compose_step a c) (concat (map (simplicesOfOrder c) (seq k n))) (hp, d, Ok tt) = (hp1, d1, Ok tt) /\
                   coinv (k + n) [] d1.
  Proof.
    induction n as [|n IH]; intros k hp d Hc.
    - exists hp, d. split; [reflexivity | now rewrite Nat.add_0_r].
    - cbn [seq map concat]. rewrite fold_app_ok.
      destruct (step_order k (simplicesOfOrder c k) [] hp d eq_refl Hc) as (hp1 & d1 & E1 & C1).
      rewrite E1. simpl in C1. apply coinv_next in C1.
      destruct (IH (S k) hp1 d1 C1) as (hp2 & d2 & E2 & C2).
      exists hp2, d2. split; [exact E2 | now replace (k + S n) with (S k + n) by lia].
  Qed.

  (* C16: compatible operands are composed *)
  Theorem compose_succeeds hp uid : exists hp' d, compose hp a c None uid = (hp', d, Ok tt).
  Proof.
    unfold compose. destruct (copy_new_succeeds a Va hp uid) as (hp0 & d0 & E0). rewrite E0.
    rewrite compose_loop_fold.
    destruct (copy_faithful hp a uid hp0 d0 E0) as (S0 & Hm & Hf).
    assert (C0 : coinv 0 [] d0).
    { constructor; [exact S0| | |].
      - intros s. rewrite Hm, memn_In, (In_simplices_iff a s Pa). split; [now left|]. intros [H|(o & j & _ & [H|[_ []]])]; [exact H | lia].
      - intros s Cs. assert (Hin : In s (simplices a false)) by now apply (In_simplices_iff a s Pa).
        destruct (Hf s Hin) as [O F]. split; [|exact F]. rewrite O.
        apply contains_assoc in Cs. destruct Cs as (o & j & A). destruct (faces_length a Va s o j A) as [L _].
        unfold orderOf. now rewrite A, L.
      - intros s Cd Na. rewrite Hm, memn_In, (In_simplices_iff a s Pa) in Cd. congruence. }
    destruct (step_orders (r_nord c) 0 hp0 d0 C0) as (hp1 & d1 & E1 & _).
    rewrite E1. eauto.
  Qed.
End ComposeOk.
