(* JsonBetti.v -- the complex decoded from the JSON encoding of a complex has its Betti numbers
   (decoding replays the adds of copy(): JsonOk.decode_like_bulk_add; a copy has the Betti numbers
   of its source: SameBetti.copy_same_betti). *)
From Coq Require Import String ZArith Bool Arith List Lia.
From SV Require Import Names NamesFacts Rep Complex RepInv VInv Homology World CopyOk JsonOk.
From SV Require SameBetti.
Import ListNotations.

Theorem json_same_betti src hp0 hp uid hp' r' k : vinv src ->
  decode hp (empty_rep uid) (encode_view hp0 (view_of src)) = (hp', r', Ok tt) ->
  betti1 r' k = betti1 src k.
Proof.
  intros Hv E.
  destruct (decode_like_bulk_add hp0 (view_of src) hp hp (empty_rep uid) rl0 []) as (hpd & Ed).
  rewrite E in Ed.
  destruct (addFrom_loop hp (empty_rep uid) RNone rl0 (view_of src) []) as [[[hpa ra] sta] xa] eqn:EL.
  cbn [fst snd] in Ed. injection Ed as _ -> Ex.
  apply (@SameBetti.copy_same_betti hp src uid hpa ra k Hv).
  unfold copy_new, addSimplicesFrom. rewrite EL. now rewrite <- Ex.
Qed.
