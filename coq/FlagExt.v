(* FlagExt.v -- flagComplex / growFlagComplex only ever ADD simplices of order >= 2 (C11): the flag
   complex of K has exactly K's points and edges and contains K with K's names, orders and faces.
   Plain Coq. *)
From Coq Require Import String ZArith Bool Arith List Lia.
From SV Require Import Names NamesFacts ListFacts Rep Fresh Complex Atomic RepInv Reach Shapes Incidence AddEffect CopyFaithful Homology.
Import ListNotations.
Open Scope nat_scope.

Lemma combs_length {A} (k : nat) : forall (l : list A) c, In c (combs k l) -> length c = k.
Proof.
  induction k as [|k IH]; intros l c H.
  - destruct l; simpl in H; destruct H as [H|H]; try (subst c; reflexivity); destruct H.
  - induction l as [|x t IHl]; simpl in H; [destruct H|]. apply in_app_or in H. destruct H as [H|H].
    + apply in_map_iff in H. destruct H as (c0 & <- & Hc0). simpl. f_equal. now apply (IH t).
    + now apply IHl.
Qed.

(* r' extends r by simplices of order >= 2 only *)
Record ext2 (r r' : rep) : Prop := {
  e_inv : sinv r';
  e_old : forall s, containsSimplex r s = true ->
          containsSimplex r' s = true /\ orderOf r' s = orderOf r s /\ faces r' s = faces r s;
  e_new : forall s, containsSimplex r' s = true -> containsSimplex r s = true \/ exists k, orderOf r' s = Ok k /\ 2 <= k }.

Lemma ext2_refl r : sinv r -> ext2 r r.
Proof. intros H. constructor; auto. Qed.

Lemma ext2_trans a b c : ext2 a b -> ext2 b c -> ext2 a c.
Proof.
  intros [I1 O1 N1] [I2 O2 N2]. constructor; [exact I2| |].
  - intros s Hs. destruct (O1 s Hs) as (C1 & Or1 & F1). destruct (O2 s C1) as (C2 & Or2 & F2).
    split; [exact C2|]. split; congruence.
  - intros s Hs. destruct (N2 s Hs) as [Hb|Hk]; [|now right].
    destruct (N1 s Hb) as [Ha|(k & Hk & Hk2)]; [now left|]. right. exists k. split; [|exact Hk2].
    destruct (O2 s Hb) as (_ & Or2 & _). congruence.
Qed.

Lemma ext2_add r fs r' n : sinv r -> 3 <= length fs -> addSimplex r fs None None = (r', Ok n) -> ext2 r r'.
Proof.
  intros HS Hl H. destruct (addSimplex_effect r fs None None r' n HS H) as (_ & _ & Ho & _ & Hold & Hall).
  constructor.
  - eapply addSimplex_sinv; eauto.
  - intros s Hs. destruct (Hold s Hs) as (O & _ & F & _). split; [rewrite Hall, Hs; reflexivity | auto].
  - intros s Hs. rewrite Hall in Hs. apply orb_prop in Hs. destruct Hs as [Hs|Hs]; [now left|].
    apply name_eqb_eq in Hs. subst s. right. exists (length fs - 1). split; [exact Ho | lia].
Qed.

Lemma ext2_same_obs r r' : same_obs r r' -> sinv r -> ext2 r r'.
Proof.
  intros Hs HS. destruct (same_obs_queries r r' Hs) as (Qo & _ & Qf & _ & _ & Qc & _).
  constructor; [eapply sinv_same_obs; eauto| |].
  - intros s H. rewrite Qc, Qo, Qf. auto.
  - intros s H. left. now rewrite <- Qc.
Qed.

(* one order of _completePotentialSimplices *)
Lemma cps_order_ext r k newk1 nss maxk r' nss' maxk' x : sinv r -> 2 <= k ->
  cps_order r k newk1 nss maxk = (r', nss', maxk', x) -> ext2 r r'.
Proof.
  intros HS Hk. unfold cps_order.
  set (L := combs (S k) (seq 0 (length (simplicesOfOrder r (k - 1))))).
  assert (HL : forall fs, In fs L -> length fs = S k).
  { intros fs Hin. unfold L in Hin. now apply combs_length in Hin. }
  clearbody L. generalize (boundaryOperator r (k - 1)). intros bnd.
  assert (G : forall ra nsa ma xa, ext2 r ra ->
            forall r1 n1 m1 x1, fold_left
              (fun (acc : rep * nssT * nat * res unit) (fs : list nat) =>
                 match acc with
                 | (r', nss', maxk', Raise e) => acc
                 | (r', nss', maxk', Ok _) =>
                     if existsb (fun i => existsb (Nat.eqb i) newk1) fs && isClosed bnd fs then
                       let cfs := map (fun i => nth i (simplicesOfOrder r' (k - 1)) (NInt 0)) fs in
                       match c_simplexWithFaces r' cfs with
                       | Raise e => (r', nss', maxk', Raise e)
                       | Ok (Some _) => acc
                       | Ok None =>
                           match addSimplex r' cfs None None with
                           | (r'', Raise e) => (r'', nss', maxk', Raise e)
                           | (r'', Ok s) =>
                               match indexOf r'' s with
                               | Raise e => (r'', nss', maxk', Raise e)
                               | Ok i => (r'', nss_add k i nss', Nat.max maxk' k, Ok tt)
                               end
                           end
                       end
                     else acc
                 end) L (ra, nsa, ma, xa) = (r1, n1, m1, x1) -> ext2 r r1).
  { induction L as [|fs L IH]; intros ra nsa ma xa He r1 n1 m1 x1 H; simpl in H.
    - injection H as <- _ _ _. exact He.
    - assert (HL' : forall fs0, In fs0 L -> length fs0 = S k) by (intros; apply HL; now right).
      destruct xa as [u|e].
      2: { eapply (IH HL'); [exact He | exact H]. }
      destruct (existsb (fun i => existsb (Nat.eqb i) newk1) fs && isClosed bnd fs).
      2: { eapply (IH HL'); [exact He | exact H]. }
      cbv zeta in H.
      destruct (c_simplexWithFaces ra (map (fun i => nth i (simplicesOfOrder ra (k - 1)) (NInt 0)) fs)) as [[q|]|e].
      + eapply (IH HL'); [exact He | exact H].
      + destruct (addSimplex ra (map (fun i => nth i (simplicesOfOrder ra (k - 1)) (NInt 0)) fs) None None) as [rb [s|e]] eqn:EA.
        * assert (Hb : ext2 r rb).
          { apply (ext2_trans r ra rb He). eapply (ext2_add ra _ rb s (e_inv r ra He)); [|exact EA].
            rewrite map_length, (HL fs (or_introl eq_refl)). lia. }
          destruct (indexOf rb s); eapply (IH HL'); try exact H; exact Hb.
        * assert (Hb : ext2 r rb).
          { apply (ext2_trans r ra rb He). apply ext2_same_obs; [|exact (e_inv r ra He)].
            apply addSimplex_atomic in EA. tauto. }
          eapply (IH HL'); [exact Hb | exact H].
      + eapply (IH HL'); [exact He | exact H]. }
  intros H. eapply (G r nss maxk (Ok tt) (ext2_refl r HS)). exact H.
Qed.

Lemma cps_loop_ext fuel : forall k maxk r nss r' x, sinv r -> 1 <= k ->
  cps_loop fuel k maxk r nss = (r', x) -> ext2 r r'.
Proof.
  induction fuel as [|f IH]; intros k maxk r nss r' x HS Hk H; simpl in H.
  - injection H as <- _. now apply ext2_refl.
  - destruct (maxk + 1 <? k); [injection H as <- _; now apply ext2_refl|].
    replace (k - 0) with k in H by lia.
    destruct (nss_get k nss) as [[|i newk1]|].
    + eapply (IH (S k)); eauto.
    + set (nss1 := match nss_get (S k) nss with Some _ => nss | None => nss ++ [(S k, [])] end) in H.
      destruct (cps_order r (S k) (i :: newk1) nss1 maxk) as [[[r1 nss'] maxk'] [u|e]] eqn:E.
      * assert (H1 : ext2 r r1) by (eapply cps_order_ext; [exact HS | | exact E]; lia).
        apply (ext2_trans r r1 r' H1). eapply (IH (S k)); [exact (e_inv r r1 H1) | lia | exact H].
      * injection H as <- _. eapply cps_order_ext; [exact HS | | exact E]. lia.
    + eapply (IH (S k)); eauto.
Qed.

Theorem completePotentialSimplices_ext r nss r' x : sinv r ->
  completePotentialSimplices r nss = (r', x) -> ext2 r r'.
Proof.
  intros HS H. unfold completePotentialSimplices in H. destruct nss as [|p t]; [injection H as <- _; now apply ext2_refl|].
  eapply cps_loop_ext; [exact HS | | exact H]. lia.
Qed.

Theorem growFlagComplex_ext r news r' x : sinv r -> growFlagComplex r news = (r', x) -> ext2 r r'.
Proof.
  intros HS H. unfold growFlagComplex in H.
  match type of H with match ?X with _ => _ end = _ => destruct X as [nss|e] end.
  - eapply completePotentialSimplices_ext; eauto.
  - injection H as <- _. now apply ext2_refl.
Qed.

(* the flag complex of K: exactly K's points and edges; K's simplices with their names, orders and
   faces; everything else has order >= 2 *)
Theorem flagComplex_contains_source hp src uid hp' r' :
  flagComplex hp src uid = (hp', r', Ok tt) ->
  sinv r' /\
  (forall s, In s (simplices src false) ->
     containsSimplex r' s = true /\ orderOf r' s = Ok (length (faces src s) - 1) /\
     forall t, In t (faces r' s) <-> In t (faces src s)) /\
  (forall s, containsSimplex r' s = true ->
     In s (simplices src false) \/ exists k, orderOf r' s = Ok k /\ 2 <= k).
Proof.
  intros H. unfold flagComplex in H.
  destruct (copy_new hp (view_of src) uid) as [[hp1 c] [[]|e]] eqn:E0; [|discriminate].
  destruct (completePotentialSimplices c (flag_seed c)) as [c' x] eqn:E1. injection H as <- <- ->.
  destruct (copy_faithful hp src uid hp1 c E0) as (Hinv & Hc & Hf).
  destruct (completePotentialSimplices_ext c (flag_seed c) c' (Ok tt) Hinv E1) as [I O N].
  split; [exact I|]. split.
  - intros s Hs. destruct (Hf s Hs) as [Ho Hfa].
    assert (Hcs : containsSimplex c s = true) by (rewrite Hc; now apply memn_In).
    destruct (O s Hcs) as (C' & O' & F'). split; [exact C'|]. split; [now rewrite O'|]. intros t. now rewrite F'.
  - intros s Hs. destruct (N s Hs) as [Hcs|Hk]; [left | now right]. rewrite Hc in Hcs. now apply memn_In.
Qed.
