(* FiltBook.v -- the bookkeeping of Filtration: _appears (simplex -> birth index) and _includes
   (index -> simplices born there) say the same thing after every history of public operations,
   the index the filtration stands at is always one of its indices, indices() is strictly
   ascending and contains every birth index, and addSimplex never dies of a KeyError. *)
From Coq Require Import String ZArith Bool Arith List Lia Sorted.
From SV Require Import Names NamesFacts Rep RepInv Complex Homology Filtration FiltProofs FiltClosed Shapes StarOrder SortedViews DeleteEffect.
Import ListNotations.
Open Scope nat_scope.

(* ---- association lists keyed by indices ---- *)
Lemma zassoc_in {B} i (l : list (idx * B)) : zassoc i l <> None <-> In i (map fst l).
Proof.
  induction l as [|[k v] t IH]; simpl; [tauto|].
  destruct (Z.eqb_spec i k) as [->|Hne].
  - split; [auto|discriminate].
  - rewrite IH. split; [auto|]. intros [E|E]; [congruence|exact E].
Qed.

Lemma zassoc_app {B} i (l1 l2 : list (idx * B)) :
  zassoc i (l1 ++ l2) = match zassoc i l1 with Some v => Some v | None => zassoc i l2 end.
Proof. induction l1 as [|[k v] t IH]; simpl; [reflexivity|]. destruct (Z.eqb i k); auto. Qed.

Lemma zassoc_set_keys {B} i (b : B) l : zassoc i l <> None -> map fst (zassoc_set i b l) = map fst l.
Proof.
  induction l as [|[k v] t IH]; simpl; [congruence|].
  destruct (Z.eqb_spec i k) as [->|Hne]; simpl; [reflexivity|]. intros H. now rewrite IH.
Qed.

Lemma zassoc_set_same {B} i (b : B) l : zassoc i (zassoc_set i b l) = Some b.
Proof.
  induction l as [|[k v] t IH]; simpl.
  - now rewrite Z.eqb_refl.
  - destruct (Z.eqb_spec i k) as [->|Hne]; simpl.
    + now rewrite Z.eqb_refl.
    + destruct (Z.eqb_spec i k); [congruence|exact IH].
Qed.

Lemma zassoc_set_other {B} i j (b : B) l : j <> i -> zassoc j (zassoc_set i b l) = zassoc j l.
Proof.
  intros Hne. induction l as [|[k v] t IH]; simpl.
  - destruct (Z.eqb_spec j i); [congruence|reflexivity].
  - destruct (Z.eqb_spec i k) as [->|Hik]; simpl.
    + destruct (Z.eqb_spec j k); [congruence|reflexivity].
    + destruct (Z.eqb j k); [reflexivity|exact IH].
Qed.

Lemma zassoc_del_keys {B C} i (l : list (idx * B)) (m : list (idx * C)) :
  map fst l = map fst m -> map fst (zassoc_del i l) = map fst (zassoc_del i m).
Proof.
  revert m. induction l as [|[k v] t IH]; intros [|[k' v'] m] E; simpl in *; try discriminate; [reflexivity|].
  injection E as -> E. destruct (Z.eqb i k'); simpl; [exact E|]. f_equal. now apply IH.
Qed.

Lemma zassoc_del_in {B} i j (l : list (idx * B)) : In j (map fst (zassoc_del i l)) -> In j (map fst l).
Proof.
  induction l as [|[k v] t IH]; simpl; [tauto|].
  destruct (Z.eqb i k); simpl; [auto|]. intros [E|E]; auto.
Qed.

Lemma zassoc_del_nodup {B} i (l : list (idx * B)) : NoDup (map fst l) -> NoDup (map fst (zassoc_del i l)).
Proof.
  induction l as [|[k v] t IH]; simpl; intros H; [constructor|]. inversion H as [|a b Hn Hd]; subst.
  destruct (Z.eqb i k); simpl; [exact Hd|]. constructor; [|now apply IH].
  intros Hin. apply Hn. eapply zassoc_del_in; eauto.
Qed.

Lemma zassoc_del_same {B} i (l : list (idx * B)) : NoDup (map fst l) -> zassoc i (zassoc_del i l) = None.
Proof.
  induction l as [|[k v] t IH]; simpl; intros H; [reflexivity|]. inversion H as [|a b Hn Hd]; subst.
  destruct (Z.eqb_spec i k) as [->|Hne]; simpl.
  - destruct (zassoc k t) eqn:E; [|reflexivity]. exfalso. apply Hn. apply zassoc_in. congruence.
  - destruct (Z.eqb_spec i k); [congruence|]. now apply IH.
Qed.

Lemma zassoc_del_other {B} i j (l : list (idx * B)) : j <> i -> zassoc j (zassoc_del i l) = zassoc j l.
Proof.
  intros Hne. induction l as [|[k v] t IH]; simpl; [reflexivity|].
  destruct (Z.eqb_spec i k) as [->|Hik]; simpl.
  - destruct (Z.eqb_spec j k); [congruence|reflexivity].
  - destruct (Z.eqb j k); [reflexivity|exact IH].
Qed.

(* ---- the sort used by indices() ---- *)
Lemma zinsert_in i l x : In x (zinsert i l) <-> x = i \/ In x l.
Proof.
  induction l as [|h t IH]; simpl; [intuition|].
  destruct (i <=? h)%Z; simpl; [intuition|]. rewrite IH. intuition.
Qed.

Lemma zsort_in l x : In x (zsort l) <-> In x l.
Proof.
  induction l as [|h t IH]; simpl; [tauto|]. rewrite zinsert_in, IH. intuition.
Qed.

Lemma zinsert_sorted i l : StronglySorted Z.lt l -> ~ In i l -> StronglySorted Z.lt (zinsert i l).
Proof.
  induction l as [|h t IH]; simpl; intros Hs Hn.
  - constructor; [constructor|constructor].
  - inversion Hs as [|a b Hst Hall]; subst. destruct (Z.leb_spec i h) as [Hle|Hgt].
    + assert (Hlt : (i < h)%Z) by (assert (i <> h) by (intros ->; apply Hn; now left); lia).
      constructor; [exact Hs|]. constructor; [exact Hlt|].
      rewrite Forall_forall in *. intros x Hx. specialize (Hall x Hx). lia.
    + constructor; [apply IH; tauto|]. rewrite Forall_forall in *. intros x Hx.
      apply zinsert_in in Hx. destruct Hx as [->|Hx]; [lia|now apply Hall].
Qed.

Lemma zsort_sorted l : NoDup l -> StronglySorted Z.lt (zsort l).
Proof.
  induction l as [|h t IH]; simpl; intros H; [constructor|]. inversion H as [|a b Hn Hd]; subst.
  apply zinsert_sorted; [now apply IH|]. now rewrite zsort_in.
Qed.

(* ---- the invariant ---- *)
Record binv (f : filt) : Prop := {
  b_app : NoDup (map fst (f_appears f));
  b_keys : NoDup (map fst (f_includes f));
  b_mo : map fst (f_maxOrders f) = map fst (f_includes f);
  b_cur : zassoc (f_index f) (f_includes f) <> None;
  b_nd : forall i l, zassoc i (f_includes f) = Some l -> NoDup l;
  b_iff : forall s i, assoc s (f_appears f) = Some i <->
                      exists l, zassoc i (f_includes f) = Some l /\ In s l }.

Lemma binv_new uid i : binv (new_filt uid i).
Proof.
  constructor; simpl; try reflexivity.
  - constructor.
  - constructor; [simpl; tauto|constructor].
  - now rewrite Z.eqb_refl.
  - intros j l. destruct (Z.eqb j i); [|discriminate]. intros [= <-]. constructor.
  - intros s j. split; [discriminate|]. intros (l & H & Hin). destruct (Z.eqb j i); [|discriminate].
    injection H as <-. destruct Hin.
Qed.

Lemma binv_rep f r : binv f -> binv (with_rep f r).
Proof. intros [A B C D E F]. constructor; auto. Qed.

Lemma binv_index f j : binv f -> zassoc j (f_includes f) <> None ->
  binv (mkFilt (f_rep f) j (f_appears f) (f_includes f) (f_maxOrders f)).
Proof. intros [A B C D E F] H. constructor; auto. Qed.

Theorem setIndex_binv f i : binv f -> binv (f_setIndex f i).
Proof.
  intros Hb. unfold f_setIndex, f_isIndex. destruct (zassoc i (f_includes f)) as [l|] eqn:Z.
  - apply binv_index; [exact Hb|congruence].
  - destruct Hb as [A B C D E F]. constructor; simpl.
    + exact A.
    + rewrite map_app. simpl. apply NoDup_app_snoc; [exact B|].
      intros Hin. apply zassoc_in in Hin. congruence.
    + rewrite !map_app, C. reflexivity.
    + rewrite zassoc_app, Z. simpl. now rewrite Z.eqb_refl.
    + intros j l. rewrite zassoc_app. destruct (zassoc j (f_includes f)) as [l0|] eqn:Zj.
      * intros [= <-]. eapply E; eauto.
      * simpl. destruct (Z.eqb j i); [|discriminate]. intros [= <-]. constructor.
    + intros s j. rewrite F. split; intros (l & Hl & Hin).
      * exists l. rewrite zassoc_app, Hl. auto.
      * rewrite zassoc_app in Hl. destruct (zassoc j (f_includes f)) as [l0|] eqn:Zj.
        -- injection Hl as ->. exists l. auto.
        -- simpl in Hl. destruct (Z.eqb j i); [|discriminate]. injection Hl as <-. destruct Hin.
Qed.

Lemma in_indices f j : In j (f_indices f) <-> zassoc j (f_includes f) <> None.
Proof. unfold f_indices. now rewrite zsort_in, zassoc_in. Qed.

Lemma nth_in_indices f n : n < length (f_indices f) -> zassoc (nth n (f_indices f) 0%Z) (f_includes f) <> None.
Proof. intros H. apply in_indices. now apply nth_In. Qed.

Lemma index_in_bound i l p n : index_in i l p = Some n -> p <= n < p + length l.
Proof.
  revert p. induction l as [|h t IH]; simpl; intros p; [discriminate|].
  destruct (Z.eqb i h); [intros [= <-]; lia|]. intros H. apply IH in H. lia.
Qed.

(* adding: needs the name to be new, which minv supplies *)
Theorem addSimplex_binv f fs id attr f' x : minv f -> binv f -> f_addSimplex f fs id attr = (f', x) ->
  binv f' /\ x <> Raise KeyError \/ binv f' /\ exists e, x = Raise e /\ f_appears f' = f_appears f.
Proof.
  intros Hm Hb H. unfold f_addSimplex in H.
  destruct (existsb (fun x0 => f_containsSome f x0 && negb (f_contains f x0)) fs) eqn:Ex.
  { injection H as <- <-. left. split; [exact Hb|discriminate]. }
  destruct (addSimplex (f_rep f) fs id attr) as [r' [n|e]] eqn:E.
  2: { injection H as <- <-. right. split; [now apply binv_rep|]. exists e. auto. }
  assert (Hn : assoc n (f_appears f) = None).
  { apply (m_dom f Hm). apply (addSimplex_contains _ _ _ _ _ _ (s_p _ (m_s f Hm)) E). }
  destruct Hb as [A B C D E0 F].
  destruct (zassoc (f_index f) (f_includes f)) as [cur|] eqn:Zc; [|congruence].
  assert (Dm : zassoc (f_index f) (f_maxOrders f) <> None).
  { apply zassoc_in. rewrite C. apply zassoc_in. congruence. }
  destruct (zassoc (f_index f) (f_maxOrders f)) as [mo|] eqn:Zm; [|congruence].
  injection H as <- <-. left. split; [|discriminate].
  assert (Hncur : forall j l, zassoc j (f_includes f) = Some l -> ~ In n l).
  { intros j l Hl Hin. assert (assoc n (f_appears f) = Some j) by (apply F; eauto). congruence. }
  constructor; simpl.
  - rewrite map_app. simpl. apply NoDup_app_snoc; [exact A|]. now apply assoc_none_notin.
  - rewrite zassoc_set_keys by congruence. exact B.
  - rewrite zassoc_set_keys by congruence.
    destruct (mo <? maxOrder r')%Z; [rewrite zassoc_set_keys by congruence|]; exact C.
  - rewrite zassoc_set_same. discriminate.
  - intros j l. destruct (Z.eq_dec j (f_index f)) as [->|Hne].
    + rewrite zassoc_set_same. intros [= <-]. apply NoDup_app_snoc; [eapply E0; eauto|]. eapply Hncur; eauto.
    + rewrite zassoc_set_other by exact Hne. apply E0.
  - intros s j. rewrite assoc_app. destruct (Z.eq_dec j (f_index f)) as [->|Hne].
    + rewrite zassoc_set_same. destruct (assoc s (f_appears f)) as [b|] eqn:As.
      * split.
        -- intros [= ->]. apply F in As. destruct As as (l & Hl & Hin). rewrite Zc in Hl. injection Hl as <-.
           exists (cur ++ [n]). split; [reflexivity|]. apply in_or_app. auto.
        -- intros (l & [= <-] & Hin). apply in_app_or in Hin. destruct Hin as [Hin|[<-|[]]].
           ++ assert (As' : assoc s (f_appears f) = Some (f_index f)) by (apply F; eauto). congruence.
           ++ congruence.
      * simpl. destruct (name_eqb_spec s n) as [->|Hsn].
        -- split; [|reflexivity]. intros _. exists (cur ++ [n]). split; [reflexivity|]. apply in_or_app. simpl. auto.
        -- split; [discriminate|]. intros (l & [= <-] & Hin). apply in_app_or in Hin. destruct Hin as [Hin|[<-|[]]].
           ++ assert (As' : assoc s (f_appears f) = Some (f_index f)) by (apply F; eauto). congruence.
           ++ congruence.
    + rewrite zassoc_set_other by exact Hne. destruct (assoc s (f_appears f)) as [b|] eqn:As.
      * rewrite <- F, As. tauto.
      * simpl. destruct (name_eqb_spec s n) as [->|Hsn].
        -- split; [intros [= Hj]; congruence|]. intros (l & Hl & Hin). exfalso. eapply Hncur; eauto.
        -- split; [discriminate|]. intros Hx. apply F in Hx. congruence.
Qed.

Lemma filter_neq_in s x l : In x (filter (fun y => negb (name_eqb s y)) l) <-> In x l /\ x <> s.
Proof.
  rewrite filter_In. split; intros [H1 H2]; split; auto.
  - intros ->. rewrite name_eqb_refl in H2. discriminate.
  - destruct (name_eqb_spec s x) as [->|]; [congruence|reflexivity].
Qed.

Theorem forceDelete_binv f s f' x : binv f -> f_forceDelete f s = (f', x) -> binv f'.
Proof.
  intros Hb H. unfold f_forceDelete in H.
  destruct (forceDeleteSimplex (f_rep f) s) as [r' [[]|e]] eqn:E.
  2: { injection H as <- _. now apply binv_rep. }
  destruct (assoc s (f_appears f)) as [i|] eqn:As.
  2: { injection H as <- _. now apply binv_rep. }
  destruct Hb as [A B C D E0 F].
  pose proof As as As0. apply F in As0. destruct As0 as (cur & Zc & Hcur). rewrite Zc in H.
  set (cur' := filter (fun y => negb (name_eqb s y)) cur) in *.
  assert (Hother : forall j l, j <> i -> zassoc j (f_includes f) = Some l -> ~ In s l).
  { intros j l Hj Hl Hin. assert (assoc s (f_appears f) = Some j) by (apply F; eauto). congruence. }
  assert (App : forall t j, assoc t (assoc_del s (f_appears f)) = Some j <-> t <> s /\ assoc t (f_appears f) = Some j).
  { intros t j. destruct (name_eqb_spec t s) as [->|Hts].
    - rewrite assoc_del_same by exact A. split; [discriminate|tauto].
    - rewrite assoc_del_other by exact Hts. tauto. }
  destruct ((length cur' =? 0) && negb (Z.eqb i (f_index f))) eqn:Cnd; injection H as <- _.
  - apply andb_prop in Cnd. destruct Cnd as [Hlen Hi]. apply Nat.eqb_eq in Hlen. apply negb_true_iff in Hi.
    apply Z.eqb_neq in Hi. apply length_zero_iff_nil in Hlen.
    constructor; simpl.
    + now apply nodup_assoc_del.
    + now apply zassoc_del_nodup.
    + now apply zassoc_del_keys.
    + rewrite zassoc_del_other by congruence. exact D.
    + intros j l. destruct (Z.eq_dec j i) as [->|Hne].
      * rewrite zassoc_del_same by exact B. discriminate.
      * rewrite zassoc_del_other by exact Hne. apply E0.
    + intros t j. rewrite App. destruct (Z.eq_dec j i) as [->|Hne].
      * rewrite zassoc_del_same by exact B. split.
        -- intros [Hts At]. exfalso. apply F in At. destruct At as (l & Hl & Hin). rewrite Zc in Hl. injection Hl as <-.
           assert (Hin' : In t cur') by (apply filter_neq_in; auto). rewrite Hlen in Hin'. destruct Hin'.
        -- intros (l & Hl & _). discriminate.
      * rewrite zassoc_del_other by exact Hne. rewrite F. split.
        -- tauto.
        -- intros (l & Hl & Hin). split; [|eauto]. intros ->. eapply Hother; eauto.
  - constructor; simpl.
    + now apply nodup_assoc_del.
    + rewrite zassoc_set_keys by congruence. exact B.
    + rewrite zassoc_set_keys by congruence. exact C.
    + destruct (Z.eq_dec (f_index f) i) as [->|Hne]; [rewrite zassoc_set_same; discriminate|].
      rewrite zassoc_set_other by exact Hne. exact D.
    + intros j l. destruct (Z.eq_dec j i) as [->|Hne].
      * rewrite zassoc_set_same. intros [= <-]. apply NoDup_filter. eapply E0; eauto.
      * rewrite zassoc_set_other by exact Hne. apply E0.
    + intros t j. rewrite App. destruct (Z.eq_dec j i) as [->|Hne].
      * rewrite zassoc_set_same. rewrite F. split.
        -- intros [Hts (l & Hl & Hin)]. rewrite Zc in Hl. injection Hl as <-. exists cur'. split; [reflexivity|].
           apply filter_neq_in. auto.
        -- intros (l & [= <-] & Hin). apply filter_neq_in in Hin. destruct Hin as [Hin Hts]. split; [exact Hts|]. eauto.
      * rewrite zassoc_set_other by exact Hne. rewrite F. split.
        -- tauto.
        -- intros (l & Hl & Hin). split; [|eauto]. intros ->. eapply Hother; eauto.
Qed.

Lemma f_fold_binv : forall (L : list name) f x0 f' x, binv f -> fold_left f_del_step L (f, x0) = (f', x) -> binv f'.
Proof.
  induction L as [|t L IH]; intros f x0 f' x Hm H; simpl in H; [now injection H as <- _|].
  destruct x0 as [u|e]; simpl in H.
  - destruct (f_forceDelete f t) as [f1 x1] eqn:E. eapply IH; [|exact H]. eapply forceDelete_binv; eauto.
  - eapply IH; eauto.
Qed.

Theorem deleteSimplex_binv f s f' x : binv f -> f_deleteSimplex f s = (f', x) -> binv f'.
Proof.
  intros Hm H. unfold f_deleteSimplex in H.
  destruct (f_orderOf f s); [|now injection H as <- _].
  destruct (partOf (f_rep f) s true false) as [L|e]; [|now injection H as <- _].
  exact (f_fold_binv L f (Ok tt) f' x Hm H).
Qed.

Lemma fstep_binv f o : minv f -> binv f -> binv (fstep f o).
Proof.
  intros Hm H. destruct o; simpl.
  - now apply setIndex_binv.
  - unfold f_setNext. destruct (index_in _ _ _) as [i|] eqn:Ei; [|exact H].
    destruct (S i =? _) eqn:El; [exact H|]. simpl. apply binv_index; [exact H|].
    apply nth_in_indices. apply index_in_bound in Ei. apply Nat.eqb_neq in El. unfold idx in *. lia.
  - unfold f_setPrev. destruct (index_in _ _ _) as [[|i]|] eqn:Ei; try exact H. simpl.
    apply binv_index; [exact H|]. apply nth_in_indices. apply index_in_bound in Ei. unfold idx in *. lia.
  - unfold f_setMin. destruct (f_indices f); [exact H|]. now apply setIndex_binv.
  - unfold f_setMax. destruct (rev (f_indices f)); [exact H|]. now apply setIndex_binv.
  - destruct (f_addSimplex f fs id attr) as [f' x] eqn:E. simpl.
    destruct (addSimplex_binv _ _ _ _ _ _ Hm H E) as [[Hb _]|[Hb _]]; exact Hb.
  - destruct (f_deleteSimplex f s) as [f' x] eqn:E. simpl. eapply deleteSimplex_binv; eauto.
Qed.

Theorem filtration_history_binv uid i0 ops :
  minv (fold_left fstep ops (new_filt uid i0)) /\ binv (fold_left fstep ops (new_filt uid i0)).
Proof.
  assert (G : forall f, minv f -> binv f -> minv (fold_left fstep ops f) /\ binv (fold_left fstep ops f)).
  { induction ops as [|o ops IH]; simpl; intros f Hm Hb; [auto|].
    apply IH; [now apply fstep_minv|now apply fstep_binv]. }
  apply G; [apply minv_new|apply binv_new].
Qed.

(* ---- what the invariant says in the library's vocabulary ---- *)
Theorem indices_strictly_ascending f : binv f -> StronglySorted Z.lt (f_indices f).
Proof. intros H. apply zsort_sorted. exact (b_keys f H). Qed.

Theorem current_index_is_an_index f : binv f -> In (f_index f) (f_indices f).
Proof. intros H. apply in_indices. exact (b_cur f H). Qed.

Theorem every_birth_is_an_index f s i : binv f -> f_addedAtIndex f s = Ok i -> In i (f_indices f).
Proof.
  intros H E. unfold f_addedAtIndex in E. destruct (f_containsSome f s); [|discriminate].
  destruct (assoc s (f_appears f)) as [j|] eqn:A; [|discriminate]. injection E as ->.
  apply in_indices. apply (b_iff f H) in A. destruct A as (l & -> & _). discriminate.
Qed.

(* simplicesAddedAtIndex(i) lists exactly the simplices whose addedAtIndex is i, each once *)

Theorem addedAt_lists_the_births f i b l : minv f -> binv f -> f_simplicesAddedAtIndex f i b = Ok l ->
  forall s, In s (map snd l) <-> f_addedAtIndex f s = Ok i.
Proof.
  intros Hm Hb E s. unfold f_simplicesAddedAtIndex in E. destruct (zassoc i (f_includes f)) as [ss|] eqn:Zi; [|discriminate].
  injection E as <-.
  set (ks := map (fun s0 => (match orderOf (f_rep f) s0 with Ok k => k | Raise _ => 0 end, s0)) ss).
  assert (Hin : In s (map snd (if b then sort_desc ks else sort_asc ks)) <-> In s ss).
  { rewrite in_map_iff. split.
    - intros ((k & s') & <- & Hx). simpl.
      assert (Hx' : In (k, s') ks) by (destruct b; [apply (proj1 (In_sort_desc _ _)) in Hx|apply (proj1 (In_sort_asc _ _)) in Hx]; exact Hx).
      unfold ks in Hx'. apply in_map_iff in Hx'. destruct Hx' as (s0 & [= _ <-] & Hs0). exact Hs0.
    - intros Hs. exists (match orderOf (f_rep f) s with Ok k => k | Raise _ => 0 end, s). split; [reflexivity|].
      assert (Hx' : In (match orderOf (f_rep f) s with Ok k => k | Raise _ => 0 end, s) ks)
        by (unfold ks; apply in_map_iff; eauto).
      destruct b; [apply (proj2 (In_sort_desc _ _))|apply (proj2 (In_sort_asc _ _))]; exact Hx'. }
  rewrite Hin. unfold f_addedAtIndex, f_containsSome. split.
  - intros Hs. assert (A : assoc s (f_appears f) = Some i) by (apply (b_iff f Hb); eauto).
    destruct (containsSimplex (f_rep f) s) eqn:C; [now rewrite A|].
    apply (m_dom f Hm) in C. congruence.
  - destruct (containsSimplex (f_rep f) s); [|discriminate].
    destruct (assoc s (f_appears f)) as [j|] eqn:A; [|discriminate]. intros [= ->].
    apply (b_iff f Hb) in A. destruct A as (l & Hl & Hs). congruence.
Qed.

(* an accepted addSimplex is born at the index the filtration stands at, and nothing else moves *)
Theorem add_is_born_at_the_current_index f fs id attr f' n : minv f -> binv f ->
  f_addSimplex f fs id attr = (f', Ok n) ->
  f_addedAtIndex f' n = Ok (f_index f) /\ f_index f' = f_index f /\
  forall s, s <> n -> f_addedAtIndex f' s = f_addedAtIndex f s.
Proof.
  intros Hm Hb H. pose proof H as H0. unfold f_addSimplex in H.
  destruct (existsb _ fs); [discriminate|].
  destruct (addSimplex (f_rep f) fs id attr) as [r' [m|e]] eqn:E; [|discriminate].
  destruct (addSimplex_contains _ _ _ _ _ _ (s_p _ (m_s f Hm)) E) as [Hnew Hall].
  assert (Hn : assoc m (f_appears f) = None) by (now apply (m_dom f Hm)).
  assert (G : forall inc mo fx, fx = mkFilt r' (f_index f) (f_appears f ++ [(m, f_index f)]) inc mo ->
     f_addedAtIndex fx m = Ok (f_index f) /\ f_index fx = f_index f /\
     forall s, s <> m -> f_addedAtIndex fx s = f_addedAtIndex f s).
  { intros inc mo fx ->. unfold f_addedAtIndex, f_containsSome. simpl. repeat split.
    - rewrite Hall, name_eqb_refl, orb_true_r, assoc_app, Hn. simpl. now rewrite name_eqb_refl.
    - intros s Hs. rewrite Hall, (name_eqb_neq s m) by exact Hs. rewrite orb_false_r, assoc_app.
      destruct (assoc s (f_appears f)); [reflexivity|]. simpl. now rewrite (name_eqb_neq s m) by exact Hs. }
  destruct (zassoc (f_index f) (f_includes f)) as [cur|]; [destruct (zassoc (f_index f) (f_maxOrders f)) as [mo|]|];
    try discriminate.
  injection H as <- <-. eapply G; reflexivity.
Qed.

(* moving the index never changes a birth index *)
Theorem moving_keeps_births f i s : f_addedAtIndex (f_setIndex f i) s = f_addedAtIndex f s.
Proof. unfold f_setIndex. destruct (f_isIndex f i); reflexivity. Qed.

(* forceDeleteSimplex forgets the birth of the simplex it removes and no other *)
Theorem forceDelete_keeps_other_births f s f' t : minv f -> f_forceDelete f s = (f', Ok tt) ->
  t <> s -> f_addedAtIndex f' t = f_addedAtIndex f t.
Proof.
  intros Hm H Hts. unfold f_forceDelete in H.
  destruct (forceDeleteSimplex (f_rep f) s) as [r' [[]|e]] eqn:E; [|discriminate].
  destruct (assoc s (r_simp (f_rep f))) as [[k i]|] eqn:As.
  2: { unfold forceDeleteSimplex in E. rewrite As in E. discriminate. }
  pose proof (forceDelete_membership (f_rep f) s k i (m_s f Hm) As) as Hmem. rewrite E in Hmem. simpl in Hmem.
  destruct (assoc s (f_appears f)) as [i0|]; [|discriminate].
  assert (G : forall inc mo, f_addedAtIndex (mkFilt r' (f_index f) (assoc_del s (f_appears f)) inc mo) t = f_addedAtIndex f t).
  { intros inc mo. unfold f_addedAtIndex, f_containsSome. simpl. rewrite Hmem, (name_eqb_neq t s) by exact Hts.
    rewrite andb_true_r, assoc_del_other by exact Hts. reflexivity. }
  destruct (_ && _); injection H as <-; apply G.
Qed.
