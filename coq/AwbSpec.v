(* AwbSpec.v -- add by basis (C02): on a complex with the vertex-set reading (VInv.v),
   addSimplexWithBasis(bs) leaves a simplex whose basis is bs, keeps the reading, touches no simplex
   that was there, and whatever it adds has its basis inside bs (and was missing before).  Plain Coq. *)
From Coq Require Import String ZArith Bool Arith List Lia.
From SV Require Import Names NamesFacts ListFacts Rep Fresh Complex Atomic RepInv Reach Shapes Incidence AddEffect
                       Closed ClosedReach BasisInv CopyAttrs.
From SV Require Import VInv.
Import ListNotations.
Open Scope nat_scope.

(* ---------- sets as lists ---------- *)
Lemma subsetn_incl a b : subsetn a b = true <-> incl a b.
Proof.
  unfold subsetn. rewrite forallb_forall. split.
  - intros H x Hx. apply memn_In. now apply H.
  - intros H x Hx. apply memn_In. now apply H.
Qed.
Lemma seteq_sameset a b : seteq a b = true <-> sameset a b.
Proof.
  unfold seteq. rewrite andb_true_iff, !subsetn_incl. split.
  - intros [H1 H2] x. split; [apply H1 | apply H2].
  - intros H. split; intros x Hx; now apply H.
Qed.

Lemma filter_notin a l : ~ In a l -> filter (fun x => negb (name_eqb a x)) l = l.
Proof.
  induction l as [|b l IH]; intros H; [reflexivity|]. simpl.
  destruct (name_eqb_spec a b) as [->|Hne]; [exfalso; apply H; now left|]. simpl. f_equal. apply IH.
  intros Hin. apply H. now right.
Qed.
Lemma dedupn_nodup_id l : NoDup l -> dedupn l = l.
Proof.
  induction l as [|a l IH]; intros H; [reflexivity|]. inversion H as [|x xs Hx Hxs]; subst. simpl.
  rewrite (IH Hxs). f_equal. now apply filter_notin.
Qed.

(* ---------- drop_one: the facets of a vertex list ---------- *)
Lemma drop_one_spec {A} (l : list A) pfs : In pfs (drop_one l) <-> exists l1 x l2, l = l1 ++ x :: l2 /\ pfs = l1 ++ l2.
Proof.
  revert pfs. induction l as [|a l IH]; intros pfs; simpl.
  - split; [tauto|]. intros (l1 & x & l2 & H & _). destruct l1; discriminate.
  - rewrite in_app_iff, in_map_iff. split.
    + intros [(p0 & <- & Hp0)|[<-|[]]].
      * apply IH in Hp0. destruct Hp0 as (l1 & x & l2 & -> & ->). exists (a :: l1), x, l2. auto.
      * exists [], a, l. auto.
    + intros (l1 & x & l2 & H & ->). destruct l1 as [|b l1]; simpl in H; injection H as <- ->.
      * right. now left.
      * left. exists (l1 ++ l2). split; [reflexivity|]. apply IH. eauto.
Qed.

Lemma length_drop_one {A} (l : list A) : length (drop_one l) = length l.
Proof. induction l as [|a l IH]; simpl; [reflexivity|]. rewrite app_length, map_length, IH. simpl. lia. Qed.

Lemma NoDup_app_remove {A} (l1 l2 : list A) x : NoDup (l1 ++ x :: l2) -> NoDup (l1 ++ l2) /\ ~ In x (l1 ++ l2).
Proof. intros H. split; [eapply NoDup_remove_1; eauto | eapply NoDup_remove_2; eauto]. Qed.

(* ---------- looking a simplex up by its basis ---------- *)
Definition pts (r : rep) (bs : list name) : Prop := forall b, In b bs -> exists i, assoc b (r_simp r) = Some (0, i).

Lemma isBasis_true_iff r bs : c_isBasis r bs false = Ok true <-> pts r bs.
Proof.
  unfold c_isBasis, pts. induction bs as [|b t IH]; simpl.
  - split; [intros _ b [] | reflexivity].
  - unfold containsSimplex, orderOf. destruct (assoc b (r_simp r)) as [[[|k] i]|] eqn:Ab.
    + rewrite IH. split.
      * intros H b0 [<-|Hb0]; eauto.
      * intros H b0 Hb0. apply H. now right.
    + split; [discriminate|]. intros H. destruct (H b (or_introl eq_refl)) as (i0 & Hi0). congruence.
    + split; [discriminate|]. intros H. destruct (H b (or_introl eq_refl)) as (i0 & Hi0). congruence.
Qed.

Lemma isBasis_no_raise r bs : exists b, c_isBasis r bs false = Ok b.
Proof.
  unfold c_isBasis. induction bs as [|b t IH]; simpl; [eauto|].
  unfold containsSimplex, orderOf. destruct (assoc b (r_simp r)) as [[[|k] i]|]; eauto.
Qed.

Lemma lookup_some r bs s : vinv r -> c_simplexWithBasis r bs false = Ok (Some s) ->
  containsSimplex r s = true /\ sameset (basisOf r s) bs.
Proof.
  intros Hv H. unfold c_simplexWithBasis, simplexWithBasis in H. fold (c_isBasis r bs false) in H.
  destruct (c_isBasis r bs false) as [[|]|e] eqn:Eb; try discriminate.
  apply isBasis_true_iff in Eb. pose proof (b_b r (v_b r Hv)) as Bi.
  destruct bs as [|b [|b2 t]]; [discriminate| |].
  - injection H as <-. destruct (Eb b (or_introl eq_refl)) as (i & Ab). split; [unfold containsSimplex; now rewrite Ab|].
    destruct (Bi b 0 i Ab) as [B0 _]. rewrite (B0 eq_refl). intros x. tauto.
  - cbv zeta in H. destruct (r_nord r <=? length (b :: b2 :: t) - 1); [discriminate|].
    destruct (find _ _) as [s0|] eqn:Ef; [|discriminate]. injection H as <-.
    apply find_some in Ef. destruct Ef as [Hin Hse]. apply seteq_sameset in Hse. split.
    + apply contains_iff_listed; [exact (s_p r (c_s r (b_c r (v_b r Hv))))|]. eauto.
    + intros x. symmetry. apply Hse.
Qed.

Lemma lookup_none r bs : vinv r -> pts r bs -> NoDup bs -> bs <> [] -> c_simplexWithBasis r bs false = Ok None ->
  2 <= length bs /\ forall t, containsSimplex r t = true -> ~ sameset (basisOf r t) bs.
Proof.
  intros Hv Hp Hnd Hne H. unfold c_simplexWithBasis, simplexWithBasis in H. fold (c_isBasis r bs false) in H.
  rewrite (proj2 (isBasis_true_iff r bs) Hp) in H.
  pose proof (s_p r (c_s r (b_c r (v_b r Hv)))) as P.
  destruct bs as [|b [|b2 t]]; [contradiction | discriminate |].
  split; [simpl; lia|]. cbv zeta in H. intros u Hu Hss.
  unfold containsSimplex in Hu. destruct (assoc u (r_simp r)) as [[ku ju]|] eqn:Au; [|discriminate].
  assert (Hlen : length (basisOf r u) = length (b :: b2 :: t)).
  { apply NoDup_sameset_length; [apply basis_nodup; exact P | exact Hnd | exact Hss]. }
  rewrite (v_card r Hv u ku ju Au) in Hlen.
  pose proof P as [K Pm St L]. destruct (proj1 (Pm u ku ju) Au) as [Hku Hju].
  assert (Ek : ku = length (b :: b2 :: t) - 1) by lia.
  destruct (r_nord r <=? length (b :: b2 :: t) - 1) eqn:En; [apply Nat.leb_le in En; lia|].
  destruct (find _ _) as [s0|] eqn:Ef; [discriminate|].
  assert (Hin : In u (simplicesOfOrder r (length (b :: b2 :: t) - 1))).
  { rewrite <- Ek. unfold simplicesOfOrder. replace (ku <? r_nord r) with true by (symmetry; apply Nat.ltb_lt; lia).
    eapply nth_error_In; eauto. }
  pose proof (find_none _ _ Ef u Hin) as Hf. simpl in Hf.
  assert (seteq (b :: b2 :: t) (basisOf r u) = true) by (apply seteq_sameset; intros x; symmetry; apply Hss). congruence.
Qed.

(* ---------- r' extends r by simplices of order >= 1 whose bases lie inside bs and have at most m
   elements ---------- *)
Record ext (bs : list name) (m : nat) (r r' : rep) : Prop := {
  x_old : forall t, containsSimplex r t = true ->
          containsSimplex r' t = true /\ orderOf r' t = orderOf r t /\ faces r' t = faces r t /\ basisOf r' t = basisOf r t;
  x_new : forall t, containsSimplex r' t = true ->
          containsSimplex r t = true \/
          (incl (basisOf r' t) bs /\ length (basisOf r' t) <= m /\ exists k, orderOf r' t = Ok (S k)) }.

Lemma ext_refl bs m r : ext bs m r r.
Proof. constructor; auto. Qed.

Lemma ext_trans bs m a b c : ext bs m a b -> ext bs m b c -> ext bs m a c.
Proof.
  intros [O1 N1] [O2 N2]. constructor.
  - intros t Ht. destruct (O1 t Ht) as (C1 & Or1 & F1 & B1). destruct (O2 t C1) as (C2 & Or2 & F2 & B2).
    split; [exact C2|]. repeat split; congruence.
  - intros t Ht. destruct (N2 t Ht) as [Hb|Hn]; [|now right].
    destruct (N1 t Hb) as [Ha|(Hi & Hl & k & Hk)]; [now left|]. right.
    destruct (O2 t Hb) as (_ & Or2 & _ & B2). rewrite B2. split; [exact Hi|]. split; [exact Hl|]. exists k. congruence.
Qed.

Lemma ext_mono bs1 m1 bs2 m2 r r' : ext bs1 m1 r r' -> incl bs1 bs2 -> m1 <= m2 -> ext bs2 m2 r r'.
Proof.
  intros [O N] Hi Hm. constructor; [exact O|]. intros t Ht. destruct (N t Ht) as [H|(H1 & H2 & H3)]; [now left|].
  right. split; [intros x Hx; apply Hi, H1, Hx|]. split; [lia | exact H3].
Qed.

Lemma ext_same_obs bs m r r' : same_obs r r' -> ext bs m r r'.
Proof.
  intros Hs. destruct (same_obs_queries r r' Hs) as (Qo & _ & Qf & _ & Qb & Qc & _).
  constructor; intros t H; [rewrite Qc, Qo, Qf, Qb; auto | left; now rewrite <- Qc].
Qed.

Lemma pts_ext bs m r r' l : ext bs m r r' -> pts r l -> pts r' l.
Proof.
  intros [O _] Hp b Hb. destruct (Hp b Hb) as (i & Ab).
  assert (Hc : containsSimplex r b = true) by (unfold containsSimplex; now rewrite Ab).
  destruct (O b Hc) as (C' & Or & _). unfold orderOf in Or. rewrite Ab in Or.
  unfold containsSimplex in C'. destruct (assoc b (r_simp r')) as [[k i']|]; [|discriminate]. injection Or as ->. eauto.
Qed.

(* adding by faces a simplex whose basis lies inside bs *)
Lemma ext_add bs m r fs id attr r' n : sinv r -> 2 <= length fs ->
  addSimplex r fs id attr = (r', Ok n) -> incl (basisOf r' n) bs -> length (basisOf r' n) <= m -> ext bs m r r'.
Proof.
  intros HS Hl H Hi Hm. destruct (addSimplex_effect r fs id attr r' n HS H) as (_ & _ & Ho & _ & Hold & Hall).
  constructor.
  - intros t Ht. destruct (Hold t Ht) as (O & _ & F & B). split; [rewrite Hall, Ht; reflexivity | auto].
  - intros t Ht. rewrite Hall in Ht. apply orb_prop in Ht. destruct Ht as [Ht|Ht]; [now left|].
    apply name_eqb_eq in Ht. subst t. right. split; [exact Hi|]. split; [exact Hm|]. exists (length fs - 2). rewrite Ho. f_equal. lia.
Qed.

(* ---------- the facets of bs ---------- *)
Lemma facet_props (bs pfs : list name) : NoDup bs -> In pfs (drop_one bs) ->
  NoDup pfs /\ incl pfs bs /\ S (length pfs) = length bs /\ exists x, In x bs /\ ~ In x pfs /\ forall y, In y bs -> y <> x -> In y pfs.
Proof.
  intros Hnd H. apply drop_one_spec in H. destruct H as (l1 & x & l2 & -> & ->).
  destruct (NoDup_app_remove l1 l2 x Hnd) as [H1 H2]. split; [exact H1|]. split.
  - intros y Hy. apply in_app_or in Hy. apply in_or_app. destruct Hy; [now left | right; now right].
  - split; [rewrite !app_length; simpl; lia|]. exists x. split; [apply in_or_app; right; now left|]. split; [exact H2|].
    intros y Hy Hyx. apply in_app_or in Hy. apply in_or_app. destruct Hy as [Hy|[Hy|Hy]]; [now left | congruence | now right].
Qed.

Lemma facets_cover (bs : list name) p : NoDup bs -> 2 <= length bs -> In p bs -> exists pfs, In pfs (drop_one bs) /\ In p pfs.
Proof.
  intros Hnd Hl Hp.
  (* drop some element other than p *)
  assert (Hq : exists q, In q bs /\ q <> p).
  { destruct bs as [|a [|b t]]; simpl in Hl; try lia. inversion Hnd as [|x xs Hx _]; subst.
    destruct (name_eqb_spec a p) as [->|Hne]; [exists b; split; [right; now left | intros ->; apply Hx; now left] | exists a; split; [now left | exact Hne]]. }
  destruct Hq as (q & Hq & Hqp). apply in_split in Hq. destruct Hq as (l1 & l2 & ->).
  exists (l1 ++ l2). split; [apply drop_one_spec; eauto|].
  apply in_app_or in Hp. apply in_or_app. destruct Hp as [Hp|[Hp|Hp]]; [now left | congruence | now right].
Qed.

(* the names found for the facets, each with its basis *)
Definition named (r : rep) (fs : list name) (L : list (list name)) : Prop :=
  Forall2 (fun s pfs => containsSimplex r s = true /\ sameset (basisOf r s) pfs) fs L.

Lemma named_ext bs m r r' fs L : ext bs m r r' -> named r fs L -> named r' fs L.
Proof.
  intros [O _] H. induction H as [|s pfs fs L [Hc Hs] _ IH]; constructor; [|exact IH].
  destruct (O s Hc) as (C' & _ & _ & B'). split; [exact C'|]. intros x. rewrite B'. apply Hs.
Qed.

Lemma named_in r fs L s : named r fs L -> In s fs -> exists pfs, In pfs L /\ containsSimplex r s = true /\ sameset (basisOf r s) pfs.
Proof.
  intros H. induction H as [|s0 pfs fs L Hp _ IH]; intros Hin; [destruct Hin|].
  destruct Hin as [<-|Hin]; [exists pfs; split; [now left | exact Hp]|].
  destruct (IH Hin) as (p0 & Hp0 & Hr). exists p0. split; [now right | exact Hr].
Qed.

Lemma named_in_L r fs L pfs : named r fs L -> In pfs L -> exists s, In s fs /\ containsSimplex r s = true /\ sameset (basisOf r s) pfs.
Proof.
  intros H. induction H as [|s0 p0 fs L Hp _ IH]; intros Hin; [destruct Hin|].
  destruct Hin as [<-|Hin]; [exists s0; split; [now left | exact Hp]|].
  destruct (IH Hin) as (s & Hs & Hr). exists s. split; [now right | exact Hr].
Qed.

(* distinct facets have distinct names *)
Lemma named_nodup r bs fs : NoDup bs -> named r fs (drop_one bs) -> NoDup fs.
Proof.
  intros Hnd. remember (drop_one bs) as L eqn:EL.
  assert (HL : forall l1 p l2 l3 q l4, L = l1 ++ p :: l2 -> L = l3 ++ q :: l4 -> length l1 <> length l3 -> ~ sameset p q).
  { subst L. clear r fs. revert Hnd. induction bs as [|a bs IH]; intros Hnd l1 p l2 l3 q l4 E1 E2 Hne Hss; [destruct l1; discriminate|].
    simpl in E1, E2. inversion Hnd as [|x xs Hx Hxs]; subst.
    (* drop_one (a :: bs) = map (cons a) (drop_one bs) ++ [bs]: the last facet lacks a, the others contain it *)
    assert (Hlen : length (map (cons a) (drop_one bs)) = length bs) by (now rewrite map_length, length_drop_one).
    assert (Hget : forall l1 p l2, map (cons a) (drop_one bs) ++ [bs] = l1 ++ p :: l2 ->
              (length l1 = length bs /\ p = bs) \/ (length l1 < length bs /\ exists p0 m1 m2, p = a :: p0 /\ drop_one bs = m1 ++ p0 :: m2 /\ length m1 = length l1)).
    { intros k1 p0 k2 E. assert (Hn : nth_error (map (cons a) (drop_one bs) ++ [bs]) (length k1) = Some p0).
      { rewrite E, nth_error_app2 by lia. now rewrite Nat.sub_diag. }
      destruct (Nat.lt_ge_cases (length k1) (length bs)) as [Hlt|Hge].
      - right. split; [exact Hlt|]. rewrite nth_error_app1 in Hn by lia. rewrite nth_error_map in Hn.
        destruct (nth_error (drop_one bs) (length k1)) as [p1|] eqn:En; [|discriminate]. simpl in Hn. injection Hn as <-.
        apply nth_error_split in En. destruct En as (m1 & m2 & Em & Elen). exists p1, m1, m2. auto.
      - left. assert (length k1 = length bs).
        { assert (length (map (cons a) (drop_one bs) ++ [bs]) = length (k1 ++ p0 :: k2)) by (now rewrite E).
          rewrite !app_length in H. simpl in H. lia. }
        split; [exact H|]. rewrite nth_error_app2 in Hn by lia. rewrite Hlen, H, Nat.sub_diag in Hn. simpl in Hn. congruence. }
    destruct (Hget _ _ _ E1) as [[L1 ->]|(L1 & p0 & m1 & m2 & -> & Em1 & Lm1)];
    destruct (Hget _ _ _ E2) as [[L3 ->]|(L3 & q0 & m3 & m4 & -> & Em3 & Lm3)].
    - lia.
    - (* p = bs lacks a, q = a :: q0 has it *) apply Hx. apply Hss. now left.
    - apply Hx. apply Hss. now left.
    - apply (IH Hxs m1 p0 m2 m3 q0 m4 Em1 Em3); [lia|]. intros y. split; intros Hy.
      + assert (Hy' : In y (a :: q0)) by (apply Hss; now right). destruct Hy' as [<-|Hy']; [|exact Hy'].
        exfalso. apply Hx. assert (Hin : In p0 (drop_one bs)) by (rewrite Em1; apply in_or_app; right; now left).
        destruct (facet_props bs p0 Hxs Hin) as (_ & Hi & _). now apply Hi.
      + assert (Hy' : In y (a :: p0)) by (apply Hss; now right). destruct Hy' as [<-|Hy']; [|exact Hy'].
        exfalso. apply Hx. assert (Hin : In q0 (drop_one bs)) by (rewrite Em3; apply in_or_app; right; now left).
        destruct (facet_props bs q0 Hxs Hin) as (_ & Hi & _). now apply Hi. }
  clear EL. intros H. induction H as [|s pfs fs L [Hc Hs] Hrest IH]; [constructor|]. constructor.
  - intros Hin. destruct (named_in r fs L s Hrest Hin) as (q & Hq & _ & Hsq).
    apply in_split in Hq. destruct Hq as (l3 & l4 & ->).
    apply (HL [] pfs (l3 ++ q :: l4) (pfs :: l3) q l4 eq_refl eq_refl); [simpl; lia|].
    intros y. rewrite <- (Hs y). apply Hsq.
  - apply IH. intros l1 p l2 l3 q l4 E1 E2 Hne. apply (HL (pfs :: l1) p l2 (pfs :: l3) q l4); simpl; try congruence; lia.
Qed.

Lemma Forall2_len {A B} (P : A -> B -> Prop) l1 l2 : Forall2 P l1 l2 -> length l1 = length l2.
Proof. induction 1; simpl; auto. Qed.

(* ---------- the closing add: the facets are there, the simplex on bs is not ---------- *)
Lemma final_add r bs fs nm at' r' s : vinv r -> NoDup bs -> 2 <= length bs ->
  named r fs (drop_one bs) -> (forall t, containsSimplex r t = true -> ~ sameset (basisOf r t) bs) ->
  addSimplex r fs nm at' = (r', Ok s) ->
  vinv r' /\ containsSimplex r' s = true /\ sameset (basisOf r' s) bs /\ ext bs (length bs) r r'.
Proof.
  intros Hv Hnd Hl Hnm Hno H.
  pose proof (c_s r (b_c r (v_b r Hv))) as HS.
  assert (Hlen : length fs = length bs) by (rewrite <- (length_drop_one bs); exact (Forall2_len _ _ _ Hnm)).
  (* what the faces span is bs *)
  assert (Hspan : forall B, span r fs B -> sameset B bs).
  { intros B [HB1 HB2] p. rewrite HB2. split.
    - intros (f & Hf & Hp). destruct (named_in r fs _ f Hnm Hf) as (pfs & Hpfs & _ & Hs).
      destruct (facet_props bs pfs Hnd Hpfs) as (_ & Hi & _). apply Hi. now apply Hs.
    - intros Hp. destruct (facets_cover bs p Hnd Hl Hp) as (pfs & Hpfs & Hpp).
      destruct (named_in_L r fs _ pfs Hnm Hpfs) as (f & Hf & _ & Hs). exists f. split; [exact Hf | now apply Hs]. }
  assert (Hg : good_faces r fs).
  { right. intros B HB. pose proof (Hspan B HB) as Hss. split.
    - rewrite Hlen. apply NoDup_sameset_length; [exact (proj1 HB) | exact Hnd | exact Hss].
    - intros t Ht Hst. apply (Hno t Ht). intros x. rewrite (Hst x). apply Hss. }
  assert (Hv' : vinv r') by (eapply addSimplex_vinv; eauto).
  destruct (addSimplex_effect r fs nm at' r' s HS H) as (Hnew & _ & Ho & Hf & Hold & Hall).
  assert (Hc' : containsSimplex r' s = true) by (rewrite Hall, name_eqb_refl; apply orb_true_r).
  (* the basis of the new simplex: the union of the bases of its faces *)
  assert (Hb : sameset (basisOf r' s) bs).
  { apply Hspan. split; [apply basis_nodup; exact (s_p r' (c_s r' (b_c r' (v_b r' Hv'))))|].
    unfold containsSimplex in Hc'. destruct (assoc s (r_simp r')) as [[ks js]|] eqn:As; [|discriminate].
    unfold orderOf in Ho. rewrite As in Ho. injection Ho as Ho.
    destruct (b_b r' (v_b r' Hv') s ks js As) as [_ B1]. intros p. rewrite (B1 ltac:(lia) p). split.
    - intros (u & Hu & Hp). apply Hf in Hu. exists u. split; [exact Hu|].
      destruct (named_in r fs _ u Hnm Hu) as (_ & _ & Hcu & _). destruct (Hold u Hcu) as (_ & _ & _ & Bu). now rewrite <- Bu.
    - intros (u & Hu & Hp). exists u. split; [now apply Hf|].
      destruct (named_in r fs _ u Hnm Hu) as (_ & _ & Hcu & _). destruct (Hold u Hcu) as (_ & _ & _ & Bu). now rewrite Bu. }
  split; [exact Hv'|]. split; [exact Hc'|]. split; [exact Hb|].
  apply (ext_add bs (length bs) r fs nm at' r' s HS ltac:(lia) H).
  - intros x Hx. now apply Hb.
  - rewrite (NoDup_sameset_length _ _ (basis_nodup r' s (s_p r' (c_s r' (b_c r' (v_b r' Hv'))))) Hnd Hb). lia.
Qed.

(* ---------- _addSimplexWithBasis ---------- *)
Definition awb_ok (fuel : nat) : Prop :=
  forall r id attr k bs r' s, vinv r -> NoDup bs -> bs <> [] -> pts r bs ->
  c_awb fuel r id attr k bs = (r', Ok s) ->
  vinv r' /\ containsSimplex r' s = true /\ sameset (basisOf r' s) bs /\ ext bs (length bs) r r'.

Definition awbF (f : nat) (id : name) (attr : handle) (k : nat) (acc : rep * res (list name)) (pfs : list name) :=
  match acc with
  | (st', Raise e) => (st', Raise e)
  | (st', Ok fs) =>
      match c_awb f st' id attr k pfs with
      | (st'', Ok s) => (st'', Ok (fs ++ [s]))
      | (st'', Raise e) => (st'', Raise e)
      end
  end.

Lemma awbF_raise f id attr k L : forall st e, fold_left (awbF f id attr k) L (st, Raise e) = (st, Raise e).
Proof. induction L as [|p L IH]; intros st e; simpl; [reflexivity | apply IH]. Qed.

Lemma fold_spec f id attr k bs m : awb_ok f -> forall (L Lacc : list (list name)) st acc st1 fs,
  (forall pfs, In pfs L -> NoDup pfs /\ pfs <> [] /\ incl pfs bs /\ length pfs <= m) ->
  vinv st -> pts st bs -> named st acc Lacc ->
  fold_left (awbF f id attr k) L (st, Ok acc) = (st1, Ok fs) ->
  vinv st1 /\ ext bs m st st1 /\ named st1 fs (Lacc ++ L).
Proof.
  intros Hf. induction L as [|pfs L IH]; intros Lacc st acc st1 fs HL Hv Hp Hn H; simpl in H.
  - injection H as <- <-. rewrite app_nil_r. split; [exact Hv|]. split; [apply ext_refl | exact Hn].
  - destruct (c_awb f st id attr k pfs) as [st2 [s|e]] eqn:E.
    2: { rewrite awbF_raise in H. discriminate. }
    destruct (HL pfs (or_introl eq_refl)) as (Hnd & Hne & Hi & Hm).
    assert (Hpp : pts st pfs) by (intros b Hb; apply Hp, Hi, Hb).
    destruct (Hf st id attr k pfs st2 s Hv Hnd Hne Hpp E) as (Hv2 & Hc2 & Hs2 & Hx2).
    assert (Hx2' : ext bs m st st2) by (apply (ext_mono pfs (length pfs) bs m); auto).
    assert (Hn2 : named st2 (acc ++ [s]) (Lacc ++ [pfs])).
    { apply Forall2_app; [apply (named_ext bs m st st2); auto | constructor; [split; assumption | constructor]]. }
    destruct (IH (Lacc ++ [pfs]) st2 (acc ++ [s]) st1 fs (fun p Hin => HL p (or_intror Hin)) Hv2 (pts_ext bs m st st2 bs Hx2' Hp) Hn2 H)
      as (Hv1 & Hx1 & Hn1).
    split; [exact Hv1|]. split; [apply (ext_trans bs m st st2 st1); auto|]. now rewrite <- app_assoc in Hn1.
Qed.

Theorem awb_spec fuel : awb_ok fuel.
Proof.
  induction fuel as [|f IH]; intros r id attr k bs r' s Hv Hnd Hne Hp H; [discriminate|].
  unfold c_awb in H. cbn [awb] in H.
  change (simplexWithBasis rep (fun r0 => r0) containsSimplex orderOf r bs false) with (c_simplexWithBasis r bs false) in H.
  destruct (c_simplexWithBasis r bs false) as [[q|]|e] eqn:El; [| |discriminate].
  - (* already there *)
    injection H as <- <-. destruct (lookup_some r bs q Hv El) as [Hc Hs].
    split; [exact Hv|]. split; [exact Hc|]. split; [exact Hs | apply ext_refl].
  - destruct (lookup_none r bs Hv Hp Hnd Hne El) as [Hl Hno].
    change (fold_left _ (drop_one bs) (r, Ok [])) with (fold_left (awbF f id attr k) (drop_one bs) (r, Ok [])) in H.
    destruct (fold_left (awbF f id attr k) (drop_one bs) (r, Ok [])) as [st1 [fs|e]] eqn:Ef; [|discriminate].
    assert (HL : forall pfs, In pfs (drop_one bs) -> NoDup pfs /\ pfs <> [] /\ incl pfs bs /\ length pfs <= length bs - 1).
    { intros pfs Hin. destruct (facet_props bs pfs Hnd Hin) as (H1 & H2 & H3 & _). split; [exact H1|]. split; [|split; [exact H2 | lia]].
      intros ->. simpl in H3. lia. }
    destruct (fold_spec f id attr k bs (length bs - 1) IH (drop_one bs) [] r [] st1 fs HL Hv Hp (Forall2_nil _) Ef) as (Hv1 & Hx1 & Hn1).
    simpl in Hn1.
    assert (Hndf : NoDup fs) by (apply (named_nodup st1 bs fs Hnd Hn1)).
    rewrite (dedupn_nodup_id fs Hndf) in H.
    (* no simplex of st1 spans bs: none did in r, and the new ones are smaller *)
    assert (Hno1 : forall t, containsSimplex st1 t = true -> ~ sameset (basisOf st1 t) bs).
    { intros t Ht Hss. destruct (x_new _ _ _ _ Hx1 t Ht) as [Hold|(Hi & Hm & _)].
      - destruct (x_old _ _ _ _ Hx1 t Hold) as (_ & _ & _ & Bt). rewrite Bt in Hss. exact (Hno t Hold Hss).
      - pose proof (NoDup_sameset_length _ _ (basis_nodup st1 t (s_p st1 (c_s st1 (b_c st1 (v_b st1 Hv1))))) Hnd Hss). lia. }
    assert (Hfin : forall st1' nm at', same_obs st1 st1' -> addSimplex st1' fs nm at' = (r', Ok s) ->
              vinv r' /\ containsSimplex r' s = true /\ sameset (basisOf r' s) bs /\ ext bs (length bs) r r').
    { intros st1' nm at' Hso Ha.
      assert (Hx1' : ext bs (length bs - 1) st1 st1') by (now apply ext_same_obs).
      destruct (same_obs_queries st1 st1' Hso) as (_ & _ & _ & _ & Qb & Qc & _).
      assert (Hno1' : forall t, containsSimplex st1' t = true -> ~ sameset (basisOf st1' t) bs).
      { intros t Ht. rewrite Qc in Ht. intros Hss. apply (Hno1 t Ht). intros x. rewrite <- Qb. apply Hss. }
      destruct (final_add st1' bs fs nm at' r' s (vinv_same_obs st1 st1' Hso Hv1) Hnd Hl
                  (named_ext bs (length bs - 1) st1 st1' fs _ Hx1' Hn1) Hno1' Ha) as (A & B & C & D).
      split; [exact A|]. split; [exact B|]. split; [exact C|].
      apply (ext_trans bs (length bs) r st1' r'); [|exact D].
      apply (ext_mono bs (length bs - 1) bs (length bs)); [|apply incl_refl | lia].
      apply (ext_trans bs (length bs - 1) r st1 st1'); assumption. }
    destruct (k =? length bs - 1).
    + apply (Hfin st1 (Some id) (Some attr) (same_obs_refl st1) H).
    + destruct (newSimplex_fresh st1 (length bs - 1)) as (i1 & n1 & En1 & _).
      rewrite En1 in H. destruct (name_eqb n1 id).
      * destruct (newSimplex_fresh (set_seq st1 (S i1)) (length bs - 1)) as (i2 & n2 & En2 & _).
        rewrite En2 in H.
        apply (Hfin (set_seq (set_seq st1 (S i1)) (S i2)) (Some n2) None); [|exact H].
        eapply same_obs_trans; apply same_obs_set_seq.
      * apply (Hfin (set_seq st1 (S i1)) (Some n1) None); [apply same_obs_set_seq | exact H].
Qed.

(* ---------- ensureBasis: the missing points are created, nothing else ---------- *)
Record grows (bs : list name) (r r' : rep) : Prop := {
  g_old : forall t, containsSimplex r t = true ->
          containsSimplex r' t = true /\ orderOf r' t = orderOf r t /\ faces r' t = faces r t /\ basisOf r' t = basisOf r t;
  g_new : forall t, containsSimplex r' t = true -> containsSimplex r t = true \/ incl (basisOf r' t) bs }.

Lemma grows_refl bs r : grows bs r r. Proof. constructor; auto. Qed.
Lemma grows_trans bs a b c : grows bs a b -> grows bs b c -> grows bs a c.
Proof.
  intros [O1 N1] [O2 N2]. constructor.
  - intros t Ht. destruct (O1 t Ht) as (C1 & Or1 & F1 & B1). destruct (O2 t C1) as (C2 & Or2 & F2 & B2).
    split; [exact C2|]. repeat split; congruence.
  - intros t Ht. destruct (N2 t Ht) as [Hb|Hn]; [|now right].
    destruct (N1 t Hb) as [Ha|Hi]; [now left|]. right. destruct (O2 t Hb) as (_ & _ & _ & B2). now rewrite B2.
Qed.
Lemma grows_same_obs bs r r' : same_obs r r' -> grows bs r r'.
Proof.
  intros Hs. destruct (same_obs_queries r r' Hs) as (Qo & _ & Qf & _ & Qb & Qc & _).
  constructor; intros t H; [rewrite Qc, Qo, Qf, Qb; auto | left; now rewrite <- Qc].
Qed.
Lemma grows_ext bs m r r' : ext bs m r r' -> grows bs r r'.
Proof. intros [O N]. constructor; [exact O|]. intros t Ht. destruct (N t Ht) as [H|(H & _)]; auto. Qed.

Lemma ensure_add_spec bs h : forall l r r', vinv r -> incl l bs ->
  ensure_add rep containsSimplex orderOf addSimplex r l (Some h) = (r', Ok tt) ->
  vinv r' /\ pts r' l /\ grows bs r r'.
Proof.
  induction l as [|b t IH]; intros r r' Hv Hi H; simpl in H.
  - injection H as <-. split; [exact Hv|]. split; [intros b []|apply grows_refl].
  - assert (Hit : incl t bs) by (intros x Hx; apply Hi; now right).
    destruct (containsSimplex r b) eqn:Cb.
    + unfold orderOf in H. unfold containsSimplex in Cb. destruct (assoc b (r_simp r)) as [[[|k] i]|] eqn:Ab; try discriminate.
      destruct (IH r r' Hv Hit H) as (Hv' & Hp' & Hg). split; [exact Hv'|]. split; [|exact Hg].
      intros b0 [<-|Hb0]; [|now apply Hp'].
      assert (Hc : containsSimplex r b = true) by (unfold containsSimplex; now rewrite Ab).
      destruct (g_old _ _ _ Hg b Hc) as (C' & Or & _). unfold orderOf in Or. rewrite Ab in Or.
      unfold containsSimplex in C'. destruct (assoc b (r_simp r')) as [[k i']|]; [|discriminate]. injection Or as ->. eauto.
    + destruct (addSimplex r [] (Some b) (Some h)) as [r1 [n|e]] eqn:E; [|discriminate].
      pose proof (c_s r (b_c r (v_b r Hv))) as HS.
      assert (Hv1 : vinv r1) by (eapply addSimplex_vinv; [exact Hv | now left | exact E]).
      destruct (addSimplex_given r [] b h r1 n E) as (-> & _ & _).
      destruct (addSimplex_effect r [] (Some b) (Some h) r1 b HS E) as (_ & _ & Ho & _ & Hold & Hall).
      assert (Hb1 : basisOf r1 b = [b]).
      { unfold orderOf in Ho. destruct (assoc b (r_simp r1)) as [[kb ib]|] eqn:Ab; [|discriminate]. injection Ho as ->.
        destruct (b_b r1 (v_b r1 Hv1) b 0 ib Ab) as [B0 _]. now apply B0. }
      assert (Hg1 : grows bs r r1).
      { constructor.
        - intros t0 Ht0. destruct (Hold t0 Ht0) as (O & _ & F & B). split; [rewrite Hall, Ht0; reflexivity | auto].
        - intros t0 Ht0. rewrite Hall in Ht0. apply orb_prop in Ht0. destruct Ht0 as [Ht0|Ht0]; [now left|].
          apply name_eqb_eq in Ht0. subst t0. right. rewrite Hb1. intros x [<-|[]]. apply Hi. now left. }
      destruct (IH r1 r' Hv1 Hit H) as (Hv' & Hp' & Hg). split; [exact Hv'|]. split; [|apply (grows_trans bs r r1 r'); assumption].
      intros b0 [<-|Hb0]; [|now apply Hp'].
      assert (Hc : containsSimplex r1 b = true) by (rewrite Hall, name_eqb_refl; apply orb_true_r).
      destruct (g_old _ _ _ Hg b Hc) as (C' & Or & _). rewrite Ho in Or. simpl in Or.
      unfold orderOf in Or. unfold containsSimplex in C'. destruct (assoc b (r_simp r')) as [[k i']|]; [|discriminate].
      injection Or as ->. eauto.
Qed.

(* ---------- addSimplexWithBasis ---------- *)
Theorem addSimplexWithBasis_spec r bs id attr r' n : vinv r -> NoDup bs -> 2 <= length bs ->
  c_addSimplexWithBasis r bs id attr = (r', Ok n) ->
  vinv r' /\ containsSimplex r' n = true /\ sameset (basisOf r' n) bs /\ grows bs r r'.
Proof.
  intros Hv Hnd Hl H. unfold c_addSimplexWithBasis, addSimplexWithBasis in H.
  destruct bs as [|b0 bs0]; [simpl in Hl; lia|]. set (bs := b0 :: bs0) in *.
  destruct (match id with
            | Some n0 => containsSimplex r n0 || ((0 <? length bs - 1) && memn n0 bs)
            | None => false
            end); [discriminate|].
  assert (Hst : exists st h, (match attr with Some h => (r, h) | None => let '(r'0, h) := alloc r in (r'0, h) end) = (st, h) /\ same_obs r st).
  { destruct attr as [h0|]; [exists r, h0; split; [reflexivity | apply same_obs_refl]|].
    unfold alloc. eexists. eexists. split; [reflexivity|]. repeat split. }
  destruct Hst as (st & h & Est & Hso). rewrite Est in H.
  change (simplexWithBasis rep (fun r0 => r0) containsSimplex orderOf st bs false) with (c_simplexWithBasis st bs false) in H.
  destruct (c_simplexWithBasis st bs false) as [[q|]|e]; try discriminate.
  replace (length bs - 1 =? 0) with false in H by (symmetry; apply Nat.eqb_neq; lia).
  assert (Hvst : vinv st) by (eapply vinv_same_obs; eauto).
  unfold ensureBasis in H. destruct (ensure_check rep containsSimplex orderOf st bs); [|discriminate].
  destruct (ensure_add rep containsSimplex orderOf addSimplex st bs (Some h)) as [st1 [[]|e]] eqn:Ee; [|discriminate].
  destruct (ensure_add_spec bs h bs st st1 Hvst (incl_refl bs) Ee) as (Hv1 & Hp1 & Hg1).
  assert (Hne : bs <> []) by discriminate.
  assert (Hfin : forall st2 nm, same_obs st1 st2 -> c_awb (S (length bs)) st2 nm h (length bs - 1) bs = (r', Ok n) ->
            vinv r' /\ containsSimplex r' n = true /\ sameset (basisOf r' n) bs /\ grows bs r r').
  { intros st2 nm Hso2 Ha.
    assert (Hp2 : pts st2 bs).
    { intros b Hb. destruct (Hp1 b Hb) as (i & Ab). destruct Hso2 as (_ & _ & Hsimp & _). rewrite Hsimp. eauto. }
    destruct (awb_spec (S (length bs)) st2 nm h (length bs - 1) bs r' n (vinv_same_obs st1 st2 Hso2 Hv1) Hnd Hne Hp2 Ha)
      as (A & B & C & D).
    split; [exact A|]. split; [exact B|]. split; [exact C|].
    apply (grows_trans bs r st r'); [now apply grows_same_obs|].
    apply (grows_trans bs st st1 r'); [exact Hg1|].
    apply (grows_trans bs st1 st2 r'); [now apply grows_same_obs | now apply (grows_ext bs (length bs))]. }
  destruct id as [nm|].
  - apply (Hfin st1 nm (same_obs_refl st1) H).
  - destruct (newSimplex_fresh st1 (length bs - 1)) as (i1 & n1 & En1 & _). rewrite En1 in H.
    apply (Hfin (set_seq st1 (S i1)) n1 (same_obs_set_seq st1 (S i1)) H).
Qed.
