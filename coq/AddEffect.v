(* AddEffect.v -- the exact effect of a successful addSimplex (C02: "adding by faces adds exactly
   one simplex ... and disturbs nothing else"), for every representation satisfying the shape
   invariant: the new simplex has the order and exactly the faces asked for, and every simplex that
   was there keeps its order, its position, its faces and its basis.  Plain Coq. *)
From Coq Require Import String ZArith Bool Arith List Lia.
From SV Require Import Names NamesFacts ListFacts Rep Fresh Complex Atomic RepInv Shapes Incidence.
From SV Require FiltProofs.
Import ListNotations.
Open Scope nat_scope.

(* ---------- reading names off a column ---------- *)
Lemma names_of_col_snoc_false l x c : length c = length l ->
  names_of_col (l ++ [x]) (c ++ [false]) = names_of_col l c.
Proof.
  unfold names_of_col. revert c. induction l as [|a l IH]; intros [|b c] H; simpl in *; try discriminate; auto.
  injection H as H. destruct b; simpl; [f_equal|]; now apply IH.
Qed.

Lemma names_of_col_longer l l2 c : length c <= length l -> names_of_col (l ++ l2) c = names_of_col l c.
Proof.
  unfold names_of_col. revert c. induction l as [|a l IH]; intros [|b c] H; simpl in *; try lia; auto.
  - now destruct l2.
  - destruct b; simpl; [f_equal|]; apply IH; lia.
Qed.

Lemma In_names_of_col_mark idx fs t : In t (names_of_col idx (mark idx fs)) <-> In t idx /\ In t fs.
Proof.
  unfold names_of_col, mark. induction idx as [|a l IH]; simpl; [tauto|].
  destruct (memn a fs) eqn:E; simpl.
  - apply memn_In in E. rewrite IH. split.
    + intros [<-|[H1 H2]]; auto.
    + intros [[<-|H1] H2]; auto.
  - rewrite IH. split.
    + intros [H1 H2]; auto.
    + intros [[<-|H1] H2]; auto. assert (Hm : memn a fs = true) by (now apply memn_In). congruence.
Qed.

Lemma names_of_col_last l x : names_of_col (l ++ [x]) (repeat false (length l) ++ [true]) = [x].
Proof. unfold names_of_col. induction l as [|a l IH]; simpl; auto. Qed.

Lemma getcol_app_col m col j : j < ncols m -> getcol j (app_col m col) = getcol j m.
Proof. intros H. unfold getcol, app_col, ncols in *. simpl. now rewrite app_nth1. Qed.
Lemma getcol_app_col_new m col : getcol (ncols m) (app_col m col) = col.
Proof. unfold getcol, app_col, ncols. simpl. rewrite app_nth2 by lia. now rewrite Nat.sub_diag. Qed.
Lemma getcol_app_zero_row m j : j < ncols m -> getcol j (app_zero_row m) = getcol j m ++ [false].
Proof.
  intros H. unfold getcol, app_zero_row, ncols in *. simpl.
  rewrite (nth_indep _ [] (([] : list bool) ++ [false])) by (now rewrite map_length).
  now rewrite (map_nth (fun c => c ++ [false])).
Qed.

Lemma length_getcol m nr nc j : dims m nr nc -> j < nc -> length (getcol j m) = nr.
Proof.
  intros (Hok & Hr & Hc) Hj. unfold getcol. unfold mat_ok in Hok. rewrite Forall_forall in Hok.
  rewrite (Hok (nth j (mcols m) [])); [exact Hr|]. apply nth_In. unfold ncols in Hc. lia.
Qed.

(* ---------- a successful addSimplex, with everything its checks established ---------- *)
Lemma addSimplex_eq2 r fs id attr r' n :
  addSimplex r fs id attr = (r', Ok n) ->
  exists r2 h, same_obs r r2 /\ containsSimplex r2 n = false /\ NoDup fs /\
    check_faces r2 (length fs - 1) fs = Ok tt /\ (length fs - 1 = 0 -> fs = []) /\
    length fs - 1 <= r_nord r2 /\
    r' = add_final (add_struct r2 (length fs - 1)) fs n h (length fs - 1).
Proof.
  unfold addSimplex. intros H.
  destruct ((length fs - 1 =? 0) && negb (length fs =? 0)) eqn:E0; [discriminate|].
  set (X := match id with
            | None => newSimplex r (length fs - 1)
            | Some n => if containsSimplex r n then (r, Raise KeyError) else (r, Ok n)
            end) in H.
  assert (Hid : (exists r1 m, X = (r1, Ok m) /\ same_obs r r1 /\ containsSimplex r1 m = false) \/ exists r1 e, X = (r1, Raise e)).
  { unfold X. destruct id as [m|].
    - destruct (containsSimplex r m) eqn:C; [right; eauto | left; exists r, m; repeat split; auto].
    - destruct (newSimplex_fresh r (length fs - 1)) as (i & m & Hn & _ & _ & Hc).
      left. exists (set_seq r (S i)), m. split; [exact Hn|]. split; [apply same_obs_set_seq|]. exact Hc. }
  destruct Hid as [(r1 & m & Hid & Hs1 & Hc1) | (r1 & e & Hid)]; rewrite Hid in H; [|discriminate].
  assert (Hs2 : same_obs r (fst (match attr with Some h => (r1, h) | None => alloc r1 end)) /\
                containsSimplex (fst (match attr with Some h => (r1, h) | None => alloc r1 end)) m = false).
  { destruct attr; simpl; [auto|]. split; [eapply same_obs_trans; [exact Hs1 | apply same_obs_alloc] | exact Hc1]. }
  destruct (match attr with Some h => (r1, h) | None => alloc r1 end) as [r2 h] eqn:Ea. simpl in Hs2.
  destruct Hs2 as [Hs2 Hc2].
  destruct (nodupb fs) eqn:End; [|discriminate]. simpl in H.
  destruct (check_faces r2 (length fs - 1) fs) as [[]|e1] eqn:Ec; [|discriminate].
  assert (Hk0 : length fs - 1 = 0 -> fs = []).
  { intros Hz. rewrite Hz in E0. simpl in E0. destruct fs; auto. simpl in E0. discriminate. }
  assert (Hm : m = n /\ length fs - 1 <= r_nord r2 /\ r' = add_final (add_struct r2 (length fs - 1)) fs m h (length fs - 1)).
  { unfold add_struct.
    destruct (r_nord r2 <=? length fs - 1) eqn:E1.
    - destruct (r_nord r2 <? length fs - 1) eqn:E2; [discriminate|].
      apply Nat.leb_le in E1. apply Nat.ltb_ge in E2. 
      destruct (length fs - 1) as [|k'] eqn:Ek; cbn [fst snd] in H.
      + simpl in H. inversion H; subst. repeat split; auto; lia.
      + simpl r_nord in H. rewrite Nat.ltb_irrefl in H. inversion H; subst. simpl r_nord. rewrite Nat.ltb_irrefl. repeat split; auto; lia.
    - apply Nat.leb_gt in E1.
      destruct (0 <? length fs - 1).
      + destruct (simplexWithFaces r2 fs) as [[sw|]|e2]; try discriminate.
        destruct (length fs - 1) as [|k'] eqn:Ek; cbn [fst snd] in H; destruct (S _ <? _) in *; inversion H; subst; repeat split; auto; lia.
      + destruct (length fs - 1) as [|k'] eqn:Ek; cbn [fst snd] in H; destruct (S _ <? _) in *; inversion H; subst; repeat split; auto; lia. }
  destruct Hm as (-> & Hle & Hr').
  exists r2, h. split; [exact Hs2|]. split; [exact Hc2|]. split; [now apply nodupb_NoDup|].
  split; [exact Ec|]. split; [exact Hk0|]. split; [exact Hle | exact Hr'].
Qed.

Lemma assoc_old {B} s (l : list (name * B)) x v : assoc s l = Some v -> assoc s (l ++ [x]) = Some v.
Proof. intros H. now rewrite assoc_app, H. Qed.
Lemma assoc_new {B} s (l : list (name * B)) (v : B) : assoc s l = None -> assoc s (l ++ [(s, v)]) = Some v.
Proof. intros H. rewrite assoc_app, H. simpl. now rewrite name_eqb_refl. Qed.

Section AddHigher.
  Variables (r2 : rep) (fs : list name) (n : name) (h : handle) (k k' : nat).
  Hypothesis Hinv : sinv r2.
  Hypothesis Ek : k = S k'.
  Hypothesis Hk : k <= r_nord r2.
  Hypothesis Hnew : containsSimplex r2 n = false.
  Hypothesis Hchk : check_faces r2 k fs = Ok tt.

  Let r' := add_final_hi (add_struct_hi r2 k k') fs n h k k'.

  Let rz := add_struct_hi r2 k k'.
  Lemma rz_simp : r_simp rz = r_simp r2.
  Proof. unfold rz, add_struct_hi. destruct (r_nord r2 <=? k); cbn [r_nord set_struct]; destruct (S k <? _); reflexivity. Qed.
  Lemma rz_idx j : nth j (r_idx rz) [] = idxk r2 j.
  Proof.
    unfold rz, add_struct_hi. destruct (r_nord r2 <=? k); cbn [r_nord set_struct]; destruct (S k <? _); cbn [r_idx set_struct];
      try apply nth_app_snoc_nil; reflexivity.
  Qed.
  Lemma rz_len : k < length (r_idx rz).
  Proof.
    pose proof (s_p r2 Hinv) as [K Pm St L].
    unfold rz, add_struct_hi. destruct (r_nord r2 <=? k) eqn:G; cbn [r_nord set_struct]; destruct (S k <? _); cbn [r_idx set_struct];
      rewrite ?app_length; simpl; try (apply Nat.leb_gt in G); lia.
  Qed.

  Lemma hi_simp : r_simp r' = r_simp r2 ++ [(n, (k, length (idxk r2 k)))].
  Proof.
    unfold r', add_final_hi. fold rz. cbn [r_simp]. rewrite rz_simp.
    rewrite nth_upd_nth_same by apply rz_len. rewrite rz_idx, app_length. simpl.
    replace (length (idxk r2 k) + 1 - 1) with (length (idxk r2 k)) by lia. reflexivity.
  Qed.

  (* the listings and matrices after the add, for the orders that existed *)
  Lemma hi_idx j : idxk r' j = if j =? k then idxk r2 k ++ [n] else idxk r2 j.
  Proof.
    unfold r', add_final_hi, idxk. fold rz. cbn [r_idx]. rewrite nth_upd_nth.
    pose proof rz_len as Hl. apply Nat.ltb_lt in Hl. rewrite Hl, andb_true_r, !rz_idx. reflexivity.
  Qed.

  Lemma hi_bnd ks : ks < r_nord r2 ->
    bndk r' ks = if ks =? k then app_col (bndk r2 k) (mark (idxk r2 k') fs)
                 else if ks =? S k then app_zero_row (bndk r2 (S k)) else bndk r2 ks.
  Proof.
    intros Hks. unfold r', add_final_hi, add_struct_hi, bndk. cbn [r_bnd].
    pose proof Hinv as [P Lb Ls Sh].
    destruct (r_nord r2 <=? k) eqn:G.
    - apply Nat.leb_le in G. cbn [r_nord set_struct]. rewrite Nat.ltb_irrefl. cbn [r_bnd set_struct].
      rewrite nth_upd_nth. replace (ks =? k) with false by (symmetry; apply Nat.eqb_neq; lia).
      replace (ks =? S k) with false by (symmetry; apply Nat.eqb_neq; lia). simpl andb. cbv iota.
      rewrite app_nth1 by lia. reflexivity.
    - apply Nat.leb_gt in G.
      set (rzz := if S k <? r_nord r2 then _ else r2).
      assert (Hz : forall j, nth j (r_bnd rzz) emptymat =
                             if (j =? S k) && (S k <? r_nord r2) then app_zero_row (bndk r2 (S k)) else bndk r2 j).
      { intros j. unfold rzz. destruct (S k <? r_nord r2) eqn:E; cbn [r_bnd set_struct].
        - rewrite nth_upd_nth, Lb, E, !andb_true_r. destruct (j =? S k); reflexivity.
        - now rewrite andb_false_r. }
      assert (Hlz : length (r_bnd rzz) = r_nord r2).
      { unfold rzz. destruct (S k <? r_nord r2); cbn [r_bnd set_struct]; [now rewrite length_upd_nth | exact Lb]. }
      assert (Hiz : idxk rzz k' = idxk r2 k') by (unfold rzz, idxk; destruct (S k <? r_nord r2); reflexivity).
      rewrite nth_upd_nth, Hlz. replace (k <? r_nord r2) with true by (symmetry; apply Nat.ltb_lt; lia).
      rewrite andb_true_r, !Hz. fold (idxk rzz k'). rewrite Hiz.
      destruct (ks =? k) eqn:E1.
      + replace (k =? S k) with false by (symmetry; apply Nat.eqb_neq; lia). reflexivity.
      + destruct (ks =? S k) eqn:E2; [|reflexivity]. apply Nat.eqb_eq in E2. subst ks.
        now replace (S k <? r_nord r2) with true by (symmetry; apply Nat.ltb_lt; lia).
  Qed.

  Lemma hi_bas ks : ks < r_nord r2 ->
    exists col, bask r' ks = if ks =? k then app_col (bask r2 k) col else bask r2 ks.
  Proof.
    intros Hks. unfold r', add_final_hi, add_struct_hi, bask. cbn [r_bas].
    pose proof Hinv as [P Lb Ls Sh].
    destruct (r_nord r2 <=? k) eqn:G.
    - apply Nat.leb_le in G. cbn [r_nord set_struct]. rewrite Nat.ltb_irrefl. cbn [r_bas set_struct].
      exists []. rewrite nth_upd_nth. replace (ks =? k) with false by (symmetry; apply Nat.eqb_neq; lia).
      simpl andb. cbv iota. rewrite app_nth1 by lia. reflexivity.
    - apply Nat.leb_gt in G.
      set (rzz := if S k <? r_nord r2 then _ else r2).
      assert (Hbz : r_bas rzz = r_bas r2) by (unfold rzz; destruct (S k <? r_nord r2); reflexivity).
      eexists. rewrite Hbz, nth_upd_nth, Ls. replace (k <? r_nord r2) with true by (symmetry; apply Nat.ltb_lt; lia).
      rewrite andb_true_r. reflexivity.
  Qed.

  (* every simplex that was there keeps its order, position, faces and basis *)
  Theorem hi_old s ks i : assoc s (r_simp r2) = Some (ks, i) ->
    assoc s (r_simp r') = Some (ks, i) /\ faces r' s = faces r2 s /\ basisOf r' s = basisOf r2 s.
  Proof.
    intros As. pose proof Hinv as [P Lb Ls Sh]. pose proof P as [K Pm St L].
    destruct (proj1 (Pm s ks i) As) as [Hks Hi].
    assert (Hil : i < length (idxk r2 ks)) by (apply nth_error_Some; congruence).
    assert (As' : assoc s (r_simp r') = Some (ks, i)) by (rewrite hi_simp; now apply assoc_old).
    destruct (Sh ks Hks) as [Hdb Hdn].
    split; [exact As'|]. split.
    - unfold faces. rewrite As', As. destruct ks as [|ks']; [reflexivity|].
      specialize (Hdn ltac:(lia)). replace (S ks' - 1) with ks' in Hdn by lia.
      fold (idxk r' ks'). fold (bndk r' (S ks')). rewrite hi_idx, (hi_bnd (S ks') Hks).
      destruct (S ks' =? k) eqn:E1.
      + apply Nat.eqb_eq in E1. replace (ks' =? k) with false by (symmetry; apply Nat.eqb_neq; lia).
        rewrite <- E1. rewrite getcol_app_col; [reflexivity|]. destruct Hdn as (_ & _ & Hc). lia.
      + destruct (S ks' =? S k) eqn:E2.
        * apply Nat.eqb_eq in E2. injection E2 as E2. subst ks'. rewrite Nat.eqb_refl.
          rewrite getcol_app_zero_row by (destruct Hdn as (_ & _ & Hc); lia).
          apply names_of_col_snoc_false. apply (length_getcol _ _ _ _ Hdn). exact Hil.
        * change (ks' =? k) with (S ks' =? S k). rewrite E2. reflexivity.
    - unfold basisOf. rewrite As', As. fold (idxk r' 0). fold (bask r' ks).
      rewrite hi_idx. replace (0 =? k) with false by (symmetry; apply Nat.eqb_neq; lia).
      destruct (hi_bas ks Hks) as (col & ->).
      destruct (ks =? k) eqn:E1; [|reflexivity]. apply Nat.eqb_eq in E1. subst ks.
      rewrite getcol_app_col; [reflexivity|]. destruct Hdb as (_ & _ & Hc). lia.
  Qed.

  (* the new simplex has the order asked for and exactly the faces asked for *)
  Theorem hi_new : assoc n (r_simp r') = Some (k, length (idxk r2 k)) /\ forall t, In t (faces r' n) <-> In t fs.
  Proof.
    pose proof Hinv as [P Lb Ls Sh]. pose proof P as [K Pm St L].
    assert (An : assoc n (r_simp r2) = None) by (unfold containsSimplex in Hnew; destruct (assoc n (r_simp r2)); [discriminate | reflexivity]).
    assert (As' : assoc n (r_simp r') = Some (k, length (idxk r2 k))) by (rewrite hi_simp; now apply assoc_new).
    split; [exact As'|]. intros t. unfold faces. rewrite As'. rewrite Ek at 1.
    fold (idxk r' k'). rewrite hi_idx. replace (k' =? k) with false by (symmetry; apply Nat.eqb_neq; lia).
    assert (Hcol : getcol (length (idxk r2 k)) (nth (S k') (r_bnd r') emptymat) = mark (idxk r2 k') fs).
    { fold (bndk r' (S k')). rewrite <- Ek.
      destruct (Nat.ltb_spec k (r_nord r2)) as [Hlt|Hge].
      - rewrite (hi_bnd k Hlt), Nat.eqb_refl.
        destruct (Sh k Hlt) as [_ Hdn]. destruct Hdn as (_ & _ & Hc); [lia|]. rewrite <- Hc. apply getcol_app_col_new.
      - (* a new order: the matrix was created empty *)
        assert (Hkn : k = r_nord r2) by lia.
        unfold r', add_final_hi, add_struct_hi, bndk. cbn [r_bnd].
        replace (r_nord r2 <=? k) with true by (symmetry; apply Nat.leb_le; lia).
        cbn [r_nord set_struct]. rewrite Nat.ltb_irrefl. cbn [r_bnd r_idx set_struct].
        rewrite nth_upd_nth_same by (rewrite app_length; simpl; lia).
        rewrite app_nth2 by lia. rewrite Lb, <- Hkn, Nat.sub_diag. simpl nth.
        rewrite (St k) by lia. simpl length.
        unfold idxk at 1. cbn [r_idx set_struct]. rewrite nth_app_snoc_nil.
        exact (getcol_app_col_new (zeros (length (nth k' (r_idx r2) [])) 0) (mark (nth k' (r_idx r2) []) fs)). }
    unfold bndk. rewrite Hcol, In_names_of_col_mark. split; [tauto|]. intros Hin. split; [|exact Hin].
    destruct (check_faces_ok_orders r2 k fs Hchk t Hin) as (fo & fi & Af & Efo).
    assert (fo = k') by lia. subst fo. destruct (proj1 (Pm t k' fi) Af) as [_ Hn]. eapply nth_error_In; eauto.
  Qed.
End AddHigher.

Section AddVertex.
  Variables (r2 : rep) (n : name) (h : handle).
  Hypothesis Hinv : sinv r2.
  Hypothesis Hnew : containsSimplex r2 n = false.

  Let r' := add_final (add_struct r2 0) [] n h 0.
  Let rz := add_struct r2 0.

  Lemma v_rz_simp : r_simp rz = r_simp r2.
  Proof. unfold rz, add_struct. destruct (r_nord r2 <=? 0); cbn [r_nord set_struct]; destruct (1 <? _); reflexivity. Qed.
  Lemma v_rz_idx j : nth j (r_idx rz) [] = idxk r2 j.
  Proof.
    unfold rz, add_struct. destruct (r_nord r2 <=? 0); cbn [r_nord set_struct]; destruct (1 <? _); cbn [r_idx set_struct];
      try apply nth_app_snoc_nil; reflexivity.
  Qed.
  Lemma v_rz_len : 0 < length (r_idx rz).
  Proof.
    pose proof (s_p r2 Hinv) as [K Pm St L].
    unfold rz, add_struct. destruct (r_nord r2 <=? 0) eqn:G; cbn [r_nord set_struct]; destruct (1 <? _); cbn [r_idx set_struct];
      rewrite ?app_length; simpl; try (apply Nat.leb_gt in G); lia.
  Qed.

  Lemma v_simp : r_simp r' = r_simp r2 ++ [(n, (0, length (idxk r2 0)))].
  Proof.
    unfold r', add_final. fold rz. cbn [r_simp]. rewrite v_rz_simp.
    rewrite nth_upd_nth_same by apply v_rz_len. rewrite v_rz_idx, app_length. simpl.
    replace (length (idxk r2 0) + 1 - 1) with (length (idxk r2 0)) by lia. reflexivity.
  Qed.

  Lemma v_idx j : idxk r' j = if j =? 0 then idxk r2 0 ++ [n] else idxk r2 j.
  Proof.
    unfold r', add_final, idxk. fold rz. cbn [r_idx]. rewrite nth_upd_nth.
    pose proof v_rz_len as Hl. apply Nat.ltb_lt in Hl. rewrite Hl, andb_true_r, !v_rz_idx. reflexivity.
  Qed.

  Lemma v_bnd ks : ks < r_nord r2 -> bndk r' ks = if ks =? 1 then app_zero_row (bndk r2 1) else bndk r2 ks.
  Proof.
    intros Hks. pose proof Hinv as [P Lb Ls Sh].
    unfold r', add_final, bndk. fold rz. cbn [r_bnd]. unfold rz, add_struct.
    replace (r_nord r2 <=? 0) with false by (symmetry; apply Nat.leb_gt; lia).
    destruct (1 <? r_nord r2) eqn:E; cbn [r_bnd set_struct].
    - rewrite nth_upd_nth, Lb, E, andb_true_r. reflexivity.
    - apply Nat.ltb_ge in E. replace (ks =? 1) with false by (symmetry; apply Nat.eqb_neq; lia). reflexivity.
  Qed.

  (* every column of every basis matrix gets one more (false) row *)
  Lemma v_bas_col ks i : ks < r_nord r2 -> i < ncols (bask r2 ks) -> (ks = 0 -> 0 < nrows (bask r2 0)) ->
    getcol i (bask r' ks) = getcol i (bask r2 ks) ++ [false].
  Proof.
    intros Hks Hi Hnz. pose proof Hinv as [P Lb Ls Sh].
    unfold r', add_final, bask. fold rz. cbn [r_bas].
    assert (Hn : r_nord rz = r_nord r2).
    { unfold rz, add_struct. replace (r_nord r2 <=? 0) with false by (symmetry; apply Nat.leb_gt; lia). destruct (1 <? _); reflexivity. }
    assert (Hb : r_bas rz = r_bas r2).
    { unfold rz, add_struct. replace (r_nord r2 <=? 0) with false by (symmetry; apply Nat.leb_gt; lia). destruct (1 <? _); reflexivity. }
    rewrite Hn, Hb.
    set (bas1 := if 1 <? r_nord r2 then _ else r_bas r2).
    assert (Hbas1 : forall j, j < r_nord r2 -> nth j bas1 emptymat = if 0 <? j then app_zero_row (bask r2 j) else bask r2 j).
    { intros j Hj. unfold bas1. destruct (1 <? r_nord r2) eqn:E.
      - rewrite (nth_map_default _ _ (0, emptymat)) by (rewrite combine_length, seq_length; lia).
        rewrite nth_combine_seq by lia. cbn [fst snd]. change (0 + j) with j. apply Nat.ltb_lt in Hj. rewrite Hj, andb_true_r. reflexivity.
      - apply Nat.ltb_ge in E. assert (j = 0) by lia. subst. reflexivity. }
    assert (Hlb1 : length bas1 = r_nord r2).
    { unfold bas1. destruct (1 <? r_nord r2); [|exact Ls]. rewrite map_length, combine_length, seq_length. lia. }
    rewrite nth_set_nth, Hlb1.
    destruct ks as [|ks].
    - replace (0 <? r_nord r2) with true by (symmetry; apply Nat.ltb_lt; lia). simpl ((0 =? 0) && true). cbv iota.
      rewrite (Hbas1 0 Hks). change (0 <? 0) with false. cbv iota. fold (bask r2 0).
      specialize (Hnz eq_refl). replace (nrows (bask r2 0) =? 0) with false by (symmetry; apply Nat.eqb_neq; lia).
      unfold getcol. cbn [mcols]. unfold ncols in Hi. rewrite app_nth1 by (now rewrite map_length).
      rewrite (nth_indep _ [] (([] : list bool) ++ [false])) by (now rewrite map_length).
      now rewrite (map_nth (fun c => c ++ [false])).
    - simpl ((S ks =? 0) && _). cbv iota. rewrite (Hbas1 (S ks) Hks). simpl (0 <? S ks). cbv iota.
      now apply getcol_app_zero_row.
  Qed.

  Theorem v_old s ks i : assoc s (r_simp r2) = Some (ks, i) ->
    assoc s (r_simp r') = Some (ks, i) /\ faces r' s = faces r2 s /\ basisOf r' s = basisOf r2 s.
  Proof.
    intros As. pose proof Hinv as [P Lb Ls Sh]. pose proof P as [K Pm St L].
    destruct (proj1 (Pm s ks i) As) as [Hks Hi].
    assert (Hil : i < length (idxk r2 ks)) by (apply nth_error_Some; congruence).
    assert (As' : assoc s (r_simp r') = Some (ks, i)) by (rewrite v_simp; now apply assoc_old).
    destruct (Sh ks Hks) as [Hdb Hdn].
    split; [exact As'|]. split.
    - unfold faces. rewrite As', As. destruct ks as [|ks']; [reflexivity|].
      specialize (Hdn ltac:(lia)). replace (S ks' - 1) with ks' in Hdn by lia.
      fold (idxk r' ks'). fold (bndk r' (S ks')). rewrite v_idx, (v_bnd (S ks') Hks).
      destruct ks' as [|ks''].
      + simpl (1 =? 1). simpl (0 =? 0). cbv iota.
        rewrite getcol_app_zero_row by (destruct Hdn as (_ & _ & Hc); lia).
        apply names_of_col_snoc_false. apply (length_getcol _ _ _ _ Hdn). exact Hil.
      + reflexivity.
    - unfold basisOf. rewrite As', As. fold (idxk r' 0). fold (bask r' ks). rewrite v_idx. simpl (0 =? 0). cbv iota.
      assert (Hnz : ks = 0 -> 0 < nrows (bask r2 0)).
      { intros ->. destruct Hdb as (_ & Hr0 & _). lia. }
      rewrite (v_bas_col ks i Hks) by (try exact Hnz; destruct Hdb as (_ & _ & Hc); lia).
      apply names_of_col_snoc_false. fold (idxk r2 0). apply (length_getcol _ _ _ _ Hdb). exact Hil.
  Qed.
End AddVertex.

(* ---------- the effect of a successful addSimplex ---------- *)
Theorem addSimplex_effect r fs id attr r' n : sinv r -> addSimplex r fs id attr = (r', Ok n) ->
  containsSimplex r n = false /\ NoDup fs /\
  orderOf r' n = Ok (length fs - 1) /\ (forall t, In t (faces r' n) <-> In t fs) /\
  (forall s, containsSimplex r s = true ->
     orderOf r' s = orderOf r s /\ indexOf r' s = indexOf r s /\ faces r' s = faces r s /\ basisOf r' s = basisOf r s) /\
  (forall s, containsSimplex r' s = containsSimplex r s || name_eqb s n).
Proof.
  intros Hinv H.
  destruct (FiltProofs.addSimplex_contains r fs id attr r' n (s_p r Hinv) H) as [Hc Hall].
  apply addSimplex_eq2 in H. destruct H as (r2 & h & Hs & Hc2 & Hnd & Hchk & Hk0 & Hk & ->).
  assert (Hinv2 : sinv r2) by (eapply sinv_same_obs; eauto).
  destruct (same_obs_queries r r2 Hs) as (Qo & Qi & Qf & _ & Qb & Qc & _).
  split; [exact Hc|]. split; [exact Hnd|].
  destruct (length fs - 1) as [|k'] eqn:Ek.
  - (* a point *)
    assert (fs = []) by (now apply Hk0). subst fs.
    assert (An : assoc n (r_simp r2) = None) by (unfold containsSimplex in Hc2; destruct (assoc n (r_simp r2)); [discriminate | reflexivity]).
    assert (As' : assoc n (r_simp (add_final (add_struct r2 0) [] n h 0)) = Some (0, length (idxk r2 0))).
    { rewrite (v_simp r2 n h Hinv2). now apply assoc_new. }
    split; [unfold orderOf; now rewrite As'|]. split.
    { intros t. unfold faces. rewrite As'. simpl. tauto. }
    split; [|exact Hall].
    intros s Hcs. rewrite <- Qc in Hcs. unfold containsSimplex in Hcs.
    destruct (assoc s (r_simp r2)) as [[ks i]|] eqn:As; [|discriminate].
    destruct (v_old r2 n h Hinv2 s ks i As) as (A' & Hf & Hb).
    rewrite <- Qo, <- Qi, <- Qf, <- Qb. unfold orderOf, indexOf. rewrite A', As. repeat split; assumption.
  - rewrite add_hi_eq.
    assert (E1 : S k' = S k') by reflexivity.
    destruct (hi_new r2 fs n h (S k') k' Hinv2 E1 Hk Hc2 Hchk) as [As' Hfaces].
    split; [unfold orderOf; now rewrite As'|]. split; [exact Hfaces|].
    split; [|rewrite <- add_hi_eq; exact Hall].
    intros s Hcs. rewrite <- Qc in Hcs. unfold containsSimplex in Hcs.
    destruct (assoc s (r_simp r2)) as [[ks i]|] eqn:As; [|discriminate].
    destruct (hi_old r2 fs n h (S k') k' Hinv2 E1 Hk s ks i As) as (A' & Hf & Hb).
    rewrite <- Qo, <- Qi, <- Qf, <- Qb. unfold orderOf, indexOf. rewrite A', As. repeat split; assumption.
Qed.
