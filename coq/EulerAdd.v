(* EulerAdd.v -- C19: the Euler integral is additive over disjoint unions.  A complex u is the disjoint
   union of x and y when its simplices are those of x and of y (each once) and every simplex has in u the
   order and the smallest point metric it has in its part.  Immediate from the simplex-wise formula.  Plain Coq. *)
From Coq Require Import String ZArith Bool Arith List Lia Permutation.
From SV Require Import Names NamesFacts ListFacts Rep Fresh Complex Homology Atomic RepInv Reach Shapes Incidence AddEffect
                       Closed ClosedReach AddBasis BasisInv VInv Gen EulerInt.
Import ListNotations.

Theorem integrate_additive hp a d u x y :
  vinv u -> vinv x -> vinv y ->
  (forall s, containsSimplex u s = true -> exists z, metric hp u a d s = Ok z) ->
  (forall s, containsSimplex x s = true -> exists z, metric hp x a d s = Ok z) ->
  (forall s, containsSimplex y s = true -> exists z, metric hp y a d s = Ok z) ->
  (forall p i, assoc p (r_simp u) = Some (0, i) -> (0 <= m hp a d u p)%Z) ->
  (forall p i, assoc p (r_simp x) = Some (0, i) -> (0 <= m hp a d x p)%Z) ->
  (forall p i, assoc p (r_simp y) = Some (0, i) -> (0 <= m hp a d y p)%Z) ->
  Permutation (simplices u false) (simplices x false ++ simplices y false) ->
  (forall s, In s (simplices x false) -> ord u s = ord x s /\ minm hp a d u s = minm hp a d x s) ->
  (forall s, In s (simplices y false) -> ord u s = ord y s /\ minm hp a d u s = minm hp a d y s) ->
  exists zx zy, integrate hp x a d = Ok zx /\ integrate hp y a d = Ok zy /\ integrate hp u a d = Ok (zx + zy)%Z.
Proof.
  intros Vu Vx Vy Nu Nx Ny Pu Px Py Hperm Hx Hy.
  rewrite (integrate_is_simplexwise_sum hp a d u Vu Nu Pu), (integrate_is_simplexwise_sum hp a d x Vx Nx Px),
          (integrate_is_simplexwise_sum hp a d y Vy Ny Py).
  eexists. eexists. split; [reflexivity|]. split; [reflexivity|]. f_equal.
  rewrite (zsum_perm _ _ _ Hperm), zsum_app. f_equal; apply zsum_ext_in; intros s Hs.
  - destruct (Hx s Hs) as [-> ->]. reflexivity.
  - destruct (Hy s Hs) as [-> ->]. reflexivity.
Qed.
