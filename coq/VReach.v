(* VReach.v -- the vertex-set reading holds at every point of every history of in-contract public
   operations: adding points, adding by basis, deleting (a simplex, by basis, several), restricting
   to a set of points, renaming (one simplex or a whole renaming).  Plain Coq. *)
From Coq Require Import String ZArith Bool Arith List Lia.
From SV Require Import Names NamesFacts ListFacts Rep Fresh Complex Atomic RepInv Reach ReachGen ReachGen2 Shapes Incidence AddEffect
                       Closed ClosedReach AddBasis BasisInv.
From SV Require Import VInv AwbSpec.
Import ListNotations.
Open Scope nat_scope.

Inductive vop :=
| VPoint (id : option name) (attr : option handle)
| VAddB (bs : list name) (id : option name) (attr : option handle)
| VDelete (s : name) | VDeleteB (bs : list name) | VDeletes (ss : list name)
| VRestrict (bs : list name)
| VRelabel (rn : ren) | VRelabel1 (s q : name).

(* add by basis: a duplicate-free basis of at least two names (DESIGN.md 5(e)); a rejected request
   leaves the complex as it was (C05) *)
Definition vstep (r : rep) (o : vop) : rep :=
  match o with
  | VPoint id attr => fst (addSimplex r [] id attr)
  | VAddB bs id attr =>
      if nodupb bs && (2 <=? length bs) then
        match c_addSimplexWithBasis r bs id attr with (r', Ok _) => r' | (_, Raise _) => r end
      else r
  | VDelete s => fst (deleteSimplex r s)
  | VDeleteB bs => fst (deleteSimplexWithBasis r bs)
  | VDeletes ss => fst (deleteSimplices r ss)
  | VRestrict bs => fst (restrictBasisTo r bs)
  | VRelabel rn => let '(r', _, _) := relabel r rn in r'
  | VRelabel1 s q => fst (relabelSimplex r s q)
  end.

Lemma vstep_vinv r o : vinv r -> vinv (vstep r o).
Proof.
  intros H. destruct o; cbn [vstep].
  - destruct (addSimplex r [] id attr) eqn:E. eapply addSimplex_vinv; [exact H | now left | exact E].
  - destruct (nodupb bs && (2 <=? length bs)) eqn:C; [|exact H]. apply andb_prop in C. destruct C as [C1 C2].
    apply nodupb_NoDup in C1. apply Nat.leb_le in C2.
    destruct (c_addSimplexWithBasis r bs id attr) as [r' [n|e]] eqn:E; [|exact H].
    now destruct (addSimplexWithBasis_spec r bs id attr r' n H C1 C2 E).
  - destruct (deleteSimplex r s) eqn:E. eapply deleteSimplex_vinv; eauto.
  - destruct (deleteSimplexWithBasis r bs) eqn:E. eapply (ReachGen2.deleteSimplexWithBasis_I vinv deleteSimplex_vinv); eauto.
  - destruct (deleteSimplices r ss) eqn:E. eapply (ReachGen2.deleteSimplices_I vinv deleteSimplex_vinv); eauto.
  - destruct (restrictBasisTo r bs) eqn:E. eapply (ReachGen2.restrictBasisTo_I vinv deleteSimplex_vinv); eauto.
  - destruct (relabel r rn) as [[r' st] x] eqn:E. eapply (ReachGen2.relabel_I vinv relabelSimplex_vinv); eauto.
  - destruct (relabelSimplex r s q) eqn:E. eapply relabelSimplex_vinv; eauto.
Qed.

Theorem vertex_set_reading_at_every_point uid ops : vinv (fold_left vstep ops (empty_rep uid)).
Proof.
  assert (H : forall r, vinv r -> vinv (fold_left vstep ops r)).
  { induction ops as [|o t IH]; intros r Hr; simpl; auto. apply IH. now apply vstep_vinv. }
  apply H. apply vinv_empty.
Qed.

(* in the words of C01 *)
Theorem a_simplex_is_its_basis r : vinv r ->
  (forall t k, orderOf r t = Ok k -> NoDup (basisOf r t) /\ length (basisOf r t) = S k /\
               forall p, In p (basisOf r t) -> orderOf r p = Ok 0) /\
  (forall t u, containsSimplex r t = true -> containsSimplex r u = true ->
               (forall p, In p (basisOf r t) <-> In p (basisOf r u)) -> t = u).
Proof.
  intros Hv. pose proof (s_p r (c_s r (b_c r (v_b r Hv)))) as P. split.
  - intros t k Ho. unfold orderOf in Ho. destruct (assoc t (r_simp r)) as [[k0 j]|] eqn:At; [|discriminate]. injection Ho as ->.
    split; [now apply basis_nodup|]. split; [eapply v_card; eauto|].
    intros p Hp. unfold basisOf in Hp. rewrite At in Hp. apply In_names_of_col_sub in Hp.
    pose proof P as [K Pm St L]. apply In_nth_error in Hp. destruct Hp as (i0 & Hi0).
    assert (A0 : assoc p (r_simp r) = Some (0, i0)).
    { apply Pm. split; [|exact Hi0]. destruct (Nat.lt_ge_cases 0 (r_nord r)) as [Hl|Hl]; [exact Hl|].
      rewrite (St 0 Hl) in Hi0. destruct i0; discriminate. }
    unfold orderOf. now rewrite A0.
  - intros t u Ht Hu Hss. eapply v_uniq; eauto.
Qed.

(* add by basis, in the words of C02: the simplex on bs is there afterwards under the returned name,
   nothing that was there has changed, and everything new lies inside bs and was missing before *)
Theorem add_by_basis_effect r bs id attr r' n : vinv r -> NoDup bs -> 2 <= length bs ->
  c_addSimplexWithBasis r bs id attr = (r', Ok n) ->
  vinv r' /\ containsSimplex r' n = true /\ (forall p, In p (basisOf r' n) <-> In p bs) /\
  (forall t, containsSimplex r t = true ->
     containsSimplex r' t = true /\ orderOf r' t = orderOf r t /\ faces r' t = faces r t /\ basisOf r' t = basisOf r t) /\
  (forall t, containsSimplex r' t = true -> containsSimplex r t = false ->
     incl (basisOf r' t) bs /\ forall u, containsSimplex r u = true -> ~ (forall p, In p (basisOf r u) <-> In p (basisOf r' t))).
Proof.
  intros Hv Hnd Hl H. destruct (addSimplexWithBasis_spec r bs id attr r' n Hv Hnd Hl H) as (Hv' & Hc & Hs & [O N]).
  split; [exact Hv'|]. split; [exact Hc|]. split; [exact Hs|]. split; [exact O|].
  intros t Ht Hnt. destruct (N t Ht) as [Hold|Hi]; [congruence|]. split; [exact Hi|].
  intros u Hu Hss. destruct (O u Hu) as (Cu & _ & _ & Bu).
  assert (u = t); [|subst; congruence].
  apply (v_uniq r' Hv' u t Cu Ht). intros p. rewrite Bu. apply Hss.
Qed.
