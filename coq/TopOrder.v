(* TopOrder.v -- "the reported maximum order is the largest order that actually holds a simplex (-1
   when empty)" (C01), for every history of public operations: maxOrder() is r_nord - 1, and the
   invariant is that the order r_nord - 1 is populated.  It survives deletions because a simplex of
   order k >= 1 has faces (closedness), which stay when it goes.  Plain Coq. *)
From Coq Require Import String ZArith Bool Arith List Lia.
From SV Require Import Names NamesFacts ListFacts Rep Fresh Complex Atomic RepInv Reach ReachGen Shapes Incidence AddEffect.
From SV Require Import DelEffect StarOrder Closed ReachGen2 ClosedReach RelabelProofs VInv.
Import ListNotations.
Open Scope nat_scope.

Definition topinv (r : rep) : Prop := forall k, S k = r_nord r -> exists s j, assoc s (r_simp r) = Some (k, j).
Record tcinv (r : rep) : Prop := { t_c : cinv r; t_t : topinv r }.

Lemma tcinv_empty uid : tcinv (empty_rep uid).
Proof. split; [apply cinv_empty|]. intros k H. discriminate. Qed.

Lemma tcinv_same_obs r r' : same_obs r r' -> tcinv r -> tcinv r'.
Proof.
  intros Hs [C T]. split; [eapply cinv_same_obs; eauto|]. destruct Hs as (_ & Hn & Hsimp & _).
  intros k Hk. rewrite Hn in Hk. rewrite Hsimp. now apply T.
Qed.

Lemma add_struct_nord r2 k : k <= r_nord r2 -> r_nord (add_struct r2 k) = Nat.max (r_nord r2) (S k).
Proof.
  intros Hk. unfold add_struct. destruct (r_nord r2 <=? k) eqn:E.
  - apply Nat.leb_le in E. cbn [r_nord set_struct]. rewrite Nat.ltb_irrefl. cbn [r_nord set_struct]. lia.
  - apply Nat.leb_gt in E. destruct (S k <? r_nord r2); cbn [r_nord set_struct]; lia.
Qed.

Lemma add_final_nord r fs n h k : r_nord (add_final r fs n h k) = r_nord r.
Proof. destruct k; reflexivity. Qed.

Lemma addSimplex_nord r fs id attr r' n : addSimplex r fs id attr = (r', Ok n) ->
  r_nord r' = Nat.max (r_nord r) (S (length fs - 1)).
Proof.
  intros H. apply addSimplex_eq2 in H. destruct H as (r2 & h & Hs & _ & _ & _ & _ & Hk & ->).
  rewrite add_final_nord, add_struct_nord by exact Hk. destruct Hs as (_ & Hn & _). rewrite Hn. reflexivity.
Qed.

Theorem addSimplex_tcinv r fs id attr r' x : tcinv r -> addSimplex r fs id attr = (r', x) -> tcinv r'.
Proof.
  intros [C T] H. destruct x as [n|e].
  2: { apply addSimplex_atomic in H. destruct H as [Hs _]. eapply tcinv_same_obs; eauto. split; auto. }
  split; [eapply addSimplex_cinv; eauto|].
  pose proof (addSimplex_nord r fs id attr r' n H) as Hn.
  destruct (addSimplex_effect r fs id attr r' n (c_s r C) H) as (_ & _ & Ho & _ & Hold & _).
  intros k Hk. rewrite Hn in Hk.
  destruct (Nat.le_gt_cases (r_nord r) (S (length fs - 1))) as [Hle|Hgt].
  - assert (k = length fs - 1) by lia. subst k. unfold orderOf in Ho.
    destruct (assoc n (r_simp r')) as [[o j]|] eqn:An; [|discriminate]. injection Ho as ->. now exists n, j.
  - destruct (T k ltac:(lia)) as (s & j & A).
    assert (Cs : containsSimplex r s = true) by (unfold containsSimplex; now rewrite A).
    destruct (Hold s Cs) as (O & _). unfold orderOf in O. rewrite A in O.
    destruct (assoc s (r_simp r')) as [[o j']|] eqn:As'; [|discriminate]. injection O as ->. now exists s, j'.
Qed.

Theorem relabelSimplex_tcinv r s q r' x : tcinv r -> relabelSimplex r s q = (r', x) -> tcinv r'.
Proof.
  intros [C T] H. destruct x as [[]|e].
  2: { apply relabelSimplex_atomic in H. destruct H as [-> _]. split; auto. }
  split; [eapply relabelSimplex_cinv; eauto|].
  pose proof (s_p r (c_s r C)) as P.
  destruct (relabelSimplex_carries r s q r' P H) as (_ & _ & Hn & Hidx & _).
  assert (C' : cinv r') by (eapply relabelSimplex_cinv; eauto). pose proof (s_p r' (c_s r' C')) as P'.
  intros k Hk. rewrite Hn in Hk. destruct (T k Hk) as (t & j & A).
  destruct P as [K Pm St L]. apply Pm in A. destruct A as [Hl A].
  assert (A' : nth_error (idxk r' k) j = Some (ren1 s q t)) by (rewrite Hidx; now apply map_nth_error).
  exists (ren1 s q t), j. destruct P' as [K' Pm' St' L']. apply Pm'. split; [lia | exact A'].
Qed.

Theorem forceDelete_tcinv r s r' x : tcinv r -> cofaces r s = [] -> forceDeleteSimplex r s = (r', x) -> tcinv r'.
Proof.
  intros [C T] Hco H. destruct x as [[]|e].
  2: { apply forceDeleteSimplex_atomic in H. destruct H as [-> _]. split; auto. }
  split; [eapply forceDelete_cinv; eauto|].
  pose proof (c_s r C) as HS.
  destruct (assoc s (r_simp r)) as [[k i]|] eqn:As.
  2: { unfold forceDeleteSimplex in H. rewrite As in H. discriminate. }
  assert (Er : r' = fst (forceDeleteSimplex r s)) by (rewrite H; reflexivity). subst r'.
  pose proof (d_nord r s k i HS As) as Hn. pose proof (d_sinv r s k i HS As) as HS'.
  intros k0 Hk0. rewrite Hn in Hk0.
  destruct ((S k =? r_nord r) && (length (remove_nth i (idxk r k)) =? 0)) eqn:Ed.
  - (* the top order emptied: its faces, one order down, are still there *)
    assert (Ek : k = S k0) by lia. rewrite Ek in As. clear Ed. destruct (faces r s) as [|u l] eqn:Ef.
    + pose proof (c_f r C s k0 i As) as Lf. rewrite Ef in Lf. discriminate.
    + destruct (face_order r HS s u (S k0) i As) as (kt' & iu & Ekt & Au); [rewrite Ef; now left|].
      injection Ekt as <-. assert (Ne : u <> s) by (intros ->; rewrite As in Au; injection Au; lia).
      destruct (d_pos r s (S k0) i HS As u k0 iu Ne Au) as (_ & A' & _). eauto.
  - destruct (T k0 Hk0) as (t & j & At). destruct (name_eq_dec t s) as [->|Ne].
    + rewrite As in At. injection At as <- <-.
      apply andb_false_iff in Ed. destruct Ed as [Ed|Ed]; [apply Nat.eqb_neq in Ed; lia|].
      apply Nat.eqb_neq in Ed.
      pose proof (d_idx r s k i HS As k) as Hi. rewrite Nat.eqb_refl in Hi.
      destruct (remove_nth i (idxk r k)) as [|t' l'] eqn:El; [simpl in Ed; lia|].
      exists t', 0. destruct (s_p _ HS') as [K' Pm' St' L']. apply Pm'. split; [rewrite Hn; lia|]. rewrite Hi. reflexivity.
    + destruct (d_pos r s k i HS As t k0 j Ne At) as (_ & A' & _). eauto.
Qed.

Theorem deleteSimplex_tcinv r s r' x : tcinv r -> deleteSimplex r s = (r', x) -> tcinv r'.
Proof.
  intros Hc H. unfold deleteSimplex in H.
  destruct (partOf r s true false) as [L|e] eqn:EP; [|now injection H as <- _].
  assert (Hk : exists k is, assoc s (r_simp r) = Some (k, is)).
  { unfold partOf, orderOf in EP. destruct (assoc s (r_simp r)) as [[k is]|]; [eauto | discriminate]. }
  destruct Hk as (k & is & As).
  assert (HIs : forall r0, tcinv r0 -> sinv r0) by (intros r0 Hv; exact (c_s r0 (t_c r0 Hv))).
  destruct (star_positions r (HIs r Hc) s k is L As EP) as (Hnd & Hin & Hpos).
  exact (fold_delete_any tcinv HIs forceDelete_tcinv L r Hc Hnd Hin Hpos r' x H).
Qed.

(* ---------- every algorithm of base.py, every history of public operations ---------- *)
Local Hint Resolve tcinv_same_obs tcinv_empty addSimplex_tcinv relabelSimplex_tcinv deleteSimplex_tcinv : tcinv.
Ltac inst L := intros; eapply (L tcinv); eauto with tcinv.

Lemma pstep_tcinv r o : tcinv r -> tcinv (pstep r o).
Proof.
  intros H. destruct o; simpl.
  - destruct (addSimplex r fs id attr) eqn:E. eapply addSimplex_tcinv; eauto.
  - destruct (c_addSimplexWithBasis r bs id attr) eqn:E. revert E. inst ReachGen2.addSimplexWithBasis_I.
  - destruct (c_ensureBasis r bs attr) eqn:E. revert E. inst ReachGen2.ensureBasis_I.
  - destruct (addSimplicesFrom hp r src rn) as [[[hp' r'] st] x] eqn:E. revert E. inst ReachGen2.addSimplicesFrom_I.
  - destruct (deleteSimplex r s) eqn:E. eapply deleteSimplex_tcinv; eauto.
  - destruct (deleteSimplexWithBasis r bs) eqn:E. revert E. inst ReachGen2.deleteSimplexWithBasis_I.
  - destruct (deleteSimplices r ss) eqn:E. revert E. inst ReachGen2.deleteSimplices_I.
  - destruct (restrictBasisTo r bs) eqn:E. revert E. inst ReachGen2.restrictBasisTo_I.
  - destruct (barycentricSubdivide r s pts) eqn:E. revert E. inst ReachGen2.barycentricSubdivide_I.
  - destruct (relabel r rn) as [[r' st] x] eqn:E. revert E. inst ReachGen2.relabel_I.
  - destruct (relabelSimplex r s q) eqn:E. eapply relabelSimplex_tcinv; eauto.
Qed.

Theorem public_history_tcinv uid ops : tcinv (fold_left pstep ops (empty_rep uid)).
Proof.
  assert (H : forall r, tcinv r -> tcinv (fold_left pstep ops r)).
  { induction ops as [|o t IH]; intros r Hr; simpl; auto. apply IH. now apply pstep_tcinv. }
  apply H. apply tcinv_empty.
Qed.

(* C01: after every history of public operations maxOrder() is the largest order that holds a
   simplex, and -1 exactly when there is none *)
Theorem maxOrder_is_largest_populated_order uid ops :
  let r := fold_left pstep ops (empty_rep uid) in
  (forall s k j, assoc s (r_simp r) = Some (k, j) -> Z.of_nat k <= maxOrder r)%Z /\
  ((maxOrder r = -1)%Z <-> forall s, containsSimplex r s = false) /\
  ((0 <= maxOrder r)%Z -> exists s j, assoc s (r_simp r) = Some (Z.to_nat (maxOrder r), j)).
Proof.
  intros r. pose proof (public_history_tcinv uid ops) as [C T]. fold r in C, T.
  pose proof (s_p r (c_s r C)) as [K Pm St L]. unfold maxOrder.
  split; [intros s k j A; apply Pm in A; lia|]. split; [split|].
  - intros H s. unfold containsSimplex. destruct (assoc s (r_simp r)) as [[k j]|] eqn:A; [|reflexivity].
    apply Pm in A. lia.
  - intros H. destruct (r_nord r) as [|n] eqn:En; [reflexivity|]. exfalso.
    destruct (T n ltac:(lia)) as (s & j & A). specialize (H s). unfold containsSimplex in H. now rewrite A in H.
  - intros H. destruct (r_nord r) as [|n] eqn:En; [lia|]. destruct (T n ltac:(lia)) as (s & j & A).
    exists s, j. replace (Z.to_nat (Z.of_nat (S n) - 1)) with n by lia. exact A.
Qed.
