(* ZProofs.v -- Z(): the number of chains returned for order k is n_k - rank d_k, the nullity of
   the order-k boundary operator (C07). *)
From Coq Require Import ZArith Lia.
From mathcomp Require Import all_ssreflect all_fingroup all_algebra.
From SV Require Import Names ListFacts Rep Complex Homology ListMat SnfCount Rank Betti.
Set Implicit Arguments.
Unset Strict Implicit.
Unset Printing Implicit Defensive.

Section Labels.
Variable L : Type.

Lemma length_mapi (A B : Type) (f : nat -> A -> B) l : length (mapi f l) = length l.
Proof. by rewrite /mapi length_mapi_from. Qed.

Lemma reduce_step_labels x k l M (cls : list (list L)) :
  length (snd (reduce_step x k l M cls)) = length cls.
Proof. by rewrite /reduce_step /= length_mapi length_swap. Qed.

Lemma reduce_labels fuel : forall x M (cls : list (list L)), length (snd (reduce fuel x M cls)) = length cls.
Proof.
elim: fuel => [|fuel IH] x M cls; first by [].
rewrite reduce_S.
case: (find_pivot x M) => [[k l]|]; last by [].
have := reduce_step_labels x k l M cls.
case: (reduce_step x k l M cls) => M' cls' /= H. by rewrite IH.
Qed.
End Labels.

Lemma reduce_pidform (L : Type) (B : mat) (cls : list (list L)) :
  pidform (nrows B) (ncols B) (rk B) (fst (reduceB (nrows B) (ncols B) (rows_of B) cls)).
Proof.
have HM := wfm_rows_of B.
have [HD He] := @reduce_rank (nrows B) (ncols B) L (rows_of B) cls HM.
split; first exact: HD.
split; first by apply/leP; exact: rk_le_rows.
split; first by apply/leP; exact: rk_le_cols.
by move=> i j Hi Hj; rewrite He // eqb_eqn ltb_ltn.
Qed.

(* as many chains as the nullity of the boundary operator; none when the kernel is trivial *)
Theorem Z1_count r k :
  length (Z1 r k) = (length (simplicesOfOrder r k) - rk (boundaryOperator r k))%coq_nat.
Proof.
rewrite /Z1.
set B := boundaryOperator r k.
set cls := List.map _ _.
have HM := wfm_rows_of B.
have [HD He] := @reduce_rank (nrows B) (ncols B) name (rows_of B) cls HM.
have Hl := @reduce_labels name (Nat.min (nrows B) (ncols B)) 0 (rows_of B) cls.
move: HD He Hl. rewrite /reduceB.
case: (reduce _ 0 (rows_of B) cls) => A cls' HD He Hl.
rewrite [fst _]/= in HD He. rewrite [snd _]/= in Hl.
have Hpid : pidform (nrows B) (ncols B) (rk B) A.
  split; first exact: HD.
  split; first by apply/leP; exact: rk_le_rows.
  split; first by apply/leP; exact: rk_le_cols.
  by move=> i j Hi Hj; rewrite He // eqb_eqn ltb_ltn.
rewrite (@kernelDim_pid _ _ _ _ Hpid) List.skipn_length Hl /cls List.map_length.
have := rk_le_cols B => /leP. lia.
Qed.
